(* C01 / C09: serialising a program and loading the script again, at the level of syntax trees
   (Serialize.ser_script : prog -> option script, then Eval.denote []).  Stdlib only; no axioms.

   (a) literals      parse_z_digits, parse_dec_text
   (b) terms         term_expr_eval (exact: the value is  mk (term_kind t) (norm t)), term_expr_eval_den,
                     expr_pars_term_expr, norm_pars / norm_has_reg / norm_kind / norm_no_fn, tden_norm
       values        value_val_eval, value_val_equiv (wf_scalar)
   (c) programs      wf_prog, reload, ser_denote  (denote [] sc = Ok (reload p), an equality, no arithmetic involved),
                     value_equiv / prog_equiv (reflexive, transitive), reload_equiv, ser_roundtrip,
                     ser_script_total (serialisation succeeds on wf programs),
                     gens / ser_generations (n generations, each intermediate program well formed),
                     reload_wf / ser_generations_total (well-formedness is preserved, so every generation exists,
                     when a tdm program has no array argument: see no_tdm_arrays)
   (d) examples      ex_serialised, ex_script_items, ex_loaded, ex_fields, ex_wf, ex_terms

   Order of the items of the script: hoisted array declarations, then the tdm variable block, then the statements
   (the order of the implementation).
   Laws of arithmetic assumed (Section Equiv): Hnegdec, Hone, Hzero_i, Hzero_c.  Nothing else about K is used;
   integers, booleans, strings, names, shapes and structure come back exactly. *)
From Coq Require Import List NArith ZArith Bool Arith Lia.
Import ListNotations.
From BB Require Import Syntax Values Eval EvalP Serialize.
From BB Require LoadP.

Local Open Scope Z_scope.

(* ================================================================================================ *)
(* (a) literals                                                                                      *)
(* ================================================================================================ *)
Definition is_digit (c:N) : Prop := (48 <= c <= 57)%N.

Lemma digit_val_some c : is_digit c -> digit_val c = Some (Z.of_N c - 48).
Proof.
  unfold is_digit, digit_val. intros [H1 H2].
  apply N.leb_le in H1. apply N.leb_le in H2. rewrite H1, H2. reflexivity.
Qed.

Lemma digit_char z : 0 <= z < 10 -> is_digit (Z.to_N (48 + z)) /\ Z.of_N (Z.to_N (48 + z)) - 48 = z.
Proof. intros H. unfold is_digit. split; lia. Qed.

Lemma digits_fuel_acc : forall f z acc a, 0 <= z < 2 ^ Z.of_nat f ->
  exists k, 0 <= k /\ digits_acc a (digits_fuel f z acc) = digits_acc (a * 10 ^ k + z) acc.
Proof.
  induction f as [|f IH]; intros z acc a Hz.
  - exists 0. split; [lia|]. assert (z = 0) by (simpl in Hz; lia). subst z.
    replace (a * 10 ^ 0 + 0) with a by (rewrite Z.pow_0_r; lia). reflexivity.
  - cbn [digits_fuel].
    assert (Hm : 0 <= z mod 10 < 10) by (apply Z.mod_pos_bound; lia).
    destruct (digit_char _ Hm) as [Hd Hv].
    destruct (Z.ltb z 10) eqn:L.
    + apply Z.ltb_lt in L. exists 1. split; [lia|]. cbn [digits_acc]. rewrite (digit_val_some _ Hd), Hv.
      rewrite Z.mod_small by lia. f_equal; lia.
    + apply Z.ltb_ge in L.
      assert (Hq : 0 <= z / 10 < 2 ^ Z.of_nat f).
      { split; [apply Z.div_pos; lia|]. apply Z.div_lt_upper_bound; [lia|].
        rewrite Nat2Z.inj_succ, Z.pow_succ_r in Hz by lia. lia. }
      destruct (IH (z / 10) (Z.to_N (48 + z mod 10) :: acc) a Hq) as (k & Hk & E).
      exists (k + 1). split; [lia|]. rewrite E. cbn [digits_acc]. rewrite (digit_val_some _ Hd), Hv.
      f_equal. rewrite Z.pow_add_r by lia. pose proof (Z.div_mod z 10 ltac:(lia)). lia.
Qed.

Lemma digits_fuel_shape : forall f z acc, 0 <= z -> Forall is_digit acc ->
  Forall is_digit (digits_fuel f z acc) /\ (f <> 0%nat -> digits_fuel f z acc <> []).
Proof.
  induction f as [|f IH]; intros z acc Hz Ha.
  - split; [exact Ha|]. intros H; contradiction.
  - cbn [digits_fuel].
    assert (Hm : 0 <= z mod 10 < 10) by (apply Z.mod_pos_bound; lia).
    destruct (digit_char _ Hm) as [Hd _].
    destruct (Z.ltb z 10).
    + split; [constructor; assumption|discriminate].
    + assert (Hq : 0 <= z / 10) by (apply Z.div_pos; lia).
      destruct (IH (z / 10) (Z.to_N (48 + z mod 10) :: acc) Hq (Forall_cons _ Hd Ha)) as [F N].
      split; [exact F|]. intros _. destruct f as [|f']; [simpl; discriminate|]. apply N. discriminate.
Qed.

Lemma z_digits_fuel_ok z : 0 <= z -> 0 <= z < 2 ^ Z.of_nat (S (Z.to_nat (Z.log2 z))).
Proof.
  intros Hz. split; [exact Hz|]. rewrite Nat2Z.inj_succ, Z2Nat.id by apply Z.log2_nonneg.
  destruct (Z.eq_dec z 0) as [->|N]; [reflexivity|]. apply Z.log2_spec. lia.
Qed.

(* (a.1) INT texts *)
Theorem parse_z_digits z : 0 <= z -> parse_digits (z_digits z) = Some z.
Proof.
  intros Hz. unfold z_digits.
  destruct (digits_fuel_shape (S (Z.to_nat (Z.log2 z))) z [] Hz (Forall_nil _)) as [_ N].
  unfold parse_digits. destruct (digits_fuel _ z []) eqn:E; [exfalso; apply N; [discriminate|reflexivity]|].
  rewrite <- E. destruct (digits_fuel_acc _ z [] 0 (z_digits_fuel_ok z Hz)) as (k & _ & ->). reflexivity.
Qed.

Lemma z_digits_inj a b : 0 <= a -> 0 <= b -> z_digits a = z_digits b -> a = b.
Proof.
  intros Ha Hb E. pose proof (parse_z_digits a Ha) as P. rewrite E, (parse_z_digits b Hb) in P. congruence.
Qed.

Lemma z_digits_cons z : 0 <= z -> exists c tl, z_digits z = c :: tl /\ is_digit c /\ Forall is_digit tl.
Proof.
  intros Hz. unfold z_digits.
  destruct (digits_fuel_shape (S (Z.to_nat (Z.log2 z))) z [] Hz (Forall_nil _)) as [F N].
  destruct (digits_fuel _ z []) as [|c tl]; [exfalso; apply N; [discriminate|reflexivity]|].
  inversion F; subst. eauto.
Qed.

Lemma z_digits_all z : 0 <= z -> Forall is_digit (z_digits z).
Proof. intros Hz. destruct (z_digits_cons z Hz) as (c & tl & -> & H1 & H2). constructor; assumption. Qed.

Lemma span_digits_all s r :
  Forall is_digit s -> match r with [] => True | c :: _ => digit_val c = None end ->
  span_digits (s ++ r) = (s, r).
Proof.
  intros F Hr. induction F as [|c s Hc F IH]; simpl.
  - destruct r as [|c r]; [reflexivity|]. simpl. rewrite Hr. reflexivity.
  - rewrite (digit_val_some _ Hc), IH. reflexivity.
Qed.

Definition sign_split (r:str) : bool * str :=
  match r with
  | 43%N :: r' => (false, r')
  | 45%N :: r' => (true, r')
  | _ => (false, r)
  end.

Lemma sign_split_digit c r : is_digit c -> sign_split (c :: r) = (false, c :: r).
Proof.
  unfold is_digit. intros H.
  assert (D : (c = 48 \/ c = 49 \/ c = 50 \/ c = 51 \/ c = 52 \/ c = 53 \/ c = 54 \/ c = 55 \/ c = 56 \/ c = 57)%N) by lia.
  repeat (destruct D as [->|D]; [reflexivity|]). subst. reflexivity.
Qed.

(* (a.2) FLOAT texts *)
Theorem parse_dec_text m e : 0 <= m -> parse_float (dec_text m e) = Some (TDec m e).
Proof.
  intros Hm. unfold parse_float, parse_real_prefix, dec_text.
  rewrite (span_digits_all (z_digits m) _ (z_digits_all m Hm)) by reflexivity.
  rewrite (parse_z_digits m Hm). cbn [N.eqb Pos.eqb orb].
  change (match (if e <? 0 then 45%N :: z_digits (- e) else z_digits e) with
          | 43%N :: r1 => (false, r1) | 45%N :: r2 => (true, r2) | _ => (false, if e <? 0 then 45%N :: z_digits (- e) else z_digits e) end)
    with (sign_split (if e <? 0 then 45%N :: z_digits (- e) else z_digits e)).
  destruct (Z.ltb e 0) eqn:L.
  - apply Z.ltb_lt in L. cbn [sign_split].
    rewrite <- (app_nil_r (z_digits (- e))), (span_digits_all _ [] (z_digits_all (- e) ltac:(lia)) I), app_nil_r.
    rewrite (parse_z_digits (- e)) by lia. f_equal. f_equal; lia.
  - apply Z.ltb_ge in L. destruct (z_digits_cons e L) as (c & tl & E & Hc & Ht).
    rewrite E, (sign_split_digit c tl Hc), <- E.
    rewrite <- (app_nil_r (z_digits e)), (span_digits_all _ [] (z_digits_all e L) I), app_nil_r.
    rewrite (parse_z_digits e L). reflexivity.
Qed.

(* ================================================================================================ *)
(* (b) terms                                                                                         *)
(* ================================================================================================ *)

(* the numeric kind of the value of a term: symbolic as soon as a parameter or a register occurs, otherwise
   complex when the imaginary unit occurs, otherwise real (never integer: every leaf is a FLOAT literal) *)
Fixpoint term_kind (t:term) : nkind :=
  match t with
  | TDec _ _ | TPi => KF
  | TI => KC
  | TPar _ | TReg _ => KS
  | TAdd a b | TMul a b | TPow a b => kmax (term_kind a) (term_kind b)
  | TNeg a | TInv a | TFn _ a => term_kind a
  end.

(* no elementary function of a symbolic argument (the evaluator does not support them: known finding D16) *)
Fixpoint no_fn_of_sym (t:term) : Prop :=
  match t with
  | TAdd a b | TMul a b | TPow a b => no_fn_of_sym a /\ no_fn_of_sym b
  | TNeg a | TInv a => no_fn_of_sym a
  | TFn _ a => no_fn_of_sym a /\ term_kind a <> KS
  | _ => True
  end.

(* the term the evaluator builds for [term_expr t] *)
Definition i_term : term := TAdd (TDec 0 0) (TMul (TDec 1 0) TI).         (* 1j *)
Definition zero_c : term := TAdd (TDec 0 0) (TMul (TDec 0 0) TI).         (* 0j *)

Fixpoint norm (t:term) : term :=
  match t with
  | TDec m e => if Z.ltb m 0 then TNeg (TDec (- m) e) else TDec m e
  | TPi => TPi
  | TI => i_term
  | TPar p => TPar p
  | TReg s => TReg s
  | TAdd a b => TAdd (norm a) (norm b)
  | TNeg a => TNeg (norm a)
  | TMul a (TInv b) => TMul (norm a) (TInv (norm b))
  | TMul a b => TMul (norm a) (norm b)
  | TInv a => TMul (TDec 1 0) (TInv (norm a))
  | TPow a b => TPow (norm a) (norm b)
  | TFn f a => TFn f (norm a)
  end.

Definition not_inv (b:term) : Prop := forall c, b <> TInv c.
#[local] Hint Unfold not_inv : core.

(* induction on terms that sees  a * b^-1  as one node *)
Lemma term_ind_div (P:term -> Prop) :
  (forall m e, P (TDec m e)) -> P TPi -> P TI -> (forall p, P (TPar p)) -> (forall s, P (TReg s)) ->
  (forall a b, P a -> P b -> P (TAdd a b)) ->
  (forall a b, P a -> P b -> P (TMul a (TInv b))) ->
  (forall a b, not_inv b -> P a -> P b -> P (TMul a b)) ->
  (forall a, P a -> P (TNeg a)) ->
  (forall a, P a -> P (TInv a)) ->
  (forall a b, P a -> P b -> P (TPow a b)) ->
  (forall f a, P a -> P (TFn f a)) ->
  forall t, P t.
Proof.
  intros Hd Hpi Hi Hpar Hreg Hadd Hdiv Hmul Hneg Hinv Hpow Hfn.
  assert (Q : forall t, P t /\ match t with TInv b => P b | _ => True end).
  { induction t as [m e| | |p|s|a [IHa _] b [IHb _]|a [IHa _] b [IHb IHb']|a [IHa _]|a [IHa _]|a [IHa _] b [IHb _]|f a [IHa _]];
      try (split; [solve [auto]|exact I]).
    - split; [|exact I]. destruct b; try (apply Hmul; [unfold not_inv; intros c; discriminate|assumption|assumption]; fail).
      apply Hdiv; assumption.
    - split; [apply Hinv; exact IHa|exact IHa]. }
  intros t. apply Q.
Qed.

Lemma term_expr_mul a b : not_inv b -> term_expr (TMul a b) = EBr (EMul false (term_expr a) (term_expr b)).
Proof. intros N. destruct b; try reflexivity. exfalso; eapply N; reflexivity. Qed.

Lemma norm_mul a b : not_inv b -> norm (TMul a b) = TMul (norm a) (norm b).
Proof. intros N. destruct b; try reflexivity. exfalso; eapply N; reflexivity. Qed.

Lemma term_kind_not_int t : term_kind t <> KI.
Proof.
  induction t; simpl; try discriminate; try assumption;
    (destruct (term_kind t1); destruct (term_kind t2); simpl in *; congruence).
Qed.

(* value operations on non-integer numbers *)
Lemma v_neg_mk k t : k <> KI -> v_neg (mk k t) = Ok (mk k (TNeg t)).
Proof. destruct k; intros H; try reflexivity; try contradiction. Qed.
Lemma v_add_mk ka kb ta tb : ka <> KI -> kb <> KI ->
  v_add false (mk ka ta) (mk kb tb) = Ok (mk (kmax ka kb) (TAdd ta tb)).
Proof. destruct ka, kb; intros H1 H2; try reflexivity; try contradiction. Qed.
Lemma v_mul_mk ka kb ta tb : ka <> KI -> kb <> KI ->
  v_mul (mk ka ta) (mk kb tb) = Ok (mk (kmax ka kb) (TMul ta tb)).
Proof. destruct ka, kb; intros H1 H2; try reflexivity; try contradiction. Qed.
Lemma v_div_mk ka kb ta tb : ka <> KI -> kb <> KI ->
  v_div (mk ka ta) (mk kb tb) = Ok (mk (kmax ka kb) (TMul ta (TInv tb))).
Proof. destruct ka, kb; intros H1 H2; try reflexivity; try contradiction. Qed.
Lemma v_pow_mk ka kb ta tb : ka <> KI -> kb <> KI ->
  v_pow (mk ka ta) (mk kb tb) = Ok (mk (kmax ka kb) (TPow ta tb)).
Proof. destruct ka, kb; intros H1 H2; try reflexivity; try contradiction. Qed.
Lemma v_fn_mk f k t : k <> KI -> k <> KS -> v_fn f (mk k t) = Ok (mk k (TFn f t)).
Proof. destruct k; intros H1 H2; try reflexivity; try contradiction. Qed.

Lemma eval_dec_lit m e : 0 <= m -> num_value NKFloat (dec_text m e) = Ok (VFlt (TDec m e)).
Proof. intros H. cbn [num_value]. rewrite (parse_dec_text m e H). reflexivity. Qed.

(* (b.1) the value of the expression written for a term: its kind and the exact term *)
Theorem term_expr_eval env pn : forall t, no_fn_of_sym t ->
  eval env pn (term_expr t) = Ok (mk (term_kind t) (norm t)).
Proof.
  induction t using term_ind_div; intros W.
  - cbn [term_expr norm term_kind]. destruct (Z.ltb m 0) eqn:L.
    + apply Z.ltb_lt in L. cbn [eval]. rewrite eval_dec_lit by lia. reflexivity.
    + apply Z.ltb_ge in L. cbn [eval]. rewrite eval_dec_lit by lia. reflexivity.
  - reflexivity.
  - reflexivity.
  - reflexivity.
  - reflexivity.
  - destruct W as [Wa Wb]. cbn [term_expr eval]. rewrite (IHt1 Wa), (IHt2 Wb). cbn [bind].
    apply v_add_mk; apply term_kind_not_int.
  - destruct W as [Wa Wb]. cbn [term_expr eval]. rewrite (IHt1 Wa), (IHt2 Wb). cbn [bind].
    apply v_div_mk; apply term_kind_not_int.
  - destruct W as [Wa Wb]. rewrite (term_expr_mul _ _ H), (norm_mul _ _ H). cbn [eval].
    rewrite (IHt1 Wa), (IHt2 Wb). cbn [bind]. apply v_mul_mk; apply term_kind_not_int.
  - cbn [term_expr eval]. rewrite (IHt W). cbn [bind]. apply v_neg_mk; apply term_kind_not_int.
  - cbn [term_expr eval]. unfold one_text. rewrite eval_dec_lit by lia. rewrite (IHt W). cbn [bind].
    change (VFlt (TDec 1 0)) with (mk KF (TDec 1 0)). rewrite (v_div_mk KF (term_kind t) (TDec 1 0) (norm t)) by (try discriminate; apply term_kind_not_int).
    cbn [term_kind norm]. destruct (term_kind t); reflexivity.
  - destruct W as [Wa Wb]. cbn [term_expr eval]. rewrite (IHt1 Wa), (IHt2 Wb). cbn [bind].
    apply v_pow_mk; apply term_kind_not_int.
  - destruct W as [Wa Ka]. cbn [term_expr eval]. rewrite (IHt Wa). cbn [bind].
    apply v_fn_mk; [apply term_kind_not_int|exact Ka].
Qed.

(* parameters are registered from the syntax *)
Lemma expr_pars_term_expr : forall t, expr_pars (term_expr t) = term_pars t.
Proof.
  induction t using term_ind_div; try reflexivity.
  - cbn [term_expr]. destruct (Z.ltb m 0); reflexivity.
  - cbn [term_expr expr_pars term_pars]. congruence.
  - cbn [term_expr expr_pars term_pars]. congruence.
  - rewrite (term_expr_mul _ _ H). cbn [expr_pars term_pars]. congruence.
  - exact IHt.
  - exact IHt.
  - cbn [term_expr expr_pars term_pars]. congruence.
  - exact IHt.
Qed.

Lemma norm_pars : forall t, term_pars (norm t) = term_pars t.
Proof.
  induction t using term_ind_div; try reflexivity.
  - cbn [norm]. destruct (Z.ltb m 0); reflexivity.
  - cbn [norm term_pars]. congruence.
  - cbn [norm term_pars]. congruence.
  - rewrite (norm_mul _ _ H). cbn [term_pars]. congruence.
  - exact IHt.
  - exact IHt.
  - cbn [norm term_pars]. congruence.
  - exact IHt.
Qed.

Lemma norm_has_reg : forall t, has_reg (norm t) = has_reg t.
Proof.
  induction t using term_ind_div; try reflexivity.
  - cbn [norm]. destruct (Z.ltb m 0); reflexivity.
  - cbn [norm has_reg]. congruence.
  - cbn [norm has_reg]. congruence.
  - rewrite (norm_mul _ _ H). cbn [has_reg]. congruence.
  - exact IHt.
  - exact IHt.
  - cbn [norm has_reg]. congruence.
  - exact IHt.
Qed.

Lemma norm_kind : forall t, term_kind (norm t) = term_kind t.
Proof.
  induction t using term_ind_div; try reflexivity.
  - cbn [norm]. destruct (Z.ltb m 0); reflexivity.
  - cbn [norm term_kind]. congruence.
  - cbn [norm term_kind]. congruence.
  - rewrite (norm_mul _ _ H). cbn [term_kind]. congruence.
  - exact IHt.
  - cbn [norm term_kind]. destruct (term_kind (norm t)) eqn:K; try (rewrite <- IHt; reflexivity).
    exfalso; eapply term_kind_not_int; eauto.
  - cbn [norm term_kind]. congruence.
  - exact IHt.
Qed.

Lemma norm_no_fn : forall t, no_fn_of_sym t -> no_fn_of_sym (norm t).
Proof.
  induction t using term_ind_div; intros W; try exact I.
  - cbn [norm]. destruct (Z.ltb m 0); exact I.
  - simpl. auto.
  - destruct W. cbn [norm no_fn_of_sym]. auto.
  - destruct W. cbn [norm no_fn_of_sym] in *. auto.
  - destruct W. rewrite (norm_mul _ _ H). cbn [no_fn_of_sym]. auto.
  - cbn [norm no_fn_of_sym] in *. auto.
  - cbn [norm no_fn_of_sym] in *. auto.
  - destruct W. cbn [norm no_fn_of_sym]. auto.
  - destruct W. cbn [norm no_fn_of_sym]. rewrite norm_kind. auto.
Qed.

(* a term without parameters or registers mentions no parameter *)
Lemma kmax_KS a b : kmax a b <> KS -> a <> KS /\ b <> KS.
Proof. destruct a, b; simpl; intros H; split; congruence. Qed.

Lemma closed_kind_pars : forall t, term_kind t <> KS -> term_pars t = [] /\ has_reg t = false.
Proof.
  induction t; simpl; intros K; try (split; reflexivity); try congruence; try (apply IHt; exact K);
    apply kmax_KS in K as [K1 K2]; destruct (IHt1 K1) as [-> ->], (IHt2 K2) as [-> ->]; split; reflexivity.
Qed.

Lemma has_reg_kind t : has_reg t = true -> term_kind t = KS.
Proof.
  intros H. destruct (term_kind t) eqn:K; try reflexivity;
    (assert (N : term_kind t <> KS) by congruence; apply closed_kind_pars in N as [_ N]; congruence).
Qed.

Lemma term_expr_not_par t p : term_kind t <> KS -> term_expr t <> EPar p.
Proof.
  destruct t; simpl; try discriminate; try congruence.
  - destruct (Z.ltb m 0); discriminate.
  - destruct t2; discriminate.
Qed.

(* ================================================================================================ *)
(* (b') values                                                                                       *)
(* ================================================================================================ *)

(* integers that can be written: the literal is the absolute value, which must itself be a 64-bit integer
   (so -2^63 is excluded) *)
Definition int_ok (z:Z) : Prop := int64_ok z = true /\ int64_ok (- z) = true.

Lemma eval_int_expr env pn z : int_ok z -> eval env pn (int_expr z) = Ok (VInt z).
Proof.
  intros [H1 H2]. unfold int_expr. destruct (Z.ltb z 0) eqn:L.
  - apply Z.ltb_lt in L. cbn [eval num_value]. rewrite parse_z_digits by lia. unfold mkint. rewrite H2.
    cbn [bind v_neg]. unfold mkint. rewrite Z.opp_involutive, H1. reflexivity.
  - apply Z.ltb_ge in L. cbn [eval num_value]. rewrite parse_z_digits by lia. unfold mkint. rewrite H1. reflexivity.
Qed.

Lemma expr_pars_int_expr z : expr_pars (int_expr z) = [].
Proof. unfold int_expr. destruct (Z.ltb z 0); reflexivity. Qed.

Lemma eval_cpx_expr env pn t : no_fn_of_sym t -> term_kind t <> KS ->
  eval env pn (cpx_expr t) = Ok (VCpx (TAdd (norm t) zero_c)).
Proof.
  intros W K. unfold cpx_expr. cbn [eval]. rewrite (term_expr_eval env pn t W). cbn [bind].
  change (num_value NKComplex zero_j_text) with (Ok (VCpx zero_c)). cbn [bind].
  pose proof (term_kind_not_int t). destruct (term_kind t); try contradiction; reflexivity.
Qed.

Lemma expr_pars_cpx_expr t : expr_pars (cpx_expr t) = term_pars t.
Proof. unfold cpx_expr. cbn [expr_pars]. rewrite expr_pars_term_expr. apply app_nil_r. Qed.

(* the value that comes back for a value that is neither an array nor a list *)
Definition norm_scalar (v:value) : value :=
  match v with
  | VFlt t => VFlt (norm t)
  | VCpx t => VCpx (TAdd (norm t) zero_c)
  | VSym t => VSym (norm t)
  | VTrf t => VTrf (norm t)
  | _ => v
  end.

(* ... for any value *)
Definition norm_value (v:value) : value :=
  match v with
  | VArr ty r c l => VArr ty r c (map norm_scalar l)
  | VList l => VList (map norm_scalar l)
  | _ => norm_scalar v
  end.

(* before [wrap_transform] *)
Definition pre_scalar (v:value) : value := match v with VTrf t => VSym (norm t) | _ => norm_scalar v end.
Definition pre_value (v:value) : value := match v with VTrf t => VSym (norm t) | _ => norm_value v end.

(* parameters registered when the value is loaded again *)
Definition sym_pars (v:value) : list str := match v with VSym t | VTrf t => term_pars t | _ => [] end.
Definition value_spars (v:value) : list str := match v with VList l => flat_map sym_pars l | _ => sym_pars v end.

Section Scalars.
Variable tdm : bool.
Variable PNp : str -> Prop.          (* the p-array names that may be passed by name *)

(* well-formed values other than arrays and lists.  [wrap]: the value is a positional / keyword argument of an
   operation (a symbolic argument mentioning a register is a register transform there, and only there) *)
Definition wf_scalar (wrap:bool) (v:value) : Prop :=
  match v with
  | VInt z => int_ok z
  | VFlt t => no_fn_of_sym t /\ term_kind t = KF
  | VCpx t => no_fn_of_sym t /\ term_kind t <> KS
  | VSym t => no_fn_of_sym t /\ term_kind t = KS /\ (wrap = true -> has_reg t = false)
  | VTrf t => no_fn_of_sym t /\ wrap = true /\ has_reg t = true
  | VBool _ => True
  | VStr s => tdm = true -> is_ptype s = false
  | VPName s => PNp s
  | VArr _ _ _ _ | VList _ => False
  end.

Lemma value_val_eval env pn wrap v w :
  wf_scalar wrap v -> value_val tdm v = Some w ->
  (forall s, PNp s -> eval env pn (EVar s 0 0) = Ok (VPName s)) ->
  eval_val env pn w = Ok (pre_scalar v).
Proof.
  intros W E HP. destruct v; simpl in W, E; try discriminate; injection E as <-; cbn [eval_val pre_scalar norm_scalar].
  - apply eval_int_expr; exact W.
  - destruct W as [W K]. rewrite (term_expr_eval env pn t W), K. reflexivity.
  - destruct W as [W K]. apply eval_cpx_expr; assumption.
  - destruct W as (W & K & _). rewrite (term_expr_eval env pn t W), K. reflexivity.
  - destruct W as (W & _ & R). rewrite (term_expr_eval env pn t W), (has_reg_kind t R). reflexivity.
  - reflexivity.
  - destruct tdm; [rewrite (W eq_refl)|]; reflexivity.
  - apply HP; exact W.
Qed.

Lemma value_val_pars wrap v w : wf_scalar wrap v -> value_val tdm v = Some w -> val_pars w = sym_pars v.
Proof.
  intros W E. destruct v; simpl in W, E; try discriminate; injection E as <-; cbn [val_pars sym_pars].
  - apply expr_pars_int_expr.
  - destruct W as [W K]. rewrite expr_pars_term_expr. apply closed_kind_pars. congruence.
  - destruct W as [W K]. rewrite expr_pars_cpx_expr. apply closed_kind_pars. exact K.
  - apply expr_pars_term_expr.
  - apply expr_pars_term_expr.
  - reflexivity.
  - destruct (tdm && is_ptype s)%bool; reflexivity.
  - reflexivity.
Qed.

Lemma wrap_pre_top v : wf_scalar true v -> wrap_transform (pre_scalar v) = norm_scalar v.
Proof.
  destruct v; simpl; intros W; try reflexivity; try contradiction.
  - destruct W as (_ & _ & R). rewrite norm_has_reg, (R eq_refl). reflexivity.
  - destruct W as (_ & _ & R). rewrite norm_has_reg, R. reflexivity.
Qed.

Lemma pre_nowrap v : wf_scalar false v -> pre_scalar v = norm_scalar v.
Proof. destruct v; simpl; intros W; try reflexivity. destruct W as (_ & W & _); discriminate. Qed.

Lemma wf_scalar_weaken v : wf_scalar true v -> (forall t, v <> VTrf t) -> wf_scalar false v.
Proof.
  destruct v; simpl; intros W N; auto.
  - destruct W as (W & K & _). repeat split; auto. discriminate.
  - exfalso; eapply N; reflexivity.
Qed.

Lemma wf_scalar_val wrap v : wf_scalar wrap v -> exists w, value_val tdm v = Some w.
Proof. destruct v; simpl; intros W; try contradiction; eauto. Qed.

End Scalars.

(* ---------------- arrays ---------------- *)
Definition wf_elem (ty:vtype) (v:value) : Prop :=
  match ty, v with
  | VTInt, VInt z => int_ok z
  | VTFloat, VFlt t => no_fn_of_sym t /\ term_kind t = KF
  | VTComplex, VCpx t => no_fn_of_sym t /\ term_kind t <> KS
  | _, _ => False
  end.

Definition wf_arr (v:value) : Prop :=
  match v with
  | VArr ty r c l => (1 <= r)%nat /\ (1 <= c)%nat /\ length l = (r * c)%nat /\ Forall (wf_elem ty) l
  | _ => False
  end.

Definition is_par (e:expr) : bool := match e with EPar _ => true | _ => false end.

Lemma is_par_match {T} e (a:str -> T) (b:T) : is_par e = false -> match e with EPar p => a p | _ => b end = b.
Proof. destruct e; simpl; intros H; try reflexivity. discriminate. Qed.

Lemma elem_eval_ok env pn ty v e :
  wf_elem ty v -> elem_expr v = Some e ->
  is_par e = false /\ eval env pn e = Ok (norm_scalar v) /\ cast_elem ty (norm_scalar v) = Ok (norm_scalar v) /\
  expr_pars e = [].
Proof.
  intros W E. destruct ty, v; simpl in W; try contradiction; simpl in E; injection E as <-; cbn [norm_scalar].
  - destruct W as [W K]. repeat split.
    + destruct (is_par (term_expr t)) eqn:P; [|reflexivity]. destruct (term_expr t) eqn:T; try discriminate.
      exfalso. eapply (term_expr_not_par t); [congruence|exact T].
    + rewrite (term_expr_eval env pn t W), K. reflexivity.
    + rewrite expr_pars_term_expr. apply closed_kind_pars. congruence.
  - destruct W as [W K]. repeat split.
    + apply eval_cpx_expr; assumption.
    + rewrite expr_pars_cpx_expr. apply closed_kind_pars. exact K.
  - repeat split.
    + unfold int_expr. destruct (Z.ltb z 0); reflexivity.
    + apply eval_int_expr; exact W.
    + apply expr_pars_int_expr.
Qed.

Lemma wf_elem_expr ty v : wf_elem ty v -> exists e, elem_expr v = Some e.
Proof. destruct ty, v; simpl; intros W; try contradiction; eauto. Qed.

Lemma omap_Forall2 {A B} (f:A -> option B) l r : omap f l = Some r -> Forall2 (fun x y => f x = Some y) l r.
Proof.
  revert r. induction l as [|x l IH]; simpl; intros r H.
  - injection H as <-. constructor.
  - destruct (f x) eqn:F; [|discriminate]. destruct (omap f l); [|discriminate]. injection H as <-.
    constructor; auto.
Qed.

Lemma omap_total {A B} (f:A -> option B) l : (forall x, In x l -> exists y, f x = Some y) -> exists r, omap f l = Some r.
Proof.
  induction l as [|x l IH]; intros H; simpl; [eauto|].
  destruct (H x (or_introl eq_refl)) as [y ->]. destruct IH as [r ->]; [intros; apply H; right; assumption|]. eauto.
Qed.

Lemma omap_app {A B} (f:A -> option B) l1 l2 r1 r2 :
  omap f l1 = Some r1 -> omap f l2 = Some r2 -> omap f (l1 ++ l2) = Some (r1 ++ r2).
Proof.
  revert r1. induction l1 as [|x l1 IH]; simpl; intros r1 H1 H2.
  - injection H1 as <-. exact H2.
  - destruct (f x); [|discriminate]. destruct (omap f l1) eqn:E; [|discriminate]. injection H1 as <-.
    rewrite (IH _ eq_refl H2). reflexivity.
Qed.

Lemma arr_elems_ok env pn ty l es :
  Forall (wf_elem ty) l -> omap elem_expr l = Some es ->
  mapM (fun e => match e with
                 | EPar p => Ok (VSym (TPar p))
                 | _ => do v <- eval env pn e; cast_elem ty v
                 end) es = Ok (map norm_scalar l) /\
  flat_map expr_pars es = [] /\ Forall (fun e => is_par e = false) es.
Proof.
  intros W E. apply omap_Forall2 in E. induction E as [|v e l es Hv E IH]; [repeat split; constructor|].
  inversion W as [|? ? Wv Wl]; subst. destruct (IH Wl) as (I1 & I2 & I3).
  destruct (elem_eval_ok env pn ty v e Wv Hv) as (P & Ev & Cv & Pv).
  cbn [mapM map flat_map]. rewrite (is_par_match e _ _ P), Ev. cbn [bind]. rewrite Cv. cbn [bind]. rewrite I1, I2, Pv.
  repeat split; [constructor; assumption].
Qed.

(* rows *)
Lemma chunks_length {A} r c (l:list A) : length (chunks r c l) = r.
Proof. revert l. induction r; intros l; simpl; [reflexivity|]. rewrite IHr. reflexivity. Qed.

Lemma chunks_concat {A} r c (l:list A) : length l = (r * c)%nat -> concat (chunks r c l) = l.
Proof.
  revert l. induction r; intros l H; simpl in *.
  - destruct l; [reflexivity|discriminate].
  - rewrite IHr; [apply firstn_skipn|]. rewrite skipn_length. lia.
Qed.

Lemma chunks_rows {A} r c (l:list A) : length l = (r * c)%nat -> forall row, In row (chunks r c l) -> length row = c.
Proof.
  revert l. induction r; intros l H row Hin; simpl in *; [contradiction|].
  destruct Hin as [<-|Hin].
  - rewrite firstn_length. lia.
  - eapply IHr; [|exact Hin]. rewrite skipn_length. lia.
Qed.

Lemma chunks_same_len {A} r c (l:list A) : length l = (r * c)%nat -> all_same_len (chunks r c l) = true.
Proof.
  intros H. pose proof (chunks_rows r c l H) as R. destruct (chunks r c l) as [|row rows]; [reflexivity|].
  simpl. apply forallb_forall. intros row' Hin. apply Nat.eqb_eq.
  rewrite (R row' (or_intror Hin)), (R row (or_introl eq_refl)). reflexivity.
Qed.

Lemma chunks_row_len {A} r c (l:list A) : (1 <= r)%nat -> length l = (r * c)%nat ->
  match chunks r c l with row :: _ => length row | [] => 0%nat end = c.
Proof.
  intros Hr H. pose proof (chunks_rows r c l H) as R. destruct r; [lia|]. simpl in *. apply R. left; reflexivity.
Qed.

Lemma add_new_nil acc : add_new acc [] = acc.
Proof. reflexivity. Qed.

Definition pn_ext (tdm:bool) (pn:list str) (x:str) (v:value) : list str :=
  match v with
  | VArr _ _ _ _ => if (tdm && is_ptype x)%bool then pn ++ [x] else pn
  | _ => pn
  end.

Lemma shape_vals_nat r c : shape_vals [nat_digits r; nat_digits c] = Some [Z.of_nat r; Z.of_nat c].
Proof. unfold shape_vals, nat_digits. cbn [fold_right]. rewrite !parse_z_digits by lia. reflexivity. Qed.

(* executing the declaration of an array *)
Lemma exec_arr_decl tdm s x shape ty r c l d :
  wf_arr (VArr ty r c l) -> arr_decl x shape ty r c l = Some d ->
  exec_item [] tdm s d =
  Ok (mkst (dict_set x (norm_value (VArr ty r c l)) (s_env s)) (s_pars s) (pn_ext tdm (s_pnames s) x (VArr ty r c l))
           (s_ops s) (s_modes s)).
Proof.
  intros (Hr & Hc & Hl & We) E. unfold arr_decl in E. destruct (omap elem_expr l) as [es|] eqn:O; [|discriminate].
  injection E as <-.
  assert (Les : length es = (r * c)%nat).
  { rewrite <- Hl. apply omap_Forall2 in O. clear -O. induction O; simpl; congruence. }
  destruct (arr_elems_ok (s_env s) (s_pnames s) ty l es We O) as (M & P & NP).
  cbn [exec_item check_name bind].
  rewrite (rows_match (chunks r c es)).
  - rewrite (chunks_concat r c es Les), M. cbn [bind]. rewrite (chunks_same_len r c es Les). cbn [negb].
    rewrite P, chunks_length, (chunks_row_len r c es Hr Les).
    destruct shape.
    + rewrite shape_vals_nat, !Z.eqb_refl. reflexivity.
    + reflexivity.
  - intros p Hp. assert (Ec : concat (chunks r c es) = [EPar p]) by (rewrite Hp; reflexivity).
    rewrite (chunks_concat r c es Les) in Ec. subst es. inversion NP; subst. discriminate.
  - intros Hn. pose proof (chunks_length r c es) as L. rewrite Hn in L. simpl in L. lia.
Qed.

(* values of the tdm variable block *)
Definition wf_var (v:value) : Prop :=
  match v with
  | VArr _ _ _ _ => wf_arr v
  | VInt z => int_ok z
  | VFlt t => no_fn_of_sym t /\ term_kind t = KF
  | VCpx t => no_fn_of_sym t /\ term_kind t <> KS
  | VBool _ | VStr _ => True
  | _ => False
  end.

Lemma exec_decl tdm s shape x v d :
  wf_var v -> decl_item shape (x, v) = Some d ->
  exec_item [] tdm s d =
  Ok (mkst (dict_set x (norm_value v) (s_env s)) (s_pars s) (pn_ext tdm (s_pnames s) x v) (s_ops s) (s_modes s)).
Proof.
  intros W E. destruct v; simpl in W; try contradiction; cbn [decl_item fst snd] in E.
  - injection E as <-. cbn [exec_item check_name bind eval_val]. rewrite (eval_int_expr _ _ z W).
    cbn [bind cast_scalar val_pars]. rewrite expr_pars_int_expr. reflexivity.
  - injection E as <-. destruct W as [W K]. cbn [exec_item check_name bind eval_val].
    rewrite (term_expr_eval _ _ t W), K. cbn [bind mk cast_scalar val_pars]. rewrite expr_pars_term_expr.
    replace (term_pars t) with (@nil str) by (symmetry; apply closed_kind_pars; congruence). reflexivity.
  - injection E as <-. destruct W as [W K]. cbn [exec_item check_name bind eval_val].
    rewrite (eval_cpx_expr _ _ t W K). cbn [bind cast_scalar val_pars]. rewrite expr_pars_cpx_expr.
    replace (term_pars t) with (@nil str) by (symmetry; apply closed_kind_pars; exact K). reflexivity.
  - injection E as <-. reflexivity.
  - injection E as <-. reflexivity.
  - eapply exec_arr_decl; eassumption.
Qed.

(* ================================================================================================ *)
(* (c) declarations, arguments, statements                                                           *)
(* ================================================================================================ *)
Definition normkv (kv:str * value) : str * value := (fst kv, norm_value (snd kv)).
Definition setkv (e:list (str * value)) (kv:str * value) : list (str * value) :=
  dict_set (fst kv) (norm_value (snd kv)) e.
Definition env_after (l:list (str * value)) (e:list (str * value)) : list (str * value) := fold_left setkv l e.
Definition pn_after_decls (tdm:bool) (l:list (str * value)) (pn:list str) : list str :=
  fold_left (fun pn kv => pn_ext tdm pn (fst kv) (snd kv)) l pn.

Lemma exec_items_app incs tdm l1 l2 : forall s,
  exec_items incs tdm s (l1 ++ l2) = do s' <- exec_items incs tdm s l1; exec_items incs tdm s' l2.
Proof.
  induction l1 as [|it l1 IH]; intros s; [reflexivity|]. cbn [app exec_items].
  destruct (exec_item incs tdm s it); cbn [bind]; auto.
Qed.

Lemma exec_decls tdm shape : forall l ds s,
  Forall (fun kv => wf_var (snd kv)) l -> omap (decl_item shape) l = Some ds ->
  exec_items [] tdm s ds =
  Ok (mkst (env_after l (s_env s)) (s_pars s) (pn_after_decls tdm l (s_pnames s)) (s_ops s) (s_modes s)).
Proof.
  induction l as [|[x v] l IH]; intros ds s W E; simpl in E.
  - injection E as <-. destruct s; reflexivity.
  - destruct (decl_item shape (x, v)) as [d|] eqn:D; [|discriminate].
    destruct (omap (decl_item shape) l) as [ds'|] eqn:O; [|discriminate]. injection E as <-.
    inversion W as [|? ? Wv Wl]; subst. cbn [exec_items]. rewrite (exec_decl tdm s shape x v d Wv D). cbn [bind].
    rewrite (IH ds' _ Wl eq_refl). reflexivity.
Qed.

(* keyword arguments *)
Definition kw_evals (env:list (str * value)) (pn:list str) (w:kwval) (x:value) : Prop :=
  match w with
  | KV v => eval_val env pn v = Ok x
  | KL vs => vs <> [] /\ exists xs, mapM (eval_val env pn) vs = Ok xs /\ x = VList xs
  end.

Lemma dict_set_fresh {A} k (v:A) l : ~ In k (map fst l) -> dict_set k v l = l ++ [(k, v)].
Proof.
  induction l as [|[k' v'] l IH]; simpl; intros H; [reflexivity|].
  destruct (str_eqb k k') eqn:E.
  - apply LoadP.str_eqb_eq in E. exfalso; apply H; left; congruence.
  - rewrite IH; [reflexivity|]. intros Hin; apply H; right; exact Hin.
Qed.

Lemma kw_go_fwd env pn : forall l r acc,
  Forall2 (fun a b => fst a = fst b /\ kw_evals env pn (snd a) (snd b)) l r ->
  NoDup (map fst acc ++ map fst r) ->
  LoadP.kw_go env pn l acc = Ok (acc ++ r).
Proof.
  intros l r acc F. revert acc. induction F as [|[k w] [k' x] l r [Hk Hw] F IH]; intros acc N.
  - rewrite app_nil_r. reflexivity.
  - cbn [fst snd] in Hk, Hw. subst k'. cbn [map fst] in N.
    assert (Hfresh : ~ In k (map fst acc)).
    { apply NoDup_remove_2 in N. intros Hin; apply N; apply in_or_app; left; exact Hin. }
    assert (N' : NoDup (map fst (acc ++ [(k, x)]) ++ map fst r)).
    { rewrite map_app, <- app_assoc. exact N. }
    destruct w as [v|vs]; cbn [kw_evals] in Hw.
    + change (LoadP.kw_go env pn ((k, KV v) :: l) acc)
        with (do y <- eval_val env pn v; LoadP.kw_go env pn l (dict_set k y acc)).
      rewrite Hw. cbn [bind]. rewrite (dict_set_fresh k x acc Hfresh), (IH _ N'), <- app_assoc. reflexivity.
    + destruct Hw as (Hne & xs & Hm & ->). destruct vs as [|v0 vs]; [contradiction|].
      change (LoadP.kw_go env pn ((k, KL (v0 :: vs)) :: l) acc)
        with (do ys <- mapM (eval_val env pn) (v0 :: vs); LoadP.kw_go env pn l (dict_set k (VList ys) acc)).
      rewrite Hm. cbn [bind]. rewrite (dict_set_fresh k (VList xs) acc Hfresh), (IH _ N'), <- app_assoc. reflexivity.
Qed.

(* hoisted arrays *)
Definition is_arr (v:value) : bool := match v with VArr _ _ _ _ => true | _ => false end.
Definition arrs_of (l:list value) : list value := filter is_arr l.
Definition name_arrs (k:nat) (arrs:list value) : list (str * value) :=
  combine (map arr_name (seq k (length arrs))) arrs.
Definition env_has (E:list (str * value)) (k:nat) (arrs:list value) : Prop :=
  forall i a, nth_error arrs i = Some a -> lookup (arr_name (k + i)) E = Some (norm_value a).

Lemma combine_app {A B} (l1:list A) (l1':list B) l2 l2' :
  length l1 = length l1' -> combine (l1 ++ l2) (l1' ++ l2') = combine l1 l1' ++ combine l2 l2'.
Proof.
  revert l1'. induction l1 as [|a l1 IH]; intros [|b l1'] H; simpl in *; try discriminate; [reflexivity|].
  rewrite IH by lia. reflexivity.
Qed.

Lemma name_arrs_app k a1 a2 : name_arrs k (a1 ++ a2) = name_arrs k a1 ++ name_arrs (k + length a1) a2.
Proof.
  unfold name_arrs. rewrite app_length, seq_app, map_app, combine_app; [reflexivity|].
  rewrite map_length, seq_length. reflexivity.
Qed.

Lemma env_has_app E k a1 a2 : env_has E k (a1 ++ a2) -> env_has E k a1 /\ env_has E (k + length a1) a2.
Proof.
  intros H. split; intros i a Hn.
  - apply H. rewrite nth_error_app1; [exact Hn|]. apply nth_error_Some. congruence.
  - replace (k + length a1 + i)%nat with (k + (length a1 + i))%nat by lia. apply H.
    rewrite nth_error_app2 by lia. replace (length a1 + i - length a1)%nat with i by lia. exact Hn.
Qed.

Definition hoist_ok (k:nat) (arrs:list value) (k':nat) (ds:list item) : Prop :=
  k' = (k + length arrs)%nat /\ omap (decl_item true) (name_arrs k arrs) = Some ds.

Lemma hoist_ok_nil k : hoist_ok k [] k [].
Proof. split; [simpl; lia|reflexivity]. Qed.

Lemma hoist_ok_app k a1 k1 d1 a2 k2 d2 :
  hoist_ok k a1 k1 d1 -> hoist_ok k1 a2 k2 d2 -> hoist_ok k (a1 ++ a2) k2 (d1 ++ d2).
Proof.
  intros [-> H1] [-> H2]. split; [rewrite app_length; lia|]. rewrite name_arrs_app. apply omap_app; assumption.
Qed.

Lemma arrs_of_cons v l : arrs_of (v :: l) = arrs_of [v] ++ arrs_of l.
Proof. unfold arrs_of. simpl. destruct (is_arr v); reflexivity. Qed.

Lemma arrs_of_app l1 l2 : arrs_of (l1 ++ l2) = arrs_of l1 ++ arrs_of l2.
Proof. apply filter_app. Qed.

Section Args.
Variable tdm : bool.
Variable PNp : str -> Prop.

Definition pn_good (E:list (str * value)) (PN:list str) : Prop :=
  (forall i, ~ In (arr_name i) PN) /\
  (forall s, PNp s -> In s PN /\ exists ty r c es, lookup s E = Some (VArr ty r c es)).

Lemma pn_good_pname E PN s : pn_good E PN -> PNp s -> eval E PN (EVar s 0 0) = Ok (VPName s).
Proof.
  intros [_ G] H. destruct (G s H) as (Hin & ty & r & c & es & L). cbn [eval]. rewrite L.
  apply LoadP.mem_str_In in Hin. rewrite Hin. reflexivity.
Qed.

Lemma pn_good_arr E PN j v : pn_good E PN -> lookup (arr_name j) E = Some v -> eval E PN (EVar (arr_name j) 0 0) = Ok v.
Proof.
  intros [G _] L. cbn [eval]. rewrite L. destruct (mem_str (arr_name j) PN) eqn:M; [|reflexivity].
  apply LoadP.mem_str_In in M. exfalso; exact (G j M).
Qed.

(* positional / keyword argument of an operation *)
Definition wf_arg (v:value) : Prop := if is_arr v then wf_arr v else wf_scalar tdm PNp true v.
Definition wf_kwarg (v:value) : Prop :=
  match v with
  | VArr _ _ _ _ => wf_arr v
  | VList l => l <> [] /\ Forall (wf_scalar tdm PNp false) l
  | _ => wf_scalar tdm PNp true v
  end.

Lemma scalar_shapes wrap v : wf_scalar tdm PNp wrap v ->
  is_arr v = false /\ pre_value v = pre_scalar v /\ norm_value v = norm_scalar v /\ value_spars v = sym_pars v.
Proof. destruct v; simpl; intros W; try contradiction; repeat split; reflexivity. Qed.

Lemma scalars_eval wrap E PN : pn_good E PN -> forall l ws,
  Forall (wf_scalar tdm PNp wrap) l -> omap (value_val tdm) l = Some ws ->
  mapM (eval_val E PN) ws = Ok (map pre_scalar l) /\ flat_map val_pars ws = flat_map sym_pars l /\ length ws = length l.
Proof.
  intros G l ws W O. apply omap_Forall2 in O. induction O as [|v w l ws Hv O IH]; [repeat split; reflexivity|].
  inversion W as [|? ? Wv Wl]; subst. destruct (IH Wl) as (I1 & I2 & I3).
  cbn [mapM map flat_map length].
  rewrite (value_val_eval tdm PNp E PN wrap v w Wv Hv (fun s => pn_good_pname E PN s G)). cbn [bind].
  rewrite I1, I2, I3, (value_val_pars tdm PNp wrap v w Wv Hv). repeat split; reflexivity.
Qed.

Lemma hoist_val_spec v k w k' ds :
  wf_arg v -> hoist_val tdm v k = Some (w, k', ds) ->
  hoist_ok k (arrs_of [v]) k' ds /\ val_pars w = value_spars v /\
  (forall E PN, env_has E k (arrs_of [v]) -> pn_good E PN -> eval_val E PN w = Ok (pre_value v)).
Proof.
  unfold wf_arg. intros W H. destruct (is_arr v) eqn:A.
  - destruct v; try discriminate. cbn [hoist_val] in H.
    destruct (decl_item true (arr_name k, VArr k0 rows cols elems)) as [d|] eqn:D; [|discriminate].
    injection H as <- <- <-. split; [|split].
    + split; [simpl; lia|]. unfold name_arrs. cbn [arrs_of filter is_arr length seq map combine omap]. rewrite D. reflexivity.
    + reflexivity.
    + intros E PN He G. cbn [eval_val]. apply (pn_good_arr E PN k _ G).
      replace k with (k + 0)%nat at 1 by lia. apply He. reflexivity.
  - destruct (scalar_shapes true v W) as (_ & P1 & _ & P3).
    assert (H' : match value_val tdm v with Some w0 => Some (w0, k, @nil item) | None => None end = Some (w, k', ds)).
    { destruct v; try exact H. discriminate. }
    destruct (value_val tdm v) as [w0|] eqn:V; [|discriminate]. injection H' as <- <- <-.
    unfold arrs_of. cbn [filter]. rewrite A. split; [apply hoist_ok_nil|]. split.
    + rewrite P3. apply (value_val_pars tdm PNp true v w0 W V).
    + intros E PN _ G. rewrite P1. apply (value_val_eval tdm PNp E PN true v w0 W V). intros s. apply pn_good_pname; exact G.
Qed.

Lemma hoist_pos_spec : forall l k ws k' ds,
  Forall wf_arg l -> hoist_pos tdm l k = Some (ws, k', ds) ->
  hoist_ok k (arrs_of l) k' ds /\ flat_map val_pars ws = flat_map value_spars l /\
  (forall E PN, env_has E k (arrs_of l) -> pn_good E PN -> mapM (eval_val E PN) ws = Ok (map pre_value l)).
Proof.
  induction l as [|v l IH]; intros k ws k' ds W H; cbn [hoist_pos] in H.
  - injection H as <- <- <-. split; [apply hoist_ok_nil|]. split; reflexivity.
  - inversion W as [|? ? Wv Wl]; subst.
    destruct (hoist_val tdm v k) as [[[w k1] d1]|] eqn:Hv; [|discriminate].
    destruct (hoist_pos tdm l k1) as [[[ws' k2] d2]|] eqn:Hl; [|discriminate]. injection H as <- <- <-.
    destruct (hoist_val_spec v k w k1 d1 Wv Hv) as (O1 & P1 & E1).
    destruct (IH k1 ws' k2 d2 Wl Hl) as (O2 & P2 & E2).
    rewrite arrs_of_cons. split; [eapply hoist_ok_app; eassumption|]. split.
    + cbn [flat_map]. rewrite P1, P2. reflexivity.
    + intros E PN He G. apply env_has_app in He as [He1 He2]. destruct O1 as [-> _].
      cbn [mapM map]. rewrite (E1 E PN He1 G). cbn [bind]. rewrite (E2 E PN He2 G). reflexivity.
Qed.

Lemma hoist_kw_spec v k w k' ds :
  wf_kwarg v -> hoist_kw tdm v k = Some (w, k', ds) ->
  hoist_ok k (arrs_of [v]) k' ds /\ kwval_pars w = value_spars v /\
  (forall E PN, env_has E k (arrs_of [v]) -> pn_good E PN -> kw_evals E PN w (pre_value v)).
Proof.
  intros W H.
  assert (Hscalar : forall v0, wf_scalar tdm PNp true v0 ->
            match option_map KV (value_val tdm v0) with Some w0 => Some (w0, k, @nil item) | None => None end = Some (w, k', ds) ->
            hoist_ok k (arrs_of [v0]) k' ds /\ kwval_pars w = value_spars v0 /\
            (forall E PN, env_has E k (arrs_of [v0]) -> pn_good E PN -> kw_evals E PN w (pre_value v0))).
  { intros v0 W0 H0. destruct (scalar_shapes true v0 W0) as (A & P1 & _ & P3).
    destruct (value_val tdm v0) as [w0|] eqn:V; [|discriminate]. cbn [option_map] in H0. injection H0 as <- <- <-.
    unfold arrs_of. cbn [filter]. rewrite A. split; [apply hoist_ok_nil|]. split.
    - rewrite P3. apply (value_val_pars tdm PNp true v0 w0 W0 V).
    - intros E PN _ G. cbn [kw_evals]. rewrite P1. apply (value_val_eval tdm PNp E PN true v0 w0 W0 V).
      intros s. apply pn_good_pname; exact G. }
  destruct v; try (apply Hscalar; [exact W|exact H]).
  - cbn [hoist_kw] in H. destruct (hoist_val tdm (VArr k0 rows cols elems) k) as [[[w0 k1] d]|] eqn:Hv; [|discriminate].
    injection H as <- <- <-.
    assert (W' : wf_arg (VArr k0 rows cols elems)) by exact W.
    destruct (hoist_val_spec _ k w0 k1 d W' Hv) as (O & P & Ev). split; [exact O|]. split; [exact P|].
    intros E PN He G. cbn [kw_evals]. apply Ev; assumption.
  - destruct W as [Hne W]. cbn [hoist_kw kwval_of] in H.
    destruct (omap (value_val tdm) l) as [ws|] eqn:O; [|discriminate]. cbn [option_map] in H. injection H as <- <- <-.
    split; [apply hoist_ok_nil|]. split.
    + cbn [kwval_pars value_spars].
      assert (Hp : forall l ws, Forall (wf_scalar tdm PNp false) l -> omap (value_val tdm) l = Some ws ->
                   flat_map val_pars ws = flat_map sym_pars l).
      { clear. intros l ws W O. apply omap_Forall2 in O. induction O as [|v w l ws Hv O IH]; [reflexivity|].
        inversion W as [|? ? Wv Wl]; subst. cbn [flat_map]. rewrite (IH Wl), (value_val_pars tdm PNp false v w Wv Hv).
        reflexivity. }
      apply Hp; assumption.
    + intros E PN _ G. cbn [kw_evals pre_value norm_value].
      destruct (scalars_eval false E PN G l ws W O) as (M & _ & Len). split.
      * destruct ws; [destruct l; [contradiction|discriminate]|discriminate].
      * exists (map pre_scalar l). split; [exact M|]. f_equal. apply map_ext_in. intros a Ha. symmetry.
        apply (pre_nowrap tdm PNp). rewrite Forall_forall in W. apply W; exact Ha.
Qed.

Lemma hoist_kws_spec : forall l k kws k' ds,
  Forall (fun kv => wf_kwarg (snd kv)) l -> hoist_kws tdm l k = Some (kws, k', ds) ->
  hoist_ok k (arrs_of (map snd l)) k' ds /\
  flat_map (fun kv => kwval_pars (snd kv)) kws = flat_map (fun kv => value_spars (snd kv)) l /\
  (forall E PN, env_has E k (arrs_of (map snd l)) -> pn_good E PN ->
     Forall2 (fun a b => fst a = fst b /\ kw_evals E PN (snd a) (snd b)) kws
             (map (fun kv => (fst kv, pre_value (snd kv))) l)).
Proof.
  induction l as [|[x v] l IH]; intros k kws k' ds W H; cbn [hoist_kws] in H.
  - injection H as <- <- <-. split; [apply hoist_ok_nil|]. split; [reflexivity|]. intros; constructor.
  - inversion W as [|? ? Wv Wl]; subst. cbn [snd] in Wv.
    destruct (hoist_kw tdm v k) as [[[w k1] d1]|] eqn:Hv; [|discriminate].
    destruct (hoist_kws tdm l k1) as [[[ws' k2] d2]|] eqn:Hl; [|discriminate]. injection H as <- <- <-.
    destruct (hoist_kw_spec v k w k1 d1 Wv Hv) as (O1 & P1 & E1).
    destruct (IH k1 ws' k2 d2 Wl Hl) as (O2 & P2 & E2).
    cbn [map snd]. rewrite arrs_of_cons. split; [eapply hoist_ok_app; eassumption|]. split.
    + cbn [flat_map snd]. rewrite P1, P2. reflexivity.
    + intros E PN He G. apply env_has_app in He as [He1 He2]. destruct O1 as [-> _].
      constructor; [split; [reflexivity|apply E1; assumption]|apply E2; assumption].
Qed.

End Args.

(* ---------------- operations ---------------- *)
Definition op_arrs (o:op) : list value :=
  match oargs o with Some (ps, kws) => arrs_of ps ++ arrs_of (map snd kws) | None => [] end.
Definition op_spars (o:op) : list str :=
  match oargs o with
  | Some (ps, kws) => flat_map value_spars ps ++ flat_map (fun kv => value_spars (snd kv)) kws
  | None => []
  end.
Definition norm_args (a:option (list value * list (str * value))) : option (list value * list (str * value)) :=
  match a with Some (ps, kws) => Some (map norm_value ps, map normkv kws) | None => None end.
Definition norm_op (o:op) : op := mkop (oname o) (norm_args (oargs o)) (omodes o).

Lemma modes_eval env pn ms : Forall int_ok ms -> mapM (eval env pn) (map int_expr ms) = Ok (map VInt ms).
Proof.
  induction 1 as [|m ms Hm _ IH]; [reflexivity|]. cbn [map mapM]. rewrite (eval_int_expr env pn m Hm). cbn [bind].
  rewrite IH. reflexivity.
Qed.

Lemma mode_of_ints ms : mapM mode_of (map VInt ms) = Ok ms.
Proof. induction ms as [|m ms IH]; [reflexivity|]. cbn [map mapM mode_of bind]. rewrite IH. reflexivity. Qed.

Lemma modes_pars ms : flat_map expr_pars (map int_expr ms) = [].
Proof. induction ms as [|m ms IH]; [reflexivity|]. cbn [map flat_map]. rewrite expr_pars_int_expr, IH. reflexivity. Qed.

Lemma exec_stmt_nil s t mvs ms a :
  mapM (eval (s_env s) (s_pnames s)) (smodes t) = Ok mvs -> mapM mode_of mvs = Ok ms ->
  eval_opt_args (s_env s) (s_pnames s) (sargs t) = Ok a ->
  exec_stmt [] s t =
  Ok (mkst (s_env s) (add_new (s_pars s) (LoadP.stmt_pars t)) (s_pnames s)
           (s_ops s ++ [mkop (sop t) (LoadP.wrap_args a) ms]) (add_newZ (s_modes s) ms)).
Proof.
  intros H1 H2 H3. unfold exec_stmt. rewrite H1. cbn [bind]. rewrite H2. cbn [bind]. rewrite H3. cbn [bind lookup].
  destruct a as [[ps kws]|]; reflexivity.
Qed.

Section Ops.
Variable tdm : bool.
Variable PNp : str -> Prop.

Definition wf_op (o:op) : Prop :=
  Forall int_ok (omodes o) /\
  match oargs o with
  | None => True
  | Some (ps, kws) =>
      Forall (wf_arg tdm PNp) ps /\ NoDup (map fst kws) /\ Forall (fun kv => wf_kwarg tdm PNp (snd kv)) kws
  end.

Lemma wrap_arg v : wf_arg tdm PNp v -> wrap_transform (pre_value v) = norm_value v.
Proof.
  unfold wf_arg. destruct (is_arr v) eqn:A; intros W.
  - destruct v; try discriminate. reflexivity.
  - destruct (scalar_shapes tdm PNp true v W) as (_ & -> & -> & _). apply (wrap_pre_top tdm PNp); exact W.
Qed.

Lemma wrap_kwarg v : wf_kwarg tdm PNp v -> wrap_transform (pre_value v) = norm_value v.
Proof.
  intros W. destruct v; try (destruct (scalar_shapes tdm PNp true _ W) as (_ & -> & -> & _); apply (wrap_pre_top tdm PNp); exact W);
    reflexivity.
Qed.

Lemma ser_op_spec o k t k' ds :
  wf_op o -> ser_op tdm o k = Some (t, k', ds) ->
  hoist_ok k (op_arrs o) k' ds /\
  (forall s, env_has (s_env s) k (op_arrs o) -> pn_good PNp (s_env s) (s_pnames s) ->
     exec_stmt [] s t =
     Ok (mkst (s_env s) (add_new (s_pars s) (op_spars o)) (s_pnames s) (s_ops s ++ [norm_op o])
              (add_newZ (s_modes s) (omodes o)))).
Proof.
  intros [Wm Wa] H. unfold ser_op in H. unfold op_arrs, op_spars, norm_op.
  destruct (oargs o) as [[ps kws]|] eqn:OA.
  - destruct Wa as (Wp & Nk & Wk).
    destruct (hoist_pos tdm ps k) as [[[ws k1] d1]|] eqn:Hp; [|discriminate].
    destruct (hoist_kws tdm kws k1) as [[[kw k2] d2]|] eqn:Hk; [|discriminate]. injection H as <- <- <-.
    destruct (hoist_pos_spec tdm PNp ps k ws k1 d1 Wp Hp) as (O1 & P1 & E1).
    destruct (hoist_kws_spec tdm PNp kws k1 kw k2 d2 Wk Hk) as (O2 & P2 & E2).
    split; [eapply hoist_ok_app; eassumption|].
    intros s He G. apply env_has_app in He as [He1 He2]. destruct O1 as [-> _].
    rewrite (exec_stmt_nil s _ (map VInt (omodes o)) (omodes o)
               (Some (map pre_value ps, map (fun kv => (fst kv, pre_value (snd kv))) kws))).
    + unfold LoadP.stmt_pars, LoadP.wrap_args, args_pars. cbn [smodes sargs sop apos akw].
      rewrite modes_pars, P1, P2. cbn [app norm_args].
      assert (A1 : map wrap_transform (map pre_value ps) = map norm_value ps).
      { rewrite map_map. apply map_ext_in. intros v Hv. apply wrap_arg. rewrite Forall_forall in Wp. apply Wp; exact Hv. }
      assert (A2 : map (fun kv : str * value => (fst kv, wrap_transform (snd kv)))
                     (map (fun kv : str * value => (fst kv, pre_value (snd kv))) kws) = map normkv kws).
      { rewrite map_map. apply map_ext_in. intros [x v] Hv. cbn [fst snd]. unfold normkv. cbn [fst snd]. f_equal.
        apply wrap_kwarg. rewrite Forall_forall in Wk. apply (Wk _ Hv). }
      rewrite A1, A2. reflexivity.
    + cbn [smodes]. apply modes_eval; exact Wm.
    + apply mode_of_ints.
    + cbn [sargs eval_opt_args]. rewrite LoadP.eval_args_eq. cbn [apos akw].
      rewrite (E1 _ _ He1 G). cbn [bind].
      rewrite (kw_go_fwd _ _ kw (map (fun kv => (fst kv, pre_value (snd kv))) kws) []).
      * reflexivity.
      * apply E2; assumption.
      * cbn [map app]. rewrite map_map. cbn [fst]. exact Nk.
  - injection H as <- <- <-. split; [apply hoist_ok_nil|]. intros s _ _.
    rewrite (exec_stmt_nil s _ (map VInt (omodes o)) (omodes o) None).
    + unfold LoadP.stmt_pars, LoadP.wrap_args. cbn [smodes sargs sop]. rewrite modes_pars. reflexivity.
    + cbn [smodes]. apply modes_eval; exact Wm.
    + apply mode_of_ints.
    + reflexivity.
Qed.

Lemma ser_ops_spec : forall ops k ts k' ds,
  Forall wf_op ops -> ser_ops tdm ops k = Some (ts, k', ds) ->
  hoist_ok k (flat_map op_arrs ops) k' ds /\
  (forall tdm' s, env_has (s_env s) k (flat_map op_arrs ops) -> pn_good PNp (s_env s) (s_pnames s) ->
     exec_items [] tdm' s (map IStmt ts) =
     Ok (mkst (s_env s) (fold_left add_new (map op_spars ops) (s_pars s)) (s_pnames s)
              (s_ops s ++ map norm_op ops) (fold_left add_newZ (map omodes ops) (s_modes s)))).
Proof.
  induction ops as [|o ops IH]; intros k ts k' ds W H; cbn [ser_ops] in H.
  - injection H as <- <- <-. split; [apply hoist_ok_nil|]. intros tdm' s _ _. cbn [map exec_items fold_left].
    rewrite app_nil_r. destruct s; reflexivity.
  - inversion W as [|? ? Wo Wl]; subst.
    destruct (ser_op tdm o k) as [[[t k1] d1]|] eqn:Ho; [|discriminate].
    destruct (ser_ops tdm ops k1) as [[[ts' k2] d2]|] eqn:Hl; [|discriminate]. injection H as <- <- <-.
    destruct (ser_op_spec o k t k1 d1 Wo Ho) as (O1 & E1).
    destruct (IH k1 ts' k2 d2 Wl Hl) as (O2 & E2).
    cbn [flat_map]. split; [eapply hoist_ok_app; eassumption|].
    intros tdm' s He G. apply env_has_app in He as [He1 He2]. destruct O1 as [-> _].
    cbn [map exec_items exec_item]. rewrite (E1 s He1 G). cbn [bind].
    set (s1 := mkst (s_env s) (add_new (s_pars s) (op_spars o)) (s_pnames s) (s_ops s ++ [norm_op o])
                    (add_newZ (s_modes s) (omodes o))).
    rewrite (E2 tdm' s1 He2 G). subst s1. cbn [s_env s_pars s_pnames s_ops s_modes fold_left]. rewrite <- app_assoc. reflexivity.
Qed.

End Ops.

(* ================================================================================================ *)
(* (c') programs                                                                                     *)
(* ================================================================================================ *)
Lemma NoDup_app_intro {A} (l1 l2:list A) :
  NoDup l1 -> NoDup l2 -> (forall x, In x l1 -> ~ In x l2) -> NoDup (l1 ++ l2).
Proof.
  induction 1 as [|a l1 Ha N1 IH]; intros N2 D; [exact N2|]. simpl. constructor.
  - intros Hin. apply in_app_or in Hin as [Hin|Hin]; [exact (Ha Hin)|]. exact (D a (or_introl eq_refl) Hin).
  - apply IH; [exact N2|]. intros x Hx. apply D. right; exact Hx.
Qed.

Lemma lookup_nodup {A} k (v:A) l : NoDup (map fst l) -> In (k, v) l -> lookup k l = Some v.
Proof.
  induction l as [|[k' v'] l IH]; simpl; intros N H; [contradiction|]. inversion N as [|? ? Hn N']; subst.
  destruct H as [H|H].
  - injection H as -> ->. rewrite LoadP.str_eqb_refl. reflexivity.
  - destruct (str_eqb k k') eqn:E.
    + apply LoadP.str_eqb_eq in E. subst k'. exfalso. apply Hn. apply (in_map fst _ _ H).
    + apply IH; assumption.
Qed.

Lemma env_after_nodup : forall l e, NoDup (map fst e ++ map fst l) -> env_after l e = e ++ map normkv l.
Proof.
  induction l as [|[k v] l IH]; intros e N.
  - simpl. rewrite app_nil_r. reflexivity.
  - cbn [env_after fold_left]. unfold setkv at 2. cbn [fst snd]. cbn [map fst] in N.
    assert (Hk : ~ In k (map fst e)).
    { apply NoDup_remove_2 in N. intros Hin; apply N; apply in_or_app; left; exact Hin. }
    rewrite (dict_set_fresh k (norm_value v) e Hk). fold (env_after l (e ++ [(k, norm_value v)])).
    rewrite IH.
    + rewrite <- app_assoc. reflexivity.
    + rewrite map_app, <- app_assoc. exact N.
Qed.

Lemma arr_name_inj i j : arr_name i = arr_name j -> i = j.
Proof.
  unfold arr_name, nat_digits. intros H. injection H as H. apply z_digits_inj in H; lia.
Qed.

Lemma arr_name_not_ptype i : is_ptype (arr_name i) = false.
Proof. reflexivity. Qed.

Lemma map_fst_combine {A B} (l1:list A) (l2:list B) : length l1 = length l2 -> map fst (combine l1 l2) = l1.
Proof.
  revert l2. induction l1 as [|a l1 IH]; intros [|b l2] H; simpl in *; try discriminate; [reflexivity|].
  rewrite IH by lia. reflexivity.
Qed.

Lemma name_arrs_keys k arrs : map fst (name_arrs k arrs) = map arr_name (seq k (length arrs)).
Proof. unfold name_arrs. apply map_fst_combine. rewrite map_length, seq_length. reflexivity. Qed.

Lemma name_arrs_cons k a arrs : name_arrs k (a :: arrs) = (arr_name k, a) :: name_arrs (S k) arrs.
Proof. reflexivity. Qed.

Lemma name_arrs_nth : forall arrs k i a, nth_error arrs i = Some a -> In (arr_name (k + i), a) (name_arrs k arrs).
Proof.
  induction arrs as [|b arrs IH]; intros k i a H; [destruct i; discriminate|]. rewrite name_arrs_cons.
  destruct i as [|i]; simpl in H.
  - injection H as ->. left. rewrite Nat.add_0_r. reflexivity.
  - right. replace (k + S i)%nat with (S k + i)%nat by lia. apply IH; exact H.
Qed.

Lemma name_arrs_keys_NoDup k arrs : NoDup (map fst (name_arrs k arrs)).
Proof.
  rewrite name_arrs_keys. apply FinFun.Injective_map_NoDup; [intros i j; apply arr_name_inj|apply seq_NoDup].
Qed.

Lemma name_arrs_key_inv k arrs x : In x (map fst (name_arrs k arrs)) -> exists i, (i < length arrs)%nat /\ x = arr_name (k + i).
Proof.
  rewrite name_arrs_keys. intros H. apply in_map_iff in H as (j & <- & Hj). apply in_seq in Hj.
  exists (j - k)%nat. split; [lia|]. f_equal; lia.
Qed.

Lemma name_arrs_vals k arrs x v : In (x, v) (name_arrs k arrs) -> In v arrs.
Proof. unfold name_arrs. apply in_combine_r. Qed.

Lemma pn_after_In tdm : forall l pn s,
  In s (pn_after_decls tdm l pn) <->
  In s pn \/ (tdm = true /\ is_ptype s = true /\ exists ty r c es, In (s, VArr ty r c es) l).
Proof.
  induction l as [|[x v] l IH]; intros pn s.
  - simpl. split; [auto|]. intros [H|(_ & _ & ? & ? & ? & ? & [])]; exact H.
  - assert (Hstep : pn_after_decls tdm ((x, v) :: l) pn = pn_after_decls tdm l (pn_ext tdm pn x v)) by reflexivity.
    rewrite Hstep, IH.
    assert (Hother : (forall ty r c es, v <> VArr ty r c es) -> pn_ext tdm pn x v = pn).
    { intros H. destruct v; try reflexivity. exfalso; eapply H; reflexivity. }
    split.
    + intros [H|(T & P & ty & r & c & es & H)].
      * destruct v; try (left; exact H). unfold pn_ext in H. destruct (tdm && is_ptype x)%bool eqn:B; [|left; exact H].
        apply in_app_or in H as [H|[<-|[]]]; [left; exact H|]. apply andb_true_iff in B as [B1 B2].
        right. split; [exact B1|]. split; [exact B2|]. do 4 eexists. left; reflexivity.
      * right. split; [exact T|]. split; [exact P|]. exists ty, r, c, es. right; exact H.
    + intros [H|(T & P & ty & r & c & es & [H|H])].
      * left. destruct v; try exact H. unfold pn_ext. destruct (tdm && is_ptype x)%bool; [apply in_or_app; left|]; exact H.
      * injection H as -> ->. left. unfold pn_ext. rewrite T, P. apply in_or_app. right; left; reflexivity.
      * right. split; [exact T|]. split; [exact P|]. exists ty, r, c, es. exact H.
Qed.

(* ---------------- well-formed programs ---------------- *)
Definition no_pn : str -> Prop := fun _ => False.

(* option values of target / type: evaluated in the empty environment, never register transforms *)
Definition wf_optval (v:value) : Prop :=
  match v with
  | VList l => l <> [] /\ Forall (wf_scalar false no_pn false) l
  | _ => wf_scalar false no_pn false v
  end.

Definition wf_opts (nm:option str) (opts:list (str * value)) : Prop :=
  (nm = None -> opts = []) /\ NoDup (map fst opts) /\ Forall (fun kv => wf_optval (snd kv)) opts.

Definition prog_arrs (p:prog) : list value := flat_map op_arrs (p_ops p).

(* a p-array that may be passed by name: tdm program, p-type name, declared as an array *)
Definition pname_ok (p:prog) (s:str) : Prop :=
  is_tdm (p_type p) = true /\ is_ptype s = true /\ exists ty r c es, In (s, VArr ty r c es) (p_vars p).

Record wf_prog (p:prog) : Prop := {
  wf_target : wf_opts (p_target p) (p_target_opts p);
  wf_type : wf_opts (p_type p) (p_type_opts p);
  wf_ops : Forall (wf_op (is_tdm (p_type p)) (pname_ok p)) (p_ops p);
  wf_modes : p_modes p = fold_left add_newZ (map omodes (p_ops p)) [];
  wf_params : forall x, In x (p_params p) <-> exists o, In o (p_ops p) /\ In x (op_spars o);
  wf_vars : is_tdm (p_type p) = true ->
            NoDup (map fst (p_vars p)) /\ Forall (fun kv => wf_var (snd kv)) (p_vars p) /\
            forall i, (i < length (prog_arrs p))%nat -> ~ In (arr_name i) (map fst (p_vars p)) }.

(* the program that comes back *)
Definition reload (p:prog) : prog :=
  mkprog (p_name p) (p_version p)
         (p_target p) (map normkv (p_target_opts p))
         (p_type p) (map normkv (p_type_opts p))
         (map norm_op (p_ops p))
         (fold_left add_newZ (map omodes (p_ops p)) [])
         (fold_left add_new (map op_spars (p_ops p)) [])
         (env_after (name_arrs 0 (prog_arrs p) ++ (if is_tdm (p_type p) then p_vars p else [])) []).

Lemma pn_good_nil : pn_good no_pn [] [].
Proof. split; [intros i H; exact H|intros s []]. Qed.

Lemma optval_eval v w : wf_optval v -> kwval_of false v = Some w -> kw_evals [] [] w (norm_value v).
Proof.
  intros W H.
  assert (Hs : forall v0, wf_scalar false no_pn false v0 -> option_map KV (value_val false v0) = Some w ->
                 kw_evals [] [] w (norm_value v0)).
  { intros v0 W0 H0. destruct (value_val false v0) as [w0|] eqn:V; [|discriminate]. injection H0 as <-.
    destruct (scalar_shapes false no_pn false v0 W0) as (_ & _ & -> & _). cbn [kw_evals].
    rewrite <- (pre_nowrap false no_pn v0 W0). apply (value_val_eval false no_pn [] [] false v0 w0 W0 V). intros s []. }
  destruct v; try (apply Hs; [exact W|exact H]).
  - destruct W as [Hne W]. cbn [kwval_of] in H. destruct (omap (value_val false) l) as [ws|] eqn:O; [|discriminate].
    injection H as <-. cbn [kw_evals norm_value].
    destruct (scalars_eval false no_pn false [] [] pn_good_nil l ws W O) as (M & _ & Len). split.
    + destruct ws; [destruct l; [contradiction|discriminate]|discriminate].
    + exists (map pre_scalar l). split; [exact M|]. f_equal. apply map_ext_in. intros a Ha. symmetry.
      apply (pre_nowrap false no_pn). rewrite Forall_forall in W. apply W; exact Ha.
Qed.

Lemma opts_eval nm opts m :
  wf_opts nm opts -> ser_meta nm opts = Some m -> meta_opts m = Ok (nm, map normkv opts).
Proof.
  intros (Hn & Nd & W) H. unfold ser_meta in H. destruct nm as [n|].
  - destruct opts as [|kv opts]; [injection H as <-; reflexivity|].
    destruct (ser_opts (kv :: opts)) as [kws|] eqn:S; [|discriminate]. injection H as <-.
    cbn [meta_opts]. rewrite LoadP.eval_args_eq. cbn [apos akw mapM bind].
    rewrite (kw_go_fwd [] [] kws (map normkv (kv :: opts)) []).
    + reflexivity.
    + unfold ser_opts in S. apply omap_Forall2 in S. revert W S. generalize (kv :: opts). clear.
      intros l W S. induction S as [|[x v] [x' w] l kws Hx S IH]; [constructor|].
      inversion W as [|? ? Wv Wl]; subst. cbn [map]. constructor; [|apply IH; exact Wl].
      cbn [fst snd] in *. destruct (kwval_of false v) as [w0|] eqn:K; [|discriminate]. injection Hx as <- <-.
      split; [reflexivity|]. apply optval_eval; assumption.
    + cbn [map app]. rewrite map_map. exact Nd.
  - injection H as <-. rewrite (Hn eq_refl). reflexivity.
Qed.

Lemma wf_ops_arrs tdm PNp ops : Forall (wf_op tdm PNp) ops -> Forall wf_arr (flat_map op_arrs ops).
Proof.
  induction 1 as [|o ops [_ Wo] _ IH]; [constructor|]. cbn [flat_map]. apply Forall_app. split; [|exact IH].
  unfold op_arrs. destruct (oargs o) as [[ps kws]|]; [|constructor]. destruct Wo as (Wp & _ & Wk).
  apply Forall_app. split; apply Forall_forall; intros v Hv; unfold arrs_of in Hv; apply filter_In in Hv as [Hin A].
  - rewrite Forall_forall in Wp. specialize (Wp v Hin). unfold wf_arg in Wp. rewrite A in Wp. exact Wp.
  - apply in_map_iff in Hin as ([x v'] & <- & Hin). rewrite Forall_forall in Wk. specialize (Wk _ Hin).
    cbn [snd] in *. destruct v'; try discriminate. exact Wk.
Qed.

Lemma wf_arr_var v : wf_arr v -> wf_var v.
Proof. destruct v; simpl; intros W; try contradiction. exact W. Qed.

(* ---------------- the main statement: the script denotes [reload p] ---------------- *)
Theorem ser_denote p sc : wf_prog p -> ser_script p = Some sc -> denote [] sc = Ok (reload p).
Proof.
  intros [Wtg Wty Wops Wmodes Wpars Wvars] H. unfold ser_script in H.
  destruct (ser_meta (p_target p) (p_target_opts p)) as [tg|] eqn:Mtg; [|discriminate].
  destruct (ser_meta (p_type p) (p_type_opts p)) as [ty|] eqn:Mty; [|discriminate].
  set (tdm := is_tdm (p_type p)) in *.
  set (vars := if tdm then p_vars p else []).
  assert (Hvb : exists vb, (if tdm then omap (decl_item false) (p_vars p) else Some []) = Some vb /\
                           omap (decl_item false) vars = Some vb).
  { subst vars. destruct tdm; [|eexists; split; reflexivity].
    destruct (omap (decl_item false) (p_vars p)) as [vb|]; [|discriminate]. eexists; split; reflexivity. }
  destruct Hvb as (vb & Hvb1 & Hvb). rewrite Hvb1 in H. clear Hvb1.
  destruct (ser_ops tdm (p_ops p) 0) as [[[sts kf] decls]|] eqn:Sops; [|discriminate]. injection H as <-.
  assert (Wv : NoDup (map fst vars) /\ Forall (fun kv => wf_var (snd kv)) vars /\
               forall i, (i < length (prog_arrs p))%nat -> ~ In (arr_name i) (map fst vars)).
  { subst vars. destruct tdm eqn:T; [apply Wvars; reflexivity|]. split; [constructor|]. split; [constructor|]. intros i _ []. }
  destruct Wv as (Nv & Wv & Clash).
  destruct (ser_ops_spec tdm (pname_ok p) (p_ops p) 0 sts kf decls Wops Sops) as ([_ Hdecls] & Hexec).
  fold (prog_arrs p) in Hdecls, Hexec.
  set (L := name_arrs 0 (prog_arrs p) ++ vars).
  assert (NL : NoDup (map fst L)).
  { subst L. rewrite map_app. apply NoDup_app_intro; [apply name_arrs_keys_NoDup|exact Nv|].
    intros x Hx Hx'. apply name_arrs_key_inv in Hx as (i & Hi & ->). exact (Clash i Hi Hx'). }
  assert (WL : Forall (fun kv => wf_var (snd kv)) L).
  { subst L. apply Forall_app. split; [|exact Wv]. apply Forall_forall. intros [x v] Hin. cbn [snd].
    apply wf_arr_var. apply name_arrs_vals in Hin. pose proof (wf_ops_arrs _ _ _ Wops) as Wa.
    rewrite Forall_forall in Wa. apply Wa; exact Hin. }
  assert (HL : omap (decl_item false) vars = Some vb) by exact Hvb.
  unfold denote. cbn [sc_target sc_type sc_items sc_name sc_version].
  rewrite (opts_eval _ _ _ Wtg Mtg), (opts_eval _ _ _ Wty Mty). cbn [bind fst snd]. fold tdm.
  rewrite exec_items_app, (exec_decls tdm true _ decls _ (proj1 (proj1 (Forall_app _ _ _) WL)) Hdecls). cbn [bind].
  rewrite exec_items_app, (exec_decls tdm false vars vb _ Wv Hvb). cbn [bind s_env s_pars s_pnames s_ops s_modes].
  unfold env_after, pn_after_decls. rewrite <- !fold_left_app.
  fold L. fold (env_after L []). fold (pn_after_decls tdm L []).
  assert (EL : env_after L [] = map normkv L) by (rewrite env_after_nodup; [reflexivity|exact NL]).
  set (s2 := mkst (env_after L []) [] (pn_after_decls tdm L []) [] []).
  assert (He : env_has (s_env s2) 0 (prog_arrs p)).
  { intros i a Hn. cbn [s_env s2]. rewrite EL. apply lookup_nodup.
    - rewrite map_map. cbn [normkv fst]. exact NL.
    - apply (in_map normkv L (arr_name (0 + i), a)). subst L. apply in_or_app. left. apply name_arrs_nth; exact Hn. }
  assert (G : pn_good (pname_ok p) (s_env s2) (s_pnames s2)).
  { cbn [s_env s_pnames s2]. split.
    - intros i Hin. apply pn_after_In in Hin as [[]|(_ & P & _)]. rewrite arr_name_not_ptype in P. discriminate.
    - intros s (T & P & ty0 & r & c & es & Hin). fold tdm in T.
      assert (HinL : In (s, VArr ty0 r c es) L).
      { subst L vars. rewrite T. apply in_or_app. right; exact Hin. }
      split.
      + apply pn_after_In. right. split; [exact T|]. split; [exact P|]. exists ty0, r, c, es. exact HinL.
      + exists ty0, r, c, (map norm_scalar es). rewrite EL. apply lookup_nodup.
        * rewrite map_map. cbn [normkv fst]. exact NL.
        * apply (in_map normkv L _ HinL). }
  rewrite (Hexec tdm s2 He G). cbn [bind s_env s_pars s_pnames s_ops s_modes s2 app]. reflexivity.
Qed.

Lemma wf_decl_keys p : wf_prog p ->
  NoDup (map fst (name_arrs 0 (prog_arrs p) ++ (if is_tdm (p_type p) then p_vars p else []))).
Proof.
  intros W. rewrite map_app. apply NoDup_app_intro; [apply name_arrs_keys_NoDup| |].
  - destruct (is_tdm (p_type p)) eqn:T; [apply (wf_vars p W T)|constructor].
  - intros x Hx Hx'. apply name_arrs_key_inv in Hx as (i & Hi & ->).
    destruct (is_tdm (p_type p)) eqn:T; [|exact Hx']. destruct (wf_vars p W T) as (_ & _ & C). exact (C i Hi Hx').
Qed.

Lemma fold_add_new_In x : forall ls acc,
  In x (fold_left add_new ls acc) <-> In x acc \/ exists l, In l ls /\ In x l.
Proof.
  induction ls as [|l ls IH]; intros acc; cbn [fold_left].
  - split; [auto|]. intros [H|(l & [] & _)]; exact H.
  - rewrite IH, LoadP.add_new_In. split.
    + intros [[H|H]|(l' & H1 & H2)]; [left; exact H|right; exists l; split; [left; reflexivity|exact H]|].
      right; exists l'; split; [right; exact H1|exact H2].
    + intros [H|(l' & [<-|H1] & H2)]; [left; left; exact H|left; right; exact H2|].
      right; exists l'; split; assumption.
Qed.

(* n generations: serialise, load, serialise, ... ; every intermediate program is required to be well formed *)
Fixpoint gens (n:nat) (p q:prog) : Prop :=
  match n with
  | O => q = p
  | S n' => exists sc p1, wf_prog p /\ ser_script p = Some sc /\ denote [] sc = Ok p1 /\ gens n' p1 q
  end.

(* ================================================================================================ *)
(* (b'', c'') equality up to the value of symbolic terms                                             *)
(* ================================================================================================ *)
Section Equiv.
Variable K : Type.
Variables kadd kmul kpow : K -> K -> K.
Variables kneg kinv : K -> K.
Variable kfn : fn -> K -> K.
Variable kdec : Z -> Z -> K.
Variables kpi ki : K.
Variables rho_par rho_reg : str -> K.

Local Notation td := (tden K kadd kmul kpow kneg kinv kfn kdec kpi ki rho_par rho_reg).
Local Notation vd := (vden K kadd kmul kpow kneg kinv kfn kdec kpi ki rho_par rho_reg).

(* the laws of arithmetic used: a negative literal is written -(|m|e<e>); a bare inverse is written 1e0/a and the
   imaginary unit 1j reads 0 + 1*i; a complex value is written t + 0j, where 0j reads 0 + 0*i *)
Hypothesis Hnegdec : forall m e, kneg (kdec m e) = kdec (- m) e.
Hypothesis Hone : forall x, kmul (kdec 1 0) x = x.
Hypothesis Hzero_i : kadd (kdec 0 0) ki = ki.
Hypothesis Hzero_c : forall x, kadd x (kadd (kdec 0 0) (kmul (kdec 0 0) ki)) = x.

Lemma tden_norm : forall t, td (norm t) = td t.
Proof.
  induction t using term_ind_div; try reflexivity.
  - cbn [norm]. destruct (Z.ltb m 0); [|reflexivity]. cbn [tden]. rewrite Hnegdec, Z.opp_involutive. reflexivity.
  - cbn [norm i_term tden]. rewrite Hone. exact Hzero_i.
  - cbn [norm tden]. congruence.
  - cbn [norm tden]. congruence.
  - rewrite (norm_mul _ _ H). cbn [tden]. congruence.
  - cbn [norm tden]. congruence.
  - cbn [norm tden]. rewrite Hone. congruence.
  - cbn [norm tden]. congruence.
  - cbn [norm tden]. congruence.
Qed.

Definition kind_ok (t:term) (v:value) : Prop :=
  match term_kind t, v with
  | KS, VSym _ | KC, VCpx _ | KF, VFlt _ => True
  | _, _ => False
  end.

(* (b.1) in the requested form: the expression written for a term has a value, of the kind of the term, whose
   arithmetic value is that of the term *)
Theorem term_expr_eval_den env pn t : no_fn_of_sym t ->
  exists v, eval env pn (term_expr t) = Ok v /\ vd v = Some (td t) /\ kind_ok t v.
Proof.
  intros W. exists (mk (term_kind t) (norm t)). split; [apply term_expr_eval; exact W|].
  unfold kind_ok. pose proof (term_kind_not_int t) as N.
  destruct (term_kind t); try contradiction; cbn [mk vden]; rewrite tden_norm; auto.
Qed.

Inductive value_equiv : value -> value -> Prop :=
| VQ_int z : value_equiv (VInt z) (VInt z)
| VQ_flt a b : td a = td b -> value_equiv (VFlt a) (VFlt b)
| VQ_cpx a b : td a = td b -> value_equiv (VCpx a) (VCpx b)
| VQ_sym a b : td a = td b -> value_equiv (VSym a) (VSym b)
| VQ_trf a b : td a = td b -> value_equiv (VTrf a) (VTrf b)
| VQ_bool b : value_equiv (VBool b) (VBool b)
| VQ_str s : value_equiv (VStr s) (VStr s)
| VQ_pname s : value_equiv (VPName s) (VPName s)
| VQ_arr ty r c l l' : Forall2 value_equiv l l' -> value_equiv (VArr ty r c l) (VArr ty r c l')
| VQ_list l l' : Forall2 value_equiv l l' -> value_equiv (VList l) (VList l').

Lemma value_equiv_refl : forall v, value_equiv v v.
Proof.
  apply LoadP.value_ind_nested. intros v IH. rewrite Forall_forall in IH.
  destruct v; try (constructor; reflexivity); cbn [LoadP.value_children] in IH; constructor;
    apply LoadP.Forall2_refl_In; exact IH.
Qed.

Lemma Forall2_trans_In {A} (R:A -> A -> Prop) : forall l l' l'',
  (forall a, In a l -> forall b c, R a b -> R b c -> R a c) -> Forall2 R l l' -> Forall2 R l' l'' -> Forall2 R l l''.
Proof.
  intros l l' l'' HT F. revert l''. induction F as [|a b l l' Hab F IH]; intros l'' F'; inversion F'; subst; constructor.
  - eapply HT; [left; reflexivity|eassumption|eassumption].
  - apply IH; [intros a0 Ha0; apply HT; right; exact Ha0|assumption].
Qed.

Lemma value_equiv_trans : forall v v' v'', value_equiv v v' -> value_equiv v' v'' -> value_equiv v v''.
Proof.
  apply (LoadP.value_ind_nested (P:=fun v => forall v' v'', value_equiv v v' -> value_equiv v' v'' -> value_equiv v v'')).
  intros v IH v' v'' H1 H2. rewrite Forall_forall in IH.
  inversion H1; subst; inversion H2; subst; try (constructor; congruence); cbn [LoadP.value_children] in IH; constructor;
    eapply Forall2_trans_In; eauto.
Qed.

Lemma norm_scalar_equiv v : value_equiv (norm_scalar v) v.
Proof.
  destruct v; cbn [norm_scalar]; try apply value_equiv_refl; constructor; try apply tden_norm.
  cbn [tden zero_c]. rewrite Hzero_c. apply tden_norm.
Qed.

Lemma norm_value_equiv v : value_equiv (norm_value v) v.
Proof.
  destruct v; try apply norm_scalar_equiv; cbn [norm_value]; constructor;
    (induction elems || induction l); constructor; auto using norm_scalar_equiv.
Qed.

(* (b.2) values other than arrays, lists and p-names: the written value evaluates to an equivalent value (for an
   argument of an operation, after [wrap_transform], which is where register transforms are recognised) *)
Theorem value_val_equiv tdm env pn wrap v w :
  wf_scalar tdm no_pn wrap v -> value_val tdm v = Some w ->
  exists v', eval_val env pn w = Ok v' /\ value_equiv (if wrap then wrap_transform v' else v') v.
Proof.
  intros W H. exists (pre_scalar v). split.
  - apply (value_val_eval tdm no_pn env pn wrap v w W H). intros s [].
  - destruct wrap.
    + rewrite (wrap_pre_top tdm no_pn v W). apply norm_scalar_equiv.
    + rewrite (pre_nowrap tdm no_pn v W). apply norm_scalar_equiv.
Qed.

(* ---------------- programs ---------------- *)
Definition kvs_equiv (l' l:list (str * value)) : Prop :=
  Forall2 (fun a b => fst a = fst b /\ value_equiv (snd a) (snd b)) l' l.

Definition args_equiv (a' a:option (list value * list (str * value))) : Prop :=
  match a', a with
  | None, None => True
  | Some (ps', kws'), Some (ps, kws) => Forall2 value_equiv ps' ps /\ kvs_equiv kws' kws
  | _, _ => False
  end.

Definition op_equiv (o' o:op) : Prop :=
  oname o' = oname o /\ omodes o' = omodes o /\ args_equiv (oargs o') (oargs o).

(* p' is p up to the value of symbolic terms.  For a tdm program the variables of p come back in order, after the
   declarations of the hoisted arrays (the variables of a program that is not tdm are not written). *)
Record prog_equiv (p' p:prog) : Prop := {
  pe_name : p_name p' = p_name p;
  pe_version : p_version p' = p_version p;
  pe_target : p_target p' = p_target p;
  pe_target_opts : kvs_equiv (p_target_opts p') (p_target_opts p);
  pe_type : p_type p' = p_type p;
  pe_type_opts : kvs_equiv (p_type_opts p') (p_type_opts p);
  pe_ops : Forall2 op_equiv (p_ops p') (p_ops p);
  pe_modes : p_modes p' = p_modes p;
  pe_params : forall x, In x (p_params p') <-> In x (p_params p);
  pe_vars : is_tdm (p_type p) = true -> exists hs vs, p_vars p' = hs ++ vs /\ kvs_equiv vs (p_vars p) }.

Lemma kvs_equiv_refl l : kvs_equiv l l.
Proof. induction l; constructor; auto. split; [reflexivity|apply value_equiv_refl]. Qed.

Lemma kvs_equiv_trans l l' l'' : kvs_equiv l l' -> kvs_equiv l' l'' -> kvs_equiv l l''.
Proof.
  apply Forall2_trans_In. intros a _ b c [E1 Q1] [E2 Q2]. split; [congruence|eapply value_equiv_trans; eassumption].
Qed.

Lemma kvs_norm l : kvs_equiv (map normkv l) l.
Proof. induction l as [|[k v] l IH]; constructor; [split; [reflexivity|apply norm_value_equiv]|exact IH]. Qed.

Lemma vals_norm l : Forall2 value_equiv (map norm_value l) l.
Proof. induction l; constructor; [apply norm_value_equiv|assumption]. Qed.

Lemma op_equiv_refl o : op_equiv o o.
Proof.
  repeat split. unfold args_equiv. destruct (oargs o) as [[ps kws]|]; [|exact I]. split; [|apply kvs_equiv_refl].
  apply LoadP.Forall2_refl_In. intros; apply value_equiv_refl.
Qed.

Lemma op_equiv_trans o o' o'' : op_equiv o o' -> op_equiv o' o'' -> op_equiv o o''.
Proof.
  intros (N1 & M1 & A1) (N2 & M2 & A2). split; [congruence|]. split; [congruence|]. unfold args_equiv in *.
  destruct (oargs o) as [[ps kws]|], (oargs o') as [[ps' kws']|], (oargs o'') as [[ps'' kws'']|]; try contradiction; try exact I.
  destruct A1 as [P1 K1], A2 as [P2 K2]. split; [|eapply kvs_equiv_trans; eassumption].
  eapply Forall2_trans_In; [|eassumption|eassumption]. intros a _ b c; apply value_equiv_trans.
Qed.

Lemma norm_op_equiv o : op_equiv (norm_op o) o.
Proof.
  repeat split. unfold norm_op, args_equiv. cbn [oargs]. destruct (oargs o) as [[ps kws]|]; [|exact I].
  cbn [norm_args]. split; [apply vals_norm|apply kvs_norm].
Qed.

Theorem prog_equiv_refl p : prog_equiv p p.
Proof.
  constructor; try reflexivity; try apply kvs_equiv_refl.
  - apply LoadP.Forall2_refl_In. intros; apply op_equiv_refl.
  - intros _. exists [], (p_vars p). split; [reflexivity|apply kvs_equiv_refl].
Qed.

Theorem prog_equiv_trans p p' p'' : prog_equiv p'' p' -> prog_equiv p' p -> prog_equiv p'' p.
Proof.
  intros [N2 V2 T2 TO2 Y2 YO2 O2 M2 P2 X2] [N1 V1 T1 TO1 Y1 YO1 O1 M1 P1 X1].
  constructor; try congruence; try (eapply kvs_equiv_trans; eassumption).
  - eapply Forall2_trans_In; [|eassumption|eassumption]. intros a _ b c; apply op_equiv_trans.
  - intros x. rewrite P2. apply P1.
  - intros T. destruct (X1 T) as (hs1 & vs1 & E1 & Q1). rewrite <- Y1 in T. destruct (X2 T) as (hs2 & vs2 & E2 & Q2).
    rewrite E1 in Q2. apply Forall2_app_inv_r in Q2 as (l1 & l2 & F1 & F2 & ->).
    exists (hs2 ++ l1), l2. split; [rewrite E2, app_assoc; reflexivity|]. eapply kvs_equiv_trans; eassumption.
Qed.

(* the reloaded program is the original one up to the value of symbolic terms *)
Theorem reload_equiv p : wf_prog p -> prog_equiv (reload p) p.
Proof.
  intros W. constructor; cbn [reload p_name p_version p_target p_target_opts p_type p_type_opts p_ops p_modes p_params p_vars];
    try reflexivity; try apply kvs_norm.
  - induction (p_ops p); constructor; [apply norm_op_equiv|assumption].
  - symmetry. apply (wf_modes p W).
  - intros x. rewrite fold_add_new_In, (wf_params p W). split.
    + intros [[]|(l & Hl & Hx)]. apply in_map_iff in Hl as (o & <- & Ho). eauto.
    + intros (o & Ho & Hx). right. exists (op_spars o). split; [apply in_map; exact Ho|exact Hx].
  - intros T. pose proof (wf_decl_keys p W) as N. rewrite T in *.
    rewrite env_after_nodup by exact N. cbn [app]. rewrite map_app.
    exists (map normkv (name_arrs 0 (prog_arrs p))), (map normkv (p_vars p)). split; [reflexivity|apply kvs_norm].
Qed.

(* (c) C01: serialising and loading gives the program back *)
Theorem ser_roundtrip p sc :
  wf_prog p -> ser_script p = Some sc -> exists p', denote [] sc = Ok p' /\ prog_equiv p' p.
Proof. intros W H. exists (reload p). split; [apply ser_denote; assumption|apply reload_equiv; exact W]. Qed.

(* C09: ... and so does every later generation *)
Theorem ser_generations : forall n p q, gens n p q -> prog_equiv q p.
Proof.
  induction n as [|n IH]; intros p q H; cbn [gens] in H.
  - subst q. apply prog_equiv_refl.
  - destruct H as (sc & p1 & W & S & D & G). rewrite (ser_denote p sc W S) in D. injection D as <-.
    eapply prog_equiv_trans; [apply IH; exact G|apply reload_equiv; exact W].
Qed.

End Equiv.

(* ================================================================================================ *)
(* serialisation succeeds on well-formed programs                                                    *)
(* ================================================================================================ *)
Lemma arr_decl_total x sh ty r c l : Forall (wf_elem ty) l -> exists d, arr_decl x sh ty r c l = Some d.
Proof.
  intros W. unfold arr_decl. destruct (omap_total elem_expr l) as [es ->]; [|eauto].
  intros v Hv. rewrite Forall_forall in W. eapply wf_elem_expr; eauto.
Qed.

Lemma decl_item_total sh x v : wf_var v -> exists d, decl_item sh (x, v) = Some d.
Proof.
  destruct v; cbn [wf_var decl_item fst snd]; intros W; try contradiction; try (eexists; reflexivity).
  destruct W as (_ & _ & _ & W). apply arr_decl_total; exact W.
Qed.

Lemma scalars_total tdm PNp wrap l : Forall (wf_scalar tdm PNp wrap) l -> exists ws, omap (value_val tdm) l = Some ws.
Proof.
  intros W. apply omap_total. intros v Hv. rewrite Forall_forall in W. eapply wf_scalar_val; eauto.
Qed.

Section Total.
Variable tdm : bool.
Variable PNp : str -> Prop.

Lemma hoist_val_total v k : wf_arg tdm PNp v -> exists r, hoist_val tdm v k = Some r.
Proof.
  unfold wf_arg. destruct (is_arr v) eqn:A; intros W.
  - destruct v; try discriminate. cbn [hoist_val]. destruct (decl_item_total true (arr_name k) _ (wf_arr_var _ W)) as [d ->]. eauto.
  - destruct (wf_scalar_val tdm PNp true v W) as [w V]. destruct v; try discriminate; cbn [hoist_val]; rewrite V; eauto.
Qed.

Lemma hoist_pos_total : forall l k, Forall (wf_arg tdm PNp) l -> exists r, hoist_pos tdm l k = Some r.
Proof.
  induction l as [|v l IH]; intros k W; cbn [hoist_pos]; [eauto|]. inversion W as [|? ? Wv Wl]; subst.
  destruct (hoist_val_total v k Wv) as [[[w k1] d1] ->]. destruct (IH k1 Wl) as [[[ws k2] d2] ->]. eauto.
Qed.

Lemma hoist_kw_total v k : wf_kwarg tdm PNp v -> exists r, hoist_kw tdm v k = Some r.
Proof.
  intros W.
  assert (Hs : forall v0, wf_scalar tdm PNp true v0 -> exists r, match kwval_of tdm v0 with Some w => Some (w, k, @nil item) | None => None end = Some r).
  { intros v0 W0. destruct (wf_scalar_val tdm PNp true v0 W0) as [w V].
    destruct v0; try discriminate; cbn [kwval_of]; rewrite V; cbn [option_map]; eauto. }
  destruct v; try (apply Hs; exact W).
  - cbn [hoist_kw]. destruct (hoist_val_total (VArr k0 rows cols elems) k W) as [[[w k1] d] ->]. eauto.
  - destruct W as [_ W]. cbn [hoist_kw kwval_of]. destruct (scalars_total tdm PNp false l W) as [ws ->]. cbn [option_map]. eauto.
Qed.

Lemma hoist_kws_total : forall l k, Forall (fun kv => wf_kwarg tdm PNp (snd kv)) l -> exists r, hoist_kws tdm l k = Some r.
Proof.
  induction l as [|[x v] l IH]; intros k W; cbn [hoist_kws]; [eauto|]. inversion W as [|? ? Wv Wl]; subst.
  destruct (hoist_kw_total v k Wv) as [[[w k1] d1] ->]. destruct (IH k1 Wl) as [[[ws k2] d2] ->]. eauto.
Qed.

Lemma ser_op_total o k : wf_op tdm PNp o -> exists r, ser_op tdm o k = Some r.
Proof.
  intros [_ W]. unfold ser_op. destruct (oargs o) as [[ps kws]|]; [|eauto]. destruct W as (Wp & _ & Wk).
  destruct (hoist_pos_total ps k Wp) as [[[ws k1] d1] ->]. destruct (hoist_kws_total kws k1 Wk) as [[[kw k2] d2] ->]. eauto.
Qed.

Lemma ser_ops_total : forall ops k, Forall (wf_op tdm PNp) ops -> exists r, ser_ops tdm ops k = Some r.
Proof.
  induction ops as [|o ops IH]; intros k W; cbn [ser_ops]; [eauto|]. inversion W as [|? ? Wo Wl]; subst.
  destruct (ser_op_total o k Wo) as [[[t k1] d1] ->]. destruct (IH k1 Wl) as [[[ts k2] d2] ->]. eauto.
Qed.
End Total.

Lemma ser_meta_total nm opts : wf_opts nm opts -> exists m, ser_meta nm opts = Some m.
Proof.
  intros (_ & _ & W). unfold ser_meta. destruct nm; [|eauto]. destruct opts as [|kv opts]; [eauto|].
  destruct (omap_total (fun kv => option_map (fun w => (fst kv, w)) (kwval_of false (snd kv))) (kv :: opts)) as [kws E].
  - intros [x v] Hin. rewrite Forall_forall in W. specialize (W _ Hin). cbn [fst snd] in *.
    assert (exists w, kwval_of false v = Some w) as [w ->]; [|cbn [option_map]; eauto].
    destruct v; try (destruct (wf_scalar_val false no_pn false _ W) as [w V]; cbn [kwval_of]; rewrite V; cbn [option_map]; eauto; fail).
    + destruct W as [_ W]. cbn [kwval_of]. destruct (scalars_total false no_pn false l W) as [ws ->]. cbn [option_map]. eauto.
  - unfold ser_opts. rewrite E. eauto.
Qed.

Theorem ser_script_total p : wf_prog p -> exists sc, ser_script p = Some sc.
Proof.
  intros W. unfold ser_script.
  destruct (ser_meta_total _ _ (wf_target p W)) as [tg ->]. destruct (ser_meta_total _ _ (wf_type p W)) as [ty ->].
  destruct (ser_ops_total _ _ (p_ops p) 0 (wf_ops p W)) as [[[sts k] ds] ->].
  destruct (is_tdm (p_type p)) eqn:T; [|eauto].
  destruct (wf_vars p W T) as (_ & Wv & _).
  destruct (omap_total (decl_item false) (p_vars p)) as [vb ->]; [|eauto].
  intros [x v] Hin. rewrite Forall_forall in Wv. apply decl_item_total. apply (Wv _ Hin).
Qed.

(* ================================================================================================ *)
(* the reloaded program is well formed again                                                         *)
(* ================================================================================================ *)
Lemma wf_scalar_norm tdm (PNp PNp':str -> Prop) wrap v :
  (forall s, PNp s -> PNp' s) -> wf_scalar tdm PNp wrap v -> wf_scalar tdm PNp' wrap (norm_scalar v).
Proof.
  intros HP. destruct v; cbn [norm_scalar wf_scalar]; auto.
  - intros [W K]. split; [apply norm_no_fn; exact W|rewrite norm_kind; exact K].
  - intros [W K]. split.
    + cbn [no_fn_of_sym zero_c]. split; [apply norm_no_fn; exact W|repeat split].
    + cbn [term_kind zero_c]. rewrite norm_kind. destruct (term_kind t); simpl; congruence.
  - intros (W & K & R). split; [apply norm_no_fn; exact W|]. split; [rewrite norm_kind; exact K|].
    rewrite norm_has_reg. exact R.
  - intros (W & K & R). split; [apply norm_no_fn; exact W|]. split; [exact K|]. rewrite norm_has_reg. exact R.
Qed.

Lemma wf_elem_norm ty v : wf_elem ty v -> wf_elem ty (norm_scalar v).
Proof.
  destruct ty, v; cbn [wf_elem norm_scalar]; auto.
  - intros [W K]. split; [apply norm_no_fn; exact W|rewrite norm_kind; exact K].
  - intros [W K]. split.
    + cbn [no_fn_of_sym zero_c]. split; [apply norm_no_fn; exact W|repeat split].
    + cbn [term_kind zero_c]. rewrite norm_kind. destruct (term_kind t); simpl; congruence.
Qed.

Lemma wf_arr_norm v : wf_arr v -> wf_arr (norm_value v).
Proof.
  destruct v; cbn [wf_arr norm_value norm_scalar]; auto. intros (Hr & Hc & Hl & W).
  repeat split; auto; [rewrite map_length; exact Hl|]. apply Forall_forall. intros e He.
  apply in_map_iff in He as (e0 & <- & He). apply wf_elem_norm. rewrite Forall_forall in W. apply W; exact He.
Qed.

Lemma wf_var_norm v : wf_var v -> wf_var (norm_value v).
Proof.
  destruct v; try (cbn [wf_var norm_value norm_scalar]; auto; fail).
  - cbn [wf_var norm_value norm_scalar]. intros [W K]. split; [apply norm_no_fn; exact W|rewrite norm_kind; exact K].
  - cbn [wf_var norm_value norm_scalar]. intros [W K]. split.
    + cbn [no_fn_of_sym zero_c]. split; [apply norm_no_fn; exact W|repeat split].
    + cbn [term_kind zero_c]. rewrite norm_kind. destruct (term_kind t); simpl; congruence.
  - intros W. apply (wf_arr_norm (VArr k rows cols elems)). exact W.
Qed.

Lemma is_arr_norm v : is_arr (norm_value v) = is_arr v.
Proof. destruct v; reflexivity. Qed.

Lemma sym_pars_norm v : sym_pars (norm_scalar v) = sym_pars v.
Proof. destruct v; cbn [sym_pars norm_scalar]; try reflexivity; apply norm_pars. Qed.

Lemma value_spars_norm v : value_spars (norm_value v) = value_spars v.
Proof.
  destruct v; try apply (sym_pars_norm _); try reflexivity.
  cbn [norm_value value_spars]. induction l as [|a l IH]; [reflexivity|]. cbn [map flat_map]. rewrite IH, sym_pars_norm. reflexivity.
Qed.

Lemma arrs_of_norm l : arrs_of (map norm_value l) = map norm_value (arrs_of l).
Proof.
  unfold arrs_of. induction l as [|v l IH]; [reflexivity|]. cbn [map filter]. rewrite is_arr_norm, IH.
  destruct (is_arr v); reflexivity.
Qed.

Lemma op_arrs_norm o : op_arrs (norm_op o) = map norm_value (op_arrs o).
Proof.
  unfold op_arrs, norm_op. cbn [oargs]. destruct (oargs o) as [[ps kws]|]; [|reflexivity]. cbn [norm_args].
  rewrite map_app, arrs_of_norm. f_equal. rewrite <- arrs_of_norm. f_equal. rewrite !map_map. reflexivity.
Qed.

Lemma op_spars_norm o : op_spars (norm_op o) = op_spars o.
Proof.
  unfold op_spars, norm_op. cbn [oargs]. destruct (oargs o) as [[ps kws]|]; [|reflexivity]. cbn [norm_args]. f_equal.
  - induction ps as [|v ps IH]; [reflexivity|]. cbn [map flat_map]. rewrite IH, value_spars_norm. reflexivity.
  - induction kws as [|[x v] kws IH]; [reflexivity|]. cbn [map flat_map normkv fst snd]. rewrite IH, value_spars_norm. reflexivity.
Qed.

Lemma prog_arrs_reload p : prog_arrs (reload p) = map norm_value (prog_arrs p).
Proof.
  unfold prog_arrs. cbn [reload p_ops]. induction (p_ops p) as [|o ops IH]; [reflexivity|].
  cbn [map flat_map]. rewrite IH, op_arrs_norm, map_app. reflexivity.
Qed.

Section NormWf.
Variable tdm : bool.
Variables PNp PNp' : str -> Prop.
Hypothesis HP : forall s, PNp s -> PNp' s.

Lemma wf_arg_norm v : wf_arg tdm PNp v -> wf_arg tdm PNp' (norm_value v).
Proof.
  unfold wf_arg. rewrite is_arr_norm. destruct (is_arr v) eqn:A; intros W; [apply wf_arr_norm; exact W|].
  destruct (scalar_shapes tdm PNp true v W) as (_ & _ & -> & _). apply (wf_scalar_norm tdm PNp PNp' true v HP W).
Qed.

Lemma wf_kwarg_norm v : wf_kwarg tdm PNp v -> wf_kwarg tdm PNp' (norm_value v).
Proof.
  intros W. destruct v;
    try (destruct (scalar_shapes tdm PNp true _ W) as (_ & _ & E & _); rewrite E;
         assert (W' := wf_scalar_norm tdm PNp PNp' true _ HP W); clear E; cbn [norm_scalar] in *; exact W'; fail).
  - apply (wf_arr_norm (VArr k rows cols elems)). exact W.
  - destruct W as [Hne W]. cbn [norm_value wf_kwarg]. split; [destruct l; [contradiction|discriminate]|].
    apply Forall_forall. intros e He. apply in_map_iff in He as (e0 & <- & He).
    apply (wf_scalar_norm tdm PNp PNp' false e0 HP). rewrite Forall_forall in W. apply W; exact He.
Qed.

Lemma wf_op_norm o : wf_op tdm PNp o -> wf_op tdm PNp' (norm_op o).
Proof.
  intros [Wm Wa]. split; [exact Wm|]. unfold norm_op. cbn [oargs]. destruct (oargs o) as [[ps kws]|]; [|exact I].
  destruct Wa as (Wp & Nk & Wk). cbn [norm_args]. split; [|split].
  - apply Forall_forall. intros v Hv. apply in_map_iff in Hv as (v0 & <- & Hv). apply wf_arg_norm.
    rewrite Forall_forall in Wp. apply Wp; exact Hv.
  - rewrite map_map. cbn [normkv fst]. exact Nk.
  - apply Forall_forall. intros kv Hkv. apply in_map_iff in Hkv as ([x v0] & <- & Hv). cbn [normkv fst snd].
    apply wf_kwarg_norm. rewrite Forall_forall in Wk. apply (Wk _ Hv).
Qed.
End NormWf.

Lemma wf_optval_norm v : wf_optval v -> wf_optval (norm_value v).
Proof.
  intros W. destruct v;
    try (destruct (scalar_shapes false no_pn false _ W) as (_ & _ & E & _); rewrite E;
         assert (W' := wf_scalar_norm false no_pn no_pn false _ (fun s H => H) W); clear E; cbn [norm_scalar] in *; exact W'; fail).
  - destruct W as [Hne W]. cbn [norm_value wf_optval]. split; [destruct l; [contradiction|discriminate]|].
    apply Forall_forall. intros e He. apply in_map_iff in He as (e0 & <- & He).
    apply (wf_scalar_norm false no_pn no_pn false e0 (fun s H => H)). rewrite Forall_forall in W. apply W; exact He.
Qed.

Lemma wf_opts_norm nm opts : wf_opts nm opts -> wf_opts nm (map normkv opts).
Proof.
  intros (Hn & Nd & W). split; [intros E; rewrite (Hn E); reflexivity|]. split.
  - rewrite map_map. cbn [normkv fst]. exact Nd.
  - apply Forall_forall. intros kv Hkv. apply in_map_iff in Hkv as ([x v0] & <- & Hv). cbn [normkv fst snd].
    apply wf_optval_norm. rewrite Forall_forall in W. apply (W _ Hv).
Qed.

(* In a tdm program the hoisted declarations A<k> become variables, which the next serialisation writes in the
   variable block AND hoists again under the same names; this second generation is outside [wf_prog] (which asks
   the names A<k> to be fresh).  Hence the side condition: a tdm program has no array arguments. *)
Definition no_tdm_arrays (p:prog) : Prop := is_tdm (p_type p) = true -> prog_arrs p = [].

Theorem reload_wf p : wf_prog p -> no_tdm_arrays p -> wf_prog (reload p) /\ no_tdm_arrays (reload p).
Proof.
  intros W NA.
  assert (EV : p_vars (reload p) = map normkv (name_arrs 0 (prog_arrs p) ++ (if is_tdm (p_type p) then p_vars p else []))).
  { cbn [reload p_vars]. rewrite env_after_nodup; [reflexivity|]. apply (wf_decl_keys p W). }
  assert (HP : forall s, pname_ok p s -> pname_ok (reload p) s).
  { intros s (T & P & ty & r & c & es & Hin). split; [exact T|]. split; [exact P|].
    exists ty, r, c, (map norm_scalar es). rewrite EV, T. apply (in_map normkv _ (s, VArr ty r c es)).
    apply in_or_app. right; exact Hin. }
  split.
  - constructor; cbn [reload p_target p_target_opts p_type p_type_opts p_ops p_modes p_params].
    + apply wf_opts_norm. apply (wf_target p W).
    + apply wf_opts_norm. apply (wf_type p W).
    + apply Forall_forall. intros o Ho. apply in_map_iff in Ho as (o0 & <- & Ho).
      apply (wf_op_norm (is_tdm (p_type p)) (pname_ok p) (pname_ok (reload p)) HP).
      pose proof (wf_ops p W) as Wo. rewrite Forall_forall in Wo. apply Wo; exact Ho.
    + rewrite map_map. reflexivity.
    + intros x. rewrite fold_add_new_In. split.
      * intros [[]|(l & Hl & Hx)]. apply in_map_iff in Hl as (o & <- & Ho).
        exists (norm_op o). split; [apply in_map; exact Ho|rewrite op_spars_norm; exact Hx].
      * intros (o' & Ho' & Hx). apply in_map_iff in Ho' as (o & <- & Ho). rewrite op_spars_norm in Hx.
        right. exists (op_spars o). split; [apply in_map; exact Ho|exact Hx].
    + intros T. rewrite EV, T, (NA T). cbn [name_arrs length seq map combine app].
      destruct (wf_vars p W T) as (Nd & Wv & _). split; [|split].
      * rewrite map_map. cbn [normkv fst]. exact Nd.
      * apply Forall_forall. intros kv Hkv. apply in_map_iff in Hkv as ([x v0] & <- & Hv). cbn [normkv fst snd].
        apply wf_var_norm. rewrite Forall_forall in Wv. apply (Wv _ Hv).
      * rewrite prog_arrs_reload, (NA T). simpl. intros i Hi. lia.
  - intros T. rewrite prog_arrs_reload, (NA T). reflexivity.
Qed.

Fixpoint reload_n (n:nat) (p:prog) : prog := match n with O => p | S n' => reload_n n' (reload p) end.

Theorem gens_total : forall n p, wf_prog p -> no_tdm_arrays p -> gens n p (reload_n n p).
Proof.
  induction n as [|n IH]; intros p W NA; cbn [gens reload_n]; [reflexivity|].
  destruct (ser_script_total p W) as [sc S]. exists sc, (reload p). split; [exact W|]. split; [exact S|].
  split; [apply ser_denote; assumption|]. destruct (reload_wf p W NA) as [W' NA']. apply IH; assumption.
Qed.

Section Generations.
Variable K : Type.
Variables kadd kmul kpow : K -> K -> K.
Variables kneg kinv : K -> K.
Variable kfn : fn -> K -> K.
Variable kdec : Z -> Z -> K.
Variables kpi ki : K.
Variables rho_par rho_reg : str -> K.
Hypothesis Hnegdec : forall m e, kneg (kdec m e) = kdec (- m) e.
Hypothesis Hone : forall x, kmul (kdec 1 0) x = x.
Hypothesis Hzero_i : kadd (kdec 0 0) ki = ki.
Hypothesis Hzero_c : forall x, kadd x (kadd (kdec 0 0) (kmul (kdec 0 0) ki)) = x.

(* C09, unconditionally: every generation exists and is the original program up to the value of symbolic terms *)
Theorem ser_generations_total p : wf_prog p -> no_tdm_arrays p ->
  forall n, exists q, gens n p q /\
    prog_equiv K kadd kmul kpow kneg kinv kfn kdec kpi ki rho_par rho_reg q p.
Proof.
  intros W NA n. exists (reload_n n p). pose proof (gens_total n p W NA) as G. split; [exact G|].
  eapply ser_generations; eassumption.
Qed.
End Generations.

(* ================================================================================================ *)
(* (d) an example, by computation                                                                    *)
(* ================================================================================================ *)
Section Example.
Local Open Scope N_scope.
Let s_Sgate : str := [83; 103; 97; 116; 101].
Let s_Dgate : str := [68; 103; 97; 116; 101].
Let s_a : str := [97].
Let s_s : str := [115].
Let s_p : str := [112].

(*  Sgate(0.5, a=[1, "s"]) | [0, 1]
    Dgate({p}*2, A) | 0            with A a 2x2 array of integers *)
Definition ex_arr : value := VArr VTInt 2 2 [VInt 1; VInt 2; VInt 3; VInt 4].
Definition ex_prog : prog :=
  mkprog [101; 120] [49; 46; 48] None [] None []
    [ mkop s_Sgate (Some ([VFlt (TDec 5 (-1))], [(s_a, VList [VInt 1; VStr s_s])])) [0; 1]%Z;
      mkop s_Dgate (Some ([VSym (TMul (TPar s_p) (TDec 2 0)); ex_arr], [])) [0]%Z ]
    [0; 1]%Z [s_p] [].

Definition ex_script : script :=
  match ser_script ex_prog with Some sc => sc | None => mkscript [] [] None None [] [] end.

Example ex_serialised : ser_script ex_prog = Some ex_script.
Proof. vm_compute. reflexivity. Qed.

(* the script: the hoisted declaration  int array A0[2, 2] = 1, 2 / 3, 4  and the two statements *)
Example ex_script_items :
  sc_items ex_script =
  [ IArray VTInt (DName [65; 48]) (Some [[50]; [50]])
      (ARows [[ENum NKInt [49]; ENum NKInt [50]]; [ENum NKInt [51]; ENum NKInt [52]]]) 0 0;
    IStmt (mkstmt s_Sgate
             (Some (mkargs [VE (ENum NKFloat [53; 101; 45; 49])]
                           [(s_a, KL [VE (ENum NKInt [49]); VS s_s])]))
             [ENum NKInt [48]; ENum NKInt [49]]);
    IStmt (mkstmt s_Dgate
             (Some (mkargs [VE (EBr (EMul false (EPar s_p) (ENum NKFloat [50; 101; 48]))); VE (EVar [65; 48] 0 0)] []))
             [ENum NKInt [48]]) ].
Proof. vm_compute. reflexivity. Qed.

Example ex_loaded : denote [] ex_script = Ok (reload ex_prog).
Proof. vm_compute. reflexivity. Qed.

(* here the operations come back identical (no negative literal, no complex number, no bare inverse); the hoisted
   array is the only variable *)
Example ex_fields :
  match denote [] ex_script with
  | Ok p' => p_name p' = p_name ex_prog /\ p_version p' = p_version ex_prog /\
             p_target p' = None /\ p_type p' = None /\
             p_ops p' = p_ops ex_prog /\ p_modes p' = [0; 1]%Z /\ p_params p' = [s_p] /\
             p_vars p' = [([65; 48], ex_arr)]
  | _ => False
  end.
Proof. vm_compute. repeat split; reflexivity. Qed.

Example ex_wf : wf_prog ex_prog.
Proof.
  assert (I0 : forall z, (Z.abs z <= 100)%Z -> int_ok z).
  { intros z Hz. unfold int_ok, int64_ok. split; apply andb_true_iff; split; apply Z.leb_le; lia. }
  constructor; cbn [ex_prog p_target p_target_opts p_type p_type_opts p_ops p_modes p_params p_vars is_tdm].
  - split; [reflexivity|]. split; constructor.
  - split; [reflexivity|]. split; constructor.
  - repeat constructor; try (apply I0; simpl; lia); try discriminate; simpl; auto; try (intros [|[]]).
  - reflexivity.
  - intros x. split.
    + intros [<-|[]]. eexists. split; [right; left; reflexivity|]. left; reflexivity.
    + intros (o & [<-|[<-|[]]] & Hx); simpl in Hx; [contradiction|]. exact Hx.
  - discriminate.
Qed.
End Example.

(* a negative mantissa, a complex value, a division and a register transform: the terms differ, the values agree *)
Example ex_terms :
  let t := TMul (TDec (-3) 0) (TInv (TAdd TI (TReg [113; 48]%N))) in
  eval [] [] (term_expr t) =
  Ok (VSym (TMul (TNeg (TDec 3 0)) (TInv (TAdd i_term (TReg [113; 48]%N))))).
Proof. vm_compute. reflexivity. Qed.

Print Assumptions parse_z_digits.
Print Assumptions parse_dec_text.
Print Assumptions term_expr_eval.
Print Assumptions term_expr_eval_den.
Print Assumptions value_val_equiv.
Print Assumptions ser_denote.
Print Assumptions ser_script_total.
Print Assumptions reload_equiv.
Print Assumptions ser_roundtrip.
Print Assumptions ser_generations.
Print Assumptions reload_wf.
Print Assumptions ser_generations_total.
