(* Proofs about the executable model of to_DiGraph (BB.Graph).

   Part 1: the relational prototype (generic in n and W), as in
           design_appendix/Graph.v.
   Part 2: characterisation of the executable [edges] / [nodes].
   Part 3: the prototype theorems restated for [ops], and executable
           corollaries. *)
From Coq Require Import List Arith Lia Relations Bool.
Import ListNotations.
From BB Require Import Graph.

(* ------------------------------------------------------------------ *)
(* Part 1: relational prototype                                         *)
(* ------------------------------------------------------------------ *)
Section G.
Variable n : nat.                 (* number of operations *)
Variable W : nat -> list nat.     (* wires of operation i *)

Definition share_g (i j:nat) : Prop := exists q, In q (W i) /\ In q (W j).
Definition Before_g (i j:nat) : Prop := i < j /\ j < n /\ share_g i j.
Definition Consec_g (i j:nat) : Prop :=
  i < j /\ j < n /\
  exists q, In q (W i) /\ In q (W j) /\ forall k, i < k -> k < j -> ~ In q (W k).

Lemma between_dec_g (q i j:nat) :
  {k | i < k /\ k < j /\ In q (W k)} + {forall k, i < k -> k < j -> ~ In q (W k)}.
Proof.
  induction j as [|j IH].
  - right. intros k H1 H2; lia.
  - destruct IH as [(k&H1&H2&H3)|No].
    + left. exists k. repeat split; auto.
    + destruct (le_lt_dec j i) as [Hle|Hlt].
      * right. intros k H1 H2; lia.
      * destruct (in_dec Nat.eq_dec q (W j)) as [Hin|Hn].
        -- left. exists j. repeat split; auto.
        -- right. intros k H1 H2. destruct (Nat.eq_dec k j) as [->|Hne]; auto.
           apply No; lia.
Qed.

Lemma edge_forward_g i j : Consec_g i j -> i < j.
Proof. intros (H&_). exact H. Qed.

Lemma wire_path_g : forall d i j q,
  j - i <= d -> i < j -> j < n -> In q (W i) -> In q (W j) ->
  clos_trans nat Consec_g i j.
Proof.
  induction d as [|d IH]; intros i j q Hd Hij Hn Hi Hj; [lia|].
  destruct (between_dec_g q i j) as [(k&H1&H2&H3)|No].
  - apply t_trans with k; apply (IH _ _ q); auto; lia.
  - apply t_step. repeat split; auto. exists q. auto.
Qed.

Lemma reach_iff_chain_g i j :
  clos_trans nat Consec_g i j <-> clos_trans nat Before_g i j.
Proof.
  split; intros HR.
  - induction HR as [x y H | x y z H1 IH1 H2 IH2].
    + apply t_step. destruct H as (Hxy&Hyn&q&Hqx&Hqy&_).
      repeat split; auto. exists q; auto.
    + eapply t_trans; eauto.
  - induction HR as [x y H | x y z H1 IH1 H2 IH2].
    + destruct H as (Hxy&Hyn&q&Hqx&Hqy). apply (wire_path_g (y - x) x y q); auto.
    + eapply t_trans; eauto.
Qed.

Lemma reach_forward_g i j : clos_trans nat Consec_g i j -> i < j.
Proof.
  intros HR. induction HR as [x y H | x y z H1 IH1 H2 IH2];
    [eapply edge_forward_g; eauto|lia].
Qed.

Lemma acyclic_g i : ~ clos_trans nat Consec_g i i.
Proof. intros H. apply reach_forward_g in H. lia. Qed.

Lemma topo_keeps_wire_order_g (pos : nat -> nat) :
  (forall i j, Consec_g i j -> pos i < pos j) ->
  forall i j, i < j -> j < n -> share_g i j -> pos i < pos j.
Proof.
  intros Hpos i j Hij Hn Hs.
  assert (R: clos_trans nat Consec_g i j)
    by (apply reach_iff_chain_g; apply t_step; repeat split; auto).
  clear Hij Hn Hs.
  induction R as [x y H | x y z H1 IH1 H2 IH2]; [auto|lia].
Qed.
End G.

(* ------------------------------------------------------------------ *)
(* The relations over a concrete program [ops]                          *)
(* ------------------------------------------------------------------ *)
Definition share (ops : list (list nat)) (i j : nat) : Prop :=
  exists q, In q (nth i ops []) /\ In q (nth j ops []).
Definition Before (ops : list (list nat)) (i j : nat) : Prop :=
  i < j /\ j < length ops /\ share ops i j.
(* the edge relation built by to_DiGraph: consecutive operations on some wire *)
Definition Consec (ops : list (list nat)) (i j : nat) : Prop :=
  i < j /\ j < length ops /\
  exists q, In q (nth i ops []) /\ In q (nth j ops []) /\
            forall k, i < k -> k < j -> ~ In q (nth k ops []).

(* ------------------------------------------------------------------ *)
(* Part 2: characterisation of the executable functions                 *)
(* ------------------------------------------------------------------ *)
Lemma has_wire_In q ws : has_wire q ws = true <-> In q ws.
Proof.
  unfold has_wire. rewrite existsb_exists. split.
  - intros (x & Hx & He). apply Nat.eqb_eq in He. subst x. exact Hx.
  - intros H. exists q. split; [exact H | apply Nat.eqb_refl].
Qed.

Lemma grid_from_in : forall ops q s i,
  In i (grid_from q s ops) <->
  s <= i /\ i < s + length ops /\ In q (nth (i - s) ops []).
Proof.
  induction ops as [|ws rest IH]; intros q s i; simpl.
  - split; [tauto | intros (H1&H2&_); lia].
  - destruct (has_wire q ws) eqn:E.
    + simpl. rewrite IH. split.
      * intros [Hs | (H1&H2&H3)].
        -- subst i. replace (s - s) with 0 by lia.
           split; [lia|split; [lia|]]. apply has_wire_In; exact E.
        -- split; [lia|split; [lia|]].
           destruct (i - s) as [|m] eqn:E2; [lia|].
           replace (i - S s) with m in H3 by lia. exact H3.
      * intros (H1&H2&H3). destruct (i - s) as [|m] eqn:E2.
        -- left; lia.
        -- right. split; [lia|split; [lia|]].
           replace (i - S s) with m by lia. exact H3.
    + rewrite IH. split.
      * intros (H1&H2&H3). split; [lia|split; [lia|]].
        destruct (i - s) as [|m] eqn:E2; [lia|].
        replace (i - S s) with m in H3 by lia. exact H3.
      * intros (H1&H2&H3). destruct (i - s) as [|m] eqn:E2.
        -- exfalso. apply has_wire_In in H3. congruence.
        -- split; [lia|split; [lia|]].
           replace (i - S s) with m by lia. exact H3.
Qed.

Theorem grid_wire_char : forall ops q i,
  In i (grid_wire q ops) <-> i < length ops /\ In q (nth i ops []).
Proof.
  intros ops q i. unfold grid_wire. rewrite grid_from_in.
  replace (i - 0) with i by lia. simpl. split.
  - intros (_&H2&H3). split; assumption.
  - intros (H2&H3). split; [lia|split; assumption].
Qed.

(* strictly increasing lists *)
Fixpoint incr (l : list nat) : Prop :=
  match l with
  | [] => True
  | a :: t => (forall x, In x t -> a < x) /\ incr t
  end.

Lemma grid_from_incr : forall ops q s, incr (grid_from q s ops).
Proof.
  induction ops as [|ws rest IH]; intros q s; simpl.
  - exact I.
  - destruct (has_wire q ws).
    + simpl. split; [|apply IH].
      intros x Hx. apply grid_from_in in Hx. lia.
    + apply IH.
Qed.

Theorem grid_wire_incr : forall ops q, incr (grid_wire q ops).
Proof. intros ops q. apply grid_from_incr. Qed.

Lemma incr_NoDup : forall l, incr l -> NoDup l.
Proof.
  induction l as [|a t IH]; intros H.
  - constructor.
  - destruct H as (H1&H2). constructor; [|apply IH; exact H2].
    intros Hin. apply H1 in Hin. lia.
Qed.

Lemma consec_pairs_char : forall l, incr l -> forall a b,
  In (a, b) (consec_pairs l) <->
  In a l /\ In b l /\ a < b /\ forall k, a < k -> k < b -> ~ In k l.
Proof.
  induction l as [|x t IH]; intros Hinc a b.
  - simpl. tauto.
  - destruct t as [|y t'].
    + simpl. split; [tauto|]. intros ([Ha|[]]&[Hb|[]]&Hab&_). lia.
    + destruct Hinc as (Hx&Hinc').
      specialize (IH Hinc' a b).
      change (consec_pairs (x :: y :: t')) with ((x, y) :: consec_pairs (y :: t')).
      assert (Hy : forall z, In z (y :: t') -> y <= z).
      { intros z [Hz|Hz]; [lia|]. destruct Hinc' as (Hy&_). apply Hy in Hz. lia. }
      split.
      * intros [Heq | Hin].
        -- inversion Heq; subst a b.
           split; [left; reflexivity|].
           split; [right; left; reflexivity|].
           split; [apply Hx; left; reflexivity|].
           intros k H1 H2 [Hk|Hk]; [lia|]. apply Hy in Hk. lia.
        -- apply IH in Hin. destruct Hin as (Ha&Hb&Hab&Hno).
           split; [right; exact Ha|]. split; [right; exact Hb|].
           split; [exact Hab|].
           intros k H1 H2 [Hk|Hk].
           ++ subst k. apply Hx in Ha. lia.
           ++ exact (Hno k H1 H2 Hk).
      * intros (Ha&Hb&Hab&Hno).
        destruct Ha as [Ha|Ha].
        -- subst a. destruct Hb as [Hb|Hb]; [lia|].
           destruct (Nat.eq_dec b y) as [->|Hne]; [left; reflexivity|].
           exfalso. assert (Hyb := Hy b Hb).
           apply (Hno y); [apply Hx; left; reflexivity | lia | right; left; reflexivity].
        -- destruct Hb as [Hb|Hb].
           ++ subst b. apply Hx in Ha. lia.
           ++ right. apply IH.
              split; [exact Ha|]. split; [exact Hb|]. split; [exact Hab|].
              intros k H1 H2 Hk. apply (Hno k H1 H2). right. exact Hk.
Qed.

Lemma add_new_in : forall ws acc q,
  In q (add_new acc ws) <-> In q acc \/ In q ws.
Proof.
  induction ws as [|w ws IH]; intros acc q; simpl.
  - tauto.
  - destruct (has_wire w acc) eqn:E.
    + rewrite IH. apply has_wire_In in E. split.
      * intros [H|H]; auto.
      * intros [H|[H|H]]; auto. subst w. auto.
    + rewrite IH. rewrite in_app_iff. simpl. tauto.
Qed.

Lemma add_new_NoDup : forall ws acc, NoDup acc -> NoDup (add_new acc ws).
Proof.
  induction ws as [|w ws IH]; intros acc Hnd; simpl.
  - exact Hnd.
  - destruct (has_wire w acc) eqn:E.
    + apply IH; exact Hnd.
    + apply IH.
      assert (Hn : ~ In w acc).
      { intros Hin. apply has_wire_In in Hin. congruence. }
      clear E IH. induction acc as [|a acc IHa]; simpl.
      * constructor; [intros []|constructor].
      * inversion Hnd as [|a' l' Ha Hnd']; subst.
        constructor.
        -- rewrite in_app_iff. simpl. intros [H|[H|[]]]; [auto|].
           subst a. apply Hn. left; reflexivity.
        -- apply IHa; [exact Hnd'|]. intros H. apply Hn. right; exact H.
Qed.

Lemma fold_add_new_in : forall ops acc q,
  In q (fold_left add_new ops acc) <->
  In q acc \/ exists ws, In ws ops /\ In q ws.
Proof.
  induction ops as [|ws rest IH]; intros acc q; simpl.
  - split; [auto|]. intros [H|(ws&[]&_)]. exact H.
  - rewrite IH. rewrite add_new_in. split.
    + intros [[H|H]|(ws'&H1&H2)].
      * left; exact H.
      * right. exists ws. split; [left; reflexivity|exact H].
      * right. exists ws'. split; [right; exact H1|exact H2].
    + intros [H|(ws'&[H1|H1]&H2)].
      * left; left; exact H.
      * subst ws'. left; right; exact H2.
      * right. exists ws'. split; assumption.
Qed.

Theorem wires_of_char : forall ops q,
  In q (wires_of ops) <-> exists i, i < length ops /\ In q (nth i ops []).
Proof.
  intros ops q. unfold wires_of. rewrite fold_add_new_in. simpl. split.
  - intros [[]|(ws&H1&H2)].
    destruct (In_nth ops ws [] H1) as (i&Hi&He).
    exists i. split; [exact Hi|]. rewrite He. exact H2.
  - intros (i&Hi&Hq). right. exists (nth i ops []).
    split; [apply nth_In; exact Hi|exact Hq].
Qed.

Theorem wires_of_NoDup : forall ops, NoDup (wires_of ops).
Proof.
  intros ops. unfold wires_of.
  assert (H : forall acc, NoDup acc -> NoDup (fold_left add_new ops acc)).
  { induction ops as [|ws rest IH]; intros acc Hnd; simpl.
    - exact Hnd.
    - apply IH. apply add_new_NoDup. exact Hnd. }
  apply H. constructor.
Qed.

Theorem edges_char : forall ops i j, In (i, j) (edges ops) <-> Consec ops i j.
Proof.
  intros ops i j. unfold edges, Consec. rewrite in_flat_map. split.
  - intros (q&_&Hin).
    apply (consec_pairs_char _ (grid_wire_incr ops q)) in Hin.
    destruct Hin as (Hi&Hj&Hij&Hno).
    apply grid_wire_char in Hi. apply grid_wire_char in Hj.
    destruct Hi as (Hin_i&Hqi). destruct Hj as (Hjn&Hqj).
    split; [exact Hij|]. split; [exact Hjn|].
    exists q. split; [exact Hqi|]. split; [exact Hqj|].
    intros k H1 H2 Hk. apply (Hno k H1 H2).
    apply grid_wire_char. split; [lia|exact Hk].
  - intros (Hij&Hjn&q&Hqi&Hqj&Hno).
    exists q. split.
    + apply wires_of_char. exists i. split; [lia|exact Hqi].
    + apply (consec_pairs_char _ (grid_wire_incr ops q)).
      split; [apply grid_wire_char; split; [lia|exact Hqi]|].
      split; [apply grid_wire_char; split; [lia|exact Hqj]|].
      split; [exact Hij|].
      intros k H1 H2 Hk. apply grid_wire_char in Hk.
      destruct Hk as (_&Hk). exact (Hno k H1 H2 Hk).
Qed.

Lemma nodes_from_in : forall ops s i,
  In i (nodes_from s ops) <->
  s <= i /\ i < s + length ops /\ nth (i - s) ops [] <> [].
Proof.
  induction ops as [|ws rest IH]; intros s i; simpl.
  - split; [tauto | intros (H1&H2&_); lia].
  - destruct ws as [|w ws].
    + rewrite IH. split.
      * intros (H1&H2&H3). split; [lia|split; [lia|]].
        destruct (i - s) as [|m] eqn:E2; [lia|].
        replace (i - S s) with m in H3 by lia. exact H3.
      * intros (H1&H2&H3). destruct (i - s) as [|m] eqn:E2.
        -- exfalso. apply H3. reflexivity.
        -- split; [lia|split; [lia|]].
           replace (i - S s) with m by lia. exact H3.
    + simpl. rewrite IH. split.
      * intros [Hs | (H1&H2&H3)].
        -- subst i. replace (s - s) with 0 by lia.
           split; [lia|split; [lia|]]. discriminate.
        -- split; [lia|split; [lia|]].
           destruct (i - s) as [|m] eqn:E2; [lia|].
           replace (i - S s) with m in H3 by lia. exact H3.
      * intros (H1&H2&H3). destruct (i - s) as [|m] eqn:E2.
        -- left; lia.
        -- right. split; [lia|split; [lia|]].
           replace (i - S s) with m by lia. exact H3.
Qed.

Lemma nodes_from_incr : forall ops s, incr (nodes_from s ops).
Proof.
  induction ops as [|ws rest IH]; intros s; simpl.
  - exact I.
  - destruct ws as [|w ws].
    + apply IH.
    + simpl. split; [|apply IH].
      intros x Hx. apply nodes_from_in in Hx. lia.
Qed.

Theorem nodes_char : forall ops i,
  In i (nodes ops) <-> i < length ops /\ nth i ops [] <> [].
Proof.
  intros ops i. unfold nodes. rewrite nodes_from_in.
  replace (i - 0) with i by lia. simpl. split.
  - intros (_&H2&H3). split; assumption.
  - intros (H2&H3). split; [lia|split; assumption].
Qed.

Theorem nodes_incr : forall ops, incr (nodes ops).
Proof. intros ops. apply nodes_from_incr. Qed.

Theorem nodes_NoDup : forall ops, NoDup (nodes ops).
Proof. intros ops. apply incr_NoDup. apply nodes_incr. Qed.

(* every endpoint of an edge is a node (networkx adds them implicitly) *)
Corollary edges_endpoints_nodes : forall ops i j,
  In (i, j) (edges ops) -> In i (nodes ops) /\ In j (nodes ops).
Proof.
  intros ops i j H. apply edges_char in H.
  destruct H as (Hij&Hjn&q&Hqi&Hqj&_).
  split; apply nodes_char; (split; [lia|]); intros He.
  - rewrite He in Hqi. destruct Hqi.
  - rewrite He in Hqj. destruct Hqj.
Qed.

(* ------------------------------------------------------------------ *)
(* Part 3: prototype theorems for [ops]                                 *)
(* ------------------------------------------------------------------ *)
Theorem edge_forward : forall ops i j, Consec ops i j -> i < j.
Proof.
  intros ops. exact (edge_forward_g (length ops) (fun i => nth i ops [])).
Qed.

Theorem reach_iff_chain : forall ops i j,
  clos_trans nat (Consec ops) i j <-> clos_trans nat (Before ops) i j.
Proof.
  intros ops. exact (reach_iff_chain_g (length ops) (fun i => nth i ops [])).
Qed.

Theorem acyclic : forall ops i, ~ clos_trans nat (Consec ops) i i.
Proof.
  intros ops. exact (acyclic_g (length ops) (fun i => nth i ops [])).
Qed.

(* every linear extension of the graph keeps the program order on every wire *)
Theorem topo_keeps_wire_order : forall ops (pos : nat -> nat),
  (forall i j, Consec ops i j -> pos i < pos j) ->
  forall i j, i < j -> j < length ops -> share ops i j -> pos i < pos j.
Proof.
  intros ops.
  exact (topo_keeps_wire_order_g (length ops) (fun i => nth i ops [])).
Qed.

Corollary edges_forward_exec : forall ops i j,
  In (i, j) (edges ops) -> i < j /\ j < length ops.
Proof.
  intros ops i j H. apply edges_char in H. destruct H as (H1&H2&_).
  split; assumption.
Qed.

Lemma clos_trans_iff (R S : nat -> nat -> Prop) :
  (forall a b, R a b <-> S a b) ->
  forall i j, clos_trans nat R i j <-> clos_trans nat S i j.
Proof.
  intros HRS i j. split; intros H;
    induction H as [x y H | x y z H1 IH1 H2 IH2].
  - apply t_step. apply HRS. exact H.
  - eapply t_trans; eauto.
  - apply t_step. apply HRS. exact H.
  - eapply t_trans; eauto.
Qed.

Corollary reach_exec_iff_chain : forall ops i j,
  clos_trans nat (fun a b => In (a, b) (edges ops)) i j <->
  clos_trans nat (Before ops) i j.
Proof.
  intros ops i j. rewrite <- reach_iff_chain.
  apply clos_trans_iff. intros a b. apply edges_char.
Qed.

Corollary acyclic_exec : forall ops i,
  ~ clos_trans nat (fun a b => In (a, b) (edges ops)) i i.
Proof.
  intros ops i H. apply (acyclic ops i).
  apply (proj1 (clos_trans_iff (fun a b => In (a, b) (edges ops)) (Consec ops)
                 (edges_char ops) i i)).
  exact H.
Qed.

Corollary topo_keeps_wire_order_exec : forall ops (pos : nat -> nat),
  (forall i j, In (i, j) (edges ops) -> pos i < pos j) ->
  forall i j, i < j -> j < length ops -> share ops i j -> pos i < pos j.
Proof.
  intros ops pos Hpos. apply topo_keeps_wire_order.
  intros i j H. apply Hpos. apply edges_char. exact H.
Qed.

(* ------------------------------------------------------------------ *)
(* Examples                                                             *)
(* ------------------------------------------------------------------ *)
(* 5 operations on wires 0,1,2:
     0: op | 0      1: op | 1      2: op | [0,1]
     3: op | 2      4: op | [1,2]                                      *)
Definition ex1 : list (list nat) := [[0]; [1]; [0; 1]; [2]; [1; 2]].

Example ex1_grid0 : grid_wire 0 ex1 = [0; 2].
Proof. vm_compute. reflexivity. Qed.
Example ex1_grid1 : grid_wire 1 ex1 = [1; 2; 4].
Proof. vm_compute. reflexivity. Qed.
Example ex1_grid2 : grid_wire 2 ex1 = [3; 4].
Proof. vm_compute. reflexivity. Qed.
Example ex1_wires : wires_of ex1 = [0; 1; 2].
Proof. vm_compute. reflexivity. Qed.
Example ex1_edges : edges ex1 = [(0, 2); (1, 2); (2, 4); (3, 4)].
Proof. vm_compute. reflexivity. Qed.
Example ex1_nodes : nodes ex1 = [0; 1; 2; 3; 4].
Proof. vm_compute. reflexivity. Qed.

(* duplicates in a wire list, an operation without wires (not a node), wires
   first seen in the order 1,0,2, and a duplicated edge (2,3) via wires 0 and 2 *)
Definition ex2 : list (list nat) := [[1; 1]; []; [0; 1; 2]; [2; 0]; [2]].

Example ex2_wires : wires_of ex2 = [1; 0; 2].
Proof. vm_compute. reflexivity. Qed.
Example ex2_edges : edges ex2 = [(0, 2); (2, 3); (2, 3); (3, 4)].
Proof. vm_compute. reflexivity. Qed.
Example ex2_nodes : nodes ex2 = [0; 2; 3; 4].
Proof. vm_compute. reflexivity. Qed.

Print Assumptions edges_char.
Print Assumptions nodes_char.
Print Assumptions nodes_NoDup.
Print Assumptions edge_forward.
Print Assumptions acyclic.
Print Assumptions reach_iff_chain.
Print Assumptions edges_forward_exec.
Print Assumptions reach_exec_iff_chain.
Print Assumptions topo_keeps_wire_order.
Print Assumptions acyclic_exec.
Print Assumptions topo_keeps_wire_order_exec.
