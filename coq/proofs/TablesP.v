From Coq Require Import List NArith ZArith Bool.
Import ListNotations.
From BB Require Import Syntax Values Eval Tables.

Section P.
Variable residue : gstate -> script -> gstate.
Variable incs : list (str * prog).

(* with the tables cleared at the start of parse, the outcome of a load does not depend on the tables it finds *)
Theorem load_state_independent : forall g1 g2 sc,
  snd (load_step residue incs true g1 sc) = snd (load_step residue incs true g2 sc).
Proof. intros g1 g2 sc. reflexivity. Qed.

(* ... hence not on any history of earlier loads, whatever they were and however they failed *)
Theorem load_history_independent : forall h sc,
  snd (load_step residue incs true (run_history residue incs true g_empty h) sc)
  = snd (load_step residue incs true g_empty sc).
Proof. intros h sc. apply load_state_independent. Qed.

(* and the outcome is the denotation of the script *)
Lemma meta_opts_in_nil a : meta_opts_in [] a = meta_opts a.
Proof. destruct a as [[nm [args|]]|]; reflexivity. Qed.

Theorem load_step_denote : forall g sc, snd (load_step residue incs true g sc) = denote incs sc.
Proof.
  intros g sc. unfold load_step, denote. cbn [g_var g_empty].
  rewrite (meta_opts_in_nil (sc_target sc)).
  destruct (meta_opts (sc_target sc)) as [tg|c|]; try reflexivity.
  cbn [bind]. rewrite (meta_opts_in_nil (sc_type sc)).
  destruct (meta_opts (sc_type sc)) as [ty|c|]; try reflexivity.
  cbn [bind]. cbv zeta.
  remember (exec_items incs (is_tdm (fst ty)) (mkst [] [] [] [] []) (sc_items sc)) as r eqn:Er.
  destruct r as [s|c|]; cbn [bind snd]; reflexivity.
Qed.

(* after a successful load the tables are empty *)
Theorem load_ok_clears : forall b g sc p, snd (load_step residue incs b g sc) = Ok p -> fst (load_step residue incs b g sc) = g_empty.
Proof.
  intros b g sc p. unfold load_step.
  match goal with |- context [match ?r with Ok _ => _ | Refuse _ => _ | Unspec => _ end] => destruct r end; cbn; congruence.
Qed.
End P.

(* The unrepaired algorithm (tables cleared only on entering/leaving the program block) is NOT history independent:
   a failed load that bound n = 5 makes `target dev (shots=n)` load with shots = 5, while a pristine process refuses it. *)
Definition name_n : str := [110%N].
Definition witness_script : script :=
  mkscript [112%N] [49;46;48]%N
           (Some ([100;101;118]%N, Some (mkargs [] [([115%N], KV (VE (EVar name_n 3 18)))])))
           None [] [].
Definition witness_residue : gstate := mkg [(name_n, VInt 5)] [].

Theorem history_independence_refuted :
  exists (residue : gstate -> script -> gstate) g sc,
    snd (load_step residue [] false g sc) <> snd (load_step residue [] false g_empty sc).
Proof.
  exists (fun g _ => g), witness_residue, witness_script. vm_compute. discriminate.
Qed.

Example witness_old_accepts :
  exists p, snd (load_step (fun g _ => g) [] false witness_residue witness_script) = Ok p /\ p_target_opts p = [([115%N], VInt 5)].
Proof. eexists. split; vm_compute; reflexivity. Qed.
Example witness_new_refuses :
  snd (load_step (fun g _ => g) [] true witness_residue witness_script) = Refuse (EUndefined name_n 3 18).
Proof. vm_compute. reflexivity. Qed.
