(* PARSER SOUNDNESS: every token list accepted by the model parser (Parser.pscript) is a sentence of the grammar
   regenerated from blackbird.g4 (G4Data.pg, and G4Data.pg_lr = the grammar as written).

     pscript_sound     pscript f ts = Some sc -> all kinds known -> M pg    (kinds ts ++ [EOF]) (Ref start) 0 (|ts|+1)
     pscript_sound_lr  the same for pg_lr (left-recursive expression rule, as in the .g4 file)

   Method: a list-based derivation predicate [D e u] (the token list u is derived by e in pg_lr), one soundness
   lemma per parser function ("what the function consumed is derived by the corresponding rule"), and one bridge
   from D to the positional relation M of model/Ebnf.v.  Expressions go through ExprP.pexpr_yield: every tree the
   parser builds is spelled by what it consumed, and every spelled tree is a derivation of the left-recursive rule. *)
From Coq Require Import List Arith Bool Lia NArith.
Import ListNotations.
From BB Require Import Ebnf Chars Lexer Syntax Parser G4Data EbnfP LrecP GrammarP ExprP.

(* ------------------------------------------------------------------------------------------------ *)
(* 1. Token kinds <-> token type numbers                                                             *)
(* ------------------------------------------------------------------------------------------------ *)
Definition nat_of_tk (k:tk) : nat :=
  match k with
  | TEOF => 0
  | TPLUS => 1 | TMINUS => 2 | TTIMES => 3 | TDIVIDE => 4 | TPWR => 5 | TASSIGN => 6 | TFOR => 7 | TIN => 8
  | TINT => 9 | TFLOAT => 10 | TCOMPLEX => 11 | TSTR => 12 | TBOOL => 13 | TSEQUENCE => 14 | TPI => 15
  | TNEWLINE => 16 | TTAB => 17 | TSPACE => 18
  | TPROGNAME => 19 | TVERSION => 20 | TTARGET => 21 | TPROGTYPE => 22 | TINCLUDE => 23
  | TSQRT => 24 | TSIN => 25 | TCOS => 26 | TTAN => 27 | TARCSIN => 28 | TARCCOS => 29 | TARCTAN => 30
  | TSINH => 31 | TCOSH => 32 | TTANH => 33 | TARCSINH => 34 | TARCCOSH => 35 | TARCTANH => 36 | TEXP => 37 | TLOG => 38
  | TPERIOD => 39 | TCOMMA => 40 | TCOLON => 41 | TQUOTE => 42 | TLBRAC => 43 | TRBRAC => 44 | TLSQBRAC => 45
  | TRSQBRAC => 46 | TLBRACE => 47 | TRBRACE => 48 | TAPPLY => 49
  | TTYPE_ARRAY => 50 | TTYPE_FLOAT => 51 | TTYPE_COMPLEX => 52 | TTYPE_INT => 53 | TTYPE_STR => 54 | TTYPE_BOOL => 55
  | TREGREF => 56 | TMEASURE => 57 | TNAME => 58 | TDEVICE => 59 | TCOMMENT => 60 | TANY => 61
  | TUNKNOWN => 62
  end.

Lemma tk_roundtrip_check : forallb (fun n => Nat.eqb (nat_of_tk (tk_of_nat n)) n) (seq 0 62) = true.
Proof. vm_compute. reflexivity. Qed.

Lemma nat_of_tk_of_nat n : n <= 61 -> nat_of_tk (tk_of_nat n) = n.
Proof.
  intros H. pose proof tk_roundtrip_check as C. rewrite forallb_forall in C.
  apply Nat.eqb_eq. apply C. apply in_seq. lia.
Qed.

Lemma tk_of_nat_big n : 62 <= n -> tk_of_nat n = TUNKNOWN.
Proof. intros H. do 62 (destruct n as [|n]; [lia|]). reflexivity. Qed.

(* on the range of real token types, tk_of_nat is injective: "tk_of_nat n = TNAME -> n = 58" etc. *)
Lemma tk_of_nat_eq n k : n <= 61 -> tk_of_nat n = k -> n = nat_of_tk k.
Proof. intros H E. rewrite <- E. symmetry. now apply nat_of_tk_of_nat. Qed.

Lemma tk_of_nat_inj k n : k <= 61 -> tk_of_nat k = tk_of_nat n -> k = n.
Proof.
  intros Hk E. destruct (le_lt_dec n 61) as [Hn|Hn].
  - rewrite <- (nat_of_tk_of_nat k Hk), <- (nat_of_tk_of_nat n Hn). now rewrite E.
  - rewrite (tk_of_nat_big n) in E by lia. apply (tk_of_nat_eq _ _ Hk) in E. simpl in E. lia.
Qed.

(* a token whose type number is a real token type of the grammar (not EOF, not out of range) *)
Definition known_kind (t:token) : Prop := 1 <= tkind t /\ tkind t <= 61.

Example tk_of_nat_name n : n <= 61 -> tk_of_nat n = TNAME -> n = 58.
Proof. intros H E. exact (tk_of_nat_eq n TNAME H E). Qed.

(* ------------------------------------------------------------------------------------------------ *)
(* 2. List-based derivations in pg_lr, and the bridge to the positional relation M                   *)
(* ------------------------------------------------------------------------------------------------ *)
(* D e u : the token list u is derived by e.  A terminal n matches the token t when the KIND of t is the kind
   numbered n (this is what the parser tests); on known kinds this is tkind t = n (tk_of_nat_inj). *)
Inductive D : ebnf nat -> list token -> Prop :=
| DTok n t : tkk t = tk_of_nat n -> D (Tok n) [t]
| DRef r u : D (pg_lr r) u -> D (Ref r) u
| DEps : D Eps []
| DSeq a b u v : D a u -> D b v -> D (Seq a b) (u ++ v)
| DAltL a b u : D a u -> D (Alt a b) u
| DAltR a b u : D b u -> D (Alt a b) u
| DStar0 a : D (Star a) []
| DStarS a u v : D a u -> D (Star a) v -> D (Star a) (u ++ v).

Definition kinds (ts:list token) : list nat := map tkind ts.

Theorem D_M : forall e u, D e u -> Forall (fun t => tkind t <= 61) u ->
  forall l r, M nat nat Nat.eqb pg_lr (l ++ kinds u ++ r) e (length l) (length l + length u).
Proof.
  unfold kinds. induction 1; intros K l0 r0.
  - inversion K; subst. assert (E : tkind t = n) by (apply tk_of_nat_inj; auto).
    cbn [map length app]. rewrite Nat.add_1_r. apply MTok with (x := tkind t).
    + rewrite nth_error_app2 by lia. rewrite Nat.sub_diag. reflexivity.
    + rewrite E. apply Nat.eqb_refl.
  - apply MRef. apply IHD. exact K.
  - cbn [length]. rewrite Nat.add_0_r. apply MEps.
  - apply Forall_app in K. destruct K as [Ku Kv].
    rewrite map_app, app_length, <- app_assoc, Nat.add_assoc.
    apply MSeq with (k := length l0 + length u).
    + apply IHD1. exact Ku.
    + specialize (IHD2 Kv (l0 ++ map tkind u) r0). rewrite app_length, map_length, <- app_assoc in IHD2. exact IHD2.
  - apply MAltL. apply IHD. exact K.
  - apply MAltR. apply IHD. exact K.
  - cbn [length]. rewrite Nat.add_0_r. apply MStar0.
  - apply Forall_app in K. destruct K as [Ku Kv].
    specialize (IHD2 Kv (l0 ++ map tkind u) r0). rewrite app_length, map_length, <- app_assoc in IHD2.
    rewrite map_app, app_length, <- app_assoc, Nat.add_assoc.
    destruct u as [|t u].
    + cbn [map app length] in *. rewrite Nat.add_0_r in *. exact IHD2.
    + apply MStarS with (k := length l0 + length (t :: u)).
      * cbn [length]. lia.
      * apply IHD1. exact Ku.
      * exact IHD2.
Qed.

(* ---- small combinators ---- *)
Lemma DSeqC n t b v : tkk t = tk_of_nat n -> D b v -> D (Seq (Tok n) b) (t :: v).
Proof. intros H Hv. change (t :: v) with ([t] ++ v). apply DSeq; [apply DTok; exact H|exact Hv]. Qed.
Lemma DSeqE a b u : D a u -> D b [] -> D (Seq a b) u.
Proof. intros Ha Hb. rewrite <- (app_nil_r u). now apply DSeq. Qed.
Lemma DSeqN a b v : D a [] -> D b v -> D (Seq a b) v.
Proof. intros Ha Hb. change v with ([] ++ v). now apply DSeq. Qed.
Lemma DStarC n t v : tkk t = tk_of_nat n -> D (Star (Tok n)) v -> D (Star (Tok n)) (t :: v).
Proof. intros H Hv. change (t :: v) with ([t] ++ v). apply DStarS; [apply DTok; exact H|exact Hv]. Qed.
Lemma DOptN a : D (Alt Eps a) [].
Proof. apply DAltL. apply DEps. Qed.
Lemma DOptS a u : D a u -> D (Alt Eps a) u.
Proof. apply DAltR. Qed.
Lemma D_eq e u v : D e u -> u = v -> D e v.
Proof. intros H <-. exact H. Qed.

(* a single token against a tree of alternatives of terminals and rule references *)
Ltac dalt := solve [ apply DTok; eassumption
                   | apply DRef; cbn [pg_lr pg]; dalt
                   | apply DAltL; dalt
                   | apply DAltR; dalt ].

(* list equations: right-nested appends with the conses pushed out *)
Ltac lnorm := repeat first [rewrite <- app_assoc | rewrite app_nil_r | progress cbn [app]].
Ltac leq := lnorm; reflexivity.

Local Notation SepL e n := (Seq e (Star (Seq (Tok n) e))).

Lemma D_sep_one e n u : D e u -> D (SepL e n) u.
Proof. intros H. apply DSeqE; [exact H|apply DStar0]. Qed.
Lemma D_sep_cons e n u c v : D e u -> tkk c = tk_of_nat n -> D (SepL e n) v -> D (SepL e n) (u ++ c :: v).
Proof.
  intros Du Hc Dv. inversion Dv as [| | |a b u0 v0 D1 D2| | | |]; subst.
  apply DSeq; [exact Du|]. change (c :: u0 ++ v0) with ((c :: u0) ++ v0).
  apply DStarS; [apply DSeqC; assumption|exact D2].
Qed.

(* what a parser function consumed is derived by e *)
Definition Sound {A} (px : list token -> option (A * list token)) (e : ebnf nat) : Prop :=
  forall ts x r, px ts = Some (x, r) -> exists pre, ts = pre ++ r /\ D e pre.

(* facts about the token tests *)
Lemma peek_is k ts : k <> TEOF -> tk_beq (peek ts) k = true -> exists t r, ts = t :: r /\ tkk t = k.
Proof.
  intros Hk H. apply internal_tk_dec_bl in H. destruct ts as [|t r]; simpl in H; [congruence|]. eauto.
Qed.

(* ------------------------------------------------------------------------------------------------ *)
(* 3. Expressions: every spelled tree is a derivation of the (left-recursive) rule 31                 *)
(* ------------------------------------------------------------------------------------------------ *)
Lemma D31_prim u : D lrec_prim u -> D (Ref 31) u.
Proof. intros H. apply DRef. apply DAltL. exact H. Qed.
Lemma D31_pre t u : D lrec_pre [t] -> D (Ref 31) u -> D (Ref 31) (t :: u).
Proof.
  intros Ht Hu. apply DRef. apply DAltR. apply DAltL. change (t :: u) with ([t] ++ u). now apply DSeq.
Qed.
Lemma D31_bin ua t ub : D (Ref 31) ua -> D lrec_bin [t] -> D (Ref 31) ub -> D (Ref 31) (ua ++ t :: ub).
Proof.
  intros Ha Ht Hb. apply DRef. apply DAltR. apply DAltR. apply DSeq; [exact Ha|].
  change (t :: ub) with ([t] ++ ub). now apply DSeq.
Qed.

Lemma D_function t fu : fn_of_tk (tkk t) = Some fu -> D (Ref 34) [t].
Proof. intros H. destruct (tkk t) eqn:K; try discriminate; dalt. Qed.

Theorem Spell_D : forall e pre, Spell e pre -> D (Ref 31) pre.
Proof.
  induction 1.
  - apply D31_prim. unfold lrec_prim. destruct k; cbn [tk_of_numkind] in H; dalt.
  - apply D31_prim. unfold lrec_prim. dalt.
  - apply D31_prim. unfold lrec_prim. dalt.
  - apply D31_prim. unfold lrec_prim. do 4 apply DAltR. apply DAltL.
    apply DSeqC; [exact H|]. apply DSeqC; [exact H0|]. apply DSeq; [exact IHSpell|apply DTok; exact H1].
  - apply D31_prim. unfold lrec_prim. do 5 apply DAltR. apply DRef. cbn [pg_lr pg].
    apply DSeqC; [exact H|]. apply DSeqC; [exact H0|]. apply DTok; exact H1.
  - apply D31_prim. unfold lrec_prim. apply DAltL.
    apply DSeqC; [exact H|]. apply DSeq; [exact IHSpell|apply DTok; exact H0].
  - apply D31_pre; [|exact IHSpell]. unfold lrec_pre. destruct neg; dalt.
  - apply D31_bin; auto. unfold lrec_bin. dalt.
  - apply D31_bin; auto. unfold lrec_bin. destruct dv; dalt.
  - apply D31_bin; auto. unfold lrec_bin. destruct sub; dalt.
  - apply D31_prim. unfold lrec_prim. apply DAltR. apply DAltL.
    change (t :: o :: ts ++ [c]) with ([t] ++ o :: ts ++ [c]). apply DSeq; [eapply D_function; eauto|].
    apply DSeqC; [exact H0|]. apply DSeq; [exact IHSpell|apply DTok; exact H1].
Qed.

Theorem pexpr_sound f p : Sound (pexpr f p) (Ref 31).
Proof.
  intros ts e r H. apply pexpr_yield in H. destruct H as (pre & E & S). exists pre. split; [exact E|].
  now apply Spell_D with e.
Qed.

(* ------------------------------------------------------------------------------------------------ *)
(* 4. Values, separated lists                                                                        *)
(* ------------------------------------------------------------------------------------------------ *)
Lemma pval_cases f ts v r : pval f ts = Some (v, r) ->
  exists pre, ts = pre ++ r /\ (D (Ref 18) pre \/ D (Ref 31) pre).
Proof.
  unfold pval. destruct ts as [|t r0]; [discriminate|]. intros H.
  destruct (tkk t) eqn:K;
  match type of K with
  | _ = TSTR => inversion H; subst; exists [t]; split; [reflexivity|left; dalt]
  | _ = TBOOL => inversion H; subst; exists [t]; split; [reflexivity|left; dalt]
  | _ => destruct (pexpr f 0 (t :: r0)) as [[e r']|] eqn:E; [|discriminate]; inversion H; subst;
         apply pexpr_sound in E; destruct E as (pre & Ep & Dp); exists pre; split; [exact Ep|right; exact Dp]
  end.
Qed.

(* val : nonnumeric | expression *)
Theorem pval_sound f : Sound (pval f) (Ref 28).
Proof.
  intros ts v r H. apply pval_cases in H. destruct H as (pre & E & [H|H]); exists pre; (split; [exact E|]);
  apply DRef; cbn [pg_lr pg]; [apply DAltL|apply DAltR]; exact H.
Qed.
(* the right-hand side of expressionvar : expression | nonnumeric *)
Lemma pval_sound12 f : Sound (pval f) (Alt (Ref 31) (Ref 18)).
Proof.
  intros ts v r H. apply pval_cases in H. destruct H as (pre & E & [H|H]); exists pre; (split; [exact E|]);
  [apply DAltR|apply DAltL]; exact H.
Qed.

Lemma psep_S {A} (px : list token -> option (A * list token)) f ts : psep px (S f) ts =
    match px ts with
    | Some (x, r) =>
        match r with
        | c :: r1 => if isk TCOMMA c then
                       match psep px f r1 with Some (xs, r2) => Some (x :: xs, r2) | None => None end
                     else Some ([x], r)
        | [] => Some ([x], r)
        end
    | None => None
    end.
Proof. reflexivity. Qed.

Theorem psep_sound {A} (px : list token -> option (A * list token)) e :
  Sound px e -> forall f, Sound (psep px f) (SepL e 40).
Proof.
  intros Hpx. induction f as [|f IH]; intros ts xs r H; [discriminate|].
  rewrite psep_S in H. destruct (px ts) as [[x r0]|] eqn:E; [|discriminate].
  apply Hpx in E. destruct E as (pre0 & -> & D0).
  destruct r0 as [|c r1].
  - inversion H; subst. exists pre0. split; [reflexivity|apply D_sep_one; exact D0].
  - destruct (isk TCOMMA c) eqn:Hc.
    + destruct (psep px f r1) as [[xs' r2]|] eqn:E2; [|discriminate]. inversion H; subst.
      apply IH in E2. destruct E2 as (pre1 & -> & D1). apply isk_true in Hc.
      exists (pre0 ++ c :: pre1). split; [leq|]. apply D_sep_cons; auto.
    + inversion H; subst. exists pre0. split; [reflexivity|apply D_sep_one; auto].
Qed.

(* arrayrow : expression (COMMA expression)*      vallist : val (COMMA val)* *)
Theorem parrayrow_sound f : Sound (parrayrow f) (Ref 21).
Proof.
  intros ts x r H. apply (psep_sound _ _ (pexpr_sound f 0)) in H. destruct H as (pre & E & Dp).
  exists pre. split; [exact E|]. apply DRef. exact Dp.
Qed.
Theorem pvallist_sound f : Sound (pvallist f) (Ref 29).
Proof.
  intros ts x r H. apply (psep_sound _ _ (pval_sound f)) in H. destruct H as (pre & E & Dp).
  exists pre. split; [exact E|]. apply DRef. exact Dp.
Qed.

(* ------------------------------------------------------------------------------------------------ *)
(* 5. Keyword arguments, argument lists                                                              *)
(* ------------------------------------------------------------------------------------------------ *)
(* kwarg : NAME ASSIGN (val | LSQBRAC vallist? RSQBRAC) *)
Theorem pkwarg_sound f : Sound (pkwarg f) (Ref 27).
Proof.
  intros ts x r H. unfold pkwarg in H.
  destruct ts as [|n [|a r0]]; try discriminate.
  destruct (isk TNAME n) eqn:Hn; [|discriminate]. destruct (isk TASSIGN a) eqn:Ha; [|discriminate]. cbn [andb] in H.
  apply isk_true in Hn. apply isk_true in Ha.
  destruct r0 as [|o r1]; [discriminate|].
  destruct (isk TLSQBRAC o) eqn:Ho.
  - apply isk_true in Ho. destruct r1 as [|c r2]; [discriminate|].
    destruct (isk TRSQBRAC c) eqn:Hc.
    + apply isk_true in Hc. inversion H; subst. exists [n; a; o; c]. split; [reflexivity|].
      apply DRef; cbn [pg_lr pg]. apply DSeqC; [exact Hn|]. apply DSeqC; [exact Ha|]. apply DAltR.
      apply DSeqC; [exact Ho|]. apply DSeqN; [apply DOptN|apply DTok; exact Hc].
    + destruct (pvallist f (c :: r2)) as [[l [|c' r3]]|] eqn:E; try discriminate.
      destruct (isk TRSQBRAC c') eqn:Hc'; [|discriminate]. apply isk_true in Hc'. inversion H; subst.
      apply pvallist_sound in E. destruct E as (pre & E & Dp).
      exists (n :: a :: o :: pre ++ [c']). split; [rewrite E; leq|].
      apply DRef; cbn [pg_lr pg]. apply DSeqC; [exact Hn|]. apply DSeqC; [exact Ha|]. apply DAltR.
      apply DSeqC; [exact Ho|]. apply DSeq; [apply DOptS; exact Dp|apply DTok; exact Hc'].
  - destruct (pval f (o :: r1)) as [[v r']|] eqn:E; [|discriminate]. inversion H; subst.
    apply pval_sound in E. destruct E as (pre & E & Dp).
    exists (n :: a :: pre). split; [rewrite E; reflexivity|].
    apply DRef; cbn [pg_lr pg]. apply DSeqC; [exact Hn|]. apply DSeqC; [exact Ha|]. apply DAltL. exact Dp.
Qed.

Lemma pposargs_S f ts : pposargs (S f) ts =
    if (tk_beq (peek ts) TRBRAC || kwstart ts)%bool then Some ([], ts)
    else match pval f ts with
         | Some (v, r) =>
             match r with
             | c :: r1 => if isk TCOMMA c then
                            match pposargs f r1 with Some (vs, r2) => Some (v :: vs, r2) | None => None end
                          else Some ([v], r)
             | [] => Some ([v], r)
             end
         | None => None
         end.
Proof. reflexivity. Qed.

Local Notation VALL := (SepL (Ref 28) 40).
Local Notation KWL := (SepL (Ref 27) 40).

(* the positional part consumes nothing, or  val (COMMA val)* COMMA? *)
Lemma pposargs_inv f : forall ts vs r, pposargs f ts = Some (vs, r) ->
  exists a b, ts = a ++ b ++ r /\ ((a = [] /\ b = []) \/ (D VALL a /\ D (Alt Eps (Tok 40)) b)).
Proof.
  induction f as [|f IH]; intros ts vs r H; [discriminate|]. rewrite pposargs_S in H.
  destruct (tk_beq (peek ts) TRBRAC || kwstart ts)%bool.
  { inversion H; subst. exists [], []. split; [reflexivity|left; auto]. }
  destruct (pval f ts) as [[v r0]|] eqn:E; [|discriminate].
  apply pval_sound in E. destruct E as (pre0 & -> & D0).
  destruct r0 as [|c r1].
  { inversion H; subst. exists pre0, []. split; [leq|right]. split; [apply D_sep_one; auto|apply DOptN]. }
  destruct (isk TCOMMA c) eqn:Hc.
  - destruct (pposargs f r1) as [[vs' r2]|] eqn:E2; [|discriminate]. inversion H; subst. apply isk_true in Hc.
    apply IH in E2. destruct E2 as (a1 & b1 & -> & [[-> ->]|[Da Db]]).
    + exists pre0, [c]. split; [leq|right]. split; [apply D_sep_one; auto|apply DOptS; apply DTok; exact Hc].
    + exists (pre0 ++ c :: a1), b1. split; [leq|right]. split; [apply D_sep_cons; auto|exact Db].
  - inversion H; subst. exists pre0, []. split; [leq|right]. split; [apply D_sep_one; auto|apply DOptN].
Qed.

Lemma pargs_head f r0 vs r1 :
  (if match r0 with c :: _ => isk TCOMMA c | [] => false end
   then Some ([], match r0 with c :: r' => if isk TCOMMA c then r' else r0 | [] => r0 end)
   else pposargs f r0) = Some (vs, r1) ->
  exists a b, r0 = a ++ b ++ r1 /\ D (Alt Eps VALL) a /\ D (Alt Eps (Tok 40)) b.
Proof.
  assert (P : pposargs f r0 = Some (vs, r1) ->
              exists a b, r0 = a ++ b ++ r1 /\ D (Alt Eps VALL) a /\ D (Alt Eps (Tok 40)) b).
  { intros H. apply pposargs_inv in H. destruct H as (a & b & E & [[-> ->]|[Da Db]]).
    - exists [], []. split; [exact E|]. split; apply DOptN.
    - exists a, b. split; [exact E|]. split; [apply DOptS; exact Da|exact Db]. }
  destruct r0 as [|c r']; [exact P|]. destruct (isk TCOMMA c) eqn:Hc; [|exact P].
  intros H. inversion H; subst. apply isk_true in Hc. exists [], [c]. split; [reflexivity|].
  split; [apply DOptN|apply DOptS; apply DTok; exact Hc].
Qed.

Lemma pargs_tail f vs r1 x r :
  (if kwstart r1
   then match psep (pkwarg f) f r1 with
        | Some (kws, c :: r2) => if isk TRBRAC c then Some (mkargs vs kws, r2) else None
        | _ => None
        end
   else match r1 with
        | c :: r2 => if isk TRBRAC c then Some (mkargs vs [], r2) else None
        | [] => None
        end) = Some (x, r) ->
  exists k c, r1 = k ++ c :: r /\ D (Alt Eps KWL) k /\ tkk c = TRBRAC.
Proof.
  destruct (kwstart r1).
  - destruct (psep (pkwarg f) f r1) as [[kws [|c r2]]|] eqn:E; try discriminate.
    destruct (isk TRBRAC c) eqn:Hc; [|discriminate]. intros H; inversion H; subst. apply isk_true in Hc.
    apply (psep_sound _ _ (pkwarg_sound f)) in E. destruct E as (pre & E & Dp).
    exists pre, c. split; [exact E|]. split; [apply DOptS; exact Dp|exact Hc].
  - destruct r1 as [|c r2]; [discriminate|].
    destruct (isk TRBRAC c) eqn:Hc; [|discriminate]. intros H; inversion H; subst. apply isk_true in Hc.
    exists [], c. split; [reflexivity|]. split; [apply DOptN|exact Hc].
Qed.

(* arguments : LBRAC [val {COMMA val}] [COMMA] [kwarg {COMMA kwarg}] RBRAC *)
Theorem parguments_sound f : Sound (parguments f) (Ref 26).
Proof.
  intros ts x r H. unfold parguments in H. destruct ts as [|o r0]; [discriminate|].
  destruct (isk TLBRAC o) eqn:Ho; [|discriminate]. apply isk_true in Ho. cbv zeta in H.
  match type of H with (match ?X with _ => _ end) = _ => destruct X as [[vs r1]|] eqn:Eh end; [|discriminate].
  apply pargs_head in Eh. destruct Eh as (a & b & -> & Da & Db).
  apply pargs_tail in H. destruct H as (k & c & -> & Dk & Hc).
  exists (o :: a ++ b ++ k ++ [c]). split; [leq|].
  apply DRef; cbn [pg_lr pg]. apply DSeqC; [exact Ho|]. apply DSeq; [exact Da|]. apply DSeq; [exact Db|].
  apply DSeq; [exact Dk|]. apply DTok; exact Hc.
Qed.

(* ------------------------------------------------------------------------------------------------ *)
(* 6. Optional brackets, statements                                                                  *)
(* ------------------------------------------------------------------------------------------------ *)
Local Notation OptOpen := (Alt Eps (Alt (Tok 43) (Tok 45))).
Local Notation OptClose := (Alt Eps (Alt (Tok 44) (Tok 46))).

Lemma drop_closer_sound r1 : exists b, r1 = b ++ drop_closer r1 /\ D OptClose b.
Proof.
  unfold drop_closer. destruct r1 as [|c r].
  - exists []. split; [reflexivity|apply DOptN].
  - destruct (is_closer (tkk c)) eqn:K.
    + exists [c]. split; [reflexivity|]. apply DOptS. destruct (tkk c) eqn:K2; try discriminate; dalt.
    + exists []. split; [reflexivity|apply DOptN].
Qed.

Theorem pbracketed_sound {A} (px : list token -> option (A * list token)) follow e : Sound px e ->
  forall ts x r, pbracketed px follow ts = Some (x, r) ->
  exists a u b, ts = a ++ u ++ b ++ r /\ D OptOpen a /\ D e u /\ D OptClose b.
Proof.
  intros Hpx.
  assert (Aux : forall ts0 x r,
            match px ts0 with Some (x, r1) => Some (x, drop_closer r1) | None => None end = Some (x, r) ->
            exists u b, ts0 = u ++ b ++ r /\ D e u /\ D OptClose b).
  { intros ts0 x r H. destruct (px ts0) as [[x1 r1]|] eqn:E; [|discriminate]. inversion H; subst.
    apply Hpx in E. destruct E as (u & -> & Du). destruct (drop_closer_sound r1) as (b & Eb & Db).
    exists u, b. split; [rewrite <- Eb; reflexivity|]. auto. }
  intros ts x r H. unfold pbracketed in H. destruct ts as [|o r0]; [discriminate|]. cbv zeta in H.
  destruct (tkk o) eqn:K;
  match type of K with
  | _ = TLSQBRAC =>
      apply Aux in H; destruct H as (u & b & E & Du & Db); exists [o], u, b;
      (split; [rewrite E; reflexivity|]); split; [apply DOptS; dalt|auto]
  | _ = TLBRAC =>
      destruct (px r0) as [[x1 r1]|] eqn:E1;
      [ destruct (follow (peek (drop_closer r1)));
        [ assert (H' : match px r0 with Some (x, r1) => Some (x, drop_closer r1) | None => None end = Some (x, r))
            by (rewrite E1; exact H);
          apply Aux in H'; destruct H' as (u & b & E & Du & Db); exists [o], u, b;
          (split; [rewrite E; reflexivity|]); split; [apply DOptS; dalt|auto]
        | apply Aux in H; destruct H as (u & b & E & Du & Db); exists [], u, b;
          (split; [exact E|]); split; [apply DOptN|auto] ]
      | apply Aux in H; destruct H as (u & b & E & Du & Db); exists [], u, b;
        (split; [exact E|]); split; [apply DOptN|auto] ]
  | _ =>
      apply Aux in H; destruct H as (u & b & E & Du & Db); exists [], u, b;
      (split; [exact E|]); split; [apply DOptN|auto]
  end.
Qed.

(* statement : (operation | measure) arguments? APPLY (LBRAC|LSQBRAC)? arrayrow (RBRAC|RSQBRAC)? NEWLINE*
   The parser leaves the trailing NEWLINEs to its caller, so the lemma lets the caller attach any number of them. *)
Theorem pstatement_sound f ts s r : pstatement f ts = Some (s, r) ->
  exists pre, ts = pre ++ r /\ forall nls, D (Star (Tok 16)) nls -> D (Ref 22) (pre ++ nls).
Proof.
  intros H. unfold pstatement in H. destruct ts as [|n r0]; [discriminate|].
  destruct (isk TNAME n || isk TMEASURE n)%bool eqn:Hn; [|discriminate]. cbv zeta in H.
  assert (Hop : D (Alt (Ref 23) (Ref 24)) [n]).
  { apply orb_prop in Hn. destruct Hn as [Hn|Hn]; apply isk_true in Hn; dalt. }
  match type of H with (match ?X with _ => _ end) = _ => set (aa := X) in H end.
  assert (Haa : forall a rr, aa = Some (a, rr) -> exists ar, r0 = ar ++ rr /\ D (Alt Eps (Ref 26)) ar).
  { unfold aa. intros a rr Ha. destruct (tk_beq (peek r0) TLBRAC).
    - destruct (parguments f r0) as [[a' r1]|] eqn:Ea; [|discriminate]. inversion Ha; subst.
      apply parguments_sound in Ea. destruct Ea as (ar & E & Da). exists ar. split; [exact E|apply DOptS; exact Da].
    - inversion Ha; subst. exists []. split; [reflexivity|apply DOptN]. }
  clearbody aa. destruct aa as [[a [|b r1]]|]; try discriminate.
  destruct (Haa _ _ eq_refl) as (ar & -> & Da). clear Haa.
  destruct (isk TAPPLY b) eqn:Hb; [|discriminate]. apply isk_true in Hb.
  destruct (pbracketed (parrayrow f) stmt_follow r1) as [[ms r2]|] eqn:Eb; [|discriminate]. inversion H; subst.
  apply (pbracketed_sound _ _ _ (parrayrow_sound f)) in Eb. destruct Eb as (o & u & c & -> & Do & Du & Dc).
  exists (n :: ar ++ b :: o ++ u ++ c). split; [leq|]. intros nls Dn.
  apply D_eq with ([n] ++ ar ++ [b] ++ o ++ u ++ c ++ nls); [|leq].
  apply DRef; cbn [pg_lr pg]. apply DSeq; [exact Hop|]. apply DSeq; [exact Da|].
  apply DSeq; [apply DTok; exact Hb|]. apply DSeq; [exact Do|]. apply DSeq; [exact Du|]. apply DSeq; [exact Dc|exact Dn].
Qed.

(* ------------------------------------------------------------------------------------------------ *)
(* 7. NEWLINE runs, for-loops                                                                        *)
(* ------------------------------------------------------------------------------------------------ *)
Definition NL (l:list token) : Prop := Forall (fun t => tkk t = TNEWLINE) l.

Lemma NL_star l : NL l -> D (Star (Tok 16)) l.
Proof. induction 1; [apply DStar0|apply DStarC; auto]. Qed.
Lemma NL_plus n l : tkk n = TNEWLINE -> NL l -> D (Seq (Tok 16) (Star (Tok 16))) (n :: l).
Proof. intros Hn Hl. apply DSeqC; [exact Hn|apply NL_star; exact Hl]. Qed.
Lemma NL_last n l : NL (n :: l) -> exists l' m, n :: l = l' ++ [m] /\ NL l' /\ tkk m = TNEWLINE.
Proof.
  intros H. destruct (@exists_last _ (n :: l)) as (l' & m & E); [discriminate|]. exists l', m.
  rewrite E in H. apply Forall_app in H. destruct H as [H1 H2]. inversion H2; subst. auto.
Qed.

Lemma skip_nl_sound ts : exists nls, ts = nls ++ skip_nl ts /\ NL nls.
Proof.
  induction ts as [|t r IH].
  - exists []. split; [reflexivity|constructor].
  - cbn [skip_nl]. destruct (isk TNEWLINE t) eqn:K.
    + destruct IH as (nls & E & N). exists (t :: nls). split; [cbn [app]; now rewrite <- E|].
      constructor; [now apply isk_true|exact N].
    + exists []. split; [reflexivity|constructor].
Qed.
Lemma skip_nl_hd ts t r : skip_nl ts = t :: r -> isk TNEWLINE t = false.
Proof.
  induction ts as [|a ts IH]; [discriminate|]. cbn [skip_nl]. destruct (isk TNEWLINE a) eqn:K; [exact IH|].
  intros E; inversion E; subst. exact K.
Qed.

Local Notation GRP := (Seq (Tok 16) (Seq (Tok 17) (Ref 22))).

Lemma pforbody_S f first ts : pforbody (S f) first ts =
    let ts' := if first then (match ts with n :: r => if isk TNEWLINE n then r else ts | [] => ts end) else skip_nl ts in
    let has_nl := match ts with n :: _ => isk TNEWLINE n | [] => false end in
    match ts' with
    | tb :: r =>
        if (has_nl && isk TTAB tb)%bool then
          match pstatement f r with
          | Some (s, r1) =>
              match pforbody f false r1 with
              | Some (ss, r2) => Some (s :: ss, r2)
              | None => None
              end
          | None => None
          end
        else if first then None else Some ([], ts)
    | [] => if first then None else Some ([], ts)
    end.
Proof. reflexivity. Qed.

(* later groups: the NEWLINEs skipped before the group's own NEWLINE end the previous statement *)
Lemma pforbody_false f : forall ts ss r, pforbody f false ts = Some (ss, r) ->
  exists nls gs, ts = nls ++ gs ++ r /\ NL nls /\ D (Star GRP) gs.
Proof.
  induction f as [|f IH]; intros ts ss r H; [discriminate|]. rewrite pforbody_S in H. cbv beta iota zeta in H.
  assert (Z : exists nls gs, ts = nls ++ gs ++ ts /\ NL nls /\ D (Star GRP) gs).
  { exists [], []. split; [reflexivity|]. split; [constructor|apply DStar0]. }
  destruct (skip_nl_sound ts) as (nl & Ets & Hnl).
  destruct (skip_nl ts) as [|tb r0]; [inversion H; subst; exact Z|].
  destruct ts as [|n ts0].
  { cbn [andb] in H. inversion H; subst; exact Z. }
  destruct (isk TNEWLINE n) eqn:Hn; cbn [andb] in H; [|inversion H; subst; exact Z].
  destruct (isk TTAB tb) eqn:Htb; [|inversion H; subst; exact Z].
  apply isk_true in Hn. apply isk_true in Htb.
  destruct (pstatement f r0) as [[s r1]|] eqn:Est; [|discriminate].
  destruct (pforbody f false r1) as [[ss' r2]|] eqn:Eb; [|discriminate]. inversion H; subst. clear Z H.
  apply IH in Eb. destruct Eb as (nls1 & gs1 & E1 & N1 & G1).
  apply pstatement_sound in Est. destruct Est as (sp & Es & Dst).
  destruct nl as [|n' nl'].
  { cbn [app] in Ets. inversion Ets; subst. congruence. }
  destruct (NL_last _ _ Hnl) as (init & m & El & Ni & Hm).
  exists init, ((m :: tb :: sp ++ nls1) ++ gs1). split.
  - rewrite Ets, El, Es, E1. leq.
  - split; [exact Ni|]. apply DStarS; [|exact G1].
    apply DSeqC; [exact Hm|]. apply DSeqC; [exact Htb|]. apply Dst. apply NL_star. exact N1.
Qed.

(* (NEWLINE TAB statement)+ *)
Lemma pforbody_true f ts ss r : pforbody f true ts = Some (ss, r) ->
  exists pre, ts = pre ++ r /\ D (Seq GRP (Star GRP)) pre.
Proof.
  destruct f as [|f]; [discriminate|]. rewrite pforbody_S. cbv beta iota zeta. intros H.
  destruct ts as [|n ts0]; [discriminate|].
  destruct (isk TNEWLINE n) eqn:Hn; cbn [andb] in H.
  2:{ discriminate. }
  destruct ts0 as [|tb r0]; [discriminate|].
  destruct (isk TTAB tb) eqn:Htb; [|discriminate]. apply isk_true in Hn. apply isk_true in Htb.
  destruct (pstatement f r0) as [[s r1]|] eqn:Est; [|discriminate].
  destruct (pforbody f false r1) as [[ss' r2]|] eqn:Eb; [|discriminate]. inversion H; subst.
  apply pforbody_false in Eb. destruct Eb as (nls1 & gs1 & E1 & N1 & G1).
  apply pstatement_sound in Est. destruct Est as (sp & Es & Dst).
  exists ((n :: tb :: sp ++ nls1) ++ gs1). split; [rewrite Es, E1; leq|].
  apply DSeq; [|exact G1]. apply DSeqC; [exact Hn|]. apply DSeqC; [exact Htb|]. apply Dst. apply NL_star. exact N1.
Qed.

Lemma D_vartype t vt : vtype_of_tk (tkk t) = Some vt -> D (Ref 17) [t].
Proof. intros H. destruct (tkk t) eqn:K; try discriminate; dalt. Qed.

(* the loop header, as a function of its own (a copy of the local definition inside Parser.pfor) *)
Definition pforhdr (f:nat) (r:list token) : option (forhdr * list token) :=
  match r with
  | a :: c1 :: b :: r1 =>
      if (isk TINT a && isk TCOLON c1)%bool then
        if isk TINT b then
          match r1 with
          | c2 :: c :: r2 =>
              if isk TCOLON c2 then
                if isk TINT c then Some (HRange (ttext a) (ttext b) (Some (ttext c)), r2) else None
              else Some (HRange (ttext a) (ttext b) None, r1)
          | _ => Some (HRange (ttext a) (ttext b) None, r1)
          end
        else None
      else match pbracketed (pvallist f) nl_follow r with Some (l, r1') => Some (HList l, r1') | None => None end
  | _ => match pbracketed (pvallist f) nl_follow r with Some (l, r1') => Some (HList l, r1') | None => None end
  end.

Lemma pfor_eq f fo ty x i r : pfor f (fo :: ty :: x :: i :: r) =
  if (isk TFOR fo && isk TNAME x && isk TIN i)%bool then
    match vtype_of_tk (tkk ty) with
    | Some vt =>
        match pforhdr f r with
        | Some (h, r1) =>
            match pforbody f true r1 with
            | Some (body, r2) => Some (IFor vt (ttext x) h body, r2)
            | None => None
            end
        | None => None
        end
    | None => None
    end
  else None.
Proof. reflexivity. Qed.

Local Notation HDR := (Alt (Ref 30) (Seq OptOpen (Seq (Ref 29) OptClose))).

Lemma pforhdr_sound f r h r1 : pforhdr f r = Some (h, r1) -> exists pre, r = pre ++ r1 /\ D HDR pre.
Proof.
  assert (Fb : match pbracketed (pvallist f) nl_follow r with Some (l, r1') => Some (HList l, r1') | None => None end
               = Some (h, r1) -> exists pre, r = pre ++ r1 /\ D HDR pre).
  { intros H. destruct (pbracketed (pvallist f) nl_follow r) as [[l r1']|] eqn:E; [|discriminate]. inversion H; subst.
    apply (pbracketed_sound _ _ _ (pvallist_sound f)) in E. destruct E as (a & u & b & E & Da & Du & Db).
    exists (a ++ u ++ b). split; [rewrite E; leq|]. apply DAltR. apply DSeq; [exact Da|]. apply DSeq; auto. }
  unfold pforhdr. intros H. destruct r as [|a [|c1 [|b r1']]]; try (apply Fb in H; exact H).
  destruct (isk TINT a && isk TCOLON c1)%bool eqn:Hac; [|apply Fb in H; exact H]. clear Fb.
  apply andb_prop in Hac. destruct Hac as [Ha Hc1]. apply isk_true in Ha. apply isk_true in Hc1.
  destruct (isk TINT b) eqn:Hb; [|discriminate]. apply isk_true in Hb.
  assert (Short : exists pre, a :: c1 :: b :: r1' = pre ++ r1' /\ D HDR pre).
  { exists [a; c1; b]. split; [reflexivity|]. apply DAltL. apply DRef; cbn [pg_lr pg].
    apply DSeqC; [exact Ha|]. apply DSeqC; [exact Hc1|]. apply DSeqE; [apply DTok; exact Hb|apply DOptN]. }
  destruct r1' as [|c2 [|c r2]]; try (inversion H; subst; exact Short).
  destruct (isk TCOLON c2) eqn:Hc2; [|inversion H; subst; exact Short].
  destruct (isk TINT c) eqn:Hc; [|discriminate]. inversion H; subst. apply isk_true in Hc2. apply isk_true in Hc.
  exists [a; c1; b; c2; c]. split; [reflexivity|]. apply DAltL. apply DRef; cbn [pg_lr pg].
  apply DSeqC; [exact Ha|]. apply DSeqC; [exact Hc1|]. apply DSeqC; [exact Hb|]. apply DOptS.
  apply DSeqC; [exact Hc2|]. apply DTok; exact Hc.
Qed.

(* forloop : FOR vartype NAME IN (rangeval | (LBRAC|LSQBRAC)? vallist (RBRAC|RSQBRAC)?) (NEWLINE TAB statement)+ *)
Theorem pfor_sound f : Sound (pfor f) (Ref 25).
Proof.
  intros ts it r H. destruct ts as [|fo [|ty [|x [|i r0]]]]; try (unfold pfor in H; discriminate).
  rewrite pfor_eq in H.
  destruct (isk TFOR fo && isk TNAME x && isk TIN i)%bool eqn:Hh; [|discriminate].
  apply andb_prop in Hh. destruct Hh as [Hh Hi]. apply andb_prop in Hh. destruct Hh as [Hfo Hx].
  apply isk_true in Hfo. apply isk_true in Hx. apply isk_true in Hi.
  destruct (vtype_of_tk (tkk ty)) as [vt|] eqn:Hty; [|discriminate]. apply D_vartype in Hty.
  destruct (pforhdr f r0) as [[h r1]|] eqn:Eh; [|discriminate].
  destruct (pforbody f true r1) as [[body r2]|] eqn:Eb; [|discriminate]. inversion H; subst.
  apply pforhdr_sound in Eh. destruct Eh as (hp & -> & Dh).
  apply pforbody_true in Eb. destruct Eb as (bp & -> & Db).
  exists (fo :: ty :: x :: i :: hp ++ bp). split; [leq|].
  apply D_eq with ([fo] ++ [ty] ++ [x] ++ [i] ++ hp ++ bp); [|leq].
  apply DRef; cbn [pg_lr pg]. apply DSeq; [apply DTok; exact Hfo|]. apply DSeq; [exact Hty|].
  apply DSeq; [apply DTok; exact Hx|]. apply DSeq; [apply DTok; exact Hi|]. apply DSeq; [exact Dh|exact Db].
Qed.

(* ------------------------------------------------------------------------------------------------ *)
(* 8. Declarations                                                                                   *)
(* ------------------------------------------------------------------------------------------------ *)
(* name : invalid | NAME     invalid : REGREF | reserved *)
Lemma pdname_sound t dn : pdname t = Some dn -> D (Ref 14) [t].
Proof. unfold pdname. destruct (tkk t) eqn:K; try discriminate; intros _; dalt. Qed.

Lemma parrayval_S f ts : parrayval (S f) ts =
    match ts with
    | tb :: r =>
        if isk TTAB tb then
          match parrayrow f r with
          | Some (row, n :: r1) =>
              if isk TNEWLINE n then
                match parrayval f r1 with Some (rows, r2) => Some (row :: rows, r2) | None => None end
              else None
          | _ => None
          end
        else Some ([], ts)
    | [] => Some ([], ts)
    end.
Proof. reflexivity. Qed.

Lemma parrayval_star f : Sound (parrayval f) (Star (Seq (Tok 17) (Seq (Ref 21) (Tok 16)))).
Proof.
  induction f as [|f IH]; intros ts rows r H; [discriminate|]. rewrite parrayval_S in H.
  destruct ts as [|tb r0].
  { inversion H; subst. exists []. split; [reflexivity|apply DStar0]. }
  destruct (isk TTAB tb) eqn:Htb.
  2:{ inversion H; subst. exists []. split; [reflexivity|apply DStar0]. }
  apply isk_true in Htb.
  destruct (parrayrow f r0) as [[row [|n r1]]|] eqn:Er; try discriminate.
  destruct (isk TNEWLINE n) eqn:Hn; [|discriminate]. apply isk_true in Hn.
  destruct (parrayval f r1) as [[rows' r2]|] eqn:Ev; [|discriminate]. inversion H; subst.
  apply IH in Ev. destruct Ev as (pre1 & -> & D1).
  apply parrayrow_sound in Er. destruct Er as (rp & -> & Dr).
  exists ((tb :: rp ++ [n]) ++ pre1). split; [leq|]. apply DStarS; [|exact D1].
  apply DSeqC; [exact Htb|]. apply DSeq; [exact Dr|apply DTok; exact Hn].
Qed.
Theorem parrayval_sound f : Sound (parrayval f) (Ref 20).
Proof.
  intros ts x r H. apply parrayval_star in H. destruct H as (pre & E & Dp). exists pre. split; [exact E|].
  apply DRef. exact Dp.
Qed.

Lemma pshape_S f ts : pshape (S f) ts =
    match ts with
    | i :: r =>
        if isk TINT i then
          match r with
          | c :: r1 => if isk TCOMMA c then
                         match pshape f r1 with Some (l, r2) => Some (ttext i :: l, r2) | None => None end
                       else Some ([ttext i], r)
          | [] => Some ([ttext i], r)
          end
        else None
    | [] => None
    end.
Proof. reflexivity. Qed.

Lemma pshape_sep f : Sound (pshape f) (SepL (Tok 9) 40).
Proof.
  induction f as [|f IH]; intros ts l r H; [discriminate|]. rewrite pshape_S in H.
  destruct ts as [|i r0]; [discriminate|]. destruct (isk TINT i) eqn:Hi; [|discriminate]. apply isk_true in Hi.
  assert (One : D (SepL (Tok 9) 40) [i]) by (apply D_sep_one; apply DTok; exact Hi).
  destruct r0 as [|c r1].
  { inversion H; subst. exists [i]. split; [reflexivity|exact One]. }
  destruct (isk TCOMMA c) eqn:Hc.
  - destruct (pshape f r1) as [[l' r2]|] eqn:E; [|discriminate]. inversion H; subst. apply isk_true in Hc.
    apply IH in E. destruct E as (pre & -> & Dp). exists (i :: c :: pre). split; [reflexivity|].
    exact (D_sep_cons (Tok 9) 40 [i] c pre (DTok 9 i Hi) Hc Dp).
  - inversion H; subst. exists [i]. split; [reflexivity|exact One].
Qed.
Theorem pshape_sound f : Sound (pshape f) (Ref 19).
Proof.
  intros ts x r H. apply pshape_sep in H. destruct H as (pre & E & Dp). exists pre. split; [exact E|].
  apply DRef. exact Dp.
Qed.

(* expressionvar : vartype name ASSIGN (expression | nonnumeric)
   arrayvar : vartype TYPE_ARRAY name (LSQBRAC shape RSQBRAC)? ASSIGN NEWLINE (arrayval | parameter) *)
Theorem pdecl_sound f ts it r : pdecl f ts = Some (it, r) ->
  exists pre, ts = pre ++ r /\ (D (Ref 12) pre \/ D (Ref 13) pre).
Proof.
  intros H. unfold pdecl in H. destruct ts as [|ty r0]; [discriminate|].
  destruct (vtype_of_tk (tkk ty)) as [vt|] eqn:Hty; [|discriminate]. apply D_vartype in Hty.
  destruct (tk_beq (peek r0) TTYPE_ARRAY) eqn:Hpk.
  - apply peek_is in Hpk; [|discriminate]. destruct Hpk as (ar & r0' & -> & Har).
    destruct r0' as [|n r1]; [discriminate|]. cbv beta iota zeta in H.
    destruct (pdname n) as [dn|] eqn:Hdn; [|discriminate]. apply pdname_sound in Hdn.
    match type of H with (match ?X with _ => _ end) = _ => set (sh := X) in H end.
    assert (Hsh : forall shp rr, sh = Some (shp, rr) ->
              exists sp, r1 = sp ++ rr /\ D (Alt Eps (Seq (Tok 45) (Seq (Ref 19) (Tok 46)))) sp).
    { unfold sh. intros shp rr Hs. destruct (tk_beq (peek r1) TLSQBRAC) eqn:Hp1.
      - apply peek_is in Hp1; [|discriminate]. destruct Hp1 as (o & r1' & -> & Ho). cbn [tl] in Hs.
        destruct (pshape f r1') as [[l [|c r2]]|] eqn:Es; try discriminate.
        destruct (isk TRSQBRAC c) eqn:Hc; [|discriminate]. inversion Hs; subst. apply isk_true in Hc.
        apply pshape_sound in Es. destruct Es as (pre & -> & Dp).
        exists (o :: pre ++ [c]). split; [leq|]. apply DOptS. apply DSeqC; [exact Ho|].
        apply DSeq; [exact Dp|apply DTok; exact Hc].
      - inversion Hs; subst. exists []. split; [reflexivity|apply DOptN]. }
    clearbody sh. destruct sh as [[shp [|a [|nl r3]]]|]; try discriminate.
    destruct (Hsh _ _ eq_refl) as (sp & -> & Dsp). clear Hsh.
    destruct (isk TASSIGN a) eqn:Ha; [|discriminate]. destruct (isk TNEWLINE nl) eqn:Hnl; [|discriminate].
    cbn [andb] in H. apply isk_true in Ha. apply isk_true in Hnl.
    destruct (tk_beq (peek r3) TLBRACE) eqn:Hp3.
    + apply peek_is in Hp3; [|discriminate]. destruct Hp3 as (lb & r3' & -> & Hlb).
      destruct r3' as [|p [|c r4]]; try discriminate. cbv beta iota zeta in H.
      destruct (isk TNAME p) eqn:Hp; [|discriminate]. destruct (isk TRBRACE c) eqn:Hc; [|discriminate].
      cbn [andb] in H. inversion H; subst. apply isk_true in Hp. apply isk_true in Hc.
      exists (ty :: ar :: n :: sp ++ a :: nl :: [lb; p; c]). split; [leq|]. right.
      apply D_eq with ([ty] ++ [ar] ++ [n] ++ sp ++ [a] ++ [nl] ++ [lb; p; c]); [|leq].
      apply DRef; cbn [pg_lr pg]. apply DSeq; [exact Hty|]. apply DSeq; [apply DTok; exact Har|].
      apply DSeq; [exact Hdn|]. apply DSeq; [exact Dsp|]. apply DSeq; [apply DTok; exact Ha|].
      apply DSeq; [apply DTok; exact Hnl|]. apply DAltR. apply DRef; cbn [pg_lr pg].
      apply DSeqC; [exact Hlb|]. apply DSeqC; [exact Hp|]. apply DTok; exact Hc.
    + destruct (parrayval f r3) as [[rows r4]|] eqn:Ev; [|discriminate]. inversion H; subst.
      apply parrayval_sound in Ev. destruct Ev as (vp & -> & Dv).
      exists (ty :: ar :: n :: sp ++ a :: nl :: vp). split; [leq|]. right.
      apply D_eq with ([ty] ++ [ar] ++ [n] ++ sp ++ [a] ++ [nl] ++ vp); [|leq].
      apply DRef; cbn [pg_lr pg]. apply DSeq; [exact Hty|]. apply DSeq; [apply DTok; exact Har|].
      apply DSeq; [exact Hdn|]. apply DSeq; [exact Dsp|]. apply DSeq; [apply DTok; exact Ha|].
      apply DSeq; [apply DTok; exact Hnl|]. apply DAltL. exact Dv.
  - destruct r0 as [|n [|a r1]]; try discriminate.
    destruct (pdname n) as [dn|] eqn:Hdn; [|discriminate]. apply pdname_sound in Hdn.
    destruct (isk TASSIGN a) eqn:Ha; [|discriminate]. apply isk_true in Ha.
    destruct (pval f r1) as [[v r2]|] eqn:Ev; [|discriminate]. inversion H; subst.
    apply pval_sound12 in Ev. destruct Ev as (pre & -> & Dv).
    exists (ty :: n :: a :: pre). split; [reflexivity|]. left. apply DRef; cbn [pg_lr pg].
    apply D_eq with ([ty] ++ [n] ++ a :: pre); [|reflexivity].
    apply DSeq; [exact Hty|]. apply DSeq; [exact Hdn|]. apply DSeqC; [exact Ha|exact Dv].
Qed.

(* ------------------------------------------------------------------------------------------------ *)
(* 9. Program, includes, metadata lines                                                              *)
(* ------------------------------------------------------------------------------------------------ *)
Local Notation ITEM := (Alt (Tok 16) (Alt (Ref 25) (Alt (Ref 12) (Alt (Ref 13) (Ref 22))))).

Lemma pprogram_S f t r : pprogram (S f) (t :: r) =
    match tkk t with
    | TNEWLINE => pprogram f r
    | TFOR => match pfor f (t :: r) with
              | Some (it, r1) => match pprogram f r1 with Some l => Some (it :: l) | None => None end
              | None => None end
    | TNAME | TMEASURE =>
        match pstatement f (t :: r) with
        | Some (s, r1) => match pprogram f r1 with Some l => Some (IStmt s :: l) | None => None end
        | None => None
        end
    | _ => match pdecl f (t :: r) with
           | Some (it, r1) => match pprogram f r1 with Some l => Some (it :: l) | None => None end
           | None => None end
    end.
Proof. reflexivity. Qed.

(* trailing NEWLINEs of a top-level statement are attributed to the program-level NEWLINE alternative *)
Lemma pprogram_star f : forall ts l, pprogram f ts = Some l -> D (Star ITEM) ts.
Proof.
  induction f as [|f IH]; intros ts l H; [discriminate|]. destruct ts as [|t r]; [apply DStar0|].
  rewrite pprogram_S in H.
  destruct (tkk t) eqn:K;
  match type of K with
  | _ = TNEWLINE => apply IH in H; change (t :: r) with ([t] ++ r); apply DStarS; [dalt|exact H]
  | _ = TFOR =>
      destruct (pfor f (t :: r)) as [[it r1]|] eqn:E; [|discriminate];
      destruct (pprogram f r1) as [l'|] eqn:E2; [|discriminate]; apply IH in E2;
      apply pfor_sound in E; destruct E as (pre & E & Dp); rewrite E;
      apply DStarS; [apply DAltR; apply DAltL; exact Dp|exact E2]
  | _ = TNAME =>
      destruct (pstatement f (t :: r)) as [[s r1]|] eqn:E; [|discriminate];
      destruct (pprogram f r1) as [l'|] eqn:E2; [|discriminate]; apply IH in E2;
      apply pstatement_sound in E; destruct E as (pre & E & Dp); rewrite E;
      apply DStarS; [do 4 apply DAltR; specialize (Dp [] (DStar0 _)); rewrite app_nil_r in Dp; exact Dp|exact E2]
  | _ = TMEASURE =>
      destruct (pstatement f (t :: r)) as [[s r1]|] eqn:E; [|discriminate];
      destruct (pprogram f r1) as [l'|] eqn:E2; [|discriminate]; apply IH in E2;
      apply pstatement_sound in E; destruct E as (pre & E & Dp); rewrite E;
      apply DStarS; [do 4 apply DAltR; specialize (Dp [] (DStar0 _)); rewrite app_nil_r in Dp; exact Dp|exact E2]
  | _ =>
      destruct (pdecl f (t :: r)) as [[it r1]|] eqn:E; [|discriminate];
      destruct (pprogram f r1) as [l'|] eqn:E2; [|discriminate]; apply IH in E2;
      apply pdecl_sound in E; destruct E as (pre & E & [Dp|Dp]); rewrite E;
      (apply DStarS; [|exact E2]);
      [apply DAltR; apply DAltR; apply DAltL; exact Dp|do 3 apply DAltR; apply DAltL; exact Dp]
  end.
Qed.

(* program : (NEWLINE | forloop | expressionvar | arrayvar | statement)*  -- the parser reads to the end of input *)
Theorem pprogram_sound f ts l : pprogram f ts = Some l -> D (Ref 11) ts.
Proof. intros H. apply DRef. apply (pprogram_star f ts l H). Qed.

Lemma pincludes_S f ts : pincludes (S f) ts =
    match ts with
    | t :: r =>
        match tkk t with
        | TNEWLINE => pincludes f r
        | TINCLUDE =>
            match r with
            | s :: r1 => if isk TSTR s then let (l, r2) := pincludes f r1 in (ttext s :: l, r2) else ([], ts)
            | [] => ([], ts)
            end
        | _ => ([], ts)
        end
    | [] => ([], ts)
    end.
Proof. reflexivity. Qed.

Local Notation INCS := (Star (Alt (Tok 16) (Ref 10))).

(* (NEWLINE | include)* *)
Lemma pincludes_sound f : forall ts l r, pincludes f ts = (l, r) -> exists pre, ts = pre ++ r /\ D INCS pre.
Proof.
  induction f as [|f IH]; intros ts l r H.
  - cbn [pincludes] in H. inversion H; subst. exists []. split; [reflexivity|apply DStar0].
  - rewrite pincludes_S in H.
    assert (Z : exists pre, ts = pre ++ ts /\ D INCS pre) by (exists []; split; [reflexivity|apply DStar0]).
    destruct ts as [|t r0]; [inversion H; subst; exact Z|].
    destruct (tkk t) eqn:K;
    match type of K with
    | _ = TNEWLINE =>
        apply IH in H; destruct H as (pre & E & Dp); exists (t :: pre); split; [rewrite E; reflexivity|];
        change (t :: pre) with ([t] ++ pre); apply DStarS; [dalt|exact Dp]
    | _ = TINCLUDE =>
        destruct r0 as [|s r1]; [inversion H; subst; exact Z|];
        destruct (isk TSTR s) eqn:Hs; [|inversion H; subst; exact Z];
        destruct (pincludes f r1) as [l' r2] eqn:E; inversion H; subst;
        apply IH in E; destruct E as (pre & E & Dp); apply isk_true in Hs;
        exists (t :: s :: pre); split; [rewrite E; reflexivity|];
        change (t :: s :: pre) with ([t; s] ++ pre); apply DStarS;
        [apply DAltR; apply DRef; cbn [pg_lr pg]; apply DSeqC; [exact K|apply DTok; exact Hs]|exact Dp]
    | _ => inversion H; subst; exact Z
    end.
Qed.

(* an optional metadata line:  NEWLINE+ KEYWORD dev arguments? *)
Lemma pmetaline_inv f kw dev ts m r : pmetaline f kw dev ts = Some (m, r) ->
  ts = r \/
  exists n nls k d args, ts = (n :: nls) ++ k :: d :: args ++ r /\ tkk n = TNEWLINE /\ NL nls /\
                         tkk k = kw /\ dev (tkk d) = true /\ D (Alt Eps (Ref 26)) args.
Proof.
  unfold pmetaline. cbv zeta. intros H.
  destruct (skip_nl_sound ts) as (nl & Ets & Hnl).
  destruct ts as [|n ts0]; [left; inversion H; reflexivity|].
  destruct (skip_nl (n :: ts0)) as [|k [|d r1]] eqn:Es; try (left; inversion H; reflexivity).
  destruct (isk TNEWLINE n) eqn:Hn; cbn [andb] in H; [|left; inversion H; reflexivity].
  destruct (tk_beq (tkk k) kw) eqn:Hk; [|left; inversion H; reflexivity].
  destruct (dev (tkk d)) eqn:Hd; [|discriminate].
  apply internal_tk_dec_bl in Hk. right.
  destruct nl as [|n' nl'].
  { cbn [app] in Ets. inversion Ets; subst. apply skip_nl_hd in Es. congruence. }
  cbn [app] in Ets. injection Ets as En Et. subst n'. apply Forall_inv_tail in Hnl.
  assert (Ets' : n :: ts0 = (n :: nl') ++ k :: d :: r1) by (rewrite Et; reflexivity).
  apply isk_true in Hn.
  destruct (tk_beq (peek r1) TLBRAC).
  - destruct (parguments f r1) as [[a r2]|] eqn:Ea; [|discriminate]. inversion H; subst.
    apply parguments_sound in Ea. destruct Ea as (args & -> & Da).
    exists n, nl', k, d, args. split; [exact Ets'|]. repeat split; auto. apply DOptS; exact Da.
  - inversion H; subst. exists n, nl', k, d, []. split; [exact Ets'|]. repeat split; auto. apply DOptN.
Qed.

Local Notation NLP := (Seq (Tok 16) (Star (Tok 16))).

Lemma ptarget_sound f ts m r : pmetaline f TTARGET is_device ts = Some (m, r) ->
  exists pre, ts = pre ++ r /\ D (Alt Eps (Seq NLP (Ref 6))) pre.
Proof.
  intros H. apply pmetaline_inv in H. destruct H as [->|(n & nls & k & d & args & -> & Hn & Hnls & Hk & Hd & Da)].
  - exists []. split; [reflexivity|apply DOptN].
  - exists ((n :: nls) ++ k :: d :: args). split; [leq|]. apply DOptS. apply DSeq; [apply NL_plus; auto|].
    apply DRef; cbn [pg_lr pg]. apply DSeqC; [exact Hk|]. change (d :: args) with ([d] ++ args).
    apply DSeq; [|exact Da]. destruct (tkk d) eqn:K; try discriminate; dalt.
Qed.

Lemma ptype_sound f ts m r : pmetaline f TPROGTYPE is_name ts = Some (m, r) ->
  exists pre, ts = pre ++ r /\ D (Alt Eps (Seq NLP (Ref 8))) pre.
Proof.
  intros H. apply pmetaline_inv in H. destruct H as [->|(n & nls & k & d & args & -> & Hn & Hnls & Hk & Hd & Da)].
  - exists []. split; [reflexivity|apply DOptN].
  - exists ((n :: nls) ++ k :: d :: args). split; [leq|]. apply DOptS. apply DSeq; [apply NL_plus; auto|].
    apply DRef; cbn [pg_lr pg]. apply DSeqC; [exact Hk|]. change (d :: args) with ([d] ++ args).
    apply DSeq; [|exact Da]. destruct (tkk d) eqn:K; try discriminate; dalt.
Qed.

(* ------------------------------------------------------------------------------------------------ *)
(* 10. The script, and the main theorems                                                             *)
(* ------------------------------------------------------------------------------------------------ *)
(* the EOF token that the front end appends (type number 0) *)
Definition eoft : token := mktok 0 [] 0 0 0 0.

(* start : NEWLINE* metadatablock NEWLINE* program NEWLINE* EOF
   metadatablock : declarename NEWLINE+ version (NEWLINE+ target)? (NEWLINE+ declaretype)? (NEWLINE | include)* *)
Theorem pscript_D f ts sc : pscript f ts = Some sc -> D (Ref start_rule) (ts ++ [eoft]).
Proof.
  intros H. unfold pscript in H.
  destruct (skip_nl_sound ts) as (nl0 & E0 & N0).
  destruct (skip_nl ts) as [|pn [|n [|nl r]]]; try discriminate.
  destruct (isk TPROGNAME pn) eqn:Hpn; [|discriminate]. destruct (isk TNAME n) eqn:Hn; [|discriminate].
  destruct (isk TNEWLINE nl) eqn:Hnl; [|discriminate]. cbn [andb] in H.
  apply isk_true in Hpn. apply isk_true in Hn. apply isk_true in Hnl.
  destruct (skip_nl_sound r) as (nl1 & E1 & N1).
  destruct (skip_nl r) as [|v [|num r1]]; try discriminate.
  destruct (isk TVERSION v) eqn:Hv; [|discriminate]. destruct (isk TFLOAT num) eqn:Hnum; [|discriminate].
  cbn [andb] in H. apply isk_true in Hv. apply isk_true in Hnum.
  destruct (pmetaline f TTARGET is_device r1) as [[tg r2]|] eqn:Etg; [|discriminate].
  destruct (pmetaline f TPROGTYPE is_name r2) as [[ty r3]|] eqn:Ety; [|discriminate].
  destruct (pincludes f r3) as [incs r4] eqn:Einc.
  destruct (pprogram f r4) as [items|] eqn:Eprog; [|discriminate]. clear H.
  apply ptarget_sound in Etg. destruct Etg as (tp & Etg & Dtg).
  apply ptype_sound in Ety. destruct Ety as (yp & Ety & Dty).
  apply pincludes_sound in Einc. destruct Einc as (ip & Einc & Dinc).
  apply pprogram_sound in Eprog.
  apply D_eq with (nl0 ++ ([pn; n] ++ (nl :: nl1) ++ [v; num] ++ tp ++ yp ++ ip) ++ [] ++ r4 ++ [] ++ [eoft]).
  2:{ rewrite E0, E1, Etg, Ety, Einc. leq. }
  apply DRef. unfold start_rule. cbn [pg_lr pg].
  apply DSeq; [apply NL_star; exact N0|]. apply DSeq.
  - apply DRef; cbn [pg_lr pg]. apply DSeq.
    { apply DRef; cbn [pg_lr pg]. apply DSeqC; [exact Hpn|]. apply DRef; cbn [pg_lr pg]. apply DTok; exact Hn. }
    apply DSeq; [apply NL_plus; auto|]. apply DSeq.
    { apply DRef; cbn [pg_lr pg]. apply DSeqC; [exact Hv|]. apply DRef; cbn [pg_lr pg]. apply DTok; exact Hnum. }
    apply DSeq; [exact Dtg|]. apply DSeq; [exact Dty|exact Dinc].
  - apply DSeq; [apply DStar0|]. apply DSeq; [exact Eprog|]. apply DSeq; [apply DStar0|].
    apply DTok. reflexivity.
Qed.

(* PARSER SOUNDNESS w.r.t. the grammar as written in blackbird.g4 (left-recursive expression rule) *)
Theorem pscript_sound_lr f ts sc : pscript f ts = Some sc -> (forall t, In t ts -> known_kind t) ->
  M nat nat Nat.eqb pg_lr (map tkind ts ++ [0]) (Ref start_rule) 0 (length ts + 1).
Proof.
  intros H K. apply pscript_D in H.
  assert (F : Forall (fun t => tkind t <= 61) (ts ++ [eoft])).
  { apply Forall_app. split.
    - apply Forall_forall. intros t Ht. apply K in Ht. destruct Ht; assumption.
    - constructor; [cbn; lia|constructor]. }
  pose proof (D_M _ _ H F [] []) as R. unfold kinds in R.
  rewrite map_app, app_length, app_nil_r in R. exact R.
Qed.

(* PARSER SOUNDNESS w.r.t. the loop-form grammar that the executable recogniser runs on *)
Theorem pscript_sound f ts sc : pscript f ts = Some sc -> (forall t, In t ts -> known_kind t) ->
  M nat nat Nat.eqb pg (map tkind ts ++ [0]) (Ref start_rule) 0 (length ts + 1).
Proof. intros H K. apply pg_lr_equiv. now apply pscript_sound_lr with f sc. Qed.

(* soundness of the parts, positionally: what a sub-parser consumed is a segment derived by its rule *)
Corollary Sound_M {A} (px : list token -> option (A * list token)) e : Sound px e ->
  forall ts x r, px ts = Some (x, r) -> (forall t, In t ts -> known_kind t) ->
  exists pre, ts = pre ++ r /\
    forall l, M nat nat Nat.eqb pg (l ++ map tkind ts) e (length l) (length l + length pre).
Proof.
  intros S ts x r H K. apply S in H. destruct H as (pre & -> & Dp). exists pre. split; [reflexivity|].
  intros l. apply pg_lr_equiv. rewrite map_app. apply D_M; [exact Dp|].
  apply Forall_forall. intros t Ht. destruct (K t); [apply in_or_app; left; exact Ht|assumption].
Qed.

(* ------------------------------------------------------------------------------------------------ *)
(* Example:   name x \n version 1.0 \n Vac | 0 \n                                                    *)
(* ------------------------------------------------------------------------------------------------ *)
Section Example.
Let mk (k:nat) : token := mktok k [] 1 0 0 0.
Definition ex_toks : list token := [mk 19; mk 58; mk 16; mk 20; mk 10; mk 16; mk 58; mk 49; mk 9; mk 16].

Example ex_accepts : exists sc, pscript 20 ex_toks = Some sc.
Proof. vm_compute. eexists. reflexivity. Qed.

Example ex_sentence :
  M nat nat Nat.eqb pg [19; 58; 16; 20; 10; 16; 58; 49; 9; 16; 0] (Ref start_rule) 0 11.
Proof.
  destruct ex_accepts as (sc & E).
  apply (pscript_sound 20 ex_toks sc E).
  intros t Hin. unfold ex_toks in Hin. cbn [In] in Hin.
  repeat (destruct Hin as [<-|Hin]; [split; cbn; lia|]). destruct Hin.
Qed.
End Example.

Print Assumptions tk_of_nat_inj.
Print Assumptions D_M.
Print Assumptions Spell_D.
Print Assumptions pexpr_sound.
Print Assumptions pstatement_sound.
Print Assumptions pfor_sound.
Print Assumptions pdecl_sound.
Print Assumptions pprogram_sound.
Print Assumptions pscript_D.
Print Assumptions pscript_sound_lr.
Print Assumptions pscript_sound.
Print Assumptions ex_sentence.
Check pscript_sound.
Check pscript_sound_lr.
