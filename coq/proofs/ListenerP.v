(* The event driven listener (model/Listener.v) refines the compositional loader (Eval.denote).

   Main statements
     handle_item_refines : the walker's events of one item, handled from a state whose flag is clear, have exactly
                           the effect of Eval.exec_item (for a loop: the visits of the body statements are skipped
                           and the replay by exitForloop is Eval's loop);
     run_refines         : run_script incs sc = denote incs sc   (Ok, Refuse and Unspec alike);
     in_for_invariant    : the flag is clear again after the events of any item;
     skip_is_needed      : without the flag the refinement is false (operations are duplicated). *)
From Coq Require Import List NArith ZArith Bool Arith.
Import ListNotations.
From BB Require Import Syntax Values Eval Listener.

(* ---------------- outcome monad ---------------- *)
Lemma bind_ret_r : forall A (o:outcome A), (do x <- o; Ok x) = o.
Proof. destruct o; reflexivity. Qed.

Lemma bind_assoc : forall A B C (o:outcome A) (f:A -> outcome B) (g:B -> outcome C),
  (do y <- (do x <- o; f x); g y) = (do x <- o; do y <- f x; g y).
Proof. destruct o; reflexivity. Qed.

Lemma bind_ext : forall A B (o:outcome A) (f g:A -> outcome B),
  (forall a, f a = g a) -> bind o f = bind o g.
Proof. intros A B o f g H; destruct o; simpl; auto. Qed.

(* ---------------- Eval's loop, restated ---------------- *)
(* the inner [fix iter] of Eval.exec_item as a standalone function *)
Fixpoint loop_iter (incs:list (str * prog)) (ty:vtype) (x:str) (body:list stmt) (vs:list value) (s0:st)
  : outcome st :=
  match vs with
  | [] => Ok s0
  | v :: vs' =>
      do v' <- cast_loop ty v;
      do s1 <- exec_stmts incs (bind_var x v' s0) body;
      loop_iter incs ty x body vs' s1
  end.

Lemma exec_item_for : forall incs tdm s ty x h body,
  exec_item incs tdm s (IFor ty x h body) =
  (do vals <- for_values s h;
   match lookup x (s_env s) with
   | Some _ => Unspec
   | None =>
       do s' <- loop_iter incs ty x body vals
                  (mkst (s_env s) (for_pars s h) (s_pnames s) (s_ops s) (s_modes s));
       Ok (unbind_var x s')
   end).
Proof.
  intros incs tdm s ty x h body.
  unfold exec_item, for_values, for_pars.
  apply bind_ext; intro vals.
  destruct (lookup x (s_env s)); [reflexivity|].
  match goal with
  | |- bind (?F ?vs ?s0) _ = _ =>
      assert (E: forall vs1 s1, F vs1 s1 = loop_iter incs ty x body vs1 s1)
  end.
  { induction vs1 as [|v vs1 IH]; intro s1; [reflexivity|].
    cbn [loop_iter].
    destruct (cast_loop ty v) as [v'| |]; try reflexivity.
    cbn [bind]. unfold bind_var.
    destruct (exec_stmts incs _ body) as [s2| |]; try reflexivity.
    cbn [bind]. apply IH. }
  rewrite E. reflexivity.
Qed.

Section Refine.
Variable incs : list (str * prog).
Variable tdm : bool.

(* ---------------- the statement handler ---------------- *)
Lemma handle_stmt_skip : forall s t,
  handle_stmt incs (mklst s true) t true = Ok (mklst s true).
Proof. reflexivity. Qed.

Lemma handle_stmt_exec : forall s t in_loop,
  handle_stmt incs (mklst s false) t in_loop = (do s' <- exec_stmt incs s t; Ok (mklst s' false)).
Proof. intros s t in_loop. unfold handle_stmt. cbn [l_in_for l_st]. rewrite andb_false_r. reflexivity. Qed.

Lemma handle_stmt_toplevel : forall s b t,
  handle_stmt incs (mklst s b) t false = (do s' <- exec_stmt incs s t; Ok (mklst s' b)).
Proof. reflexivity. Qed.

(* ---------------- run_events ---------------- *)
Lemma run_events_app : forall a b ls,
  run_events incs tdm (a ++ b) ls = (do ls' <- run_events incs tdm a ls; run_events incs tdm b ls').
Proof.
  induction a as [|e a IH]; intros b ls; [reflexivity|].
  cbn [app run_events]. rewrite bind_assoc. apply bind_ext; intro ls'. apply IH.
Qed.

(* the walker's visits of the body statements while the flag is set change nothing *)
Lemma skipped_visits : forall body s,
  run_events incs tdm (map (fun t => EvStatement t true) body) (mklst s true) = Ok (mklst s true).
Proof.
  induction body as [|t body IH]; intro s; [reflexivity|].
  cbn [map run_events handle]. rewrite handle_stmt_skip. cbn [bind]. apply IH.
Qed.

(* ---------------- the replay of exitForloop is Eval's loop ---------------- *)
Lemma replay_body_refines : forall body s,
  replay_body incs (mklst s false) body = (do s' <- exec_stmts incs s body; Ok (mklst s' false)).
Proof.
  induction body as [|t body IH]; intro s; [reflexivity|].
  cbn [replay_body exec_stmts]. rewrite handle_stmt_exec, !bind_assoc.
  apply bind_ext; intro s'. cbn [bind]. apply IH.
Qed.

Lemma replay_loop_refines : forall ty x body vs s,
  replay_loop incs ty x body vs (mklst s false) =
  (do s' <- loop_iter incs ty x body vs s; Ok (mklst s' false)).
Proof.
  induction vs as [|v vs IH]; intro s; [reflexivity|].
  cbn [replay_loop loop_iter l_st l_in_for]. rewrite !bind_assoc.
  apply bind_ext; intro v'.
  rewrite replay_body_refines, !bind_assoc.
  apply bind_ext; intro s1. cbn [bind]. apply IH.
Qed.

Lemma handle_exit_for_refines : forall s b ty x h body,
  handle_exit_for incs (mklst s b) ty x h body =
  (do s' <- exec_item incs tdm s (IFor ty x h body); Ok (mklst s' false)).
Proof.
  intros s b ty x h body.
  rewrite exec_item_for. unfold handle_exit_for. cbn [l_st].
  rewrite bind_assoc. apply bind_ext; intro vals.
  destruct (lookup x (s_env s)); [reflexivity|].
  rewrite replay_loop_refines, !bind_assoc.
  apply bind_ext; intro s'. reflexivity.
Qed.

(* ---------------- one item ---------------- *)
Theorem handle_item_refines : forall s it,
  run_events incs tdm (events_of_item it) (mklst s false) =
  (do s' <- exec_item incs tdm s it; Ok (mklst s' false)).
Proof.
  intros s it. destruct it as [ty n init l c|ty n shape body l c|t|ty x h body].
  - cbn [events_of_item run_events handle l_st l_in_for]. apply bind_ret_r.
  - cbn [events_of_item run_events handle l_st l_in_for]. apply bind_ret_r.
  - cbn [events_of_item run_events handle]. rewrite handle_stmt_toplevel, bind_ret_r. reflexivity.
  - cbn [events_of_item].
    change ([EvEnterFor] ++ map (fun t => EvStatement t true) body ++ [EvExitFor ty x h body])
      with (EvEnterFor :: (map (fun t => EvStatement t true) body ++ [EvExitFor ty x h body])).
    cbn [run_events handle bind l_st].
    rewrite run_events_app, skipped_visits. cbn [bind run_events handle].
    rewrite handle_exit_for_refines. apply bind_ret_r.
Qed.

(* the same for a listener state given as a record with a clear flag *)
Corollary handle_item_refines' : forall ls it,
  l_in_for ls = false ->
  run_events incs tdm (events_of_item it) ls =
  (do s' <- exec_item incs tdm (l_st ls) it; Ok (mklst s' false)).
Proof. intros [s b] it H. cbn in H. subst b. apply handle_item_refines. Qed.

(* ---------------- the flag ---------------- *)
Theorem in_for_invariant : forall it ls ls',
  l_in_for ls = false ->
  run_events incs tdm (events_of_item it) ls = Ok ls' ->
  l_in_for ls' = false.
Proof.
  intros it ls ls' H R. rewrite (handle_item_refines' ls it H) in R.
  destruct (exec_item incs tdm (l_st ls) it); cbn in R; inversion R; reflexivity.
Qed.

(* in particular for a loop whose body is empty (excluded by the grammar): enterForloop sets the flag, no statement
   is visited, exitForloop clears it *)
Corollary in_for_invariant_empty_body : forall ty x h ls ls',
  l_in_for ls = false ->
  run_events incs tdm (events_of_item (IFor ty x h [])) ls = Ok ls' ->
  l_in_for ls' = false.
Proof. intros ty x h. apply in_for_invariant. Qed.

(* and the flag IS set between enterForloop and exitForloop: that is what suppresses the visits *)
Lemma in_for_set_inside : forall body s,
  run_events incs tdm (EvEnterFor :: map (fun t => EvStatement t true) body) (mklst s false)
  = Ok (mklst s true).
Proof. intros. cbn [run_events handle bind l_st]. apply skipped_visits. Qed.

(* ---------------- item lists ---------------- *)
Lemma run_items_refines : forall l s,
  run_events incs tdm (events_of_items l) (mklst s false) =
  (do s' <- exec_items incs tdm s l; Ok (mklst s' false)).
Proof.
  induction l as [|it l IH]; intro s; [reflexivity|].
  unfold events_of_items in *. cbn [flat_map exec_items].
  rewrite run_events_app, handle_item_refines, !bind_assoc.
  apply bind_ext; intro s'. cbn [bind]. apply IH.
Qed.

Theorem in_for_invariant_items : forall l ls ls',
  l_in_for ls = false ->
  run_events incs tdm (events_of_items l) ls = Ok ls' ->
  l_in_for ls' = false.
Proof.
  intros l [s b] ls' H R. cbn in H. subst b. rewrite run_items_refines in R.
  destruct (exec_items incs tdm s l); cbn in R; inversion R; reflexivity.
Qed.

(* ---------------- the program block ---------------- *)
Lemma enter_program_init : handle incs tdm init_lst EvEnterProgram = Ok init_lst.
Proof. reflexivity. Qed.

(* enterProgram empties the process-wide tables whatever an earlier parse left in them *)
Lemma enter_program_clears : forall env pars pn,
  handle incs tdm (mklst (mkst env pars pn [] []) false) EvEnterProgram = Ok init_lst.
Proof. reflexivity. Qed.

Lemma run_program_refines : forall sc,
  run_events incs tdm (events_of_script sc) init_lst =
  (do s' <- exec_items incs tdm empty_st (sc_items sc); Ok (mklst s' false)).
Proof.
  intro sc. unfold events_of_script.
  change ([EvEnterProgram] ++ events_of_items (sc_items sc) ++ [EvExitProgram])
    with (EvEnterProgram :: (events_of_items (sc_items sc) ++ [EvExitProgram])).
  cbn [run_events]. rewrite enter_program_init. cbn [bind].
  rewrite run_events_app. unfold init_lst. rewrite run_items_refines, bind_assoc.
  apply bind_ext; intro s'. reflexivity.
Qed.
End Refine.

(* ---------------- the whole script ---------------- *)
Theorem run_refines : forall incs sc, run_script incs sc = denote incs sc.
Proof.
  intros incs sc. unfold run_script, denote.
  apply bind_ext; intro tg. apply bind_ext; intro ty.
  rewrite run_program_refines, bind_assoc.
  apply bind_ext; intro s. reflexivity.
Qed.

(* ---------------- examples ---------------- *)
Definition s_Op : str := [79; 112]%N.       (* "Op" *)
Definition s_i : str := [105]%N.            (* "i" *)
Definition s_ex : str := [101; 120]%N.      (* "ex" *)
Definition s_ver : str := [49; 46; 48]%N.   (* "1.0" *)

(* name ex / version 1.0 /   for int i in 0:2 /     Op(i) | i *)
Definition sc_loop : script :=
  mkscript s_ex s_ver None None []
    [IFor VTInt s_i (HRange [48]%N [50]%N None)
       [mkstmt s_Op (Some (mkargs [VE (EVar s_i 4 7)] [])) [EVar s_i 4 12]]].

Example run_script_loop :
  run_script [] sc_loop =
  Ok (mkprog s_ex s_ver None [] None []
        [mkop s_Op (Some ([VInt 0], [])) [0%Z]; mkop s_Op (Some ([VInt 1], [])) [1%Z]]
        [0%Z; 1%Z] [] []).
Proof. vm_compute. reflexivity. Qed.

Example events_loop :
  events_of_script sc_loop =
  let t := mkstmt s_Op (Some (mkargs [VE (EVar s_i 4 7)] [])) [EVar s_i 4 12] in
  [EvEnterProgram; EvEnterFor; EvStatement t true;
   EvExitFor VTInt s_i (HRange [48]%N [50]%N None) [t]; EvExitProgram].
Proof. reflexivity. Qed.

(* ---------------- what goes wrong without the flag ---------------- *)
(* name ex / version 1.0 /   for int i in 0:2 /     Op | 0 *)
Definition sc_dup : script :=
  mkscript s_ex s_ver None None []
    [IFor VTInt s_i (HRange [48]%N [50]%N None) [mkstmt s_Op None [ENum NKInt [48]%N]]].

(* with the flag: two operations, as specified *)
Example dup_with_flag :
  run_script [] sc_dup =
  Ok (mkprog s_ex s_ver None [] None [] [mkop s_Op None [0%Z]; mkop s_Op None [0%Z]] [0%Z] [] []).
Proof. vm_compute. reflexivity. Qed.

(* without it: the walker's visit of the body statement executes it once more (three operations) *)
Example dup_without_flag :
  run_script_noflag [] sc_dup =
  Ok (mkprog s_ex s_ver None [] None []
        [mkop s_Op None [0%Z]; mkop s_Op None [0%Z]; mkop s_Op None [0%Z]] [0%Z] [] []).
Proof. vm_compute. reflexivity. Qed.

(* and a body that mentions the loop variable is refused on that visit (the variable is not bound yet) *)
Example loop_without_flag :
  run_script_noflag [] sc_loop = Refuse (EUndefined s_i 4 12).
Proof. vm_compute. reflexivity. Qed.

Lemma noflag_duplicates : exists sc p q o,
  denote [] sc = Ok p /\ run_script_noflag [] sc = Ok q /\ p_ops q = o :: p_ops p.
Proof.
  exists sc_dup. do 3 eexists.
  split; [vm_compute; reflexivity|]. split; [vm_compute; reflexivity|]. reflexivity.
Qed.

Theorem skip_is_needed : exists sc, run_script_noflag [] sc <> denote [] sc.
Proof. exists sc_dup. vm_compute. discriminate. Qed.

Corollary noflag_refines_refuted : ~ (forall incs sc, run_script_noflag incs sc = denote incs sc).
Proof. intro H. destruct skip_is_needed as [sc N]. apply N, H. Qed.

Print Assumptions run_refines.
Print Assumptions handle_item_refines.
Print Assumptions in_for_invariant.
Print Assumptions skip_is_needed.
