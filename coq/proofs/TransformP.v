(* Register transforms (C08) and order independence of include expansion (C19 support).

   C08: an argument written as an expression over measured registers is delivered as a register transform
   whose function, applied to the measurement values of the registers it lists in the listed order, returns
   the value of the written expression; the listed registers are exactly the registers occurring in the
   expression; positional and keyword arguments alike; arguments without registers stay plain values.

   Stdlib only; no axioms. *)
From Coq Require Import List ZArith NArith Bool Lia Permutation Sorted.
Import ListNotations.
From BB Require Import Syntax Values Eval EvalP.

(* ------------------------------------------------------------------------------------------------ *)
(* 0. Small tools                                                                                    *)
(* ------------------------------------------------------------------------------------------------ *)

Lemma str_eqb_iff (a b:str) : str_eqb a b = true <-> a = b.
Proof.
  revert b. induction a as [|x a IH]; destruct b as [|y b]; simpl; split; intros H;
    try reflexivity; try discriminate.
  - apply andb_true_iff in H as [H1 H2]. apply N.eqb_eq in H1. apply IH in H2. subst. reflexivity.
  - injection H as -> ->. rewrite N.eqb_refl. simpl. apply IH. reflexivity.
Qed.

Lemma str_eq_dec (a b:str) : {a = b} + {a <> b}.
Proof. apply list_eq_dec. apply N.eq_dec. Qed.

Lemma app_nil_both {A} (l1 l2:list A) : l1 ++ l2 = [] -> l1 = [] /\ l2 = [].
Proof. destruct l1; simpl; intros H; [auto|discriminate]. Qed.

(* ------------------------------------------------------------------------------------------------ *)
(* 1. wrap_transform                                                                                 *)
(* ------------------------------------------------------------------------------------------------ *)

Theorem has_reg_iff t : has_reg t = true <-> term_regs t <> [].
Proof.
  induction t; simpl; try (split; [discriminate|intros H; exfalso; apply H; reflexivity]);
    try assumption.
  - split; [discriminate|reflexivity].
  - rewrite orb_true_iff, IHt1, IHt2. split.
    + intros [H|H] E; apply app_nil_both in E as [E1 E2]; auto.
    + intros H. destruct (term_regs t1); [right; exact H|left; discriminate].
  - rewrite orb_true_iff, IHt1, IHt2. split.
    + intros [H|H] E; apply app_nil_both in E as [E1 E2]; auto.
    + intros H. destruct (term_regs t1); [right; exact H|left; discriminate].
  - rewrite orb_true_iff, IHt1, IHt2. split.
    + intros [H|H] E; apply app_nil_both in E as [E1 E2]; auto.
    + intros H. destruct (term_regs t1); [right; exact H|left; discriminate].
Qed.

Corollary has_reg_false_iff t : has_reg t = false <-> term_regs t = [].
Proof.
  split; intros H.
  - destruct (term_regs t) eqn:E; [reflexivity|].
    assert (has_reg t = true) by (apply has_reg_iff; rewrite E; discriminate). congruence.
  - destruct (has_reg t) eqn:E; [|reflexivity]. apply has_reg_iff in E. contradiction.
Qed.

Theorem wrap_transform_spec v t :
  wrap_transform v = VTrf t <-> (v = VSym t /\ has_reg t = true) \/ v = VTrf t.
Proof.
  split.
  - destruct v; simpl; intros H; try discriminate.
    + destruct (has_reg t0) eqn:E; [|discriminate]. injection H as <-. left; auto.
    + right; exact H.
  - intros [[-> H]| ->]; simpl; [rewrite H|]; reflexivity.
Qed.

Lemma wrap_plain_ex v :
  (forall t, v <> VSym t) \/ (exists t, v = VSym t /\ has_reg t = false) -> wrap_transform v = v.
Proof.
  intros [H|(t & -> & H)]; simpl.
  - destruct v; try reflexivity. exfalso. eapply H; reflexivity.
  - rewrite H. reflexivity.
Qed.

Theorem wrap_plain v t :
  (forall t', v <> VSym t') \/ (v = VSym t /\ has_reg t = false) -> wrap_transform v = v.
Proof. intros [H|H]; apply wrap_plain_ex; [left; exact H|right; eauto]. Qed.

(* wrapping never changes anything but the tag of a symbolic value *)
Lemma wrap_transform_cases v :
  wrap_transform v = v \/ exists t, v = VSym t /\ has_reg t = true /\ wrap_transform v = VTrf t.
Proof.
  destruct v; simpl; auto. unfold wrap_transform. destruct (has_reg t) eqn:E; [right; eauto|left; reflexivity].
Qed.

Lemma wrap_transform_idem v : wrap_transform (wrap_transform v) = wrap_transform v.
Proof. destruct v; simpl; try reflexivity. destruct (has_reg t) eqn:E; simpl; rewrite ?E; reflexivity. Qed.

(* ------------------------------------------------------------------------------------------------ *)
(* 2. The registers of the delivered value are exactly the registers written in the expression      *)
(* ------------------------------------------------------------------------------------------------ *)

(* REGREF texts occurring in an expression, left to right, with repetitions *)
Fixpoint expr_regs (e:expr) : list str :=
  match e with
  | EReg s => [s]
  | EIdx _ _ _ a | EBr a | ESign _ a | EFun _ a => expr_regs a
  | EPow a b | EMul _ a b | EAdd _ a b => expr_regs a ++ expr_regs b
  | _ => []
  end.

Fixpoint value_regs (v:value) : list str :=
  match v with
  | VFlt t | VCpx t | VSym t | VTrf t => term_regs t
  | VArr _ _ _ l | VList l => flat_map value_regs l
  | _ => []
  end.

Definition env_plain (env:list (str * value)) : Prop :=
  forall x v, lookup x env = Some v -> value_regs v = [].

Lemma flat_map_nil_in {A B} (f:A -> list B) l x : flat_map f l = [] -> In x l -> f x = [].
Proof.
  induction l as [|a l IH]; simpl; intros H Hin; [destruct Hin|].
  apply app_nil_both in H as [H1 H2]. destruct Hin as [<-|Hin]; auto.
Qed.

(* a value is either symbolic or free of registers *)
Definition symreg (v:value) : Prop := match v with VSym _ => True | _ => value_regs v = [] end.

Lemma plain_symreg v : value_regs v = [] -> symreg v.
Proof. destruct v; simpl; auto. Qed.

Lemma num_value_regs k text v : num_value k text = Ok v -> value_regs v = [].
Proof.
  destruct k; simpl; intros H.
  - destruct (parse_digits text); [|discriminate]. apply mkint_ok in H as [-> _]. reflexivity.
  - unfold parse_float in H. destruct (parse_real_prefix text) as [[[m e] [|]]|]; try discriminate.
    injection H as <-. reflexivity.
  - destruct (parse_complex text) eqn:E; [|discriminate]. injection H as <-.
    unfold parse_complex in E.
    destruct (match text with 43%N :: r => (false, r) | 45%N :: r => (true, r) | _ => (false, text) end) as [neg1 s1].
    destruct (parse_real_prefix s1) as [[[m1 e1] r1]|]; [|discriminate].
    destruct r1 as [|c r2]; [discriminate|].
    destruct r2 as [|c2 r3].
    + destruct (is_j c); [|discriminate]. injection E as <-. reflexivity.
    + destruct (if N.eqb c 43 then Some false else if N.eqb c 45 then Some true else None); [|discriminate].
      destruct (parse_real_prefix (c2 :: r3)) as [[[m2 e2] [|c3 [|]]]|]; try discriminate.
      destruct (is_j c3); [|discriminate]. injection E as <-. reflexivity.
  - injection H as <-. reflexivity.
Qed.

(* the operations concatenate the registers of their operands *)
Lemma v_neg_regs x v : v_neg x = Ok v -> value_regs v = value_regs x /\ (symreg x -> symreg v).
Proof.
  destruct x; simpl; intros H; try discriminate;
    try (injection H as <-; simpl; auto).
  apply mkint_ok in H as [-> _]. simpl; auto.
Qed.

Lemma v_add_regs sub x y v : v_add sub x y = Ok v ->
  value_regs v = value_regs x ++ value_regs y /\ (symreg x -> symreg y -> symreg v).
Proof.
  destruct x, y; simpl; intros H; try discriminate;
    try (injection H as <-; destruct sub; simpl; rewrite ?app_nil_r; split; auto; intros E1 E2;
         rewrite ?E1, ?E2; reflexivity).
  apply mkint_ok in H as [-> _]. simpl; auto.
Qed.

Lemma v_mul_regs x y v : v_mul x y = Ok v ->
  value_regs v = value_regs x ++ value_regs y /\ (symreg x -> symreg y -> symreg v).
Proof.
  destruct x, y; simpl; intros H; try discriminate;
    try (injection H as <-; simpl; rewrite ?app_nil_r; split; auto; intros E1 E2;
         rewrite ?E1, ?E2; reflexivity).
  apply mkint_ok in H as [-> _]. simpl; auto.
Qed.

Lemma v_div_regs x y v : v_div x y = Ok v ->
  value_regs v = value_regs x ++ value_regs y /\ (symreg x -> symreg y -> symreg v).
Proof.
  destruct x, y; simpl; intros H; zcase; try discriminate;
    (injection H as <-; simpl; rewrite ?app_nil_r; split; auto; intros E1 E2;
     rewrite ?E1, ?E2; reflexivity).
Qed.

Lemma v_pow_regs x y v : v_pow x y = Ok v ->
  value_regs v = value_regs x ++ value_regs y /\ (symreg x -> symreg y -> symreg v).
Proof.
  destruct x, y; simpl; intros H; try discriminate;
    try (injection H as <-; simpl; rewrite ?app_nil_r; split; auto; intros E1 E2;
         rewrite ?E1, ?E2; reflexivity).
  destruct (Z.leb 0 z0).
  - destruct (Z.leb z0 4096); [|discriminate]. apply mkint_ok in H as [-> _]. simpl; auto.
  - destruct (Z.eqb z 0); [discriminate|]. injection H as <-. simpl; auto.
Qed.

Lemma v_fn_regs f x v : v_fn f x = Ok v -> value_regs v = value_regs x /\ (symreg x -> symreg v).
Proof.
  destruct x; simpl; intros H; try discriminate; (injection H as <-; simpl; auto).
Qed.

(* Completeness, for every environment: every register written in the expression is listed.  (An index
   expression must evaluate to an integer, so it cannot contain a register.) *)
Theorem eval_regs_complete env pn e : forall v,
  eval env pn e = Ok v -> incl (expr_regs e) (value_regs v).
Proof.
  induction e; intros v H; cbn [eval] in H; cbn [expr_regs].
  - intros r [].
  - intros r [].
  - injection H as <-. simpl. apply incl_refl.
  - apply bind_ok in H as (iv & Hi & H).
    destruct (lookup name env) as [[]|]; try discriminate.
    destruct iv; try discriminate. apply IHe in Hi. simpl in Hi.
    intros r Hr. destruct (Hi r Hr).
  - intros r [].
  - eauto.
  - destruct neg; [|eauto]. apply bind_ok in H as (x & Hx & H).
    apply v_neg_regs in H as [-> _]. eauto.
  - apply bind_ok in H as (x & Hx & H). apply bind_ok in H as (y & Hy & H).
    apply v_pow_regs in H as [-> _]. apply incl_app; [apply incl_appl|apply incl_appr]; eauto.
  - destruct div; apply bind_ok in H as (x & Hx & H); apply bind_ok in H as (y & Hy & H).
    + apply v_div_regs in H as [-> _]. apply incl_app; [apply incl_appl|apply incl_appr]; eauto.
    + apply v_mul_regs in H as [-> _]. apply incl_app; [apply incl_appl|apply incl_appr]; eauto.
  - apply bind_ok in H as (x & Hx & H). apply bind_ok in H as (y & Hy & H).
    apply v_add_regs in H as [-> _]. apply incl_app; [apply incl_appl|apply incl_appr]; eauto.
  - apply bind_ok in H as (x & Hx & H). apply v_fn_regs in H as [-> _]. eauto.
Qed.

(* Soundness, for every environment: a listed register is written in the expression or comes from the
   value of a variable of the environment. *)
Theorem eval_regs_sound_env env pn e : forall v,
  eval env pn e = Ok v ->
  forall r, In r (value_regs v) ->
  In r (expr_regs e) \/ exists x w, lookup x env = Some w /\ In r (value_regs w).
Proof.
  induction e; intros v H r Hr; cbn [eval] in H; cbn [expr_regs].
  - rewrite (num_value_regs _ _ _ H) in Hr. destruct Hr.
  - destruct (lookup name env) as [v0|] eqn:L; [|discriminate].
    destruct (mem_str name pn).
    + destruct v0; try discriminate. injection H as <-. destruct Hr.
    + injection H as <-. right; eauto.
  - injection H as <-. left; exact Hr.
  - apply bind_ok in H as (iv & Hi & H).
    destruct (lookup name env) as [[]|] eqn:L; try discriminate.
    destruct iv; try discriminate. destruct (Z.ltb z 0); [discriminate|].
    destruct (nth_error elems (Z.to_nat z)) as [v0|] eqn:N; [|discriminate]. injection H as <-.
    right. do 2 eexists; split; [exact L|]. simpl. apply in_flat_map. exists v0; split; [|exact Hr].
    eapply nth_error_In; eauto.
  - injection H as <-. destruct Hr.
  - eauto.
  - destruct neg; [|eauto]. apply bind_ok in H as (x & Hx & H).
    apply v_neg_regs in H as [E _]. rewrite E in Hr. eauto.
  - apply bind_ok in H as (x & Hx & H). apply bind_ok in H as (y & Hy & H).
    apply v_pow_regs in H as [E _]. rewrite E in Hr. apply in_app_or in Hr as [Hr|Hr];
      [destruct (IHe1 _ Hx _ Hr)|destruct (IHe2 _ Hy _ Hr)]; auto; left; apply in_or_app; auto.
  - destruct div; apply bind_ok in H as (x & Hx & H); apply bind_ok in H as (y & Hy & H);
      [apply v_div_regs in H as [E _]|apply v_mul_regs in H as [E _]];
      rewrite E in Hr; (apply in_app_or in Hr as [Hr|Hr];
      [destruct (IHe1 _ Hx _ Hr)|destruct (IHe2 _ Hy _ Hr)]; auto; left; apply in_or_app; auto).
  - apply bind_ok in H as (x & Hx & H). apply bind_ok in H as (y & Hy & H).
    apply v_add_regs in H as [E _]. rewrite E in Hr. apply in_app_or in Hr as [Hr|Hr];
      [destruct (IHe1 _ Hx _ Hr)|destruct (IHe2 _ Hy _ Hr)]; auto; left; apply in_or_app; auto.
  - apply bind_ok in H as (x & Hx & H). apply v_fn_regs in H as [E _]. rewrite E in Hr. eauto.
Qed.

(* With an environment whose values carry no registers: the registers of the value are the registers of
   the expression, in the written order and with the written multiplicities (nothing is simplified), and
   a value that carries registers is symbolic. *)
Theorem eval_regs_strong env pn e : env_plain env -> forall v,
  eval env pn e = Ok v -> value_regs v = expr_regs e /\ symreg v.
Proof.
  intros P. induction e; intros v H; cbn [eval] in H; cbn [expr_regs].
  - pose proof (num_value_regs _ _ _ H) as E. split; [exact E|apply plain_symreg; exact E].
  - destruct (lookup name env) as [v0|] eqn:L; [|discriminate].
    destruct (mem_str name pn).
    + destruct v0; try discriminate. injection H as <-. simpl; auto.
    + injection H as <-. pose proof (P _ _ L) as E. split; [exact E|apply plain_symreg; exact E].
  - injection H as <-. simpl; auto.
  - apply bind_ok in H as (iv & Hi & H).
    destruct (lookup name env) as [[]|] eqn:L; try discriminate.
    destruct iv; try discriminate. destruct (Z.ltb z 0); [discriminate|].
    destruct (nth_error elems (Z.to_nat z)) as [v0|] eqn:N; [|discriminate]. injection H as <-.
    destruct (IHe _ Hi) as [E _]. simpl in E. rewrite <- E.
    assert (value_regs v0 = []) as Ev.
    { apply P in L. simpl in L. eapply flat_map_nil_in; [exact L|]. eapply nth_error_In; eauto. }
    split; [exact Ev|apply plain_symreg; exact Ev].
  - injection H as <-. simpl; auto.
  - eauto.
  - destruct neg; [|eauto]. apply bind_ok in H as (x & Hx & H).
    destruct (IHe _ Hx) as [E S]. apply v_neg_regs in H as [-> HS]. auto.
  - apply bind_ok in H as (x & Hx & H). apply bind_ok in H as (y & Hy & H).
    destruct (IHe1 _ Hx) as [E1 S1]. destruct (IHe2 _ Hy) as [E2 S2].
    apply v_pow_regs in H as [-> HS]. rewrite E1, E2. auto.
  - destruct div; apply bind_ok in H as (x & Hx & H); apply bind_ok in H as (y & Hy & H);
      destruct (IHe1 _ Hx) as [E1 S1]; destruct (IHe2 _ Hy) as [E2 S2];
      [apply v_div_regs in H as [-> HS]|apply v_mul_regs in H as [-> HS]]; rewrite E1, E2; auto.
  - apply bind_ok in H as (x & Hx & H). apply bind_ok in H as (y & Hy & H).
    destruct (IHe1 _ Hx) as [E1 S1]. destruct (IHe2 _ Hy) as [E2 S2].
    apply v_add_regs in H as [-> HS]. rewrite E1, E2. auto.
  - apply bind_ok in H as (x & Hx & H). destruct (IHe _ Hx) as [E S].
    apply v_fn_regs in H as [-> HS]. auto.
Qed.

Corollary eval_regs_eq env pn e v :
  env_plain env -> eval env pn e = Ok v -> value_regs v = expr_regs e.
Proof. intros P H. exact (proj1 (eval_regs_strong _ _ _ P _ H)). Qed.

Theorem eval_regs env pn e v :
  env_plain env -> eval env pn e = Ok v -> forall r, In r (value_regs v) <-> In r (expr_regs e).
Proof. intros P H r. rewrite (eval_regs_eq _ _ _ _ P H). reflexivity. Qed.

(* the two halves in the form asked for *)
Corollary eval_regs_sound env pn e v :
  env_plain env -> eval env pn e = Ok v -> forall r, In r (value_regs v) -> In r (expr_regs e).
Proof. intros P H r Hr. apply (eval_regs _ _ _ _ P H r). exact Hr. Qed.

(* what is delivered for an argument expression: a plain value when no register is written, otherwise a
   transform on the term whose registers are the written ones *)
Lemma plain_wrap v : value_regs v = [] -> wrap_transform v = v.
Proof.
  intros E. destruct v; try reflexivity. simpl in *. apply has_reg_false_iff in E. rewrite E. reflexivity.
Qed.

Theorem delivered_argument env pn e v :
  env_plain env -> eval env pn e = Ok v ->
  (expr_regs e = [] -> wrap_transform v = v) /\
  (expr_regs e <> [] -> exists t, v = VSym t /\ wrap_transform v = VTrf t /\ term_regs t = expr_regs e).
Proof.
  intros P H. destruct (eval_regs_strong _ _ _ P _ H) as [E S]. split; intros N.
  - apply plain_wrap. congruence.
  - rewrite <- E in N. destruct v; simpl in S; try contradiction.
    exists t. simpl in *. split; [reflexivity|]. split; [|exact E].
    destruct (has_reg t) eqn:R; [reflexivity|]. apply has_reg_false_iff in R. contradiction.
Qed.

(* env_plain holds initially and is kept by storing register-free values *)
Lemma env_plain_nil : env_plain [].
Proof. intros x v H. discriminate. Qed.

Lemma lookup_dict_set {A} x (v:A) env y :
  lookup y (dict_set x v env) = if str_eqb y x then Some v else lookup y env.
Proof.
  induction env as [|[k w] env IH]; simpl.
  - reflexivity.
  - destruct (str_eqb x k) eqn:X; simpl.
    + apply str_eqb_iff in X. subst k. destruct (str_eqb y x); reflexivity.
    + destruct (str_eqb y k) eqn:Y.
      * apply str_eqb_iff in Y. subst k. destruct (str_eqb y x) eqn:Z; [|reflexivity].
        apply str_eqb_iff in Z. subst y. rewrite str_eqb_refl in X. discriminate.
      * exact IH.
Qed.

Lemma env_plain_set env x v : env_plain env -> value_regs v = [] -> env_plain (dict_set x v env).
Proof.
  intros P E y u. rewrite lookup_dict_set. destruct (str_eqb y x).
  - intros H; injection H as <-; exact E.
  - apply P.
Qed.

(* env_plain is NOT an invariant of the loader: a scalar declaration stores a symbolic initialiser as it
   is (cast_scalar lets VSym through), so a register can enter the environment through a variable.  In
   that case the transform lists a register that is not written in the argument (eval_regs_sound_env
   gives what is true then; completeness eval_regs_complete needs no assumption). *)
Example scalar_decl_breaks_env_plain :
  exists s', exec_item [] false (mkst [] [] [] [] []) (IScalar VTFloat (DName [120%N]) (VE (EReg [113;48]%N)) 1 0) = Ok s'
             /\ lookup [120%N] (s_env s') = Some (VSym (TReg [113;48]%N)).
Proof. eexists; split; vm_compute; reflexivity. Qed.

(* ------------------------------------------------------------------------------------------------ *)
(* 3. The transform's function and its pairing with any listing order                                *)
(* ------------------------------------------------------------------------------------------------ *)
Section Transform.
Variable K : Type.
Variables kadd kmul kpow : K -> K -> K.
Variables kneg kinv : K -> K.
Variable kfn : fn -> K -> K.
Variable kdec : Z -> Z -> K.
Variables kpi ki : K.
Variable rho_par : str -> K.
Variable rho_reg0 : str -> K.     (* value of a register that is not listed: never looked at, see transform_pairing *)

Local Notation tdn := (tden K kadd kmul kpow kneg kinv kfn kdec kpi ki rho_par).
Local Notation vdn := (vden K kadd kmul kpow kneg kinv kfn kdec kpi ki rho_par).
Local Notation adn := (aden K kadd kmul kpow kneg kinv kfn kdec kpi ki rho_par).

(* the value of a term depends only on the values of the registers occurring in it *)
Lemma tden_ext t : forall rho1 rho2,
  (forall r, In r (term_regs t) -> rho1 r = rho2 r) -> tdn rho1 t = tdn rho2 t.
Proof.
  induction t; intros rho1 rho2 H; simpl in *; try reflexivity.
  - apply H. left; reflexivity.
  - f_equal; [apply IHt1|apply IHt2]; intros r Hr; apply H; apply in_or_app; auto.
  - f_equal; [apply IHt1|apply IHt2]; intros r Hr; apply H; apply in_or_app; auto.
  - f_equal; apply IHt; exact H.
  - f_equal; apply IHt; exact H.
  - f_equal; [apply IHt1|apply IHt2]; intros r Hr; apply H; apply in_or_app; auto.
  - f_equal; apply IHt; exact H.
Qed.

(* value paired with the first occurrence of the name *)
Fixpoint assoc_val (names:list str) (vals:list K) (dflt:str -> K) (r:str) : K :=
  match names, vals with
  | n :: ns, v :: vs => if str_eqb r n then v else assoc_val ns vs dflt r
  | _, _ => dflt r
  end.

(* the function of the transform on term t, given the order in which the transform lists its registers:
   it takes the measurement values in that order *)
Definition trf_fun (t:term) (regs:list str) (vals:list K) : K :=
  tdn (assoc_val regs vals rho_reg0) t.

Lemma assoc_val_map regs rho d r : In r regs -> assoc_val regs (map rho regs) d r = rho r.
Proof.
  induction regs as [|n ns IH]; simpl; intros H; [destruct H|].
  destruct (str_eqb r n) eqn:E.
  - apply str_eqb_iff in E. subst. reflexivity.
  - destruct H as [->|H]; [rewrite str_eqb_refl in E; discriminate|auto].
Qed.

Lemma assoc_val_notin regs vals d r : ~ In r regs -> assoc_val regs vals d r = d r.
Proof.
  revert vals. induction regs as [|n ns IH]; intros [|v vs] H; simpl; try reflexivity.
  destruct (str_eqb r n) eqn:E.
  - apply str_eqb_iff in E. subst. exfalso. apply H. left; reflexivity.
  - apply IH. intros Hin. apply H. right; exact Hin.
Qed.

Lemma assoc_val_in regs : forall vals d r v,
  NoDup regs -> In (r, v) (combine regs vals) -> assoc_val regs vals d r = v.
Proof.
  induction regs as [|n ns IH]; intros [|v0 vs] d r v ND H; simpl in *; try contradiction.
  inversion ND as [|? ? Hn ND']; subst.
  destruct H as [E|H].
  - injection E as -> ->. rewrite str_eqb_refl. reflexivity.
  - destruct (str_eqb r n) eqn:E.
    + apply str_eqb_iff in E. subst. exfalso. apply Hn. eapply in_combine_l; eauto.
    + eauto.
Qed.

(* every vector of values of the right length is the vector of measurement values of some assignment *)
Lemma assoc_val_realises regs : forall vals d,
  NoDup regs -> length vals = length regs -> map (assoc_val regs vals d) regs = vals.
Proof.
  induction regs as [|n ns IH]; intros [|v vs] d ND L; simpl in *; try discriminate; try reflexivity.
  inversion ND as [|? ? Hn ND']; subst. rewrite str_eqb_refl. f_equal.
  transitivity (map (assoc_val ns vs d) ns); [|apply IH; [exact ND'|congruence]].
  apply map_ext_in. intros r Hr. destruct (str_eqb r n) eqn:E; [|reflexivity].
  apply str_eqb_iff in E. subst. contradiction.
Qed.

(* Whatever the order in which the registers are listed: the function applied to the measurement values
   in the listed order is the value of the term.  (Duplicates in the listing would do no harm either.) *)
Theorem transform_pairing_gen t regs :
  (forall r, In r (term_regs t) -> In r regs) ->
  forall rho, trf_fun t regs (map rho regs) = tdn rho t.
Proof.
  intros C rho. unfold trf_fun. apply tden_ext. intros r Hr. apply assoc_val_map. auto.
Qed.

Theorem transform_pairing t regs :
  NoDup regs -> (forall r, In r (term_regs t) -> In r regs) ->
  forall rho, trf_fun t regs (map rho regs) = tdn rho t.
Proof. intros _. apply transform_pairing_gen. Qed.

Corollary transform_order_irrelevant t regs1 regs2 rho :
  Permutation regs1 regs2 -> NoDup regs1 -> (forall r, In r (term_regs t) -> In r regs1) ->
  trf_fun t regs1 (map rho regs1) = trf_fun t regs2 (map rho regs2).
Proof.
  intros P ND C. rewrite (transform_pairing t regs1 ND C).
  symmetry. apply transform_pairing_gen. intros r Hr. eapply Permutation_in; eauto.
Qed.

(* the same, for arbitrary value vectors: two listings that pair the same registers with the same values,
   in any order, give the same result *)
Lemma combine_fst {A B} (l1:list A) : forall (l2:list B), length l1 = length l2 -> map fst (combine l1 l2) = l1.
Proof. induction l1; intros [|b l2] L; simpl in *; try discriminate; [reflexivity|f_equal; auto]. Qed.

Lemma in_combine_ex {A B} (l1:list A) : forall (l2:list B) a,
  length l1 = length l2 -> In a l1 -> exists b, In (a, b) (combine l1 l2).
Proof.
  induction l1; intros [|b l2] x L H; simpl in *; try discriminate; try contradiction.
  destruct H as [->|H]; [eexists; left; reflexivity|].
  destruct (IHl1 l2 x) as [b' Hb]; [congruence|exact H|]. eexists; right; exact Hb.
Qed.

Theorem transform_pairs_order_irrelevant t regs1 vals1 regs2 vals2 :
  length regs1 = length vals1 -> length regs2 = length vals2 -> NoDup regs1 ->
  Permutation (combine regs1 vals1) (combine regs2 vals2) ->
  trf_fun t regs1 vals1 = trf_fun t regs2 vals2.
Proof.
  intros L1 L2 ND P. unfold trf_fun. apply tden_ext. intros r _.
  assert (Permutation regs1 regs2) as PR.
  { rewrite <- (combine_fst regs1 vals1 L1), <- (combine_fst regs2 vals2 L2). apply Permutation_map. exact P. }
  assert (NoDup regs2) as ND2 by (eapply Permutation_NoDup; eauto).
  destruct (in_dec str_eq_dec r regs1) as [Hin|Hnin].
  - destruct (in_combine_ex _ _ _ L1 Hin) as [v Hv].
    rewrite (assoc_val_in _ _ _ _ _ ND Hv).
    symmetry. apply assoc_val_in; [exact ND2|]. eapply Permutation_in; eauto.
  - rewrite !assoc_val_notin; [reflexivity| |exact Hnin].
    intros H. apply Hnin. eapply Permutation_in; [apply Permutation_sym; exact PR|exact H].
Qed.

(* ---- the function returns the value of the written expression ---- *)
Hypothesis Hadd : forall x y, kdec (x + y) 0 = kadd (kdec x 0) (kdec y 0).
Hypothesis Hsub : forall x y, kdec (x - y) 0 = kadd (kdec x 0) (kneg (kdec y 0)).
Hypothesis Hmul : forall x y, kdec (x * y) 0 = kmul (kdec x 0) (kdec y 0).
Hypothesis Hneg : forall x, kdec (- x) 0 = kneg (kdec x 0).
Hypothesis Hpow : forall x y, (0 <= y)%Z -> kdec (x ^ y) 0 = kpow (kdec x 0) (kdec y 0).

(* [adn rho env e] is the ordinary arithmetic value of e when register r was measured as rho r *)
Theorem transform_value env pn e v t regs rho :
  eval env pn e = Ok v -> wrap_transform v = VTrf t ->
  (forall r, In r (term_regs t) -> In r regs) ->
  adn rho env e = Some (trf_fun t regs (map rho regs)).
Proof.
  intros H W C.
  rewrite (eval_hom_eq K kadd kmul kpow kneg kinv kfn kdec kpi ki rho_par rho Hadd Hsub Hmul Hneg Hpow _ _ _ _ H).
  rewrite (transform_pairing_gen t regs C rho).
  apply wrap_transform_spec in W as [[-> _]| ->]; reflexivity.
Qed.

Corollary transform_value_sym env pn e t regs rho :
  eval env pn e = Ok (VSym t) -> has_reg t = true ->
  NoDup regs -> (forall r, In r (term_regs t) -> In r regs) ->
  adn rho env e = Some (trf_fun t regs (map rho regs)).
Proof.
  intros H R _ C. eapply transform_value; eauto. simpl. rewrite R. reflexivity.
Qed.

(* C08 for one argument expression, everything together: if the expression mentions a register, what is
   delivered is a transform; any duplicate-free listing of exactly the written registers is a listing of
   exactly the registers of its term; and with any such listing, in any order, the function applied to the
   measurement values in that order is the arithmetic value of the written expression. *)
Theorem c08_argument env pn e v :
  env_plain env -> eval env pn e = Ok v -> expr_regs e <> [] ->
  exists t, wrap_transform v = VTrf t /\ term_regs t = expr_regs e /\
    forall regs, NoDup regs -> (forall r, In r regs <-> In r (expr_regs e)) ->
    forall rho, adn rho env e = Some (trf_fun t regs (map rho regs)).
Proof.
  intros P H N. destruct (delivered_argument _ _ _ _ P H) as [_ D].
  destruct (D N) as (t & -> & W & E). exists t. split; [exact W|]. split; [exact E|].
  intros regs _ C rho. eapply transform_value; eauto.
  intros r Hr. apply C. rewrite <- E. exact Hr.
Qed.

(* ... and if it mentions none, a plain value with the same arithmetic value is delivered *)
Theorem c08_plain_argument env pn e v :
  env_plain env -> eval env pn e = Ok v -> expr_regs e = [] ->
  wrap_transform v = v /\ value_regs v = [] /\ forall rho, adn rho env e = vdn rho v.
Proof.
  intros P H N. destruct (delivered_argument _ _ _ _ P H) as [D _]. split; [auto|].
  split; [rewrite (eval_regs_eq _ _ _ _ P H); exact N|].
  intros rho. exact (eval_hom_eq K kadd kmul kpow kneg kinv kfn kdec kpi ki rho_par rho Hadd Hsub Hmul Hneg Hpow _ _ _ _ H).
Qed.

End Transform.

(* ------------------------------------------------------------------------------------------------ *)
(* 4. Statement level: positional and keyword arguments are wrapped alike, nothing else is            *)
(* ------------------------------------------------------------------------------------------------ *)

Definition wrap_args (r:list value * list (str * value)) : list value * list (str * value) :=
  (map wrap_transform (fst r), map (fun kv => (fst kv, wrap_transform (snd kv))) (snd r)).

Theorem exec_stmt_wraps incs s t s' :
  lookup (sop t) incs = None -> exec_stmt incs s t = Ok s' ->
  exists ms a,
    eval_opt_args (s_env s) (s_pnames s) (sargs t) = Ok a /\
    s_ops s' = s_ops s ++ [mkop (sop t) (option_map wrap_args a) ms] /\
    s_env s' = s_env s /\ s_pnames s' = s_pnames s.
Proof.
  intros L H. unfold exec_stmt in H.
  apply bind_ok in H as (mvs & Hm & H). apply bind_ok in H as (ms & Hms & H).
  apply bind_ok in H as (a & Ha & H). rewrite L in H. injection H as <-.
  exists ms, a. split; [exact Ha|]. simpl. split; [|auto].
  destruct a as [[ps kws]|]; reflexivity.
Qed.

Lemma in_dict_set {A} k0 (x0:A) acc k x :
  In (k, x) (dict_set k0 x0 acc) -> (k, x) = (k0, x0) \/ In (k, x) acc.
Proof.
  induction acc as [|[k' v'] acc IH]; simpl.
  - intros [E|[]]. left; symmetry; exact E.
  - destruct (str_eqb k0 k'); simpl.
    + intros [E|H]; [left; symmetry; exact E|right; right; exact H].
    + intros [E|H]; [right; left; exact E|]. destruct (IH H); auto.
Qed.

(* every delivered keyword value is the value of a written keyword argument (a written list is delivered
   as the list of the values of its members) *)
Lemma kw_go_sources env pn : forall l acc r, kw_go env pn l acc = Ok r ->
  forall k x, In (k, x) r ->
  In (k, x) acc \/
  (exists v, In (k, KV v) l /\ eval_val env pn v = Ok x) \/
  (exists vs xs, In (k, KL vs) l /\ mapM (eval_val env pn) vs = Ok xs /\ x = VList xs).
Proof.
  induction l as [|[k0 kv0] l IH]; intros acc r H k x Hin; cbn [kw_go] in H.
  - injection H as <-. left; exact Hin.
  - destruct kv0 as [v0|[|v0 vs0]].
    + apply bind_ok in H as (x0 & Hx & H). destruct (IH _ _ H _ _ Hin) as [Ha|[(v & Hv & E)|(vs & xs & Hv & E)]].
      * apply in_dict_set in Ha as [E|Ha]; [|left; exact Ha]. injection E as -> ->.
        right; left. exists v0. split; [left; reflexivity|exact Hx].
      * right; left. exists v. split; [right; exact Hv|exact E].
      * right; right. exists vs, xs. split; [right; exact Hv|exact E].
    + destruct (IH _ _ H _ _ Hin) as [Ha|[(v & Hv & E)|(vs & xs & Hv & E)]].
      * left; exact Ha.
      * right; left. exists v. split; [right; exact Hv|exact E].
      * right; right. exists vs, xs. split; [right; exact Hv|exact E].
    + apply bind_ok in H as (xs0 & Hx & H). destruct (IH _ _ H _ _ Hin) as [Ha|[(v & Hv & E)|(vs & xs & Hv & E)]].
      * apply in_dict_set in Ha as [E|Ha]; [|left; exact Ha]. injection E as -> ->.
        right; right. exists (v0 :: vs0), xs0. split; [left; reflexivity|]. split; [exact Hx|reflexivity].
      * right; left. exists v. split; [right; exact Hv|exact E].
      * right; right. exists vs, xs. split; [right; exact Hv|exact E].
Qed.

(* the arguments of the appended operation, argument by argument *)
Theorem exec_stmt_args incs s t s' ar :
  lookup (sop t) incs = None -> sargs t = Some ar -> exec_stmt incs s t = Ok s' ->
  let env := s_env s in let pn := s_pnames s in
  exists ms ps kws,
    s_ops s' = s_ops s ++ [mkop (sop t) (Some (map wrap_transform ps,
                                               map (fun kv => (fst kv, wrap_transform (snd kv))) kws)) ms] /\
    (* positional: the i-th delivered value is the wrapped value of the i-th written argument *)
    length ps = length (apos ar) /\
    (forall i d, i < length (apos ar) ->
       eval_val env pn (nth i (apos ar) d) = Ok (nth i ps (VInt 0)) /\
       nth i (map wrap_transform ps) (VInt 0) = wrap_transform (nth i ps (VInt 0))) /\
    (* keyword: every delivered pair is (k, wrapped value of a written keyword argument k) *)
    (forall k y, In (k, y) (map (fun kv => (fst kv, wrap_transform (snd kv))) kws) ->
       exists x, y = wrap_transform x /\
         ((exists v, In (k, KV v) (akw ar) /\ eval_val env pn v = Ok x) \/
          (exists vs xs, In (k, KL vs) (akw ar) /\ mapM (eval_val env pn) vs = Ok xs /\ x = VList xs))).
Proof.
  intros L S H env pn.
  destruct (exec_stmt_wraps _ _ _ _ L H) as (ms & a & Ha & Hops & _ & _).
  rewrite S in Ha. simpl in Ha. apply bind_ok in Ha as (r & Hr & Ha). injection Ha as <-.
  rewrite eval_args_unfold in Hr. apply bind_ok in Hr as (ps & Hps & Hr).
  apply bind_ok in Hr as (kws & Hkws & Hr). injection Hr as <-.
  exists ms, ps, kws. split; [exact Hops|]. split; [eapply mapM_ok_length; eauto|]. split.
  - intros i d Hi. split.
    + eapply mapM_ok_nth; eauto.
    + change (VInt 0) with (wrap_transform (VInt 0)) at 1. apply map_nth.
  - intros k y Hin. apply in_map_iff in Hin as ([k' x] & E & Hin). simpl in E. injection E as -> <-.
    exists x. split; [reflexivity|].
    destruct (kw_go_sources _ _ _ _ _ Hkws _ _ Hin) as [[]|Hs]. exact Hs.
Qed.

(* a written list of values is never turned into a transform, and its members are not wrapped *)
Lemma wrap_list l : wrap_transform (VList l) = VList l.
Proof. reflexivity. Qed.

(* ------------------------------------------------------------------------------------------------ *)
(* 5. C19 support: include expansion does not depend on the enumeration order of the mode set        *)
(* ------------------------------------------------------------------------------------------------ *)

Lemma sortZ_insert_perm x l : Permutation (x :: l) (sortZ_insert x l).
Proof.
  induction l as [|y l IH]; simpl; [apply Permutation_refl|].
  destruct (Z.leb x y); [apply Permutation_refl|].
  eapply Permutation_trans; [apply perm_swap|]. apply perm_skip. exact IH.
Qed.

Lemma sortZ_perm l : Permutation l (sortZ l).
Proof.
  induction l as [|x l IH]; simpl; [apply perm_nil|].
  eapply Permutation_trans; [apply perm_skip; exact IH|apply sortZ_insert_perm].
Qed.

Lemma sortZ_insert_sorted x l : StronglySorted Z.le l -> StronglySorted Z.le (sortZ_insert x l).
Proof.
  induction 1 as [|y l S IH F]; simpl.
  - constructor; constructor.
  - destruct (Z.leb x y) eqn:E.
    + apply Z.leb_le in E. constructor; [constructor; assumption|].
      constructor; [exact E|]. rewrite Forall_forall in *. intros z Hz. specialize (F z Hz). lia.
    + apply Z.leb_gt in E. constructor; [exact IH|].
      rewrite Forall_forall in *. intros z Hz.
      apply (Permutation_in _ (Permutation_sym (sortZ_insert_perm x l))) in Hz as [<-|Hz]; [lia|auto].
Qed.

Lemma sortZ_sorted l : StronglySorted Z.le (sortZ l).
Proof. induction l; simpl; [constructor|apply sortZ_insert_sorted; assumption]. Qed.

Lemma sorted_perm_eq : forall l1 l2,
  StronglySorted Z.le l1 -> StronglySorted Z.le l2 -> Permutation l1 l2 -> l1 = l2.
Proof.
  induction l1 as [|a l1 IH]; intros l2 S1 S2 P.
  - apply Permutation_nil in P. congruence.
  - destruct l2 as [|b l2]; [apply Permutation_sym, Permutation_nil in P; discriminate|].
    inversion S1 as [|? ? S1' F1]; subst. inversion S2 as [|? ? S2' F2]; subst.
    rewrite Forall_forall in F1, F2.
    assert (a = b) as ->.
    { assert (In a (b :: l2)) as Ha by (eapply Permutation_in; [exact P|left; reflexivity]).
      assert (In b (a :: l1)) as Hb by (eapply Permutation_in; [apply Permutation_sym; exact P|left; reflexivity]).
      destruct Ha as [->|Ha]; [reflexivity|]. destruct Hb as [->|Hb]; [reflexivity|].
      specialize (F1 _ Hb). specialize (F2 _ Ha). lia. }
    f_equal. apply IH; [assumption|assumption|]. eapply Permutation_cons_inv; eauto.
Qed.

Theorem sortZ_perm_eq l1 l2 : Permutation l1 l2 -> sortZ l1 = sortZ l2.
Proof.
  intros P. apply sorted_perm_eq; try apply sortZ_sorted.
  eapply Permutation_trans; [apply Permutation_sym, sortZ_perm|].
  eapply Permutation_trans; [exact P|apply sortZ_perm].
Qed.

(* sortZ computes the increasing enumeration of the set *)
Corollary sortZ_spec l : StronglySorted Z.le (sortZ l) /\ Permutation l (sortZ l).
Proof. split; [apply sortZ_sorted|apply sortZ_perm]. Qed.

Definition with_modes (p:prog) (ms:list Z) : prog :=
  mkprog (p_name p) (p_version p) (p_target p) (p_target_opts p) (p_type p) (p_type_opts p)
         (p_ops p) ms (p_params p) (p_vars p).

Lemma instantiate_ops_modes sg inc ms' :
  (do q <- instantiate sg inc; Ok (p_ops q)) = (do q <- instantiate sg (with_modes inc ms'); Ok (p_ops q)).
Proof.
  unfold instantiate, with_modes; simpl. destruct (p_params inc); [reflexivity|].
  destruct (mapM (inst_op sg) (p_ops inc)); simpl; try reflexivity.
  destruct (mapM _ (p_vars inc)); reflexivity.
Qed.

Theorem expand_include_modes_order inc ms' o :
  Permutation (p_modes inc) ms' -> expand_include inc o = expand_include (with_modes inc ms') o.
Proof.
  intros P. unfold expand_include.
  change (p_modes (with_modes inc ms')) with ms'. change (p_params (with_modes inc ms')) with (p_params inc).
  change (p_ops (with_modes inc ms')) with (p_ops inc).
  rewrite <- (sortZ_perm_eq _ _ P).
  destruct (negb (Nat.eqb (length (sortZ (p_modes inc))) (length (omodes o)))); [reflexivity|].
  f_equal.
  destruct (oargs o) as [[ps kws]|]; [|reflexivity].
  destruct (p_params inc) eqn:E; [reflexivity|].
  destruct (same_set (s :: l) (map fst kws)); [|reflexivity].
  destruct (mapM _ kws) as [sg| |]; simpl; try reflexivity.
  apply instantiate_ops_modes.
Qed.

(* ------------------------------------------------------------------------------------------------ *)
(* 6. Examples                                                                                       *)
(* ------------------------------------------------------------------------------------------------ *)
Module Examples.
Definition q0 : str := [113; 48]%N.
Definition q1 : str := [113; 49]%N.
Definition two := ENum NKInt [50%N].
Definition three := ENum NKInt [51%N].
(* q0 * 2 + q1 *)
Definition e1 := EAdd false (EMul false (EReg q0) two) (EReg q1).
Definition t1 := TAdd (TMul (TReg q0) (TDec 2 0)) (TReg q1).

Example ex_eval : eval [] [] e1 = Ok (VSym t1).
Proof. vm_compute. reflexivity. Qed.
Example ex_wrap : wrap_transform (VSym t1) = VTrf t1.
Proof. vm_compute. reflexivity. Qed.
Example ex_regs : expr_regs e1 = [q0; q1] /\ term_regs t1 = [q0; q1].
Proof. split; reflexivity. Qed.
Example ex_plain : eval [] [] (EMul false two three) = Ok (VInt 6) /\ wrap_transform (VInt 6) = VInt 6.
Proof. split; vm_compute; reflexivity. Qed.
(* a parameter alone is symbolic but no transform *)
Example ex_par : wrap_transform (VSym (TMul (TPar [97%N]) (TDec 2 0))) = VSym (TMul (TPar [97%N]) (TDec 2 0)).
Proof. reflexivity. Qed.

(* a toy arithmetic structure on Z (division and the elementary functions are dummies) *)
Definition zdec (m e:Z) : Z := (m * 10 ^ e)%Z.
Definition ztrf := trf_fun Z Z.add Z.mul Z.pow Z.opp (fun x => x) (fun _ x => x) zdec 3%Z 0%Z (fun _ => 0%Z) (fun _ => 0%Z).

(* the same measurement (q0 = 5, q1 = 7), the registers listed in either order *)
Example ex_fun_order1 : ztrf t1 [q0; q1] [5; 7]%Z = 17%Z.
Proof. vm_compute. reflexivity. Qed.
Example ex_fun_order2 : ztrf t1 [q1; q0] [7; 5]%Z = 17%Z.
Proof. vm_compute. reflexivity. Qed.

(* the hypotheses of transform_value are satisfiable: the theorem at the toy structure *)
Example transform_value_Z env pn e v t regs rho :
  eval env pn e = Ok v -> wrap_transform v = VTrf t ->
  (forall r, In r (term_regs t) -> In r regs) ->
  aden Z Z.add Z.mul Z.pow Z.opp (fun x => x) (fun _ x => x) zdec 3%Z 0%Z (fun _ => 0%Z) rho env e
  = Some (ztrf t regs (map rho regs)).
Proof.
  apply transform_value; unfold zdec; intros; rewrite ?Z.pow_0_r, ?Z.mul_1_r; lia.
Qed.

(* Gate(q0*2+q1, 2*3, phi=q0) | 0 : transform in positional and in keyword position, plain value kept *)
Definition stmt1 := mkstmt [71%N] (Some (mkargs [VE e1; VE (EMul false two three)] [([112%N], KV (VE (EReg q0)))]))
                           [ENum NKInt [48%N]].
Example ex_stmt :
  exists s', exec_stmt [] (mkst [] [] [] [] []) stmt1 = Ok s' /\
             s_ops s' = [mkop [71%N] (Some ([VTrf t1; VInt 6], [([112%N], VTrf (TReg q0))])) [0%Z]].
Proof. eexists; split; vm_compute; reflexivity. Qed.

Example ex_sort : sortZ [2; 0; 1]%Z = sortZ [1; 2; 0]%Z.
Proof. vm_compute. reflexivity. Qed.
End Examples.

Print Assumptions has_reg_iff.
Print Assumptions wrap_transform_spec.
Print Assumptions wrap_plain.
Print Assumptions eval_regs_complete.
Print Assumptions eval_regs_sound_env.
Print Assumptions eval_regs_strong.
Print Assumptions eval_regs.
Print Assumptions delivered_argument.
Print Assumptions tden_ext.
Print Assumptions assoc_val_realises.
Print Assumptions transform_pairing.
Print Assumptions transform_order_irrelevant.
Print Assumptions transform_pairs_order_irrelevant.
Print Assumptions transform_value.
Print Assumptions c08_argument.
Print Assumptions c08_plain_argument.
Print Assumptions exec_stmt_wraps.
Print Assumptions exec_stmt_args.
Print Assumptions sortZ_perm_eq.
Print Assumptions expand_include_modes_order.
Print Assumptions Examples.transform_value_Z.
