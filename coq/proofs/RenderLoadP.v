(* LOADING THE RENDERED SERIALISATION: the TEXT that the model serialiser writes (Serialize.ser_script, printed to
   tokens by Unparse.up_script and to code points by Render.render), loaded by the model's own [Loader.loads]
   (final-newline handling, lexer, parser, include resolution -- there are no includes --, evaluator), gives the
   program back whenever the loader answers [Ok].

     render_up_script_ends_nl   the last character written is a line feed (the last printed token is NEWLINE)
     ser_script_no_includes     ser_script p = Some sc -> sc_includes sc = []
     load_src_no_includes       front w = Ok sc -> sc_includes sc = [] -> load_src (S fuel) dir w = denote [] sc (paired with [])
     ser_text_loads             ... ser_script p = Some sc -> loads (render (up_script sc)) = Ok q -> q = reload p
     ser_text_loads_equiv       ... the same, concluding prog_equiv q p (over any arithmetic structure with the four laws
                                of SerializeP / RoundtripP)

   Every statement is fully proved (closed under the global context).
   NOT shown here: that [loads] does answer [Ok] on this text (the lexer fuel is the subject of LexTotalP; the parser
   fuel of [front] is not treated). *)
From Coq Require Import List NArith ZArith Bool Arith Lia.
Import ListNotations.
From BB Require Import Ebnf Chars Lexer EbnfP LexerP G4Data Syntax Parser Unparse Values Eval Loader Serialize SerializeP
  LayoutP SpaceP UnparseP RoundtripP Render RenderP.

(* ================================================================================================ *)
(* 1. The printed script ends with a NEWLINE token, the rendered text with a line feed               *)
(* ================================================================================================ *)
Definition ends_nl (l:list token) : Prop := exists u, l = u ++ [tNL].

Lemma ends_nl_one : ends_nl [tNL].
Proof. exists []. reflexivity. Qed.
Lemma ends_nl_app a b : ends_nl b -> ends_nl (a ++ b).
Proof. intros (u & ->). exists (a ++ u). rewrite app_assoc. reflexivity. Qed.
Lemma ends_nl_cons t b : ends_nl b -> ends_nl (t :: b).
Proof. intros H. exact (ends_nl_app [t] b H). Qed.
Lemma ends_nl_snoc a : ends_nl (a ++ [tNL]).
Proof. exists a. reflexivity. Qed.

Lemma ends_nl_flat_map {A} (f:A -> list token) l : (forall x, ends_nl (f x)) -> l <> [] -> ends_nl (flat_map f l).
Proof.
  intros Hf. induction l as [|x l IH]; intros Hne; [congruence|]. cbn [flat_map].
  destruct l as [|y l]. { cbn [flat_map]. rewrite app_nil_r. apply Hf. }
  apply ends_nl_app. apply IH. discriminate.
Qed.

Lemma up_row_ends_nl row : ends_nl (up_row row).
Proof. unfold up_row. apply ends_nl_cons. apply ends_nl_snoc. Qed.

Lemma up_item_ends_nl it : ends_nl (up_item it).
Proof.
  destruct it as [ty n init a b|ty n sh body a b|s|ty x h body]; cbn [up_item].
  - do 3 apply ends_nl_cons. apply ends_nl_snoc.
  - do 3 apply ends_nl_cons. apply ends_nl_app. apply ends_nl_cons.
    destruct body as [rows|p]; cbn [up_arrbody].
    + destruct rows as [|r rows]. { cbn [flat_map]. apply ends_nl_one. }
      apply ends_nl_cons. apply ends_nl_flat_map; [exact up_row_ends_nl|discriminate].
    + do 4 apply ends_nl_cons. apply ends_nl_one.
  - unfold up_stmt. apply ends_nl_snoc.
  - do 4 apply ends_nl_cons. apply ends_nl_app. apply ends_nl_snoc.
Qed.

Lemma up_include_ends_nl s : ends_nl (up_include s).
Proof. unfold up_include. do 2 apply ends_nl_cons. apply ends_nl_one. Qed.

Lemma up_script_ends_nl sc : ends_nl (up_script sc).
Proof.
  unfold up_script. do 5 apply ends_nl_cons. do 2 apply ends_nl_app.
  destruct (sc_items sc) as [|it its] eqn:Ei.
  - unfold up_items. cbn [flat_map]. rewrite app_nil_r.
    destruct (sc_includes sc) as [|i incs]. { cbn [flat_map]. apply ends_nl_one. }
    apply ends_nl_cons. apply ends_nl_flat_map; [exact up_include_ends_nl|discriminate].
  - apply ends_nl_cons. apply ends_nl_app. unfold up_items.
    apply ends_nl_flat_map; [exact up_item_ends_nl|discriminate].
Qed.

Lemma render_app a b : render (a ++ b) = render a ++ render b.
Proof. unfold render. apply flat_map_app. Qed.

(* the last token printed is NEWLINE: the text ends with a line feed *)
Lemma render_up_script_ends_nl sc : exists u, render (up_script sc) = u ++ [10%N].
Proof.
  destruct (up_script_ends_nl sc) as (ts & E). exists (render ts). rewrite E, render_app. reflexivity.
Qed.

(* so [loads]/[load] add nothing to it *)
Lemma render_up_script_final_newline sc : with_final_newline (render (up_script sc)) = render (up_script sc).
Proof.
  destruct (render_up_script_ends_nl sc) as (u & ->). apply with_final_newline_keeps. left. reflexivity.
Qed.

(* ================================================================================================ *)
(* 2. The serialiser writes no include lines                                                         *)
(* ================================================================================================ *)
Lemma ser_script_no_includes p sc : ser_script p = Some sc -> sc_includes sc = [].
Proof.
  unfold ser_script. cbv zeta.
  destruct (ser_meta (p_target p) (p_target_opts p)) as [tg|]; [|discriminate].
  destruct (ser_meta (p_type p) (p_type_opts p)) as [ty|]; [|discriminate].
  destruct (if is_tdm (p_type p) then omap (decl_item false) (p_vars p) else Some []) as [vb|]; [|discriminate].
  destruct (ser_ops (is_tdm (p_type p)) (p_ops p) 0) as [[[sts k] decls]|]; [|discriminate].
  intros [= <-]. reflexivity.
Qed.

(* ================================================================================================ *)
(* 3. Loading a text without include lines: front end, then the evaluator                             *)
(* ================================================================================================ *)
Lemma load_src_no_includes lg lrules fs cwd fuel dir w sc :
  front lg lrules w = Ok sc -> sc_includes sc = [] ->
  load_src lg lrules fs cwd (S fuel) dir w = (do p <- denote [] sc; Ok (p, [])).
Proof.
  intros F I. cbn [load_src]. rewrite F. cbn [bind]. rewrite I. cbn [bind map]. reflexivity.
Qed.

Lemma erase_script_includes sc : sc_includes (LayoutP.erase_script sc) = sc_includes sc.
Proof. reflexivity. Qed.

(* ================================================================================================ *)
(* 4. The text the serialiser writes loads back as [reload p]                                        *)
(* ================================================================================================ *)
Theorem ser_text_loads p sc fs cwd q :
  wf_prog p -> strings_ok p -> modes_ok p -> names_ok p = true -> ser_script p = Some sc ->
  loads lex_g lex_rules fs cwd (render (up_script sc)) = Ok q ->
  q = reload p.
Proof.
  intros W S M Nm E H. unfold loads in H. rewrite render_up_script_final_newline in H.
  destruct (front lex_g lex_rules (render (up_script sc))) as [sc'| |] eqn:F.
  - pose proof (ser_text_roundtrip p sc sc' W S M Nm E F) as R.
    assert (I : sc_includes sc' = []).
    { rewrite <- erase_script_includes, R. exact (ser_script_no_includes p sc E). }
    rewrite (load_src_no_includes _ _ fs cwd 15 cwd _ sc' F I) in H.
    assert (B : LayoutP.erase_script sc' = LayoutP.erase_script sc).
    { rewrite R. rewrite <- erase_script_eq. symmetry. exact (ser_script_erased p sc E). }
    pose proof (LayoutP.denote_position_blind [] sc' sc B) as D.
    rewrite (ser_denote p sc W E) in D. cbn [LayoutP.erase_outcome] in D.
    destruct (denote [] sc') as [p'| |]; cbn [LayoutP.erase_outcome] in D; try discriminate D.
    injection D as ->. cbn [bind fst] in H. injection H as <-. reflexivity.
  - cbn [load_src bind] in H. rewrite F in H. cbn [bind] in H. discriminate H.
  - cbn [load_src bind] in H. rewrite F in H. cbn [bind] in H. discriminate H.
Qed.

(* hence the loaded program is the serialised one up to the value of symbolic terms, over any arithmetic structure
   that satisfies the four laws used by SerializeP *)
Section Equiv.
Variable K : Type.
Variables kadd kmul kpow : K -> K -> K.
Variables kneg kinv : K -> K.
Variable kfn : fn -> K -> K.
Variable kdec : Z -> Z -> K.
Variables kpi ki : K.
Variables rho_par rho_reg : str -> K.
Hypothesis Hnegdec : forall m e, kneg (kdec m e) = kdec (- m) e.
Hypothesis Hone : forall x, kmul (kdec 1 0) x = x.
Hypothesis Hzero_i : kadd (kdec 0 0) ki = ki.
Hypothesis Hzero_c : forall x, kadd x (kadd (kdec 0 0) (kmul (kdec 0 0) ki)) = x.

Local Notation peq := (prog_equiv K kadd kmul kpow kneg kinv kfn kdec kpi ki rho_par rho_reg).

Corollary ser_text_loads_equiv p sc fs cwd q :
  wf_prog p -> strings_ok p -> modes_ok p -> names_ok p = true -> ser_script p = Some sc ->
  loads lex_g lex_rules fs cwd (render (up_script sc)) = Ok q ->
  peq q p.
Proof.
  intros W S M Nm E H. rewrite (ser_text_loads p sc fs cwd q W S M Nm E H).
  apply (reload_equiv K kadd kmul kpow kneg kinv kfn kdec kpi ki rho_par rho_reg Hnegdec Hone Hzero_i Hzero_c p W).
Qed.
End Equiv.

Print Assumptions render_up_script_ends_nl.
Print Assumptions ser_script_no_includes.
Print Assumptions load_src_no_includes.
Print Assumptions ser_text_loads.
Print Assumptions ser_text_loads_equiv.
