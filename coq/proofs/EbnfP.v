From Coq Require Import List Arith Bool Lia.
Import ListNotations.
From BB Require Import Ebnf.

Section P.
Variables (sym T : Type).
Variable tm : T -> sym -> bool.
Variable g : nat -> ebnf T.
Variable w : list sym.
Variable K : nat.

Notation M := (M sym T tm g w).
Notation ends := (ends sym T tm g w K).
Notation recognise := (recognise sym T tm g w K).

Lemma mem_In x l : mem x l = true <-> In x l.
Proof. unfold mem. rewrite existsb_exists. split; [intros (y&?&E); apply Nat.eqb_eq in E; subst; auto|intros; exists x; split; auto; apply Nat.eqb_refl]. Qed.

Lemma bindl_in f l r y : bindl f l = Some r -> In y r <-> exists x ys, In x l /\ f x = Some ys /\ In y ys.
Proof.
  revert r; induction l as [|x l IH]; simpl; intros r H.
  - inversion H; subst. split; [intros []|intros (x&ys&[]&_)].
  - destruct (f x) as [a|] eqn:Hx; [|discriminate]. destruct (bindl f l) as [b|] eqn:Hb; [|discriminate].
    inversion H; subst. rewrite in_app_iff. split.
    + intros [Hy|Hy]. { exists x, a; auto. } apply (IH b eq_refl) in Hy. destruct Hy as (x1&ys&H1&H2&H3). exists x1, ys; auto.
    + intros (x1&ys&Hin&Hf&Hy). destruct Hin as [->|Hin]. { left; congruence. } right. apply (IH b eq_refl). exists x1, ys; auto.
Qed.
Lemma bindl_some f l r x : bindl f l = Some r -> In x l -> exists ys, f x = Some ys.
Proof.
  revert r; induction l as [|x1 l IH]; simpl; intros r H Hin; [destruct Hin|].
  destruct (f x1) as [a|] eqn:Hf; [|discriminate]. destruct (bindl f l) as [b|] eqn:Hb; [|discriminate].
  destruct Hin as [->|Hin]; eauto.
Qed.

Lemma closure_S k step todo seen : closure (S k) step todo seen =
    match todo with
    | [] => Some seen
    | p :: todo' =>
        if mem p seen then closure k step todo' seen
        else match step p with
             | None => None
             | Some l => closure k step (filter (fun q => Nat.ltb p q) l ++ todo') (p :: seen)
             end
    end.
Proof. reflexivity. Qed.
Local Arguments closure : simpl never.

Lemma closure_sound step (P : nat -> Prop) :
  (forall p l q, P p -> step p = Some l -> In q l -> p < q -> P q) ->
  forall k todo seen R, (forall x, In x todo -> P x) -> (forall x, In x seen -> P x) ->
  closure k step todo seen = Some R -> forall x, In x R -> P x.
Proof.
  intros Hstep. induction k as [|k IH]; intros todo seen R Ht Hs H; [discriminate|]. rewrite closure_S in H.
  destruct todo as [|p todo]. { inversion H; subst; auto. }
  destruct (mem p seen) eqn:Hm.
  - eapply IH; [| |exact H]; auto. intros; apply Ht; right; auto.
  - destruct (step p) as [l|] eqn:Hp; [|discriminate]. eapply IH; [| |exact H].
    + intros x Hx. apply in_app_iff in Hx. destruct Hx as [Hx|Hx]; [|apply Ht; right; auto].
      apply filter_In in Hx. destruct Hx as (Hx&Hlt). apply Nat.ltb_lt in Hlt.
      eapply Hstep; eauto. apply Ht; left; auto.
    + intros x [<-|Hx]; auto. apply Ht; left; auto.
Qed.

Lemma closure_closed step : forall k todo seen R, closure k step todo seen = Some R ->
  (forall x, In x seen -> In x R) /\ (forall x, In x todo -> In x R) /\
  (forall p, In p R -> In p seen \/ exists l, step p = Some l /\ forall q, In q l -> p < q -> In q R).
Proof.
  induction k as [|k IH]; intros todo seen R H; [discriminate|]. rewrite closure_S in H.
  destruct todo as [|p todo]. { inversion H; subst. repeat split; auto. intros x []. }
  destruct (mem p seen) eqn:Hm.
  - destruct (IH _ _ _ H) as (A&B&C). repeat split; auto.
    intros x [<-|Hx]; auto. apply A. apply mem_In; auto.
  - destruct (step p) as [l|] eqn:Hp; [|discriminate]. destruct (IH _ _ _ H) as (A&B&C). repeat split.
    + intros x Hx. apply A. right; auto.
    + intros x [<-|Hx]. { apply A; left; auto. } apply B. apply in_app_iff; right; auto.
    + intros q Hq. destruct (C q Hq) as [[<-|Hs]|Hex]; auto.
      right. exists l. split; auto. intros q' Hq' Hlt. apply B. apply in_app_iff; left.
      apply filter_In; split; auto. apply Nat.ltb_lt; auto.
Qed.

Theorem ends_sound : forall f e i L, ends f e i = Some L -> forall j, In j L -> M e i j.
Proof.
  induction f as [|f IH]; intros e i L H j Hin; [discriminate|]. destruct e; simpl in H.
  - destruct (nth_error w i) as [x|] eqn:E; [|inversion H; subst; destruct Hin].
    destruct (tm t x) eqn:Ex; inversion H; subst; [|destruct Hin].
    destruct Hin as [<-|[]]. econstructor; eauto.
  - constructor. eapply IH; eauto.
  - inversion H; subst. destruct Hin as [<-|[]]. constructor.
  - destruct (ends f e1 i) as [l|] eqn:E1; [|discriminate].
    apply (bindl_in _ _ _ j H) in Hin. destruct Hin as (k&ys&Hk&Hf&Hy). apply nodup_In in Hk.
    econstructor; eapply IH; eauto.
  - destruct (ends f e1 i) as [l1|] eqn:E1; [|discriminate]. destruct (ends f e2 i) as [l2|] eqn:E2; [|discriminate].
    inversion H; subst. apply in_app_iff in Hin. destruct Hin; [apply MAltL|apply MAltR]; eapply IH; eauto.
  - assert (HP: forall x, In x L -> forall j', M (Star e) x j' -> M (Star e) i j').
    { eapply (closure_sound (ends f e) (fun p => forall j', M (Star e) p j' -> M (Star e) i j')); [ | | |exact H].
      - intros p l q Hp Hs Hq Hlt j' Hj'. apply Hp. eapply MStarS; [exact Hlt| |exact Hj']. eapply IH; eauto.
      - intros x [<-|[]]; auto.
      - intros x []. }
    apply (HP j Hin). constructor.
Qed.

Definition Closed (f:nat) (a:ebnf T) (R:list nat) : Prop :=
  forall p, In p R -> exists l, ends f a p = Some l /\ forall q, In q l -> p < q -> In q R.

Lemma complete_gen : forall e i j, M e i j ->
  (forall f L, ends f e i = Some L -> In j L) /\
  (forall a, e = Star a -> forall f R, Closed f a R -> In i R -> In j R).
Proof.
  induction 1; (split; [intros f L HL; (destruct f as [|f]; [discriminate|]); simpl in HL | intros a0 Ea f R HC Hi; try discriminate]).
  - rewrite H, H0 in HL. inversion HL; subst; simpl; auto.
  - destruct IHM as (I1&_). eapply I1; eauto.
  - inversion HL; subst; simpl; auto.
  - destruct IHM1 as (I1&_). destruct IHM2 as (I2&_).
    destruct (ends f a i) as [l|] eqn:E1; [|discriminate].
    pose proof (I1 _ _ E1) as Hk. apply (nodup_In Nat.eq_dec) in Hk.
    destruct (bindl_some _ _ _ _ HL Hk) as (ys&Hys).
    apply (bindl_in _ _ _ j HL). exists k, ys. repeat split; auto. eapply I2; eauto.
  - destruct IHM as (I1&_).
    destruct (ends f a i) as [l1|] eqn:E1; [|discriminate]. destruct (ends f b i) as [l2|] eqn:E2; [|discriminate].
    inversion HL; subst. apply in_app_iff; left. eapply I1; eauto.
  - destruct IHM as (I1&_).
    destruct (ends f a i) as [l1|] eqn:E1; [|discriminate]. destruct (ends f b i) as [l2|] eqn:E2; [|discriminate].
    inversion HL; subst. apply in_app_iff; right. eapply I1; eauto.
  - destruct (closure_closed _ _ _ _ _ HL) as (_&B&_). apply B; left; auto.
  - exact Hi.
  - destruct IHM2 as (_&I2). destruct IHM1 as (I1&_).
    destruct (closure_closed _ _ _ _ _ HL) as (_&B&C).
    assert (HCl : Closed f a L).
    { intros p Hp. destruct (C p Hp) as [[]|Hex]. exact Hex. }
    assert (Hi : In i L) by (apply B; left; auto).
    destruct (HCl i Hi) as (l&Hl&Hcl). apply (I2 a eq_refl f L HCl). apply Hcl; auto. eapply I1; eauto.
  - inversion Ea; subst a0. destruct IHM2 as (_&I2). destruct IHM1 as (I1&_).
    destruct (HC i Hi) as (l&Hl&Hcl). apply (I2 a eq_refl f R HC). apply Hcl; auto. eapply I1; eauto.
Qed.

Theorem ends_complete e i j f L : M e i j -> ends f e i = Some L -> In j L.
Proof. intros HM. apply (complete_gen e i j HM). Qed.

Theorem recognise_correct f e b : recognise f e = Some b -> (b = true <-> M e 0 (length w)).
Proof.
  unfold Ebnf.recognise. destruct (ends f e 0) as [L|] eqn:E; [|discriminate]. intros [= <-]. rewrite mem_In. split.
  - eapply ends_sound; eauto.
  - intros; eapply ends_complete; eauto.
Qed.

(* M only moves forward and stays inside the word *)
Lemma M_le e i j : M e i j -> i <= j.
Proof. induction 1; lia. Qed.
Lemma M_bound e i j : M e i j -> i <= length w -> j <= length w.
Proof.
  induction 1 as [t i x Hx _| | | | | | |]; intros Hi; auto; try lia.
  assert (i < length w) by (apply nth_error_Some; congruence). lia.
Qed.
End P.
