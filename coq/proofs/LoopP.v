(* C06: for-loops.
   "A for-loop yields the same operations as writing its body once per value, in order, with the loop
    variable bound to that value converted to the declared type; a range a:b:c denotes a, a+c, ... below b
    and an empty range contributes nothing.  Statements after the loop are unaffected, the loop variable is
    not visible after the loop, and a listed value that is not of the loop type is refused."

   Everything is stated against BB.Eval (exec_item, case IFor) without changing any definition there. *)
From Coq Require Import List NArith ZArith Bool Arith Lia.
Import ListNotations.
From BB Require Import Syntax Values Eval.

(* ------------------------------------------------------------------------------------------------ *)
(* 0. generic facts: strings, dictionaries, bind, mapM                                               *)
(* ------------------------------------------------------------------------------------------------ *)

Lemma str_eqb_refl (a:str) : str_eqb a a = true.
Proof. induction a as [|x a IH]; cbn; [reflexivity|]. rewrite N.eqb_refl. exact IH. Qed.

Lemma str_eqb_eq (a b:str) : str_eqb a b = true <-> a = b.
Proof.
  revert b; induction a as [|x a IH]; destruct b as [|y b]; cbn; split; intro H;
    try reflexivity; try discriminate.
  - apply andb_prop in H. destruct H as [H1 H2]. apply N.eqb_eq in H1. apply IH in H2. subst; reflexivity.
  - inversion H; subst. rewrite N.eqb_refl. cbn. apply str_eqb_refl.
Qed.

Lemma str_eqb_neq (a b:str) : str_eqb a b = false <-> a <> b.
Proof.
  split; intro H.
  - intro E. apply str_eqb_eq in E. congruence.
  - destruct (str_eqb a b) eqn:E; [|reflexivity]. apply str_eqb_eq in E. contradiction.
Qed.

Lemma str_eqb_spec (a b:str) : reflect (a = b) (str_eqb a b).
Proof.
  destruct (str_eqb a b) eqn:E; constructor.
  - apply str_eqb_eq; exact E.
  - apply str_eqb_neq; exact E.
Qed.

Lemma str_eqb_sym (a b:str) : str_eqb a b = str_eqb b a.
Proof.
  destruct (str_eqb_spec a b) as [E|E]; symmetry.
  - apply str_eqb_eq; congruence.
  - apply str_eqb_neq; congruence.
Qed.

Section Dict.
Context {A:Type}.
Implicit Types (env:list (str * A)) (v:A).

Lemma lookup_set_same x v env : lookup x (dict_set x v env) = Some v.
Proof.
  induction env as [|[k w] env IH]; cbn.
  - rewrite str_eqb_refl; reflexivity.
  - destruct (str_eqb x k) eqn:E; cbn.
    + rewrite str_eqb_refl. reflexivity.
    + rewrite E. exact IH.
Qed.

Lemma lookup_set_other x y v env : str_eqb y x = false -> lookup y (dict_set x v env) = lookup y env.
Proof.
  intros H. induction env as [|[k w] env IH]; cbn.
  - rewrite H. reflexivity.
  - destruct (str_eqb x k) eqn:E; cbn.
    + apply str_eqb_eq in E; subst k. rewrite H. reflexivity.
    + destruct (str_eqb y k); [reflexivity | exact IH].
Qed.

Lemma dict_set_set x v1 v2 env : dict_set x v2 (dict_set x v1 env) = dict_set x v2 env.
Proof.
  induction env as [|[k w] env IH]; cbn.
  - rewrite str_eqb_refl. reflexivity.
  - destruct (str_eqb x k) eqn:E; cbn.
    + rewrite str_eqb_refl. reflexivity.
    + rewrite E, IH. reflexivity.
Qed.

Lemma dict_del_set x v env : lookup x env = None -> dict_del x (dict_set x v env) = env.
Proof.
  induction env as [|[k w] env IH]; cbn; intros H.
  - rewrite str_eqb_refl. reflexivity.
  - destruct (str_eqb x k) eqn:E; [discriminate|]. cbn. rewrite E. f_equal. apply IH, H.
Qed.

Lemma dict_del_none x env : lookup x env = None -> dict_del x env = env.
Proof.
  induction env as [|[k w] env IH]; cbn; intros H; [reflexivity|].
  destruct (str_eqb x k) eqn:E; [discriminate|]. f_equal. apply IH, H.
Qed.

Lemma lookup_del_same x env : lookup x env = None -> lookup x (dict_del x env) = None.
Proof. intros H. rewrite dict_del_none by exact H. exact H. Qed.
End Dict.

Lemma bind_ok_inv {A B} (o:outcome A) (f:A -> outcome B) b :
  bind o f = Ok b -> exists a, o = Ok a /\ f a = Ok b.
Proof. destruct o; cbn; intros H; try discriminate. eauto. Qed.

Lemma bind_refuse_inv {A B} (o:outcome A) (f:A -> outcome B) c :
  bind o f = Refuse c -> o = Refuse c \/ exists a, o = Ok a /\ f a = Refuse c.
Proof. destruct o; cbn; intros H; try discriminate; [right; eauto | left; congruence]. Qed.

Lemma bind_assoc {A B C} (o:outcome A) (f:A -> outcome B) (g:B -> outcome C) :
  bind (bind o f) g = bind o (fun a => bind (f a) g).
Proof. destruct o; reflexivity. Qed.

Lemma bind_ext {A B} (o:outcome A) (f g:A -> outcome B) :
  (forall a, o = Ok a -> f a = g a) -> bind o f = bind o g.
Proof. destruct o; cbn; intros H; auto. Qed.

Lemma mapM_ext {A B} (f g:A -> outcome B) l :
  (forall a, In a l -> f a = g a) -> mapM f l = mapM g l.
Proof.
  induction l as [|a l IH]; cbn [mapM]; intros H; [reflexivity|].
  rewrite (H a) by (left; reflexivity). rewrite IH by (intros; apply H; right; assumption). reflexivity.
Qed.

Lemma mapM_map {A B C} (f:B -> outcome C) (h:A -> B) l :
  mapM f (map h l) = mapM (fun a => f (h a)) l.
Proof. induction l as [|a l IH]; cbn [mapM map]; [reflexivity|]. rewrite IH. reflexivity. Qed.

Lemma mapM_ok_map {A B} (h:A -> B) l : mapM (fun a => Ok (h a)) l = Ok (map h l).
Proof. induction l as [|a l IH]; cbn [mapM map]; [reflexivity|]. rewrite IH. reflexivity. Qed.

Lemma flat_map_map_eq {A B C} (f:B -> list C) (g:A -> B) (f':A -> list C) l :
  (forall a, In a l -> f (g a) = f' a) -> flat_map f (map g l) = flat_map f' l.
Proof.
  induction l as [|a l IH]; cbn [flat_map map]; intros H; [reflexivity|].
  rewrite (H a) by (left; reflexivity). rewrite IH by (intros; apply H; right; assumption). reflexivity.
Qed.

(* ------------------------------------------------------------------------------------------------ *)
(* 1. ranges                                                                                         *)
(* ------------------------------------------------------------------------------------------------ *)
Section Range.
Local Open Scope Z_scope.

Lemma range_list_length n : forall a c, length (range_list n a c) = n.
Proof. induction n; intros; cbn [range_list length]; [reflexivity|]. rewrite IHn. reflexivity. Qed.

Lemma range_list_map n : forall a c,
  range_list n a c = map (fun k => a + Z.of_nat k * c) (seq 0 n).
Proof.
  induction n as [|n IH]; intros a c; cbn [range_list seq map]; [reflexivity|].
  rewrite IH. rewrite <- seq_shift, map_map. f_equal; [lia|].
  apply map_ext. intros k. rewrite Nat2Z.inj_succ. lia.
Qed.

Lemma range_list_in n a c z :
  In z (range_list n a c) <-> exists k, (k < n)%nat /\ z = a + Z.of_nat k * c.
Proof.
  rewrite range_list_map, in_map_iff. split.
  - intros [k [E H]]. apply in_seq in H. exists k. split; [lia | congruence].
  - intros [k [H E]]. exists k. split; [congruence | apply in_seq; lia].
Qed.

(* the count used by range_values: the least n with n*c >= d *)
Lemma ceil_div_spec d c n : 0 < c -> 0 < d -> n = (d + c - 1) / c ->
  0 <= n /\ (forall k, 0 <= k < n -> k * c < d) /\ d <= n * c.
Proof.
  intros Hc Hd ->.
  pose proof (Z.mul_div_le (d + c - 1) c Hc) as H1.
  pose proof (Z.mul_succ_div_gt (d + c - 1) c Hc) as H2.
  assert (H0: 0 <= (d + c - 1) / c) by (apply Z.div_pos; lia).
  remember ((d + c - 1) / c) as n eqn:En. clear En.
  split; [exact H0|]. split.
  - intros k Hk. assert (k * c <= (n - 1) * c) by (apply Z.mul_le_mono_nonneg_r; lia). lia.
  - lia.
Qed.

Lemma range_values_ok_inv a b c l : range_values a b c = Ok l ->
  c <> 0 /\
  exists cnt, l = range_list (Z.to_nat cnt) a c /\
    cnt = (if 0 <? c then (if a <? b then (b - a + c - 1) / c else 0)
           else (if b <? a then (a - b - c - 1) / (- c) else 0)).
Proof.
  unfold range_values. destruct (Z.eqb_spec c 0) as [E|E]; [discriminate|].
  intros H. split; [exact E|].
  match type of H with (if ?t <=? _ then _ else _) = _ => exists t; destruct (t <=? 100000) end;
    [|discriminate].
  inversion H; subst. split; reflexivity.
Qed.

(* increasing range: exactly a, a+c, a+2c, ... strictly below b; the next one is not below b *)
Theorem range_sem a b c l : range_values a b c = Ok l -> 0 < c ->
  l = map (fun k => a + Z.of_nat k * c) (seq 0 (length l)) /\
  (forall z, In z l -> a <= z < b) /\
  b <= a + Z.of_nat (length l) * c.
Proof.
  intros H Hc. apply range_values_ok_inv in H. destruct H as [_ [cnt [-> Hcnt]]].
  rewrite range_list_length. split; [apply range_list_map|].
  destruct (Z.ltb_spec 0 c) as [_|?]; [|lia].
  destruct (Z.ltb_spec a b) as [Hab|Hab].
  - destruct (ceil_div_spec (b - a) c cnt Hc ltac:(lia) Hcnt) as [H0 [H1 H2]].
    rewrite Z2Nat.id by exact H0. split; [|lia].
    intros z Hz. apply range_list_in in Hz. destruct Hz as [k [Hk ->]].
    assert (0 <= Z.of_nat k < cnt) by lia.
    specialize (H1 _ H). assert (0 <= Z.of_nat k * c) by (apply Z.mul_nonneg_nonneg; lia). lia.
  - subst cnt. cbn. split; [intros z []|lia].
Qed.

(* membership form: the values of an increasing range are the a + k*c (k >= 0) below b *)
Corollary range_sem_in a b c l z : range_values a b c = Ok l -> 0 < c ->
  (In z l <-> exists k, 0 <= k /\ z = a + k * c /\ z < b).
Proof.
  intros H Hc. destruct (range_sem _ _ _ _ H Hc) as [Hl [Hin Hnext]]. split.
  - intros Hz. destruct (Hin _ Hz) as [_ Hb]. rewrite Hl in Hz. apply in_map_iff in Hz.
    destruct Hz as [k [E _]]. exists (Z.of_nat k). split; [lia|]. split; [congruence|exact Hb].
  - intros [k [Hk [-> Hb]]]. rewrite Hl. apply in_map_iff. exists (Z.to_nat k).
    rewrite Z2Nat.id by exact Hk. split; [reflexivity|]. apply in_seq.
    assert (k < Z.of_nat (length l)); [|lia].
    destruct (Z.lt_ge_cases k (Z.of_nat (length l))) as [?|Hge]; [assumption|].
    assert (Z.of_nat (length l) * c <= k * c) by (apply Z.mul_le_mono_nonneg_r; lia). lia.
Qed.

(* decreasing range: exactly a, a+c, a+2c, ... strictly above b; the next one is not above b *)
Theorem range_sem_neg a b c l : range_values a b c = Ok l -> c < 0 ->
  l = map (fun k => a + Z.of_nat k * c) (seq 0 (length l)) /\
  (forall z, In z l -> b < z <= a) /\
  a + Z.of_nat (length l) * c <= b.
Proof.
  intros H Hc. apply range_values_ok_inv in H. destruct H as [_ [cnt [-> Hcnt]]].
  rewrite range_list_length. split; [apply range_list_map|].
  destruct (Z.ltb_spec 0 c) as [?|_]; [lia|].
  destruct (Z.ltb_spec b a) as [Hab|Hab].
  - replace (a - b - c - 1) with ((a - b) + (- c) - 1) in Hcnt by lia.
    destruct (ceil_div_spec (a - b) (- c) cnt ltac:(lia) ltac:(lia) Hcnt) as [H0 [H1 H2]].
    rewrite Z2Nat.id by exact H0. split; [|lia].
    intros z Hz. apply range_list_in in Hz. destruct Hz as [k [Hk ->]].
    assert (0 <= Z.of_nat k < cnt) by lia.
    specialize (H1 _ H). assert (0 <= Z.of_nat k * (- c)) by (apply Z.mul_nonneg_nonneg; lia). lia.
  - subst cnt. cbn. split; [intros z []|lia].
Qed.

Theorem range_zero_refused a b : range_values a b 0 = Refuse ERange.
Proof. reflexivity. Qed.

Theorem empty_range_nil a b c : b <= a -> 0 < c -> range_values a b c = Ok [].
Proof.
  intros Hab Hc. unfold range_values.
  destruct (Z.eqb_spec c 0); [lia|]. destruct (Z.ltb_spec 0 c); [|lia].
  destruct (Z.ltb_spec a b); [lia|]. reflexivity.
Qed.

Theorem empty_range_nil_neg a b c : a <= b -> c < 0 -> range_values a b c = Ok [].
Proof.
  intros Hab Hc. unfold range_values.
  destruct (Z.eqb_spec c 0); [lia|]. destruct (Z.ltb_spec 0 c); [lia|].
  destruct (Z.ltb_spec b a); [lia|]. reflexivity.
Qed.

(* conversely a non-empty increasing range starts at a *)
Lemma range_nonempty_head a b c l : range_values a b c = Ok l -> 0 < c -> a < b -> exists l', l = a :: l'.
Proof.
  intros H Hc Hab. destruct (range_sem _ _ _ _ H Hc) as [Hl [_ Hn]].
  destruct l as [|z l']; [cbn in Hn; lia|].
  rewrite Hl. cbn [length seq map]. exists (map (fun k => a + Z.of_nat k * c) (seq 1 (length l'))).
  f_equal. lia.
Qed.
End Range.

(* ------------------------------------------------------------------------------------------------ *)
(* 2. substitution of the loop variable                                                              *)
(* ------------------------------------------------------------------------------------------------ *)

(* every use  x  of the loop variable as a variable becomes  ( r ) ; array names are left alone *)
Fixpoint subst_expr (x:str) (r:expr) (e:expr) : expr :=
  match e with
  | EVar y _ _ => if str_eqb y x then EBr r else e
  | EIdx y l c ie => EIdx y l c (subst_expr x r ie)
  | EBr a => EBr (subst_expr x r a)
  | ESign b a => ESign b (subst_expr x r a)
  | EPow a b => EPow (subst_expr x r a) (subst_expr x r b)
  | EMul d a b => EMul d (subst_expr x r a) (subst_expr x r b)
  | EAdd s a b => EAdd s (subst_expr x r a) (subst_expr x r b)
  | EFun f a => EFun f (subst_expr x r a)
  | ENum _ _ | EReg _ | EPar _ => e
  end.

Definition subst_val (x:str) (r:expr) (v:val) : val :=
  match v with VE e => VE (subst_expr x r e) | _ => v end.
Definition subst_kwval (x:str) (r:expr) (k:kwval) : kwval :=
  match k with KV v => KV (subst_val x r v) | KL l => KL (map (subst_val x r) l) end.
Definition subst_args (x:str) (r:expr) (a:arguments) : arguments :=
  mkargs (map (subst_val x r) (apos a)) (map (fun kv => (fst kv, subst_kwval x r (snd kv))) (akw a)).
Definition subst_stmt (x:str) (r:expr) (t:stmt) : stmt :=
  mkstmt (sop t) (option_map (subst_args x r) (sargs t)) (map (subst_expr x r) (smodes t)).

(* x is not used as an array name  x[...] *)
Fixpoint no_idx (x:str) (e:expr) : bool :=
  match e with
  | EIdx y _ _ ie => negb (str_eqb y x) && no_idx x ie
  | EBr a | ESign _ a | EFun _ a => no_idx x a
  | EPow a b | EMul _ a b | EAdd _ a b => no_idx x a && no_idx x b
  | ENum _ _ | EVar _ _ _ | EReg _ | EPar _ => true
  end.
Definition no_idx_val (x:str) (v:val) : bool := match v with VE e => no_idx x e | _ => true end.
Definition no_idx_kwval (x:str) (k:kwval) : bool :=
  match k with KV v => no_idx_val x v | KL l => forallb (no_idx_val x) l end.
Definition no_idx_args (x:str) (a:arguments) : bool :=
  forallb (no_idx_val x) (apos a) && forallb (fun kv => no_idx_kwval x (snd kv)) (akw a).
Definition no_idx_stmt (x:str) (t:stmt) : bool :=
  forallb (no_idx x) (smodes t) && match sargs t with Some a => no_idx_args x a | None => true end.

Section Subst.
Variables (env:list (str * value)) (pn:list str) (x:str) (r:expr) (v:value).
Hypothesis Hr : eval env pn r = Ok v.
Hypothesis Hpn : mem_str x pn = false.

Let env' := dict_set x v env.

Theorem eval_subst e : no_idx x e = true -> eval env' pn e = eval env pn (subst_expr x r e).
Proof.
  induction e as [k text|y l c|text|y l c ie IH|p|a IH|neg a IH|a IHa b IHb|d a IHa b IHb|s a IHa b IHb|f a IH];
    cbn [no_idx subst_expr]; intros Hn.
  - reflexivity.
  - destruct (str_eqb y x) eqn:E.
    + apply str_eqb_eq in E; subst y. cbn [eval]. unfold env'. rewrite lookup_set_same, Hpn. symmetry; exact Hr.
    + cbn [eval]. unfold env'. rewrite lookup_set_other by exact E. reflexivity.
  - reflexivity.
  - apply andb_prop in Hn. destruct Hn as [Hy Hie]. apply negb_true_iff in Hy.
    cbn [eval]. rewrite (IH Hie). unfold env'. rewrite lookup_set_other by exact Hy. reflexivity.
  - reflexivity.
  - cbn [eval]. exact (IH Hn).
  - destruct neg; cbn [eval]; rewrite (IH Hn); reflexivity.
  - apply andb_prop in Hn. destruct Hn as [Ha Hb]. cbn [eval]. rewrite (IHa Ha), (IHb Hb). reflexivity.
  - apply andb_prop in Hn. destruct Hn as [Ha Hb]. destruct d; cbn [eval]; rewrite (IHa Ha), (IHb Hb); reflexivity.
  - apply andb_prop in Hn. destruct Hn as [Ha Hb]. cbn [eval]. rewrite (IHa Ha), (IHb Hb). reflexivity.
  - cbn [eval]. rewrite (IH Hn). reflexivity.
Qed.

Lemma eval_val_subst w : no_idx_val x w = true -> eval_val env' pn w = eval_val env pn (subst_val x r w).
Proof. destruct w; cbn [no_idx_val subst_val eval_val]; intros H; [apply eval_subst; exact H| |]; reflexivity. Qed.

Lemma mapM_eval_val_subst l : forallb (no_idx_val x) l = true ->
  mapM (eval_val env' pn) l = mapM (eval_val env pn) (map (subst_val x r) l).
Proof.
  intros H. rewrite mapM_map. apply mapM_ext. intros w Hw. apply eval_val_subst.
  rewrite forallb_forall in H. apply H, Hw.
Qed.
End Subst.

Lemma expr_pars_subst x r e : expr_pars r = [] -> expr_pars (subst_expr x r e) = expr_pars e.
Proof.
  intros Hr. induction e; cbn [subst_expr expr_pars]; try reflexivity; try assumption; try congruence.
  destruct (str_eqb name x); cbn [expr_pars]; [exact Hr|reflexivity].
Qed.

Lemma val_pars_subst x r w : expr_pars r = [] -> val_pars (subst_val x r w) = val_pars w.
Proof. intros Hr. destruct w; cbn [subst_val val_pars]; [apply expr_pars_subst; exact Hr| |]; reflexivity. Qed.

Lemma kwval_pars_subst x r k : expr_pars r = [] -> kwval_pars (subst_kwval x r k) = kwval_pars k.
Proof.
  intros Hr. destruct k; cbn [subst_kwval kwval_pars]; [apply val_pars_subst; exact Hr|].
  apply flat_map_map_eq. intros; apply val_pars_subst; exact Hr.
Qed.

Lemma args_pars_subst x r a : expr_pars r = [] -> args_pars (subst_args x r a) = args_pars a.
Proof.
  intros Hr. unfold args_pars, subst_args; cbn [apos akw]. f_equal.
  - apply flat_map_map_eq. intros; apply val_pars_subst; exact Hr.
  - apply flat_map_map_eq. intros; cbn [snd]. apply kwval_pars_subst; exact Hr.
Qed.

(* ---- keyword arguments: the local fixpoint of eval_args, named ---- *)
Section KW.
Variables (env:list (str * value)) (pn:list str).
Fixpoint eval_kws (l:list (str * kwval)) (acc:list (str * value)) : outcome (list (str * value)) :=
  match l with
  | [] => Ok acc
  | (k, KV v) :: l' => do x <- eval_val env pn v; eval_kws l' (dict_set k x acc)
  | (k, KL []) :: l' => eval_kws l' acc
  | (k, KL vs) :: l' => do xs <- mapM (eval_val env pn) vs; eval_kws l' (dict_set k (VList xs) acc)
  end.
End KW.

Lemma eval_args_unfold env pn a :
  eval_args env pn a =
  (do ps <- mapM (eval_val env pn) (apos a); do kws <- eval_kws env pn (akw a) []; Ok (ps, kws)).
Proof. reflexivity. Qed.

Section Subst2.
Variables (env:list (str * value)) (pn:list str) (x:str) (r:expr) (v:value).
Hypothesis Hr : eval env pn r = Ok v.
Hypothesis Hpn : mem_str x pn = false.

Lemma eval_kws_subst l : forall acc, forallb (fun kv => no_idx_kwval x (snd kv)) l = true ->
  eval_kws (dict_set x v env) pn l acc =
  eval_kws env pn (map (fun kv => (fst kv, subst_kwval x r (snd kv))) l) acc.
Proof.
  induction l as [|[k w] l IH]; intros acc H; [reflexivity|].
  cbn [forallb snd] in H. apply andb_prop in H. destruct H as [Hw Hl].
  destruct w as [w|ws]; cbn [map fst snd subst_kwval no_idx_kwval] in *.
  - cbn [eval_kws]. rewrite (eval_val_subst env pn x r v Hr Hpn w Hw).
    apply bind_ext. intros; apply IH, Hl.
  - destruct ws as [|w0 ws].
    + cbn [map eval_kws]. apply IH, Hl.
    + pose proof (mapM_eval_val_subst env pn x r v Hr Hpn _ Hw) as E. cbn [map] in E.
      cbn [map eval_kws]. rewrite E. apply bind_ext. intros; apply IH, Hl.
Qed.

Theorem eval_args_subst a : no_idx_args x a = true ->
  eval_args (dict_set x v env) pn a = eval_args env pn (subst_args x r a).
Proof.
  unfold no_idx_args. intros H. apply andb_prop in H. destruct H as [Hp Hk].
  rewrite !eval_args_unfold. cbn [subst_args apos akw].
  rewrite (mapM_eval_val_subst env pn x r v Hr Hpn _ Hp).
  apply bind_ext. intros ps _. rewrite (eval_kws_subst _ _ Hk). reflexivity.
Qed.
End Subst2.

(* ------------------------------------------------------------------------------------------------ *)
(* 3. statements: what a statement yields depends only on the environment and the p-names            *)
(* ------------------------------------------------------------------------------------------------ *)

Definition omap {A B} (f:A -> B) (o:outcome A) : outcome B := do a <- o; Ok (f a).

Definition set_env (e:list (str * value)) (s:st) : st :=
  mkst e (s_pars s) (s_pnames s) (s_ops s) (s_modes s).

Lemma set_env_id s : set_env (s_env s) s = s.
Proof. destruct s; reflexivity. Qed.

Definition stmt_pars (t:stmt) : list str :=
  flat_map expr_pars (smodes t) ++ match sargs t with Some a => args_pars a | None => [] end.

(* operations and modes yielded by one statement *)
Definition stmt_out (incs:list (str * prog)) (env:list (str * value)) (pn:list str) (t:stmt)
  : outcome (list op * list Z) :=
  do mvs <- mapM (eval env pn) (smodes t);
  do ms <- mapM mode_of mvs;
  do a <- eval_opt_args env pn (sargs t);
  let a' := match a with
            | Some (ps, kws) => Some (map wrap_transform ps, map (fun kv => (fst kv, wrap_transform (snd kv))) kws)
            | None => None
            end in
  let o := mkop (sop t) a' ms in
  match lookup (sop t) incs with
  | Some inc => do body <- expand_include inc o; Ok (body, ms)
  | None => Ok ([o], ms)
  end.

Definition apply_out (s:st) (t:stmt) (r:list op * list Z) : st :=
  mkst (s_env s) (add_new (s_pars s) (stmt_pars t)) (s_pnames s) (s_ops s ++ fst r) (add_newZ (s_modes s) (snd r)).

Lemma exec_stmt_out incs s t :
  exec_stmt incs s t = omap (apply_out s t) (stmt_out incs (s_env s) (s_pnames s) t).
Proof.
  unfold exec_stmt, stmt_out, omap, apply_out, stmt_pars.
  destruct (mapM (eval (s_env s) (s_pnames s)) (smodes t)) as [mvs| |]; cbn [bind]; try reflexivity.
  destruct (mapM mode_of mvs) as [ms| |]; cbn [bind]; try reflexivity.
  destruct (eval_opt_args (s_env s) (s_pnames s) (sargs t)) as [a| |]; cbn [bind]; try reflexivity.
  cbv zeta. destruct (lookup (sop t) incs) as [inc|]; [|reflexivity].
  destruct (expand_include inc _); reflexivity.
Qed.

Lemma exec_stmt_env incs s t s' : exec_stmt incs s t = Ok s' -> s_env s' = s_env s /\ s_pnames s' = s_pnames s.
Proof.
  rewrite exec_stmt_out. unfold omap. intros H. apply bind_ok_inv in H. destruct H as [o [_ H]].
  inversion H; subst. split; reflexivity.
Qed.

Lemma exec_stmts_env incs l : forall s s', exec_stmts incs s l = Ok s' -> s_env s' = s_env s /\ s_pnames s' = s_pnames s.
Proof.
  induction l as [|t l IH]; cbn [exec_stmts]; intros s s' H.
  - inversion H; subst; split; reflexivity.
  - apply bind_ok_inv in H. destruct H as [s1 [H1 H2]]. apply exec_stmt_env in H1. apply IH in H2.
    destruct H1, H2. split; congruence.
Qed.

Lemma exec_stmts_app incs l1 l2 s :
  exec_stmts incs s (l1 ++ l2) = (do s1 <- exec_stmts incs s l1; exec_stmts incs s1 l2).
Proof.
  revert s; induction l1 as [|t l1 IH]; intros s; cbn [app exec_stmts bind]; [reflexivity|].
  rewrite bind_assoc. apply bind_ext. intros; apply IH.
Qed.

(* the statement's effect does not depend on the other components of the state *)
Lemma exec_stmt_set_env incs e s t :
  exec_stmt incs (set_env e s) t = omap (apply_out (set_env e s) t) (stmt_out incs e (s_pnames s) t).
Proof. rewrite exec_stmt_out. reflexivity. Qed.

Section SubstStmt.
Variables (incs:list (str * prog)) (x:str) (r:expr) (v:value).
Hypothesis Hrp : expr_pars r = [].

Lemma stmt_pars_subst t : stmt_pars (subst_stmt x r t) = stmt_pars t.
Proof.
  unfold stmt_pars, subst_stmt; cbn [smodes sargs]. f_equal.
  - apply flat_map_map_eq. intros; apply expr_pars_subst; exact Hrp.
  - destruct (sargs t); cbn [option_map]; [apply args_pars_subst; exact Hrp|reflexivity].
Qed.

Lemma stmt_out_subst env pn t :
  eval env pn r = Ok v -> mem_str x pn = false -> no_idx_stmt x t = true ->
  stmt_out incs (dict_set x v env) pn t = stmt_out incs env pn (subst_stmt x r t).
Proof.
  intros Hr Hpn Hn. unfold no_idx_stmt in Hn. apply andb_prop in Hn. destruct Hn as [Hm Ha].
  unfold stmt_out, subst_stmt; cbn [smodes sargs sop].
  rewrite mapM_map.
  rewrite (mapM_ext (eval (dict_set x v env) pn) (fun a => eval env pn (subst_expr x r a))).
  2:{ intros e He. apply (eval_subst env pn x r v Hr Hpn). rewrite forallb_forall in Hm. apply Hm, He. }
  apply bind_ext; intros mvs _. apply bind_ext; intros ms _.
  assert (E: eval_opt_args (dict_set x v env) pn (sargs t) = eval_opt_args env pn (option_map (subst_args x r) (sargs t))).
  { destruct (sargs t) as [a|]; cbn [option_map eval_opt_args]; [|reflexivity].
    rewrite (eval_args_subst env pn x r v Hr Hpn a Ha). reflexivity. }
  rewrite E. reflexivity.
Qed.

(* one statement under the binding x := v  =  the substituted statement without the binding *)
Lemma exec_stmt_subst s t :
  eval (s_env s) (s_pnames s) r = Ok v -> mem_str x (s_pnames s) = false -> no_idx_stmt x t = true ->
  exec_stmt incs (set_env (dict_set x v (s_env s)) s) t =
  omap (set_env (dict_set x v (s_env s))) (exec_stmt incs s (subst_stmt x r t)).
Proof.
  intros Hr Hpn Hn. rewrite exec_stmt_set_env, (exec_stmt_out incs s).
  rewrite (stmt_out_subst _ _ _ Hr Hpn Hn). unfold omap. rewrite bind_assoc. apply bind_ext. intros o _.
  cbn [bind]. unfold apply_out, set_env; cbn [s_env s_pars s_pnames s_ops s_modes]. rewrite stmt_pars_subst. reflexivity.
Qed.

Lemma exec_stmts_subst body : forall s,
  eval (s_env s) (s_pnames s) r = Ok v -> mem_str x (s_pnames s) = false ->
  forallb (no_idx_stmt x) body = true ->
  exec_stmts incs (set_env (dict_set x v (s_env s)) s) body =
  omap (set_env (dict_set x v (s_env s))) (exec_stmts incs s (map (subst_stmt x r) body)).
Proof.
  induction body as [|t body IH]; intros s Hr Hpn Hn; [reflexivity|].
  cbn [forallb] in Hn. apply andb_prop in Hn. destruct Hn as [Ht Hb].
  cbn [map exec_stmts]. rewrite (exec_stmt_subst s t Hr Hpn Ht). unfold omap. rewrite !bind_assoc.
  apply bind_ext. intros s1 H1. cbn [bind]. apply exec_stmt_env in H1. destruct H1 as [E1 E2].
  rewrite <- E1. apply IH; [rewrite E1, E2; exact Hr | rewrite E2; exact Hpn | exact Hb].
Qed.
End SubstStmt.

(* ------------------------------------------------------------------------------------------------ *)
(* 4. the loop                                                                                       *)
(* ------------------------------------------------------------------------------------------------ *)

(* the values of the header, exactly as exec_item computes them *)
Definition header_vals (s:st) (h:forhdr) : outcome (list value) :=
  match h with
  | HRange a b c =>
      match parse_digits a, parse_digits b, match c with Some c' => parse_digits c' | None => Some 1%Z end with
      | Some a', Some b', Some c' => do zs <- range_values a' b' c'; Ok (map VInt zs)
      | _, _, _ => Unspec
      end
  | HList l => mapM (eval_val (s_env s) (s_pnames s)) l
  end.

(* the state in which the first iteration starts: the header's parameters are registered *)
Definition loop_start (s:st) (h:forhdr) : st :=
  mkst (s_env s) (add_new (s_pars s) (match h with HList l => flat_map val_pars l | _ => [] end))
       (s_pnames s) (s_ops s) (s_modes s).

Section Iter.
Variables (incs:list (str * prog)) (ty:vtype) (x:str) (body:list stmt).
(* the local fixpoint of exec_item, named *)
Fixpoint loop_iter (vs:list value) (s0:st) : outcome st :=
  match vs with
  | [] => Ok s0
  | v :: vs' =>
      do v' <- cast_loop ty v;
      do s1 <- exec_stmts incs (mkst (dict_set x v' (s_env s0)) (s_pars s0) (s_pnames s0) (s_ops s0) (s_modes s0)) body;
      loop_iter vs' s1
  end.
End Iter.

Lemma exec_item_for incs tdm s ty x h body :
  exec_item incs tdm s (IFor ty x h body) =
  (do vals <- header_vals s h;
   match lookup x (s_env s) with
   | Some _ => Unspec
   | None => do s' <- loop_iter incs ty x body vals (loop_start s h);
             Ok (set_env (dict_del x (s_env s')) s')
   end).
Proof. reflexivity. Qed.

Lemma loop_start_range s a b c : loop_start s (HRange a b c) = s.
Proof. destruct s; reflexivity. Qed.

Lemma loop_iter_app incs ty x body vs1 vs2 : forall s0,
  loop_iter incs ty x body (vs1 ++ vs2) s0 =
  (do s1 <- loop_iter incs ty x body vs1 s0; loop_iter incs ty x body vs2 s1).
Proof.
  induction vs1 as [|v vs1 IH]; intros s0; cbn [app loop_iter bind]; [reflexivity|].
  rewrite !bind_assoc. apply bind_ext; intros v' _. rewrite !bind_assoc. apply bind_ext; intros s1 _. apply IH.
Qed.

(* the environment during and after the iterations *)
Lemma loop_iter_env incs ty x body vs : forall s0 s1,
  loop_iter incs ty x body vs s0 = Ok s1 ->
  s_pnames s1 = s_pnames s0 /\
  (s_env s1 = s_env s0 \/ exists v, s_env s1 = dict_set x v (s_env s0)).
Proof.
  induction vs as [|w vs IH]; cbn [loop_iter]; intros s0 s1 H.
  - inversion H; subst. split; [reflexivity|left; reflexivity].
  - apply bind_ok_inv in H. destruct H as [v' [_ H]]. apply bind_ok_inv in H. destruct H as [s2 [H2 H]].
    apply exec_stmts_env in H2. cbn [s_env s_pnames] in H2. destruct H2 as [E1 E2].
    apply IH in H. destruct H as [E3 [E4|[v E4]]].
    + split; [congruence|]. right. exists v'. congruence.
    + split; [congruence|]. right. exists v. rewrite E4, E1. apply dict_set_set.
Qed.

(* ---- scoping ---- *)
Theorem loop_env_unchanged incs tdm s ty x h body s' :
  exec_item incs tdm s (IFor ty x h body) = Ok s' -> s_env s' = s_env s.
Proof.
  rewrite exec_item_for. intros H. apply bind_ok_inv in H. destruct H as [vals [_ H]].
  destruct (lookup x (s_env s)) eqn:Hx; [discriminate|].
  apply bind_ok_inv in H. destruct H as [s1 [H1 H]]. inversion H; subst; clear H. cbn [set_env s_env].
  apply loop_iter_env in H1. cbn [loop_start s_env s_pnames] in H1. destruct H1 as [_ [E|[v E]]]; rewrite E.
  - apply dict_del_none, Hx.
  - apply dict_del_set, Hx.
Qed.

Theorem loop_pnames_unchanged incs tdm s ty x h body s' :
  exec_item incs tdm s (IFor ty x h body) = Ok s' -> s_pnames s' = s_pnames s.
Proof.
  rewrite exec_item_for. intros H. apply bind_ok_inv in H. destruct H as [vals [_ H]].
  destruct (lookup x (s_env s)) eqn:Hx; [discriminate|].
  apply bind_ok_inv in H. destruct H as [s1 [H1 H]]. inversion H; subst; clear H. cbn [set_env s_pnames].
  apply loop_iter_env in H1. destruct H1 as [E _]. exact E.
Qed.

Theorem loopvar_scoped incs tdm s ty x h body s' :
  exec_item incs tdm s (IFor ty x h body) = Ok s' -> lookup x (s_env s') = None.
Proof.
  intros H. rewrite (loop_env_unchanged _ _ _ _ _ _ _ _ H).
  rewrite exec_item_for in H. apply bind_ok_inv in H. destruct H as [vals [_ H]].
  destruct (lookup x (s_env s)); [discriminate|reflexivity].
Qed.

(* a loop is only executed when its variable is not already bound *)
Lemma loop_ok_unbound incs tdm s ty x h body s' :
  exec_item incs tdm s (IFor ty x h body) = Ok s' -> lookup x (s_env s) = None.
Proof.
  rewrite exec_item_for. intros H. apply bind_ok_inv in H. destruct H as [vals [_ H]].
  destruct (lookup x (s_env s)); [discriminate|reflexivity].
Qed.

(* statements after the loop are unaffected: a statement yields after the loop exactly the operations and
   modes it would have yielded before it *)
Theorem stmt_after_loop incs tdm s ty x h body s' t :
  exec_item incs tdm s (IFor ty x h body) = Ok s' ->
  exec_stmt incs s' t = omap (apply_out s' t) (stmt_out incs (s_env s) (s_pnames s) t) /\
  exec_stmt incs s  t = omap (apply_out s  t) (stmt_out incs (s_env s) (s_pnames s) t).
Proof.
  intros H. rewrite !exec_stmt_out.
  rewrite (loop_env_unchanged _ _ _ _ _ _ _ _ H), (loop_pnames_unchanged _ _ _ _ _ _ _ _ H).
  split; reflexivity.
Qed.

Corollary stmt_after_loop_ops incs tdm s ty x h body s' t s1 :
  exec_item incs tdm s (IFor ty x h body) = Ok s' ->
  exec_stmt incs s t = Ok s1 ->
  exists ops s1', s_ops s1 = s_ops s ++ ops /\ exec_stmt incs s' t = Ok s1' /\ s_ops s1' = s_ops s' ++ ops.
Proof.
  intros H H1. destruct (stmt_after_loop _ _ _ _ _ _ _ _ t H) as [E' E]. rewrite E in H1. rewrite E'.
  unfold omap in *. apply bind_ok_inv in H1. destruct H1 as [o [Ho H1]]. rewrite Ho. cbn [bind].
  inversion H1; subst. exists (fst o), (apply_out s' t o). repeat split; reflexivity.
Qed.

(* ---- empty loops ---- *)
Theorem loop_empty incs tdm s ty x h body :
  header_vals s h = Ok [] -> lookup x (s_env s) = None ->
  exec_item incs tdm s (IFor ty x h body) = Ok (loop_start s h).
Proof.
  intros Hv Hx. rewrite exec_item_for, Hv. cbn [bind]. rewrite Hx. cbn [loop_iter bind].
  cbn [loop_start s_env]. rewrite (dict_del_none _ _ Hx). reflexivity.
Qed.

(* an empty range contributes nothing at all: the state is unchanged *)
Corollary loop_empty_range incs tdm s ty x a b c body a' b' c' :
  parse_digits a = Some a' -> parse_digits b = Some b' ->
  match c with Some t => parse_digits t | None => Some 1%Z end = Some c' ->
  (b' <= a')%Z -> (0 < c')%Z ->
  lookup x (s_env s) = None ->
  exec_item incs tdm s (IFor ty x (HRange a b c) body) = Ok s.
Proof.
  intros Ha Hb Hc Hab Hc' Hx. rewrite <- (loop_start_range s a b c) at 2. apply loop_empty; [|exact Hx].
  unfold header_vals. rewrite Ha, Hb, Hc. rewrite (empty_range_nil _ _ _ Hab Hc'). reflexivity.
Qed.

(* ---- a listed value not of the loop type ---- *)
Theorem loop_bad_value_refused incs tdm s ty x h body vs1 v vs2 s1 :
  header_vals s h = Ok (vs1 ++ v :: vs2) ->
  lookup x (s_env s) = None ->
  loop_iter incs ty x body vs1 (loop_start s h) = Ok s1 ->    (* the earlier values are converted and their bodies run *)
  cast_loop ty v = Refuse ELoopValue ->
  exec_item incs tdm s (IFor ty x h body) = Refuse ELoopValue.
Proof.
  intros Hv Hx H1 Hc. rewrite exec_item_for, Hv. cbn [bind]. rewrite Hx.
  rewrite loop_iter_app, H1. cbn [bind loop_iter]. rewrite Hc. reflexivity.
Qed.

(* which listed values are not of the loop type *)
Lemma cast_loop_mismatch :
  (forall t, cast_loop VTInt (VCpx t) = Refuse ELoopValue) /\
  (forall s, cast_loop VTInt (VStr s) = Refuse ELoopValue) /\
  (forall m e, dec_int m e = None -> dec_nonint m e = true -> cast_loop VTInt (VFlt (TDec m e)) = Refuse ELoopValue) /\
  (forall t, cast_loop VTFloat (VCpx t) = Refuse ELoopValue) /\
  (forall s, cast_loop VTFloat (VStr s) = Refuse ELoopValue) /\
  (forall s, cast_loop VTComplex (VStr s) = Refuse ELoopValue) /\
  (forall z, z <> 0%Z -> z <> 1%Z -> cast_loop VTBool (VInt z) = Refuse ELoopValue) /\
  (forall s, cast_loop VTBool (VStr s) = Refuse ELoopValue) /\
  (forall z, cast_loop VTStr (VInt z) = Refuse ELoopValue) /\
  (forall t, cast_loop VTStr (VFlt t) = Refuse ELoopValue) /\
  (forall t, cast_loop VTStr (VCpx t) = Refuse ELoopValue) /\
  (forall b, cast_loop VTStr (VBool b) = Refuse ELoopValue).
Proof.
  repeat split; try reflexivity.
  - intros m e H1 H2. cbn [cast_loop]. rewrite H1, H2. reflexivity.
  - intros z H0 H1. destruct z as [|p|p]; [congruence| |reflexivity]. destruct p; try reflexivity. congruence.
Qed.

(* ELoopValue is the only refusal cast_loop produces *)
Lemma cast_loop_refuse_class ty v c : cast_loop ty v = Refuse c -> c = ELoopValue.
Proof.
  destruct ty, v; cbn [cast_loop]; try discriminate; try (intros H; inversion H; reflexivity).
  - destruct t; try discriminate. destruct (dec_int m e); [unfold mkint; destruct (int64_ok z); discriminate|].
    destruct (dec_nonint m e); [intros H; inversion H; reflexivity|discriminate].
  - destruct z as [|p|p]; try (intros H; inversion H; reflexivity); try discriminate.
    destruct p; try discriminate; intros H; inversion H; reflexivity.
Qed.

(* ------------------------------------------------------------------------------------------------ *)
(* 5. unrolling                                                                                      *)
(* ------------------------------------------------------------------------------------------------ *)

(* v is a header value, r an expression denoting v converted to the loop type *)
Definition denotes_cast (ty:vtype) (env:list (str * value)) (pn:list str) (v:value) (r:expr) : Prop :=
  exists v', cast_loop ty v = Ok v' /\ eval env pn r = Ok v' /\ expr_pars r = [].

Definition unrolled (x:str) (body:list stmt) (rs:list expr) : list stmt :=
  concat (map (fun r => map (subst_stmt x r) body) rs).

Section Unroll.
Variables (incs:list (str * prog)) (ty:vtype) (x:str) (body:list stmt).
Variables (env0:list (str * value)) (pn0:list str).
Hypothesis Hx : lookup x env0 = None.
Hypothesis Hpn : mem_str x pn0 = false.
Hypothesis Hbody : forallb (no_idx_stmt x) body = true.

(* E is the environment left by the previous iteration (or env0 before the first one) *)
Lemma loop_iter_unroll vals rs : Forall2 (denotes_cast ty env0 pn0) vals rs ->
  forall s0 E, s_env s0 = env0 -> s_pnames s0 = pn0 ->
  (forall v, dict_set x v E = dict_set x v env0) -> dict_del x E = env0 ->
  (do s' <- loop_iter incs ty x body vals (set_env E s0); Ok (set_env (dict_del x (s_env s')) s'))
  = exec_stmts incs s0 (unrolled x body rs).
Proof.
  induction 1 as [|w r vals rs [v' [Hc [Hr Hrp]]] _ IH]; intros s0 E He Hp HE1 HE2.
  - destruct s0 as [e0 p0 n0 o0 m0]. cbn [s_env] in He. subst e0.
    unfold unrolled, set_env. cbn [loop_iter bind map concat exec_stmts s_env s_pars s_pnames s_ops s_modes].
    rewrite HE2. reflexivity.
  - unfold unrolled. cbn [map concat]. rewrite exec_stmts_app.
    cbn [loop_iter]. rewrite Hc. cbn [bind].
    change (mkst (dict_set x v' (s_env (set_env E s0))) (s_pars (set_env E s0)) (s_pnames (set_env E s0))
                 (s_ops (set_env E s0)) (s_modes (set_env E s0)))
      with (set_env (dict_set x v' E) s0).
    rewrite HE1, <- He.
    rewrite (exec_stmts_subst incs x r v' Hrp body s0); [| rewrite He, Hp; exact Hr | rewrite Hp; exact Hpn | exact Hbody].
    unfold omap. rewrite !bind_assoc. apply bind_ext. intros s1 H1. cbn [bind].
    apply exec_stmts_env in H1. destruct H1 as [E1 E2].
    apply IH; [congruence | congruence | | ].
    + intros v. rewrite He. apply dict_set_set.
    + rewrite He. apply dict_del_set, Hx.
Qed.
End Unroll.

(* The loop is its body written once per value, in order, with the loop variable replaced by (an expression
   for) the value converted to the loop type; both sides are equal as outcomes (success, refusal and
   unspecified alike).  Hypotheses that turned out to be unnecessary in this model: "the converted value is
   not an array" (mem_str x (s_pnames s) = false already makes the variable evaluate to its value) and "x
   does not occur in r_i" (r_i is evaluated where x is unbound, so it cannot mention x and evaluate). *)
Theorem loop_unroll incs tdm s ty x h body vals rs :
  header_vals s h = Ok vals ->
  lookup x (s_env s) = None ->
  mem_str x (s_pnames s) = false ->
  forallb (no_idx_stmt x) body = true ->
  Forall2 (denotes_cast ty (s_env s) (s_pnames s)) vals rs ->
  exec_item incs tdm s (IFor ty x h body) = exec_stmts incs (loop_start s h) (unrolled x body rs).
Proof.
  intros Hv Hx Hpn Hb HF. rewrite exec_item_for, Hv. cbn [bind]. rewrite Hx.
  rewrite <- (set_env_id (loop_start s h)) at 1.
  apply (loop_iter_unroll incs ty x body (s_env s) (s_pnames s) Hx Hpn Hb vals rs HF); try reflexivity.
  cbn [loop_start s_env]. apply dict_del_none, Hx.
Qed.

(* integer literals *)
Lemma int_lit_eval env pn text z :
  parse_digits text = Some z -> int64_ok z = true ->
  eval env pn (ENum NKInt text) = Ok (VInt z) /\ expr_pars (ENum NKInt text) = [].
Proof. intros H1 H2. cbn [eval num_value expr_pars]. rewrite H1. unfold mkint. rewrite H2. split; reflexivity. Qed.

(* integer range loops: for int x in a:b:c *)
Corollary loop_unroll_range incs tdm s x a b c body a' b' c' zs rs :
  parse_digits a = Some a' -> parse_digits b = Some b' ->
  match c with Some t => parse_digits t | None => Some 1%Z end = Some c' ->
  range_values a' b' c' = Ok zs ->
  lookup x (s_env s) = None ->
  mem_str x (s_pnames s) = false ->
  forallb (no_idx_stmt x) body = true ->
  Forall2 (fun z r => eval (s_env s) (s_pnames s) r = Ok (VInt z) /\ expr_pars r = []) zs rs ->
  exec_item incs tdm s (IFor VTInt x (HRange a b c) body) = exec_stmts incs s (unrolled x body rs).
Proof.
  intros Ha Hb Hc Hr Hx Hpn Hbody HF.
  rewrite <- (loop_start_range s a b c) at 2.
  apply (loop_unroll incs tdm s VTInt x (HRange a b c) body (map VInt zs) rs); try assumption.
  - unfold header_vals. rewrite Ha, Hb, Hc, Hr. reflexivity.
  - clear Hr. induction HF as [|z r zs rs [H1 H2] _ IH]; cbn [map]; constructor; [|exact IH].
    exists (VInt z). repeat split; assumption.
Qed.

(* the same for any loop type: r_i denotes the i-th integer converted to the loop type *)
Corollary loop_unroll_range_ty incs tdm s ty x a b c body a' b' c' zs rs :
  parse_digits a = Some a' -> parse_digits b = Some b' ->
  match c with Some t => parse_digits t | None => Some 1%Z end = Some c' ->
  range_values a' b' c' = Ok zs ->
  lookup x (s_env s) = None ->
  mem_str x (s_pnames s) = false ->
  forallb (no_idx_stmt x) body = true ->
  Forall2 (fun z r => denotes_cast ty (s_env s) (s_pnames s) (VInt z) r) zs rs ->
  exec_item incs tdm s (IFor ty x (HRange a b c) body) = exec_stmts incs s (unrolled x body rs).
Proof.
  intros Ha Hb Hc Hr Hx Hpn Hbody HF.
  rewrite <- (loop_start_range s a b c) at 2.
  apply (loop_unroll incs tdm s ty x (HRange a b c) body (map VInt zs) rs); try assumption.
  - unfold header_vals. rewrite Ha, Hb, Hc, Hr. reflexivity.
  - clear Hr. induction HF as [|z r zs rs H _ IH]; cbn [map]; constructor; assumption.
Qed.

(* the values a range loop iterates over, spelt out: a, a+c, ..., the last one below b *)
Corollary loop_range_values s a b c a' b' c' vals :
  parse_digits a = Some a' -> parse_digits b = Some b' ->
  match c with Some t => parse_digits t | None => Some 1%Z end = Some c' ->
  (0 < c')%Z ->
  header_vals s (HRange a b c) = Ok vals ->
  exists n, vals = map (fun k => VInt (a' + Z.of_nat k * c')%Z) (seq 0 n) /\
            (forall k, (k < n)%nat -> (a' + Z.of_nat k * c' < b')%Z) /\ (b' <= a' + Z.of_nat n * c')%Z.
Proof.
  intros Ha Hb Hc Hc' H. unfold header_vals in H. rewrite Ha, Hb, Hc in H.
  apply bind_ok_inv in H. destruct H as [zs [Hz H]]. inversion H; subst; clear H.
  destruct (range_sem _ _ _ _ Hz Hc') as [Hl [Hin Hn]]. exists (length zs). split; [|split].
  - rewrite Hl at 1. rewrite map_map. reflexivity.
  - intros k Hk. apply Hin. rewrite Hl. apply in_map_iff. exists k. split; [reflexivity|apply in_seq; lia].
  - exact Hn.
Qed.

(* ------------------------------------------------------------------------------------------------ *)
(* 6. examples                                                                                       *)
(* ------------------------------------------------------------------------------------------------ *)
Module Examples.
Definition i_ : str := [105%N].
Definition Op_ : str := [79; 112]%N.
Definition s0 : st := mkst [] [] [] [] [].
Definition body_ : list stmt :=
  [mkstmt Op_ (Some (mkargs [VE (EVar i_ 2 7)] [])) [EVar i_ 2 12]].     (*  Op(i) | i  *)
Definition lit (d:N) : expr := ENum NKInt [d].

(* for int i in 0:3  /  Op(i) | i *)
Example loop_0_3 :
  exec_item [] false s0 (IFor VTInt i_ (HRange [48%N] [51%N] None) body_) =
  Ok (mkst [] [] []
        [mkop Op_ (Some ([VInt 0], [])) [0%Z];
         mkop Op_ (Some ([VInt 1], [])) [1%Z];
         mkop Op_ (Some ([VInt 2], [])) [2%Z]]
        [0%Z; 1%Z; 2%Z]).
Proof. vm_compute. reflexivity. Qed.

(* the same three operations as Op(0)|0, Op(1)|1, Op(2)|2 written out (through the substitution) *)
Example loop_0_3_unrolled :
  exec_item [] false s0 (IFor VTInt i_ (HRange [48%N] [51%N] None) body_) =
  exec_stmts [] s0 (unrolled i_ body_ [lit 48; lit 49; lit 50]).
Proof. vm_compute. reflexivity. Qed.

Example unrolled_text :
  unrolled i_ body_ [lit 48; lit 49; lit 50] =
  [mkstmt Op_ (Some (mkargs [VE (EBr (lit 48))] [])) [EBr (lit 48)];
   mkstmt Op_ (Some (mkargs [VE (EBr (lit 49))] [])) [EBr (lit 49)];
   mkstmt Op_ (Some (mkargs [VE (EBr (lit 50))] [])) [EBr (lit 50)]].
Proof. vm_compute. reflexivity. Qed.

(* the same instance obtained from the theorem rather than by computation *)
Example loop_0_3_by_theorem :
  exec_item [] false s0 (IFor VTInt i_ (HRange [48%N] [51%N] None) body_) =
  exec_stmts [] s0 (unrolled i_ body_ [lit 48; lit 49; lit 50]).
Proof.
  apply (loop_unroll_range [] false s0 i_ [48%N] [51%N] None body_ 0%Z 3%Z 1%Z [0;1;2]%Z); try reflexivity.
  repeat constructor.
Qed.

(* stepped and decreasing ranges *)
Example range_1_8_3 : range_values 1 8 3 = Ok [1; 4; 7]%Z.  Proof. reflexivity. Qed.
Example range_1_7_3 : range_values 1 7 3 = Ok [1; 4]%Z.     Proof. reflexivity. Qed.
Example range_5_0_m2 : range_values 5 0 (-2) = Ok [5; 3; 1]%Z. Proof. reflexivity. Qed.

(* for int i in 3:0 contributes nothing *)
Example loop_3_0_empty :
  exec_item [] false s0 (IFor VTInt i_ (HRange [51%N] [48%N] None) body_) = Ok s0.
Proof. vm_compute. reflexivity. Qed.

(* for float i in 0:2 : the variable carries the value converted to float *)
Example loop_float :
  exec_item [] false s0 (IFor VTFloat i_ (HRange [48%N] [50%N] None)
                          [mkstmt Op_ (Some (mkargs [VE (EVar i_ 2 7)] [])) [ENum NKInt [48%N]]]) =
  Ok (mkst [] [] []
        [mkop Op_ (Some ([VFlt (TDec 0 0)], [])) [0%Z];
         mkop Op_ (Some ([VFlt (TDec 1 0)], [])) [0%Z]]
        [0%Z]).
Proof. vm_compute. reflexivity. Qed.

(* for int i in [1, "a"] : the first body runs, then the string is refused *)
Example loop_list_refused :
  exec_item [] false s0 (IFor VTInt i_ (HList [VE (ENum NKInt [49%N]); VS [97%N]]) body_) = Refuse ELoopValue.
Proof. vm_compute. reflexivity. Qed.

(* the loop variable is not visible after the loop *)
Example loopvar_gone :
  exec_items [] false s0 [IFor VTInt i_ (HRange [48%N] [51%N] None) body_; IStmt (mkstmt Op_ None [EVar i_ 3 6])]
  = Refuse (EUndefined i_ 3 6).
Proof. vm_compute. reflexivity. Qed.
End Examples.

(* ------------------------------------------------------------------------------------------------ *)
Print Assumptions str_eqb_spec.
Print Assumptions range_sem.
Print Assumptions range_sem_in.
Print Assumptions range_sem_neg.
Print Assumptions range_zero_refused.
Print Assumptions empty_range_nil.
Print Assumptions empty_range_nil_neg.
Print Assumptions eval_subst.
Print Assumptions expr_pars_subst.
Print Assumptions eval_args_subst.
Print Assumptions stmt_out_subst.
Print Assumptions exec_stmts_subst.
Print Assumptions exec_item_for.
Print Assumptions loop_unroll.
Print Assumptions loop_unroll_range.
Print Assumptions loop_unroll_range_ty.
Print Assumptions loop_range_values.
Print Assumptions loopvar_scoped.
Print Assumptions loop_env_unchanged.
Print Assumptions loop_pnames_unchanged.
Print Assumptions stmt_after_loop.
Print Assumptions stmt_after_loop_ops.
Print Assumptions loop_empty.
Print Assumptions loop_empty_range.
Print Assumptions loop_bad_value_refused.
Print Assumptions cast_loop_mismatch.
Print Assumptions cast_loop_refuse_class.
Print Assumptions Examples.loop_0_3.
Print Assumptions Examples.loop_0_3_unrolled.
Print Assumptions Examples.loop_0_3_by_theorem.
