(* Obligations on the facts regenerated from the Python sources (gen/Facts.v): each is decided by computation.
   A change of the sources that alters one of these tables breaks exactly the corresponding lemma. *)
From Coq Require Import List String Bool.
Import ListNotations.
From BB Require Import Syntax Facts.
Local Open Scope string_scope.

(* C03: the fifteen named functions are dispatched to the numpy functions of the same meaning *)
Definition fn_np_name (f:fn) : string :=
  match f with
  | FExp => "exp" | FLog => "log" | FSin => "sin" | FCos => "cos" | FTan => "tan" | FArcsin => "arcsin"
  | FArccos => "arccos" | FArctan => "arctan" | FSinh => "sinh" | FCosh => "cosh" | FTanh => "tanh"
  | FArcsinh => "arcsinh" | FArccosh => "arccosh" | FArctanh => "arctanh" | FSqrt => "sqrt"
  end.
Definition fn_token (f:fn) : string :=
  match f with
  | FExp => "EXP" | FLog => "LOG" | FSin => "SIN" | FCos => "COS" | FTan => "TAN" | FArcsin => "ARCSIN"
  | FArccos => "ARCCOS" | FArctan => "ARCTAN" | FSinh => "SINH" | FCosh => "COSH" | FTanh => "TANH"
  | FArcsinh => "ARCSINH" | FArccosh => "ARCCOSH" | FArctanh => "ARCTANH" | FSqrt => "SQRT"
  end.
Definition all_fn : list fn := [FExp; FLog; FSin; FCos; FTan; FArcsin; FArccos; FArctan; FSinh; FCosh; FTanh; FArcsinh; FArccosh; FArctanh; FSqrt].

Lemma func_table_ok : func_table = map (fun f => (fn_token f, fn_np_name f)) all_fn.
Proof. vm_compute. reflexivity. Qed.

Lemma number_table_ok :
  number_table = [("INT", "int(number.getText())"); ("FLOAT", "float(number.getText())");
                  ("COMPLEX", "complex(number.getText())"); ("PI", "np.pi")].
Proof. vm_compute. reflexivity. Qed.

Lemma type_maps_ok :
  python_types = [("array", "np.ndarray"); ("float", "float"); ("complex", "complex"); ("int", "int"); ("str", "str"); ("bool", "bool")] /\
  numpy_types = [("float", "np.float64"); ("complex", "np.complex128"); ("int", "np.int64"); ("str", "np.str_"); ("bool", "np.bool_")].
Proof. vm_compute. split; reflexivity. Qed.

(* C19: the order-sensitive uses of Python sets are exactly the ones the order-independence theorems account for:
   - RegRefTransform.__init__ : the listing order of a transform's registers (TransformP.transform_order_irrelevant)
   - BlackbirdProgram.__call__ : arguments of a lambdified function, passed by NAME (order immaterial)
   - _format_value : builds a set of names, then the subset of them that are not register references (membership only, twice)
   - match_template : a single-element set (at most one parameter per argument is enforced just before)
   - to_DiGraph : the order in which wires are visited changes only insertion order of nodes/edges, not the graph *)
Lemma set_sites_ok :
  set_sites = ["listener.py:RegRefTransform.__init__:list(expr.free_symbols)";
               "program.py:BlackbirdProgram.__call__:list(v.free_symbols)";
               "program.py:_format_value:for(names)";
               "program.py:_format_value:for(v.free_symbols)";
               "utils.py:match_template:solve(var)";
               "utils.py:match_template:str(var)";
               "utils.py:to_DiGraph:for(dependencies)"].
Proof. vm_compute. reflexivity. Qed.

(* C12: both process-wide tables are cleared at the start of every parse and on entering/leaving the program block *)
Lemma clear_sites_ok :
  clear_sites = ["listener.py:BlackbirdListener.enterProgram:_PARAMS.clear"; "listener.py:BlackbirdListener.enterProgram:_VAR.clear";
                 "listener.py:BlackbirdListener.exitProgram:_PARAMS.clear"; "listener.py:BlackbirdListener.exitProgram:_VAR.clear";
                 "listener.py:parse:_PARAMS.clear"; "listener.py:parse:_VAR.clear"].
Proof. vm_compute. reflexivity. Qed.

(* C10: every path through the error listener raises BlackbirdSyntaxError with the message prefix
   "Blackbird SyntaxError (line {}:{})" formatted with (line, column + 1); the function cannot fall through *)
Definition raise_site_ok (r : string * bool * string * string) : bool :=
  let '(cls, prefix, a, b) := r in
  (String.eqb cls "BlackbirdSyntaxError" && prefix && String.eqb a "line" && String.eqb b "column + 1")%bool.
Lemma raise_sites_total :
  forallb raise_site_ok raise_sites = true /\ syntax_error_falls_through = false /\ raise_sites <> [].
Proof. vm_compute. repeat split; try reflexivity. discriminate. Qed.

(* C13: every store write of the read-only API targets an object constructed or deep-copied inside the function *)
Definition confined (fp : list (string * string * bool)) : bool := forallb (fun x => snd x) fp.
Lemma footprints_confined : confined footprints = true.
Proof. vm_compute. reflexivity. Qed.
