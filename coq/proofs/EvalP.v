(* Properties of the evaluator model (Values.v, Eval.v): arithmetic-value homomorphism, integer closure,
   real division, row-major indexing, casts, propagation of faults.  Stdlib only; no axioms. *)
From Coq Require Import List ZArith NArith Bool Lia.
Import ListNotations.
From BB Require Import Syntax Values Eval.

(* ------------------------------------------------------------------------------------------------ *)
(* 0. Inversion lemmas for the outcome monad                                                        *)
(* ------------------------------------------------------------------------------------------------ *)

Lemma bind_ok {A B} (o:outcome A) (f:A -> outcome B) b :
  bind o f = Ok b -> exists a, o = Ok a /\ f a = Ok b.
Proof. destruct o; simpl; intros H; try discriminate; eauto. Qed.

Lemma bind_refuse {A B} (o:outcome A) (f:A -> outcome B) c :
  bind o f = Refuse c -> o = Refuse c \/ exists a, o = Ok a /\ f a = Refuse c.
Proof. destruct o; simpl; intros H; try discriminate; [right; eauto | left; injection H as ->; reflexivity]. Qed.

Lemma bind_not_ok {A B} (o:outcome A) (f:A -> outcome B) :
  (forall a, o <> Ok a) -> forall b, bind o f <> Ok b.
Proof. intros Hn b H. apply bind_ok in H as (a & Ha & _). exact (Hn a Ha). Qed.

Lemma mkint_ok z v : mkint z = Ok v -> v = VInt z /\ int64_ok z = true.
Proof. unfold mkint. destruct (int64_ok z); intros H; try discriminate. injection H as <-. auto. Qed.

Lemma mkint_nr z c : mkint z <> Refuse c.
Proof. unfold mkint. destruct (int64_ok z); discriminate. Qed.

Lemma mkint_cases z : mkint z = Ok (VInt z) \/ mkint z = Unspec.
Proof. unfold mkint. destruct (int64_ok z); auto. Qed.

#[local] Opaque mkint.

Lemma mapM_ok_all {A B} (f:A -> outcome B) l ys :
  mapM f l = Ok ys -> forall x, In x l -> exists y, f x = Ok y.
Proof.
  revert ys. induction l as [|a l IH]; intros ys H x Hin; [destruct Hin|].
  cbn [mapM] in H. apply bind_ok in H as (y & Hy & H). apply bind_ok in H as (ys' & Hys & _).
  destruct Hin as [<-|Hin]; eauto.
Qed.

Lemma mapM_ok_length {A B} (f:A -> outcome B) l ys : mapM f l = Ok ys -> length ys = length l.
Proof.
  revert ys. induction l as [|a l IH]; intros ys H; cbn [mapM] in H.
  - injection H as <-. reflexivity.
  - apply bind_ok in H as (y & Hy & H). apply bind_ok in H as (ys' & Hys & H). injection H as <-.
    simpl. f_equal. eauto.
Qed.

Lemma mapM_ok_nth {A B} (f:A -> outcome B) l ys :
  mapM f l = Ok ys -> forall i d d', i < length l -> f (nth i l d) = Ok (nth i ys d').
Proof.
  revert ys. induction l as [|a l IH]; intros ys H i d d' Hi; [simpl in Hi; lia|].
  cbn [mapM] in H. apply bind_ok in H as (y & Hy & H). apply bind_ok in H as (ys' & Hys & H). injection H as <-.
  destruct i as [|i]; simpl; [exact Hy|]. apply IH; [exact Hys|]. simpl in Hi. lia.
Qed.

(* ------------------------------------------------------------------------------------------------ *)
(* 1. Value operations: which arguments they accept, what they return                                *)
(* ------------------------------------------------------------------------------------------------ *)

Definition is_num (v:value) : bool := match num_view v with Some _ => true | None => false end.

Ltac zcase :=
  repeat match goal with
         | H : context[match ?z with Z0 => _ | Zpos _ => _ | Zneg _ => _ end] |- _ => destruct z
         | |- context[match ?z with Z0 => _ | Zpos _ => _ | Zneg _ => _ end] => destruct z
         end.

Lemma v_neg_args x v : v_neg x = Ok v -> is_num x = true.
Proof. destruct x; simpl; intros H; try discriminate; reflexivity. Qed.
Lemma v_add_args sub x y v : v_add sub x y = Ok v -> is_num x = true /\ is_num y = true.
Proof. destruct x, y; simpl; intros H; try discriminate; split; reflexivity. Qed.
Lemma v_mul_args x y v : v_mul x y = Ok v -> is_num x = true /\ is_num y = true.
Proof. destruct x, y; simpl; intros H; try discriminate; split; reflexivity. Qed.
Lemma v_div_args x y v : v_div x y = Ok v -> is_num x = true /\ is_num y = true.
Proof. destruct x, y; simpl; intros H; zcase; try discriminate; split; reflexivity. Qed.
Lemma v_pow_args x y v : v_pow x y = Ok v -> is_num x = true /\ is_num y = true.
Proof. destruct x, y; simpl; intros H; try discriminate; split; reflexivity. Qed.
Lemma v_fn_args f x v : v_fn f x = Ok v -> is_num x = true.
Proof. destruct x; simpl; intros H; try discriminate; reflexivity. Qed.

Lemma v_neg_nr x c : v_neg x <> Refuse c.
Proof. destruct x; simpl; try discriminate. apply mkint_nr. Qed.
Lemma v_add_nr sub x y c : v_add sub x y <> Refuse c.
Proof. destruct x, y; simpl; try discriminate. apply mkint_nr. Qed.
Lemma v_mul_nr x y c : v_mul x y <> Refuse c.
Proof. destruct x, y; simpl; try discriminate. apply mkint_nr. Qed.
Lemma v_div_nr x y c : v_div x y <> Refuse c.
Proof. destruct x, y; simpl; zcase; discriminate. Qed.
Lemma v_pow_nr x y c : v_pow x y <> Refuse c.
Proof.
  destruct x, y; simpl; try discriminate.
  destruct (Z.leb 0 z0); [destruct (Z.leb z0 4096); [apply mkint_nr|discriminate]|].
  destruct (Z.eqb z 0); discriminate.
Qed.
Lemma v_fn_nr f x c : v_fn f x <> Refuse c.
Proof. destruct x; simpl; discriminate. Qed.

(* p-names only matter for a NAME that is the whole value: whenever evaluation with p-names yields a value
   that is not a p-name, evaluation without p-names yields the same value *)
Lemma eval_pn_drop env pn e : forall v,
  eval env pn e = Ok v -> (exists x, v = VPName x) \/ eval env [] e = Ok v.
Proof.
  induction e; intros v H; cbn [eval] in H |- *.
  - right; exact H.
  - destruct (lookup name env) as [v0|] eqn:L; [|discriminate]. simpl (mem_str name []).
    destruct (mem_str name pn).
    + destruct v0; try discriminate. injection H as <-. left; eauto.
    + right; exact H.
  - right; exact H.
  - apply bind_ok in H as (iv & Hi & H). destruct (IHe _ Hi) as [[x ->]|Hi'].
    + destruct (lookup name env) as [[]|]; discriminate.
    + rewrite Hi'. right; exact H.
  - right; exact H.
  - eauto.
  - destruct neg; [|eauto]. apply bind_ok in H as (x & Hx & H).
    destruct (IHe _ Hx) as [[s ->]|Hx']; [discriminate|]. rewrite Hx'. right; exact H.
  - apply bind_ok in H as (x & Hx & H). apply bind_ok in H as (y & Hy & H).
    destruct (v_pow_args _ _ _ H) as [Nx Ny].
    destruct (IHe1 _ Hx) as [[s ->]|Hx']; [discriminate|]. destruct (IHe2 _ Hy) as [[s ->]|Hy']; [discriminate|].
    rewrite Hx', Hy'. right; exact H.
  - destruct div; apply bind_ok in H as (x & Hx & H); apply bind_ok in H as (y & Hy & H);
      [destruct (v_div_args _ _ _ H) as [Nx Ny] | destruct (v_mul_args _ _ _ H) as [Nx Ny]];
      (destruct (IHe1 _ Hx) as [[s ->]|Hx']; [discriminate|]); (destruct (IHe2 _ Hy) as [[s ->]|Hy']; [discriminate|]);
      rewrite Hx', Hy'; right; exact H.
  - apply bind_ok in H as (x & Hx & H). apply bind_ok in H as (y & Hy & H).
    destruct (v_add_args _ _ _ _ H) as [Nx Ny].
    destruct (IHe1 _ Hx) as [[s ->]|Hx']; [discriminate|]. destruct (IHe2 _ Hy) as [[s ->]|Hy']; [discriminate|].
    rewrite Hx', Hy'. right; exact H.
  - apply bind_ok in H as (x & Hx & H). pose proof (v_fn_args _ _ _ H) as Nx.
    destruct (IHe _ Hx) as [[s ->]|Hx']; [discriminate|]. rewrite Hx'. right; exact H.
Qed.

Corollary eval_pn_int env pn e z : eval env pn e = Ok (VInt z) -> eval env [] e = Ok (VInt z).
Proof. intros H. destruct (eval_pn_drop _ _ _ _ H) as [[x Hx]|H']; [discriminate|exact H']. Qed.

(* ------------------------------------------------------------------------------------------------ *)
(* A. Arithmetic-value homomorphism                                                                  *)
(* ------------------------------------------------------------------------------------------------ *)
Section Hom.
Variable K : Type.
Variables kadd kmul kpow : K -> K -> K.
Variables kneg kinv : K -> K.
Variable kfn : fn -> K -> K.
Variable kdec : Z -> Z -> K.               (* kdec m e = m * 10^e *)
Variables kpi ki : K.
Variables rho_par rho_reg : str -> K.

Fixpoint tden (t:term) : K :=
  match t with
  | TDec m e => kdec m e
  | TPi => kpi
  | TI => ki
  | TPar s => rho_par s
  | TReg s => rho_reg s
  | TAdd a b => kadd (tden a) (tden b)
  | TMul a b => kmul (tden a) (tden b)
  | TNeg a => kneg (tden a)
  | TInv a => kinv (tden a)
  | TPow a b => kpow (tden a) (tden b)
  | TFn f a => kfn f (tden a)
  end.

Definition vden (v:value) : option K :=
  match v with
  | VInt z => Some (kdec z 0)
  | VFlt t | VCpx t | VSym t | VTrf t => Some (tden t)
  | _ => None
  end.

Definition numeric (v:value) : Prop :=
  match v with VInt _ | VFlt _ | VCpx _ | VSym _ | VTrf _ => True | _ => False end.

(* number literals, read directly from their text *)
Definition lit_den (k:numkind) (text:str) : option K :=
  match k with
  | NKInt => option_map (fun z => kdec z 0) (parse_digits text)
  | NKFloat => option_map tden (parse_float text)
  | NKComplex => option_map tden (parse_complex text)
  | NKPi => Some kpi
  end.

Definition lift2 (f:K -> K -> K) (a b:option K) : option K :=
  match a, b with Some x, Some y => Some (f x y) | _, _ => None end.

(* the ordinary arithmetic value of an expression, on the syntax *)
Fixpoint aden (env:list (str * value)) (e:expr) : option K :=
  match e with
  | ENum k text => lit_den k text
  | EVar x _ _ => match lookup x env with Some v => vden v | None => None end
  | EReg s => Some (rho_reg s)
  | EIdx x _ _ ie =>
      match lookup x env with
      | Some (VArr _ _ _ elems) =>
          match eval env [] ie with          (* the index is an integer: its evaluation is exact *)
          | Ok (VInt k) =>
              if Z.ltb k 0 then None
              else match nth_error elems (Z.to_nat k) with Some v => vden v | None => None end
          | _ => None
          end
      | _ => None
      end
  | EPar p => Some (rho_par p)
  | EBr a => aden env a
  | ESign false a => aden env a
  | ESign true a => option_map kneg (aden env a)
  | EAdd false a b => lift2 kadd (aden env a) (aden env b)
  | EAdd true a b => lift2 (fun x y => kadd x (kneg y)) (aden env a) (aden env b)
  | EMul false a b => lift2 kmul (aden env a) (aden env b)
  | EMul true a b => lift2 (fun x y => kmul x (kinv y)) (aden env a) (aden env b)
  | EPow a b => lift2 kpow (aden env a) (aden env b)
  | EFun f a => option_map (kfn f) (aden env a)
  end.

(* what integer folding needs *)
Hypothesis Hadd : forall x y, kdec (x + y) 0 = kadd (kdec x 0) (kdec y 0).
Hypothesis Hsub : forall x y, kdec (x - y) 0 = kadd (kdec x 0) (kneg (kdec y 0)).
Hypothesis Hmul : forall x y, kdec (x * y) 0 = kmul (kdec x 0) (kdec y 0).
Hypothesis Hneg : forall x, kdec (- x) 0 = kneg (kdec x 0).
Hypothesis Hpow : forall x y, (0 <= y)%Z -> kdec (x ^ y) 0 = kpow (kdec x 0) (kdec y 0).

Lemma numeric_vden v : numeric v -> exists k, vden v = Some k.
Proof. destruct v; simpl; intros H; try contradiction; eauto. Qed.

Lemma vden_numeric v k : vden v = Some k -> numeric v.
Proof. destruct v; simpl; intros H; try discriminate; exact I. Qed.

Lemma is_num_numeric v : is_num v = true -> numeric v.
Proof. destruct v; simpl; intros H; try discriminate; exact I. Qed.

Lemma num_value_den k text v : num_value k text = Ok v -> lit_den k text = vden v.
Proof.
  destruct k; simpl; intros H.
  - destruct (parse_digits text); [|discriminate]. apply mkint_ok in H as [-> _]. reflexivity.
  - destruct (parse_float text); [|discriminate]. injection H as <-. reflexivity.
  - destruct (parse_complex text); [|discriminate]. injection H as <-. reflexivity.
  - injection H as <-. reflexivity.
Qed.

Lemma v_neg_den x v : v_neg x = Ok v ->
  exists kx, vden x = Some kx /\ vden v = Some (kneg kx).
Proof.
  destruct x; simpl; intros H; try discriminate.
  - apply mkint_ok in H as [-> _]. eexists; split; [reflexivity|]. cbn [vden]. now rewrite Hneg.
  - injection H as <-. eexists; split; reflexivity.
  - injection H as <-. eexists; split; reflexivity.
  - injection H as <-. eexists; split; reflexivity.
Qed.

Lemma v_add_den sub x y v : v_add sub x y = Ok v ->
  exists kx ky, vden x = Some kx /\ vden y = Some ky /\
                vden v = Some (if sub then kadd kx (kneg ky) else kadd kx ky).
Proof.
  destruct x, y; simpl; intros H; try discriminate;
    try (injection H as <-; do 2 eexists; split; [reflexivity|split; [reflexivity|destruct sub; reflexivity]]).
  apply mkint_ok in H as [-> _]. do 2 eexists; split; [reflexivity|split; [reflexivity|]].
  cbn [vden]. destruct sub; [now rewrite Hsub | now rewrite Hadd].
Qed.

Lemma v_mul_den x y v : v_mul x y = Ok v ->
  exists kx ky, vden x = Some kx /\ vden y = Some ky /\ vden v = Some (kmul kx ky).
Proof.
  destruct x, y; simpl; intros H; try discriminate;
    try (injection H as <-; do 2 eexists; split; [reflexivity|split; reflexivity]).
  apply mkint_ok in H as [-> _]. do 2 eexists; split; [reflexivity|split; [reflexivity|]].
  cbn [vden]. now rewrite Hmul.
Qed.

Lemma v_div_den x y v : v_div x y = Ok v ->
  exists kx ky, vden x = Some kx /\ vden y = Some ky /\ vden v = Some (kmul kx (kinv ky)).
Proof.
  destruct x, y; simpl; intros H; zcase; try discriminate;
    (injection H as <-; do 2 eexists; split; [reflexivity|split; reflexivity]).
Qed.

Lemma v_pow_den x y v : v_pow x y = Ok v ->
  exists kx ky, vden x = Some kx /\ vden y = Some ky /\ vden v = Some (kpow kx ky).
Proof.
  destruct x, y; simpl; intros H; try discriminate;
    try (injection H as <-; do 2 eexists; split; [reflexivity|split; reflexivity]).
  do 2 eexists; split; [reflexivity|split; [reflexivity|]].
  destruct (Z.leb 0 z0) eqn:L0.
  - destruct (Z.leb z0 4096); [|discriminate]. apply mkint_ok in H as [-> _].
    cbn [vden]. rewrite Hpow; [reflexivity|]. apply Z.leb_le; exact L0.
  - destruct (Z.eqb z 0); [discriminate|]. injection H as <-. reflexivity.
Qed.

Lemma v_fn_den f x v : v_fn f x = Ok v ->
  exists kx, vden x = Some kx /\ vden v = Some (kfn f kx).
Proof.
  destruct x; simpl; intros H; try discriminate; (injection H as <-; eexists; split; reflexivity).
Qed.

(* The value computed is the arithmetic value of the expression (as options: both are undefined exactly
   when the result is not a number, which can only happen for a bare NAME / NAME[i]). *)
Theorem eval_hom_eq env pn e : forall v, eval env pn e = Ok v -> aden env e = vden v.
Proof.
  induction e; intros v H; cbn [eval] in H; cbn [aden].
  - apply num_value_den; exact H.
  - destruct (lookup name env) as [v0|]; [|discriminate].
    destruct (mem_str name pn).
    + destruct v0; try discriminate. injection H as <-. reflexivity.
    + injection H as <-. reflexivity.
  - injection H as <-. reflexivity.
  - apply bind_ok in H as (iv & Hi & H).
    destruct (lookup name env) as [[]|]; try discriminate.
    destruct iv; try discriminate. rewrite (eval_pn_int _ _ _ _ Hi).
    destruct (Z.ltb z 0); [discriminate|].
    destruct (nth_error elems (Z.to_nat z)); [|discriminate]. injection H as <-. reflexivity.
  - injection H as <-. reflexivity.
  - eauto.
  - destruct neg; [|eauto]. apply bind_ok in H as (x & Hx & H).
    apply v_neg_den in H as (kx & Dx & ->). rewrite (IHe _ Hx), Dx. reflexivity.
  - apply bind_ok in H as (x & Hx & H). apply bind_ok in H as (y & Hy & H).
    apply v_pow_den in H as (kx & ky & Dx & Dy & ->). rewrite (IHe1 _ Hx), (IHe2 _ Hy), Dx, Dy. reflexivity.
  - destruct div; apply bind_ok in H as (x & Hx & H); apply bind_ok in H as (y & Hy & H).
    + apply v_div_den in H as (kx & ky & Dx & Dy & ->). rewrite (IHe1 _ Hx), (IHe2 _ Hy), Dx, Dy. reflexivity.
    + apply v_mul_den in H as (kx & ky & Dx & Dy & ->). rewrite (IHe1 _ Hx), (IHe2 _ Hy), Dx, Dy. reflexivity.
  - apply bind_ok in H as (x & Hx & H). apply bind_ok in H as (y & Hy & H).
    apply v_add_den in H as (kx & ky & Dx & Dy & ->). rewrite (IHe1 _ Hx), (IHe2 _ Hy), Dx, Dy.
    destruct sub; reflexivity.
  - apply bind_ok in H as (x & Hx & H).
    apply v_fn_den in H as (kx & Dx & ->). rewrite (IHe _ Hx), Dx. reflexivity.
Qed.

Theorem eval_hom env pn e v :
  eval env pn e = Ok v -> numeric v -> exists k, vden v = Some k /\ aden env e = Some k.
Proof.
  intros H N. destruct (numeric_vden _ N) as [k Hk]. exists k. split; [exact Hk|].
  rewrite (eval_hom_eq _ _ _ _ H). exact Hk.
Qed.

(* the result is a number as soon as the expression is not just a (bracketed, '+'-signed) NAME or NAME[i] *)
Fixpoint arith_head (e:expr) : Prop :=
  match e with
  | EVar _ _ _ | EIdx _ _ _ _ => False
  | EBr a | ESign false a => arith_head a
  | _ => True
  end.

Lemma arith_head_numeric env pn e : forall v, arith_head e -> eval env pn e = Ok v -> numeric v.
Proof.
  induction e; intros v A H; cbn [eval] in H; cbn [arith_head] in A; try contradiction.
  - destruct k; simpl in H.
    + destruct (parse_digits text); [|discriminate]. apply mkint_ok in H as [-> _]. exact I.
    + destruct (parse_float text); [|discriminate]. injection H as <-. exact I.
    + destruct (parse_complex text); [|discriminate]. injection H as <-. exact I.
    + injection H as <-. exact I.
  - injection H as <-. exact I.
  - injection H as <-. exact I.
  - eauto.
  - destruct neg; [|eauto]. apply bind_ok in H as (x & Hx & H).
    apply v_neg_den in H as (kx & _ & D). eapply vden_numeric; eauto.
  - apply bind_ok in H as (x & Hx & H). apply bind_ok in H as (y & Hy & H).
    apply v_pow_den in H as (kx & ky & _ & _ & D). eapply vden_numeric; eauto.
  - destruct div; apply bind_ok in H as (x & Hx & H); apply bind_ok in H as (y & Hy & H).
    + apply v_div_den in H as (kx & ky & _ & _ & D). eapply vden_numeric; eauto.
    + apply v_mul_den in H as (kx & ky & _ & _ & D). eapply vden_numeric; eauto.
  - apply bind_ok in H as (x & Hx & H). apply bind_ok in H as (y & Hy & H).
    apply v_add_den in H as (kx & ky & _ & _ & D). eapply vden_numeric; eauto.
  - apply bind_ok in H as (x & Hx & H). apply v_fn_den in H as (kx & _ & D). eapply vden_numeric; eauto.
Qed.

Corollary eval_hom_arith env pn e v :
  arith_head e -> eval env pn e = Ok v -> exists k, vden v = Some k /\ aden env e = Some k.
Proof. intros A H. eapply eval_hom; eauto. eapply arith_head_numeric; eauto. Qed.

End Hom.

(* ------------------------------------------------------------------------------------------------ *)
(* B. Integers stay integers; division and functions are real                                        *)
(* ------------------------------------------------------------------------------------------------ *)

(* the integer value of an expression of the integer fragment, in Z arithmetic (no int64 guard, no cap) *)
Fixpoint zden (env:list (str * value)) (e:expr) : option Z :=
  match e with
  | ENum NKInt text => parse_digits text
  | EVar x _ _ => match lookup x env with Some (VInt z) => Some z | _ => None end
  | EIdx x _ _ ie =>
      match zden env ie, lookup x env with
      | Some k, Some (VArr _ _ _ elems) =>
          if Z.ltb k 0 then None
          else match nth_error elems (Z.to_nat k) with Some (VInt z) => Some z | _ => None end
      | _, _ => None
      end
  | EBr a => zden env a
  | ESign false a => zden env a
  | ESign true a => option_map Z.opp (zden env a)
  | EAdd sub a b =>
      match zden env a, zden env b with
      | Some x, Some y => Some (if sub then x - y else x + y)%Z
      | _, _ => None
      end
  | EMul false a b =>
      match zden env a, zden env b with Some x, Some y => Some (x * y)%Z | _, _ => None end
  | EPow a b =>
      match zden env a, zden env b with
      | Some x, Some y => if Z.leb 0 y then Some (x ^ y)%Z else None     (* negative exponent: real *)
      | _, _ => None
      end
  | _ => None
  end.

(* integer expressions: integer literals, names bound to integers, elements of arrays of integers, brackets,
   signs, + - * and ** with an exponent whose integer value is not negative *)
Fixpoint int_expr (env:list (str * value)) (e:expr) : Prop :=
  match e with
  | ENum NKInt _ => True
  | EVar x _ _ => exists z, lookup x env = Some (VInt z)
  | EIdx x _ _ ie =>
      int_expr env ie /\
      exists ty r c elems, lookup x env = Some (VArr ty r c elems) /\ forall v, In v elems -> exists z, v = VInt z
  | EBr a | ESign _ a => int_expr env a
  | EAdd _ a b | EMul false a b => int_expr env a /\ int_expr env b
  | EPow a b => int_expr env a /\ int_expr env b /\ forall y, zden env b = Some y -> (0 <= y)%Z
  | _ => False
  end.

Theorem int_value env pn e : forall z v, zden env e = Some z -> eval env pn e = Ok v -> v = VInt z.
Proof.
  induction e; intros z v Z H; cbn [eval] in H; cbn [zden] in Z; try discriminate.
  - destruct k; try discriminate. simpl in H. rewrite Z in H. apply mkint_ok in H as [-> _]. reflexivity.
  - destruct (lookup name env) as [[]|]; try discriminate. injection Z as ->.
    destruct (mem_str name pn); [discriminate|]. injection H as <-. reflexivity.
  - apply bind_ok in H as (iv & Hi & H).
    destruct (zden env e) as [k|]; [|discriminate]. rewrite (IHe _ _ eq_refl Hi) in H.
    destruct (lookup name env) as [[]|]; try discriminate.
    destruct (Z.ltb k 0); [discriminate|].
    destruct (nth_error elems (Z.to_nat k)) as [[]|]; try discriminate.
    injection Z as ->. injection H as <-. reflexivity.
  - eauto.
  - destruct neg; [|eauto]. apply bind_ok in H as (x & Hx & H).
    destruct (zden env e) as [zx|]; [|discriminate]. injection Z as <-.
    rewrite (IHe _ _ eq_refl Hx) in H. simpl in H. apply mkint_ok in H as [-> _]. reflexivity.
  - apply bind_ok in H as (x & Hx & H). apply bind_ok in H as (y & Hy & H).
    destruct (zden env e1) as [zx|]; [|discriminate]. destruct (zden env e2) as [zy|]; [|discriminate].
    rewrite (IHe1 _ _ eq_refl Hx), (IHe2 _ _ eq_refl Hy) in H. simpl in H.
    destruct (Z.leb 0 zy); [|discriminate]. injection Z as <-.
    destruct (Z.leb zy 4096); [|discriminate]. apply mkint_ok in H as [-> _]. reflexivity.
  - destruct div; [discriminate|].
    apply bind_ok in H as (x & Hx & H). apply bind_ok in H as (y & Hy & H).
    destruct (zden env e1) as [zx|]; [|discriminate]. destruct (zden env e2) as [zy|]; [|discriminate].
    rewrite (IHe1 _ _ eq_refl Hx), (IHe2 _ _ eq_refl Hy) in H. simpl in H.
    injection Z as <-. apply mkint_ok in H as [-> _]. reflexivity.
  - apply bind_ok in H as (x & Hx & H). apply bind_ok in H as (y & Hy & H).
    destruct (zden env e1) as [zx|]; [|discriminate]. destruct (zden env e2) as [zy|]; [|discriminate].
    rewrite (IHe1 _ _ eq_refl Hx), (IHe2 _ _ eq_refl Hy) in H. simpl in H.
    injection Z as <-. apply mkint_ok in H as [-> _]. reflexivity.
Qed.

(* the result of an integer expression is an integer, and it is the integer value of the expression *)
Theorem int_closed_value env pn e : forall v,
  int_expr env e -> eval env pn e = Ok v -> exists z, v = VInt z /\ zden env e = Some z.
Proof.
  induction e; intros v I H; cbn [eval] in H; cbn [int_expr] in I; cbn [zden]; try contradiction.
  - destruct k; try contradiction. simpl in H.
    destruct (parse_digits text) as [z|]; [|discriminate]. apply mkint_ok in H as [-> _]. eauto.
  - destruct I as [z L]. rewrite L in H |- *.
    destruct (mem_str name pn); [discriminate|]. injection H as <-. eauto.
  - destruct I as (Ie & ty & r & c & elems & L & Hall).
    apply bind_ok in H as (iv & Hi & H). destruct (IHe _ Ie Hi) as (k & -> & Zk).
    rewrite L in H |- *. rewrite Zk.
    destruct (Z.ltb k 0); [discriminate|].
    destruct (nth_error elems (Z.to_nat k)) as [w|] eqn:N; [|discriminate]. injection H as <-.
    destruct (Hall _ (nth_error_In _ _ N)) as [z ->]. eauto.
  - eauto.
  - destruct neg; [|eauto]. apply bind_ok in H as (x & Hx & H).
    destruct (IHe _ I Hx) as (zx & -> & Zx). rewrite Zx. simpl in H. apply mkint_ok in H as [-> _].
    simpl. eauto.
  - destruct I as (Ia & Ib & Hnn).
    apply bind_ok in H as (x & Hx & H). apply bind_ok in H as (y & Hy & H).
    destruct (IHe1 _ Ia Hx) as (zx & -> & Zx). destruct (IHe2 _ Ib Hy) as (zy & -> & Zy).
    rewrite Zx, Zy. simpl in H. pose proof (Hnn _ Zy) as Hy0. apply Z.leb_le in Hy0. rewrite Hy0 in H |- *.
    destruct (Z.leb zy 4096); [|discriminate]. apply mkint_ok in H as [-> _]. eauto.
  - destruct div; [contradiction|]. destruct I as (Ia & Ib).
    apply bind_ok in H as (x & Hx & H). apply bind_ok in H as (y & Hy & H).
    destruct (IHe1 _ Ia Hx) as (zx & -> & Zx). destruct (IHe2 _ Ib Hy) as (zy & -> & Zy).
    rewrite Zx, Zy. simpl in H. apply mkint_ok in H as [-> _]. eauto.
  - destruct I as (Ia & Ib).
    apply bind_ok in H as (x & Hx & H). apply bind_ok in H as (y & Hy & H).
    destruct (IHe1 _ Ia Hx) as (zx & -> & Zx). destruct (IHe2 _ Ib Hy) as (zy & -> & Zy).
    rewrite Zx, Zy. simpl in H. apply mkint_ok in H as [-> _]. eauto.
Qed.

Corollary int_closed env e v : int_expr env e -> eval env [] e = Ok v -> exists z, v = VInt z.
Proof. intros I H. destruct (int_closed_value _ _ _ _ I H) as (z & -> & _). eauto. Qed.

(* without the condition on exponents the result is an integer or a real (never complex or symbolic):
   the condition in [int_expr] is exactly what excludes  int ** negative int  (see pow_neg_real, ex_pow_neg) *)
Fixpoint int_expr0 (env:list (str * value)) (e:expr) : Prop :=
  match e with
  | ENum NKInt _ => True
  | EVar x _ _ => exists z, lookup x env = Some (VInt z)
  | EIdx x _ _ ie =>
      int_expr0 env ie /\
      exists ty r c elems, lookup x env = Some (VArr ty r c elems) /\ forall v, In v elems -> exists z, v = VInt z
  | EBr a | ESign _ a => int_expr0 env a
  | EAdd _ a b | EMul false a b | EPow a b => int_expr0 env a /\ int_expr0 env b
  | _ => False
  end.

Definition int_or_flt (v:value) : Prop := (exists z, v = VInt z) \/ (exists t, v = VFlt t).

Theorem int_or_real env pn e : forall v, int_expr0 env e -> eval env pn e = Ok v -> int_or_flt v.
Proof.
  unfold int_or_flt.
  induction e; intros v I H; cbn [eval] in H; cbn [int_expr0] in I; try contradiction.
  - destruct k; try contradiction. simpl in H.
    destruct (parse_digits text) as [z|]; [|discriminate]. apply mkint_ok in H as [-> _]. eauto.
  - destruct I as [z L]. rewrite L in H.
    destruct (mem_str name pn); [discriminate|]. injection H as <-. eauto.
  - destruct I as (Ie & ty & r & c & elems & L & Hall).
    apply bind_ok in H as (iv & Hi & H). rewrite L in H.
    destruct iv; try discriminate. destruct (Z.ltb z 0); [discriminate|].
    destruct (nth_error elems (Z.to_nat z)) as [w|] eqn:N; [|discriminate]. injection H as <-.
    left. exact (Hall _ (nth_error_In _ _ N)).
  - eauto.
  - destruct neg; [|eauto]. apply bind_ok in H as (x & Hx & H).
    destruct (IHe _ I Hx) as [[z ->]|[t ->]]; simpl in H.
    + apply mkint_ok in H as [-> _]. eauto.
    + injection H as <-. eauto.
  - destruct I as (Ia & Ib).
    apply bind_ok in H as (x & Hx & H). apply bind_ok in H as (y & Hy & H).
    destruct (IHe1 _ Ia Hx) as [[zx ->]|[tx ->]]; destruct (IHe2 _ Ib Hy) as [[zy ->]|[ty' ->]]; simpl in H;
      try (injection H as <-; eauto; fail).
    destruct (Z.leb 0 zy).
    + destruct (Z.leb zy 4096); [|discriminate]. apply mkint_ok in H as [-> _]. eauto.
    + destruct (Z.eqb zx 0); [discriminate|]. injection H as <-. eauto.
  - destruct div; [contradiction|]. destruct I as (Ia & Ib).
    apply bind_ok in H as (x & Hx & H). apply bind_ok in H as (y & Hy & H).
    destruct (IHe1 _ Ia Hx) as [[zx ->]|[tx ->]]; destruct (IHe2 _ Ib Hy) as [[zy ->]|[ty' ->]]; simpl in H;
      try (injection H as <-; eauto; fail).
    apply mkint_ok in H as [-> _]. eauto.
  - destruct I as (Ia & Ib).
    apply bind_ok in H as (x & Hx & H). apply bind_ok in H as (y & Hy & H).
    destruct (IHe1 _ Ia Hx) as [[zx ->]|[tx ->]]; destruct (IHe2 _ Ib Hy) as [[zy ->]|[ty' ->]]; simpl in H;
      try (injection H as <-; eauto; fail).
    apply mkint_ok in H as [-> _]. eauto.
Qed.

(* the int64 guard: an Ok integer result is a 64-bit integer whenever an operator or a literal produced it *)
Lemma int_result_guarded env pn e z :
  arith_head e -> eval env pn e = Ok (VInt z) -> int64_ok z = true.
Proof.
  induction e; intros A H; cbn [eval] in H; cbn [arith_head] in A; try contradiction; try discriminate.
  - destruct k; simpl in H.
    + destruct (parse_digits text); [|discriminate]. apply mkint_ok in H as [E G]. injection E as ->. exact G.
    + destruct (parse_float text); discriminate.
    + destruct (parse_complex text); discriminate.
    + discriminate.
  - eauto.
  - destruct neg; [|eauto]. apply bind_ok in H as (x & Hx & H).
    destruct x; simpl in H; try discriminate. apply mkint_ok in H as [E G]. injection E as ->. exact G.
  - apply bind_ok in H as (x & Hx & H). apply bind_ok in H as (y & Hy & H).
    destruct x, y; simpl in H; try discriminate.
    destruct (Z.leb 0 z1).
    + destruct (Z.leb z1 4096); [|discriminate]. apply mkint_ok in H as [E G]. injection E as ->. exact G.
    + destruct (Z.eqb z0 0); discriminate.
  - destruct div; apply bind_ok in H as (x & Hx & H); apply bind_ok in H as (y & Hy & H);
      destruct x, y; simpl in H; zcase; try discriminate.
    apply mkint_ok in H as [E G]. injection E as ->. exact G.
  - apply bind_ok in H as (x & Hx & H). apply bind_ok in H as (y & Hy & H).
    destruct x, y; simpl in H; try discriminate. apply mkint_ok in H as [E G]. injection E as ->. exact G.
  - apply bind_ok in H as (x & Hx & H). destruct x; simpl in H; discriminate.
Qed.

(* integer ** negative integer is real *)
Theorem pow_neg_real env pn a b x y v :
  eval env pn a = Ok (VInt x) -> eval env pn b = Ok (VInt y) -> (y < 0)%Z ->
  eval env pn (EPow a b) = Ok v -> v = VFlt (TPow (TDec x 0) (TDec y 0)).
Proof.
  intros Ha Hb Hy H. cbn [eval] in H. rewrite Ha, Hb in H. simpl in H.
  assert (L : Z.leb 0 y = false) by (apply Z.leb_gt; exact Hy). rewrite L in H.
  destruct (Z.eqb x 0); [discriminate|]. injection H as <-. reflexivity.
Qed.

(* true division never yields an integer: the result is a * b^-1, real at least *)
Theorem div_real_term env pn a b v :
  eval env pn (EMul true a b) = Ok v ->
  exists x y ka ta kb tb,
    eval env pn a = Ok x /\ eval env pn b = Ok y /\
    num_view x = Some (ka, ta) /\ num_view y = Some (kb, tb) /\
    v = mk (kmax KF (kmax ka kb)) (TMul ta (TInv tb)).
Proof.
  intros H. cbn [eval] in H. apply bind_ok in H as (x & Hx & H). apply bind_ok in H as (y & Hy & H).
  exists x, y. destruct x, y; simpl in H; zcase; try discriminate;
    (injection H as <-; do 4 eexists; split; [exact Hx|split; [exact Hy|split; [reflexivity|split; reflexivity]]]).
Qed.

Theorem div_real env pn a b v :
  eval env pn (EMul true a b) = Ok v ->
  (forall z, v <> VInt z) /\
  exists ta tb, v = VFlt (TMul ta (TInv tb)) \/ v = VCpx (TMul ta (TInv tb)) \/ v = VSym (TMul ta (TInv tb)).
Proof.
  intros H. destruct (div_real_term _ _ _ _ _ H) as (x & y & ka & ta & kb & tb & _ & _ & _ & _ & ->).
  split.
  - intros z. destruct ka, kb; discriminate.
  - exists ta, tb. destruct ka, kb; simpl; auto.
Qed.

Theorem fn_real env pn f a v :
  eval env pn (EFun f a) = Ok v -> exists t, v = VFlt (TFn f t) \/ v = VCpx (TFn f t).
Proof.
  intros H. cbn [eval] in H. apply bind_ok in H as (x & Hx & H).
  destruct x; simpl in H; try discriminate; injection H as <-; eauto.
Qed.

(* ------------------------------------------------------------------------------------------------ *)
(* C. Row-major indexing                                                                              *)
(* ------------------------------------------------------------------------------------------------ *)

Lemma concat_nth_rc : forall A (rows:list (list A)) c r j d,
  (forall row, In row rows -> length row = c) -> r < length rows -> j < c ->
  nth (r * c + j) (concat rows) d = nth j (nth r rows []) d.
Proof.
  intros A rows c. induction rows as [|row rows IH]; intros r j d Hlen Hr Hj; [simpl in Hr; lia|].
  assert (Hrow : length row = c) by (apply Hlen; left; reflexivity).
  destruct r as [|r]; cbn [concat nth].
  - simpl. apply app_nth1. lia.
  - replace (S r * c + j) with (length row + (r * c + j)) by (rewrite Hrow; simpl; lia).
    rewrite app_nth2_plus. apply IH; [|simpl in Hr; lia|exact Hj].
    intros row' Hin. apply Hlen. right; exact Hin.
Qed.

Lemma concat_length_rc : forall A (rows:list (list A)) c,
  (forall row, In row rows -> length row = c) -> length (concat rows) = length rows * c.
Proof.
  intros A rows c. induction rows as [|row rows IH]; intros Hlen; [reflexivity|].
  cbn [concat]. rewrite app_length, IH.
  - rewrite (Hlen row); [simpl; lia|left; reflexivity].
  - intros row' Hin. apply Hlen. right; exact Hin.
Qed.

Theorem idx_row_major env pn x ty r c elems ie k l0 c0 :
  lookup x env = Some (VArr ty r c elems) ->
  eval env pn ie = Ok (VInt (Z.of_nat k)) -> k < length elems ->
  eval env pn (EIdx x l0 c0 ie) = Ok (nth k elems (VInt 0)).
Proof.
  intros L Hi Hk. cbn [eval]. rewrite Hi. cbn [bind]. rewrite L.
  assert (Hlt : Z.ltb (Z.of_nat k) 0 = false) by (apply Z.ltb_ge; lia). rewrite Hlt.
  rewrite Nat2Z.id. rewrite (nth_error_nth' elems (VInt 0) Hk). reflexivity.
Qed.

(* an index beyond the last element is refused; a negative index is outside the specification *)
Theorem idx_out_of_range env pn x ty r c elems ie k l0 c0 :
  lookup x env = Some (VArr ty r c elems) ->
  eval env pn ie = Ok (VInt (Z.of_nat k)) -> length elems <= k ->
  eval env pn (EIdx x l0 c0 ie) = Refuse EIndex.
Proof.
  intros L Hi Hk. cbn [eval]. rewrite Hi. cbn [bind]. rewrite L.
  assert (Hlt : Z.ltb (Z.of_nat k) 0 = false) by (apply Z.ltb_ge; lia). rewrite Hlt.
  rewrite Nat2Z.id. apply nth_error_None in Hk. rewrite Hk. reflexivity.
Qed.

(* two-dimensional reading: element (i, j) of an r x c array is at index i*c + j *)
Corollary idx_row_col env pn x ty (rows:list (list value)) c ie i j l0 c0 :
  (forall row, In row rows -> length row = c) ->
  lookup x env = Some (VArr ty (length rows) c (concat rows)) ->
  eval env pn ie = Ok (VInt (Z.of_nat (i * c + j))) -> i < length rows -> j < c ->
  eval env pn (EIdx x l0 c0 ie) = Ok (nth j (nth i rows []) (VInt 0)).
Proof.
  intros Hlen L Hi Hr Hj. rewrite <- (concat_nth_rc _ rows c i j (VInt 0) Hlen Hr Hj).
  eapply idx_row_major; eauto. rewrite (concat_length_rc _ _ _ Hlen). nia.
Qed.

(* ------------------------------------------------------------------------------------------------ *)
(* D. Casts                                                                                           *)
(* ------------------------------------------------------------------------------------------------ *)

Definition has_type (ty:vtype) (v:value) : Prop :=
  match ty, v with
  | VTInt, VInt _ | VTFloat, VFlt _ | VTComplex, VCpx _ | VTBool, VBool _ | VTStr, VStr _ => True
  | _, _ => False
  end.

Theorem cast_scalar_kind ty v v' :
  cast_scalar ty v = Ok v' -> (exists t, v = VSym t /\ v' = v) \/ has_type ty v'.
Proof.
  destruct ty, v; simpl; intros H; try discriminate; injection H as <-;
    try (left; eexists; split; reflexivity); right; exact I.
Qed.

Theorem cast_scalar_complex_refused t :
  cast_scalar VTInt (VCpx t) = Refuse ECast /\ cast_scalar VTFloat (VCpx t) = Refuse ECast.
Proof. split; reflexivity. Qed.

(* the only refusals of a scalar cast are complex -> int / float and the bare type "array" *)
Theorem cast_scalar_refuse_inv ty v c :
  cast_scalar ty v = Refuse c -> c = ECast /\ (ty = VTArray \/ ((ty = VTInt \/ ty = VTFloat) /\ exists t, v = VCpx t)).
Proof.
  destruct ty, v; simpl; intros H; try discriminate; injection H as <-;
    (split; [reflexivity| first [left; reflexivity | right; split; [auto|eauto]]]).
Qed.

Theorem cast_scalar_array_refused v : (forall t, v <> VSym t) -> cast_scalar VTArray v = Refuse ECast.
Proof. destruct v; simpl; intros H; try reflexivity. exfalso; eapply H; reflexivity. Qed.

Theorem cast_loop_kind ty v v' : cast_loop ty v = Ok v' -> has_type ty v'.
Proof.
  destruct ty, v; simpl; intros H; zcase; try discriminate; try (injection H as <-; exact I).
  - destruct t; try discriminate. destruct (dec_int m e).
    + apply mkint_ok in H as [-> _]. exact I.
    + destruct (dec_nonint m e); discriminate.
  - destruct p; try discriminate. injection H as <-. exact I.
Qed.

Theorem cast_loop_refuses :
  (forall s, cast_loop VTInt (VStr s) = Refuse ELoopValue) /\
  (forall s, cast_loop VTFloat (VStr s) = Refuse ELoopValue) /\
  (forall s, cast_loop VTComplex (VStr s) = Refuse ELoopValue) /\
  (forall s, cast_loop VTBool (VStr s) = Refuse ELoopValue) /\
  (forall z, cast_loop VTStr (VInt z) = Refuse ELoopValue) /\
  (forall t, cast_loop VTStr (VFlt t) = Refuse ELoopValue) /\
  (forall t, cast_loop VTStr (VCpx t) = Refuse ELoopValue) /\
  (forall b, cast_loop VTStr (VBool b) = Refuse ELoopValue) /\
  (forall t, cast_loop VTInt (VCpx t) = Refuse ELoopValue) /\
  (forall t, cast_loop VTFloat (VCpx t) = Refuse ELoopValue) /\
  (forall z, z <> 0%Z -> z <> 1%Z -> cast_loop VTBool (VInt z) = Refuse ELoopValue) /\
  (forall m e, dec_nonint m e = true -> cast_loop VTInt (VFlt (TDec m e)) = Refuse ELoopValue).
Proof.
  repeat split; try reflexivity.
  - intros z H0 H1. destruct z as [|p|p]; [contradiction|destruct p; try reflexivity; contradiction|reflexivity].
  - intros m e H. simpl. rewrite H. revert H. unfold dec_nonint, dec_int.
    destruct (Z.leb 0 e); [discriminate|]. destruct (Z.leb (- e) 400); [|discriminate].
    destruct (Z.eqb (m mod 10 ^ (- e)) 0); [discriminate|]. reflexivity.
Qed.

Example cast_loop_bool_2 : cast_loop VTBool (VInt 2) = Refuse ELoopValue.
Proof. reflexivity. Qed.

(* every refusal of a loop value is ELoopValue *)
Theorem cast_loop_refuse_inv ty v c : cast_loop ty v = Refuse c -> c = ELoopValue.
Proof.
  destruct ty, v; simpl; intros H; zcase; try discriminate; try (injection H as <-; reflexivity).
  - destruct t; try discriminate. destruct (dec_int m e).
    + exfalso. exact (mkint_nr _ _ H).
    + destruct (dec_nonint m e); [injection H as <-; reflexivity|discriminate].
  - destruct p; try discriminate; injection H as <-; reflexivity.
Qed.

(* a decimal loop value converted to int is converted exactly *)
Lemma dec_int_exact m e z :
  dec_int m e = Some z -> if Z.leb 0 e then z = (m * 10 ^ e)%Z else m = (z * 10 ^ (- e))%Z.
Proof.
  unfold dec_int. destruct (Z.leb 0 e) eqn:E0.
  - destruct (Z.leb e 30); intros H; [injection H as <-; reflexivity|discriminate].
  - destruct (Z.leb (- e) 400); [|discriminate].
    destruct (Z.eqb (m mod 10 ^ (- e)) 0) eqn:M; intros H; [|discriminate]. injection H as <-.
    apply Z.eqb_eq in M. apply Z.leb_gt in E0.
    assert (P : (0 < 10 ^ (- e))%Z) by (apply Z.pow_pos_nonneg; lia).
    pose proof (Z.div_mod m (10 ^ (- e)) ltac:(lia)) as D. rewrite M in D. lia.
Qed.

Lemma dec_nonint_spec m e : dec_nonint m e = true -> (e < 0)%Z /\ (m mod 10 ^ (- e) <> 0)%Z.
Proof.
  unfold dec_nonint. destruct (Z.leb 0 e) eqn:E0; [discriminate|].
  destruct (Z.leb (- e) 400); [|discriminate]. intros H. apply negb_true_iff in H. apply Z.eqb_neq in H.
  apply Z.leb_gt in E0. auto.
Qed.

Theorem cast_loop_int_exact m e v' :
  cast_loop VTInt (VFlt (TDec m e)) = Ok v' ->
  exists z, v' = VInt z /\ if Z.leb 0 e then z = (m * 10 ^ e)%Z else m = (z * 10 ^ (- e))%Z.
Proof.
  simpl. destruct (dec_int m e) as [z|] eqn:D.
  - intros H. apply mkint_ok in H as [-> _]. exists z. split; [reflexivity|]. apply dec_int_exact; exact D.
  - destruct (dec_nonint m e); discriminate.
Qed.

Theorem cast_elem_kind ty v v' :
  cast_elem ty v = Ok v' -> has_type ty v' /\ (ty = VTInt \/ ty = VTFloat \/ ty = VTComplex).
Proof. destruct ty, v; simpl; intros H; try discriminate; injection H as <-; (split; [exact I|auto]). Qed.

Theorem cast_elem_refuse_inv ty v c : cast_elem ty v = Refuse c -> c = EArrayType.
Proof. destruct ty, v; simpl; intros H; try discriminate; injection H as <-; reflexivity. Qed.

Theorem cast_elem_refuses t :
  cast_elem VTInt (VCpx t) = Refuse EArrayType /\ cast_elem VTFloat (VCpx t) = Refuse EArrayType /\
  cast_elem VTInt (VSym t) = Refuse EArrayType /\ cast_elem VTFloat (VSym t) = Refuse EArrayType /\
  cast_elem VTComplex (VSym t) = Refuse EArrayType.
Proof. repeat split; reflexivity. Qed.

Section CastValue.
Variable K : Type.
Variables kadd kmul kpow : K -> K -> K.
Variables kneg kinv : K -> K.
Variable kfn : fn -> K -> K.
Variable kdec : Z -> Z -> K.
Variables kpi ki : K.
Variables rho_par rho_reg : str -> K.
Let vden' := vden K kadd kmul kpow kneg kinv kfn kdec kpi ki rho_par rho_reg.

(* casts keep the arithmetic value (int -> float / complex keeps kdec z 0) *)
Theorem cast_scalar_value ty v v' : cast_scalar ty v = Ok v' -> vden' v' = vden' v.
Proof. destruct ty, v; simpl; intros H; try discriminate; injection H as <-; reflexivity. Qed.

Theorem cast_elem_value ty v v' : cast_elem ty v = Ok v' -> vden' v' = vden' v.
Proof. destruct ty, v; simpl; intros H; try discriminate; injection H as <-; reflexivity. Qed.

(* loop values: exact except bool <-> number conversions (no arithmetic value for booleans) and
   decimal -> int, which is exact in Z (cast_loop_int_exact) and needs [kdec m e = kdec z 0] in K *)
Hypothesis Hdec : forall m e z, dec_int m e = Some z -> kdec m e = kdec z 0.

Theorem cast_loop_value ty v v' :
  (forall b, v <> VBool b) -> (forall b, v' <> VBool b) -> cast_loop ty v = Ok v' -> vden' v' = vden' v.
Proof.
  intros NB NB'. destruct ty, v; simpl; intros H; zcase; try discriminate;
    try (injection H as <-; reflexivity); try (exfalso; eapply NB; reflexivity).
  - destruct t; try discriminate. destruct (dec_int m e) eqn:D.
    + apply mkint_ok in H as [-> _]. unfold vden'. simpl. symmetry. f_equal. apply Hdec; exact D.
    + destruct (dec_nonint m e); discriminate.
  - injection H as <-. exfalso; eapply NB'; reflexivity.
  - destruct p; try discriminate. injection H as <-. exfalso; eapply NB'; reflexivity.
Qed.
End CastValue.

(* ------------------------------------------------------------------------------------------------ *)
(* E. Faults propagate                                                                                *)
(* ------------------------------------------------------------------------------------------------ *)

Fixpoint mentions (x:str) (e:expr) : Prop :=
  match e with
  | EVar y _ _ => y = x
  | EIdx y _ _ ie => y = x \/ mentions x ie
  | EBr a | ESign _ a | EFun _ a => mentions x a
  | EPow a b | EMul _ a b | EAdd _ a b => mentions x a \/ mentions x b
  | _ => False
  end.

(* every operator is strict: an expression mentioning an undefined name never has a value *)
Theorem undefined_never_ok env pn x e :
  lookup x env = None -> mentions x e -> forall v, eval env pn e <> Ok v.
Proof.
  intros L. induction e; intros M v H; cbn [eval] in H; cbn [mentions] in M; try contradiction.
  - subst name. rewrite L in H. discriminate.
  - apply bind_ok in H as (iv & Hi & H). destruct M as [->|M].
    + rewrite L in H. discriminate.
    + exact (IHe M _ Hi).
  - exact (IHe M _ H).
  - destruct neg; [|exact (IHe M _ H)]. apply bind_ok in H as (y & Hy & H). exact (IHe M _ Hy).
  - apply bind_ok in H as (a & Ha & H). apply bind_ok in H as (b & Hb & H).
    destruct M as [M|M]; [exact (IHe1 M _ Ha)|exact (IHe2 M _ Hb)].
  - destruct div; apply bind_ok in H as (a & Ha & H); apply bind_ok in H as (b & Hb & H);
      (destruct M as [M|M]; [exact (IHe1 M _ Ha)|exact (IHe2 M _ Hb)]).
  - apply bind_ok in H as (a & Ha & H). apply bind_ok in H as (b & Hb & H).
    destruct M as [M|M]; [exact (IHe1 M _ Ha)|exact (IHe2 M _ Hb)].
  - apply bind_ok in H as (a & Ha & H). exact (IHe M _ Ha).
Qed.

(* the first undefined name in evaluation order (left to right; the index of NAME[e] before NAME) *)
Definition undef_name (env:list (str * value)) (x:str) (l c:nat) : option errclass :=
  match lookup x env with None => Some (EUndefined x l c) | Some _ => None end.

Fixpoint undef_first (env:list (str * value)) (e:expr) : option errclass :=
  match e with
  | EVar x l c => undef_name env x l c
  | EIdx x l c ie => match undef_first env ie with Some u => Some u | None => undef_name env x l c end
  | EBr a | ESign _ a | EFun _ a => undef_first env a
  | EPow a b | EMul _ a b | EAdd _ a b =>
      match undef_first env a with Some u => Some u | None => undef_first env b end
  | _ => None
  end.

Lemma undef_first_mentions env e : forall u,
  undef_first env e = Some u -> exists x l c, u = EUndefined x l c /\ lookup x env = None /\ mentions x e.
Proof.
  assert (N : forall x l c u, undef_name env x l c = Some u -> u = EUndefined x l c /\ lookup x env = None).
  { intros x l c u. unfold undef_name. destruct (lookup x env); intros H; [discriminate|].
    injection H as <-. auto. }
  induction e; intros u H; cbn [undef_first] in H; cbn [mentions]; try discriminate.
  - apply N in H as [-> L]. eauto 6.
  - destruct (undef_first env e) as [u'|].
    + injection H as <-. destruct (IHe _ eq_refl) as (x & l & c & -> & L & M). eauto 8.
    + apply N in H as [-> L]. eauto 8.
  - eauto.
  - eauto.
  - destruct (undef_first env e1) as [u'|].
    + injection H as <-. destruct (IHe1 _ eq_refl) as (x & l & c & -> & L & M). eauto 8.
    + destruct (IHe2 _ H) as (x & l & c & -> & L & M). eauto 8.
  - destruct (undef_first env e1) as [u'|].
    + injection H as <-. destruct (IHe1 _ eq_refl) as (x & l & c & -> & L & M). eauto 8.
    + destruct (IHe2 _ H) as (x & l & c & -> & L & M). eauto 8.
  - destruct (undef_first env e1) as [u'|].
    + injection H as <-. destruct (IHe1 _ eq_refl) as (x & l & c & -> & L & M). eauto 8.
    + destruct (IHe2 _ H) as (x & l & c & -> & L & M). eauto 8.
  - eauto.
Qed.

Lemma mentions_undef_first env x e :
  lookup x env = None -> mentions x e -> exists u, undef_first env e = Some u.
Proof.
  intros L. induction e; intros M; cbn [mentions] in M; cbn [undef_first]; try contradiction.
  - subst name. unfold undef_name. rewrite L. eauto.
  - destruct (undef_first env e); [eauto|]. destruct M as [->|M].
    + unfold undef_name. rewrite L. eauto.
    + destruct (IHe M) as [u U]. discriminate.
  - eauto.
  - eauto.
  - destruct (undef_first env e1); [eauto|]. destruct M as [M|M]; [destruct (IHe1 M); discriminate|eauto].
  - destruct (undef_first env e1); [eauto|]. destruct M as [M|M]; [destruct (IHe1 M); discriminate|eauto].
  - destruct (undef_first env e1); [eauto|]. destruct M as [M|M]; [destruct (IHe1 M); discriminate|eauto].
  - eauto.
Qed.

Lemma undef_first_never_ok env pn e u : undef_first env e = Some u -> forall v, eval env pn e <> Ok v.
Proof.
  intros U. destruct (undef_first_mentions _ _ _ U) as (x & l & c & _ & L & M).
  eapply undefined_never_ok; eauto.
Qed.

Lemma eval_ok_undef_none env pn e v : eval env pn e = Ok v -> undef_first env e = None.
Proof.
  intros H. destruct (undef_first env e) eqn:U; [|reflexivity].
  exfalso. exact (undef_first_never_ok _ pn _ _ U _ H).
Qed.

(* the refusals of expression evaluation: an index past the end, a p-name that is not an array, or the first
   undefined name (with the position of that occurrence) *)
Theorem eval_refuse_inv env pn e : forall c,
  eval env pn e = Refuse c -> c = EIndex \/ c = EPNameNotArray \/ undef_first env e = Some c.
Proof.
  induction e; intros c H; cbn [eval] in H; cbn [undef_first].
  - destruct k; simpl in H.
    + destruct (parse_digits text); [exfalso; exact (mkint_nr _ _ H)|discriminate].
    + destruct (parse_float text); discriminate.
    + destruct (parse_complex text); discriminate.
    + discriminate.
  - unfold undef_name. destruct (lookup name env) as [v0|].
    + destruct (mem_str name pn); [|discriminate]. destruct v0; try discriminate; injection H as <-; auto.
    + injection H as <-. auto.
  - discriminate.
  - apply bind_refuse in H as [H|(iv & Hi & H)].
    + destruct (IHe _ H) as [->|[->|U]]; auto. rewrite U. auto.
    + rewrite (eval_ok_undef_none _ _ _ _ Hi). unfold undef_name.
      destruct (lookup name env) as [[]|]; try discriminate.
      * destruct iv; try discriminate. destruct (Z.ltb z 0); [discriminate|].
        destruct (nth_error elems (Z.to_nat z)); [discriminate|]. injection H as <-. auto.
      * injection H as <-. auto.
  - discriminate.
  - eauto.
  - destruct neg; [|eauto]. apply bind_refuse in H as [H|(x & Hx & H)]; [eauto|].
    exfalso. exact (v_neg_nr _ _ H).
  - apply bind_refuse in H as [H|(x & Hx & H)].
    + destruct (IHe1 _ H) as [->|[->|U]]; auto. rewrite U. auto.
    + rewrite (eval_ok_undef_none _ _ _ _ Hx). apply bind_refuse in H as [H|(y & Hy & H)]; [eauto|].
      exfalso. exact (v_pow_nr _ _ _ H).
  - destruct div.
    + apply bind_refuse in H as [H|(x & Hx & H)].
      * destruct (IHe1 _ H) as [->|[->|U]]; auto. rewrite U. auto.
      * rewrite (eval_ok_undef_none _ _ _ _ Hx). apply bind_refuse in H as [H|(y & Hy & H)]; [eauto|].
        exfalso. exact (v_div_nr _ _ _ H).
    + apply bind_refuse in H as [H|(x & Hx & H)].
      * destruct (IHe1 _ H) as [->|[->|U]]; auto. rewrite U. auto.
      * rewrite (eval_ok_undef_none _ _ _ _ Hx). apply bind_refuse in H as [H|(y & Hy & H)]; [eauto|].
        exfalso. exact (v_mul_nr _ _ _ H).
  - apply bind_refuse in H as [H|(x & Hx & H)].
    + destruct (IHe1 _ H) as [->|[->|U]]; auto. rewrite U. auto.
    + rewrite (eval_ok_undef_none _ _ _ _ Hx). apply bind_refuse in H as [H|(y & Hy & H)]; [eauto|].
      exfalso. exact (v_add_nr _ _ _ _ H).
  - apply bind_refuse in H as [H|(x & Hx & H)]; [eauto|]. exfalso. exact (v_fn_nr _ _ _ H).
Qed.

(* an EUndefined refusal names an undefined name that occurs in the expression *)
Corollary refuse_undefined_sound env pn e x l c :
  eval env pn e = Refuse (EUndefined x l c) -> lookup x env = None /\ mentions x e.
Proof.
  intros H. destruct (eval_refuse_inv _ _ _ _ H) as [E|[E|U]]; try discriminate.
  destruct (undef_first_mentions _ _ _ U) as (x' & l' & c' & E & L & M). injection E as -> -> ->. auto.
Qed.

(* with an undefined name, the outcome is the refusal naming the first one, unless an earlier fault of
   another class (index past the end, p-name not an array) or an excluded input (Unspec) comes first *)
Theorem undefined_leftmost env pn e u :
  undef_first env e = Some u ->
  eval env pn e = Refuse u \/ eval env pn e = Unspec \/
  eval env pn e = Refuse EIndex \/ eval env pn e = Refuse EPNameNotArray.
Proof.
  intros U. destruct (eval env pn e) as [v|c|] eqn:H.
  - exfalso. exact (undef_first_never_ok _ pn _ _ U _ H).
  - destruct (eval_refuse_inv _ _ _ _ H) as [->|[->|U']]; auto.
    rewrite U in U'. injection U' as ->. auto.
  - auto.
Qed.

Corollary undefined_leftmost_refuse env pn e u :
  undef_first env e = Some u ->
  eval env pn e <> Unspec -> eval env pn e <> Refuse EIndex -> eval env pn e <> Refuse EPNameNotArray ->
  eval env pn e = Refuse u.
Proof. intros U H1 H2 H3. destruct (undefined_leftmost env pn e u U) as [H|[H|[H|H]]]; tauto. Qed.

(* ---- values and arguments ---- *)
Definition mentions_val (x:str) (v:val) : Prop := match v with VE e => mentions x e | _ => False end.
Definition mentions_kw (x:str) (k:kwval) : Prop :=
  match k with KV v => mentions_val x v | KL l => exists v, In v l /\ mentions_val x v end.
Definition mentions_args (x:str) (a:arguments) : Prop :=
  (exists v, In v (apos a) /\ mentions_val x v) \/
  (exists k kv, In (k, kv) (akw a) /\ mentions_kw x kv).

Theorem eval_val_undefined env pn x w :
  lookup x env = None -> mentions_val x w -> forall v, eval_val env pn w <> Ok v.
Proof.
  intros L M v. destruct w; simpl in M; try contradiction. simpl. eapply undefined_never_ok; eauto.
Qed.

Lemma mapM_eval_val_undefined env pn x l :
  lookup x env = None -> (exists w, In w l /\ mentions_val x w) -> forall r, mapM (eval_val env pn) l <> Ok r.
Proof.
  intros L (w & Hin & M) r H. destruct (mapM_ok_all _ _ _ H _ Hin) as [y Hy].
  exact (eval_val_undefined _ _ _ _ L M _ Hy).
Qed.

(* the keyword loop of eval_args, named *)
Section KwGo.
Variable env : list (str * value).
Variable pn : list str.
Fixpoint kw_go (l:list (str * kwval)) (acc:list (str * value)) : outcome (list (str * value)) :=
  match l with
  | [] => Ok acc
  | (k, KV v) :: l' => do x <- eval_val env pn v; kw_go l' (dict_set k x acc)
  | (k, KL []) :: l' => kw_go l' acc
  | (k, KL vs) :: l' => do xs <- mapM (eval_val env pn) vs; kw_go l' (dict_set k (VList xs) acc)
  end.
End KwGo.

Lemma eval_args_unfold env pn a :
  eval_args env pn a =
  (do ps <- mapM (eval_val env pn) (apos a); do kws <- kw_go env pn (akw a) []; Ok (ps, kws)).
Proof. reflexivity. Qed.

Lemma kw_go_ok env pn : forall l acc r, kw_go env pn l acc = Ok r ->
  forall k kv, In (k, kv) l ->
  match kv with
  | KV v => exists y, eval_val env pn v = Ok y
  | KL vs => forall v, In v vs -> exists y, eval_val env pn v = Ok y
  end.
Proof.
  induction l as [|[k0 kv0] l IH]; intros acc r H k kv Hin; [destruct Hin|].
  cbn [kw_go] in H. destruct kv0 as [v0|[|v0 vs0]].
  - apply bind_ok in H as (x & Hx & H). destruct Hin as [E|Hin]; [|eapply IH; eauto].
    injection E as <- <-. eauto.
  - destruct Hin as [E|Hin]; [|eapply IH; eauto]. injection E as <- <-. intros v [].
  - apply bind_ok in H as (xs & Hxs & H). destruct Hin as [E|Hin]; [|eapply IH; eauto].
    injection E as <- <-. intros v Hv. eapply mapM_ok_all; eauto.
Qed.

Theorem eval_args_ok_all env pn a r :
  eval_args env pn a = Ok r ->
  (forall v, In v (apos a) -> exists y, eval_val env pn v = Ok y) /\
  (forall k v, In (k, KV v) (akw a) -> exists y, eval_val env pn v = Ok y) /\
  (forall k vs v, In (k, KL vs) (akw a) -> In v vs -> exists y, eval_val env pn v = Ok y).
Proof.
  rewrite eval_args_unfold. intros H.
  apply bind_ok in H as (ps & Hps & H). apply bind_ok in H as (kws & Hkws & _).
  split; [|split].
  - intros v Hin. eapply mapM_ok_all; eauto.
  - intros k v Hin. exact (kw_go_ok _ _ _ _ _ Hkws _ _ Hin).
  - intros k vs v Hin Hv. exact (kw_go_ok _ _ _ _ _ Hkws _ _ Hin v Hv).
Qed.

Theorem eval_args_undefined env pn x a :
  lookup x env = None -> mentions_args x a -> forall r, eval_args env pn a <> Ok r.
Proof.
  intros L M r H. destruct (eval_args_ok_all _ _ _ _ H) as (Hp & Hk & Hl).
  destruct M as [(v & Hin & M)|(k & kv & Hin & M)].
  - destruct (Hp _ Hin) as [y Hy]. exact (eval_val_undefined _ _ _ _ L M _ Hy).
  - destruct kv as [v|vs]; simpl in M.
    + destruct (Hk _ _ Hin) as [y Hy]. exact (eval_val_undefined _ _ _ _ L M _ Hy).
    + destruct M as (v & Hv & M). destruct (Hl _ _ _ Hin Hv) as [y Hy].
      exact (eval_val_undefined _ _ _ _ L M _ Hy).
Qed.

(* ---- statements and declarations ---- *)
Theorem exec_stmt_undefined incs s t x :
  lookup x (s_env s) = None ->
  (exists e, In e (smodes t) /\ mentions x e) \/ (exists a, sargs t = Some a /\ mentions_args x a) ->
  forall s', exec_stmt incs s t <> Ok s'.
Proof.
  intros L M s' H. unfold exec_stmt in H.
  apply bind_ok in H as (mvs & Hm & H). apply bind_ok in H as (ms & Hms & H).
  apply bind_ok in H as (a & Ha & _).
  destruct M as [(e & Hin & M)|(a0 & Hs & M)].
  - destruct (mapM_ok_all _ _ _ Hm _ Hin) as [y Hy]. exact (undefined_never_ok _ _ _ _ L M _ Hy).
  - rewrite Hs in Ha. simpl in Ha. apply bind_ok in Ha as (r & Hr & _).
    exact (eval_args_undefined _ _ _ _ L M _ Hr).
Qed.

Theorem exec_scalar_undefined incs tdm s ty n init l c x :
  lookup x (s_env s) = None -> mentions_val x init ->
  forall s', exec_item incs tdm s (IScalar ty n init l c) <> Ok s'.
Proof.
  intros L M s' H. cbn [exec_item] in H.
  apply bind_ok in H as (nm & _ & H). apply bind_ok in H as (v & Hv & _).
  exact (eval_val_undefined _ _ _ _ L M _ Hv).
Qed.

(* ---- array declarations: layout (C05) and fault propagation ---- *)
Lemma str_eqb_refl s : str_eqb s s = true.
Proof. induction s as [|c s IH]; simpl; [reflexivity|]. rewrite N.eqb_refl. exact IH. Qed.

Lemma lookup_dict_set_same {A} x (v:A) env : lookup x (dict_set x v env) = Some v.
Proof.
  induction env as [|[k w] env IH]; simpl.
  - rewrite str_eqb_refl. reflexivity.
  - destruct (str_eqb x k) eqn:E; simpl.
    + rewrite str_eqb_refl. reflexivity.
    + rewrite E. exact IH.
Qed.

Lemma rows_match {T} (rows:list (list expr)) (a:T) (b:str -> T) (c:T) :
  (forall p, rows <> [[EPar p]]) -> rows <> [] ->
  match rows with [] => a | [[EPar p]] => b p | _ => c end = c.
Proof.
  intros H1 H2. destruct rows as [|[|[] [|]] [|]]; try reflexivity; exfalso;
    first [exact (H2 eq_refl) | exact (H1 _ eq_refl)].
Qed.

Lemma rows_shape_dec (rows:list (list expr)) :
  (exists p, rows = [[EPar p]]) \/ (forall p, rows <> [[EPar p]]).
Proof. destruct rows as [|[|[] [|]] [|]]; try (right; intros p; discriminate). left; eauto. Qed.

Lemma all_same_len_spec {A} (rows:list (list A)) :
  all_same_len rows = true ->
  forall row, In row rows -> length row = match rows with r :: _ => length r | [] => 0 end.
Proof.
  destruct rows as [|r rs]; simpl; intros H row Hin; [destruct Hin|].
  destruct Hin as [<-|Hin]; [reflexivity|].
  rewrite forallb_forall in H. apply Nat.eqb_eq. exact (H _ Hin).
Qed.

(* value stored for one array element *)
Definition elem_eval (env:list (str * value)) (pn:list str) (ty:vtype) (e:expr) : outcome value :=
  match e with
  | EPar p => Ok (VSym (TPar p))
  | _ => do v <- eval env pn e; cast_elem ty v
  end.

(* an explicit array declaration that is accepted stores, under its name, the rows x cols array whose
   elements are the values of the written elements in row-major order; all rows have the same length;
   a declared shape agrees with the written one *)
Theorem array_layout incs tdm s ty n shape rows l c s' :
  exec_item incs tdm s (IArray ty n shape (ARows rows) l c) = Ok s' ->
  (forall p, rows <> [[EPar p]]) ->
  exists x cn elems,
    n = DName x /\ rows <> [] /\
    (forall row, In row rows -> length row = cn) /\
    mapM (elem_eval (s_env s) (s_pnames s) ty) (concat rows) = Ok elems /\
    lookup x (s_env s') = Some (VArr ty (length rows) cn elems) /\
    match shape with
    | None => True
    | Some sh => shape_vals sh = Some [Z.of_nat (length rows); Z.of_nat cn]
    end.
Proof.
  intros H NP. cbn [exec_item] in H. apply bind_ok in H as (x & Hn & H).
  assert (NE : rows <> []) by (intros ->; discriminate).
  rewrite (rows_match rows _ _ _ NP NE) in H.
  apply bind_ok in H as (elems & Hel & H).
  destruct (all_same_len rows) eqn:A; cbn [negb] in H; [|discriminate].
  exists x, (match rows with r :: _ => length r | [] => 0 end), elems.
  split; [destruct n; simpl in Hn; try discriminate; injection Hn as ->; reflexivity|].
  split; [exact NE|]. split; [exact (all_same_len_spec _ A)|]. split; [exact Hel|].
  destruct shape as [sh|].
  - destruct (shape_vals sh) as [[|r0 [|c0 [|]]]|]; try discriminate.
    destruct (Z.eqb r0 (Z.of_nat (length rows)) && Z.eqb c0 (Z.of_nat match rows with r :: _ => length r | [] => 0 end))%bool eqn:B;
      [|discriminate].
    apply andb_true_iff in B as [B1 B2]. apply Z.eqb_eq in B1, B2. subst r0 c0.
    injection H as <-. cbn [s_env]. split; [apply lookup_dict_set_same|reflexivity].
  - injection H as <-. cbn [s_env]. split; [apply lookup_dict_set_same|exact I].
Qed.

(* element (i, j) as written is the element at index i*cols + j of the stored array *)
Corollary array_layout_rc incs tdm s ty n shape rows l c s' :
  exec_item incs tdm s (IArray ty n shape (ARows rows) l c) = Ok s' ->
  (forall p, rows <> [[EPar p]]) ->
  exists x cn elems,
    lookup x (s_env s') = Some (VArr ty (length rows) cn elems) /\
    length elems = length rows * cn /\
    forall i j d d', i < length rows -> j < cn ->
      elem_eval (s_env s) (s_pnames s) ty (nth j (nth i rows []) d) = Ok (nth (i * cn + j) elems d').
Proof.
  intros H NP. destruct (array_layout _ _ _ _ _ _ _ _ _ _ H NP) as (x & cn & elems & _ & _ & Hlen & Hel & L & _).
  exists x, cn, elems. split; [exact L|].
  pose proof (concat_length_rc _ _ _ Hlen) as CL. split.
  - rewrite (mapM_ok_length _ _ _ Hel). exact CL.
  - intros i j d d' Hi Hj. rewrite <- (concat_nth_rc _ rows cn i j d Hlen Hi Hj).
    apply (mapM_ok_nth _ _ _ Hel). rewrite CL. nia.
Qed.

Theorem array_undefined incs tdm s ty n shape rows l c x e :
  lookup x (s_env s) = None -> In e (concat rows) -> mentions x e ->
  forall s', exec_item incs tdm s (IArray ty n shape (ARows rows) l c) <> Ok s'.
Proof.
  intros L Hin M s' H. destruct (rows_shape_dec rows) as [[p ->]|NP].
  - simpl in Hin. destruct Hin as [<-|[]]. exact M.
  - destruct (array_layout _ _ _ _ _ _ _ _ _ _ H NP) as (x' & cn & elems & _ & _ & _ & Hel & _).
    destruct (mapM_ok_all _ _ _ Hel _ Hin) as [y Hy].
    destruct e; cbn [mentions] in M; try contradiction; cbn [elem_eval] in Hy;
      apply bind_ok in Hy as (v & Hv & _); eapply undefined_never_ok; try exact Hv; eauto.
Qed.

(* ---- for loops: list values are evaluated strictly, every loop value passes cast_loop ---- *)
Section ForIter.
Variable incs : list (str * prog).
Variable ty : vtype.
Variable x : str.
Variable body : list stmt.
Fixpoint for_iter (vs:list value) (s0:st) : outcome st :=
  match vs with
  | [] => Ok s0
  | v :: vs' =>
      do v' <- cast_loop ty v;
      do s1 <- exec_stmts incs (mkst (dict_set x v' (s_env s0)) (s_pars s0) (s_pnames s0) (s_ops s0) (s_modes s0)) body;
      for_iter vs' s1
  end.

Lemma for_iter_casts : forall vs s0 s', for_iter vs s0 = Ok s' ->
  forall v, In v vs -> exists v', cast_loop ty v = Ok v' /\ has_type ty v'.
Proof.
  induction vs as [|v0 vs IH]; intros s0 s' H v Hin; [destruct Hin|].
  cbn [for_iter] in H. apply bind_ok in H as (v' & Hc & H). apply bind_ok in H as (s1 & _ & H).
  destruct Hin as [<-|Hin]; [|eauto]. exists v'. split; [exact Hc|]. eapply cast_loop_kind; eauto.
Qed.
End ForIter.

Theorem for_list_ok incs tdm s ty x lst body s' :
  exec_item incs tdm s (IFor ty x (HList lst) body) = Ok s' ->
  exists vals, mapM (eval_val (s_env s) (s_pnames s)) lst = Ok vals /\
               forall v, In v vals -> exists v', cast_loop ty v = Ok v' /\ has_type ty v'.
Proof.
  intros H. cbn [exec_item] in H. apply bind_ok in H as (vals & Hv & H).
  exists vals. split; [exact Hv|].
  destruct (lookup x (s_env s)); [discriminate|].
  apply bind_ok in H as (s1 & Hit & _).
  exact (for_iter_casts incs ty x body _ _ _ Hit).
Qed.

Theorem for_list_undefined incs tdm s ty x lst body y :
  lookup y (s_env s) = None -> (exists w, In w lst /\ mentions_val y w) ->
  forall s', exec_item incs tdm s (IFor ty x (HList lst) body) <> Ok s'.
Proof.
  intros L M s' H. destruct (for_list_ok _ _ _ _ _ _ _ _ H) as (vals & Hv & _).
  exact (mapM_eval_val_undefined _ _ _ _ L M _ Hv).
Qed.

(* ------------------------------------------------------------------------------------------------ *)
(* Examples                                                                                           *)
(* ------------------------------------------------------------------------------------------------ *)
Definition n2 := ENum NKInt [50%N].
Definition n3 := ENum NKInt [51%N].
Definition n7 := ENum NKInt [55%N].

(* 7/2 *)
Example ex_div : eval [] [] (EMul true n7 n2) = Ok (VFlt (TMul (TDec 7 0) (TInv (TDec 2 0)))).
Proof. vm_compute. reflexivity. Qed.
(* 2**3**2 = 2**(3**2) *)
Example ex_pow_right : eval [] [] (EPow n2 (EPow n3 n2)) = Ok (VInt 512).
Proof. vm_compute. reflexivity. Qed.
(* -2**2 parsed as (-2)**2 *)
Example ex_neg_pow : eval [] [] (EPow (ESign true n2) n2) = Ok (VInt 4).
Proof. vm_compute. reflexivity. Qed.
(* 7 - 2*3 *)
Example ex_int : eval [] [] (EAdd true n7 (EMul false n2 n3)) = Ok (VInt 1).
Proof. vm_compute. reflexivity. Qed.
(* 2 ** -3 is real *)
Example ex_pow_neg : eval [] [] (EPow n2 (ESign true n3)) = Ok (VFlt (TPow (TDec 2 0) (TDec (-3) 0))).
Proof. vm_compute. reflexivity. Qed.
(* 7/0 is outside the specification *)
Example ex_div0 : eval [] [] (EMul true n7 (ENum NKInt [48%N])) = Unspec.
Proof. vm_compute. reflexivity. Qed.
(* 1.5e-3 ; 2+3j ; pi *)
Example ex_float : eval [] [] (ENum NKFloat [49; 46; 53; 101; 45; 51]%N) = Ok (VFlt (TDec 15 (-4))).
Proof. vm_compute. reflexivity. Qed.
Example ex_complex : eval [] [] (ENum NKComplex [50; 43; 51; 106]%N) = Ok (VCpx (TAdd (TDec 2 0) (TMul (TDec 3 0) TI))).
Proof. vm_compute. reflexivity. Qed.
Example ex_sqrt : eval [] [] (EFun FSqrt n2) = Ok (VFlt (TFn FSqrt (TDec 2 0))).
Proof. vm_compute. reflexivity. Qed.
(* 2 * {alpha} is symbolic *)
Example ex_sym : eval [] [] (EMul false n2 (EPar [97%N])) = Ok (VSym (TMul (TDec 2 0) (TPar [97%N]))).
Proof. vm_compute. reflexivity. Qed.
(* a[1*2+1] in a 2x2 array a = [[10,20],[30,40]] (row-major) is element (1,1) *)
Example ex_idx :
  eval [([97%N], VArr VTInt 2 2 [VInt 10; VInt 20; VInt 30; VInt 40])] []
       (EIdx [97%N] 1 0 (EAdd false (EMul false (ENum NKInt [49%N]) n2) (ENum NKInt [49%N]))) = Ok (VInt 40).
Proof. vm_compute. reflexivity. Qed.
(* undefined name: refused with its position; the fault propagates through the operators *)
Example ex_undef :
  eval [] [] (EAdd false n2 (EFun FSin (EVar [120%N] 3 4))) = Refuse (EUndefined [120%N] 3 4).
Proof. vm_compute. reflexivity. Qed.
(* int64 overflow is outside the specification *)
Example ex_overflow : eval [] [] (EPow n2 (ENum NKInt [54; 52]%N)) = Unspec.
Proof. vm_compute. reflexivity. Qed.

(* ------------------------------------------------------------------------------------------------ *)
Print Assumptions eval_pn_drop.
Print Assumptions eval_hom_eq.
Print Assumptions eval_hom.
Print Assumptions eval_hom_arith.
Print Assumptions int_value.
Print Assumptions int_closed_value.
Print Assumptions int_closed.
Print Assumptions int_or_real.
Print Assumptions int_result_guarded.
Print Assumptions pow_neg_real.
Print Assumptions div_real_term.
Print Assumptions div_real.
Print Assumptions fn_real.
Print Assumptions concat_nth_rc.
Print Assumptions idx_row_major.
Print Assumptions idx_out_of_range.
Print Assumptions idx_row_col.
Print Assumptions cast_scalar_kind.
Print Assumptions cast_scalar_value.
Print Assumptions cast_scalar_complex_refused.
Print Assumptions cast_scalar_refuse_inv.
Print Assumptions cast_scalar_array_refused.
Print Assumptions cast_loop_kind.
Print Assumptions cast_loop_refuses.
Print Assumptions cast_loop_refuse_inv.
Print Assumptions cast_loop_int_exact.
Print Assumptions cast_loop_value.
Print Assumptions cast_elem_kind.
Print Assumptions cast_elem_value.
Print Assumptions cast_elem_refuse_inv.
Print Assumptions undefined_never_ok.
Print Assumptions eval_refuse_inv.
Print Assumptions refuse_undefined_sound.
Print Assumptions undefined_leftmost.
Print Assumptions undefined_leftmost_refuse.
Print Assumptions mapM_ok_all.
Print Assumptions eval_val_undefined.
Print Assumptions eval_args_ok_all.
Print Assumptions eval_args_undefined.
Print Assumptions exec_stmt_undefined.
Print Assumptions exec_scalar_undefined.
Print Assumptions array_layout.
Print Assumptions array_layout_rc.
Print Assumptions array_undefined.
Print Assumptions for_list_ok.
Print Assumptions for_list_undefined.
