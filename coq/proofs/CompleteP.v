(* PARSER COMPLETENESS: every sentence of the grammar regenerated from blackbird.g4 (G4Data.pg_lr, the grammar as
   written, with the left-recursive expression rule; equivalently G4Data.pg, its loop form) is accepted by the model
   parser Parser.pscript.  Together with ParserP (soundness) the parser accepts EXACTLY the sentences of the grammar.

     pscript_complete_ev  D (Ref start_rule) (ts ++ [eoft]) -> exists F, forall f, F <= f -> exists sc, pscript f ts = Some sc
     pscript_complete_D   D (Ref start_rule) (ts ++ [eoft]) -> exists f sc, pscript f ts = Some sc
     pscript_complete_M   M pg_lr (kinds ts ++ [EOF]) (Ref start) 0 (|ts|+1) -> exists f sc, pscript f ts = Some sc
     pscript_complete_pg  the same for the loop-form grammar pg
     pscript_complete     the D-form with the hypothesis "all kinds known" (which the proof does not use)
     pscript_iff          all kinds known -> ((exists f sc, pscript f ts = Some sc) <-> M pg_lr ...)   [with pscript_sound_lr]
     pscript_iff_pg       the same for pg                                                              [with pscript_sound]
     pscript_iff_D        (exists f sc, pscript f ts = Some sc) <-> D (Ref start_rule) (ts ++ [eoft])  [with pscript_D]
     recognise_parses     whatever the proved recogniser accepts, the parser parses

   ALL rules of the grammar are covered; one completeness theorem per parser function:
     pexpr_complete0 (expression, rule 31; pexpr_FX on the flat form), pval_complete / pval_complete12 (val, nonnumeric),
     psep_complete, parrayrow_complete (arrayrow), pvallist_complete (vallist), pkwarg_complete (kwarg),
     pposargs_star + parguments_complete (arguments, with the optional lone COMMA), pbracketed_complete
     (optional, possibly unbalanced brackets; instances pbracketed_row, pbracketed_vallist), pstatement_complete,
     pforbody_false_complete / pforbody_true_complete, pforhdr_complete (rangeval | bracketed vallist), pfor_complete,
     pshape_complete, parrayval_complete (possibly empty), pdecl_scalar_complete (expressionvar), pdecl_array_complete
     (arrayvar), pprogram_complete (items separated by nothing), pincl_incs (includes), ptarget_complete,
     ptype_complete (metadata lines), and finally the start rule.

   Method.  [D] (ParserP) is the list-based derivation relation of pg_lr.  Each completeness lemma has the shape
   "if D e u and the rest r starts with a token on which the function stops, then for all large enough fuel the
   function applied to u ++ r succeeds and leaves r" ([Okp]); a statement leaves its trailing NEWLINEs, which the
   caller (program, for-body) consumes.  Expressions: a derivation of the left-recursive rule is flattened into
   operand (binop operand)*,  operand = sign* primary   ([FX], D_FX), and the precedence-climbing loop is shown to
   consume any such sequence (fx_parse), by induction on its length.  Where the grammar is ambiguous or needs more
   than one token of lookahead (a leading LBRAC after APPLY / IN, NAME ASSIGN in an argument list, INT COLON in a
   for-header, NEWLINE* after a statement) the lemmas show that the choice made by the parser leaves the same rest
   as ANY derivation.  The positional relation M is related to D by M_D (M -> D, no side condition on the token
   kinds) and ParserP.D_M (D -> M, kinds <= 61). *)
From Coq Require Import List Arith Bool Lia NArith.
Import ListNotations.
From BB Require Import Ebnf Chars Lexer Syntax Parser G4Data EbnfP LrecP GrammarP ExprP ParserP.

(* ------------------------------------------------------------------------------------------------ *)
(* 0. Inversion of derivations                                                                       *)
(* ------------------------------------------------------------------------------------------------ *)
Lemma D_tok_inv n u : D (Tok n) u -> exists t, u = [t] /\ tkk t = tk_of_nat n.
Proof. intros H. inversion H; subst. eauto. Qed.
Lemma D_ref_inv r u : D (Ref r) u -> D (pg_lr r) u.
Proof. intros H. inversion H; subst. assumption. Qed.
Lemma D_eps_inv u : D Eps u -> u = [].
Proof. intros H. inversion H; subst. reflexivity. Qed.
Lemma D_seq_inv a b w : D (Seq a b) w -> exists u v, w = u ++ v /\ D a u /\ D b v.
Proof. intros H. inversion H; subst. eauto. Qed.
Lemma D_alt_inv a b u : D (Alt a b) u -> D a u \/ D b u.
Proof. intros H. inversion H; subst; auto. Qed.
Lemma D_star_inv a w : D (Star a) w -> w = [] \/ exists u v, w = u ++ v /\ D a u /\ D (Star a) v.
Proof. intros H. inversion H; subst; [left; reflexivity|right; eauto]. Qed.

Lemma D_star_ind' a (P : list token -> Prop) :
  P [] -> (forall u v, D a u -> D (Star a) v -> P v -> P (u ++ v)) -> forall w, D (Star a) w -> P w.
Proof.
  intros P0 PS w H. remember (Star a) as e eqn:E. revert E.
  induction H; intros E; try discriminate; inversion E; subst; auto.
Qed.

(* invert every derivation hypothesis whose expression is a terminal, Eps, a sequence or an alternative *)
Ltac dinv1 :=
  match goal with
  | H : D (Tok _) _ |- _ =>
      let t := fresh "t" in let K := fresh "K" in
      apply D_tok_inv in H; destruct H as (t & -> & K); cbn [tk_of_nat] in K
  | H : D Eps ?u |- _ => apply D_eps_inv in H; first [subst u | rewrite H in *; clear H]
  | H : D (Seq _ _) _ |- _ =>
      let u := fresh "u" in let v := fresh "v" in let H1 := fresh "H" in let H2 := fresh "H" in
      apply D_seq_inv in H; destruct H as (u & v & -> & H1 & H2)
  | H : D (Alt _ _) _ |- _ => apply D_alt_inv in H; destruct H as [H|H]
  end.
Ltac dinv := repeat dinv1.
Ltac dref H := apply D_ref_inv in H; cbn [pg_lr pg] in H.
(* name the derivation hypothesis of expression e *)
Ltac nameR n H' := match goal with H : D (Ref n) _ |- _ => rename H into H' end.

(* ------------------------------------------------------------------------------------------------ *)
(* 0b. From the positional relation M to derivations (no condition on the token kinds)               *)
(* ------------------------------------------------------------------------------------------------ *)
Definition seg {A} (i j:nat) (w:list A) : list A := firstn (j - i) (skipn i w).

Lemma seg_nil {A} i (w:list A) : seg i i w = [].
Proof. unfold seg. now rewrite Nat.sub_diag. Qed.
Lemma firstn_plus {A} a b (l:list A) : firstn (a + b) l = firstn a l ++ firstn b (skipn a l).
Proof.
  revert l. induction a as [|a IH]; intros l; [reflexivity|]. destruct l as [|x l]; cbn [plus firstn skipn app].
  - now rewrite firstn_nil.
  - now rewrite IH.
Qed.
Lemma skipn_plus {A} a b (l:list A) : skipn b (skipn a l) = skipn (a + b) l.
Proof.
  revert l. induction a as [|a IH]; intros l; [reflexivity|]. destruct l as [|x l]; cbn [plus skipn].
  - now rewrite skipn_nil.
  - apply IH.
Qed.
Lemma seg_app {A} i k j (w:list A) : i <= k -> k <= j -> seg i j w = seg i k w ++ seg k j w.
Proof.
  intros H1 H2. unfold seg. replace (j - i) with ((k - i) + (j - k)) by lia.
  rewrite firstn_plus. f_equal. rewrite skipn_plus. f_equal. f_equal. lia.
Qed.
Lemma seg_one {A} i (w:list A) x : nth_error w i = Some x -> seg i (S i) w = [x].
Proof.
  unfold seg. replace (S i - i) with 1 by lia. revert w. induction i as [|i IH]; intros [|y w] H; try discriminate.
  - cbn in H. inversion H; subst. reflexivity.
  - cbn [nth_error] in H. cbn [skipn]. now apply IH.
Qed.
Lemma seg_all {A} (w:list A) : seg 0 (length w) w = w.
Proof. unfold seg. rewrite Nat.sub_0_r. cbn [skipn]. apply firstn_all. Qed.

Theorem M_D (w:list token) e i j : M nat nat Nat.eqb pg_lr (map tkind w) e i j -> D e (seg i j w).
Proof.
  induction 1 as [t i x Hx Ht|r i j H IH|i|a b i k j H1 IH1 H2 IH2|a b i j H IH|a b i j H IH|a i|a i k j L H1 IH1 H2 IH2].
  - apply Nat.eqb_eq in Ht. subst x. rewrite nth_error_map in Hx.
    destruct (nth_error w i) as [tok|] eqn:E; [|discriminate]. cbn in Hx. inversion Hx as [Hk].
    rewrite (seg_one _ _ _ E). apply DTok. unfold tkk. now rewrite Hk.
  - apply DRef. exact IH.
  - rewrite seg_nil. apply DEps.
  - rewrite (seg_app i k j); [|eapply M_le; eauto|eapply M_le; eauto]. now apply DSeq.
  - now apply DAltL.
  - now apply DAltR.
  - rewrite seg_nil. apply DStar0.
  - rewrite (seg_app i k j); [|lia|eapply M_le; eauto]. now apply DStarS.
Qed.

(* ------------------------------------------------------------------------------------------------ *)
(* 1. "For all large enough fuel the function, applied to ts, succeeds and leaves r"                  *)
(* ------------------------------------------------------------------------------------------------ *)
Definition Okp {A} (px : nat -> list token -> option (A * list token)) (ts r : list token) : Prop :=
  exists F, forall f, F <= f -> exists x, px f ts = Some (x, r).

Ltac len := repeat (progress (cbn [length app] in *; rewrite ?app_length in *)); lia.
Ltac lnorm' := repeat first [rewrite <- app_assoc | rewrite app_nil_r | progress cbn [app]].
Ltac lnorm_in E := repeat first [rewrite <- app_assoc in E | rewrite app_nil_r in E | progress cbn [app] in E].

(* ------------------------------------------------------------------------------------------------ *)
(* 2. Expressions: flat form of the derivations of the left-recursive rule                           *)
(* ------------------------------------------------------------------------------------------------ *)
Definition binop (t:token) : Prop := exists o, bop_of_tk (tkk t) = Some o.
Definition sign (t:token) : Prop := exists neg, hd_of (tkk t) = HSign neg.
Definition atomk (k:tk) : bool :=
  match k with TINT | TFLOAT | TCOMPLEX | TPI | TREGREF | TNAME => true | _ => false end.

(* FX true u : u is  operand (binop operand)*  with operand = sign* primary;   FX false w : w is (binop operand)* *)
Inductive FX : bool -> list token -> Prop :=
| FX_prim u w : Prim u -> FX false w -> FX true (u ++ w)
| FX_pre t u : sign t -> FX true u -> FX true (t :: u)
| FX_nil : FX false []
| FX_bin t u : binop t -> FX true u -> FX false (t :: u)
with Prim : list token -> Prop :=
| P_atom t : atomk (tkk t) = true -> Prim [t]
| P_br o u c : tkk o = TLBRAC -> FX true u -> tkk c = TRBRAC -> Prim (o :: u ++ [c])
| P_fn t fu o u c : fn_of_tk (tkk t) = Some fu -> tkk o = TLBRAC -> FX true u -> tkk c = TRBRAC ->
    Prim (t :: o :: u ++ [c])
| P_idx t o u c : tkk t = TNAME -> tkk o = TLSQBRAC -> FX true u -> tkk c = TRSQBRAC -> Prim (t :: o :: u ++ [c])
| P_par o t c : tkk o = TLBRACE -> tkk t = TNAME -> tkk c = TRBRACE -> Prim [o; t; c].

Lemma FXp u : Prim u -> FX true u.
Proof. intros H. rewrite <- (app_nil_r u). apply FX_prim; [exact H|apply FX_nil]. Qed.

Lemma FX_snoc b u : FX b u -> forall t v, binop t -> FX true v -> FX b (u ++ t :: v).
Proof.
  induction 1 as [u w Hp Hw IH|t0 u Hs Hu IH| |t0 u Hb Hu IH]; intros t v Ht Hv.
  - rewrite <- app_assoc. apply FX_prim; [exact Hp|]. now apply IH.
  - cbn [app]. apply FX_pre; [exact Hs|]. now apply IH.
  - cbn [app]. now apply FX_bin.
  - cbn [app]. apply FX_bin; [exact Hb|]. now apply IH.
Qed.

Lemma binop_of t k o : tkk t = k -> bop_of_tk k = Some o -> binop t.
Proof. intros <- H. now exists o. Qed.
Lemma sign_of t k neg : tkk t = k -> hd_of k = HSign neg -> sign t.
Proof. intros <- H. now exists neg. Qed.

Lemma D_FX : forall n u, length u < n -> D (Ref 31) u -> FX true u.
Proof.
  induction n as [|n IH]; intros u L H; [lia|].
  dref H. unfold lrec_prim, lrec_pre, lrec_bin in H.
  dinv; cbn [app] in *;
  repeat match goal with
         | H : D (Ref 33) _ |- _ => dref H; dinv
         | H : D (Ref 34) _ |- _ => dref H; dinv
         | H : D (Ref 32) _ |- _ => dref H; dinv
         end; cbn [app] in *;
  repeat match goal with
         | H : D (Ref 31) ?x |- _ => apply IH in H; [|len]
         end;
  try (apply FXp;
       first [ apply P_atom; match goal with K : tkk _ = _ |- _ => rewrite K; reflexivity end
             | apply P_br; assumption
             | eapply P_fn; [match goal with K : tkk ?t = _ |- fn_of_tk (tkk ?t) = _ => rewrite K; reflexivity end|assumption..]
             | apply P_idx; assumption
             | apply P_par; assumption ]).
  - apply FX_pre; [eapply sign_of; [eassumption|reflexivity]|assumption].
  - apply FX_pre; [eapply sign_of; [eassumption|reflexivity]|assumption].
  - apply FX_snoc; [assumption|eapply binop_of; [eassumption|reflexivity]|assumption].
  - apply FX_snoc; [assumption|eapply binop_of; [eassumption|reflexivity]|assumption].
  - apply FX_snoc; [assumption|eapply binop_of; [eassumption|reflexivity]|assumption].
  - apply FX_snoc; [assumption|eapply binop_of; [eassumption|reflexivity]|assumption].
  - apply FX_snoc; [assumption|eapply binop_of; [eassumption|reflexivity]|assumption].
Qed.

Lemma binop_nolsq t : binop t -> tkk t <> TLSQBRAC.
Proof. intros (o & Ho) E. rewrite E in Ho. discriminate. Qed.

Lemma FX_tail0 w : FX false w -> nostart 0 w -> w = [].
Proof.
  intros H N. inversion H as [| | |t u (o & Ho) Hu]; subst; [reflexivity|].
  exfalso. unfold nostart in N. rewrite bprec_bop, Ho in N. cbn in N. lia.
Qed.

Lemma tail_nolsq w r : FX false w -> stops 0 r -> nolsq (w ++ r).
Proof.
  intros H [_ S]. inversion H as [| | |t u Hb Hu]; subst; cbn [app]; [exact S|].
  unfold nolsq. now apply binop_nolsq.
Qed.

Lemma pexpr_name f p t r : tkk t = TNAME -> nolsq r ->
  pexpr (S f) p (t :: r) = ploop f p (EVar (ttext t) (tline t) (tcol t)) r.
Proof.
  intros K N. rewrite pexpr_S, K. cbn [hd_of]. destruct r as [|o r1]; [reflexivity|].
  unfold nolsq in N. apply (isk_false TLSQBRAC) in N. now rewrite N.
Qed.

Lemma Prim_len u : Prim u -> 1 <= length u.
Proof. inversion 1; subst; cbn [length]; lia. Qed.

Lemma fx_parse : forall n,
  (forall u, length u < n -> FX true u -> forall p r, stops 0 r ->
     exists u2, FX false u2 /\ length u2 < length u /\ nostart p u2 /\
       exists F, forall f, F <= f -> exists e, pexpr f p (u ++ r) = Some (e, u2 ++ r)) /\
  (forall w, length w < n -> FX false w -> forall p r, stops 0 r ->
     exists w2, FX false w2 /\ length w2 <= length w /\ nostart p w2 /\
       exists F, forall f, F <= f -> forall e, exists e', ploop f p e (w ++ r) = Some (e', w2 ++ r)).
Proof.
  induction n as [|n [IHe IHl]]; split; try (intros; lia).
  - (* pexpr *)
    intros u L H p r St. inversion H as [u0 w Hp Hw| t u' Hs Hu | |]; subst.
    + (* primary, then the tail *)
      pose proof (Prim_len u0 Hp) as Lp.
      destruct (IHl w ltac:(len) Hw p r St) as (w2 & Fw2 & Lw2 & Nw2 & F2 & HF2).
      exists w2. split; [exact Fw2|]. split; [len|]. split; [exact Nw2|].
      inversion Hp as [t Ha|o u1 c Ko Hu1 Kc|t fu o u1 c Kt Ko Hu1 Kc|t o u1 c Kt Ko Hu1 Kc|o t c Ko Kt Kc]; subst.
      * (* atom *)
        exists (S F2). intros f Hf. destruct f as [|f]; [lia|]. cbn [app].
        destruct (tkk t) eqn:K; try discriminate Ha;
        try (rewrite pexpr_S, K; cbn [hd_of]; apply HF2; lia).
        rewrite (pexpr_name f p t (w ++ r) K (tail_nolsq w r Hw St)). apply HF2; lia.
      * (* ( e ) *)
        destruct (IHe u1 ltac:(len) Hu1 0 (c :: w ++ r)) as (u2 & Fu2 & _ & Nu2 & F1 & HF1);
          [apply stops_closer; now left|].
        apply FX_tail0 in Fu2; [|exact Nu2]. subst u2.
        exists (S (max F1 F2)). intros f Hf. destruct f as [|f]; [lia|].
        lnorm'. rewrite pexpr_S, Ko. cbn [hd_of].
        destruct (HF1 f ltac:(lia)) as (e1 & E1). rewrite E1. cbn [app].
        apply (isk_true TRBRAC) in Kc. rewrite Kc. apply HF2; lia.
      * (* fn ( e ) *)
        destruct (IHe u1 ltac:(len) Hu1 0 (c :: w ++ r)) as (u2 & Fu2 & _ & Nu2 & F1 & HF1);
          [apply stops_closer; now left|].
        apply FX_tail0 in Fu2; [|exact Nu2]. subst u2.
        exists (S (max F1 F2)). intros f Hf. destruct f as [|f]; [lia|].
        lnorm'. rewrite pexpr_S, (hd_fun _ _ Kt).
        apply (isk_true TLBRAC) in Ko. rewrite Ko.
        destruct (HF1 f ltac:(lia)) as (e1 & E1). rewrite E1. cbn [app].
        apply (isk_true TRBRAC) in Kc. rewrite Kc. apply HF2; lia.
      * (* NAME [ e ] *)
        destruct (IHe u1 ltac:(len) Hu1 0 (c :: w ++ r)) as (u2 & Fu2 & _ & Nu2 & F1 & HF1);
          [apply stops_closer; now right|].
        apply FX_tail0 in Fu2; [|exact Nu2]. subst u2.
        exists (S (max F1 F2)). intros f Hf. destruct f as [|f]; [lia|].
        lnorm'. rewrite pexpr_S, Kt. cbn [hd_of].
        apply (isk_true TLSQBRAC) in Ko. rewrite Ko.
        destruct (HF1 f ltac:(lia)) as (e1 & E1). rewrite E1. cbn [app].
        apply (isk_true TRSQBRAC) in Kc. rewrite Kc. apply HF2; lia.
      * (* { NAME } *)
        exists (S F2). intros f Hf. destruct f as [|f]; [lia|]. cbn [app].
        rewrite pexpr_S, Ko. cbn [hd_of].
        apply (isk_true TNAME) in Kt. apply (isk_true TRBRACE) in Kc. rewrite Kt, Kc. cbn [andb]. apply HF2; lia.
    + (* sign *)
      destruct (IHe u' ltac:(len) Hu 9 r St) as (u2 & Fu2 & Lu2 & _ & F1 & HF1).
      destruct (IHl u2 ltac:(len) Fu2 p r St) as (w2 & Fw2 & Lw2 & Nw2 & F2 & HF2).
      exists w2. split; [exact Fw2|]. split; [len|]. split; [exact Nw2|].
      exists (S (max F1 F2)). intros f Hf. destruct f as [|f]; [lia|]. cbn [app].
      destruct Hs as (neg & Hs). rewrite pexpr_S, Hs.
      destruct (HF1 f ltac:(lia)) as (e1 & E1). rewrite E1. apply HF2; lia.
  - (* ploop *)
    intros w L H p r St. inversion H as [| | |t u' Hb Hu]; subst.
    + exists []. split; [exact H|]. split; [lia|]. split; [exact I|].
      exists 1. intros f Hf e. destruct f as [|f]; [lia|]. cbn [app]. exists e. apply ploop_stop.
      apply nostart_weaken with 0; [lia|apply St].
    + destruct Hb as (o & Ho). destruct (p <=? prec o) eqn:P.
      * destruct (IHe u' ltac:(len) Hu (rprec o) r St) as (u2 & Fu2 & Lu2 & _ & F1 & HF1).
        destruct (IHl u2 ltac:(len) Fu2 p r St) as (w2 & Fw2 & Lw2 & Nw2 & F2 & HF2).
        exists w2. split; [exact Fw2|]. split; [len|]. split; [exact Nw2|].
        exists (S (max F1 F2)). intros f Hf e. destruct f as [|f]; [lia|]. cbn [app].
        rewrite ploop_S, Ho, P. destruct (HF1 f ltac:(lia)) as (b & E1). rewrite E1. apply HF2; lia.
      * exists (t :: u'). split; [exact H|]. split; [lia|]. split.
        { unfold nostart. rewrite bprec_bop, Ho. cbn. apply Nat.leb_gt in P. exact P. }
        exists 1. intros f Hf e. destruct f as [|f]; [lia|]. cbn [app]. exists e. rewrite ploop_S, Ho, P. reflexivity.
Qed.

(* expression : the parser at level 0 reads exactly a derived expression when the rest starts with a stop token *)
Theorem pexpr_complete0 u r : D (Ref 31) u -> stops 0 r -> Okp (fun f => pexpr f 0) (u ++ r) r.
Proof.
  intros H St. apply (D_FX (S (length u))) in H; [|lia].
  destruct (fx_parse (S (length u))) as [A _].
  destruct (A u ltac:(lia) H 0 r St) as (u2 & Fu2 & _ & Nu2 & F & HF).
  apply FX_tail0 in Fu2; [|exact Nu2]. subst u2. exists F. exact HF.
Qed.

(* ---- first tokens of expressions ---- *)
Definition estart (k:tk) : bool := match hd_of k with HBad => false | _ => true end.
Definition estop (k:tk) : bool :=
  match k with TPWR | TTIMES | TDIVIDE | TPLUS | TMINUS | TLSQBRAC => false | _ => true end.

Lemma stops_peek r : estop (peek r) = true -> stops 0 r.
Proof.
  destruct r as [|t r]; [split; exact I|]. cbn [peek]. intros H. split; unfold nostart, nolsq.
  - destruct (tkk t); try discriminate H; exact I.
  - intros E. rewrite E in H. discriminate.
Qed.

Lemma FX_hd u : FX true u -> exists t u', u = t :: u' /\ estart (tkk t) = true.
Proof.
  intros H. inversion H as [u0 w Hp Hw|t u' (neg & Hs) Hu| |]; subst.
  - inversion Hp as [t Ha|o u1 c Ko Hu1 Kc|t fu o u1 c Kt Ko Hu1 Kc|t o u1 c Kt Ko Hu1 Kc|o t c Ko Kt Kc]; subst;
    cbn [app]; eexists; eexists; (split; [reflexivity|]); unfold estart.
    + destruct (tkk t); try discriminate Ha; reflexivity.
    + now rewrite Ko.
    + now rewrite (hd_fun _ _ Kt).
    + now rewrite Kt.
    + now rewrite Ko.
  - exists t, u'. split; [reflexivity|]. unfold estart. now rewrite Hs.
Qed.

(* an expression that starts with '(' is  ( e ) tail *)
Lemma FX_lbrac o u' : FX true (o :: u') -> tkk o = TLBRAC ->
  exists u1 c w, u' = u1 ++ c :: w /\ FX true u1 /\ tkk c = TRBRAC /\ FX false w.
Proof.
  intros H Ko. inversion H as [u0 w Hp Hw Eb E|t u'' (neg & Hs) Hu| |]; subst.
  - inversion Hp as [t Ha E1|o1 u1 c Ko1 Hu1 Kc E1|t fu o1 u1 c Kt Ko1 Hu1 Kc E1|t o1 u1 c Kt Ko1 Hu1 Kc E1|o1 t c Ko1 Kt Kc E1];
    subst; cbn [app] in E; inversion E; subst.
    + rewrite Ko in Ha. discriminate.
    + exists u1, c, w. split; [now rewrite <- app_assoc|]. auto.
    + rewrite Ko in Kt. discriminate.
    + rewrite Ko in Kt. discriminate.
    + rewrite Ko in Ko1. discriminate.
  - rewrite Ko in Hs. discriminate.
Qed.

Lemma kwstart_notname t l : tkk t <> TNAME -> kwstart (t :: l) = false.
Proof. intros H. apply (isk_false TNAME) in H. destruct l; cbn [kwstart]; [reflexivity|now rewrite H]. Qed.
Lemma kwstart_notassign n a l : tkk a <> TASSIGN -> kwstart (n :: a :: l) = false.
Proof. intros H. apply (isk_false TASSIGN) in H. cbn [kwstart]. rewrite H. apply andb_false_r. Qed.
Lemma kwstart_peek n rest : peek rest <> TASSIGN -> kwstart (n :: rest) = false.
Proof. destruct rest as [|a rest]; [reflexivity|]. cbn [peek]. apply kwstart_notassign. Qed.

(* an expression followed by something that is not '=' does not look like the start of a keyword argument *)
Lemma FX_nokw u rest : FX true u -> peek rest <> TASSIGN -> kwstart (u ++ rest) = false.
Proof.
  intros H N. inversion H as [u0 w Hp Hw|t u' (neg & Hs) Hu| |]; subst.
  - inversion Hp as [t Ha|o u1 c Ko Hu1 Kc|t fu o u1 c Kt Ko Hu1 Kc|t o u1 c Kt Ko Hu1 Kc|o t c Ko Kt Kc]; subst;
    cbn [app].
    + inversion Hw as [| | |b v (ob & Hb) Hv]; subst; cbn [app].
      * now apply kwstart_peek.
      * apply kwstart_notassign. intros E; rewrite E in Hb; discriminate.
    + apply kwstart_notname. congruence.
    + apply kwstart_notname. intros E; rewrite E in Kt; discriminate.
    + apply kwstart_notassign. congruence.
    + apply kwstart_notname. congruence.
  - cbn [app]. apply kwstart_notname. intros E; rewrite E in Hs; discriminate.
Qed.

Lemma D31_FX u : D (Ref 31) u -> FX true u.
Proof. intros H. apply (D_FX (S (length u))); [lia|exact H]. Qed.

(* ------------------------------------------------------------------------------------------------ *)
(* 3. Values and comma-separated lists                                                               *)
(* ------------------------------------------------------------------------------------------------ *)
Definition vstart (k:tk) : bool := match k with TSTR | TBOOL => true | k => estart k end.

Lemma pval_expr f t r : tkk t <> TSTR -> tkk t <> TBOOL ->
  pval f (t :: r) = match pexpr f 0 (t :: r) with Some (e, r') => Some (VE e, r') | None => None end.
Proof. intros H1 H2. unfold pval. destruct (tkk t); congruence || reflexivity. Qed.

Lemma pval_of_expr u r : D (Ref 31) u -> stops 0 r -> Okp pval (u ++ r) r.
Proof.
  intros H St. destruct (pexpr_complete0 u r H St) as (F & HF).
  apply D31_FX in H. destruct (FX_hd u H) as (t & u' & -> & Ht).
  exists F. intros f Hf. destruct (HF f Hf) as (e & E). cbn [app] in *. rewrite pval_expr.
  - rewrite E. eauto.
  - intros K. rewrite K in Ht. discriminate.
  - intros K. rewrite K in Ht. discriminate.
Qed.
Lemma pval_of_nonnum u r : D (Ref 18) u -> Okp pval (u ++ r) r.
Proof.
  intros H. dref H. dinv; exists 0; intros f _; cbn [app]; unfold pval; rewrite K; eauto.
Qed.

(* val : nonnumeric | expression *)
Theorem pval_complete u r : D (Ref 28) u -> stops 0 r -> Okp pval (u ++ r) r.
Proof. intros H St. dref H. dinv; [now apply pval_of_nonnum|now apply pval_of_expr]. Qed.
(* the right-hand side of expressionvar : expression | nonnumeric *)
Theorem pval_complete12 u r : D (Alt (Ref 31) (Ref 18)) u -> stops 0 r -> Okp pval (u ++ r) r.
Proof. intros H St. dinv; [now apply pval_of_expr|now apply pval_of_nonnum]. Qed.

Lemma val_hd u : D (Ref 28) u -> exists t u', u = t :: u' /\ vstart (tkk t) = true.
Proof.
  intros H. dref H. dinv.
  - dref H. dinv; eexists; eexists; (split; [reflexivity|]); rewrite K; reflexivity.
  - apply D31_FX in H. destruct (FX_hd u H) as (t & u' & -> & Ht). exists t, u'. split; [reflexivity|].
    unfold vstart. destruct (tkk t); auto.
Qed.

Lemma val_nokw u rest : D (Ref 28) u -> peek rest <> TASSIGN -> kwstart (u ++ rest) = false.
Proof.
  intros H N. dref H. dinv.
  - dref H. dinv; cbn [app]; apply kwstart_notname; congruence.
  - apply FX_nokw; [now apply D31_FX|exact N].
Qed.

Local Notation SepL e n := (Seq e (Star (Seq (Tok n) e))).

Lemma nocomma_isk c r : peek (c :: r) <> TCOMMA -> isk TCOMMA c = false.
Proof. cbn [peek]. intros H. now apply isk_false. Qed.

(* X (COMMA X)* : the element parser stops at a COMMA and at the first token of the rest *)
Theorem psep_complete {A} (px : nat -> list token -> option (A * list token)) e :
  (forall u r, D e u -> stops 0 r -> Okp px (u ++ r) r) ->
  forall u r, D (SepL e 40) u -> stops 0 r -> peek r <> TCOMMA ->
  exists F, forall f g, F <= f -> F <= g -> exists xs, psep (px f) g (u ++ r) = Some (xs, r).
Proof.
  intros Hpx u0 r H St Nc. apply D_seq_inv in H. destruct H as (u & s & -> & Hu & Hs). revert u Hu.
  induction Hs as [|p s' Hp Hs' IH] using D_star_ind'; intros u Hu.
  - destruct (Hpx u r Hu St) as (F & HF). exists (S F). intros f g Hf Hg. destruct g as [|g]; [lia|].
    rewrite psep_S. rewrite app_nil_r. destruct (HF f ltac:(lia)) as (x & E). rewrite E.
    destruct r as [|c r1]; [eauto|]. rewrite (nocomma_isk c r1 Nc). eauto.
  - apply D_seq_inv in Hp. destruct Hp as (c & u1 & -> & Hc & Hu1). apply D_tok_inv in Hc.
    destruct Hc as (t & -> & K). cbn [tk_of_nat] in K. destruct (IH u1 Hu1) as (F1 & HF1).
    destruct (Hpx u (t :: u1 ++ s' ++ r) Hu) as (F0 & HF0).
    { apply stops_peek. cbn [peek]. now rewrite K. }
    exists (S (max F0 F1)). intros f g Hf Hg. destruct g as [|g]; [lia|].
    rewrite psep_S. lnorm'. destruct (HF0 f ltac:(lia)) as (x & E). rewrite E.
    apply (isk_true TCOMMA) in K. rewrite K.
    destruct (HF1 f g ltac:(lia) ltac:(lia)) as (xs & E1). rewrite <- app_assoc in E1. rewrite E1. eauto.
Qed.

(* arrayrow : expression (COMMA expression)*      vallist : val (COMMA val)* *)
Theorem parrayrow_complete u r : D (Ref 21) u -> stops 0 r -> peek r <> TCOMMA -> Okp parrayrow (u ++ r) r.
Proof.
  intros H St Nc. dref H.
  destruct (psep_complete (fun f => pexpr f 0) (Ref 31) pexpr_complete0 u r H St Nc) as (F & HF).
  exists F. intros f Hf. apply (HF f f Hf Hf).
Qed.
Theorem pvallist_complete u r : D (Ref 29) u -> stops 0 r -> peek r <> TCOMMA -> Okp pvallist (u ++ r) r.
Proof.
  intros H St Nc. dref H.
  destruct (psep_complete pval (Ref 28) pval_complete u r H St Nc) as (F & HF).
  exists F. intros f Hf. apply (HF f f Hf Hf).
Qed.

Lemma vstart_facts k : vstart k = true ->
  k <> TRBRAC /\ k <> TRSQBRAC /\ k <> TLSQBRAC /\ k <> TCOMMA /\ k <> TASSIGN /\ k <> TNEWLINE /\ k <> TTAB.
Proof. destruct k; cbn; intros H; try discriminate H; repeat split; discriminate. Qed.

Lemma seplist_hd e u : D (SepL e 40) u -> exists u0 s, u = u0 ++ s /\ D e u0.
Proof. intros H. apply D_seq_inv in H. destruct H as (u0 & s & -> & H0 & _). eauto. Qed.

Lemma vallist_hd u : D (Ref 29) u -> exists t u', u = t :: u' /\ vstart (tkk t) = true.
Proof.
  intros H. dref H. apply seplist_hd in H. destruct H as (u0 & s & -> & H0).
  apply val_hd in H0. destruct H0 as (t & u' & -> & Ht). exists t, (u' ++ s). split; [reflexivity|exact Ht].
Qed.

(* ------------------------------------------------------------------------------------------------ *)
(* 4. Keyword arguments, argument lists                                                              *)
(* ------------------------------------------------------------------------------------------------ *)
Lemma pkwarg_eq f n a r : tkk n = TNAME -> tkk a = TASSIGN -> pkwarg f (n :: a :: r) =
  match r with
  | o :: r1 =>
      if isk TLSQBRAC o then
        match r1 with
        | c :: r2 =>
            if isk TRSQBRAC c then Some ((ttext n, KL []), r2)
            else match pvallist f r1 with
                 | Some (l, c' :: r3) => if isk TRSQBRAC c' then Some ((ttext n, KL l), r3) else None
                 | _ => None
                 end
        | [] => None
        end
      else match pval f r with Some (v, r') => Some ((ttext n, KV v), r') | None => None end
  | [] => None
  end.
Proof.
  intros Hn Ha. apply (isk_true TNAME) in Hn. apply (isk_true TASSIGN) in Ha. unfold pkwarg. rewrite Hn, Ha. reflexivity.
Qed.

(* kwarg : NAME ASSIGN (val | LSQBRAC vallist? RSQBRAC) *)
Theorem pkwarg_complete u r : D (Ref 27) u -> stops 0 r -> Okp pkwarg (u ++ r) r.
Proof.
  intros H St. dref H.
  apply D_seq_inv in H. destruct H as (n & v1 & -> & Hn & H). apply D_seq_inv in H. destruct H as (a & v & -> & Ha & H).
  apply D_tok_inv in Hn. destruct Hn as (tn & -> & Kn). apply D_tok_inv in Ha. destruct Ha as (ta & -> & Ka).
  cbn [tk_of_nat] in *. cbn [app].
  apply D_alt_inv in H. destruct H as [H|H].
  - (* NAME = val *)
    destruct (pval_complete _ r H St) as (F & HF). destruct (val_hd _ H) as (tv & v' & -> & Hv).
    apply vstart_facts in Hv. destruct Hv as (_ & _ & Hv & _).
    exists F. intros f Hf. rewrite pkwarg_eq by assumption. cbn [app] in *.
    apply (isk_false TLSQBRAC) in Hv. rewrite Hv. destruct (HF f Hf) as (x & E). rewrite E. eauto.
  - apply D_seq_inv in H. destruct H as (o & v2 & -> & Ho & H). apply D_seq_inv in H. destruct H as (vl & c & -> & Hvl & Hc).
    apply D_tok_inv in Ho. destruct Ho as (to & -> & Ko). apply D_tok_inv in Hc. destruct Hc as (tc & -> & Kc).
    cbn [tk_of_nat] in *. apply D_alt_inv in Hvl. destruct Hvl as [Hvl|Hvl].
    + (* NAME = [ ] *)
      apply D_eps_inv in Hvl. subst vl. exists 0. intros f _. rewrite pkwarg_eq by assumption. cbn [app].
      apply (isk_true TLSQBRAC) in Ko. apply (isk_true TRSQBRAC) in Kc. rewrite Ko, Kc. eauto.
    + (* NAME = [ vallist ] *)
      destruct (pvallist_complete _ (tc :: r) Hvl) as (F & HF).
      { apply stops_peek. cbn [peek]. now rewrite Kc. }
      { cbn [peek]. rewrite Kc. discriminate. }
      destruct (vallist_hd _ Hvl) as (tv & v' & -> & Hv).
      apply vstart_facts in Hv. destruct Hv as (_ & Hv & _).
      exists F. intros f Hf. rewrite pkwarg_eq by assumption. lnorm'.
      apply (isk_true TLSQBRAC) in Ko. rewrite Ko.
      apply (isk_false TRSQBRAC) in Hv. rewrite Hv. destruct (HF f Hf) as (x & E). lnorm_in E. rewrite E.
      apply (isk_true TRSQBRAC) in Kc. rewrite Kc. eauto.
Qed.

Local Notation VALL := (SepL (Ref 28) 40).
Local Notation KWL := (SepL (Ref 27) 40).

(* where the positional part of an argument list ends: at the closing bracket or at a keyword argument *)
Definition Tcond (T:list token) : Prop := tk_beq (peek T) TRBRAC = true \/ kwstart T = true.

Lemma Tcond_hd T : Tcond T -> exists t T', T = t :: T' /\ (tkk t = TRBRAC \/ tkk t = TNAME).
Proof.
  intros [H|H]; destruct T as [|t T']; try discriminate H.
  - exists t, T'. split; [reflexivity|left]. cbn [peek] in H. now apply internal_tk_dec_bl in H.
  - exists t, T'. split; [reflexivity|right]. destruct T' as [|a T'']; [discriminate H|]. cbn [kwstart] in H.
    apply andb_prop in H. destruct H as [H _]. now apply isk_true in H.
Qed.
Lemma pposargs_stop f T : Tcond T -> pposargs (S f) T = Some ([], T).
Proof. intros [H|H]; rewrite pposargs_S, H; [reflexivity|]. now rewrite orb_true_r. Qed.

Lemma pposargs_val f u rest : D (Ref 28) u -> peek rest <> TASSIGN -> pposargs (S f) (u ++ rest) =
  match pval f (u ++ rest) with
  | Some (v, r) =>
      match r with
      | c :: r1 => if isk TCOMMA c then
                     match pposargs f r1 with Some (vs, r2) => Some (v :: vs, r2) | None => None end
                   else Some ([v], r)
      | [] => Some ([v], r)
      end
  | None => None
  end.
Proof.
  intros H N. rewrite pposargs_S. rewrite (val_nokw u rest H N).
  destruct (val_hd u H) as (t & u' & -> & Ht). apply vstart_facts in Ht. destruct Ht as (Ht & _).
  cbn [app peek]. destruct (tk_beq (tkk t) TRBRAC) eqn:E; [apply internal_tk_dec_bl in E; contradiction|]. reflexivity.
Qed.

Lemma pposargs_star : forall s, D (Star (Seq (Tok 40) (Ref 28))) s ->
  forall u b T, D (Ref 28) u -> D (Alt Eps (Tok 40)) b -> Tcond T -> Okp pposargs (u ++ s ++ b ++ T) T.
Proof.
  intros s Hs. induction Hs as [|p s' Hp Hs' IH] using D_star_ind'; intros u b T Hu Hb HT.
  - cbn [app]. destruct (Tcond_hd T HT) as (tt & T' & ET & Ktt).
    assert (StT : stops 0 T /\ peek T <> TASSIGN /\ peek T <> TCOMMA).
    { rewrite ET. cbn [peek]. split; [apply stops_peek; cbn [peek]|split]; destruct Ktt as [-> | ->]; try reflexivity; discriminate. }
    destruct StT as (StT & NaT & NcT).
    apply D_alt_inv in Hb. destruct Hb as [Hb|Hb].
    + apply D_eps_inv in Hb. subst b. cbn [app].
      destruct (pval_complete u T Hu StT) as (F & HF). exists (S F). intros f Hf. destruct f as [|f]; [lia|].
      rewrite (pposargs_val f u T Hu NaT). destruct (HF f ltac:(lia)) as (v & E). rewrite E.
      rewrite ET in *. rewrite (nocomma_isk tt T' NcT). eauto.
    + apply D_tok_inv in Hb. destruct Hb as (t & -> & K). cbn [tk_of_nat] in K. cbn [app].
      destruct (pval_complete u (t :: T) Hu) as (F & HF). { apply stops_peek. cbn [peek]. now rewrite K. }
      exists (S (S F)). intros f Hf. destruct f as [|[|f]]; [lia|lia|].
      rewrite (pposargs_val (S f) u (t :: T) Hu) by (cbn [peek]; rewrite K; discriminate).
      destruct (HF (S f) ltac:(lia)) as (v & E). rewrite E. apply (isk_true TCOMMA) in K. rewrite K.
      rewrite (pposargs_stop f T HT). eauto.
  - apply D_seq_inv in Hp. destruct Hp as (c & u1 & -> & Hc & Hu1). apply D_tok_inv in Hc.
    destruct Hc as (t & -> & K). cbn [tk_of_nat] in K.
    destruct (IH u1 b T Hu1 Hb HT) as (F1 & HF1).
    destruct (pval_complete u (t :: u1 ++ s' ++ b ++ T) Hu) as (F & HF). { apply stops_peek. cbn [peek]. now rewrite K. }
    exists (S (max F F1)). intros f Hf. destruct f as [|f]; [lia|]. lnorm'.
    rewrite (pposargs_val f u (t :: u1 ++ s' ++ b ++ T) Hu) by (cbn [peek]; rewrite K; discriminate).
    destruct (HF f ltac:(lia)) as (v & E). rewrite E. apply (isk_true TCOMMA) in K. rewrite K.
    destruct (HF1 f ltac:(lia)) as (vs & E1). rewrite E1. eauto.
Qed.

Definition ptail (f:nat) (vs:list val) (r1:list token) : option (arguments * list token) :=
  if kwstart r1 then
    match psep (pkwarg f) f r1 with
    | Some (kws, c :: r2) => if isk TRBRAC c then Some (mkargs vs kws, r2) else None
    | _ => None
    end
  else match r1 with
       | c :: r2 => if isk TRBRAC c then Some (mkargs vs [], r2) else None
       | [] => None
       end.

Lemma parguments_eq f o r : tkk o = TLBRAC -> parguments f (o :: r) =
  match (if match r with c :: _ => isk TCOMMA c | [] => false end
         then Some ([], match r with c :: r' => if isk TCOMMA c then r' else r | [] => r end)
         else pposargs f r) with
  | Some (vs, r1) => ptail f vs r1
  | None => None
  end.
Proof. intros H. apply (isk_true TLBRAC) in H. unfold parguments, ptail. rewrite H. reflexivity. Qed.

Lemma kwl_hd k : D KWL k -> exists n a k', k = n :: a :: k' /\ tkk n = TNAME /\ tkk a = TASSIGN.
Proof.
  intros H. apply seplist_hd in H. destruct H as (u0 & s & -> & H0). dref H0.
  apply D_seq_inv in H0. destruct H0 as (n & v & -> & Hn & H0). apply D_seq_inv in H0. destruct H0 as (a & v' & -> & Ha & _).
  dinv. cbn [app]. eexists; eexists; eexists. split; [reflexivity|]. split; assumption.
Qed.

Lemma ptail_ok k c r : D (Alt Eps KWL) k -> tkk c = TRBRAC ->
  Tcond (k ++ c :: r) /\ exists F, forall f, F <= f -> forall vs, exists x, ptail f vs (k ++ c :: r) = Some (x, r).
Proof.
  intros H Kc. apply D_alt_inv in H. destruct H as [H|H].
  - apply D_eps_inv in H. subst k. cbn [app]. split.
    + left. cbn [peek]. rewrite Kc. reflexivity.
    + exists 0. intros f _ vs. unfold ptail. rewrite kwstart_notname by congruence.
      apply (isk_true TRBRAC) in Kc. rewrite Kc. eauto.
  - destruct (kwl_hd k H) as (n & a & k' & E & Kn & Ka).
    assert (KW : kwstart (k ++ c :: r) = true).
    { subst k. cbn [app kwstart]. apply (isk_true TNAME) in Kn. apply (isk_true TASSIGN) in Ka. now rewrite Kn, Ka. }
    split; [right; exact KW|].
    destruct (psep_complete pkwarg (Ref 27) pkwarg_complete k (c :: r) H) as (F & HF).
    { apply stops_peek. cbn [peek]. now rewrite Kc. }
    { cbn [peek]. rewrite Kc. discriminate. }
    exists F. intros f Hf vs. unfold ptail. rewrite KW. destruct (HF f f Hf Hf) as (kws & E1). rewrite E1.
    apply (isk_true TRBRAC) in Kc. rewrite Kc. eauto.
Qed.

(* arguments : LBRAC [val {COMMA val}] [COMMA] [kwarg {COMMA kwarg}] RBRAC *)
Theorem parguments_complete u r : D (Ref 26) u -> Okp parguments (u ++ r) r.
Proof.
  intros H. dref H.
  apply D_seq_inv in H. destruct H as (o & v1 & -> & Ho & H). apply D_tok_inv in Ho. destruct Ho as (to & -> & Ko).
  cbn [tk_of_nat] in Ko.
  apply D_seq_inv in H. destruct H as (a & v2 & -> & Ha & H).
  apply D_seq_inv in H. destruct H as (b & v3 & -> & Hb & H).
  apply D_seq_inv in H. destruct H as (k & c & -> & Hk & Hc). apply D_tok_inv in Hc. destruct Hc as (tc & -> & Kc).
  cbn [tk_of_nat] in Kc.
  destruct (ptail_ok k tc r Hk Kc) as (HT & Ft & HFt).
  destruct (Tcond_hd _ HT) as (tt & T' & ET & Ktt).
  apply D_alt_inv in Ha. destruct Ha as [Ha|Ha].
  - apply D_eps_inv in Ha. subst a. apply D_alt_inv in Hb. destruct Hb as [Hb|Hb].
    + (* no value, no comma *)
      apply D_eps_inv in Hb. subst b. exists (S Ft). intros f Hf. destruct f as [|f]; [lia|]. lnorm'.
      rewrite parguments_eq by exact Ko. rewrite ET.
      assert (Hn : isk TCOMMA tt = false) by (apply isk_false; destruct Ktt as [-> | ->]; discriminate). rewrite Hn.
      rewrite <- ET. rewrite (pposargs_stop f _ HT). apply HFt. lia.
    + (* a lone comma *)
      apply D_tok_inv in Hb. destruct Hb as (tb & -> & Kb). cbn [tk_of_nat] in Kb.
      exists Ft. intros f Hf. lnorm'. rewrite parguments_eq by exact Ko.
      apply (isk_true TCOMMA) in Kb. rewrite Kb. apply HFt. lia.
  - (* values *)
    apply D_seq_inv in Ha. destruct Ha as (u0 & s & -> & Hu0 & Hs).
    destruct (pposargs_star s Hs u0 b _ Hu0 Hb HT) as (F & HF).
    destruct (val_hd u0 Hu0) as (tv & u0' & -> & Hv). apply vstart_facts in Hv. destruct Hv as (_ & _ & _ & Hv & _).
    exists (max F Ft). intros f Hf. lnorm'. rewrite parguments_eq by exact Ko.
    apply (isk_false TCOMMA) in Hv. rewrite Hv. destruct (HF f ltac:(lia)) as (vs & E). lnorm_in E. rewrite E.
    apply HFt. lia.
Qed.

(* ------------------------------------------------------------------------------------------------ *)
(* 5. Optional brackets around a comma-separated list                                                *)
(* ------------------------------------------------------------------------------------------------ *)
Local Notation OptOpen := (Alt Eps (Alt (Tok 43) (Tok 45))).
Local Notation OptClose := (Alt Eps (Alt (Tok 44) (Tok 46))).

(* the expression parser on flat sequences *)
Lemma pexpr_FX u r : FX true u -> stops 0 r -> Okp (fun f => pexpr f 0) (u ++ r) r.
Proof.
  intros H St. destruct (fx_parse (S (length u))) as [A _].
  destruct (A u ltac:(lia) H 0 r St) as (u2 & Fu2 & _ & Nu2 & F & HF).
  apply FX_tail0 in Fu2; [|exact Nu2]. subst u2. exists F. exact HF.
Qed.
Lemma pval_FX u r : FX true u -> stops 0 r -> Okp pval (u ++ r) r.
Proof.
  intros H St. destruct (pexpr_FX u r H St) as (F & HF).
  destruct (FX_hd u H) as (t & u' & -> & Ht).
  exists F. intros f Hf. destruct (HF f Hf) as (e & E). cbn [app] in *. rewrite pval_expr.
  - rewrite E. eauto.
  - intros K. rewrite K in Ht. discriminate.
  - intros K. rewrite K in Ht. discriminate.
Qed.

Lemma drop_closer_id r : is_closer (peek r) = false -> drop_closer r = r.
Proof. destruct r as [|c r]; [reflexivity|]. cbn [peek drop_closer]. now intros ->. Qed.

Lemma pbracketed_other {A} (px : list token -> option (A * list token)) follow o r :
  tkk o <> TLSQBRAC -> tkk o <> TLBRAC ->
  pbracketed px follow (o :: r) = match px (o :: r) with Some (x, r1) => Some (x, drop_closer r1) | None => None end.
Proof. intros H1 H2. unfold pbracketed. destruct (tkk o); congruence || reflexivity. Qed.

Section Brack.
Context {A : Type}.
Variable pe : nat -> list token -> option (A * list token).
Variable e : ebnf nat.
Variable follow : tk -> bool.
Hypothesis E1 : forall u r, D e u -> stops 0 r -> Okp pe (u ++ r) r.
Hypothesis E2 : forall o u', D e (o :: u') -> tkk o = TLBRAC ->
  exists u1 c w, u' = u1 ++ c :: w /\ tkk c = TRBRAC /\ FX false w /\ forall r, Okp pe (u1 ++ c :: r) (c :: r).
Hypothesis E3 : forall u, D e u -> exists t u', u = t :: u' /\ vstart (tkk t) = true.
Hypothesis Fo : forall k, follow k = true -> estop k = true /\ k <> TCOMMA /\ is_closer k = false.

Let px (f:nat) (ts:list token) := psep (pe f) f ts.
Definition good (r:list token) : Prop := is_closer (peek r) = true \/ follow (peek r) = true.

Lemma good_stops r : good r -> stops 0 r /\ peek r <> TCOMMA.
Proof.
  intros [H|H].
  - split; [apply stops_peek|]; destruct (peek r); try discriminate H; try reflexivity; discriminate.
  - apply Fo in H. destruct H as (H1 & H2 & _). split; [now apply stops_peek|exact H2].
Qed.

Lemma px_ok u r : D (SepL e 40) u -> good r -> Okp px (u ++ r) r.
Proof.
  intros H G. apply good_stops in G. destruct G as [St Nc].
  destruct (psep_complete pe e E1 u r H St Nc) as (F & HF). exists F. intros f Hf. apply (HF f f Hf Hf).
Qed.

Lemma px_one ts c r : tkk c = TRBRAC -> Okp pe ts (c :: r) -> Okp px ts (c :: r).
Proof.
  intros Kc (F & HF). exists (S F). intros f Hf. destruct f as [|f]; [lia|]. unfold px. rewrite psep_S.
  destruct (HF (S f) ltac:(lia)) as (x & E). rewrite E.
  assert (Hn : isk TCOMMA c = false) by (apply isk_false; congruence). rewrite Hn. eauto.
Qed.

Lemma closer_nofollow k : is_closer k = true -> follow k = false.
Proof. intros H. destruct (follow k) eqn:E; [|reflexivity]. apply Fo in E. destruct E as (_ & _ & E). congruence. Qed.

Lemma closer_rest b r : D OptClose b -> follow (peek r) = true ->
  drop_closer (b ++ r) = r /\ good (b ++ r) /\ (b = [] \/ follow (peek (b ++ r)) = false).
Proof.
  intros Hb Hr.
  assert (Hnc : is_closer (peek r) = false) by (apply Fo in Hr; apply Hr).
  dinv; cbn [app].
  - split; [now apply drop_closer_id|]. split; [now right|now left].
  - split; [cbn [drop_closer]; now rewrite K|]. split; [left; cbn [peek]; now rewrite K|right].
    apply closer_nofollow. cbn [peek]. now rewrite K.
  - split; [cbn [drop_closer]; now rewrite K|]. split; [left; cbn [peek]; now rewrite K|right].
    apply closer_nofollow. cbn [peek]. now rewrite K.
Qed.

Theorem pbracketed_complete a u b r :
  D OptOpen a -> D (SepL e 40) u -> D OptClose b -> follow (peek r) = true ->
  exists F, forall f, F <= f -> exists x, pbracketed (px f) follow (a ++ u ++ b ++ r) = Some (x, r).
Proof.
  intros Ha Hu Hb Hr.
  destruct (closer_rest b r Hb Hr) as (HR1 & HR2 & HR3).
  destruct (px_ok u (b ++ r) Hu HR2) as (F1 & HF1).
  apply D_alt_inv in Ha. destruct Ha as [Ha|Ha].
  - (* no opening bracket *)
    apply D_eps_inv in Ha. subst a. cbn [app].
    apply D_seq_inv in Hu. destruct Hu as (u0 & s & -> & Hu0 & Hs).
    destruct (E3 u0 Hu0) as (t & u0' & -> & Ht). apply vstart_facts in Ht. destruct Ht as (_ & _ & Ht & _).
    destruct (tk_beq (tkk t) TLBRAC) eqn:Kt.
    + apply internal_tk_dec_bl in Kt.
      destruct (E2 t u0' Hu0 Kt) as (u1 & c & w & -> & Kc & Hw & Hpe).
      destruct (px_one _ c ((w ++ s) ++ b ++ r) Kc (Hpe _)) as (F2 & HF2).
      exists (max F1 F2). intros f Hf. destruct (HF1 f ltac:(lia)) as (x & E). destruct (HF2 f ltac:(lia)) as (x1 & Eq1).
      lnorm_in E. lnorm_in Eq1. lnorm'. unfold pbracketed. rewrite Kt. rewrite Eq1, E. cbv zeta. rewrite HR1.
      cbn [drop_closer]. rewrite Kc. cbn [is_closer].
      destruct (follow (peek (w ++ s ++ b ++ r))) eqn:Ef; [|eauto].
      (* the follow test can only succeed when nothing but the rest is left *)
      inversion Hw as [| | |tb v (ob & Hob) Hv]; subst; cbn [app] in Ef.
      * apply D_star_inv in Hs. destruct Hs as [->|(p & s' & -> & Hp & _)].
        -- cbn [app] in Ef. destruct HR3 as [->|HR3]; [cbn [app]; eauto|congruence].
        -- exfalso. apply D_seq_inv in Hp. destruct Hp as (cm & p' & -> & Hcm & _). apply D_tok_inv in Hcm.
           destruct Hcm as (tcm & -> & Kcm). cbn [tk_of_nat app peek] in *. apply Fo in Ef. rewrite Kcm in Ef.
           destruct Ef as (_ & Ef & _). congruence.
      * exfalso. cbn [peek] in Ef. apply Fo in Ef. destruct Ef as (Ef & _). rewrite (bop_spec _ _ Hob) in Ef.
        destruct ob as [|[|]|[|]]; discriminate Ef.
    + assert (Kt' : tkk t <> TLBRAC) by (intros E; apply internal_tk_dec_lb in E; congruence).
      exists F1. intros f Hf. destruct (HF1 f Hf) as (x & E). lnorm_in E. lnorm'.
      rewrite pbracketed_other by assumption. rewrite E, HR1. eauto.
  - apply D_alt_inv in Ha. destruct Ha as [Ha|Ha]; apply D_tok_inv in Ha; destruct Ha as (o & -> & Ko);
    cbn [tk_of_nat] in Ko; cbn [app]; exists F1; intros f Hf; destruct (HF1 f Hf) as (x & E);
    unfold pbracketed; rewrite Ko, E; cbv zeta; rewrite HR1; [rewrite Hr|]; eauto.
Qed.
End Brack.

(* the two instances: a row of expressions after APPLY, a list of values in a for-loop header *)
Lemma estart_vstart k : estart k = true -> vstart k = true.
Proof. unfold vstart. destruct k; auto. Qed.

Lemma stmt_follow_facts k : stmt_follow k = true -> estop k = true /\ k <> TCOMMA /\ is_closer k = false.
Proof. destruct k; cbn; intros H; try discriminate H; repeat split; discriminate. Qed.
Lemma nl_follow_facts k : nl_follow k = true -> estop k = true /\ k <> TCOMMA /\ is_closer k = false.
Proof. destruct k; cbn; intros H; try discriminate H; repeat split; discriminate. Qed.

Lemma expr_E2 o u' : D (Ref 31) (o :: u') -> tkk o = TLBRAC ->
  exists u1 c w, u' = u1 ++ c :: w /\ tkk c = TRBRAC /\ FX false w /\
                 forall r, Okp (fun f => pexpr f 0) (u1 ++ c :: r) (c :: r).
Proof.
  intros H Ko. apply D31_FX in H. destruct (FX_lbrac o u' H Ko) as (u1 & c & w & -> & Hu1 & Kc & Hw).
  exists u1, c, w. repeat split; auto. intros r. apply pexpr_FX; [exact Hu1|apply stops_closer; now left].
Qed.
Lemma expr_E3 u : D (Ref 31) u -> exists t u', u = t :: u' /\ vstart (tkk t) = true.
Proof.
  intros H. apply D31_FX in H. destruct (FX_hd u H) as (t & u' & -> & Ht). exists t, u'. split; [reflexivity|].
  now apply estart_vstart.
Qed.
Lemma val_E2 o u' : D (Ref 28) (o :: u') -> tkk o = TLBRAC ->
  exists u1 c w, u' = u1 ++ c :: w /\ tkk c = TRBRAC /\ FX false w /\ forall r, Okp pval (u1 ++ c :: r) (c :: r).
Proof.
  intros H Ko. dref H. apply D_alt_inv in H. destruct H as [H|H].
  - exfalso. dref H. apply D_alt_inv in H. destruct H as [H|H]; apply D_tok_inv in H; destruct H as (t & E & K);
    inversion E; subst; cbn [tk_of_nat] in K; congruence.
  - apply D31_FX in H. destruct (FX_lbrac o u' H Ko) as (u1 & c & w & -> & Hu1 & Kc & Hw).
    exists u1, c, w. repeat split; auto. intros r. apply pval_FX; [exact Hu1|apply stops_closer; now left].
Qed.

Theorem pbracketed_row a u b r :
  D OptOpen a -> D (Ref 21) u -> D OptClose b -> stmt_follow (peek r) = true ->
  exists F, forall f, F <= f -> exists x, pbracketed (parrayrow f) stmt_follow (a ++ u ++ b ++ r) = Some (x, r).
Proof.
  intros Ha Hu Hb Hr. dref Hu.
  exact (pbracketed_complete (fun f => pexpr f 0) (Ref 31) stmt_follow pexpr_complete0 expr_E2 expr_E3 stmt_follow_facts
           a u b r Ha Hu Hb Hr).
Qed.
Theorem pbracketed_vallist a u b r :
  D OptOpen a -> D (Ref 29) u -> D OptClose b -> nl_follow (peek r) = true ->
  exists F, forall f, F <= f -> exists x, pbracketed (pvallist f) nl_follow (a ++ u ++ b ++ r) = Some (x, r).
Proof.
  intros Ha Hu Hb Hr. dref Hu.
  exact (pbracketed_complete pval (Ref 28) nl_follow pval_complete val_E2 val_hd nl_follow_facts
           a u b r Ha Hu Hb Hr).
Qed.

(* ------------------------------------------------------------------------------------------------ *)
(* 6. Statements                                                                                     *)
(* ------------------------------------------------------------------------------------------------ *)
Lemma star_NL l : D (Star (Tok 16)) l -> NL l.
Proof.
  intros H. induction H as [|p l' Hp Hl' IH] using D_star_ind'; [constructor|].
  apply D_tok_inv in Hp. destruct Hp as (t & -> & K). cbn [tk_of_nat] in K. constructor; assumption.
Qed.

Lemma NL_follow nls r : NL nls -> stmt_follow (peek r) = true -> stmt_follow (peek (nls ++ r)) = true.
Proof. intros H Hr. destruct H as [|t l Ht _]; [exact Hr|]. cbn [app peek]. now rewrite Ht. Qed.

Lemma args_hd u : D (Ref 26) u -> exists o u', u = o :: u' /\ tkk o = TLBRAC.
Proof.
  intros H. dref H. apply D_seq_inv in H. destruct H as (o & v & -> & Ho & _). apply D_tok_inv in Ho.
  destruct Ho as (t & -> & K). cbn [tk_of_nat] in K. exists t, v. split; [reflexivity|exact K].
Qed.

Lemma pstatement_eq f n r : tkk n = TNAME \/ tkk n = TMEASURE -> pstatement f (n :: r) =
  match (if tk_beq (peek r) TLBRAC
         then match parguments f r with Some (a, r1) => Some (Some a, r1) | None => None end
         else Some (None, r)) with
  | Some (a, b :: r1) =>
      if isk TAPPLY b then
        match pbracketed (parrayrow f) stmt_follow r1 with
        | Some (ms, r2) => Some (mkstmt (ttext n) a ms, r2)
        | None => None
        end
      else None
  | _ => None
  end.
Proof.
  intros H. unfold pstatement.
  assert (E : (isk TNAME n || isk TMEASURE n)%bool = true).
  { destruct H as [H|H]; apply isk_true in H; rewrite H; [reflexivity|apply orb_true_r]. }
  rewrite E. reflexivity.
Qed.

(* statement : (operation | measure) arguments? APPLY (LBRAC|LSQBRAC)? arrayrow (RBRAC|RSQBRAC)? NEWLINE*
   the parser leaves the trailing NEWLINEs *)
Theorem pstatement_complete u r : D (Ref 22) u -> stmt_follow (peek r) = true ->
  exists pre nls, u = pre ++ nls /\ NL nls /\ Okp pstatement (u ++ r) (nls ++ r).
Proof.
  intros H Hr. dref H.
  apply D_seq_inv in H. destruct H as (hd & v1 & -> & Hhd & H).
  apply D_seq_inv in H. destruct H as (ar & v2 & -> & Har & H).
  apply D_seq_inv in H. destruct H as (ap & v3 & -> & Hap & H).
  apply D_seq_inv in H. destruct H as (o & v4 & -> & Ho & H).
  apply D_seq_inv in H. destruct H as (row & v5 & -> & Hrow & H).
  apply D_seq_inv in H. destruct H as (cl & nls & -> & Hcl & Hnls).
  apply star_NL in Hnls.
  apply D_tok_inv in Hap. destruct Hap as (tap & -> & Kap). cbn [tk_of_nat] in Kap.
  assert (Hn : exists n, hd = [n] /\ (tkk n = TNAME \/ tkk n = TMEASURE)).
  { apply D_alt_inv in Hhd. destruct Hhd as [Hhd|Hhd]; dref Hhd; apply D_tok_inv in Hhd; destruct Hhd as (n & -> & K);
    cbn [tk_of_nat] in K; exists n; auto. }
  destruct Hn as (n & -> & Kn).
  exists ([n] ++ ar ++ [tap] ++ o ++ row ++ cl), nls. split; [now lnorm'|]. split; [exact Hnls|].
  destruct (pbracketed_row o row cl (nls ++ r) Ho Hrow Hcl (NL_follow nls r Hnls Hr)) as (F1 & HF1).
  apply (isk_true TAPPLY) in Kap.
  apply D_alt_inv in Har. destruct Har as [Har|Har].
  - apply D_eps_inv in Har. subst ar. exists F1. intros f Hf. lnorm'. rewrite pstatement_eq by exact Kn.
    cbn [peek]. apply isk_true in Kap. rewrite Kap. cbn [tk_beq]. apply isk_true in Kap. rewrite Kap.
    destruct (HF1 f Hf) as (x & E). lnorm_in E. rewrite E. eauto.
  - destruct (args_hd ar Har) as (lb & ar' & Ear & Klb).
    destruct (parguments_complete ar ([tap] ++ o ++ row ++ cl ++ nls ++ r) Har) as (F2 & HF2).
    exists (max F1 F2). intros f Hf. lnorm'. rewrite pstatement_eq by exact Kn.
    destruct (HF2 f ltac:(lia)) as (a & E2). lnorm_in E2.
    assert (Pk : tk_beq (peek (ar ++ tap :: o ++ row ++ cl ++ nls ++ r)) TLBRAC = true).
    { rewrite Ear. cbn [app peek]. rewrite Klb. reflexivity. }
    rewrite Pk, E2, Kap. destruct (HF1 f ltac:(lia)) as (x & E). lnorm_in E. rewrite E. eauto.
Qed.

(* ------------------------------------------------------------------------------------------------ *)
(* 7. For-loops                                                                                      *)
(* ------------------------------------------------------------------------------------------------ *)
Local Notation GRP := (Seq (Tok 16) (Seq (Tok 17) (Ref 22))).

(* the first token after the NEWLINEs at the start of r is not a TAB *)
Definition notab (r:list token) : Prop := forall t r', skip_nl r = t :: r' -> tkk t <> TTAB.

Lemma skip_nl_app nls r : NL nls -> skip_nl (nls ++ r) = skip_nl r.
Proof.
  induction 1 as [|t l Ht Hl IH]; [reflexivity|]. cbn [app skip_nl]. apply (isk_true TNEWLINE) in Ht. now rewrite Ht.
Qed.
Lemma skip_nl_stop t r : tkk t <> TNEWLINE -> skip_nl (t :: r) = t :: r.
Proof. intros H. cbn [skip_nl]. apply (isk_false TNEWLINE) in H. now rewrite H. Qed.

Lemma has_nl_ok nls nl x : NL nls -> tkk nl = TNEWLINE ->
  match nls ++ nl :: x with n :: _ => isk TNEWLINE n | [] => false end = true.
Proof. intros H K. destruct H as [|t l Ht _]; cbn [app]; now apply isk_true. Qed.

Lemma grp_inv g : D GRP g -> exists nl tb st, g = nl :: tb :: st /\ tkk nl = TNEWLINE /\ tkk tb = TTAB /\ D (Ref 22) st.
Proof.
  intros H. apply D_seq_inv in H. destruct H as (a & v & -> & Ha & H). apply D_seq_inv in H.
  destruct H as (b & st & -> & Hb & Hst). apply D_tok_inv in Ha. apply D_tok_inv in Hb.
  destruct Ha as (nl & -> & Knl). destruct Hb as (tb & -> & Ktb). cbn [tk_of_nat] in *.
  exists nl, tb, st. auto.
Qed.

Lemma grp_follow gs r : D (Star GRP) gs -> stmt_follow (peek r) = true -> stmt_follow (peek (gs ++ r)) = true.
Proof.
  intros H Hr. apply D_star_inv in H. destruct H as [->|(g & v & -> & Hg & _)]; [exact Hr|].
  apply grp_inv in Hg. destruct Hg as (nl & tb & st & -> & Knl & _). cbn [app peek]. now rewrite Knl.
Qed.

Lemma pforbody_false_complete : forall gs, D (Star GRP) gs -> forall nls0 r, NL nls0 ->
  stmt_follow (peek r) = true -> notab r ->
  exists nls', NL nls' /\ Okp (fun f => pforbody f false) (nls0 ++ gs ++ r) (nls' ++ r).
Proof.
  intros gs H. induction H as [|g gs' Hg Hgs' IH] using D_star_ind'; intros nls0 r N0 Hr Ht.
  - exists nls0. split; [exact N0|]. exists 1. intros f Hf. destruct f as [|f]; [lia|]. cbn [app].
    rewrite pforbody_S. cbv beta iota zeta. rewrite (skip_nl_app nls0 r N0).
    destruct (skip_nl r) as [|tb r'] eqn:E; [eauto|].
    apply Ht in E. apply (isk_false TTAB) in E. rewrite E, andb_false_r. eauto.
  - apply grp_inv in Hg. destruct Hg as (nl & tb & st & -> & Knl & Ktb & Hst).
    destruct (pstatement_complete st (gs' ++ r) Hst (grp_follow gs' r Hgs' Hr)) as (pre1 & nls1 & E1 & N1 & F1 & HF1).
    destruct (IH nls1 r N1 Hr Ht) as (nls' & N' & F2 & HF2).
    exists nls'. split; [exact N'|]. exists (S (max F1 F2)). intros f Hf. destruct f as [|f]; [lia|].
    rewrite pforbody_S. cbv beta iota zeta. lnorm'.
    rewrite (has_nl_ok nls0 nl _ N0 Knl).
    replace (nls0 ++ nl :: tb :: st ++ gs' ++ r) with ((nls0 ++ [nl]) ++ tb :: st ++ gs' ++ r) by now lnorm'.
    rewrite skip_nl_app by (apply Forall_app; split; [exact N0|constructor; [exact Knl|constructor]]).
    rewrite skip_nl_stop by congruence.
    apply (isk_true TTAB) in Ktb. rewrite Ktb. cbn [andb].
    destruct (HF1 f ltac:(lia)) as (s & Es). lnorm_in Es. rewrite Es.
    destruct (HF2 f ltac:(lia)) as (ss & Ess). rewrite Ess. eauto.
Qed.

Lemma pforbody_true_complete g gs r : D GRP g -> D (Star GRP) gs -> stmt_follow (peek r) = true -> notab r ->
  exists nls', NL nls' /\ Okp (fun f => pforbody f true) (g ++ gs ++ r) (nls' ++ r).
Proof.
  intros Hg Hgs Hr Ht.
  apply grp_inv in Hg. destruct Hg as (nl & tb & st & -> & Knl & Ktb & Hst).
  destruct (pstatement_complete st (gs ++ r) Hst (grp_follow gs r Hgs Hr)) as (pre1 & nls1 & E1 & N1 & F1 & HF1).
  destruct (pforbody_false_complete gs Hgs nls1 r N1 Hr Ht) as (nls' & N' & F2 & HF2).
  exists nls'. split; [exact N'|]. exists (S (max F1 F2)). intros f Hf. destruct f as [|f]; [lia|].
  rewrite pforbody_S. cbv beta iota zeta. lnorm'.
  apply (isk_true TNEWLINE) in Knl. rewrite Knl. apply (isk_true TTAB) in Ktb. rewrite Ktb. cbn [andb].
  destruct (HF1 f ltac:(lia)) as (s & Es). lnorm_in Es. rewrite Es.
  destruct (HF2 f ltac:(lia)) as (ss & Ess). rewrite Ess. eauto.
Qed.

Lemma vartype_inv u : D (Ref 17) u -> exists t vt, u = [t] /\ vtype_of_tk (tkk t) = Some vt.
Proof. intros H. dref H. dinv; eexists; eexists; (split; [reflexivity|]); rewrite K; reflexivity. Qed.

Local Notation HDR := (Alt (Ref 30) (Seq OptOpen (Seq (Ref 29) OptClose))).

Lemma pforhdr_list f r : (forall a c1 x, r = a :: c1 :: x -> (isk TINT a && isk TCOLON c1)%bool = false) ->
  pforhdr f r = match pbracketed (pvallist f) nl_follow r with Some (l, r1') => Some (HList l, r1') | None => None end.
Proof.
  intros H. unfold pforhdr. destruct r as [|a [|c1 [|b r1]]]; try reflexivity.
  rewrite (H a c1 (b :: r1) eq_refl). reflexivity.
Qed.

Lemma nl_follow_hd r : nl_follow (peek r) = true -> exists nl r', r = nl :: r' /\ tkk nl = TNEWLINE.
Proof.
  destruct r as [|nl r']; [discriminate|]. cbn [peek]. intros H. exists nl, r'. split; [reflexivity|].
  destruct (tkk nl); try discriminate H; reflexivity.
Qed.

(* an expression that starts with INT: the next token is a binary operator (or there is none) *)
Lemma FX_int t u' : FX true (t :: u') -> tkk t = TINT -> FX false u'.
Proof.
  intros H Kt. inversion H as [u0 w Hp Hw Eb E|t0 u'' (neg & Hs) Hu| |]; subst.
  - inversion Hp as [t0 Ha E1|o1 u1 c Ko1 Hu1 Kc E1|t0 fu o1 u1 c Kt0 Ko1 Hu1 Kc E1|t0 o1 u1 c Kt0 Ko1 Hu1 Kc E1|o1 t0 c Ko1 Kt0 Kc E1];
    subst; cbn [app] in E; inversion E; subst; try congruence.
    rewrite Kt in Kt0. discriminate.
  - rewrite Kt in Hs. discriminate.
Qed.

Lemma hdr_list_nocolon vl cl rest : D (Ref 29) vl -> D OptClose cl -> nl_follow (peek rest) = true ->
  forall a c1 x, vl ++ cl ++ rest = a :: c1 :: x -> (isk TINT a && isk TCOLON c1)%bool = false.
Proof.
  intros Hvl Hcl Hr a c1 x E.
  destruct (isk TINT a) eqn:Ka; [|reflexivity]. cbn [andb]. apply isk_true in Ka. apply isk_false.
  (* the token after cl-or-rest is a closer or a NEWLINE *)
  assert (Hcr : forall y z, cl ++ rest = y :: z -> tkk y <> TCOLON).
  { intros y z Ey. destruct (nl_follow_hd rest Hr) as (nl & r' & -> & Knl).
    dinv; cbn [app] in Ey; inversion Ey; subst; congruence. }
  dref Hvl. apply D_seq_inv in Hvl. destruct Hvl as (u0 & s & -> & Hu0 & Hs).
  assert (Hsr : forall y z, s ++ cl ++ rest = y :: z -> tkk y <> TCOLON).
  { intros y z Ey. apply D_star_inv in Hs. destruct Hs as [->|(p & s' & -> & Hp & _)]; [exact (Hcr y z Ey)|].
    apply D_seq_inv in Hp. destruct Hp as (cm & p' & -> & Hcm & _). apply D_tok_inv in Hcm.
    destruct Hcm as (tcm & -> & Kcm). cbn [tk_of_nat] in Kcm. lnorm_in Ey. inversion Ey; subst. congruence. }
  dref Hu0. apply D_alt_inv in Hu0. destruct Hu0 as [Hu0|Hu0].
  - exfalso. dref Hu0. apply D_alt_inv in Hu0.
    destruct Hu0 as [Hu0|Hu0]; apply D_tok_inv in Hu0; destruct Hu0 as (t & -> & K); cbn [tk_of_nat] in K;
    lnorm_in E; inversion E; subst; congruence.
  - apply D31_FX in Hu0. destruct (FX_hd u0 Hu0) as (t & u0' & -> & _). lnorm_in E. inversion E as [[Et E']]. subst t.
    apply (FX_int a u0' Hu0) in Ka. inversion Ka as [| | |b v (ob & Hob) Hv]; subst.
    + cbn [app] in E'. exact (Hsr c1 x E').
    + cbn [app] in E'. inversion E'; subst. intros Kc. rewrite Kc in Hob. discriminate.
Qed.

Theorem pforhdr_complete hdr rest : D HDR hdr -> nl_follow (peek rest) = true -> Okp pforhdr (hdr ++ rest) rest.
Proof.
  intros H Hr. apply D_alt_inv in H. destruct H as [H|H].
  - (* range *)
    destruct (nl_follow_hd rest Hr) as (nl & r' & -> & Knl).
    assert (Hnc : isk TCOLON nl = false) by (apply isk_false; congruence).
    dref H. dinv; cbn [app]; exists 0; intros f _; unfold pforhdr;
    repeat match goal with K : tkk ?t = ?k |- _ => apply (isk_true k t) in K; rewrite ?K end; cbn [andb].
    + rewrite Hnc. destruct r'; eauto.
    + eauto.
  - apply D_seq_inv in H. destruct H as (o & v & -> & Ho & H). apply D_seq_inv in H. destruct H as (vl & cl & -> & Hvl & Hcl).
    destruct (pbracketed_vallist o vl cl rest Ho Hvl Hcl Hr) as (F & HF).
    exists F. intros f Hf. lnorm'. rewrite pforhdr_list.
    + destruct (HF f Hf) as (x & E). rewrite E. eauto.
    + intros a c1 x E. apply D_alt_inv in Ho. destruct Ho as [Ho|Ho].
      * apply D_eps_inv in Ho. subst o. cbn [app] in E. exact (hdr_list_nocolon vl cl rest Hvl Hcl Hr a c1 x E).
      * assert (Ka : isk TINT a = false); [|now rewrite Ka].
        apply isk_false. apply D_alt_inv in Ho. destruct Ho as [Ho|Ho]; apply D_tok_inv in Ho;
        destruct Ho as (t & -> & K); cbn [tk_of_nat] in K; cbn [app] in E; inversion E; subst; congruence.
Qed.

(* forloop : FOR vartype NAME IN (rangeval | (LBRAC|LSQBRAC)? vallist (RBRAC|RSQBRAC)?) (NEWLINE TAB statement)+ *)
Theorem pfor_complete u r : D (Ref 25) u -> stmt_follow (peek r) = true -> notab r ->
  exists nls, NL nls /\ Okp pfor (u ++ r) (nls ++ r).
Proof.
  intros H Hr Ht. dref H.
  apply D_seq_inv in H. destruct H as (fo & v1 & -> & Hfo & H).
  apply D_seq_inv in H. destruct H as (ty & v2 & -> & Hty & H).
  apply D_seq_inv in H. destruct H as (x & v3 & -> & Hx & H).
  apply D_seq_inv in H. destruct H as (i & v4 & -> & Hi & H).
  apply D_seq_inv in H. destruct H as (hdr & v5 & -> & Hhdr & H).
  apply D_seq_inv in H. destruct H as (g & gs & -> & Hg & Hgs).
  apply D_tok_inv in Hfo. destruct Hfo as (tfo & -> & Kfo).
  apply D_tok_inv in Hx. destruct Hx as (tx & -> & Kx).
  apply D_tok_inv in Hi. destruct Hi as (ti & -> & Ki). cbn [tk_of_nat] in *.
  apply vartype_inv in Hty. destruct Hty as (tty & vt & -> & Kty).
  destruct (pforbody_true_complete g gs r Hg Hgs Hr Ht) as (nls & N & F2 & HF2).
  assert (Hb : nl_follow (peek (g ++ gs ++ r)) = true).
  { apply grp_inv in Hg. destruct Hg as (nl & tb & st & -> & Knl & _). cbn [app peek]. now rewrite Knl. }
  destruct (pforhdr_complete hdr (g ++ gs ++ r) Hhdr Hb) as (F1 & HF1).
  exists nls. split; [exact N|]. exists (max F1 F2). intros f Hf. lnorm'. rewrite pfor_eq.
  apply (isk_true TFOR) in Kfo. apply (isk_true TNAME) in Kx. apply (isk_true TIN) in Ki. rewrite Kfo, Kx, Ki. cbn [andb].
  rewrite Kty. destruct (HF1 f ltac:(lia)) as (h & E1). rewrite E1.
  destruct (HF2 f ltac:(lia)) as (body & E2). rewrite E2. eauto.
Qed.

(* ------------------------------------------------------------------------------------------------ *)
(* 8. Declarations                                                                                   *)
(* ------------------------------------------------------------------------------------------------ *)
Lemma tk_beq_false a b : a <> b -> tk_beq a b = false.
Proof. intros H. destruct (tk_beq a b) eqn:E; [|reflexivity]. apply internal_tk_dec_bl in E. contradiction. Qed.
Lemma tk_beq_true a b : a = b -> tk_beq a b = true.
Proof. apply internal_tk_dec_lb. Qed.

(* name : invalid | NAME     invalid : REGREF | reserved *)
Lemma name_inv u : D (Ref 14) u -> exists t dn, u = [t] /\ pdname t = Some dn /\ tkk t <> TTYPE_ARRAY.
Proof.
  intros H. dref H. dinv;
  repeat match goal with
         | H : D (Ref 15) _ |- _ => dref H; dinv
         | H : D (Ref 16) _ |- _ => dref H; dinv
         end;
  eexists; eexists; (split; [reflexivity|]); unfold pdname; rewrite K; (split; [reflexivity|discriminate]).
Qed.

Lemma pshape_star : forall s, D (Star (Seq (Tok 40) (Tok 9))) s -> forall i r, tkk i = TINT -> peek r <> TCOMMA ->
  Okp pshape (i :: s ++ r) r.
Proof.
  intros s H. induction H as [|p s' Hp Hs' IH] using D_star_ind'; intros i r Ki Nc.
  - exists 1. intros f Hf. destruct f as [|f]; [lia|]. cbn [app]. rewrite pshape_S.
    apply (isk_true TINT) in Ki. rewrite Ki. destruct r as [|c r1]; [eauto|]. rewrite (nocomma_isk c r1 Nc). eauto.
  - apply D_seq_inv in Hp. destruct Hp as (a & b & -> & Ha & Hb). apply D_tok_inv in Ha. apply D_tok_inv in Hb.
    destruct Ha as (c & -> & Kc). destruct Hb as (j & -> & Kj). cbn [tk_of_nat] in *.
    destruct (IH j r Kj Nc) as (F & HF). exists (S F). intros f Hf. destruct f as [|f]; [lia|]. lnorm'.
    rewrite pshape_S. apply (isk_true TINT) in Ki. rewrite Ki. apply (isk_true TCOMMA) in Kc. rewrite Kc.
    destruct (HF f ltac:(lia)) as (l & E). rewrite E. eauto.
Qed.
Theorem pshape_complete u r : D (Ref 19) u -> peek r <> TCOMMA -> Okp pshape (u ++ r) r.
Proof.
  intros H Nc. dref H. apply D_seq_inv in H. destruct H as (a & s & -> & Ha & Hs). apply D_tok_inv in Ha.
  destruct Ha as (i & -> & Ki). cbn [tk_of_nat] in Ki. cbn [app]. now apply pshape_star.
Qed.

(* arrayval : (TAB arrayrow NEWLINE)* *)
Theorem parrayval_complete u r : D (Ref 20) u -> peek r <> TTAB -> Okp parrayval (u ++ r) r.
Proof.
  intros H Nt. dref H. induction H as [|p s' Hp Hs' IH] using D_star_ind'.
  - exists 1. intros f Hf. destruct f as [|f]; [lia|]. cbn [app]. rewrite parrayval_S.
    destruct r as [|tb r1]; [eauto|]. cbn [peek] in Nt. apply (isk_false TTAB) in Nt. rewrite Nt. eauto.
  - apply D_seq_inv in Hp. destruct Hp as (a & b & -> & Ha & Hb). apply D_seq_inv in Hb. destruct Hb as (row & c & -> & Hrow & Hc).
    apply D_tok_inv in Ha. apply D_tok_inv in Hc. destruct Ha as (tb & -> & Ktb). destruct Hc as (nl & -> & Knl).
    cbn [tk_of_nat] in *. destruct IH as (F2 & HF2).
    destruct (parrayrow_complete row (nl :: s' ++ r) Hrow) as (F1 & HF1).
    { apply stops_peek. cbn [peek]. now rewrite Knl. }
    { cbn [peek]. rewrite Knl. discriminate. }
    exists (S (max F1 F2)). intros f Hf. destruct f as [|f]; [lia|]. lnorm'. rewrite parrayval_S.
    apply (isk_true TTAB) in Ktb. rewrite Ktb. destruct (HF1 f ltac:(lia)) as (x & E). rewrite E.
    apply (isk_true TNEWLINE) in Knl. rewrite Knl. destruct (HF2 f ltac:(lia)) as (rows & E2). rewrite E2. eauto.
Qed.

Lemma pdecl_scalar_eq f ty vt n a r1 : vtype_of_tk (tkk ty) = Some vt -> tkk n <> TTYPE_ARRAY ->
  pdecl f (ty :: n :: a :: r1) =
  match pdname n with
  | Some dn =>
      if isk TASSIGN a then
        match pval f r1 with
        | Some (v, r2) => Some (IScalar vt dn v (tline ty) (tcol ty), r2)
        | None => None
        end
      else None
  | None => None
  end.
Proof. intros H N. unfold pdecl. rewrite H. cbn [peek]. rewrite (tk_beq_false _ _ N). reflexivity. Qed.

Lemma pdecl_array_eq f ty vt ar n r1 : vtype_of_tk (tkk ty) = Some vt -> tkk ar = TTYPE_ARRAY ->
  pdecl f (ty :: ar :: n :: r1) =
  match pdname n with
  | Some dn =>
      let sh :=
        if tk_beq (peek r1) TLSQBRAC then
          match pshape f (tl r1) with
          | Some (l, c :: r2) => if isk TRSQBRAC c then Some (Some l, r2) else None
          | _ => None
          end
        else Some (None, r1) in
      match sh with
      | Some (shp, a :: nl :: r3) =>
          if (isk TASSIGN a && isk TNEWLINE nl)%bool then
            if tk_beq (peek r3) TLBRACE then
              match r3 with
              | _ :: p :: c :: r4 =>
                  if (isk TNAME p && isk TRBRACE c)%bool
                  then Some (IArray vt dn shp (AParam (ttext p)) (tline ty) (tcol ty), r4) else None
              | _ => None
              end
            else match parrayval f r3 with
                 | Some (rows, r4) => Some (IArray vt dn shp (ARows rows) (tline ty) (tcol ty), r4)
                 | None => None
                 end
          else None
      | _ => None
      end
  | None => None
  end.
Proof. intros H K. unfold pdecl. rewrite H. cbn [peek]. rewrite (tk_beq_true _ _ K). reflexivity. Qed.

(* expressionvar : vartype name ASSIGN (expression | nonnumeric) *)
Theorem pdecl_scalar_complete u r : D (Ref 12) u -> stops 0 r -> Okp pdecl (u ++ r) r.
Proof.
  intros H St. dref H.
  apply D_seq_inv in H. destruct H as (ty & v1 & -> & Hty & H).
  apply D_seq_inv in H. destruct H as (n & v2 & -> & Hn & H).
  apply D_seq_inv in H. destruct H as (a & v & -> & Ha & Hv).
  apply vartype_inv in Hty. destruct Hty as (tty & vt & -> & Kty).
  apply name_inv in Hn. destruct Hn as (tn & dn & -> & Kdn & Nn).
  apply D_tok_inv in Ha. destruct Ha as (ta & -> & Ka). cbn [tk_of_nat] in Ka.
  destruct (pval_complete12 v r Hv St) as (F & HF). exists F. intros f Hf. lnorm'.
  rewrite (pdecl_scalar_eq f tty vt tn ta _ Kty Nn). rewrite Kdn. apply (isk_true TASSIGN) in Ka. rewrite Ka.
  destruct (HF f Hf) as (x & E). rewrite E. eauto.
Qed.

(* arrayvar : vartype TYPE_ARRAY name (LSQBRAC shape RSQBRAC)? ASSIGN NEWLINE (arrayval | parameter) *)
Theorem pdecl_array_complete u r : D (Ref 13) u -> peek r <> TTAB -> peek r <> TLBRACE -> Okp pdecl (u ++ r) r.
Proof.
  intros H Nt Nb. dref H.
  apply D_seq_inv in H. destruct H as (ty & v1 & -> & Hty & H).
  apply D_seq_inv in H. destruct H as (ar & v2 & -> & Har & H).
  apply D_seq_inv in H. destruct H as (n & v3 & -> & Hn & H).
  apply D_seq_inv in H. destruct H as (sp & v4 & -> & Hsp & H).
  apply D_seq_inv in H. destruct H as (a & v5 & -> & Ha & H).
  apply D_seq_inv in H. destruct H as (nl & body & -> & Hnl & Hbody).
  apply vartype_inv in Hty. destruct Hty as (tty & vt & -> & Kty).
  apply name_inv in Hn. destruct Hn as (tn & dn & -> & Kdn & Nn).
  apply D_tok_inv in Har. destruct Har as (tar & -> & Kar).
  apply D_tok_inv in Ha. destruct Ha as (ta & -> & Ka).
  apply D_tok_inv in Hnl. destruct Hnl as (tnl & -> & Knl). cbn [tk_of_nat] in *.
  (* the body *)
  assert (HB : exists F, forall f, F <= f -> forall shp, exists x,
            (if tk_beq (peek (body ++ r)) TLBRACE then
               match body ++ r with
               | _ :: p :: c :: r4 =>
                   if (isk TNAME p && isk TRBRACE c)%bool
                   then Some (IArray vt dn shp (AParam (ttext p)) (tline tty) (tcol tty), r4) else None
               | _ => None
               end
             else match parrayval f (body ++ r) with
                  | Some (rows, r4) => Some (IArray vt dn shp (ARows rows) (tline tty) (tcol tty), r4)
                  | None => None
                  end) = Some (x, r)).
  { apply D_alt_inv in Hbody. destruct Hbody as [Hb|Hb].
    - destruct (parrayval_complete body r Hb Nt) as (F & HF). exists F. intros f Hf shp.
      assert (Pk : tk_beq (peek (body ++ r)) TLBRACE = false).
      { apply tk_beq_false. dref Hb. apply D_star_inv in Hb. destruct Hb as [->|(p & s' & -> & Hp & _)]; [exact Nb|].
        apply D_seq_inv in Hp. destruct Hp as (tb & p' & -> & Htb & _). apply D_tok_inv in Htb.
        destruct Htb as (ttb & -> & Ktb). cbn [tk_of_nat app peek] in *. congruence. }
      rewrite Pk. destruct (HF f Hf) as (rows & E). rewrite E. eauto.
    - dref Hb. apply D_seq_inv in Hb. destruct Hb as (lb & v6 & -> & Hlb & Hb).
      apply D_seq_inv in Hb. destruct Hb as (p & c & -> & Hp & Hc).
      apply D_tok_inv in Hlb. destruct Hlb as (tlb & -> & Klb). apply D_tok_inv in Hp. destruct Hp as (tp & -> & Kp).
      apply D_tok_inv in Hc. destruct Hc as (tc & -> & Kc). cbn [tk_of_nat] in *.
      exists 0. intros f _ shp. cbn [app peek]. rewrite (tk_beq_true _ _ Klb).
      apply (isk_true TNAME) in Kp. apply (isk_true TRBRACE) in Kc. rewrite Kp, Kc. cbn [andb]. eauto. }
  destruct HB as (FB & HFB).
  apply (isk_true TASSIGN) in Ka. apply (isk_true TNEWLINE) in Knl.
  apply D_alt_inv in Hsp. destruct Hsp as [Hsp|Hsp].
  - apply D_eps_inv in Hsp. subst sp. exists FB. intros f Hf. lnorm'.
    rewrite (pdecl_array_eq f tty vt tar tn _ Kty Kar). rewrite Kdn. cbn [peek].
    apply isk_true in Ka. rewrite (tk_beq_false (tkk ta) TLSQBRAC) by congruence. apply isk_true in Ka.
    cbv zeta. rewrite Ka, Knl. cbn [andb]. apply HFB. exact Hf.
  - apply D_seq_inv in Hsp. destruct Hsp as (o & v6 & -> & Ho & Hsp). apply D_seq_inv in Hsp.
    destruct Hsp as (shape & c & -> & Hshape & Hc).
    apply D_tok_inv in Ho. destruct Ho as (to & -> & Ko). apply D_tok_inv in Hc. destruct Hc as (tc & -> & Kc).
    cbn [tk_of_nat] in *.
    destruct (pshape_complete shape (tc :: ta :: tnl :: body ++ r) Hshape) as (FS & HFS).
    { cbn [peek]. rewrite Kc. discriminate. }
    exists (max FB FS). intros f Hf. lnorm'.
    rewrite (pdecl_array_eq f tty vt tar tn _ Kty Kar). rewrite Kdn. cbn [peek tl].
    rewrite (tk_beq_true _ _ Ko). destruct (HFS f ltac:(lia)) as (l & E). rewrite E.
    apply (isk_true TRSQBRAC) in Kc. rewrite Kc. cbv zeta. rewrite Ka, Knl. cbn [andb]. apply HFB. lia.
Qed.

(* ------------------------------------------------------------------------------------------------ *)
(* 9. Program                                                                                        *)
(* ------------------------------------------------------------------------------------------------ *)
Local Notation ITEM := (Alt (Tok 16) (Alt (Ref 25) (Alt (Ref 12) (Alt (Ref 13) (Ref 22))))).

(* first tokens of the items other than NEWLINE *)
Definition ifol (k:tk) : bool :=
  match k with
  | TNAME | TMEASURE | TFOR
  | TTYPE_ARRAY | TTYPE_FLOAT | TTYPE_COMPLEX | TTYPE_INT | TTYPE_STR | TTYPE_BOOL => true
  | _ => false
  end.

Lemma vtype_ifol k vt : vtype_of_tk k = Some vt -> ifol k = true.
Proof. destruct k; cbn; intros H; try discriminate H; reflexivity. Qed.

Lemma for_hd u : D (Ref 25) u -> exists t u', u = t :: u' /\ tkk t = TFOR.
Proof.
  intros H. dref H. apply D_seq_inv in H. destruct H as (a & v & -> & Ha & _). apply D_tok_inv in Ha.
  destruct Ha as (t & -> & K). exists t, v. auto.
Qed.
Lemma stmt_hd u : D (Ref 22) u -> exists t u', u = t :: u' /\ (tkk t = TNAME \/ tkk t = TMEASURE).
Proof.
  intros H. dref H. apply D_seq_inv in H. destruct H as (a & v & -> & Ha & _).
  apply D_alt_inv in Ha. destruct Ha as [Ha|Ha]; dref Ha; apply D_tok_inv in Ha; destruct Ha as (t & -> & K);
  exists t, v; auto.
Qed.
Lemma scalar_hd u : D (Ref 12) u -> exists t u' vt, u = t :: u' /\ vtype_of_tk (tkk t) = Some vt.
Proof.
  intros H. dref H. apply D_seq_inv in H. destruct H as (a & v & -> & Ha & _). apply vartype_inv in Ha.
  destruct Ha as (t & vt & -> & K). exists t, v, vt. auto.
Qed.
Lemma array_hd u : D (Ref 13) u -> exists t u' vt, u = t :: u' /\ vtype_of_tk (tkk t) = Some vt.
Proof.
  intros H. dref H. apply D_seq_inv in H. destruct H as (a & v & -> & Ha & _). apply vartype_inv in Ha.
  destruct Ha as (t & vt & -> & K). exists t, v, vt. auto.
Qed.

Lemma item_hd it : D ITEM it ->
  (exists t, it = [t] /\ tkk t = TNEWLINE) \/ (exists t it', it = t :: it' /\ ifol (tkk t) = true).
Proof.
  intros H. apply D_alt_inv in H. destruct H as [H|H].
  { left. apply D_tok_inv in H. destruct H as (t & -> & K). exists t. auto. }
  right. apply D_alt_inv in H. destruct H as [H|H].
  { destruct (for_hd it H) as (t & u' & -> & K). exists t, u'. split; [reflexivity|now rewrite K]. }
  apply D_alt_inv in H. destruct H as [H|H].
  { destruct (scalar_hd it H) as (t & u' & vt & -> & K). exists t, u'. split; [reflexivity|now apply vtype_ifol with vt]. }
  apply D_alt_inv in H. destruct H as [H|H].
  { destruct (array_hd it H) as (t & u' & vt & -> & K). exists t, u'. split; [reflexivity|now apply vtype_ifol with vt]. }
  destruct (stmt_hd it H) as (t & u' & -> & [K|K]); exists t, u'; (split; [reflexivity|now rewrite K]).
Qed.

Lemma prog_hd w : D (Star ITEM) w ->
  w = [] \/ exists t w', w = t :: w' /\ (tkk t = TNEWLINE \/ ifol (tkk t) = true).
Proof.
  intros H. apply D_star_inv in H. destruct H as [->|(it & v & -> & Hit & _)]; [now left|right].
  apply item_hd in Hit. destruct Hit as [(t & -> & K)|(t & it' & -> & K)]; cbn [app]; eauto.
Qed.

Lemma prog_nl_tail t r : D (Star ITEM) (t :: r) -> tkk t = TNEWLINE -> D (Star ITEM) r.
Proof.
  intros H K. apply D_star_inv in H. destruct H as [H|(it & v & E & Hit & Hv)]; [discriminate|].
  apply item_hd in Hit. destruct Hit as [(t0 & -> & K0)|(t0 & it' & -> & K0)]; cbn [app] in E; inversion E; subst.
  - exact Hv.
  - rewrite K in K0. discriminate.
Qed.

Lemma prog_skip : forall r, D (Star ITEM) r -> D (Star ITEM) (skip_nl r).
Proof.
  induction r as [|t r IH]; intros H; [exact H|]. cbn [skip_nl]. destruct (isk TNEWLINE t) eqn:K; [|exact H].
  apply isk_true in K. apply IH. now apply prog_nl_tail with t.
Qed.

Lemma ifol_follow k : ifol k = true -> stmt_follow k = true.
Proof. destruct k; cbn; auto. Qed.

Lemma prog_follow r : D (Star ITEM) r -> stmt_follow (peek r) = true.
Proof.
  intros H. apply prog_hd in H. destruct H as [->|(t & w' & -> & [K|K])]; cbn [peek]; [reflexivity|now rewrite K|].
  now apply ifol_follow.
Qed.
Lemma prog_notab r : D (Star ITEM) r -> notab r.
Proof.
  intros H t r' E. apply prog_skip in H. rewrite E in H. apply prog_hd in H.
  destruct H as [H|(t0 & w' & E0 & [K|K])]; [discriminate| |]; inversion E0; subst; intros Kt; rewrite Kt in K; discriminate.
Qed.
Lemma follow_facts k : stmt_follow k = true -> estop k = true /\ k <> TTAB /\ k <> TLBRACE.
Proof. destruct k; cbn; intros H; try discriminate H; repeat split; discriminate. Qed.

Lemma pprogram_skip nls : NL nls -> forall f w, pprogram (length nls + f) (nls ++ w) = pprogram f w.
Proof.
  induction 1 as [|t l Ht Hl IH]; intros f w; [reflexivity|]. cbn [length app plus]. rewrite pprogram_S, Ht. apply IH.
Qed.

Lemma pprogram_decl f t r vt : vtype_of_tk (tkk t) = Some vt -> pprogram (S f) (t :: r) =
  match pdecl f (t :: r) with
  | Some (it, r1) => match pprogram f r1 with Some l => Some (it :: l) | None => None end
  | None => None
  end.
Proof. intros H. rewrite pprogram_S. destruct (tkk t); try discriminate H; reflexivity. Qed.

Lemma pprogram_stmt f t r : tkk t = TNAME \/ tkk t = TMEASURE -> pprogram (S f) (t :: r) =
  match pstatement f (t :: r) with
  | Some (s, r1) => match pprogram f r1 with Some l => Some (IStmt s :: l) | None => None end
  | None => None
  end.
Proof. intros [H|H]; rewrite pprogram_S, H; reflexivity. Qed.

(* program : (NEWLINE | forloop | expressionvar | arrayvar | statement)*  *)
Lemma pprogram_star : forall w, D (Star ITEM) w -> forall nls, NL nls ->
  exists F, forall f, F <= f -> exists l, pprogram f (nls ++ w) = Some l.
Proof.
  intros w H. induction H as [|it v Hit Hv IH] using D_star_ind'; intros nls N.
  - exists (length nls + 1). intros f Hf. replace f with (length nls + S (f - length nls - 1)) by lia.
    rewrite (pprogram_skip nls N). cbn. eauto.
  - pose proof (prog_follow v Hv) as Fv. pose proof (prog_notab v Hv) as Tv.
    pose proof (follow_facts _ Fv) as (Sv & Nt & Nb).
    apply D_alt_inv in Hit. destruct Hit as [Hit|Hit].
    { (* NEWLINE *)
      apply D_tok_inv in Hit. destruct Hit as (t & -> & K). cbn [tk_of_nat] in K.
      destruct (IH (nls ++ [t])) as (F & HF).
      { apply Forall_app. split; [exact N|constructor; [exact K|constructor]]. }
      exists F. intros f Hf. destruct (HF f Hf) as (l & E). lnorm_in E. cbn [app]. eauto. }
    apply D_alt_inv in Hit. destruct Hit as [Hit|Hit].
    { (* forloop *)
      destruct (pfor_complete it v Hit Fv Tv) as (nls1 & N1 & F1 & HF1).
      destruct (IH nls1 N1) as (F2 & HF2). destruct (for_hd it Hit) as (t & it' & E & K).
      exists (length nls + S (max F1 F2)). intros f Hf. replace f with (length nls + S (f - length nls - 1)) by lia.
      rewrite (pprogram_skip nls N). remember (f - length nls - 1) as f' eqn:Ef.
      destruct (HF1 f' ltac:(lia)) as (x & E1). destruct (HF2 f' ltac:(lia)) as (l & E2).
      rewrite E in *. cbn [app] in *. rewrite pprogram_S, K. rewrite E1, E2. eauto. }
    apply D_alt_inv in Hit. destruct Hit as [Hit|Hit].
    { (* expressionvar *)
      destruct (pdecl_scalar_complete it v Hit (stops_peek v Sv)) as (F1 & HF1).
      destruct (IH [] ltac:(constructor)) as (F2 & HF2). destruct (scalar_hd it Hit) as (t & it' & vt & E & K).
      exists (length nls + S (max F1 F2)). intros f Hf. replace f with (length nls + S (f - length nls - 1)) by lia.
      rewrite (pprogram_skip nls N). remember (f - length nls - 1) as f' eqn:Ef.
      destruct (HF1 f' ltac:(lia)) as (x & E1). destruct (HF2 f' ltac:(lia)) as (l & E2).
      rewrite E in *. cbn [app] in *. rewrite (pprogram_decl _ _ _ vt K). rewrite E1, E2. eauto. }
    apply D_alt_inv in Hit. destruct Hit as [Hit|Hit].
    { (* arrayvar *)
      destruct (pdecl_array_complete it v Hit Nt Nb) as (F1 & HF1).
      destruct (IH [] ltac:(constructor)) as (F2 & HF2). destruct (array_hd it Hit) as (t & it' & vt & E & K).
      exists (length nls + S (max F1 F2)). intros f Hf. replace f with (length nls + S (f - length nls - 1)) by lia.
      rewrite (pprogram_skip nls N). remember (f - length nls - 1) as f' eqn:Ef.
      destruct (HF1 f' ltac:(lia)) as (x & E1). destruct (HF2 f' ltac:(lia)) as (l & E2).
      rewrite E in *. cbn [app] in *. rewrite (pprogram_decl _ _ _ vt K). rewrite E1, E2. eauto. }
    (* statement *)
    destruct (pstatement_complete it v Hit Fv) as (pre1 & nls1 & E0 & N1 & F1 & HF1).
    destruct (IH nls1 N1) as (F2 & HF2). destruct (stmt_hd it Hit) as (t & it' & E & K).
    exists (length nls + S (max F1 F2)). intros f Hf. replace f with (length nls + S (f - length nls - 1)) by lia.
    rewrite (pprogram_skip nls N). remember (f - length nls - 1) as f' eqn:Ef.
    destruct (HF1 f' ltac:(lia)) as (x & E1). destruct (HF2 f' ltac:(lia)) as (l & E2).
    clear E0. rewrite E in *. cbn [app] in *. rewrite (pprogram_stmt _ _ _ K). rewrite E1, E2. eauto.
Qed.

Theorem pprogram_complete w : D (Ref 11) w -> exists F, forall f, F <= f -> exists l, pprogram f w = Some l.
Proof. intros H. dref H. exact (pprogram_star w H [] ltac:(constructor)). Qed.

(* ------------------------------------------------------------------------------------------------ *)
(* 10. Includes, metadata lines                                                                      *)
(* ------------------------------------------------------------------------------------------------ *)
Local Notation INCS := (Star (Alt (Tok 16) (Ref 10))).
Local Notation NLP := (Seq (Tok 16) (Star (Tok 16))).

Lemma D_star_app a u v : D (Star a) u -> D (Star a) v -> D (Star a) (u ++ v).
Proof.
  intros Hu Hv. induction Hu as [|p u' Hp Hu' IH] using D_star_ind'; [exact Hv|].
  rewrite <- app_assoc. now apply DStarS.
Qed.
Lemma NL_items l : NL l -> D (Star ITEM) l.
Proof.
  induction 1 as [|t l Ht Hl IH]; [apply DStar0|]. change (t :: l) with ([t] ++ l). apply DStarS; [|exact IH].
  apply DAltL. apply DTok. exact Ht.
Qed.

Lemma pincludes_nil f : pincludes f [] = ([], []).
Proof. destruct f; reflexivity. Qed.
Lemma pincludes_other f t r : tkk t <> TNEWLINE -> tkk t <> TINCLUDE -> pincludes f (t :: r) = ([], t :: r).
Proof. intros H1 H2. destruct f as [|f]; [reflexivity|]. rewrite pincludes_S. destruct (tkk t); congruence || reflexivity. Qed.

Lemma ifol_facts k : ifol k = true -> k <> TNEWLINE /\ k <> TINCLUDE /\ k <> TTARGET /\ k <> TPROGTYPE /\ k <> TLBRAC.
Proof. destruct k; cbn; intros H; try discriminate H; repeat split; discriminate. Qed.

Lemma pincl_prog : forall P, D (Star ITEM) P ->
  exists F r4, D (Star ITEM) r4 /\ forall f, F <= f -> exists l, pincludes f P = (l, r4).
Proof.
  induction P as [|t P' IH]; intros H.
  - exists 0, []. split; [exact H|]. intros f _. rewrite pincludes_nil. eauto.
  - destruct (prog_hd _ H) as [E|(t0 & w' & E & [K|K])]; [discriminate| |]; inversion E; subst t0 w'.
    + destruct (IH (prog_nl_tail t P' H K)) as (F & r4 & H4 & HF). exists (S F), r4. split; [exact H4|].
      intros f Hf. destruct f as [|f]; [lia|]. rewrite pincludes_S, K. apply HF. lia.
    + apply ifol_facts in K. destruct K as (K1 & K2 & _). exists 0, (t :: P'). split; [exact H|].
      intros f _. rewrite pincludes_other by assumption. eauto.
Qed.

Lemma pincl_incs : forall a, D INCS a -> forall P, D (Star ITEM) P ->
  exists F r4, D (Star ITEM) r4 /\ forall f, F <= f -> exists l, pincludes f (a ++ P) = (l, r4).
Proof.
  intros a H. induction H as [|p a' Hp Ha' IH] using D_star_ind'; intros P HP.
  - now apply pincl_prog.
  - destruct (IH P HP) as (F & r4 & H4 & HF). exists (S F), r4. split; [exact H4|].
    intros f Hf. destruct f as [|f]; [lia|]. destruct (HF f ltac:(lia)) as (l & E).
    apply D_alt_inv in Hp. destruct Hp as [Hp|Hp].
    + apply D_tok_inv in Hp. destruct Hp as (t & -> & K). cbn [tk_of_nat] in K. cbn [app].
      rewrite pincludes_S, K. eauto.
    + dref Hp. apply D_seq_inv in Hp. destruct Hp as (x & y & -> & Hx & Hy). apply D_tok_inv in Hx. apply D_tok_inv in Hy.
      destruct Hx as (t & -> & K). destruct Hy as (s & -> & Ks). cbn [tk_of_nat] in *. cbn [app].
      rewrite pincludes_S, K. apply (isk_true TSTR) in Ks. rewrite Ks, E. eauto.
Qed.

(* first tokens of what follows the metadata lines:  (NEWLINE | include)* then the items *)
Definition mfol (k:tk) : bool := match k with TEOF | TNEWLINE | TINCLUDE => true | k => ifol k end.

Lemma mfol_prog P : D (Star ITEM) P -> mfol (peek P) = true /\ mfol (peek (skip_nl P)) = true.
Proof.
  intros H. assert (A : forall Q, D (Star ITEM) Q -> mfol (peek Q) = true).
  { intros Q HQ. destruct (prog_hd _ HQ) as [->|(t & w' & -> & [K|K])]; cbn [peek]; [reflexivity|now rewrite K|].
    unfold mfol. rewrite K. destruct (tkk t); reflexivity. }
  split; [now apply A|]. apply A. now apply prog_skip.
Qed.

Lemma mfol_incs : forall a, D INCS a -> forall P, D (Star ITEM) P ->
  mfol (peek (a ++ P)) = true /\ mfol (peek (skip_nl (a ++ P))) = true.
Proof.
  intros a H. induction H as [|p a' Hp Ha' IH] using D_star_ind'; intros P HP.
  - now apply mfol_prog.
  - destruct (IH P HP) as (_ & IH2). apply D_alt_inv in Hp. destruct Hp as [Hp|Hp].
    + apply D_tok_inv in Hp. destruct Hp as (t & -> & K). cbn [tk_of_nat] in K. cbn [app peek skip_nl].
      rewrite K. split; [reflexivity|]. apply (isk_true TNEWLINE) in K. now rewrite K.
    + dref Hp. apply D_seq_inv in Hp. destruct Hp as (x & y & -> & Hx & Hy). apply D_tok_inv in Hx.
      destruct Hx as (t & -> & K). cbn [tk_of_nat] in *. cbn [app peek].
      rewrite skip_nl_stop by congruence. cbn [peek]. rewrite K. split; reflexivity.
Qed.

Lemma pmeta_none f kw dev ts : peek (skip_nl ts) <> kw -> pmetaline f kw dev ts = Some (None, ts).
Proof.
  intros H. unfold pmetaline. cbv zeta. destruct ts as [|n ts0]; [reflexivity|].
  destruct (skip_nl (n :: ts0)) as [|k [|d r1]]; try reflexivity.
  cbn [peek] in H. rewrite (tk_beq_false _ _ H), andb_false_r. reflexivity.
Qed.

Lemma pmeta_line kw dev nl nls k d args rest :
  tkk nl = TNEWLINE -> NL nls -> tkk k = kw -> kw <> TNEWLINE -> dev (tkk d) = true -> D (Alt Eps (Ref 26)) args ->
  peek rest <> TLBRAC ->
  Okp (fun f => pmetaline f kw dev) ((nl :: nls) ++ k :: d :: args ++ rest) rest.
Proof.
  intros Knl N Kk Nk Hd Ha Hr.
  assert (Esk : skip_nl ((nl :: nls) ++ k :: d :: args ++ rest) = k :: d :: args ++ rest).
  { rewrite skip_nl_app by (constructor; assumption). apply skip_nl_stop. congruence. }
  assert (Pre : forall f, pmetaline f kw dev ((nl :: nls) ++ k :: d :: args ++ rest) =
                  if tk_beq (peek (args ++ rest)) TLBRAC then
                    match parguments f (args ++ rest) with Some (a, r2) => Some (Some (ttext d, Some a), r2) | None => None end
                  else Some (Some (ttext d, None), args ++ rest)).
  { intros f. unfold pmetaline. cbv zeta. rewrite Esk. cbn [app]. apply (isk_true TNEWLINE) in Knl. rewrite Knl.
    rewrite (tk_beq_true _ _ Kk). cbn [andb]. rewrite Hd. reflexivity. }
  apply D_alt_inv in Ha. destruct Ha as [Ha|Ha].
  - apply D_eps_inv in Ha. subst args. exists 0. intros f _. rewrite Pre. cbn [app].
    rewrite (tk_beq_false _ _ Hr). eauto.
  - destruct (parguments_complete args rest Ha) as (F & HF). destruct (args_hd args Ha) as (o & a' & Ea & Ko).
    exists F. intros f Hf. rewrite Pre. destruct (HF f Hf) as (x & E). rewrite E.
    rewrite Ea. cbn [app peek]. rewrite (tk_beq_true _ _ Ko). eauto.
Qed.

Lemma nlp_inv u : D NLP u -> exists nl nls, u = nl :: nls /\ tkk nl = TNEWLINE /\ NL nls.
Proof.
  intros H. apply D_seq_inv in H. destruct H as (a & nls & -> & Ha & Hn). apply D_tok_inv in Ha.
  destruct Ha as (nl & -> & K). apply star_NL in Hn. exists nl, nls. auto.
Qed.

(* (NEWLINE+ target)? *)
Lemma ptarget_complete u rest : D (Alt Eps (Seq NLP (Ref 6))) u ->
  peek rest <> TLBRAC -> peek (skip_nl rest) <> TTARGET ->
  Okp (fun f => pmetaline f TTARGET is_device) (u ++ rest) rest.
Proof.
  intros H Hr Hs. apply D_alt_inv in H. destruct H as [H|H].
  - apply D_eps_inv in H. subst u. exists 0. intros f _. cbn [app]. rewrite (pmeta_none f _ _ rest Hs). eauto.
  - apply D_seq_inv in H. destruct H as (nn & v & -> & Hn & H). apply nlp_inv in Hn. destruct Hn as (nl & nls & -> & Knl & N).
    dref H. apply D_seq_inv in H. destruct H as (k & v1 & -> & Hk & H). apply D_seq_inv in H. destruct H as (d & args & -> & Hd & Ha).
    apply D_tok_inv in Hk. destruct Hk as (tk0 & -> & Kk). cbn [tk_of_nat] in Kk.
    assert (Hdev : exists td, d = [td] /\ is_device (tkk td) = true).
    { dref Hd. apply D_alt_inv in Hd. destruct Hd as [Hd|Hd]; apply D_tok_inv in Hd; destruct Hd as (td & -> & K);
      cbn [tk_of_nat] in K; exists td; rewrite K; auto. }
    destruct Hdev as (td & -> & Kd).
    replace (((nl :: nls) ++ [tk0] ++ [td] ++ args) ++ rest) with ((nl :: nls) ++ tk0 :: td :: args ++ rest) by now lnorm'.
    apply pmeta_line; auto. discriminate.
Qed.

(* (NEWLINE+ declaretype)? *)
Lemma ptype_complete u rest : D (Alt Eps (Seq NLP (Ref 8))) u ->
  peek rest <> TLBRAC -> peek (skip_nl rest) <> TPROGTYPE ->
  Okp (fun f => pmetaline f TPROGTYPE is_name) (u ++ rest) rest.
Proof.
  intros H Hr Hs. apply D_alt_inv in H. destruct H as [H|H].
  - apply D_eps_inv in H. subst u. exists 0. intros f _. cbn [app]. rewrite (pmeta_none f _ _ rest Hs). eauto.
  - apply D_seq_inv in H. destruct H as (nn & v & -> & Hn & H). apply nlp_inv in Hn. destruct Hn as (nl & nls & -> & Knl & N).
    dref H. apply D_seq_inv in H. destruct H as (k & v1 & -> & Hk & H). apply D_seq_inv in H. destruct H as (d & args & -> & Hd & Ha).
    apply D_tok_inv in Hk. destruct Hk as (tk0 & -> & Kk). cbn [tk_of_nat] in Kk.
    dref Hd. apply D_tok_inv in Hd. destruct Hd as (td & -> & Kd). cbn [tk_of_nat] in Kd.
    replace (((nl :: nls) ++ [tk0] ++ [td] ++ args) ++ rest) with ((nl :: nls) ++ tk0 :: td :: args ++ rest) by now lnorm'.
    apply pmeta_line; auto; [discriminate|now rewrite Kd].
Qed.

(* ------------------------------------------------------------------------------------------------ *)
(* 11. The script                                                                                    *)
(* ------------------------------------------------------------------------------------------------ *)
Lemma mfol_facts k : mfol k = true -> k <> TLBRAC /\ k <> TTARGET /\ k <> TPROGTYPE.
Proof. destruct k; cbn; intros H; try discriminate H; repeat split; discriminate. Qed.

Lemma type_first u R2 : D (Alt Eps (Seq NLP (Ref 8))) u ->
  mfol (peek R2) = true -> mfol (peek (skip_nl R2)) = true ->
  peek (u ++ R2) <> TLBRAC /\ peek (skip_nl (u ++ R2)) <> TTARGET.
Proof.
  intros H M1 M2. apply D_alt_inv in H. destruct H as [H|H].
  - apply D_eps_inv in H. subst u. cbn [app]. apply mfol_facts in M1. apply mfol_facts in M2. split; [apply M1|apply M2].
  - apply D_seq_inv in H. destruct H as (nn & v & -> & Hn & H). apply nlp_inv in Hn. destruct Hn as (nl & nls & -> & Knl & N).
    dref H. apply D_seq_inv in H. destruct H as (k & v1 & -> & Hk & _).
    apply D_tok_inv in Hk. destruct Hk as (tk0 & -> & Kk). cbn [tk_of_nat] in Kk. split.
    + cbn [app peek]. congruence.
    + rewrite <- !app_assoc. rewrite skip_nl_app by (constructor; assumption). cbn [app].
      rewrite skip_nl_stop by congruence. cbn [peek]. congruence.
Qed.

Lemma eoft_kind : tkk eoft = TEOF.
Proof. reflexivity. Qed.

(* PARSER COMPLETENESS, derivation form: every sentence of the grammar as written is accepted, for all large enough fuel *)
Theorem pscript_complete_ev ts : D (Ref start_rule) (ts ++ [eoft]) ->
  exists F, forall f, F <= f -> exists sc, pscript f ts = Some sc.
Proof.
  intros H. unfold start_rule in H. remember (ts ++ [eoft]) as w eqn:Ew. dref H.
  apply D_seq_inv in H. destruct H as (nl0 & v1 & -> & Hnl0 & H).
  apply D_seq_inv in H. destruct H as (meta & v2 & -> & Hmeta & H).
  apply D_seq_inv in H. destruct H as (nl1 & v3 & -> & Hnl1 & H).
  apply D_seq_inv in H. destruct H as (prog & v4 & -> & Hprog & H).
  apply D_seq_inv in H. destruct H as (nl2 & e & -> & Hnl2 & He).
  apply D_tok_inv in He. destruct He as (te & -> & Ke).
  replace (nl0 ++ meta ++ nl1 ++ prog ++ nl2 ++ [te]) with ((nl0 ++ meta ++ nl1 ++ prog ++ nl2) ++ [te]) in Ew by now lnorm'.
  apply app_inj_tail in Ew. destruct Ew as [Ew _]. subst ts. clear Ke te.
  apply star_NL in Hnl0. apply star_NL in Hnl1. apply star_NL in Hnl2.
  (* the items, with the NEWLINEs around them *)
  set (P := nl1 ++ prog ++ nl2).
  assert (HP : D (Star ITEM) P).
  { dref Hprog. unfold P. apply D_star_app; [now apply NL_items|]. apply D_star_app; [exact Hprog|now apply NL_items]. }
  (* the metadata block *)
  dref Hmeta.
  apply D_seq_inv in Hmeta. destruct Hmeta as (dn & v1 & -> & Hdn & H).
  apply D_seq_inv in H. destruct H as (nn & v2 & -> & Hnn & H).
  apply D_seq_inv in H. destruct H as (ver & v3 & -> & Hver & H).
  apply D_seq_inv in H. destruct H as (tg & v4 & -> & Htg & H).
  apply D_seq_inv in H. destruct H as (ty & incs & -> & Hty & Hincs).
  dref Hdn. apply D_seq_inv in Hdn. destruct Hdn as (a & b & -> & Ha & Hb). dref Hb.
  apply D_tok_inv in Ha. destruct Ha as (pn & -> & Kpn). apply D_tok_inv in Hb. destruct Hb as (n & -> & Kn).
  apply nlp_inv in Hnn. destruct Hnn as (nl & nls & -> & Knl & Nnls).
  dref Hver. apply D_seq_inv in Hver. destruct Hver as (a & b & -> & Ha & Hb). dref Hb.
  apply D_tok_inv in Ha. destruct Ha as (tv & -> & Kv). apply D_tok_inv in Hb. destruct Hb as (num & -> & Knum).
  cbn [tk_of_nat] in *.
  (* what follows the metadata lines *)
  destruct (mfol_incs incs Hincs P HP) as (M1 & M2).
  destruct (type_first ty (incs ++ P) Hty M1 M2) as (T1 & T2).
  apply mfol_facts in M1. apply mfol_facts in M2.
  destruct (ptarget_complete tg (ty ++ incs ++ P) Htg T1 T2) as (F1 & HF1).
  destruct (ptype_complete ty (incs ++ P) Hty ltac:(apply M1) ltac:(apply M2)) as (F2 & HF2).
  destruct (pincl_incs incs Hincs P HP) as (F3 & r4 & H4 & HF3).
  destruct (pprogram_star r4 H4 [] ltac:(constructor)) as (F4 & HF4). cbn [app] in HF4.
  exists (max (max F1 F2) (max F3 F4)). intros f Hf.
  destruct (HF1 f ltac:(lia)) as (mt & E1). destruct (HF2 f ltac:(lia)) as (my & E2).
  destruct (HF3 f ltac:(lia)) as (li & E3). destruct (HF4 f ltac:(lia)) as (items & E4).
  unfold pscript.
  lnorm'.
  rewrite (skip_nl_app nl0 _ Hnl0). rewrite skip_nl_stop by congruence.
  apply (isk_true TPROGNAME) in Kpn. apply (isk_true TNAME) in Kn. apply (isk_true TNEWLINE) in Knl.
  rewrite Kpn, Kn, Knl. cbn [andb].
  rewrite (skip_nl_app nls _ Nnls). rewrite skip_nl_stop by congruence.
  apply (isk_true TVERSION) in Kv. apply (isk_true TFLOAT) in Knum. rewrite Kv, Knum. cbn [andb].
  rewrite E1, E2, E3, E4. eauto.
Qed.

Theorem pscript_complete_D ts : D (Ref start_rule) (ts ++ [eoft]) -> exists f sc, pscript f ts = Some sc.
Proof. intros H. destruct (pscript_complete_ev ts H) as (F & HF). exists F. apply HF. lia. Qed.

(* PARSER COMPLETENESS, positional form, for the grammar as written (left-recursive expression rule) *)
Theorem pscript_complete_M ts :
  M nat nat Nat.eqb pg_lr (map tkind ts ++ [0]) (Ref start_rule) 0 (length ts + 1) -> exists f sc, pscript f ts = Some sc.
Proof.
  intros H. apply pscript_complete_D.
  assert (E : map tkind ts ++ [0] = map tkind (ts ++ [eoft])) by (rewrite map_app; reflexivity).
  rewrite E in H. apply M_D in H.
  replace (length ts + 1) with (length (ts ++ [eoft])) in H by (rewrite app_length; reflexivity).
  now rewrite seg_all in H.
Qed.

(* ... and for the loop form that the executable recogniser runs on *)
Theorem pscript_complete_pg ts :
  M nat nat Nat.eqb pg (map tkind ts ++ [0]) (Ref start_rule) 0 (length ts + 1) -> exists f sc, pscript f ts = Some sc.
Proof. intros H. apply pscript_complete_M. now apply pg_lr_equiv. Qed.

(* the statement as requested (the hypothesis on the kinds is not needed) *)
Theorem pscript_complete ts : (forall t, In t ts -> known_kind t) -> D (Ref start_rule) (ts ++ [eoft]) ->
  exists f sc, pscript f ts = Some sc.
Proof. intros _. apply pscript_complete_D. Qed.

(* the parser accepts exactly the sentences of the grammar *)
Corollary pscript_iff ts : (forall t, In t ts -> known_kind t) ->
  ((exists f sc, pscript f ts = Some sc) <->
   M nat nat Nat.eqb pg_lr (map tkind ts ++ [0]) (Ref start_rule) 0 (length ts + 1)).
Proof.
  intros K. split.
  - intros (f & sc & H). now apply pscript_sound_lr with f sc.
  - apply pscript_complete_M.
Qed.
Corollary pscript_iff_D ts : (exists f sc, pscript f ts = Some sc) <-> D (Ref start_rule) (ts ++ [eoft]).
Proof.
  split.
  - intros (f & sc & H). now apply pscript_D with f sc.
  - apply pscript_complete_D.
Qed.
Corollary pscript_iff_pg ts : (forall t, In t ts -> known_kind t) ->
  ((exists f sc, pscript f ts = Some sc) <->
   M nat nat Nat.eqb pg (map tkind ts ++ [0]) (Ref start_rule) 0 (length ts + 1)).
Proof.
  intros K. split.
  - intros (f & sc & H). now apply pscript_sound with f sc.
  - apply pscript_complete_pg.
Qed.

(* with the proved recogniser: a token-kind list that the recogniser accepts is parsed *)
Corollary recognise_parses ts K F :
  recognise nat nat Nat.eqb pg (map tkind ts ++ [0]) K F (Ref start_rule) = Some true ->
  exists f sc, pscript f ts = Some sc.
Proof.
  intros H. apply pscript_complete_pg.
  pose proof (recognise_correct nat nat Nat.eqb pg (map tkind ts ++ [0]) K F (Ref start_rule) true H) as [A _].
  specialize (A eq_refl). rewrite app_length, map_length in A. exact A.
Qed.

(* ------------------------------------------------------------------------------------------------ *)
(* Example:   name x \n version 1.0 \n f ( 1 a = 2 ) | ( q ) ] \n                                   *)
(* (a value followed by a keyword argument without COMMA; "(q)" is an expression and "]" an unbalanced closer) *)
(* ------------------------------------------------------------------------------------------------ *)
Section Example.
Let mk (k:nat) : token := mktok k [] 1 0 0 0.
Example ex_tricky : exists f sc,
  pscript f (map mk [19;58;16;20;10;16; 58;43;9;58;6;9;44;49;43;58;44;46;16]) = Some sc.
Proof. apply (recognise_parses _ 400 400). vm_compute. reflexivity. Qed.
End Example.


Print Assumptions M_D.
Print Assumptions pexpr_complete0.
Print Assumptions parguments_complete.
Print Assumptions pstatement_complete.
Print Assumptions pfor_complete.
Print Assumptions pdecl_scalar_complete.
Print Assumptions pdecl_array_complete.
Print Assumptions pprogram_complete.
Print Assumptions pscript_complete_ev.
Print Assumptions pscript_complete_D.
Print Assumptions pscript_complete_M.
Print Assumptions pscript_complete_pg.
Print Assumptions pscript_complete.
Print Assumptions pscript_iff.
Print Assumptions pscript_iff_D.
Print Assumptions pscript_iff_pg.
Print Assumptions recognise_parses.
Check pscript_complete_ev.
Check pscript_complete_D.
Check pscript_complete_M.
Check pscript_complete_pg.
Check pscript_complete.
Check pscript_iff.
Check pscript_iff_D.
Check pscript_iff_pg.
Check recognise_parses.
