(* BB.HeapP : the footprint discipline of BB.Heap implies property C13.

   1. frame_call           a confined call leaves every old object untouched
   2. readonly_frame       any sequence of confined calls, interleaved with
                           arbitrary writes to newer objects, leaves the
                           program observably unchanged (program_unchanged)
   3. instances_separated  instances made by Copy are separated from the
                           template and from each other, and stay so;
                           modifying one never alters another
   4. Examples *)

From Coq Require Import List Arith Bool Lia.
Import ListNotations.
From BB Require Import Heap.

(* ------------------------------------------------------------------ *)
(* Basic facts on lookup / upd / set_field                             *)
(* ------------------------------------------------------------------ *)

Lemma lookup_app_old : forall h ext l,
  l < next h -> lookup (h ++ ext) l = lookup h l.
Proof.
  unfold lookup, next. intros h ext l Hl. apply nth_error_app1. exact Hl.
Qed.

Lemma lookup_some_lt : forall h l o, lookup h l = Some o -> l < next h.
Proof.
  unfold lookup, next. intros h l o H. apply nth_error_Some. congruence.
Qed.

Lemma next_app : forall h ext, next (h ++ ext) = next h + next ext.
Proof. unfold next. intros. apply app_length. Qed.

Lemma next_upd : forall h l o, next (upd h l o) = next h.
Proof.
  unfold next. induction h as [|x t IH]; intros [|l] o; simpl; auto.
Qed.

Lemma lookup_upd_other : forall h l o l',
  l' <> l -> lookup (upd h l o) l' = lookup h l'.
Proof.
  unfold lookup. induction h as [|x t IH]; intros [|l] o [|l'] Hne; simpl; auto;
    try congruence.
Qed.

Lemma lookup_upd_same : forall h l o o0,
  lookup h l = Some o0 -> lookup (upd h l o) l = Some o.
Proof.
  unfold lookup. induction h as [|x t IH]; intros [|l] o o0 H; simpl in *;
    try discriminate; auto.
  eapply IH; eauto.
Qed.

Lemma set_field_nth : forall o i v j c,
  nth_error (set_field o i v) j = Some c -> c = v \/ nth_error o j = Some c.
Proof.
  induction o as [|x t IH]; intros i v j c H.
  - simpl in H. destruct j as [|j]; simpl in H.
    + left. congruence.
    + destruct j; discriminate.
  - destruct i as [|i]; destruct j as [|j]; simpl in *.
    + left. congruence.
    + right. exact H.
    + right. exact H.
    + eapply IH; eauto.
Qed.

(* ------------------------------------------------------------------ *)
(* Reachability                                                        *)
(* ------------------------------------------------------------------ *)

Lemma reach_below : forall h roots,
  wf_heap h -> (forall a, In a roots -> a < next h) ->
  forall x, reach h roots x -> x < next h.
Proof.
  intros h roots Hwf Hroots x Hr.
  induction Hr as [l Hin | l o i r Hr IH Hl Hn].
  - apply Hroots. exact Hin.
  - eapply Hwf; eauto.
Qed.

Lemma reach_below1 : forall h p,
  wf_heap h -> p < next h -> forall x, reach h [p] x -> x < next h.
Proof.
  intros h p Hwf Hp. apply reach_below; auto.
  intros a [Ha | []]. subst. exact Hp.
Qed.

(* if h' agrees with h on everything reachable in h, reachability agrees *)
Lemma reach_transfer : forall h h' roots,
  (forall x, reach h roots x -> lookup h' x = lookup h x) ->
  forall x, reach h roots x -> reach h' roots x.
Proof.
  intros h h' roots Hag x Hr.
  induction Hr as [l Hin | l o i r Hr IH Hl Hn].
  - apply reach_root. exact Hin.
  - eapply reach_step; eauto. rewrite Hag; auto.
Qed.

Lemma reach_transfer_back : forall h h' roots,
  (forall x, reach h roots x -> lookup h' x = lookup h x) ->
  forall x, reach h' roots x -> reach h roots x.
Proof.
  intros h h' roots Hag x Hr.
  induction Hr as [l Hin | l o i r Hr IH Hl Hn].
  - apply reach_root. exact Hin.
  - eapply reach_step; eauto. rewrite <- Hag; auto.
Qed.

Lemma reach_same : forall h h' roots,
  (forall x, reach h roots x -> lookup h' x = lookup h x) ->
  forall x, reach h' roots x <-> reach h roots x.
Proof.
  intros h h' roots Hag x. split.
  - apply reach_transfer_back. exact Hag.
  - apply reach_transfer. exact Hag.
Qed.

Lemma reach_trans : forall h a r x,
  reach h [a] r -> reach h [r] x -> reach h [a] x.
Proof.
  intros h a r x Har Hrx.
  induction Hrx as [l Hin | l o i r' Hr IH Hl Hn].
  - destruct Hin as [Hin | []]. subst. exact Har.
  - eapply reach_step; eauto.
Qed.

Lemma reach_self : forall h a, reach h [a] a.
Proof. intros. apply reach_root. left. reflexivity. Qed.

(* effect of one write on reachability *)
Lemma write_reach : forall h l o i v roots x,
  lookup h l = Some o ->
  reach (upd h l (set_field o i v)) roots x ->
  reach h roots x \/
  (reach h roots l /\ exists r, v = CRef r /\ reach h [r] x).
Proof.
  intros h l o i v roots x Hl Hr.
  induction Hr as [l0 Hin | l0 o0 i0 r0 Hr IH Hl0 Hn0].
  - left. apply reach_root. exact Hin.
  - destruct (Nat.eq_dec l0 l) as [Heq | Hne].
    + subst l0. rewrite (lookup_upd_same _ _ _ _ Hl) in Hl0.
      injection Hl0 as Ho0. subst o0.
      apply set_field_nth in Hn0. destruct Hn0 as [Hv | Hold].
      * right. split.
        -- destruct IH as [IH | [IH _]]; exact IH.
        -- exists r0. split; [congruence | apply reach_self].
      * destruct IH as [IH | [IHl [r [Hv IHr]]]].
        -- left. eapply reach_step; eauto.
        -- right. split; [exact IHl|]. exists r. split; [exact Hv|].
           eapply reach_step; eauto.
    + rewrite lookup_upd_other in Hl0 by exact Hne.
      destruct IH as [IH | [IHl [r [Hv IHr]]]].
      * left. eapply reach_step; eauto.
      * right. split; [exact IHl|]. exists r. split; [exact Hv|].
        eapply reach_step; eauto.
Qed.

(* ------------------------------------------------------------------ *)
(* Single actions: frame, growth, well-formedness                      *)
(* ------------------------------------------------------------------ *)

Lemma exec_act_next : forall h a h', exec_act h a h' -> next h <= next h'.
Proof.
  intros h a h' He. destruct He as [h o Hok | h l i v o Hl Hv | h root h' root' [Hr Hdc]].
  - rewrite next_app. lia.
  - rewrite next_upd. lia.
  - destruct (dc_extends _ _ _ _ Hdc) as [ext Hext]. subst h'.
    rewrite next_app. lia.
Qed.

Lemma frame_act : forall h a h' n0,
  exec_act h a h' -> n0 <= next h -> act_confined n0 a ->
  forall l, l < n0 -> lookup h' l = lookup h l.
Proof.
  intros h a h' n0 He Hn0 Hc l Hlt.
  destruct He as [h o Hok | h l1 i v o Hl Hv | h root h' root' [Hr Hdc]].
  - apply lookup_app_old. lia.
  - simpl in Hc. apply lookup_upd_other. lia.
  - destruct (dc_extends _ _ _ _ Hdc) as [ext Hext]. subst h'.
    apply lookup_app_old. lia.
Qed.

Lemma exec_act_wf : forall h a h', exec_act h a h' -> wf_heap h -> wf_heap h'.
Proof.
  intros h a h' He Hwf.
  destruct He as [h o Hok | h l1 i v o Hl Hv | h root h' root' [Hr Hdc]].
  - intros l o' j r Hlk Hn. rewrite next_app. simpl.
    destruct (Nat.lt_ge_cases l (next h)) as [Hlt | Hge].
    + rewrite lookup_app_old in Hlk by exact Hlt.
      specialize (Hwf _ _ _ _ Hlk Hn). lia.
    + pose proof (lookup_some_lt _ _ _ Hlk) as Hb. rewrite next_app in Hb.
      simpl in Hb. assert (l = next h) by lia. subst l.
      unfold lookup, next in Hlk. rewrite nth_error_app2 in Hlk by lia.
      rewrite Nat.sub_diag in Hlk. simpl in Hlk. injection Hlk as Ho. subst o'.
      specialize (Hok _ _ Hn). lia.
  - intros l o' j r Hlk Hn. rewrite next_upd.
    destruct (Nat.eq_dec l l1) as [Heq | Hne].
    + subst l. rewrite (lookup_upd_same _ _ _ _ Hl) in Hlk.
      injection Hlk as Ho. subst o'.
      apply set_field_nth in Hn. destruct Hn as [Hv' | Hold].
      * subst v. exact Hv.
      * eapply Hwf; eauto.
    + rewrite lookup_upd_other in Hlk by exact Hne. eapply Hwf; eauto.
  - intros l o' j r Hlk Hn.
    destruct (Nat.lt_ge_cases l (next h)) as [Hlt | Hge].
    + destruct (dc_extends _ _ _ _ Hdc) as [ext Hext]. subst h'.
      rewrite lookup_app_old in Hlk by exact Hlt.
      specialize (Hwf _ _ _ _ Hlk Hn). rewrite next_app. lia.
    + eapply (dc_new_wf _ _ _ _ Hdc); eauto.
Qed.

Lemma exec_acts_next : forall h c h', exec_acts h c h' -> next h <= next h'.
Proof.
  intros h c h' He. induction He as [h | h a h1 l h2 Ha Hs IH].
  - lia.
  - apply exec_act_next in Ha. lia.
Qed.

Lemma exec_acts_wf : forall h c h', exec_acts h c h' -> wf_heap h -> wf_heap h'.
Proof.
  intros h c h' He. induction He as [h | h a h1 l h2 Ha Hs IH]; intros Hwf.
  - exact Hwf.
  - apply IH. eapply exec_act_wf; eauto.
Qed.

(* ------------------------------------------------------------------ *)
(* 1. The frame property of a confined call                            *)
(* ------------------------------------------------------------------ *)

Lemma frame_acts : forall h c h',
  exec_acts h c h' ->
  forall n0, n0 <= next h -> confined n0 c ->
  forall l, l < n0 -> lookup h' l = lookup h l.
Proof.
  intros h c h' He. induction He as [h | h a h1 c h2 Ha Hs IH];
    intros n0 Hn0 Hc l Hlt.
  - reflexivity.
  - inversion Hc as [| a' c' Hca Hcc]; subst.
    rewrite (IH n0); auto.
    + eapply frame_act; eauto.
    + apply exec_act_next in Ha. lia.
Qed.

Theorem frame_call : forall h c h',
  exec_acts h c h' -> confined (next h) c ->
  (forall l, l < next h -> lookup h' l = lookup h l) /\ next h <= next h'.
Proof.
  intros h c h' He Hc. split.
  - intros l Hl. apply (frame_acts h c h' He (next h) (le_n _) Hc l Hl).
  - eapply exec_acts_next; eauto.
Qed.

(* ------------------------------------------------------------------ *)
(* 2. Any sequence of read-only calls, interleaved with arbitrary       *)
(*    writes to newer objects                                          *)
(* ------------------------------------------------------------------ *)

Lemma ro_run_frame : forall base h ss h',
  ro_run base h ss h' -> base <= next h ->
  (forall l, l < base -> lookup h' l = lookup h l) /\ next h <= next h'.
Proof.
  intros base h ss h' Hrun.
  induction Hrun as [h | h c h1 ss h2 He Hc Hrun IH | h l i v h1 ss h2 Hb He Hrun IH];
    intros Hbase.
  - split; [reflexivity | lia].
  - destruct (frame_call _ _ _ He Hc) as [Hfr Hnx].
    destruct IH as [IH1 IH2]; [lia|]. split; [|lia].
    intros l Hl. rewrite IH1 by exact Hl. apply Hfr. lia.
  - pose proof (exec_act_next _ _ _ He) as Hnx.
    destruct IH as [IH1 IH2]; [lia|]. split; [|lia].
    intros l' Hl'. rewrite IH1 by exact Hl'.
    eapply (frame_act _ _ _ base He); auto.
Qed.

Lemma ro_run_wf : forall base h ss h',
  ro_run base h ss h' -> wf_heap h -> wf_heap h'.
Proof.
  intros base h ss h' Hrun.
  induction Hrun as [h | h c h1 ss h2 He Hc Hrun IH | h l i v h1 ss h2 Hb He Hrun IH];
    intros Hwf.
  - exact Hwf.
  - apply IH. eapply exec_acts_wf; eauto.
  - apply IH. eapply exec_act_wf; eauto.
Qed.

Theorem readonly_frame : forall ss h0 h,
  ro_run (next h0) h0 ss h ->
  forall l, l < next h0 -> lookup h l = lookup h0 l.
Proof.
  intros ss h0 h Hrun.
  destruct (ro_run_frame _ _ _ _ Hrun (le_n _)) as [H _]. exact H.
Qed.

(* the special case of a plain sequence of calls *)
Corollary readonly_calls_frame : forall calls h0 h,
  ro_calls h0 calls h ->
  forall l, l < next h0 -> lookup h l = lookup h0 l.
Proof. intros calls h0 h H. eapply readonly_frame; eauto. Qed.

(* the program rooted at p is observably unchanged: same set of reachable
   objects, each with the same contents *)
Corollary program_unchanged : forall ss h0 h p,
  wf_heap h0 -> p < next h0 ->
  ro_run (next h0) h0 ss h ->
  (forall x, reach h [p] x <-> reach h0 [p] x) /\
  (forall x, reach h0 [p] x -> lookup h x = lookup h0 x).
Proof.
  intros ss h0 h p Hwf Hp Hrun.
  assert (Hag : forall x, reach h0 [p] x -> lookup h x = lookup h0 x).
  { intros x Hx. eapply readonly_frame; eauto. eapply reach_below1; eauto. }
  split; [|exact Hag].
  apply reach_same. exact Hag.
Qed.

(* ------------------------------------------------------------------ *)
(* Deep copies                                                         *)
(* ------------------------------------------------------------------ *)

(* the reachable part of the copy is exactly the image of the original *)
Lemma deepcopy_reach_image : forall h root h' root',
  DeepCopy h root h' root' ->
  exists f, f root = root' /\
    forall x, reach h' [root'] x <-> exists l, reach h [root] l /\ x = f l.
Proof.
  intros h root h' root' Hdc.
  destruct (dc_iso _ _ _ _ Hdc) as [f [Hroot [Hinj Hmap]]].
  exists f. split; [exact Hroot|]. intros x. split.
  - intros Hr. induction Hr as [l Hin | l o i r Hr IH Hl Hn].
    + destruct Hin as [Hin | []]. subst l. exists root. split; auto.
      apply reach_self.
    + destruct IH as [l0 [Hl0 Heq]]. subst l.
      rewrite (Hmap _ Hl0) in Hl.
      destruct (lookup h l0) as [o0|] eqn:Hlk; simpl in Hl; [|discriminate].
      injection Hl as Ho. subst o.
      rewrite nth_error_map in Hn.
      destruct (nth_error o0 i) as [c|] eqn:Hc; simpl in Hn; [|discriminate].
      destruct c as [z | r0]; simpl in Hn; [discriminate|].
      injection Hn as Hr0. exists r0. split; [|congruence].
      eapply reach_step; eauto.
  - intros [l [Hl Heq]]. subst x.
    induction Hl as [l Hin | l o i r Hr IH Hl Hn].
    + destruct Hin as [Hin | []]. subst l. rewrite Hroot. apply reach_self.
    + eapply reach_step with (i := i); [exact IH | |].
      * rewrite (Hmap _ Hr). rewrite Hl. simpl. reflexivity.
      * rewrite nth_error_map. rewrite Hn. reflexivity.
Qed.

Lemma exec_copy_frame : forall h p h' r',
  exec_copy h p h' r' ->
  (forall l, l < next h -> lookup h' l = lookup h l) /\ next h <= next h'.
Proof.
  intros h p h' r' [Hp Hdc].
  destruct (dc_extends _ _ _ _ Hdc) as [ext Hext]. subst h'. split.
  - intros l Hl. apply lookup_app_old. exact Hl.
  - rewrite next_app. lia.
Qed.

Lemma exec_copy_wf : forall h p h' r',
  exec_copy h p h' r' -> wf_heap h -> wf_heap h'.
Proof.
  intros h p h' r' Hc. apply (exec_act_wf h (Copy p) h').
  econstructor; eauto.
Qed.

(* ------------------------------------------------------------------ *)
(* 3. Instances are separated, and stay separated                      *)
(* ------------------------------------------------------------------ *)

(* the invariant: no dangling references, tracked roots allocated, their
   regions pairwise disjoint *)
Definition Inv (h : heap) (rs : list loc) : Prop :=
  wf_heap h /\ (forall a, In a rs -> a < next h) /\ pairwise_sep h rs.

Lemma Inv_incl : forall h rs rs',
  (forall x, In x rs' -> In x rs) -> Inv h rs -> Inv h rs'.
Proof.
  intros h rs rs' Hincl [Hwf [Hal Hsep]]. split; [exact Hwf|]. split.
  - intros a Ha. apply Hal. apply Hincl. exact Ha.
  - intros a b Ha Hb Hne. apply Hsep; auto.
Qed.

Lemma Inv_single : forall h p, wf_heap h -> p < next h -> Inv h [p].
Proof.
  intros h p Hwf Hp. split; [exact Hwf|]. split.
  - intros a [Ha | []]. subst. exact Hp.
  - intros a b [Ha | []] [Hb | []] Hne. congruence.
Qed.

(* a heap change that leaves all old objects alone preserves the invariant *)
Lemma Inv_frame : forall h h' rs,
  Inv h rs -> wf_heap h' -> next h <= next h' ->
  (forall l, l < next h -> lookup h' l = lookup h l) ->
  Inv h' rs /\
  (forall a, In a rs -> forall x, reach h' [a] x <-> reach h [a] x).
Proof.
  intros h h' rs [Hwf [Hal Hsep]] Hwf' Hnx Hfr.
  assert (Hsame : forall a, In a rs -> forall x, reach h' [a] x <-> reach h [a] x).
  { intros a Ha. apply reach_same. intros x Hx. apply Hfr.
    eapply reach_below1; eauto. }
  split; [|exact Hsame].
  split; [exact Hwf'|]. split.
  - intros a Ha. specialize (Hal a Ha). lia.
  - intros a b Ha Hb Hne x Hxa Hxb.
    apply (Hsep a b Ha Hb Hne x).
    + apply (Hsame a Ha). exact Hxa.
    + apply (Hsame b Hb). exact Hxb.
Qed.

(* instantiation adds a new separated root *)
Lemma Inv_copy : forall h rs q h' r',
  Inv h rs -> exec_copy h q h' r' -> Inv h' (r' :: rs).
Proof.
  intros h rs q h' r' HI Hc.
  pose proof HI as [Hwf [Hal Hsep]].
  destruct (exec_copy_frame _ _ _ _ Hc) as [Hfr Hnx].
  pose proof (exec_copy_wf _ _ _ _ Hc Hwf) as Hwf'.
  destruct (Inv_frame _ _ _ HI Hwf' Hnx Hfr) as [[_ [Hal' Hsep']] Hsame].
  destruct Hc as [Hq Hdc].
  assert (Hnew : forall b, In b rs ->
                 disjoint (reach h' [r']) (reach h' [b])).
  { intros b Hb x Hx1 Hx2.
    pose proof (dc_fresh _ _ _ _ Hdc _ Hx1) as Hge.
    apply (Hsame b Hb) in Hx2.
    pose proof (reach_below1 _ _ Hwf (Hal b Hb) _ Hx2). lia. }
  split; [exact Hwf'|]. split.
  - intros a [Ha | Ha].
    + subst a. exact (dc_root_alloc _ _ _ _ Hdc).
    + apply Hal'. exact Ha.
  - intros a b [Ha | Ha] [Hb | Hb] Hne.
    + congruence.
    + subst a. apply Hnew. exact Hb.
    + subst b. intros x Hx1 Hx2. exact (Hnew a Ha x Hx2 Hx1).
    + apply Hsep'; auto.
Qed.

(* an owner write keeps the regions separated and does not touch the others *)
Lemma Inv_owner_write : forall h p rs l i v h',
  Inv h rs -> owner_write h p rs l v -> exec_act h (Write l i v) h' ->
  Inv h' rs.
Proof.
  intros h p rs l i v h' HI How He.
  pose proof (exec_act_wf _ _ _ He (proj1 HI)) as Hwf'.
  destruct HI as [Hwf [Hal Hsep]].
  destruct How as [a [Ha [Hap [Hal_l Hvs]]]].
  inversion He as [| h0 l0 i0 v0 o Hl Hv |]; subst.
  split; [exact Hwf'|]. split.
  - intros b Hb. rewrite next_upd. apply Hal. exact Hb.
  - intros x y Hx Hy Hne z Hzx Hzy.
    apply (write_reach _ _ _ _ _ _ _ Hl) in Hzx.
    apply (write_reach _ _ _ _ _ _ _ Hl) in Hzy.
    assert (Hown : forall b, In b rs -> reach h [b] l -> b = a).
    { intros b Hb Hbl. destruct (Nat.eq_dec b a) as [Heq | Hba]; [exact Heq|].
      exfalso. exact (Hsep b a Hb Ha Hba l Hbl Hal_l). }
    destruct Hzx as [Hzx | [Hxl [r [Hvr Hrz]]]];
      destruct Hzy as [Hzy | [Hyl [r' [Hvr' Hrz']]]].
    + exact (Hsep x y Hx Hy Hne z Hzx Hzy).
    + pose proof (Hown y Hy Hyl) as Hya. subst y.
      assert (Hxa : x <> a) by congruence.
      specialize (Hvs x Hx Hxa). subst v. simpl in Hvs.
      exact (Hvs z Hrz' Hzx).
    + pose proof (Hown x Hx Hxl) as Hxa. subst x.
      assert (Hya : y <> a) by congruence.
      specialize (Hvs y Hy Hya). subst v. simpl in Hvs.
      exact (Hvs z Hrz Hzy).
    + pose proof (Hown x Hx Hxl). pose proof (Hown y Hy Hyl). congruence.
Qed.

(* a write inside the region of a leaves every region disjoint from it alone *)
Theorem write_frame_disjoint : forall h a b l i v h',
  disjoint (reach h [a]) (reach h [b]) ->
  reach h [a] l ->
  exec_act h (Write l i v) h' ->
  (forall x, reach h [b] x -> lookup h' x = lookup h x) /\
  (forall x, reach h' [b] x <-> reach h [b] x).
Proof.
  intros h a b l i v h' Hdis Hal He.
  assert (Hag : forall x, reach h [b] x -> lookup h' x = lookup h x).
  { intros x Hx. inversion He as [| h0 l0 i0 v0 o Hl Hv |]; subst.
    apply lookup_upd_other. intros Heq. subst x. exact (Hdis l Hal Hx). }
  split; [exact Hag|]. apply reach_same. exact Hag.
Qed.

(* a same-instance reference (aliasing inside one instance) is always a
   permitted value *)
Lemma same_instance_val_sep : forall h rs a r,
  pairwise_sep h rs -> In a rs -> reach h [a] r ->
  forall b, In b rs -> b <> a -> val_sep h (CRef r) b.
Proof.
  intros h rs a r Hsep Ha Har b Hb Hne. simpl. intros x Hx1 Hx2.
  apply (Hsep a b Ha Hb (fun e => Hne (eq_sym e)) x).
  - eapply reach_trans; eauto.
  - exact Hx2.
Qed.

Lemma lookup_app_new : forall h o, lookup (h ++ [o]) (next h) = Some o.
Proof.
  unfold lookup, next. intros h o. rewrite nth_error_app2 by lia.
  rewrite Nat.sub_diag. reflexivity.
Qed.

(* ... and so is a reference to a freshly allocated object whose fields are
   scalars, self references or references into the same instance *)
Lemma fresh_obj_val_sep : forall h rs a o,
  Inv h rs -> In a rs ->
  (forall i r, nth_error o i = Some (CRef r) -> r = next h \/ reach h [a] r) ->
  forall b, In b rs -> b <> a -> val_sep (h ++ [o]) (CRef (next h)) b.
Proof.
  intros h rs a o [Hwf [Hal Hsep]] Ha Ho b Hb Hne. simpl.
  assert (Hfr : forall l, l < next h -> lookup (h ++ [o]) l = lookup h l).
  { intros l Hl. apply lookup_app_old. exact Hl. }
  assert (Hnew : forall x, reach (h ++ [o]) [next h] x ->
                           x = next h \/ reach h [a] x).
  { intros x Hr. induction Hr as [l Hin | l o' i r Hr IH Hl Hn].
    - destruct Hin as [Hin | []]. left. congruence.
    - destruct IH as [IH | IH].
      + subst l. rewrite lookup_app_new in Hl. injection Hl as Hl. subst o'.
        apply Ho in Hn. exact Hn.
      + right. rewrite Hfr in Hl by (exact (reach_below1 h a Hwf (Hal a Ha) l IH)).
        eapply reach_step; eauto. }
  intros x Hx1 Hx2.
  assert (Hx2' : reach h [b] x).
  { revert Hx2. apply reach_transfer_back. intros y Hy. apply Hfr.
    exact (reach_below1 h b Hwf (Hal b Hb) y Hy). }
  destruct (Hnew x Hx1) as [Hx | Hx].
  - pose proof (reach_below1 _ _ Hwf (Hal b Hb) _ Hx2'). lia.
  - exact (Hsep a b Ha Hb (fun e => Hne (eq_sym e)) x Hx Hx2').
Qed.

(* invariant preservation along a run; moreover the template is untouched *)
Lemma inst_run_inv : forall p rs h ss h',
  inst_run p rs h ss h' -> Inv h rs -> In p rs ->
  Inv h' rs /\ next h <= next h' /\
  (forall x, reach h [p] x -> lookup h' x = lookup h x) /\
  (forall x, reach h' [p] x <-> reach h [p] x).
Proof.
  intros p rs h ss h' Hrun.
  induction Hrun as [h | h c h1 ss h2 He Hc Hrun IH | h l i v h1 ss h2 How He Hrun IH];
    intros HI Hp.
  - split; [exact HI|]. split; [lia|]. split; [reflexivity|]. intros x. tauto.
  - destruct (frame_call _ _ _ He Hc) as [Hfr Hnx].
    pose proof (exec_acts_wf _ _ _ He (proj1 HI)) as Hwf1.
    destruct (Inv_frame _ _ _ HI Hwf1 Hnx Hfr) as [HI1 Hsame].
    destruct (IH HI1 Hp) as [HI2 [Hnx2 [Hag2 Hsame2]]].
    split; [exact HI2|]. split; [lia|].
    assert (Hag : forall x, reach h [p] x -> lookup h2 x = lookup h x).
    { intros x Hx. rewrite Hag2 by (apply (Hsame p Hp); exact Hx).
      apply Hfr. destruct HI as [Hwf [Hal _]].
      eapply reach_below1; eauto. }
    split; [exact Hag|]. apply reach_same. exact Hag.
  - pose proof (Inv_owner_write _ _ _ _ _ _ _ HI How He) as HI1.
    destruct (IH HI1 Hp) as [HI2 [Hnx2 [Hag2 Hsame2]]].
    pose proof (exec_act_next _ _ _ He) as Hnx.
    split; [exact HI2|]. split; [lia|].
    destruct How as [a [Ha [Hap [Hal_l _]]]].
    destruct HI as [Hwf [Hal Hsep]].
    destruct (write_frame_disjoint h a p l i v h1 (Hsep a p Ha Hp Hap) Hal_l He)
      as [Hfr Hsame].
    assert (Hag : forall x, reach h [p] x -> lookup h2 x = lookup h x).
    { intros x Hx. rewrite Hag2 by (apply Hsame; exact Hx). apply Hfr. exact Hx. }
    split; [exact Hag|]. apply reach_same. exact Hag.
Qed.

Section TwoInstances.

  Variables (h1 h2 h3 h4 h : heap) (p inst1 inst2 : loc) (ssA ssB : list step).
  Hypothesis Hwf : wf_heap h1.
  Hypothesis Hp : p < next h1.
  Hypothesis Hcopy1 : exec_copy h1 p h2 inst1.
  Hypothesis HrunA : inst_run p [p; inst1] h2 ssA h3.
  Hypothesis Hcopy2 : exec_copy h3 p h4 inst2.
  Hypothesis HrunB : inst_run p [p; inst1; inst2] h4 ssB h.

  Lemma two_instances_inv :
    Inv h [p; inst1; inst2] /\ p <> inst1 /\ p <> inst2 /\ inst1 <> inst2 /\
    (forall x, reach h1 [p] x -> lookup h x = lookup h1 x) /\
    (forall x, reach h [p] x <-> reach h1 [p] x).
  Proof.
    pose proof (Inv_single _ _ Hwf Hp) as I1.
    pose proof (Inv_copy _ _ _ _ _ I1 Hcopy1) as I2.
    apply (Inv_incl _ _ [p; inst1]) in I2; [|simpl; tauto].
    destruct (inst_run_inv _ _ _ _ _ HrunA I2) as [I3 [Hn23 [HagA HsameA]]];
      [simpl; tauto|].
    pose proof (Inv_copy _ _ _ _ _ I3 Hcopy2) as I4.
    apply (Inv_incl _ _ [p; inst1; inst2]) in I4; [|simpl; tauto].
    destruct (inst_run_inv _ _ _ _ _ HrunB I4) as [I5 [Hn45 [HagB HsameB]]];
      [simpl; tauto|].
    destruct (exec_copy_frame _ _ _ _ Hcopy1) as [Hfr1 Hn12].
    destruct (exec_copy_frame _ _ _ _ Hcopy2) as [Hfr2 Hn34].
    destruct Hcopy1 as [_ Hdc1]. destruct Hcopy2 as [_ Hdc2].
    pose proof (dc_root_fresh _ _ _ _ Hdc1) as Hf1.
    pose proof (dc_root_alloc _ _ _ _ Hdc1) as Ha1.
    pose proof (dc_root_fresh _ _ _ _ Hdc2) as Hf2.
    split; [exact I5|].
    split; [lia|]. split; [lia|]. split; [lia|].
    (* the template is unchanged all along *)
    assert (H12 : forall x, reach h1 [p] x -> lookup h2 x = lookup h1 x).
    { intros x Hx. apply Hfr1. eapply reach_below1; eauto. }
    pose proof (reach_same _ _ _ H12) as S12.
    assert (H13 : forall x, reach h1 [p] x -> lookup h3 x = lookup h1 x).
    { intros x Hx. rewrite HagA by (apply S12; exact Hx). apply H12. exact Hx. }
    pose proof (reach_same _ _ _ H13) as S13.
    assert (H14 : forall x, reach h1 [p] x -> lookup h4 x = lookup h1 x).
    { intros x Hx. rewrite Hfr2.
      - apply H13. exact Hx.
      - pose proof (reach_below1 _ _ Hwf Hp _ Hx). lia. }
    pose proof (reach_same _ _ _ H14) as S14.
    assert (H15 : forall x, reach h1 [p] x -> lookup h x = lookup h1 x).
    { intros x Hx. rewrite HagB by (apply S14; exact Hx). apply H14. exact Hx. }
    split; [exact H15|]. apply reach_same. exact H15.
  Qed.

  (* the two instances and the template occupy pairwise disjoint regions in
     every later heap *)
  Theorem instances_separated : sep3 h p inst1 inst2.
  Proof.
    destruct two_instances_inv as [[_ [_ Hsep]] [N1 [N2 [N3 _]]]].
    unfold sep3. repeat split; apply Hsep; simpl; auto.
  Qed.

  (* ... and the template itself is still observably what it was *)
  Theorem instances_template_unchanged :
    (forall x, reach h [p] x <-> reach h1 [p] x) /\
    (forall x, reach h1 [p] x -> lookup h x = lookup h1 x).
  Proof.
    destruct two_instances_inv as [_ [_ [_ [_ [H1 H2]]]]]. split; assumption.
  Qed.

  (* modifying one never alters another: ANY write to an object of inst1
     leaves the template and inst2 unchanged (same objects, same contents) *)
  Theorem modify_inst1_alters_nothing_else : forall l i v h',
    reach h [inst1] l ->
    exec_act h (Write l i v) h' ->
    (forall x, reach h [p] x -> lookup h' x = lookup h x) /\
    (forall x, reach h' [p] x <-> reach h [p] x) /\
    (forall x, reach h [inst2] x -> lookup h' x = lookup h x) /\
    (forall x, reach h' [inst2] x <-> reach h [inst2] x).
  Proof.
    intros l i v h' Hl He.
    destruct instances_separated as [S1 [S2 S3]].
    assert (D1 : disjoint (reach h [inst1]) (reach h [p])).
    { intros x Hx1 Hx2. exact (S1 x Hx2 Hx1). }
    destruct (write_frame_disjoint _ _ _ _ _ _ _ D1 Hl He) as [A1 A2].
    destruct (write_frame_disjoint _ _ _ _ _ _ _ S3 Hl He) as [B1 B2].
    repeat split; auto; try apply A2; try apply B2.
  Qed.

  Theorem modify_inst2_alters_nothing_else : forall l i v h',
    reach h [inst2] l ->
    exec_act h (Write l i v) h' ->
    (forall x, reach h [p] x -> lookup h' x = lookup h x) /\
    (forall x, reach h' [p] x <-> reach h [p] x) /\
    (forall x, reach h [inst1] x -> lookup h' x = lookup h x) /\
    (forall x, reach h' [inst1] x <-> reach h [inst1] x).
  Proof.
    intros l i v h' Hl He.
    destruct instances_separated as [S1 [S2 S3]].
    assert (D1 : disjoint (reach h [inst2]) (reach h [p])).
    { intros x Hx1 Hx2. exact (S2 x Hx2 Hx1). }
    assert (D2 : disjoint (reach h [inst2]) (reach h [inst1])).
    { intros x Hx1 Hx2. exact (S3 x Hx2 Hx1). }
    destruct (write_frame_disjoint _ _ _ _ _ _ _ D1 Hl He) as [A1 A2].
    destruct (write_frame_disjoint _ _ _ _ _ _ _ D2 Hl He) as [B1 B2].
    repeat split; auto; try apply A2; try apply B2.
  Qed.

End TwoInstances.

(* the same for any number of instances: a session that interleaves
   instantiations of the template, read-only calls and owner writes *)
Inductive session (p : loc) : heap -> list loc -> heap -> list loc -> Prop :=
| se_nil : forall h rs, session p h rs h rs
| se_inst : forall h rs h1 r h2 rs2,
    exec_copy h p h1 r -> session p h1 (r :: rs) h2 rs2 ->
    session p h rs h2 rs2
| se_run : forall h rs ss h1 h2 rs2,
    inst_run p rs h ss h1 -> session p h1 rs h2 rs2 ->
    session p h rs h2 rs2.

Theorem all_instances_separated : forall p h rs h' rs',
  session p h rs h' rs' -> Inv h rs -> In p rs ->
  Inv h' rs' /\ In p rs' /\
  (forall x, reach h [p] x -> lookup h' x = lookup h x) /\
  (forall x, reach h' [p] x <-> reach h [p] x).
Proof.
  intros p h rs h' rs' Hs.
  induction Hs as [h rs | h rs h1 r h2 rs2 Hc Hs IH | h rs ss h1 h2 rs2 Hr Hs IH];
    intros HI Hp.
  - split; [exact HI|]. split; [exact Hp|]. split; [reflexivity|]. intros; tauto.
  - pose proof (Inv_copy _ _ _ _ _ HI Hc) as HI1.
    destruct (IH HI1 (or_intror Hp)) as [HI2 [Hp2 [Hag2 Hsame2]]].
    destruct (exec_copy_frame _ _ _ _ Hc) as [Hfr Hnx].
    destruct HI as [Hwf [Hal _]].
    assert (H01 : forall x, reach h [p] x -> lookup h1 x = lookup h x).
    { intros x Hx. apply Hfr. eapply reach_below1; eauto. }
    pose proof (reach_same _ _ _ H01) as S01.
    assert (Hag : forall x, reach h [p] x -> lookup h2 x = lookup h x).
    { intros x Hx. rewrite Hag2 by (apply S01; exact Hx). apply H01. exact Hx. }
    split; [exact HI2|]. split; [exact Hp2|]. split; [exact Hag|].
    apply reach_same. exact Hag.
  - destruct (inst_run_inv _ _ _ _ _ Hr HI Hp) as [HI1 [_ [H01 S01]]].
    destruct (IH HI1 Hp) as [HI2 [Hp2 [Hag2 Hsame2]]].
    assert (Hag : forall x, reach h [p] x -> lookup h2 x = lookup h x).
    { intros x Hx. rewrite Hag2 by (apply S01; exact Hx). apply H01. exact Hx. }
    split; [exact HI2|]. split; [exact Hp2|]. split; [exact Hag|].
    apply reach_same. exact Hag.
Qed.

(* ------------------------------------------------------------------ *)
(* 4. Examples                                                         *)
(* ------------------------------------------------------------------ *)

Ltac solve_obj_ok :=
  let i := fresh "i" in let r := fresh "r" in let H := fresh "H" in
  intros i r H;
  repeat (destruct i as [|i]; simpl in H; try discriminate;
          try (injection H as H; subst; simpl; lia)).

(* a program of three objects: 0 -> 1 -> 2 *)
Definition heap3 : heap :=
  [ [CInt 1; CRef 1]; [CInt 2; CRef 2]; [CInt 3] ].

(* a call that builds a result object referring to the program, then fills it *)
Definition call1 : list act :=
  [ Alloc [CRef 0; CInt 0];
    Write 3 1 (CInt 7);
    Alloc [CInt 5];
    Write 4 1 (CRef 3);
    Write 3 0 (CRef 2) ].

Definition heap3' : heap :=
  heap3 ++ [ [CRef 2; CInt 7]; [CInt 5; CRef 3] ].

Example heap3_wf : wf_heap heap3.
Proof.
  intros l o i r Hl Hn.
  repeat (destruct l as [|l]; simpl in Hl; try discriminate);
    injection Hl as Hl; subst o; revert i r Hn; solve_obj_ok.
Qed.

Example call1_confined : confined (next heap3) call1.
Proof. unfold confined, call1. repeat constructor; simpl; lia. Qed.

Example call1_exec : exec_acts heap3 call1 heap3'.
Proof.
  unfold call1.
  eapply E_cons. { apply E_Alloc. solve_obj_ok. } simpl.
  eapply E_cons. { eapply E_Write; [reflexivity | simpl; exact I]. } simpl.
  eapply E_cons. { apply E_Alloc. solve_obj_ok. } simpl.
  eapply E_cons. { eapply E_Write; [reflexivity | simpl; lia]. } simpl.
  eapply E_cons. { eapply E_Write; [reflexivity | simpl; lia]. } simpl.
  apply E_nil.
Qed.

(* the frame conclusion, instantiated *)
Example call1_frame :
  forall l, l < 3 -> lookup heap3' l = lookup heap3 l.
Proof.
  exact (proj1 (frame_call _ _ _ call1_exec call1_confined)).
Qed.

Example call1_frame_by_computation :
  lookup heap3' 0 = lookup heap3 0 /\
  lookup heap3' 1 = lookup heap3 1 /\
  lookup heap3' 2 = lookup heap3 2.
Proof. repeat split. Qed.

(* a client mutation of the returned object (location 3 >= 3) after the call:
   the program rooted at 0 is still unchanged *)
Example session1_program_unchanged : forall h,
  ro_run (next heap3) heap3 [SCall call1; SMut 3 1 (CRef 0)] h ->
  (forall x, reach h [0] x <-> reach heap3 [0] x) /\
  (forall x, reach heap3 [0] x -> lookup h x = lookup heap3 x).
Proof.
  intros h Hrun. apply (program_unchanged _ _ _ 0 heap3_wf) in Hrun.
  - exact Hrun.
  - simpl. lia.
Qed.

Example session1_exists :
  ro_run (next heap3) heap3 [SCall call1; SMut 3 1 (CRef 0)]
         (heap3 ++ [ [CRef 2; CRef 0]; [CInt 5; CRef 3] ]).
Proof.
  eapply ro_call; [exact call1_exec | exact call1_confined |].
  eapply ro_mut.
  - simpl. lia.
  - unfold heap3'. eapply E_Write; [reflexivity | simpl; lia].
  - simpl. apply ro_nil.
Qed.

(* the DeepCopy contract is satisfiable: a concrete deep copy *)
Definition heapA : heap := [ [CInt 1; CRef 1]; [CInt 2; CRef 0] ].
Definition heapB : heap := heapA ++ [ [CInt 1; CRef 3]; [CInt 2; CRef 2] ].

Example deepcopy_example : DeepCopy heapA 0 heapB 2.
Proof.
  assert (Hreach : forall l, reach heapB [2] l -> l = 2 \/ l = 3).
  { intros l Hr. induction Hr as [l Hin | l o i r Hr IH Hl Hn].
    - destruct Hin as [Hin | []]. auto.
    - destruct IH as [IH | IH]; subst l; simpl in Hl; injection Hl as Hl; subst o;
        repeat (destruct i as [|i]; simpl in Hn; try discriminate;
                try (injection Hn as Hn; subst; auto)). }
  constructor.
  - eexists. reflexivity.
  - simpl. lia.
  - simpl. lia.
  - intros l Hr. apply Hreach in Hr. simpl. lia.
  - intros l o i r Hge Hl Hn. simpl in Hge.
    do 4 (destruct l as [|l]; [try lia; simpl in Hl; injection Hl as Hl; subst o;
          revert i r Hn; solve_obj_ok |]).
    simpl in Hl. destruct l; discriminate.
  - exists (fun l => 2 + l). split; [reflexivity|]. split.
    + intros a b _ _ Hab. lia.
    + intros l _. destruct l as [|[|l]]; simpl; try reflexivity.
      destruct l; reflexivity.
Qed.

Example copy_example : exec_act heapA (Copy 0) heapB.
Proof.
  eapply E_Copy with (root' := 2). split.
  - simpl. lia.
  - exact deepcopy_example.
Qed.

Print Assumptions frame_call.
Print Assumptions readonly_frame.
Print Assumptions program_unchanged.
Print Assumptions instances_separated.
Print Assumptions modify_inst1_alters_nothing_else.
Print Assumptions all_instances_separated.
Print Assumptions modify_inst2_alters_nothing_else.
Print Assumptions instances_template_unchanged.
Print Assumptions fresh_obj_val_sep.
Print Assumptions deepcopy_example.
