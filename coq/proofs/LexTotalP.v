(* THE LEXER NEVER RUNS OUT OF FUEL (with the fuels of Loader.front).

   [Ebnf.ends f e i] answers None only by exhaustion of the recursion fuel f or of the closure fuel K of a [Star].
   PART 1 (generic, any grammar/word):
     ends_le        ends f e i = Some L -> In j L -> i <= j <= max i |w|
     closure_some   a closure whose steps all answer terminates within
                    1 + |todo| + (sum over the positions q <= |w| not yet seen of the length of step q)  units of fuel
     ends_some      Good f e -> ends f e i <> None      where Good f e: the recursion fuel f covers the nesting depth of e
                    (following Ref) and every Star body a met on the way satisfies CostOK: 2 + sum_{q <= |w|} |ends a q| <= K
     good / good_Good   the boolean version, parametrised by a test [okb] on Star bodies that implies CostOK
   PART 2 (generic, quantitative): the length of [ends] results, measured against the length R P i of the run of
     P-characters that starts at i:  Within P e (results stay within the run), Cnt P e c d (|ends e i| <= c + d * R P i),
     EpsAt P e z (at a position holding a P-character e only answers z copies of that position), Small e lo k; rules for
     every constructor, in particular for Seq a b when the alphabet of a is disjoint from the first characters of b.
     CostOK_tok (needs |w| + 2 <= K) and CostOK_seqtok (Star (Seq (Tok t) b) with t outside P, Cnt P b c d: needs
     max c d * |w| + 2 <= K).
   PART 3 (the generated lexer grammar lex_g): the Star bodies are single character sets, except in SEQUENCE
     (rule 17) whose body is  ',' NUMBER ; |ends NUMBER i| <= 4 + 3 * (run of [0-9.eE+-] from i).  Hence every rule of
     lex_rules answers at every position with K >= 4|w| + 2, F = 64 (rules_good: checked by vm_compute).
   PART 4: pick_total, pick_progress (the ANY rule matches one character), lexfrom_some,
       lex_total          lex lex_g lex_rules w (8 * length w + 64) 64 <> None
       front_not_unspec   front lex_g lex_rules w <> Unspec
   Every statement is fully proved (closed under the global context). *)
From Coq Require Import List Arith NArith Bool Lia.
Import ListNotations.
From BB Require Import Ebnf Chars Lexer EbnfP LexerP G4Data Syntax Parser Values Loader.

Local Arguments closure : simpl never.

(* ================================================================================================ *)
(* PART 1 -- generic: when [ends] answers                                                            *)
(* ================================================================================================ *)
Section Gen.
Variables (sym T : Type).
Variable tm : T -> sym -> bool.
Variable g : nat -> ebnf T.
Variable w : list sym.
Variable K : nat.

Notation M := (M sym T tm g w).
Notation ends := (ends sym T tm g w K).

(* beyond the end of the word only the empty segment is derived *)
Lemma M_past e i j : M e i j -> length w <= i -> j = i.
Proof.
  induction 1 as [t i x Hx _| | | a b i k j _ IH1 _ IH2 | | | | a i k j Hlt _ IH1 _ _]; intros Hi; auto.
  - apply nth_error_None in Hi. congruence.
  - specialize (IH1 Hi). subst k. apply IH2. exact Hi.
  - specialize (IH1 Hi). lia.
Qed.

Theorem ends_le f e i L j : ends f e i = Some L -> In j L -> i <= j /\ j <= Nat.max i (length w).
Proof.
  intros H Hj. pose proof (ends_sound sym T tm g w K f e i L H j Hj) as HM. split.
  - eapply M_le; eauto.
  - destruct (le_lt_dec (length w) i) as [Hi|Hi].
    + apply M_past in HM; [lia|exact Hi].
    + apply M_bound in HM; lia.
Qed.

(* ---- the closure ---- *)
(* sum of c over the positions of l that are not in seen *)
Fixpoint sumf (c:nat -> nat) (seen l:list nat) : nat :=
  match l with [] => 0 | q :: l' => (if mem q seen then 0 else c q) + sumf c seen l' end.

Lemma mem_cons x p seen : mem x (p :: seen) = (Nat.eqb x p || mem x seen)%bool.
Proof. reflexivity. Qed.

Lemma sumf_mono c p seen l : sumf c (p :: seen) l <= sumf c seen l.
Proof.
  induction l as [|a l IH]; cbn [sumf]; [lia|]. rewrite mem_cons.
  destruct (Nat.eqb a p); cbn [orb]; [lia|]. destruct (mem a seen); lia.
Qed.

Lemma sumf_remove c p seen l : In p l -> mem p seen = false -> sumf c (p :: seen) l + c p <= sumf c seen l.
Proof.
  intros Hin Hm. induction l as [|a l IH]; [destruct Hin|]. cbn [sumf]. rewrite mem_cons.
  destruct (Nat.eq_dec a p) as [->|Hne].
  - rewrite Nat.eqb_refl, Hm. cbn [orb]. pose proof (sumf_mono c p seen l). lia.
  - destruct Hin as [E|Hin]; [congruence|]. specialize (IH Hin).
    apply Nat.eqb_neq in Hne. rewrite Hne. cbn [orb]. destruct (mem a seen); lia.
Qed.

Lemma filter_length {A} (f:A -> bool) l : length (filter f l) <= length l.
Proof. induction l as [|a l IH]; simpl; [lia|]. destruct (f a); simpl; lia. Qed.

(* fuel that suffices: one unit for the final empty list, one per item ever put on the work list *)
Lemma closure_some step c :
  (forall p, exists l, step p = Some l /\ length l <= c p /\ forall q, In q l -> p < q -> q <= length w) ->
  forall k todo seen, 1 + length todo + sumf c seen (seq 0 (S (length w))) <= k -> closure k step todo seen <> None.
Proof.
  intros Hs. induction k as [|k IH]; intros todo seen Hk; [lia|]. rewrite closure_S.
  destruct todo as [|p todo]; [discriminate|]. cbn [length] in Hk.
  destruct (mem p seen) eqn:Hm. { apply IH. lia. }
  destruct (Hs p) as (l & -> & Hl & Hb). apply IH. rewrite app_length.
  destruct (le_lt_dec p (length w)) as [Hp|Hp].
  - assert (Hin : In p (seq 0 (S (length w)))) by (apply in_seq; lia).
    pose proof (sumf_remove c p seen _ Hin Hm). pose proof (filter_length (fun q => Nat.ltb p q) l). lia.
  - assert (E : filter (fun q => Nat.ltb p q) l = []).
    { destruct (filter (fun q => Nat.ltb p q) l) as [|q r] eqn:E; [reflexivity|]. exfalso.
      assert (Hq : In q (filter (fun q => Nat.ltb p q) l)) by (rewrite E; left; reflexivity).
      apply filter_In in Hq. destruct Hq as (Hq & Hlt). apply Nat.ltb_lt in Hlt. specialize (Hb q Hq Hlt). lia. }
    rewrite E. cbn [length]. pose proof (sumf_mono c p seen (seq 0 (S (length w)))). lia.
Qed.

Lemma closure_nodup step : forall k todo seen R, closure k step todo seen = Some R -> NoDup seen -> NoDup R.
Proof.
  induction k as [|k IH]; intros todo seen R H Hn; [discriminate|]. rewrite closure_S in H.
  destruct todo as [|p todo]. { injection H as <-. exact Hn. }
  destruct (mem p seen) eqn:Hm. { eapply IH; eauto. }
  destruct (step p) as [l|]; [|discriminate]. eapply IH; [exact H|]. constructor; [|exact Hn].
  intros Hin. apply mem_In in Hin. congruence.
Qed.

Lemma bindl_total f l : (forall x, f x <> None) -> bindl f l <> None.
Proof.
  intros Hf. induction l as [|x l IH]; simpl; [discriminate|].
  destruct (f x) eqn:E; [|exfalso; exact (Hf x E)]. destruct (bindl f l); [discriminate|exact IH].
Qed.

(* ---- the recogniser ---- *)
Lemma ends_S_tok f t i : ends (S f) (Tok t) i =
  match nth_error w i with Some x => if tm t x then Some [S i] else Some [] | None => Some [] end.
Proof. reflexivity. Qed.
Lemma ends_S_seq f a b i : ends (S f) (Seq a b) i =
  match ends f a i with None => None | Some l => bindl (ends f b) (nodup Nat.eq_dec l) end.
Proof. reflexivity. Qed.

Definition lenends (f:nat) (a:ebnf T) (q:nat) : nat := match ends f a q with Some L => length L | None => 0 end.

(* the closure fuel K covers the Star whose body is a (run at recursion fuel f) *)
Definition CostOK (f:nat) (a:ebnf T) : Prop := 2 + sumf (lenends f a) [] (seq 0 (S (length w))) <= K.

Fixpoint Good (f:nat) (e:ebnf T) : Prop :=
  match f with 0 => False | S f =>
    match e with
    | Tok _ => True
    | Eps => True
    | Ref r => Good f (g r)
    | Seq a b => Good f a /\ Good f b
    | Alt a b => Good f a /\ Good f b
    | Star a => Good f a /\ CostOK f a
    end end.

Theorem ends_some : forall f e, Good f e -> forall i, ends f e i <> None.
Proof.
  induction f as [|f IH]; intros e G i; [destruct G|]. destruct e as [t|r| |a b|a b|a]; simpl in G |- *.
  - destruct (nth_error w i) as [x|]; [destruct (tm t x)|]; discriminate.
  - apply IH. exact G.
  - discriminate.
  - destruct G as (Ga & Gb). destruct (ends f a i) as [l|] eqn:E; [|exfalso; exact (IH a Ga i E)].
    apply bindl_total. intros x. apply IH. exact Gb.
  - destruct G as (Ga & Gb). destruct (ends f a i) as [l1|] eqn:E1; [|exfalso; exact (IH a Ga i E1)].
    destruct (ends f b i) as [l2|] eqn:E2; [discriminate|exfalso; exact (IH b Gb i E2)].
  - destruct G as (Ga & Gc). apply (closure_some (ends f a) (lenends f a)).
    + intros p. destruct (ends f a p) as [l|] eqn:E; [|exfalso; exact (IH a Ga p E)].
      exists l. split; [reflexivity|]. split; [unfold lenends; rewrite E; lia|].
      intros q Hq Hlt. destruct (ends_le f a p l q E Hq). lia.
    + cbn [length]. exact Gc.
Qed.

(* boolean version: a test on Star bodies that implies CostOK *)
Section Check.
Variable okb : ebnf T -> bool.
Hypothesis okb_sound : forall a, okb a = true -> forall f, CostOK f a.

Fixpoint good (f:nat) (e:ebnf T) : bool :=
  match f with 0 => false | S f =>
    match e with
    | Tok _ => true
    | Eps => true
    | Ref r => good f (g r)
    | Seq a b => good f a && good f b
    | Alt a b => good f a && good f b
    | Star a => good f a && okb a
    end end.

Lemma good_Good : forall f e, good f e = true -> Good f e.
Proof.
  induction f as [|f IH]; intros e H; [discriminate|]. destruct e as [t|r| |a b|a b|a]; simpl in H |- *; auto.
  - apply andb_true_iff in H. destruct H. split; apply IH; assumption.
  - apply andb_true_iff in H. destruct H. split; apply IH; assumption.
  - apply andb_true_iff in H. destruct H as (Ha & Ho). split; [apply IH; exact Ha|apply okb_sound; exact Ho].
Qed.
End Check.

(* ================================================================================================ *)
(* PART 2 -- generic: how long the answers of [ends] are                                             *)
(* ================================================================================================ *)
(* length of the run of P-symbols at the head of l / from position i of the word *)
Fixpoint run (P:sym -> bool) (l:list sym) : nat :=
  match l with x :: l' => if P x then S (run P l') else 0 | [] => 0 end.
Definition R (P:sym -> bool) (i:nat) : nat := run P (skipn i w).

Lemma skipn_nth {A} : forall (l:list A) i,
  skipn i l = match nth_error l i with Some x => x :: skipn (S i) l | None => [] end.
Proof.
  induction l as [|a l IH]; intros i. { destruct i; reflexivity. }
  destruct i as [|i]; [reflexivity|]. cbn [skipn nth_error]. rewrite IH. destruct (nth_error l i); reflexivity.
Qed.

Lemma R_some P i x : nth_error w i = Some x -> R P i = if P x then S (R P (S i)) else 0.
Proof. intros H. unfold R. rewrite (skipn_nth w i), H. reflexivity. Qed.
Lemma R_none P i : nth_error w i = None -> R P i = 0.
Proof. intros H. unfold R. rewrite (skipn_nth w i), H. reflexivity. Qed.

Lemma R_pos P i : 0 < R P i -> exists x, nth_error w i = Some x /\ P x = true /\ R P i = S (R P (S i)).
Proof.
  intros H. destruct (nth_error w i) as [x|] eqn:E.
  - rewrite (R_some P i x E) in H |- *. destruct (P x) eqn:Ep; [|lia]. exists x. repeat split; auto.
  - rewrite (R_none P i E) in H. lia.
Qed.

Lemma R_shift P : forall k i, k <= R P i -> R P (i + k) = R P i - k.
Proof.
  induction k as [|k IH]; intros i H. { rewrite Nat.add_0_r. lia. }
  destruct (R_pos P i) as (x & _ & _ & E); [lia|].
  replace (i + S k) with (S i + k) by lia. rewrite IH; lia.
Qed.

Lemma R_char P : forall k i, k < R P i -> exists x, nth_error w (i + k) = Some x /\ P x = true.
Proof.
  intros k i H. assert (H0 : 0 < R P (i + k)) by (rewrite R_shift; lia).
  destruct (R_pos P (i + k) H0) as (x & Hx & Hp & _). exists x. auto.
Qed.

Lemma R_le P i j : i <= j -> j <= i + R P i -> R P j <= R P i /\ j + R P j = i + R P i.
Proof. intros H1 H2. replace j with (i + (j - i)) by lia. rewrite R_shift; lia. Qed.

(* every answer lies within the run of P-symbols that starts at i *)
Definition Within (P:sym -> bool) (e:ebnf T) : Prop :=
  forall f i L q, ends f e i = Some L -> In q L -> q <= i + R P i.

Lemma Within_tok P t : (forall x, tm t x = true -> P x = true) -> Within P (Tok t).
Proof.
  intros Ht f i L q H Hq. destruct f as [|f]; [discriminate|]. simpl in H.
  destruct (nth_error w i) as [x|] eqn:E; [|injection H as <-; destruct Hq].
  destruct (tm t x) eqn:Ex; injection H as <-; [|destruct Hq]. destruct Hq as [<-|[]].
  rewrite (R_some P i x E), (Ht x Ex). lia.
Qed.
Lemma Within_eps P : Within P Eps.
Proof. intros f i L q H Hq. destruct f as [|f]; [discriminate|]. injection H as <-. destruct Hq as [<-|[]]. lia. Qed.
Lemma Within_ref P r : Within P (g r) -> Within P (Ref r).
Proof. intros Hg f i L q H Hq. destruct f as [|f]; [discriminate|]. simpl in H. eapply Hg; eauto. Qed.
Lemma Within_alt P a b : Within P a -> Within P b -> Within P (Alt a b).
Proof.
  intros Ha Hb f i L q H Hq. destruct f as [|f]; [discriminate|]. simpl in H.
  destruct (ends f a i) as [l1|] eqn:E1; [|discriminate]. destruct (ends f b i) as [l2|] eqn:E2; [|discriminate].
  injection H as <-. apply in_app_iff in Hq. destruct Hq; [eapply Ha|eapply Hb]; eauto.
Qed.
Lemma Within_seq P a b : Within P a -> Within P b -> Within P (Seq a b).
Proof.
  intros Ha Hb f i L q H Hq. destruct f as [|f]; [discriminate|]. simpl in H.
  destruct (ends f a i) as [l|] eqn:E1; [|discriminate].
  apply (bindl_in _ _ _ q H) in Hq. destruct Hq as (k & ys & Hk & Hf & Hy). apply nodup_In in Hk.
  pose proof (Ha _ _ _ _ E1 Hk) as Bk. destruct (ends_le _ _ _ _ _ E1 Hk) as (Lk & _).
  pose proof (Hb _ _ _ _ Hf Hy) as Bq. destruct (R_le P i k Lk Bk). lia.
Qed.
Lemma Within_star P a : Within P a -> Within P (Star a).
Proof.
  intros Ha f i L q H Hq. destruct f as [|f]; [discriminate|]. simpl in H.
  assert (HP : forall x, In x L -> i <= x /\ x <= i + R P i).
  { eapply (closure_sound (ends f a) (fun p => i <= p /\ p <= i + R P i)); [| | |exact H].
    - intros p l q0 (P1 & P2) Hs Hin Hlt. pose proof (Ha _ _ _ _ Hs Hin). destruct (R_le P i p P1 P2). lia.
    - intros x [<-|[]]. lia.
    - intros x []. }
  apply HP. exact Hq.
Qed.

(* |ends e i| <= c + d * (run of P from i) *)
Definition Cnt (P:sym -> bool) (e:ebnf T) (c d:nat) : Prop :=
  forall f i L, ends f e i = Some L -> length L <= c + d * R P i.

Lemma Cnt_weaken P e c d c' d' : Cnt P e c d -> c <= c' -> d <= d' -> Cnt P e c' d'.
Proof. intros H Hc Hd f i L E. specialize (H f i L E). nia. Qed.
Lemma Cnt_tok P t : Cnt P (Tok t) 1 0.
Proof.
  intros f i L H. destruct f as [|f]; [discriminate|]. simpl in H.
  destruct (nth_error w i) as [x|]; [destruct (tm t x)|]; injection H as <-; simpl; lia.
Qed.
Lemma Cnt_eps P : Cnt P Eps 1 0.
Proof. intros f i L H. destruct f as [|f]; [discriminate|]. injection H as <-. simpl; lia. Qed.
Lemma Cnt_ref P r c d : Cnt P (g r) c d -> Cnt P (Ref r) c d.
Proof. intros Hg f i L H. destruct f as [|f]; [discriminate|]. simpl in H. eapply Hg; eauto. Qed.
Lemma Cnt_alt P a b c1 d1 c2 d2 : Cnt P a c1 d1 -> Cnt P b c2 d2 -> Cnt P (Alt a b) (c1 + c2) (d1 + d2).
Proof.
  intros Ha Hb f i L H. destruct f as [|f]; [discriminate|]. simpl in H.
  destruct (ends f a i) as [l1|] eqn:E1; [|discriminate]. destruct (ends f b i) as [l2|] eqn:E2; [|discriminate].
  injection H as <-. rewrite app_length. specialize (Ha _ _ _ E1). specialize (Hb _ _ _ E2). nia.
Qed.
Lemma Cnt_star P a : Within P (Star a) -> Cnt P (Star a) 1 1.
Proof.
  intros HW f i L H. assert (Hnd : NoDup L).
  { destruct f as [|f]; [discriminate|]. simpl in H. eapply closure_nodup; [exact H|constructor]. }
  assert (Hinc : incl L (seq i (S (R P i)))).
  { intros q Hq. apply in_seq. destruct (ends_le _ _ _ _ _ H Hq). pose proof (HW _ _ _ _ H Hq). lia. }
  pose proof (NoDup_incl_length Hnd Hinc) as Hl. rewrite seq_length in Hl. lia.
Qed.

Lemma bindl_length f l r (h:nat -> nat) : bindl f l = Some r ->
  (forall x ys, In x l -> f x = Some ys -> length ys <= h x) -> length r <= list_sum (map h l).
Proof.
  revert r. induction l as [|x l IH]; simpl; intros r H Hh. { injection H as <-. simpl; lia. }
  destruct (f x) as [a|] eqn:Ex; [|discriminate]. destruct (bindl f l) as [b|] eqn:Eb; [|discriminate].
  injection H as <-. rewrite app_length. specialize (IH b eq_refl (fun y ys Hy => Hh y ys (or_intror Hy))).
  specialize (Hh x a (or_introl eq_refl) Ex). lia.
Qed.
Lemma list_sum_const {A} (l:list A) m : list_sum (map (fun _ => m) l) = length l * m.
Proof. induction l as [|a l IH]; simpl; [reflexivity|]. rewrite IH. lia. Qed.

(* all answers of e from i lie in [i + lo, i + lo + k) *)
Definition Small (e:ebnf T) (lo k:nat) : Prop :=
  forall f i L q, ends f e i = Some L -> In q L -> i + lo <= q /\ q < i + lo + k.
Lemma Small_weaken e lo k lo' k' : Small e lo k -> lo' <= lo -> lo + k <= lo' + k' -> Small e lo' k'.
Proof. intros H H1 H2 f i L q E Hq. specialize (H f i L q E Hq). lia. Qed.
Lemma Small_tok t : Small (Tok t) 1 1.
Proof.
  intros f i L q H Hq. destruct f as [|f]; [discriminate|]. simpl in H.
  destruct (nth_error w i) as [x|]; [destruct (tm t x)|]; injection H as <-; simpl in Hq; [|destruct Hq|destruct Hq].
  destruct Hq as [<-|[]]. lia.
Qed.
Lemma Small_eps : Small Eps 0 1.
Proof. intros f i L q H Hq. destruct f as [|f]; [discriminate|]. injection H as <-. destruct Hq as [<-|[]]. lia. Qed.
Lemma Small_alt a b lo k : Small a lo k -> Small b lo k -> Small (Alt a b) lo k.
Proof.
  intros Ha Hb f i L q H Hq. destruct f as [|f]; [discriminate|]. simpl in H.
  destruct (ends f a i) as [l1|] eqn:E1; [|discriminate]. destruct (ends f b i) as [l2|] eqn:E2; [|discriminate].
  injection H as <-. apply in_app_iff in Hq. destruct Hq; [eapply Ha|eapply Hb]; eauto.
Qed.

(* Seq a b when a only has k different answers *)
Lemma Cnt_seq_small P a b lo k c d : Small a lo k -> Within P a -> Cnt P b c d -> Cnt P (Seq a b) (k * c) (k * d).
Proof.
  intros Hs Ha Hb f i L H. destruct f as [|f]; [discriminate|]. simpl in H.
  destruct (ends f a i) as [la|] eqn:E1; [|discriminate].
  set (l := nodup Nat.eq_dec la) in *.
  assert (Hlen : length l <= k).
  { assert (Hinc : incl l (seq (i + lo) k)).
    { intros q Hq. apply nodup_In in Hq. apply in_seq. exact (Hs _ _ _ _ E1 Hq). }
    pose proof (NoDup_incl_length (NoDup_nodup Nat.eq_dec la) Hinc) as Hl. rewrite seq_length in Hl. exact Hl. }
  pose proof (bindl_length _ _ _ (fun _ => c + d * R P i) H) as Hb'.
  rewrite list_sum_const in Hb'.
  assert (Hlen' : length L <= length l * (c + d * R P i)).
  { apply Hb'. intros x ys Hx Hf. apply nodup_In in Hx.
    pose proof (Ha _ _ _ _ E1 Hx) as Bx. destruct (ends_le _ _ _ _ _ E1 Hx) as (Lx & _).
    destruct (R_le P i x Lx Bx) as (Rx & _). specialize (Hb _ _ _ Hf).
    assert (d * R P x <= d * R P i) by (apply Nat.mul_le_mono_l; exact Rx). lia. }
  etransitivity; [exact Hlen'|]. etransitivity; [apply Nat.mul_le_mono_r; exact Hlen|].
  rewrite Nat.mul_add_distr_l, Nat.mul_assoc. apply le_n.
Qed.

(* at a position that holds a P-symbol, e only answers (at most z copies of) that position *)
Definition EpsAt (P:sym -> bool) (e:ebnf T) (z:nat) : Prop :=
  forall f j x L, nth_error w j = Some x -> P x = true -> ends f e j = Some L ->
    length L <= z /\ forall q, In q L -> q = j.

Lemma EpsAt_tok P t : (forall x, P x = true -> tm t x = false) -> EpsAt P (Tok t) 0.
Proof.
  intros Ht f j x L Hx Hp H. destruct f as [|f]; [discriminate|]. simpl in H. rewrite Hx, (Ht x Hp) in H.
  injection H as <-. split; [simpl; lia|intros q []].
Qed.
Lemma EpsAt_eps P : EpsAt P Eps 1.
Proof.
  intros f j x L Hx Hp H. destruct f as [|f]; [discriminate|]. injection H as <-.
  split; [simpl; lia|intros q [<-|[]]; reflexivity].
Qed.
Lemma EpsAt_ref P r z : EpsAt P (g r) z -> EpsAt P (Ref r) z.
Proof. intros Hg f j x L Hx Hp H. destruct f as [|f]; [discriminate|]. simpl in H. eapply Hg; eauto. Qed.
Lemma EpsAt_alt P a b z1 z2 : EpsAt P a z1 -> EpsAt P b z2 -> EpsAt P (Alt a b) (z1 + z2).
Proof.
  intros Ha Hb f j x L Hx Hp H. destruct f as [|f]; [discriminate|]. simpl in H.
  destruct (ends f a j) as [l1|] eqn:E1; [|discriminate]. destruct (ends f b j) as [l2|] eqn:E2; [|discriminate].
  injection H as <-. destruct (Ha _ _ _ _ Hx Hp E1) as (A1 & A2). destruct (Hb _ _ _ _ Hx Hp E2) as (B1 & B2).
  split; [rewrite app_length; lia|]. intros q Hq. apply in_app_iff in Hq. destruct Hq; auto.
Qed.
Lemma nodup_single (l:list nat) j : NoDup l -> (forall q, In q l -> q = j) -> l = [] \/ l = [j].
Proof.
  intros Hn Hj. destruct l as [|a l]; [left; reflexivity|right].
  assert (a = j) by (apply Hj; left; reflexivity). subst a.
  destruct l as [|b l]; [reflexivity|]. exfalso.
  assert (b = j) by (apply Hj; right; left; reflexivity). subst b.
  inversion Hn as [|? ? Hnin _]. apply Hnin. left. reflexivity.
Qed.
Lemma EpsAt_seq0 P a b : EpsAt P a 0 -> EpsAt P (Seq a b) 0.
Proof.
  intros Ha f j x L Hx Hp H. destruct f as [|f]; [discriminate|]. simpl in H.
  destruct (ends f a j) as [la|] eqn:E1; [|discriminate]. destruct (Ha _ _ _ _ Hx Hp E1) as (A1 & _).
  destruct la; [|simpl in A1; lia]. simpl in H. injection H as <-. split; [simpl; lia|intros q []].
Qed.
Lemma EpsAt_seq P a b za zb : EpsAt P a za -> EpsAt P b zb -> EpsAt P (Seq a b) zb.
Proof.
  intros Ha Hb f j x L Hx Hp H. destruct f as [|f]; [discriminate|]. simpl in H.
  destruct (ends f a j) as [la|] eqn:E1; [|discriminate]. destruct (Ha _ _ _ _ Hx Hp E1) as (_ & A2).
  destruct (nodup_single (nodup Nat.eq_dec la) j (NoDup_nodup _ _)) as [E|E].
  { intros q Hq. apply nodup_In in Hq. auto. }
  - rewrite E in H. simpl in H. injection H as <-. split; [simpl; lia|intros q []].
  - rewrite E in H. simpl in H. destruct (ends f b j) as [ys|] eqn:E2; [|discriminate]. injection H as <-.
    rewrite app_nil_r. eapply Hb; eauto.
Qed.

(* Seq a b when the symbols a reads cannot start b: only the last answer of a lets b read anything *)
Lemma sum_split m B z l :
  list_sum (map (fun x => if Nat.eqb x m then B else z) l)
  = length (filter (fun x => Nat.eqb x m) l) * B + length (filter (fun x => negb (Nat.eqb x m)) l) * z.
Proof. induction l as [|a l IH]; simpl; [reflexivity|]. rewrite IH. destruct (Nat.eqb a m); simpl; lia. Qed.

Lemma sum_upto i m B z l : NoDup l -> (forall x, In x l -> i <= x /\ x <= m) ->
  list_sum (map (fun x => if Nat.eqb x m then B else z) l) <= (m - i) * z + B.
Proof.
  intros Hn Hb. rewrite sum_split.
  assert (H1 : length (filter (fun x => Nat.eqb x m) l) <= 1).
  { assert (Hinc : incl (filter (fun x => Nat.eqb x m) l) [m]).
    { intros x Hx. apply filter_In in Hx. destruct Hx as (_ & Hx). apply Nat.eqb_eq in Hx. left. auto. }
    exact (NoDup_incl_length (NoDup_filter _ Hn) Hinc). }
  assert (H2 : length (filter (fun x => negb (Nat.eqb x m)) l) <= m - i).
  { assert (Hinc : incl (filter (fun x => negb (Nat.eqb x m)) l) (seq i (m - i))).
    { intros x Hx. apply filter_In in Hx. destruct Hx as (Hx & Hne). apply negb_true_iff, Nat.eqb_neq in Hne.
      apply in_seq. specialize (Hb x Hx). lia. }
    pose proof (NoDup_incl_length (NoDup_filter _ Hn) Hinc) as Hl. rewrite seq_length in Hl. exact Hl. }
  nia.
Qed.

Lemma Cnt_seq_disj P Pa a b z c d :
  Within Pa a -> Within P a -> EpsAt Pa b z -> Cnt P b c d -> Cnt P (Seq a b) c (Nat.max z d).
Proof.
  intros Wa Wp Hz Hb f i L H. destruct f as [|f]; [discriminate|]. simpl in H.
  destruct (ends f a i) as [la|] eqn:E1; [|discriminate].
  set (l := nodup Nat.eq_dec la) in *.
  destruct l as [|x0 l0] eqn:El. { simpl in H. injection H as <-. simpl. lia. }
  rewrite <- El in H. assert (Hne : l <> []) by (rewrite El; discriminate).
  set (m := maxl l).
  assert (Hm : In m l) by (apply maxl_in; exact Hne).
  assert (Hml : In m la) by (apply (nodup_In Nat.eq_dec); exact Hm).
  destruct (ends_le _ _ _ _ _ E1 Hml) as (Lm & _).
  pose proof (Wp _ _ _ _ E1 Hml) as Bm. pose proof (Wa _ _ _ _ E1 Hml) as Bma.
  destruct (R_le P i m Lm Bm) as (_ & Rm).
  pose proof (bindl_length _ _ _ (fun x => if Nat.eqb x m then c + d * R P m else z) H) as HL.
  assert (Hlen : length L <= list_sum (map (fun x => if Nat.eqb x m then c + d * R P m else z) l)).
  { apply HL. intros x ys Hx Hf. destruct (Nat.eqb x m) eqn:Exm.
    - apply Nat.eqb_eq in Exm. subst x. exact (Hb _ _ _ Hf).
    - apply Nat.eqb_neq in Exm. pose proof (maxl_ge l x Hx) as Hle. fold m in Hle.
      assert (Hxl : In x la) by (apply (nodup_In Nat.eq_dec); exact Hx).
      destruct (ends_le _ _ _ _ _ E1 Hxl) as (Lx & _).
      destruct (R_char Pa (x - i) i) as (cx & Hcx & Hpx); [lia|].
      replace (i + (x - i)) with x in Hcx by lia.
      exact (proj1 (Hz _ _ _ _ Hcx Hpx Hf)). }
  assert (Hsum : list_sum (map (fun x => if Nat.eqb x m then c + d * R P m else z) l) <= (m - i) * z + (c + d * R P m)).
  { apply sum_upto; [apply NoDup_nodup|]. intros x Hx. split; [|apply maxl_ge; exact Hx].
    pose proof (proj1 (nodup_In Nat.eq_dec la x) Hx) as Hxl. destruct (ends_le _ _ _ _ _ E1 Hxl). lia. }
  assert (z <= Nat.max z d) by lia. assert (d <= Nat.max z d) by lia.
  assert (R P i = (m - i) + R P m) by lia. nia.
Qed.

(* ---- sums over all positions ---- *)
Lemma sumf_le c c' l : (forall q, c q <= c' q) -> sumf c [] l <= sumf c' [] l.
Proof. intros H. induction l as [|a l IH]; simpl; [lia|]. specialize (H a). lia. Qed.

Fixpoint tot (h:sym -> list sym -> nat) (l:list sym) : nat :=
  match l with [] => 0 | x :: l' => h x l' + tot h l' end.

Lemma sum_suffix h c :
  (forall q, c q = match nth_error w q with Some x => h x (skipn (S q) w) | None => 0 end) ->
  forall l s, skipn s w = l -> sumf c [] (seq s (S (length l))) = tot h l.
Proof.
  intros Hc. induction l as [|x l IH]; intros s Hs.
  - cbn [length seq sumf mem existsb tot]. rewrite Hc. rewrite (skipn_nth w s) in Hs.
    destruct (nth_error w s); [discriminate|reflexivity].
  - cbn [length]. change (seq s (S (S (length l)))) with (s :: seq (S s) (S (length l))).
    cbn [sumf mem existsb tot]. rewrite (skipn_nth w s) in Hs. rewrite Hc.
    destruct (nth_error w s) as [y|]; [|discriminate]. injection Hs as Hy Hl. subst y.
    change (skipn (S s) w = l) in Hl. rewrite (IH (S s) Hl), Hl. reflexivity.
Qed.

Lemma sum_all h c :
  (forall q, c q <= match nth_error w q with Some x => h x (skipn (S q) w) | None => 0 end) ->
  sumf c [] (seq 0 (S (length w))) <= tot h w.
Proof.
  intros Hc. rewrite <- (sum_suffix h _ (fun q => eq_refl) w 0 eq_refl). apply sumf_le. exact Hc.
Qed.

(* a Star whose body is a single terminal *)
Lemma CostOK_tok t : length w + 2 <= K -> forall f, CostOK f (Tok t).
Proof.
  intros HK f. unfold CostOK.
  assert (H : sumf (lenends f (Tok t)) [] (seq 0 (S (length w))) <= tot (fun _ _ => 1) w).
  { apply sum_all. intros q. unfold lenends. destruct f as [|f]; [simpl; destruct (nth_error w q); lia|]. simpl.
    destruct (nth_error w q) as [x|]; [destruct (tm t x)|]; simpl; lia. }
  assert (E : forall l : list sym, tot (fun _ _ => 1) l = length l) by (induction l as [|a l IH]; simpl; [|rewrite IH]; reflexivity).
  rewrite E in H. lia.
Qed.

(* a Star whose body is  t b  where t is outside P and b reads P-symbols only *)
Lemma tot_run (P:sym -> bool) c d m : c <= m -> d <= m ->
  forall l, tot (fun x l' => if P x then 0 else c + d * run P l') l + m * run P l <= m * length l.
Proof.
  intros Hc Hd. induction l as [|x l IH]; cbn [tot run length]; [lia|]. destruct (P x); nia.
Qed.

Lemma CostOK_seqtok P t b c d : (forall x, tm t x = true -> P x = false) -> Cnt P b c d ->
  Nat.max c d * length w + 2 <= K -> forall f, CostOK f (Seq (Tok t) b).
Proof.
  intros Ht Hb HK f. unfold CostOK.
  assert (H : sumf (lenends f (Seq (Tok t) b)) [] (seq 0 (S (length w)))
              <= tot (fun x l' => if P x then 0 else c + d * run P l') w).
  { apply sum_all. intros q. unfold lenends.
    destruct (ends f (Seq (Tok t) b) q) as [L|] eqn:E; [|destruct (nth_error w q); lia].
    destruct f as [|f]; [discriminate|]. rewrite ends_S_seq in E.
    destruct (ends f (Tok t) q) as [lt|] eqn:Et0; [|discriminate].
    destruct f as [|f]; [discriminate|]. rewrite ends_S_tok in Et0.
    destruct (nth_error w q) as [x|] eqn:Ex; [|injection Et0 as <-; injection E as <-; simpl; lia].
    destruct (tm t x) eqn:Et; injection Et0 as <-; [|injection E as <-; simpl; destruct (P x); lia].
    rewrite (Ht x Et). cbn [nodup In bindl] in E. destruct (in_dec Nat.eq_dec (S q) []) as [[]|_].
    cbn [bindl] in E.
    destruct (ends (S f) b (S q)) as [ys|] eqn:Eb; [|discriminate]. injection E as <-. rewrite app_nil_r.
    exact (Hb _ _ _ Eb). }
  pose proof (tot_run P c d (Nat.max c d) (Nat.le_max_l _ _) (Nat.le_max_r _ _) w). lia.
Qed.
End Gen.

(* ================================================================================================ *)
(* PART 3 -- the generated lexer grammar                                                             *)
(* ================================================================================================ *)
(* two decidable relations between character sets given by ranges (both not negated) *)
Definition cs_sub (t s:cset) : bool :=
  (negb (cneg t) && negb (cneg s) &&
   forallb (fun r => existsb (fun r' => (N.leb (fst r') (fst r) && N.leb (snd r) (snd r'))%bool) (cranges s)) (cranges t))%bool.
Definition cs_disj (t s:cset) : bool :=
  (negb (cneg t) && negb (cneg s) &&
   forallb (fun r => forallb (fun r' => (N.ltb (snd r) (fst r') || N.ltb (snd r') (fst r))%bool) (cranges s)) (cranges t))%bool.

Lemma cs_sub_sound t s : cs_sub t s = true -> forall x, cmatch t x = true -> cmatch s x = true.
Proof.
  unfold cs_sub, cmatch. intros H x Hx. apply andb_true_iff in H. destruct H as (H & Hr).
  apply andb_true_iff in H. destruct H as (Nt & Ns). apply negb_true_iff in Nt, Ns. rewrite Nt in Hx. rewrite Ns.
  rewrite xorb_false_l in *. unfold in_ranges in *. apply existsb_exists in Hx. destruct Hx as (r & Hr1 & Hr2).
  rewrite forallb_forall in Hr. specialize (Hr r Hr1). apply existsb_exists in Hr. destruct Hr as (r' & Hr3 & Hr4).
  apply existsb_exists. exists r'. split; [exact Hr3|].
  apply andb_true_iff in Hr2, Hr4. destruct Hr2 as (A1 & A2). destruct Hr4 as (B1 & B2).
  apply N.leb_le in A1, A2, B1, B2. apply andb_true_iff. split; apply N.leb_le; lia.
Qed.

Lemma cs_disj_sound t s : cs_disj t s = true -> forall x, cmatch t x = true -> cmatch s x = false.
Proof.
  unfold cs_disj, cmatch. intros H x Hx. apply andb_true_iff in H. destruct H as (H & Hr).
  apply andb_true_iff in H. destruct H as (Nt & Ns). apply negb_true_iff in Nt, Ns. rewrite Nt in Hx. rewrite Ns.
  rewrite xorb_false_l in *. unfold in_ranges in *. apply existsb_exists in Hx. destruct Hx as (r & Hr1 & Hr2).
  rewrite forallb_forall in Hr. specialize (Hr r Hr1). rewrite forallb_forall in Hr.
  destruct (existsb _ (cranges s)) eqn:Ex; [|reflexivity]. exfalso.
  apply existsb_exists in Ex. destruct Ex as (r' & Hr3 & Hr4). specialize (Hr r' Hr3).
  apply andb_true_iff in Hr2, Hr4. destruct Hr2 as (A1 & A2). destruct Hr4 as (B1 & B2).
  apply N.leb_le in A1, A2, B1, B2. apply orb_true_iff in Hr. destruct Hr as [Hr|Hr]; apply N.ltb_lt in Hr; lia.
Qed.

Lemma cs_disj_sound' t s : cs_disj t s = true -> forall x, cmatch s x = true -> cmatch t x = false.
Proof.
  intros H x Hx. destruct (cmatch t x) eqn:E; [|reflexivity]. rewrite (cs_disj_sound t s H x E) in Hx. discriminate.
Qed.

(* the alphabets of NUMBER (rule 10), of its digit runs, and of the part before the exponent *)
Definition csA : cset := mkcs false [(48,57); (46,46); (101,101); (69,69); (43,43); (45,45)]%N.
Definition csD : cset := mkcs false [(48,57)]%N.
Definition csX : cset := mkcs false [(48,57); (46,46)]%N.

Section Concrete.
Variable w : list N.
Variable K : nat.

Notation ends := (ends N cset cmatch lex_g w K).
Notation Within := (Within N cset cmatch lex_g w K).
Notation Cnt := (Cnt N cset cmatch lex_g w K).
Notation EpsAt := (EpsAt N cset cmatch lex_g w K).
Notation Small := (Small N cset cmatch lex_g w K).
Notation CostOK := (CostOK N cset cmatch lex_g w K).

Definition g_dot : ebnf cset := Tok (mkcs false [(46,46)%N]).
Definition g_sgn : ebnf cset := Alt Eps (Alt (Tok (mkcs false [(43,43)%N])) (Tok (mkcs false [(45,45)%N]))).
Definition g_e : ebnf cset := Alt (Tok (mkcs false [(101,101)%N])) (Tok (mkcs false [(69,69)%N])).
Definition g_X : ebnf cset := Alt Eps (Seq g_dot (Ref 8)).
Definition g_Y : ebnf cset := Alt Eps (Seq g_e (Seq g_sgn (Ref 8))).

Lemma lex_g_8 : lex_g 8 = Seq (Tok csD) (Star (Tok csD)).
Proof. reflexivity. Qed.
Lemma lex_g_9 : lex_g 9 = Seq (Ref 8) (Seq g_X g_Y).
Proof. reflexivity. Qed.
Lemma lex_g_10 : lex_g 10 = Alt (Ref 9) (Ref 8).
Proof. reflexivity. Qed.

Ltac cs_side := first [ apply cs_sub_sound; vm_compute; reflexivity
                      | apply cs_disj_sound'; vm_compute; reflexivity
                      | apply cs_disj_sound; vm_compute; reflexivity ].
Ltac within :=
  repeat first [ apply Within_eps | apply Within_tok; cs_side | apply Within_alt | apply Within_seq
               | apply Within_star | apply Within_ref; cbv beta iota delta [lex_g] ].

(* results stay within the alphabets *)
Lemma W_digits P : cs_sub csD P = true -> Within (cmatch P) (Ref 8).
Proof.
  intros H. apply Within_ref. rewrite lex_g_8.
  apply Within_seq; [|apply Within_star]; apply Within_tok; apply cs_sub_sound; exact H.
Qed.

Lemma Cnt_digits : Cnt (cmatch csA) (Ref 8) 1 1.
Proof.
  apply Cnt_ref. rewrite lex_g_8.
  apply (Cnt_seq_small N cset cmatch lex_g w K (cmatch csA) (Tok csD) (Star (Tok csD)) 1 1 1 1).
  - apply Small_tok.
  - within.
  - apply Cnt_star. within.
Qed.

Lemma Cnt_X : Cnt (cmatch csA) g_X 2 1.
Proof.
  unfold g_X. apply (Cnt_alt N cset cmatch lex_g w K (cmatch csA) Eps (Seq g_dot (Ref 8)) 1 0 1 1).
  - apply Cnt_eps.
  - apply (Cnt_seq_small N cset cmatch lex_g w K (cmatch csA) g_dot (Ref 8) 1 1 1 1).
    + apply Small_tok.
    + unfold g_dot. within.
    + apply Cnt_digits.
Qed.

Lemma Small_sgn : Small g_sgn 0 2.
Proof.
  unfold g_sgn. apply Small_alt; [apply (Small_weaken N cset cmatch lex_g w K Eps 0 1); [apply Small_eps|lia|lia]|].
  apply Small_alt; apply (Small_weaken N cset cmatch lex_g w K _ 1 1); try apply Small_tok; lia.
Qed.
Lemma Small_e : Small g_e 1 1.
Proof. unfold g_e. apply Small_alt; apply Small_tok. Qed.

Lemma Cnt_Y : Cnt (cmatch csA) g_Y 3 2.
Proof.
  unfold g_Y. apply (Cnt_alt N cset cmatch lex_g w K (cmatch csA) Eps (Seq g_e (Seq g_sgn (Ref 8))) 1 0 2 2).
  - apply Cnt_eps.
  - apply (Cnt_seq_small N cset cmatch lex_g w K (cmatch csA) g_e (Seq g_sgn (Ref 8)) 1 1 2 2).
    + apply Small_e.
    + unfold g_e. within.
    + apply (Cnt_seq_small N cset cmatch lex_g w K (cmatch csA) g_sgn (Ref 8) 0 2 1 1).
      * apply Small_sgn.
      * unfold g_sgn. within.
      * apply Cnt_digits.
Qed.

(* at a digit or a dot the exponent part answers once, without reading *)
Lemma EpsAt_Y : EpsAt (cmatch csX) g_Y 1.
Proof.
  unfold g_Y. apply (EpsAt_alt N cset cmatch lex_g w K (cmatch csX) Eps _ 1 0); [apply EpsAt_eps|].
  apply EpsAt_seq0. unfold g_e.
  apply (EpsAt_alt N cset cmatch lex_g w K (cmatch csX) _ _ 0 0); apply EpsAt_tok; cs_side.
Qed.
Lemma EpsAt_Y_digit : EpsAt (cmatch csD) g_Y 1.
Proof.
  unfold g_Y. apply (EpsAt_alt N cset cmatch lex_g w K (cmatch csD) Eps _ 1 0); [apply EpsAt_eps|].
  apply EpsAt_seq0. unfold g_e.
  apply (EpsAt_alt N cset cmatch lex_g w K (cmatch csD) _ _ 0 0); apply EpsAt_tok; cs_side.
Qed.
Lemma EpsAt_X_digit : EpsAt (cmatch csD) g_X 1.
Proof.
  unfold g_X. apply (EpsAt_alt N cset cmatch lex_g w K (cmatch csD) Eps _ 1 0); [apply EpsAt_eps|].
  apply EpsAt_seq0. unfold g_dot. apply EpsAt_tok; cs_side.
Qed.

Lemma Cnt_XY : Cnt (cmatch csA) (Seq g_X g_Y) 3 2.
Proof.
  apply (Cnt_seq_disj N cset cmatch lex_g w K (cmatch csA) (cmatch csX) g_X g_Y 1 3 2).
  - unfold g_X, g_dot. within.
  - unfold g_X, g_dot. within.
  - apply EpsAt_Y.
  - apply Cnt_Y.
Qed.

Lemma Cnt_real : Cnt (cmatch csA) (Ref 9) 3 2.
Proof.
  apply Cnt_ref. rewrite lex_g_9.
  apply (Cnt_seq_disj N cset cmatch lex_g w K (cmatch csA) (cmatch csD) (Ref 8) (Seq g_X g_Y) 1 3 2).
  - apply W_digits. vm_compute. reflexivity.
  - apply W_digits. vm_compute. reflexivity.
  - apply (EpsAt_seq N cset cmatch lex_g w K (cmatch csD) g_X g_Y 1 1); [apply EpsAt_X_digit|apply EpsAt_Y_digit].
  - apply Cnt_XY.
Qed.

(* NUMBER : REAL | DIGIT+ *)
Lemma Cnt_number : Cnt (cmatch csA) (Ref 10) 4 3.
Proof.
  apply Cnt_ref. rewrite lex_g_10.
  apply (Cnt_alt N cset cmatch lex_g w K (cmatch csA) (Ref 9) (Ref 8) 3 2 1 1); [apply Cnt_real|apply Cnt_digits].
Qed.

(* the test on Star bodies: a single character set, or a character outside [0-9.eE+-] followed by NUMBER *)
Definition okb (a:ebnf cset) : bool :=
  match a with
  | Tok _ => true
  | Seq (Tok t) (Ref 10) => cs_disj t csA
  | _ => false
  end.

Hypothesis HK : 4 * length w + 2 <= K.

Lemma okb_sound a : okb a = true -> forall f, CostOK f a.
Proof.
  intros H. destruct a as [t|r| |a b|a b|a]; try discriminate H.
  - apply CostOK_tok. lia.
  - destruct a as [t| | | | |]; try discriminate H. destruct b as [|r| | | |]; try discriminate H.
    do 11 (destruct r as [|r]; try discriminate H). cbn [okb] in H.
    apply (CostOK_seqtok N cset cmatch lex_g w K (cmatch csA) t (Ref 10) 4 3).
    + apply cs_disj_sound. exact H.
    + apply Cnt_number.
    + cbn [Nat.max]. lia.
Qed.

(* every token rule passes the check with recursion fuel 64 *)
Lemma rules_good : forallb (fun r => good cset lex_g okb 64 (Ref (rid r))) lex_rules = true.
Proof. vm_compute. reflexivity. Qed.

Theorem lends_some r i : In r lex_rules -> lends lex_g w K 64 (rid r) i <> None.
Proof.
  intros Hr. pose proof rules_good as G. rewrite forallb_forall in G. specialize (G r Hr).
  unfold lends. apply ends_some. apply (good_Good N cset cmatch lex_g w K okb okb_sound). exact G.
Qed.
End Concrete.

(* ================================================================================================ *)
(* PART 4 -- the lexer answers                                                                       *)
(* ================================================================================================ *)
Section Total.
Variable w : list N.
Variable K : nat.
Hypothesis HK : 4 * length w + 2 <= K.

Notation LM := (M N cset cmatch lex_g w).

(* every rule answers, so [pick] does *)
Lemma pick_total_gen i : forall rs p, (forall r, In r rs -> In r lex_rules) -> pick lex_g w K 64 rs p i <> None.
Proof.
  induction rs as [|r rs IH]; intros p Hin; cbn [pick]; [discriminate|].
  destruct (lends lex_g w K 64 (rid r) i) as [L|] eqn:E.
  - destruct (pick lex_g w K 64 rs (S p) i) as [rest|] eqn:Er; [discriminate|].
    exfalso. apply (IH (S p)); [|exact Er]. intros r0 H0. apply Hin. right. exact H0.
  - exfalso. apply (lends_some w K HK r i); [apply Hin; left; reflexivity|exact E].
Qed.

Theorem pick_total i : pick lex_g w K 64 lex_rules 0 i <> None.
Proof. apply pick_total_gen. auto. Qed.

(* the last rule, ANY, matches every single character *)
Lemma any_matches i : i < length w -> LM (Ref 64) i (S i).
Proof.
  intros Hi. destruct (nth_error w i) as [x|] eqn:E; [|apply nth_error_None in E; lia].
  apply MRef. change (lex_g 64) with (Tok (mkcs true [])). apply (MTok _ _ _ _ _ _ i x E). reflexivity.
Qed.

(* inside the word some rule matches a non-empty segment, which ends inside the word *)
Theorem pick_progress i : i < length w ->
  exists p j, pick lex_g w K 64 lex_rules 0 i = Some (Some (p, j)) /\ i < j /\ j <= length w.
Proof.
  intros Hi. destruct (pick lex_g w K 64 lex_rules 0 i) as [res|] eqn:E; [|exfalso; exact (pick_total i E)].
  pose proof (pick_spec lex_g lex_rules w K 64 lex_rules 0 i res (fun q r Hq => Hq) E) as Sp.
  destruct res as [[p j]|].
  - destruct Sp as (_ & (r & _ & Hlt & HM) & _). exists p, j. split; [reflexivity|]. split; [exact Hlt|].
    apply M_bound in HM; lia.
  - exfalso. apply (Sp 60 (64, 61, false) (S i)); [reflexivity|lia|]. apply any_matches. exact Hi.
Qed.

Theorem lexfrom_some : forall fuel i, i <= length w -> length w < fuel + i ->
  lexfrom lex_g lex_rules w K 64 fuel i <> None.
Proof.
  induction fuel as [|fuel IH]; intros i Hi Hf; [lia|].
  cbn [lexfrom]. destruct (Nat.leb (length w) i) eqn:E; [discriminate|]. apply Nat.leb_gt in E.
  destruct (pick_progress i E) as (p & j & -> & Hlt & Hle).
  destruct (lexfrom lex_g lex_rules w K 64 fuel j) as [ts|] eqn:El; [discriminate|].
  exfalso. apply (IH j); [exact Hle|lia|exact El].
Qed.

Theorem lex_raw_some : lex_raw lex_g lex_rules w K 64 <> None.
Proof. unfold lex_raw. apply lexfrom_some; lia. Qed.

Theorem lex_some : lex lex_g lex_rules w K 64 <> None.
Proof.
  unfold lex. destruct (lex_raw lex_g lex_rules w K 64) as [ts|] eqn:E; [discriminate|]. exfalso. exact (lex_raw_some E).
Qed.
End Total.

(* with the fuels of Loader.front *)
Theorem lex_total w : lex lex_g lex_rules w (8 * length w + 64) 64 <> None.
Proof. apply lex_some. lia. Qed.

Corollary front_not_unspec w : front lex_g lex_rules w <> Unspec.
Proof.
  unfold front. destruct (lex lex_g lex_rules w (8 * length w + 64) 64) as [ts|] eqn:E; [|exfalso; exact (lex_total w E)].
  destruct (pscript (4 * length ts + 16) ts); discriminate.
Qed.

(* the fuels are not tight: closure fuel 4|w| + 2 suffices *)
Corollary lex_total_fuel w K : 4 * length w + 2 <= K -> lex lex_g lex_rules w K 64 <> None.
Proof. apply lex_some. Qed.

Print Assumptions ends_le.
Print Assumptions closure_some.
Print Assumptions ends_some.
Print Assumptions good_Good.
Print Assumptions Cnt_seq_small.
Print Assumptions Cnt_seq_disj.
Print Assumptions CostOK_tok.
Print Assumptions CostOK_seqtok.
Print Assumptions Cnt_number.
Print Assumptions lends_some.
Print Assumptions pick_total.
Print Assumptions pick_progress.
Print Assumptions lexfrom_some.
Print Assumptions lex_total.
Print Assumptions front_not_unspec.
Print Assumptions lex_total_fuel.
