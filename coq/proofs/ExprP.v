(* The expression parser of the model (Parser.pexpr / Parser.ploop, the precedence-climbing loop that mirrors
   ANTLR's generated expression(_p)) reads every token string as THE unique stratified tree.

     pexpr_yield     what the parser consumed spells the tree it returns
     pexpr_strat     the tree it returns is stratified (WF), has level >= p, and the parser stopped only where it had to
     pexpr_complete  every stratified tree spelled by a token string is found by the parser
     strat_unique    two stratified trees spelled by the same token string are equal

   Lifted from design_appendix/Prec.v to the real token records and the real [expr]. *)
From Coq Require Import List Arith Bool Lia NArith.
Import ListNotations.
From BB Require Import Lexer Syntax Parser.

(* ------------------------------------------------------------------------------------------------ *)
(* 1. Spelling: [Spell e ts] -- the token list ts spells the tree e                                  *)
(* ------------------------------------------------------------------------------------------------ *)
Definition tk_of_numkind (k:numkind) : tk :=
  match k with NKInt => TINT | NKFloat => TFLOAT | NKComplex => TCOMPLEX | NKPi => TPI end.

Inductive Spell : expr -> list token -> Prop :=
| SpNum t k : tkk t = tk_of_numkind k -> Spell (ENum k (ttext t)) [t]
| SpVar t : tkk t = TNAME -> Spell (EVar (ttext t) (tline t) (tcol t)) [t]
| SpReg t : tkk t = TREGREF -> Spell (EReg (ttext t)) [t]
| SpIdx t o c e ts : tkk t = TNAME -> tkk o = TLSQBRAC -> tkk c = TRSQBRAC -> Spell e ts ->
    Spell (EIdx (ttext t) (tline t) (tcol t) e) (t :: o :: ts ++ [c])
| SpPar o t c : tkk o = TLBRACE -> tkk t = TNAME -> tkk c = TRBRACE -> Spell (EPar (ttext t)) [o; t; c]
| SpBr o c e ts : tkk o = TLBRAC -> tkk c = TRBRAC -> Spell e ts -> Spell (EBr e) (o :: ts ++ [c])
| SpSign t (neg:bool) e ts : tkk t = (if neg then TMINUS else TPLUS) -> Spell e ts -> Spell (ESign neg e) (t :: ts)
| SpPow t a b ta tb : tkk t = TPWR -> Spell a ta -> Spell b tb -> Spell (EPow a b) (ta ++ t :: tb)
| SpMul t (dv:bool) a b ta tb : tkk t = (if dv then TDIVIDE else TTIMES) -> Spell a ta -> Spell b tb ->
    Spell (EMul dv a b) (ta ++ t :: tb)
| SpAdd t (sub:bool) a b ta tb : tkk t = (if sub then TMINUS else TPLUS) -> Spell a ta -> Spell b tb ->
    Spell (EAdd sub a b) (ta ++ t :: tb)
| SpFun t o c fu e ts : fn_of_tk (tkk t) = Some fu -> tkk o = TLBRAC -> tkk c = TRBRAC -> Spell e ts ->
    Spell (EFun fu e) (t :: o :: ts ++ [c]).

(* the constructors in their literal, one-token-kind-each form *)
Lemma SpInt t : tkk t = TINT -> Spell (ENum NKInt (ttext t)) [t].         Proof. intros; now apply SpNum. Qed.
Lemma SpFloat t : tkk t = TFLOAT -> Spell (ENum NKFloat (ttext t)) [t].   Proof. intros; now apply SpNum. Qed.
Lemma SpComplex t : tkk t = TCOMPLEX -> Spell (ENum NKComplex (ttext t)) [t]. Proof. intros; now apply SpNum. Qed.
Lemma SpPi t : tkk t = TPI -> Spell (ENum NKPi (ttext t)) [t].            Proof. intros; now apply SpNum. Qed.
Lemma SpPos t e ts : tkk t = TPLUS -> Spell e ts -> Spell (ESign false e) (t :: ts).  Proof. intros; now apply SpSign. Qed.
Lemma SpNeg t e ts : tkk t = TMINUS -> Spell e ts -> Spell (ESign true e) (t :: ts).  Proof. intros; now apply SpSign. Qed.
Lemma SpTimes t a b ta tb : tkk t = TTIMES -> Spell a ta -> Spell b tb -> Spell (EMul false a b) (ta ++ t :: tb).
Proof. intros; now apply SpMul. Qed.
Lemma SpDivide t a b ta tb : tkk t = TDIVIDE -> Spell a ta -> Spell b tb -> Spell (EMul true a b) (ta ++ t :: tb).
Proof. intros; now apply SpMul. Qed.
Lemma SpPlus t a b ta tb : tkk t = TPLUS -> Spell a ta -> Spell b tb -> Spell (EAdd false a b) (ta ++ t :: tb).
Proof. intros; now apply SpAdd. Qed.
Lemma SpMinus t a b ta tb : tkk t = TMINUS -> Spell a ta -> Spell b tb -> Spell (EAdd true a b) (ta ++ t :: tb).
Proof. intros; now apply SpAdd. Qed.

(* ------------------------------------------------------------------------------------------------ *)
(* 2. Stratified trees                                                                               *)
(* ------------------------------------------------------------------------------------------------ *)
Definition level (e:expr) : nat :=
  match e with EAdd _ _ _ => 6 | EMul _ _ _ => 7 | EPow _ _ => 8 | ESign _ _ => 9 | _ => 10 end.
(* level at which the right-most operand of e was parsed *)
Definition rl (e:expr) : nat :=
  match e with EAdd _ _ _ => 7 | EMul _ _ _ => 8 | EPow _ _ => 8 | ESign _ _ => 9 | _ => 10 end.

Inductive WF : expr -> Prop :=
| WNum k s : WF (ENum k s)
| WVar n l c : WF (EVar n l c)
| WReg s : WF (EReg s)
| WIdx n l c e : WF e -> WF (EIdx n l c e)
| WPar n : WF (EPar n)
| WBr e : WF e -> WF (EBr e)
| WSign s e : WF e -> 9 <= level e -> WF (ESign s e)
| WPow a b : WF a -> WF b -> 9 <= level a -> 8 <= level b -> WF (EPow a b)
| WMul d a b : WF a -> WF b -> 7 <= level a -> 8 <= level b -> WF (EMul d a b)
| WAdd s a b : WF a -> WF b -> 6 <= level a -> 7 <= level b -> WF (EAdd s a b)
| WFun f e : WF e -> WF (EFun f e).

(* precedence of a binary-operator token kind *)
Definition bprec (k:tk) : option nat :=
  match k with TPWR => Some 8 | TTIMES | TDIVIDE => Some 7 | TPLUS | TMINUS => Some 6 | _ => None end.
(* r does not start with a binary operator of precedence >= p *)
Definition nostart (p:nat) (r:list token) : Prop :=
  match r with t :: _ => match bprec (tkk t) with Some q => q < p | None => True end | [] => True end.
(* r does not start with '[' : after a NAME the parser commits to the index form on seeing '[' *)
Definition nolsq (r:list token) : Prop :=
  match r with t :: _ => tkk t <> TLSQBRAC | [] => True end.
Definition stops (p:nat) (r:list token) : Prop := nostart p r /\ nolsq r.

(* level required of the left operand of an operator of precedence q *)
Definition lreq (q:nat) : nat := match q with 8 => 9 | _ => q end.
Definition inv (e:expr) (r:list token) : Prop :=
  match r with t :: _ => match bprec (tkk t) with Some q => lreq q <= level e | None => True end | [] => True end.

(* ------------------------------------------------------------------------------------------------ *)
(* Views of the two parser functions: one case per *class* of token instead of one per token kind    *)
(* ------------------------------------------------------------------------------------------------ *)
Lemma isk_true k t : isk k t = true <-> tkk t = k.
Proof. unfold isk. split; [apply internal_tk_dec_bl|apply internal_tk_dec_lb]. Qed.
Lemma isk_false k t : isk k t = false <-> tkk t <> k.
Proof.
  split; intros H.
  - intros E. apply isk_true in E. congruence.
  - destruct (isk k t) eqn:E; auto. apply isk_true in E. contradiction.
Qed.

Inductive bop := BPow | BMul (d:bool) | BAdd (s:bool).
Definition bop_of_tk (k:tk) : option bop :=
  match k with
  | TPWR => Some BPow | TTIMES => Some (BMul false) | TDIVIDE => Some (BMul true)
  | TPLUS => Some (BAdd false) | TMINUS => Some (BAdd true) | _ => None
  end.
Definition prec (o:bop) : nat := match o with BPow => 8 | BMul _ => 7 | BAdd _ => 6 end.
Definition rprec (o:bop) : nat := match o with BPow => 8 | BMul _ => 8 | BAdd _ => 7 end.
Definition mkbin (o:bop) (a b:expr) : expr :=
  match o with BPow => EPow a b | BMul d => EMul d a b | BAdd s => EAdd s a b end.

Lemma bprec_bop k : bprec k = option_map prec (bop_of_tk k).
Proof. destruct k; reflexivity. Qed.

Lemma ploop_nil f p e : ploop (S f) p e [] = Some (e, []).
Proof. reflexivity. Qed.
Lemma ploop_S f p e t r : ploop (S f) p e (t :: r) =
  match bop_of_tk (tkk t) with
  | Some o => if p <=? prec o
              then match pexpr f (rprec o) r with Some (b, r') => ploop f p (mkbin o e b) r' | None => None end
              else Some (e, t :: r)
  | None => Some (e, t :: r)
  end.
Proof. cbn [ploop]. destruct (tkk t); reflexivity. Qed.

Inductive hd := HNum (k:numkind) | HReg | HName | HBrace | HBrac | HSign (neg:bool) | HFun (fu:fn) | HBad.
Definition hd_of (k:tk) : hd :=
  match k with
  | TINT => HNum NKInt | TFLOAT => HNum NKFloat | TCOMPLEX => HNum NKComplex | TPI => HNum NKPi
  | TREGREF => HReg | TNAME => HName | TLBRACE => HBrace | TLBRAC => HBrac
  | TPLUS => HSign false | TMINUS => HSign true
  | k => match fn_of_tk k with Some fu => HFun fu | None => HBad end
  end.

Lemma pexpr_nil f p : pexpr (S f) p [] = None.
Proof. reflexivity. Qed.
Lemma pexpr_S f p t r : pexpr (S f) p (t :: r) =
  match hd_of (tkk t) with
  | HNum k => ploop f p (ENum k (ttext t)) r
  | HReg => ploop f p (EReg (ttext t)) r
  | HName =>
      match r with
      | o :: r1 =>
          if isk TLSQBRAC o then
            match pexpr f 0 r1 with
            | Some (e, c :: r2) => if isk TRSQBRAC c then ploop f p (EIdx (ttext t) (tline t) (tcol t) e) r2 else None
            | _ => None
            end
          else ploop f p (EVar (ttext t) (tline t) (tcol t)) r
      | [] => ploop f p (EVar (ttext t) (tline t) (tcol t)) r
      end
  | HBrace =>
      match r with
      | n :: c :: r' => if (isk TNAME n && isk TRBRACE c)%bool then ploop f p (EPar (ttext n)) r' else None
      | _ => None
      end
  | HBrac =>
      match pexpr f 0 r with
      | Some (e, c :: r') => if isk TRBRAC c then ploop f p (EBr e) r' else None
      | _ => None
      end
  | HSign neg => match pexpr f 9 r with Some (e, r') => ploop f p (ESign neg e) r' | None => None end
  | HFun fu =>
      match r with
      | o :: r1 =>
          if isk TLBRAC o then
            match pexpr f 0 r1 with
            | Some (e, c :: r2) => if isk TRBRAC c then ploop f p (EFun fu e) r2 else None
            | _ => None
            end
          else None
      | [] => None
      end
  | HBad => None
  end.
Proof. cbn [pexpr]. destruct (tkk t); reflexivity. Qed.

(* what the class says about the token kind, and conversely *)
Lemma hd_spec k :
  match hd_of k with
  | HNum nk => k = tk_of_numkind nk
  | HReg => k = TREGREF
  | HName => k = TNAME
  | HBrace => k = TLBRACE
  | HBrac => k = TLBRAC
  | HSign neg => k = if neg : bool then TMINUS else TPLUS
  | HFun fu => fn_of_tk k = Some fu
  | HBad => True
  end.
Proof. destruct k; reflexivity. Qed.

Lemma hd_num nk : hd_of (tk_of_numkind nk) = HNum nk.
Proof. destruct nk; reflexivity. Qed.
Lemma hd_sign (neg:bool) : hd_of (if neg then TMINUS else TPLUS) = HSign neg.
Proof. destruct neg; reflexivity. Qed.
Lemma hd_fun k fu : fn_of_tk k = Some fu -> hd_of k = HFun fu.
Proof. destruct k; simpl; intros H; try discriminate; inversion H; reflexivity. Qed.

Lemma bop_pow : bop_of_tk TPWR = Some BPow. Proof. reflexivity. Qed.
Lemma bop_mul (d:bool) : bop_of_tk (if d then TDIVIDE else TTIMES) = Some (BMul d). Proof. destruct d; reflexivity. Qed.
Lemma bop_add (s:bool) : bop_of_tk (if s then TMINUS else TPLUS) = Some (BAdd s). Proof. destruct s; reflexivity. Qed.

Lemma bop_spec k o : bop_of_tk k = Some o ->
  k = match o with BPow => TPWR | BMul d => if d then TDIVIDE else TTIMES | BAdd s => if s then TMINUS else TPLUS end.
Proof. destruct k; simpl; intros H; try discriminate; inversion H; reflexivity. Qed.

Lemma Spell_bin o t a b ta tb : bop_of_tk (tkk t) = Some o -> Spell a ta -> Spell b tb ->
  Spell (mkbin o a b) (ta ++ t :: tb).
Proof.
  intros H Sa Sb. apply bop_spec in H. destruct o; simpl.
  - now apply SpPow.
  - now apply SpMul.
  - now apply SpAdd.
Qed.

Lemma level_mkbin o a b : level (mkbin o a b) = prec o. Proof. destruct o; reflexivity. Qed.
Lemma rl_mkbin o a b : rl (mkbin o a b) = rprec o. Proof. destruct o; reflexivity. Qed.
Lemma WF_mkbin o a b : WF a -> WF b -> lreq (prec o) <= level a -> rprec o <= level b -> WF (mkbin o a b).
Proof. intros Wa Wb La Lb. destruct o; simpl in *; constructor; auto. Qed.

(* ------------------------------------------------------------------------------------------------ *)
(* 3a. yield                                                                                         *)
(* ------------------------------------------------------------------------------------------------ *)
Lemma yield_mut : forall f,
  (forall p ts e r, pexpr f p ts = Some (e, r) -> exists pre, ts = pre ++ r /\ Spell e pre) /\
  (forall p e0 ts e r pre0, Spell e0 pre0 -> ploop f p e0 ts = Some (e, r) ->
        exists pre, pre0 ++ ts = pre ++ r /\ Spell e pre).
Proof.
  induction f as [|f [IHe IHl]]; split; intros; try discriminate.
  - destruct ts as [|t r0]; [discriminate|]. rewrite pexpr_S in H.
    pose proof (hd_spec (tkk t)) as Hk. destruct (hd_of (tkk t)) as [nk| | | | |neg|fu|]; try discriminate.
    + (* number *) apply (IHl _ _ _ _ _ [t]) in H; [exact H|now apply SpNum].
    + (* REGREF *) apply (IHl _ _ _ _ _ [t]) in H; [exact H|now apply SpReg].
    + (* NAME *)
      assert (V : ploop f p (EVar (ttext t) (tline t) (tcol t)) r0 = Some (e, r) -> exists pre, t :: r0 = pre ++ r /\ Spell e pre).
      { intros H1. apply (IHl _ _ _ _ _ [t]) in H1; [exact H1|now apply SpVar]. }
      destruct r0 as [|o r1]; [auto|]. destruct (isk TLSQBRAC o) eqn:Ho; [|auto]. apply isk_true in Ho.
      destruct (pexpr f 0 r1) as [[e1 [|c r2]]|] eqn:E; try discriminate.
      destruct (isk TRSQBRAC c) eqn:Hc; [|discriminate]. apply isk_true in Hc.
      apply IHe in E. destruct E as (pre1 & -> & S1).
      apply (IHl _ _ _ _ _ (t :: o :: pre1 ++ [c])) in H; [|now apply SpIdx].
      destruct H as (pre & Hp & Sp). exists pre. split; [|exact Sp]. rewrite <- Hp. cbn [app]. now rewrite <- app_assoc.
    + (* { NAME } *)
      destruct r0 as [|n [|c r1]]; try discriminate.
      destruct (isk TNAME n) eqn:Hn; [|discriminate]. destruct (isk TRBRACE c) eqn:Hc; [|discriminate].
      apply isk_true in Hn. apply isk_true in Hc. cbn [andb] in H.
      apply (IHl _ _ _ _ _ [t; n; c]) in H; [exact H|now apply SpPar].
    + (* ( e ) *)
      destruct (pexpr f 0 r0) as [[e1 [|c r2]]|] eqn:E; try discriminate.
      destruct (isk TRBRAC c) eqn:Hc; [|discriminate]. apply isk_true in Hc.
      apply IHe in E. destruct E as (pre1 & -> & S1).
      apply (IHl _ _ _ _ _ (t :: pre1 ++ [c])) in H; [|now apply SpBr].
      destruct H as (pre & Hp & Sp). exists pre. split; [|exact Sp]. rewrite <- Hp. cbn [app]. now rewrite <- app_assoc.
    + (* sign *)
      destruct (pexpr f 9 r0) as [[e1 r1]|] eqn:E; [|discriminate].
      apply IHe in E. destruct E as (pre1 & -> & S1).
      apply (IHl _ _ _ _ _ (t :: pre1)) in H; [|now apply SpSign].
      destruct H as (pre & Hp & Sp). exists pre. split; [|exact Sp]. rewrite <- Hp. reflexivity.
    + (* f ( e ) *)
      destruct r0 as [|o r1]; [discriminate|]. destruct (isk TLBRAC o) eqn:Ho; [|discriminate]. apply isk_true in Ho.
      destruct (pexpr f 0 r1) as [[e1 [|c r2]]|] eqn:E; try discriminate.
      destruct (isk TRBRAC c) eqn:Hc; [|discriminate]. apply isk_true in Hc.
      apply IHe in E. destruct E as (pre1 & -> & S1).
      apply (IHl _ _ _ _ _ (t :: o :: pre1 ++ [c])) in H; [|now apply SpFun].
      destruct H as (pre & Hp & Sp). exists pre. split; [|exact Sp]. rewrite <- Hp. cbn [app]. now rewrite <- app_assoc.
  - destruct ts as [|t r0].
    { rewrite ploop_nil in H0. inversion H0; subst. exists pre0. auto. }
    rewrite ploop_S in H0. destruct (bop_of_tk (tkk t)) as [o|] eqn:Ho.
    2:{ inversion H0; subst. exists pre0. auto. }
    destruct (p <=? prec o).
    2:{ inversion H0; subst. exists pre0. auto. }
    destruct (pexpr f (rprec o) r0) as [[b r1]|] eqn:E; [|discriminate].
    apply IHe in E. destruct E as (pre1 & -> & S1).
    apply (IHl _ _ _ _ _ (pre0 ++ t :: pre1)) in H0; [|now apply Spell_bin].
    destruct H0 as (pre & Hp & Sp). exists pre. split; [|exact Sp]. rewrite <- Hp. rewrite <- app_assoc. reflexivity.
Qed.

Theorem pexpr_yield f p ts e r : pexpr f p ts = Some (e, r) -> exists pre, ts = pre ++ r /\ Spell e pre.
Proof. apply yield_mut. Qed.

(* ------------------------------------------------------------------------------------------------ *)
(* 3b. the result is a stratified tree, and the parser stops only where it must                      *)
(* ------------------------------------------------------------------------------------------------ *)
Lemma inv_hi e r : 9 <= level e -> inv e r.
Proof.
  intros H. unfold inv. destruct r as [|t r]; auto. rewrite bprec_bop.
  destruct (bop_of_tk (tkk t)) as [[| |]|]; simpl; auto; lia.
Qed.

Lemma strat_mut : forall f,
  (forall p ts e r, p <= 9 -> pexpr f p ts = Some (e, r) -> WF e /\ p <= level e /\ nostart p r) /\
  (forall p e0 ts e r, p <= 9 -> WF e0 -> p <= level e0 -> inv e0 ts -> ploop f p e0 ts = Some (e, r) ->
        WF e /\ p <= level e /\ nostart p r).
Proof.
  induction f as [|f [IHe IHl]]; split; intros; try discriminate.
  - destruct ts as [|t r0]; [discriminate|]. rewrite pexpr_S in H0.
    assert (A : forall e0 r1, WF e0 -> 10 <= level e0 -> ploop f p e0 r1 = Some (e, r) ->
                              WF e /\ p <= level e /\ nostart p r).
    { intros e0 r1 W L Hl. apply (IHl p e0 r1 e r H W); [lia|apply inv_hi; lia|exact Hl]. }
    destruct (hd_of (tkk t)) as [nk| | | | |neg|fu|]; try discriminate.
    + eapply A; [| |exact H0]; [constructor|simpl; lia].
    + eapply A; [| |exact H0]; [constructor|simpl; lia].
    + destruct r0 as [|o r1].
      { eapply A; [| |exact H0]; [constructor|simpl; lia]. }
      destruct (isk TLSQBRAC o).
      2:{ eapply A; [| |exact H0]; [constructor|simpl; lia]. }
      destruct (pexpr f 0 r1) as [[e1 [|c r2]]|] eqn:E; try discriminate.
      destruct (isk TRSQBRAC c); [|discriminate].
      apply IHe in E; [|lia]. destruct E as (W1 & _ & _).
      eapply A; [| |exact H0]; [constructor; auto|simpl; lia].
    + destruct r0 as [|n [|c r1]]; try discriminate.
      destruct (isk TNAME n && isk TRBRACE c)%bool; [|discriminate].
      eapply A; [| |exact H0]; [constructor|simpl; lia].
    + destruct (pexpr f 0 r0) as [[e1 [|c r2]]|] eqn:E; try discriminate.
      destruct (isk TRBRAC c); [|discriminate].
      apply IHe in E; [|lia]. destruct E as (W1 & _ & _).
      eapply A; [| |exact H0]; [constructor; auto|simpl; lia].
    + destruct (pexpr f 9 r0) as [[e1 r1]|] eqn:E; [|discriminate].
      apply IHe in E; [|lia]. destruct E as (W1 & L1 & _).
      apply (IHl p (ESign neg e1) r1 e r H); [constructor; auto|simpl; lia|apply inv_hi; simpl; lia|exact H0].
    + destruct r0 as [|o r1]; [discriminate|]. destruct (isk TLBRAC o); [|discriminate].
      destruct (pexpr f 0 r1) as [[e1 [|c r2]]|] eqn:E; try discriminate.
      destruct (isk TRBRAC c); [|discriminate].
      apply IHe in E; [|lia]. destruct E as (W1 & _ & _).
      eapply A; [| |exact H0]; [constructor; auto|simpl; lia].
  - destruct ts as [|t r0].
    { rewrite ploop_nil in H3. inversion H3; subst. repeat split; auto. }
    rewrite ploop_S in H3. unfold inv in H2. rewrite bprec_bop in H2.
    destruct (bop_of_tk (tkk t)) as [o|] eqn:Ho; cbn [option_map] in H2.
    2:{ inversion H3; subst. repeat split; auto. unfold nostart. rewrite bprec_bop, Ho. exact I. }
    destruct (p <=? prec o) eqn:P.
    + apply Nat.leb_le in P. destruct (pexpr f (rprec o) r0) as [[b r1]|] eqn:E; [|discriminate].
      apply IHe in E; [|destruct o; simpl; lia]. destruct E as (Wb & Lb & Nb).
      eapply IHl; [exact H| | | |exact H3].
      * apply WF_mkbin; auto.
      * rewrite level_mkbin. exact P.
      * unfold inv. unfold nostart in Nb. destruct r1 as [|t1 r1]; auto. rewrite bprec_bop in *.
        destruct (bop_of_tk (tkk t1)) as [o1|]; cbn [option_map] in *; auto.
        rewrite level_mkbin. destruct o, o1; simpl in *; lia.
    + apply Nat.leb_gt in P. inversion H3; subst. repeat split; auto.
      unfold nostart. rewrite bprec_bop, Ho. exact P.
Qed.

Theorem pexpr_strat f p ts e r : p <= 9 -> pexpr f p ts = Some (e, r) -> WF e /\ p <= level e /\ nostart p r.
Proof. intros Hp H. destruct (strat_mut f) as [A _]. eapply A; eauto. Qed.

(* ------------------------------------------------------------------------------------------------ *)
(* 3c. completeness: the parser inverts [Spell] on stratified trees                                  *)
(* ------------------------------------------------------------------------------------------------ *)
Lemma mono_mut : forall f,
  (forall p ts x, pexpr f p ts = Some x -> pexpr (S f) p ts = Some x) /\
  (forall p e ts x, ploop f p e ts = Some x -> ploop (S f) p e ts = Some x).
Proof.
  induction f as [|f [IHe IHl]]; split; intros; try discriminate.
  - destruct ts as [|t r0]; [discriminate|]. rewrite pexpr_S in H. rewrite pexpr_S.
    destruct (hd_of (tkk t)) as [nk| | | | |neg|fu|]; try discriminate.
    + now apply IHl.
    + now apply IHl.
    + destruct r0 as [|o r1]; [now apply IHl|]. destruct (isk TLSQBRAC o); [|now apply IHl].
      destruct (pexpr f 0 r1) as [[e1 [|c r2]]|] eqn:E; try discriminate. rewrite (IHe _ _ _ E).
      destruct (isk TRSQBRAC c); [|discriminate]. now apply IHl.
    + destruct r0 as [|n [|c r1]]; try discriminate.
      destruct (isk TNAME n && isk TRBRACE c)%bool; [|discriminate]. now apply IHl.
    + destruct (pexpr f 0 r0) as [[e1 [|c r2]]|] eqn:E; try discriminate. rewrite (IHe _ _ _ E).
      destruct (isk TRBRAC c); [|discriminate]. now apply IHl.
    + destruct (pexpr f 9 r0) as [[e1 r1]|] eqn:E; [|discriminate]. rewrite (IHe _ _ _ E). now apply IHl.
    + destruct r0 as [|o r1]; [discriminate|]. destruct (isk TLBRAC o); [|discriminate].
      destruct (pexpr f 0 r1) as [[e1 [|c r2]]|] eqn:E; try discriminate. rewrite (IHe _ _ _ E).
      destruct (isk TRBRAC c); [|discriminate]. now apply IHl.
  - destruct ts as [|t r0]; [rewrite ploop_nil in *; exact H|].
    rewrite ploop_S in H. rewrite ploop_S.
    destruct (bop_of_tk (tkk t)) as [o|]; [|exact H]. destruct (p <=? prec o); [|exact H].
    destruct (pexpr f (rprec o) r0) as [[b r1]|] eqn:E; [|discriminate]. rewrite (IHe _ _ _ E). now apply IHl.
Qed.

Lemma pexpr_mono f f' p ts x : f <= f' -> pexpr f p ts = Some x -> pexpr f' p ts = Some x.
Proof. induction 1; auto. intros. apply mono_mut. auto. Qed.
Lemma ploop_mono f f' p e ts x : f <= f' -> ploop f p e ts = Some x -> ploop f' p e ts = Some x.
Proof. induction 1; auto. intros. apply mono_mut. auto. Qed.

Lemma nostart_weaken p q r : p <= q -> nostart p r -> nostart q r.
Proof. unfold nostart. destruct r as [|t r]; auto. destruct (bprec (tkk t)); auto. lia. Qed.
Lemma stops_weaken p q r : p <= q -> stops p r -> stops q r.
Proof. intros H [A B]. split; auto. eapply nostart_weaken; eauto. Qed.
Lemma nostart9 r : nostart 9 r.
Proof. unfold nostart. destruct r as [|t r]; auto. rewrite bprec_bop. destruct (bop_of_tk (tkk t)) as [[| |]|]; simpl; auto; lia. Qed.
Lemma level_le_rl e : level e <= rl e. Proof. destruct e; simpl; lia. Qed.

(* the tokens that follow a sub-tree inside a well-spelled tree -- closers and binary operators -- stop it *)
Lemma stops_closer p c r : tkk c = TRBRAC \/ tkk c = TRSQBRAC -> stops p (c :: r).
Proof. intros [H|H]; split; unfold nostart, nolsq; rewrite H; simpl; auto; discriminate. Qed.
Lemma stops_bop p t o r : bop_of_tk (tkk t) = Some o -> prec o < p -> stops p (t :: r).
Proof.
  intros H L. split; unfold nostart, nolsq.
  - rewrite bprec_bop, H. exact L.
  - intros E. rewrite E in H. discriminate.
Qed.

Lemma ploop_stop f p e r : nostart p r -> ploop (S f) p e r = Some (e, r).
Proof.
  destruct r as [|t r]; [reflexivity|]. rewrite ploop_S. unfold nostart. rewrite bprec_bop.
  destruct (bop_of_tk (tkk t)) as [o|]; cbn [option_map]; [|reflexivity].
  intros H. destruct (p <=? prec o) eqn:P; auto. apply Nat.leb_le in P. lia.
Qed.

Definition resumes (e:expr) (pre:list token) : Prop :=
  forall p r f res, p <= level e -> p <= 9 -> stops (rl e) r ->
    ploop f p e r = Some res -> exists f', pexpr f' p (pre ++ r) = Some res.

(* a bracketed inner expression: parse it at 0 up to the closer *)
Lemma resume_inner e ts c r : resumes e ts -> tkk c = TRBRAC \/ tkk c = TRSQBRAC ->
  exists f1, pexpr f1 0 (ts ++ c :: r) = Some (e, c :: r).
Proof.
  intros IH Hc. apply (IH 0 (c :: r) 1 (e, c :: r)); [lia|lia|now apply stops_closer|].
  apply ploop_stop. apply (stops_closer 0 c r Hc).
Qed.

Lemma resume_bin o t a b ta tb : bop_of_tk (tkk t) = Some o ->
  resumes a ta -> resumes b tb -> lreq (prec o) <= level a -> rprec o <= level b ->
  resumes (mkbin o a b) (ta ++ t :: tb).
Proof.
  intros Ho IHa IHb La Lb p r f res Hp H9 Hst Hl. rewrite level_mkbin in Hp. rewrite rl_mkbin in Hst.
  destruct (IHb (rprec o) r 1 (b, r)) as (f2 & E2);
    [exact Lb|destruct o; simpl; lia
    |apply stops_weaken with (rprec o); [pose proof (level_le_rl b); lia|exact Hst]
    |apply ploop_stop; apply Hst|].
  rewrite <- app_assoc. cbn [app].
  apply (IHa p (t :: tb ++ r) (S (max f2 f)) res).
  - destruct o; simpl in *; lia.
  - exact H9.
  - apply stops_bop with o; [exact Ho|]. destruct o, a; simpl in *; lia.
  - rewrite ploop_S, Ho. assert (P : (p <=? prec o) = true) by (apply Nat.leb_le; lia). rewrite P.
    rewrite (pexpr_mono f2 _ _ _ _ (Nat.le_max_l _ _) E2). eapply ploop_mono; [apply Nat.le_max_r|exact Hl].
Qed.

(* key lemma: having read the tokens of e, the parser is in its loop with accumulated tree e *)
Lemma resume : forall e pre, Spell e pre -> WF e -> resumes e pre.
Proof.
  induction 1; intros W; inversion W; subst.
  - (* number *) intros p r f res Hp H9 Hst Hl. exists (S f). cbn [app]. rewrite pexpr_S, H, hd_num. exact Hl.
  - (* variable *) intros p r f res Hp H9 Hst Hl. exists (S f). cbn [app]. rewrite pexpr_S, H. cbn [hd_of].
    destruct r as [|o r1]; [exact Hl|]. destruct Hst as [_ Hq]. apply (isk_false TLSQBRAC) in Hq. rewrite Hq. exact Hl.
  - (* REGREF *) intros p r f res Hp H9 Hst Hl. exists (S f). cbn [app]. rewrite pexpr_S, H. exact Hl.
  - (* NAME [ e ] *) intros p r f res Hp H9 Hst Hl.
    destruct (resume_inner e ts c r) as (f1 & E1); [apply IHSpell; assumption|now right|].
    exists (S (max f1 f)). cbn [app]. rewrite <- app_assoc. cbn [app]. rewrite pexpr_S, H. cbn [hd_of].
    apply isk_true in H0. apply isk_true in H1. rewrite H0.
    rewrite (pexpr_mono f1 _ _ _ _ (Nat.le_max_l _ _) E1). rewrite H1.
    eapply ploop_mono; [apply Nat.le_max_r|exact Hl].
  - (* { NAME } *) intros p r f res Hp H9 Hst Hl. exists (S f). cbn [app]. rewrite pexpr_S, H. cbn [hd_of].
    apply isk_true in H0. apply isk_true in H1. rewrite H0, H1. exact Hl.
  - (* ( e ) *) intros p r f res Hp H9 Hst Hl.
    destruct (resume_inner e ts c r) as (f1 & E1); [apply IHSpell; assumption|now left|].
    exists (S (max f1 f)). cbn [app]. rewrite <- app_assoc. cbn [app]. rewrite pexpr_S, H. cbn [hd_of].
    apply isk_true in H0.
    rewrite (pexpr_mono f1 _ _ _ _ (Nat.le_max_l _ _) E1). rewrite H0.
    eapply ploop_mono; [apply Nat.le_max_r|exact Hl].
  - (* sign *) intros p r f res Hp H9 Hst Hl. cbn [rl] in Hst.
    assert (R : resumes e ts) by (apply IHSpell; assumption).
    destruct (R 9 r 1 (e, r)) as (f1 & E1);
      [assumption|lia|apply stops_weaken with 9; [pose proof (level_le_rl e); lia|exact Hst]
      |apply ploop_stop; apply nostart9|].
    exists (S (max f1 f)). cbn [app]. rewrite pexpr_S, H, hd_sign.
    rewrite (pexpr_mono f1 _ _ _ _ (Nat.le_max_l _ _) E1). eapply ploop_mono; [apply Nat.le_max_r|exact Hl].
  - (* ** *) apply (resume_bin BPow); auto. now rewrite H.
  - (* * / *) apply (resume_bin (BMul dv)); auto. rewrite H. apply bop_mul.
  - (* + - *) apply (resume_bin (BAdd sub)); auto. rewrite H. apply bop_add.
  - (* f ( e ) *) intros p r f res Hp H9 Hst Hl.
    destruct (resume_inner e ts c r) as (f1 & E1); [apply IHSpell; assumption|now left|].
    exists (S (max f1 f)). cbn [app]. rewrite <- app_assoc. cbn [app]. rewrite pexpr_S, (hd_fun _ _ H).
    apply isk_true in H0. apply isk_true in H1. rewrite H0.
    rewrite (pexpr_mono f1 _ _ _ _ (Nat.le_max_l _ _) E1). rewrite H1.
    eapply ploop_mono; [apply Nat.le_max_r|exact Hl].
Qed.

Theorem pexpr_complete e pre p r : WF e -> Spell e pre -> p <= level e -> p <= 9 -> stops p r ->
  exists f, pexpr f p (pre ++ r) = Some (e, r).
Proof.
  intros W S Hp H9 Hn. apply (resume e pre S W p r 1 (e, r)); auto.
  - apply stops_weaken with p; auto. pose proof (level_le_rl e). lia.
  - apply ploop_stop. apply Hn.
Qed.

(* uniqueness of the stratified reading follows *)
Corollary strat_unique e1 e2 ts : WF e1 -> WF e2 -> Spell e1 ts -> Spell e2 ts -> e1 = e2.
Proof.
  intros W1 W2 S1 S2.
  destruct (pexpr_complete e1 ts 0 [] W1 S1) as (f1 & P1); [lia|lia|split; exact I|].
  destruct (pexpr_complete e2 ts 0 [] W2 S2) as (f2 & P2); [lia|lia|split; exact I|].
  apply (pexpr_mono _ (max f1 f2)) in P1; [|apply Nat.le_max_l].
  apply (pexpr_mono _ (max f1 f2)) in P2; [|apply Nat.le_max_r]. congruence.
Qed.

(* the whole-string reading: a token string is read by the parser (to the end) as e iff e is its stratified tree *)
Corollary pexpr_reads e ts : (exists f, pexpr f 0 ts = Some (e, [])) <-> WF e /\ Spell e ts.
Proof.
  split.
  - intros (f & H). split.
    + apply (pexpr_strat f 0 ts e []); [lia|exact H].
    + apply pexpr_yield in H. destruct H as (pre & -> & S). now rewrite app_nil_r.
  - intros (W & S). destruct (pexpr_complete e ts 0 [] W S) as (f & P); [lia|lia|split; exact I|].
    exists f. now rewrite app_nil_r in P.
Qed.

(* ------------------------------------------------------------------------------------------------ *)
(* Examples (token type numbers: PLUS=1 MINUS=2 TIMES=3 DIVIDE=4 PWR=5 INT=9 LBRAC=43 RBRAC=44 NAME=58) *)
(* ------------------------------------------------------------------------------------------------ *)
Section Examples.
Local Open Scope N_scope.
Let tPLUS  := mktok 1 [43] 1 0 0 1.
Let tMINUS := mktok 2 [45] 1 0 0 1.
Let tTIMES := mktok 3 [42] 1 0 0 1.
Let tPWR   := mktok 5 [42; 42] 1 0 0 2.
Let tI (d:N) := mktok 9 [48 + d] 1 0 0 1.
Let tLB    := mktok 43 [40] 1 0 0 1.
Let tRB    := mktok 44 [41] 1 0 0 1.
Let tLSQ   := mktok 45 [91] 1 0 0 1.
Let tRSQ   := mktok 46 [93] 1 0 0 1.
Let tX     := mktok 58 [120] 1 0 0 1.
Let n (d:N) := ENum NKInt [48 + d].

(* - 2 ** 2  is  (-2) ** 2 : the prefix sign binds tighter than ** (as in the ANTLR grammar) *)
Example ex_sign_pow : pexpr 20 0 [tMINUS; tI 2; tPWR; tI 2] = Some (EPow (ESign true (n 2)) (n 2), []).
Proof. vm_compute. reflexivity. Qed.
(* 2 ** 3 ** 2  is  2 ** (3 ** 2) *)
Example ex_pow_right : pexpr 20 0 [tI 2; tPWR; tI 3; tPWR; tI 2] = Some (EPow (n 2) (EPow (n 3) (n 2)), []).
Proof. vm_compute. reflexivity. Qed.
(* 1 - 2 - 3  is  (1 - 2) - 3 *)
Example ex_sub_left : pexpr 20 0 [tI 1; tMINUS; tI 2; tMINUS; tI 3] = Some (EAdd true (EAdd true (n 1) (n 2)) (n 3), []).
Proof. vm_compute. reflexivity. Qed.
(* 1 + 2 * 3  is  1 + (2 * 3) *)
Example ex_add_mul : pexpr 20 0 [tI 1; tPLUS; tI 2; tTIMES; tI 3] = Some (EAdd false (n 1) (EMul false (n 2) (n 3)), []).
Proof. vm_compute. reflexivity. Qed.
(* ( 1 + 2 ) * x [ 3 ] *)
Example ex_br_idx : pexpr 20 0 [tLB; tI 1; tPLUS; tI 2; tRB; tTIMES; tX; tLSQ; tI 3; tRSQ]
  = Some (EMul false (EBr (EAdd false (n 1) (n 2))) (EIdx [120] 1 0 (n 3)), []).
Proof. vm_compute. reflexivity. Qed.
(* the side condition of completeness is necessary: the tree "x" followed by "[" is not what the parser returns *)
Example ex_lsq_needed : forall f, pexpr f 0 ([tX] ++ [tLSQ]) <> Some (EVar [120] 1 0, [tLSQ]).
Proof. intros [|[|f]]; vm_compute; discriminate. Qed.
End Examples.

Print Assumptions pexpr_yield.
Print Assumptions pexpr_strat.
Print Assumptions pexpr_complete.
Print Assumptions strat_unique.
