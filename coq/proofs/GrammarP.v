(* Obligations that tie the hand-written parts of the model to the grammar regenerated from blackbird.g4:
   token table, left-recursion elimination for `expression`, and the side conditions of the viable-prefix oracle. *)
From Coq Require Import List Arith Bool String Lia.
Import ListNotations.
From BB Require Import Ebnf Chars Lexer Syntax G4Data EbnfP LrecP Viable ViableP.

(* the token kinds of Syntax.v are the token types of the grammar file, in the same numbering *)
Lemma tk_table_ok : map (fun p => tk_name (tk_of_nat (fst p))) token_names = map snd token_names.
Proof. vm_compute. reflexivity. Qed.
Lemma tk_table_total : List.length token_names = 61.
Proof. vm_compute. reflexivity. Qed.

(* the loop form run by the recogniser derives exactly the words of the left-recursive rule as written *)
Lemma pg_other : forall r, r <> lrec_rule -> pg_lr r = pg r.
Proof.
  intros r Hr. unfold lrec_rule in Hr.
  do 31 (destruct r as [|r]; [reflexivity|]). destruct r as [|r]; [exfalso; apply Hr; reflexivity|]. reflexivity.
Qed.

Theorem pg_lr_equiv : forall (w:list nat) e i j,
  M nat nat Nat.eqb pg_lr w e i j <-> M nat nat Nat.eqb pg w e i j.
Proof.
  intros w. apply (lrec_elim nat nat Nat.eqb w lrec_rule pg_lr pg lrec_prim lrec_pre lrec_bin).
  - reflexivity.
  - reflexivity.
  - exact pg_other.
Qed.

(* the recogniser decides membership in the language of the grammar AS WRITTEN (left-recursive expression rule) *)
Theorem recognise_correct_lr : forall (toks:list nat) (K F:nat) b,
  recognise nat nat Nat.eqb pg toks K F (Ref start_rule) = Some b ->
  (b = true <-> M nat nat Nat.eqb pg_lr toks (Ref start_rule) 0 (List.length toks)).
Proof.
  intros toks K F b H. rewrite pg_lr_equiv. eapply recognise_correct; eauto.
Qed.

(* ---- side conditions of the viable-prefix oracle ---- *)
Lemma pg_term : forall t:nat, exists x, Nat.eqb t x = true.
Proof. intros t. exists t. apply Nat.eqb_refl. Qed.

(* one derivable word per rule (checked with the proved recogniser) *)
Definition prod_witness (r:nat) : list nat :=
  match r with
  | 0 => [19;58;16;20;10;0] | 1 => [19;58;16;20;10] | 2 => [19;58] | 3 => [58] | 4 => [20;10] | 5 => [10]
  | 6 => [21;58] | 7 => [58] | 8 => [22;58] | 9 => [58] | 10 => [23;12] | 11 => [] | 12 => [53;58;6;9]
  | 13 => [53;50;58;6;16] | 14 => [58] | 15 => [56] | 16 => [19] | 17 => [53] | 18 => [12] | 19 => [9]
  | 20 => [] | 21 => [9] | 22 => [58;49;9] | 23 => [58] | 24 => [57] | 25 => [7;53;58;8;9;16;17;58;49;9]
  | 26 => [43;44] | 27 => [58;6;9] | 28 => [9] | 29 => [9] | 30 => [9;41;9] | 31 => [9] | 32 => [47;58;48]
  | 33 => [9] | 34 => [25]
  | _ => []
  end.

Definition prod_check : bool :=
  forallb (fun r => match recognise nat nat Nat.eqb pg (prod_witness r) 400 400 (pg r) with Some true => true | _ => false end)
          (seq 0 parser_rule_count).

Lemma prod_check_ok : prod_check = true.
Proof. vm_compute. reflexivity. Qed.

Lemma pg_prod : forall r, exists w', M nat nat Nat.eqb pg w' (pg r) 0 (List.length w').
Proof.
  intros r. destruct (Nat.lt_ge_cases r parser_rule_count) as [Hlt|Hge].
  - exists (prod_witness r).
    pose proof prod_check_ok as H. unfold prod_check in H. rewrite forallb_forall in H.
    specialize (H r). assert (Hin : In r (seq 0 parser_rule_count)) by (apply in_seq; lia). specialize (H Hin).
    destruct (recognise nat nat Nat.eqb pg (prod_witness r) 400 400 (pg r)) as [[|]|] eqn:E; try discriminate.
    apply (recognise_correct nat nat Nat.eqb pg (prod_witness r) 400 400 (pg r) true E). reflexivity.
  - exists []. unfold parser_rule_count in Hge.
    do 35 (destruct r as [|r]; [lia|]). simpl. apply MAltL. apply MEps.
Qed.

(* the viable-prefix decision for the concrete grammar: w is a prefix of a sentence (EOF excluded) iff ... *)
Theorem viable_prefix_pg : forall (w:list nat) (K F:nat) e b,
  viable nat nat Nat.eqb pg w K F e = Some b ->
  (b = true <-> exists rest, M nat nat Nat.eqb pg (w ++ rest) e 0 (List.length (w ++ rest))).
Proof.
  intros w K F e b H. eapply viable_prefix_correct; eauto.
  - exact pg_term.
  - exact pg_prod.
Qed.
