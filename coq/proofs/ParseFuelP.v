(* AN EXPLICIT FUEL BOUND FOR THE MODEL PARSER: Loader.front never refuses a sentence for lack of parser fuel.

   Every recursive call of Parser.v that decrements the fuel is made on a strictly shorter token list (one token
   has been consumed, or the call descends into a bracketed segment), and the non-recursive functions pass their fuel
   on unchanged.  Hence a function that succeeds with SOME fuel F on ts succeeds, with the same result, with ANY
   fuel f >= length ts + k, where k is the number of non-consuming hand-overs above it:

     pexpr / ploop / pval / psep / parrayrow / pvallist / pkwarg / pshape / parrayval     length ts + 1 <= f
     pposargs / parguments / pbracketed / pstatement / pforbody / pforhdr / pfor / pdecl / pmetaline   length ts + 2 <= f
     pprogram                                                                             length ts + 3 <= f
     pincludes (total)                                                                    length ts < f, f' : same answer
     pscript  (at least five tokens are consumed before the first fuelled call)           length ts <= f + 2

   Main statements:
     pscript_need       pscript F ts = Some sc -> length ts <= f + 2 -> pscript f ts = Some sc
     pscript_fuel_min   D (Ref start_rule) (ts ++ [eoft]) -> length ts <= f + 2 -> exists sc, pscript f ts = Some sc
     pscript_fuel       D (Ref start_rule) (ts ++ [eoft]) -> exists sc, pscript (4 * length ts + 16) ts = Some sc
     pscript_fuel_iff   (exists sc, pscript (4 * length ts + 16) ts = Some sc) <-> D (Ref start_rule) (ts ++ [eoft])
     front_decides      with its own fuels the front end refuses a text (ESyntax) iff its token sequence is not a sentence
     front_total_decides  the same with the lexer's totality (LexTotalP.lex_total) built in
     fuel_tight_example a sentence of 31 tokens (a chain of 20 signs) that needs fuel 23: the slope 1 of the bound
                        cannot be improved (on this family the least fuel is length ts - 8).
   vm_compute experiments on adversarial families (nested brackets, sign chains, long argument / keyword / value lists,
   long programs, NEWLINE runs, for bodies, arrays, shapes, operator chains, nested calls and indexings, includes,
   metadata lines) found no sentence on which 4 * length ts + 16 is insufficient; the least sufficient fuel observed
   was always below length ts.  Every statement is fully proved (closed under the global context). *)
From Coq Require Import List Arith Bool Lia NArith.
Import ListNotations.
From BB Require Import Ebnf Chars Lexer Syntax Parser Values Loader G4Data EbnfP LrecP GrammarP ExprP ParserP
  CompleteP UnparseP RenderP LexTotalP.

Ltac ll := cbn [length] in *; lia.

(* ------------------------------------------------------------------------------------------------ *)
(* 0. What is left is not longer than what was given                                                 *)
(* ------------------------------------------------------------------------------------------------ *)
Definition Shr {A} (px : list token -> option (A * list token)) : Prop :=
  forall ts x r, px ts = Some (x, r) -> length r <= length ts.

Lemma Sound_Shr {A} (px : list token -> option (A * list token)) e : Sound px e -> Shr px.
Proof. intros S ts x r H. apply S in H. destruct H as (pre & -> & _). rewrite app_length. lia. Qed.

Lemma skip_nl_len ts : length (skip_nl ts) <= length ts.
Proof. destruct (skip_nl_sound ts) as (nls & E & _). rewrite E at 2. rewrite app_length. lia. Qed.

Lemma tl_len {A} (l:list A) : length (tl l) <= length l.
Proof. destruct l; cbn; lia. Qed.

(* ------------------------------------------------------------------------------------------------ *)
(* 1. Expressions                                                                                    *)
(* ------------------------------------------------------------------------------------------------ *)
Lemma need_mut : forall F,
  (forall p ts e r, pexpr F p ts = Some (e, r) ->
     length r < length ts /\ forall f, length ts + 1 <= f -> pexpr f p ts = Some (e, r)) /\
  (forall p e0 ts e r, ploop F p e0 ts = Some (e, r) ->
     length r <= length ts /\ forall f, length ts + 1 <= f -> ploop f p e0 ts = Some (e, r)).
Proof.
  induction F as [|F [IHe IHl]]; split; intros; try discriminate.
  - destruct ts as [|t r0]; [discriminate|]. rewrite pexpr_S in H.
    (* the common end: the loop runs on a strictly shorter rest r1 *)
    assert (A : forall e0 r1, ploop F p e0 r1 = Some (e, r) -> length r1 < length (t :: r0) ->
                length r < length (t :: r0) /\
                forall f, length (t :: r0) <= f -> ploop f p e0 r1 = Some (e, r)).
    { intros e0 r1 Hl L1. destruct (IHl _ _ _ _ _ Hl) as [L N]. split; [lia|]. intros f Hf. apply N. lia. }
    destruct (hd_of (tkk t)) as [nk| | | | |neg|fu|] eqn:Hh; try discriminate.
    + destruct (A _ _ H ltac:(ll)) as [L N]. split; [exact L|].
      intros [|f] Hf; [ll|]. rewrite pexpr_S, Hh. apply N. ll.
    + destruct (A _ _ H ltac:(ll)) as [L N]. split; [exact L|].
      intros [|f] Hf; [ll|]. rewrite pexpr_S, Hh. apply N. ll.
    + assert (V : ploop F p (EVar (ttext t) (tline t) (tcol t)) r0 = Some (e, r) ->
                  length r < length (t :: r0) /\
                  forall f, length (t :: r0) <= f -> ploop f p (EVar (ttext t) (tline t) (tcol t)) r0 = Some (e, r)).
      { intros V. apply (A _ _ V). ll. }
      destruct r0 as [|o r1].
      { destruct (V H) as [L N]. split; [exact L|]. intros [|f] Hf; [ll|]. rewrite pexpr_S, Hh. apply N. ll. }
      destruct (isk TLSQBRAC o) eqn:Ho.
      2:{ destruct (V H) as [L N]. split; [exact L|]. intros [|f] Hf; [ll|]. rewrite pexpr_S, Hh, Ho. apply N. ll. }
      destruct (pexpr F 0 r1) as [[e1 [|c r2]]|] eqn:E; try discriminate.
      destruct (isk TRSQBRAC c) eqn:Hc; [|discriminate].
      destruct (IHe _ _ _ _ E) as [L1 N1]. destruct (A _ _ H ltac:(ll)) as [L2 N2]. split; [exact L2|].
      intros [|f] Hf; [ll|]. rewrite pexpr_S, Hh, Ho, (N1 f) by ll. rewrite Hc. apply N2. ll.
    + destruct r0 as [|n [|c r1]]; try discriminate.
      destruct (isk TNAME n && isk TRBRACE c)%bool eqn:Hn; [|discriminate].
      destruct (A _ _ H ltac:(ll)) as [L N]. split; [exact L|].
      intros [|f] Hf; [ll|]. rewrite pexpr_S, Hh, Hn. apply N. ll.
    + destruct (pexpr F 0 r0) as [[e1 [|c r2]]|] eqn:E; try discriminate.
      destruct (isk TRBRAC c) eqn:Hc; [|discriminate].
      destruct (IHe _ _ _ _ E) as [L1 N1]. destruct (A _ _ H ltac:(ll)) as [L2 N2]. split; [exact L2|].
      intros [|f] Hf; [ll|]. rewrite pexpr_S, Hh, (N1 f) by ll. rewrite Hc. apply N2. ll.
    + destruct (pexpr F 9 r0) as [[e1 r1]|] eqn:E; [|discriminate].
      destruct (IHe _ _ _ _ E) as [L1 N1]. destruct (A _ _ H ltac:(ll)) as [L2 N2]. split; [exact L2|].
      intros [|f] Hf; [ll|]. rewrite pexpr_S, Hh, (N1 f) by ll. apply N2. ll.
    + destruct r0 as [|o r1]; [discriminate|]. destruct (isk TLBRAC o) eqn:Ho; [|discriminate].
      destruct (pexpr F 0 r1) as [[e1 [|c r2]]|] eqn:E; try discriminate.
      destruct (isk TRBRAC c) eqn:Hc; [|discriminate].
      destruct (IHe _ _ _ _ E) as [L1 N1]. destruct (A _ _ H ltac:(ll)) as [L2 N2]. split; [exact L2|].
      intros [|f] Hf; [ll|]. rewrite pexpr_S, Hh, Ho, (N1 f) by ll. rewrite Hc. apply N2. ll.
  - destruct ts as [|t r0].
    { rewrite ploop_nil in H. inversion H; subst. split; [lia|]. intros [|f] Hf; [ll|]. reflexivity. }
    rewrite ploop_S in H. destruct (bop_of_tk (tkk t)) as [o|] eqn:Ho.
    2:{ inversion H; subst. split; [lia|]. intros [|f] Hf; [ll|]. rewrite ploop_S, Ho. reflexivity. }
    destruct (p <=? prec o) eqn:P.
    2:{ inversion H; subst. split; [lia|]. intros [|f] Hf; [ll|]. rewrite ploop_S, Ho, P. reflexivity. }
    destruct (pexpr F (rprec o) r0) as [[b r1]|] eqn:E; [|discriminate].
    destruct (IHe _ _ _ _ E) as [L1 N1]. destruct (IHl _ _ _ _ _ H) as [L2 N2]. split; [ll|].
    intros [|f] Hf; [ll|]. rewrite ploop_S, Ho, P, (N1 f) by ll. apply N2. ll.
Qed.

Lemma pexpr_need F f p ts x : pexpr F p ts = Some x -> length ts + 1 <= f -> pexpr f p ts = Some x.
Proof. destruct x as [e r]. intros H. apply (need_mut F) in H. apply H. Qed.
Lemma pexpr_shr f p : Shr (pexpr f p).
Proof. intros ts e r H. apply (need_mut f) in H. lia. Qed.

(* ------------------------------------------------------------------------------------------------ *)
(* 2. Values, separated lists, keyword arguments, argument lists                                     *)
(* ------------------------------------------------------------------------------------------------ *)
Lemma pval_need F f ts x : pval F ts = Some x -> length ts + 1 <= f -> pval f ts = Some x.
Proof.
  intros H L. unfold pval in *. destruct ts as [|t r]; [discriminate|].
  destruct (tkk t); try exact H;
    (destruct (pexpr F 0 (t :: r)) as [[e r']|] eqn:E; [|discriminate H]; rewrite (pexpr_need _ _ _ _ _ E L); exact H).
Qed.
Lemma pval_shr f : Shr (pval f).
Proof. exact (Sound_Shr _ _ (pval_sound f)). Qed.

Lemma psep_need {A} (px px' : list token -> option (A * list token)) F : Shr px -> forall f ts x,
  (forall ts' y, length ts' <= length ts -> px ts' = Some y -> px' ts' = Some y) ->
  psep px F ts = Some x -> length ts + 1 <= f -> psep px' f ts = Some x.
Proof.
  intros Hl. induction F as [|F IH]; intros f ts x Hp H L; [discriminate|].
  destruct f as [|f]; [lia|]. cbn [psep] in *. destruct (px ts) as [[a r]|] eqn:E; [|discriminate].
  rewrite (Hp _ _ (le_n _) E). pose proof (Hl _ _ _ E) as Lr.
  destruct r as [|c r1]; [exact H|]. destruct (isk TCOMMA c); [|exact H].
  destruct (psep px F r1) as [[xs r2]|] eqn:E2; [|discriminate].
  rewrite (IH f r1 _ (fun ts' y L' => Hp ts' y ltac:(ll)) E2 ltac:(ll)). exact H.
Qed.

Lemma parrayrow_need F f ts x : parrayrow F ts = Some x -> length ts + 1 <= f -> parrayrow f ts = Some x.
Proof.
  intros H L. unfold parrayrow in *. apply (psep_need (pexpr F 0) (pexpr f 0) F (pexpr_shr F 0) f ts x); auto.
  intros ts' y L' H'. apply (pexpr_need F); [exact H'|lia].
Qed.
Lemma pvallist_need F f ts x : pvallist F ts = Some x -> length ts + 1 <= f -> pvallist f ts = Some x.
Proof.
  intros H L. unfold pvallist in *. apply (psep_need (pval F) (pval f) F (pval_shr F) f ts x); auto.
  intros ts' y L' H'. apply (pval_need F); [exact H'|lia].
Qed.
Lemma parrayrow_shr f : Shr (parrayrow f).
Proof. exact (Sound_Shr _ _ (parrayrow_sound f)). Qed.
Lemma pvallist_shr f : Shr (pvallist f).
Proof. exact (Sound_Shr _ _ (pvallist_sound f)). Qed.

Lemma pkwarg_need F f ts x : pkwarg F ts = Some x -> length ts + 1 <= f -> pkwarg f ts = Some x.
Proof.
  intros H L. unfold pkwarg in *. destruct ts as [|n [|a r]]; try discriminate.
  destruct (isk TNAME n && isk TASSIGN a)%bool; [|discriminate]. destruct r as [|o r1]; [discriminate|].
  destruct (isk TLSQBRAC o).
  - destruct r1 as [|c r2]; [discriminate|]. destruct (isk TRSQBRAC c); [exact H|].
    destruct (pvallist F (c :: r2)) as [[l r3]|] eqn:E; [|discriminate].
    rewrite (pvallist_need F f _ _ E ltac:(ll)). exact H.
  - destruct (pval F (o :: r1)) as [[v r']|] eqn:E; [|discriminate]. rewrite (pval_need F f _ _ E ltac:(ll)). exact H.
Qed.
Lemma pkwarg_shr f : Shr (pkwarg f).
Proof. exact (Sound_Shr _ _ (pkwarg_sound f)). Qed.

Lemma pposargs_shr f : Shr (pposargs f).
Proof.
  intros ts vs r H. apply pposargs_inv in H. destruct H as (a & b & -> & _). rewrite !app_length. lia.
Qed.

Lemma pposargs_need F : forall f ts x, pposargs F ts = Some x -> length ts + 2 <= f -> pposargs f ts = Some x.
Proof.
  induction F as [|F IH]; intros f ts x H L; [discriminate|].
  destruct f as [|f]; [lia|]. cbn [pposargs] in *.
  destruct (tk_beq (peek ts) TRBRAC || kwstart ts)%bool; [exact H|].
  destruct (pval F ts) as [[v r]|] eqn:E; [|discriminate]. rewrite (pval_need F f _ _ E ltac:(lia)).
  pose proof (pval_shr _ _ _ _ E) as Lr.
  destruct r as [|c r1]; [exact H|]. destruct (isk TCOMMA c); [|exact H].
  destruct (pposargs F r1) as [[vs r2]|] eqn:E2; [|discriminate]. rewrite (IH f r1 _ E2 ltac:(ll)). exact H.
Qed.

Lemma parguments_shr f : Shr (parguments f).
Proof. exact (Sound_Shr _ _ (parguments_sound f)). Qed.

Lemma parguments_need F f ts x : parguments F ts = Some x -> length ts + 2 <= f -> parguments f ts = Some x.
Proof.
  intros H L. unfold parguments in *. destruct ts as [|o r]; [discriminate|]. destruct (isk TLBRAC o); [|discriminate].
  cbv zeta in *.
  assert (K : forall vs r1, length r1 + 1 <= f ->
    (if kwstart r1 then
       match psep (pkwarg F) F r1 with
       | Some (kws, c :: r2) => if isk TRBRAC c then Some (mkargs vs kws, r2) else None
       | _ => None
       end
     else match r1 with c :: r2 => if isk TRBRAC c then Some (mkargs vs [], r2) else None | [] => None end) = Some x ->
    (if kwstart r1 then
       match psep (pkwarg f) f r1 with
       | Some (kws, c :: r2) => if isk TRBRAC c then Some (mkargs vs kws, r2) else None
       | _ => None
       end
     else match r1 with c :: r2 => if isk TRBRAC c then Some (mkargs vs [], r2) else None | [] => None end) = Some x).
  { intros vs r1 L1 H1. destruct (kwstart r1); [|exact H1].
    destruct (psep (pkwarg F) F r1) as [[kws r2]|] eqn:E; [|discriminate].
    assert (Hp : forall ts' y, length ts' <= length r1 -> pkwarg F ts' = Some y -> pkwarg f ts' = Some y).
    { intros ts' y L' H'. apply (pkwarg_need F); [exact H'|lia]. }
    rewrite (psep_need (pkwarg F) (pkwarg f) F (pkwarg_shr F) f r1 _ Hp E L1). exact H1. }
  destruct r as [|c r'].
  - destruct (pposargs F []) as [[vs r1]|] eqn:E; [|discriminate]. rewrite (pposargs_need F f _ _ E ltac:(ll)).
    pose proof (pposargs_shr _ _ _ _ E). apply (K vs r1); [ll|exact H].
  - destruct (isk TCOMMA c).
    + apply (K [] r'); [ll|exact H].
    + destruct (pposargs F (c :: r')) as [[vs r1]|] eqn:E; [|discriminate]. rewrite (pposargs_need F f _ _ E ltac:(ll)).
      pose proof (pposargs_shr _ _ _ _ E). apply (K vs r1); [ll|exact H].
Qed.

(* ------------------------------------------------------------------------------------------------ *)
(* 3. Optional brackets, statements, for loops                                                       *)
(* ------------------------------------------------------------------------------------------------ *)
Lemma pbracketed_need {A} (px px' : list token -> option (A * list token)) fol ts x :
  (forall ts' y, length ts' <= length ts -> px ts' = Some y -> px' ts' = Some y) ->
  (forall o r y, tkk o = TLBRAC -> px (o :: r) = Some y -> px r <> None) ->
  pbracketed px fol ts = Some x -> pbracketed px' fol ts = Some x.
Proof.
  intros Hp Hb H. unfold pbracketed in *. destruct ts as [|o r]; [discriminate|].
  assert (G : match px (o :: r) with Some (y, r1) => Some (y, drop_closer r1) | None => None end = Some x ->
              match px' (o :: r) with Some (y, r1) => Some (y, drop_closer r1) | None => None end = Some x).
  { destruct (px (o :: r)) as [[a r1]|] eqn:E; [|discriminate]. rewrite (Hp _ _ (le_n _) E). auto. }
  assert (Lr : length r <= length (o :: r)) by ll.
  destruct (tkk o) eqn:Ko; try (exact (G H)).
  - (* ( *) destruct (px r) as [[a r1]|] eqn:E1.
    + rewrite (Hp _ _ Lr E1). cbv zeta in *. destruct (fol (peek (drop_closer r1))); [exact H|exact (G H)].
    + exfalso. destruct (px (o :: r)) as [[b r2]|] eqn:E2; [|discriminate]. exact (Hb o r _ Ko E2 E1).
  - (* [ *) destruct (px r) as [[a r1]|] eqn:E1; [|discriminate]. rewrite (Hp _ _ Lr E1). exact H.
Qed.

Lemma pstatement_shr f ts s r : pstatement f ts = Some (s, r) -> length r < length ts.
Proof.
  intros H. apply pstatement_sound in H. destruct H as (pre & -> & Dp).
  specialize (Dp [] (DStar0 _)). rewrite app_nil_r in Dp. apply stmt_hd in Dp. destruct Dp as (t & u' & -> & _).
  rewrite app_length. ll.
Qed.

Lemma pstatement_need F f ts x : pstatement F ts = Some x -> length ts + 2 <= f -> pstatement f ts = Some x.
Proof.
  intros H L. unfold pstatement in *. destruct ts as [|n r]; [discriminate|].
  destruct (isk TNAME n || isk TMEASURE n)%bool; [|discriminate]. cbv zeta in *.
  assert (K : forall (a:option arguments) r0, length r0 + 2 <= f ->
     match r0 with
     | b :: r1 => if isk TAPPLY b then match pbracketed (parrayrow F) stmt_follow r1 with
                                       | Some (ms, r2) => Some (mkstmt (ttext n) a ms, r2) | None => None end else None
     | [] => None end = Some x ->
     match r0 with
     | b :: r1 => if isk TAPPLY b then match pbracketed (parrayrow f) stmt_follow r1 with
                                       | Some (ms, r2) => Some (mkstmt (ttext n) a ms, r2) | None => None end else None
     | [] => None end = Some x).
  { intros a [|b r1] L0 H1; [discriminate|]. destruct (isk TAPPLY b); [|discriminate].
    destruct (pbracketed (parrayrow F) stmt_follow r1) as [[ms r2]|] eqn:E; [|discriminate].
    assert (Hp : forall ts' y, length ts' <= length r1 -> parrayrow F ts' = Some y -> parrayrow f ts' = Some y).
    { intros ts' y L' H'. apply (parrayrow_need F); [exact H'|ll]. }
    rewrite (pbracketed_need (parrayrow F) (parrayrow f) stmt_follow r1 _ Hp (parrayrow_lbrac F) E). exact H1. }
  destruct (tk_beq (peek r) TLBRAC).
  - destruct (parguments F r) as [[a r1]|] eqn:E; [|discriminate]. rewrite (parguments_need F f _ _ E ltac:(ll)).
    pose proof (parguments_shr _ _ _ _ E). apply (K (Some a) r1); [ll|exact H].
  - apply (K None r); [ll|exact H].
Qed.

Lemma forbody_len (b:bool) ts tb r :
  (if b then (match ts with n :: r => if isk TNEWLINE n then r else ts | [] => ts end) else skip_nl ts) = tb :: r ->
  match ts with n :: _ => isk TNEWLINE n | [] => false end = true -> length r + 2 <= length ts.
Proof.
  destruct ts as [|n ts0]; [discriminate 2|]. intros E Hn. destruct b.
  - rewrite Hn in E. subst ts0. ll.
  - cbn [skip_nl] in E. rewrite Hn in E. pose proof (skip_nl_len ts0) as L. rewrite E in L. ll.
Qed.

Lemma pforbody_need F : forall f b ts x, pforbody F b ts = Some x -> length ts + 2 <= f -> pforbody f b ts = Some x.
Proof.
  induction F as [|F IH]; intros f b ts x H L; [discriminate|].
  destruct f as [|f]; [lia|]. rewrite pforbody_S in *. cbv zeta in *.
  match goal with |- match ?T with _ => _ end = _ => destruct T as [|tb r] eqn:ET; [exact H|] end.
  destruct (match ts with n :: _ => isk TNEWLINE n | [] => false end) eqn:Hn; cbn [andb] in *; [|exact H].
  destruct (isk TTAB tb); [|exact H].
  pose proof (forbody_len b ts tb r ET Hn) as Lr.
  destruct (pstatement F r) as [[s r1]|] eqn:E; [|discriminate]. rewrite (pstatement_need F f _ _ E ltac:(lia)).
  pose proof (pstatement_shr _ _ _ _ E) as L1.
  destruct (pforbody F false r1) as [[ss r2]|] eqn:E2; [|discriminate]. rewrite (IH f false r1 _ E2 ltac:(lia)). exact H.
Qed.

Lemma pforhdr_shr f : Shr (pforhdr f).
Proof. intros r h r1 H. apply pforhdr_sound in H. destruct H as (pre & -> & _). rewrite app_length. lia. Qed.

Lemma pforhdr_need F f r x : pforhdr F r = Some x -> length r + 2 <= f -> pforhdr f r = Some x.
Proof.
  intros H L. unfold pforhdr in *.
  assert (K : match pbracketed (pvallist F) nl_follow r with Some (l, r1') => Some (HList l, r1') | None => None end = Some x ->
              match pbracketed (pvallist f) nl_follow r with Some (l, r1') => Some (HList l, r1') | None => None end = Some x).
  { intros H1. destruct (pbracketed (pvallist F) nl_follow r) as [[l r1]|] eqn:E; [|discriminate].
    assert (Hp : forall ts' y, length ts' <= length r -> pvallist F ts' = Some y -> pvallist f ts' = Some y).
    { intros ts' y L' H'. apply (pvallist_need F); [exact H'|lia]. }
    rewrite (pbracketed_need (pvallist F) (pvallist f) nl_follow r _ Hp (pvallist_lbrac F) E). exact H1. }
  destruct r as [|a [|c1 [|b r1]]]; try (exact (K H)).
  destruct (isk TINT a && isk TCOLON c1)%bool; [exact H|exact (K H)].
Qed.

Lemma pfor_need F f ts x : pfor F ts = Some x -> length ts + 2 <= f -> pfor f ts = Some x.
Proof.
  intros H L. destruct ts as [|fo [|ty [|xx [|i r]]]]; try (cbv [pfor] in H; discriminate H).
  rewrite pfor_eq in *.
  destruct (isk TFOR fo && isk TNAME xx && isk TIN i)%bool; [|discriminate].
  destruct (vtype_of_tk (tkk ty)) as [vt|]; [|discriminate].
  destruct (pforhdr F r) as [[h r1]|] eqn:E; [|discriminate]. rewrite (pforhdr_need F f _ _ E ltac:(ll)).
  pose proof (pforhdr_shr _ _ _ _ E) as L1.
  destruct (pforbody F true r1) as [[body r2]|] eqn:E2; [|discriminate].
  rewrite (pforbody_need F f _ _ _ E2 ltac:(ll)). exact H.
Qed.

Lemma pfor_shr f ts it r : pfor f ts = Some (it, r) -> length r < length ts.
Proof.
  intros H. apply pfor_sound in H. destruct H as (pre & -> & Dp). apply for_hd in Dp.
  destruct Dp as (t & u' & -> & _). rewrite app_length. ll.
Qed.

(* ------------------------------------------------------------------------------------------------ *)
(* 4. Declarations                                                                                   *)
(* ------------------------------------------------------------------------------------------------ *)
Lemma pshape_shr f : Shr (pshape f).
Proof. exact (Sound_Shr _ _ (pshape_sound f)). Qed.

Lemma pshape_need F : forall f ts x, pshape F ts = Some x -> length ts + 1 <= f -> pshape f ts = Some x.
Proof.
  induction F as [|F IH]; intros f ts x H L; [discriminate|].
  destruct f as [|f]; [lia|]. cbn [pshape] in *. destruct ts as [|i r]; [discriminate|].
  destruct (isk TINT i); [|discriminate]. destruct r as [|c r1]; [exact H|]. destruct (isk TCOMMA c); [|exact H].
  destruct (pshape F r1) as [[l r2]|] eqn:E; [|discriminate]. rewrite (IH f r1 _ E ltac:(ll)). exact H.
Qed.

Lemma parrayval_need F : forall f ts x, parrayval F ts = Some x -> length ts + 1 <= f -> parrayval f ts = Some x.
Proof.
  induction F as [|F IH]; intros f ts x H L; [discriminate|].
  destruct f as [|f]; [lia|]. cbn [parrayval] in *. destruct ts as [|tb r]; [exact H|].
  destruct (isk TTAB tb); [|exact H].
  destruct (parrayrow F r) as [[row r0]|] eqn:E; [|discriminate]. rewrite (parrayrow_need F f _ _ E ltac:(ll)).
  pose proof (parrayrow_shr _ _ _ _ E) as L0.
  destruct r0 as [|n r1]; [discriminate|]. destruct (isk TNEWLINE n); [|discriminate].
  destruct (parrayval F r1) as [[rows r2]|] eqn:E2; [|discriminate]. rewrite (IH f r1 _ E2 ltac:(ll)). exact H.
Qed.

Lemma pdecl_shr f ts it r : pdecl f ts = Some (it, r) -> length r < length ts.
Proof.
  intros H. apply pdecl_sound in H. destruct H as (pre & -> & [Dp|Dp]).
  - apply scalar_hd in Dp. destruct Dp as (t & u' & vt & -> & _). rewrite app_length. ll.
  - apply array_hd in Dp. destruct Dp as (t & u' & vt & -> & _). rewrite app_length. ll.
Qed.

Lemma pdecl_need F f ts x : pdecl F ts = Some x -> length ts + 2 <= f -> pdecl f ts = Some x.
Proof.
  intros H L. unfold pdecl in *. destruct ts as [|ty r]; [discriminate|].
  destruct (vtype_of_tk (tkk ty)) as [vt|]; [|discriminate].
  destruct (tk_beq (peek r) TTYPE_ARRAY).
  - destruct r as [|t0 [|n r1]]; try discriminate. destruct (pdname n) as [dn|]; [|discriminate]. cbv zeta in *.
    assert (K : forall (sh:option (option (list str) * list token)),
      match sh with Some (_, l) => length l <= f | None => True end ->
      match sh with
      | Some (shp, a :: nl :: r3) =>
          if (isk TASSIGN a && isk TNEWLINE nl)%bool then
            if tk_beq (peek r3) TLBRACE then
              match r3 with
              | _ :: p :: c :: r4 =>
                  if (isk TNAME p && isk TRBRACE c)%bool
                  then Some (IArray vt dn shp (AParam (ttext p)) (tline ty) (tcol ty), r4) else None
              | _ => None
              end
            else match parrayval F r3 with
                 | Some (rows, r4) => Some (IArray vt dn shp (ARows rows) (tline ty) (tcol ty), r4)
                 | None => None
                 end
          else None
      | _ => None
      end = Some x ->
      match sh with
      | Some (shp, a :: nl :: r3) =>
          if (isk TASSIGN a && isk TNEWLINE nl)%bool then
            if tk_beq (peek r3) TLBRACE then
              match r3 with
              | _ :: p :: c :: r4 =>
                  if (isk TNAME p && isk TRBRACE c)%bool
                  then Some (IArray vt dn shp (AParam (ttext p)) (tline ty) (tcol ty), r4) else None
              | _ => None
              end
            else match parrayval f r3 with
                 | Some (rows, r4) => Some (IArray vt dn shp (ARows rows) (tline ty) (tcol ty), r4)
                 | None => None
                 end
          else None
      | _ => None
      end = Some x).
    { intros [[shp [|a [|nl r3]]]|] L1 H1; try discriminate.
      destruct (isk TASSIGN a && isk TNEWLINE nl)%bool; [|discriminate].
      destruct (tk_beq (peek r3) TLBRACE); [exact H1|].
      destruct (parrayval F r3) as [[rows r4]|] eqn:E; [|discriminate].
      rewrite (parrayval_need F f _ _ E ltac:(ll)). exact H1. }
    destruct (tk_beq (peek r1) TLSQBRAC); [|apply (K (Some (None, r1))); [ll|exact H]].
    pose proof (tl_len r1) as Lt.
    destruct (pshape F (tl r1)) as [[l [|c r2]]|] eqn:E; try discriminate. rewrite (pshape_need F f _ _ E ltac:(ll)).
    pose proof (pshape_shr _ _ _ _ E) as L2.
    destruct (isk TRSQBRAC c); [|discriminate]. apply (K (Some (Some l, r2))); [ll|exact H].
  - destruct r as [|n [|a r1]]; try discriminate. destruct (pdname n) as [dn|]; [|discriminate].
    destruct (isk TASSIGN a); [|discriminate].
    destruct (pval F r1) as [[v r2]|] eqn:E; [|discriminate]. rewrite (pval_need F f _ _ E ltac:(ll)). exact H.
Qed.

(* ------------------------------------------------------------------------------------------------ *)
(* 5. Program, metadata lines, includes, script                                                      *)
(* ------------------------------------------------------------------------------------------------ *)
Lemma pprogram_need F : forall f ts x, pprogram F ts = Some x -> length ts + 3 <= f -> pprogram f ts = Some x.
Proof.
  induction F as [|F IH]; intros f ts x H L; [discriminate|].
  destruct f as [|f]; [lia|]. destruct ts as [|t r]; [exact H|]. rewrite pprogram_S in *.
  assert (Lf : length (t :: r) + 2 <= f) by lia.
  assert (D : match pdecl F (t :: r) with
              | Some (it, r1) => match pprogram F r1 with Some l => Some (it :: l) | None => None end
              | None => None end = Some x ->
              match pdecl f (t :: r) with
              | Some (it, r1) => match pprogram f r1 with Some l => Some (it :: l) | None => None end
              | None => None end = Some x).
  { intros H1. destruct (pdecl F (t :: r)) as [[it r1]|] eqn:E; [|discriminate]. rewrite (pdecl_need F f _ _ E Lf).
    pose proof (pdecl_shr _ _ _ _ E) as L1.
    destruct (pprogram F r1) as [l|] eqn:E2; [|discriminate]. rewrite (IH f r1 _ E2 ltac:(lia)). exact H1. }
  assert (S0 : match pstatement F (t :: r) with
              | Some (s, r1) => match pprogram F r1 with Some l => Some (IStmt s :: l) | None => None end
              | None => None end = Some x ->
              match pstatement f (t :: r) with
              | Some (s, r1) => match pprogram f r1 with Some l => Some (IStmt s :: l) | None => None end
              | None => None end = Some x).
  { intros H1. destruct (pstatement F (t :: r)) as [[s r1]|] eqn:E; [|discriminate].
    rewrite (pstatement_need F f _ _ E Lf). pose proof (pstatement_shr _ _ _ _ E) as L1.
    destruct (pprogram F r1) as [l|] eqn:E2; [|discriminate]. rewrite (IH f r1 _ E2 ltac:(lia)). exact H1. }
  destruct (tkk t); try (exact (D H)); try (exact (S0 H)).
  - destruct (pfor F (t :: r)) as [[it r1]|] eqn:E; [|discriminate]. rewrite (pfor_need F f _ _ E Lf).
    pose proof (pfor_shr _ _ _ _ E) as L1.
    destruct (pprogram F r1) as [l|] eqn:E2; [|discriminate]. rewrite (IH f r1 _ E2 ltac:(lia)). exact H.
  - apply (IH f r _ H). ll.
Qed.

Lemma pmetaline_shr f kw dev ts m r : pmetaline f kw dev ts = Some (m, r) -> length r <= length ts.
Proof.
  intros H. apply pmetaline_inv in H. destruct H as [->|(n & nls & k & d & args & -> & _)]; [lia|].
  rewrite !app_length. cbn [length]. rewrite app_length. lia.
Qed.

Lemma pmetaline_need F f kw dev ts x : pmetaline F kw dev ts = Some x -> length ts + 2 <= f -> pmetaline f kw dev ts = Some x.
Proof.
  intros H L. unfold pmetaline in *. cbv zeta in *. destruct ts as [|n ts']; [exact H|].
  pose proof (skip_nl_len (n :: ts')) as Ls.
  destruct (skip_nl (n :: ts')) as [|k [|d r1]]; try exact H.
  destruct (isk TNEWLINE n && tk_beq (tkk k) kw)%bool; [|exact H]. destruct (dev (tkk d)); [|exact H].
  destruct (tk_beq (peek r1) TLBRAC); [|exact H].
  destruct (parguments F r1) as [[a r2]|] eqn:E; [|discriminate]. rewrite (parguments_need F f _ _ E ltac:(ll)). exact H.
Qed.

(* the include reader is total; with more fuel than tokens its answer does not depend on the fuel *)
Lemma pincludes_stable : forall f f' ts, length ts < f -> length ts < f' -> pincludes f ts = pincludes f' ts.
Proof.
  induction f as [|f IH]; intros f' ts L L'; [lia|]. destruct f' as [|f']; [lia|]. rewrite !pincludes_S.
  destruct ts as [|t r]; [reflexivity|]. destruct (tkk t); try reflexivity.
  - apply IH; ll.
  - destruct r as [|s r1]; [reflexivity|]. destruct (isk TSTR s); [|reflexivity].
    rewrite (IH f' r1) by ll. reflexivity.
Qed.

Lemma pscript_need_big F f ts sc : length ts < F -> pscript F ts = Some sc -> length ts <= f + 2 -> pscript f ts = Some sc.
Proof.
  intros LF H L. unfold pscript in *. pose proof (skip_nl_len ts) as L0.
  destruct (skip_nl ts) as [|pn [|n [|nl r]]]; try discriminate.
  destruct (isk TPROGNAME pn && isk TNAME n && isk TNEWLINE nl)%bool; [|discriminate].
  pose proof (skip_nl_len r) as L1.
  destruct (skip_nl r) as [|v [|num r1]]; try discriminate.
  destruct (isk TVERSION v && isk TFLOAT num)%bool; [|discriminate].
  destruct (pmetaline F TTARGET is_device r1) as [[tg r2]|] eqn:E1; [|discriminate].
  rewrite (pmetaline_need F f _ _ _ _ E1 ltac:(ll)). pose proof (pmetaline_shr _ _ _ _ _ _ E1) as L2.
  destruct (pmetaline F TPROGTYPE is_name r2) as [[ty r3]|] eqn:E2; [|discriminate].
  rewrite (pmetaline_need F f _ _ _ _ E2 ltac:(ll)). pose proof (pmetaline_shr _ _ _ _ _ _ E2) as L3.
  rewrite (pincludes_stable f F r3) by ll.
  destruct (pincludes F r3) as [incs r4] eqn:E3.
  assert (L4 : length r4 <= length r3).
  { apply pincludes_sound in E3. destruct E3 as (pre & -> & _). rewrite app_length. lia. }
  destruct (pprogram F r4) as [items|] eqn:E4; [|discriminate].
  rewrite (pprogram_need F f _ _ E4 ltac:(ll)). exact H.
Qed.

(* a script that parses with some fuel parses, with the same result, with any fuel >= length ts - 2 *)
Theorem pscript_need F f ts sc : pscript F ts = Some sc -> length ts <= f + 2 -> pscript f ts = Some sc.
Proof.
  intros H L. apply (pscript_need_big (max F (S (length ts))) f ts sc); [lia| |exact L].
  apply (pscript_mono F); [lia|exact H].
Qed.

(* ------------------------------------------------------------------------------------------------ *)
(* 6. The fuel of the front end is sufficient                                                        *)
(* ------------------------------------------------------------------------------------------------ *)
Theorem pscript_fuel_min ts f : D (Ref start_rule) (ts ++ [eoft]) -> length ts <= f + 2 -> exists sc, pscript f ts = Some sc.
Proof.
  intros H L. destruct (pscript_complete_D ts H) as (F & sc & E). exists sc. exact (pscript_need F f ts sc E L).
Qed.

Theorem pscript_fuel ts : D (Ref start_rule) (ts ++ [eoft]) -> exists sc, pscript (4 * length ts + 16) ts = Some sc.
Proof. intros H. apply pscript_fuel_min; [exact H|lia]. Qed.

Corollary pscript_fuel_iff ts :
  (exists sc, pscript (4 * length ts + 16) ts = Some sc) <-> D (Ref start_rule) (ts ++ [eoft]).
Proof. split; [intros (sc & H); exact (pscript_D _ _ _ H)|apply pscript_fuel]. Qed.

(* with its own fuels the front end refuses a text if and only if its token sequence is not a sentence of the grammar *)
Corollary front_decides w ts :
  lex lex_g lex_rules w (8 * length w + 64) 64 = Some ts ->
  (front lex_g lex_rules w = Refuse ESyntax <-> ~ D (Ref start_rule) (ts ++ [eoft]))
  /\ (forall sc, front lex_g lex_rules w = Ok sc -> D (Ref start_rule) (ts ++ [eoft])).
Proof.
  intros E. unfold front. rewrite E. split; [split|].
  - intros H Dn. destruct (pscript_fuel ts Dn) as (sc & P). rewrite P in H. discriminate.
  - intros N. destruct (pscript (4 * length ts + 16) ts) as [sc|] eqn:P; [|reflexivity].
    exfalso. apply N. exact (pscript_D _ _ _ P).
  - intros sc H. destruct (pscript (4 * length ts + 16) ts) as [sc'|] eqn:P; [|discriminate].
    exact (pscript_D _ _ _ P).
Qed.

(* the same with the totality of the lexer built in: every text has a token sequence, and the verdict of the front
   end on the text is the membership of that sequence in the language of the grammar *)
Corollary front_total_decides w : exists ts,
  lex lex_g lex_rules w (8 * length w + 64) 64 = Some ts /\
  (front lex_g lex_rules w = Refuse ESyntax <-> ~ D (Ref start_rule) (ts ++ [eoft])) /\
  ((exists sc, front lex_g lex_rules w = Ok sc) <-> D (Ref start_rule) (ts ++ [eoft])).
Proof.
  destruct (lex lex_g lex_rules w (8 * length w + 64) 64) as [ts|] eqn:E; [|exfalso; exact (lex_total w E)].
  exists ts. destruct (front_decides w ts E) as [A B]. split; [reflexivity|]. split; [exact A|]. split.
  - intros (sc & H). exact (B sc H).
  - intros Dn. destruct (pscript_fuel ts Dn) as (sc & P). exists sc. unfold front. rewrite E, P. reflexivity.
Qed.

(* ------------------------------------------------------------------------------------------------ *)
(* 7. The slope 1 cannot be improved:  name x NL version 1.0 NL float x = (20 times MINUS) 1 NL      *)
(*    has 31 tokens, is a sentence, parses with fuel 23 and not with fuel 22.                         *)
(* ------------------------------------------------------------------------------------------------ *)
Section Example.
Let mk (k:nat) : token := mktok k [] 1 0 0 0.
Let chain : list token := map mk ([19; 58; 16; 20; 10; 16; 51; 58; 6] ++ repeat 2 20 ++ [9; 16]).
Example fuel_tight_example :
  length chain = 31 /\ D (Ref start_rule) (chain ++ [eoft]) /\
  pscript 22 chain = None /\ exists sc, pscript 23 chain = Some sc.
Proof.
  assert (P : exists sc, pscript 23 chain = Some sc) by (vm_compute; eexists; reflexivity).
  split; [reflexivity|]. split; [destruct P as (sc & P); exact (pscript_D _ _ _ P)|].
  split; [vm_compute; reflexivity|exact P].
Qed.
End Example.

Print Assumptions pscript_need.
Print Assumptions pscript_fuel_min.
Print Assumptions pscript_fuel.
Print Assumptions pscript_fuel_iff.
Print Assumptions front_decides.
Print Assumptions front_total_decides.
Print Assumptions fuel_tight_example.
Check pscript_need.
Check pscript_fuel_min.
Check pscript_fuel.
Check front_decides.
Check front_total_decides.
