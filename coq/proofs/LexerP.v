From Coq Require Import List Arith NArith Bool Lia.
Import ListNotations.
From BB Require Import Ebnf Chars Lexer EbnfP.

Section P.
Variable lg : nat -> ebnf cset.
Variable rules : list (nat * nat * bool).
Variable w : list N.
Variable K F : nat.

Notation M := (M N cset cmatch lg w).
Notation lends := (lends lg w K F).
Notation pick := (pick lg w K F).
Notation lexfrom := (lexfrom lg rules w K F).

(* rule at list position p matches w[i..j) as a (non-empty) token *)
Definition IsTok (i p j : nat) : Prop :=
  exists r, nth_error rules p = Some r /\ i < j /\ M (Ref (rid r)) i j.

(* the declarative specification of one lexer step: longest match, earliest rule on ties *)
Definition LexStep (i p j : nat) : Prop :=
  IsTok i p j /\
  (forall p' j', IsTok i p' j' -> j' <= j) /\
  (forall p', p' < p -> ~ IsTok i p' j).

Inductive LexSpec : nat -> list (nat * nat * nat) -> Prop :=
| LSnil i : length w <= i -> LexSpec i []
| LScons i p j ts : i < length w -> LexStep i p j -> LexSpec j ts -> LexSpec i ((p, i, j) :: ts).

Lemma maxl_ge l x : In x l -> x <= maxl l.
Proof. induction l as [|y l IH]; simpl; intros []; subst; [lia|]. specialize (IH H). lia. Qed.
Lemma maxl_in l : l <> [] -> In (maxl l) l.
Proof.
  induction l as [|y l IH]; [congruence|]. intros _. simpl.
  destruct l as [|z l']. { left. simpl. lia. }
  destruct (Nat.max_spec y (maxl (z :: l'))) as [[_ E]|[_ E]]; rewrite E; [right; apply IH; discriminate|left; reflexivity].
Qed.
Lemma maxl_pos l : 0 < maxl l -> In (maxl l) l.
Proof. intros H. apply maxl_in. intros ->. simpl in H. lia. Qed.

(* pick over the suffix rs of the rule list that starts at list position p *)
Lemma pick_spec : forall rs p i res,
  (forall q r, nth_error rs q = Some r -> nth_error rules (p + q) = Some r) ->
  pick rs p i = Some res ->
  match res with
  | Some (p0, j) =>
      p <= p0 /\ IsTok i p0 j /\
      (forall q r j', nth_error rs q = Some r -> i < j' -> M (Ref (rid r)) i j' -> j' <= j) /\
      (forall q r, nth_error rs q = Some r -> p + q < p0 -> ~ M (Ref (rid r)) i j)
  | None => forall q r j', nth_error rs q = Some r -> i < j' -> ~ M (Ref (rid r)) i j'
  end.
Proof.
  induction rs as [|r rs IH]; intros p i res Hnth H; simpl in H.
  - inversion H; subst. intros q r j' Hq. destruct q; discriminate.
  - destruct (lends (rid r) i) as [L|] eqn:EL; [|discriminate].
    destruct (pick rs (S p) i) as [rest|] eqn:ER; [|discriminate].
    assert (Hnth' : forall q r0, nth_error rs q = Some r0 -> nth_error rules (S p + q) = Some r0).
    { intros q r0 Hq. replace (S p + q) with (p + S q) by lia. apply Hnth. exact Hq. }
    specialize (IH (S p) i rest Hnth' ER).
    assert (Hr : nth_error rules p = Some r). { replace p with (p + 0) by lia. apply Hnth. reflexivity. }
    assert (Hsound : forall j, In j L -> M (Ref (rid r)) i j).
    { intros j Hj. eapply ends_sound; eauto. }
    assert (Hcompl : forall j, M (Ref (rid r)) i j -> In j L).
    { intros j Hj. eapply ends_complete; eauto. }
    inversion H; subst res; clear H.
    destruct rest as [[p' j']|].
    + destruct IH as (Hle&Htok&Hmax&Hfirst).
      destruct (Nat.ltb i (maxl L)) eqn:Elt; simpl.
      * apply Nat.ltb_lt in Elt.
        destruct (Nat.leb j' (maxl L)) eqn:Ele.
        -- apply Nat.leb_le in Ele. repeat split.
           ++ lia.
           ++ exists r. repeat split; auto. apply Hsound. apply maxl_pos. lia.
           ++ intros q r0 j0 Hq Hlt HM. destruct q as [|q]; simpl in Hq.
              ** inversion Hq; subst r0. apply maxl_ge. apply Hcompl. exact HM.
              ** specialize (Hmax q r0 j0 Hq Hlt HM). lia.
           ++ intros q r0 Hq Hlt. lia.
        -- apply Nat.leb_gt in Ele. repeat split.
           ++ lia.
           ++ exact Htok.
           ++ intros q r0 j0 Hq Hlt HM. destruct q as [|q]; simpl in Hq.
              ** inversion Hq; subst r0. apply Hcompl in HM. apply maxl_ge in HM. lia.
              ** eapply Hmax; eauto.
           ++ intros q r0 Hq Hlt HM. destruct q as [|q]; simpl in Hq.
              ** inversion Hq; subst r0. apply Hcompl in HM. apply maxl_ge in HM. lia.
              ** eapply (Hfirst q r0 Hq); [lia|exact HM].
      * apply Nat.ltb_ge in Elt. repeat split.
        -- lia.
        -- exact Htok.
        -- intros q r0 j0 Hq Hlt HM. destruct q as [|q]; simpl in Hq.
           ** inversion Hq; subst r0. apply Hcompl in HM. apply maxl_ge in HM. lia.
           ** eapply Hmax; eauto.
        -- intros q r0 Hq Hlt HM. destruct q as [|q]; simpl in Hq.
           ** inversion Hq; subst r0. apply Hcompl in HM. apply maxl_ge in HM.
              destruct Htok as (r1&_&Hij&_). lia.
           ** eapply (Hfirst q r0 Hq); [lia|exact HM].
    + destruct (Nat.ltb i (maxl L)) eqn:Elt.
      * apply Nat.ltb_lt in Elt. repeat split.
        -- lia.
        -- exists r. repeat split; auto. apply Hsound. apply maxl_pos. lia.
        -- intros q r0 j0 Hq Hlt HM. destruct q as [|q]; simpl in Hq.
           ** inversion Hq; subst r0. apply maxl_ge. apply Hcompl. exact HM.
           ** exfalso. eapply IH; eauto.
        -- intros q r0 Hq Hlt. lia.
      * apply Nat.ltb_ge in Elt. intros q r0 j0 Hq Hlt HM. destruct q as [|q]; simpl in Hq.
        -- inversion Hq; subst r0. apply Hcompl in HM. apply maxl_ge in HM. lia.
        -- eapply IH; eauto.
Qed.

Lemma pick_step i p j : pick rules 0 i = Some (Some (p, j)) -> LexStep i p j.
Proof.
  intros H. apply pick_spec in H; [|intros q r Hq; exact Hq].
  destruct H as (_&Htok&Hmax&Hfirst). split; [exact Htok|]. split.
  - intros p' j' (r&Hr&Hlt&HM). eapply Hmax; eauto.
  - intros p' Hlt (r&Hr&_&HM). eapply (Hfirst p' r); eauto.
Qed.

Theorem lexfrom_sound : forall fuel i ts, lexfrom fuel i = Some ts -> LexSpec i ts.
Proof.
  induction fuel as [|fuel IH]; intros i ts H; [discriminate|]. simpl in H.
  destruct (Nat.leb (length w) i) eqn:E.
  - inversion H; subst. constructor. apply Nat.leb_le; auto.
  - apply Nat.leb_gt in E.
    destruct (pick rules 0 i) as [[[p j]|]|] eqn:EP; try discriminate.
    destruct (lexfrom fuel j) as [ts'|] eqn:EL; [|discriminate]. inversion H; subst.
    constructor; auto. apply pick_step; auto.
Qed.

Lemma LexStep_functional i p1 j1 p2 j2 : LexStep i p1 j1 -> LexStep i p2 j2 -> p1 = p2 /\ j1 = j2.
Proof.
  intros (T1&M1&F1) (T2&M2&F2).
  assert (j1 = j2). { apply M1 in T2. apply M2 in T1. lia. } subst j2. split; auto.
  destruct (Nat.lt_trichotomy p1 p2) as [L|[E|L]]; auto.
  - exfalso. eapply F2; eauto.
  - exfalso. eapply F1; eauto.
Qed.

Theorem LexSpec_functional : forall i ts1 ts2, LexSpec i ts1 -> LexSpec i ts2 -> ts1 = ts2.
Proof.
  intros i ts1 ts2 H1. revert ts2. induction H1 as [i Hi|i p j ts Hi Hs Hts IH]; intros ts2 H2.
  - inversion H2; subst; auto. lia.
  - inversion H2 as [i' Hi'|i' p' j' ts' Hi' Hs' Hts']; subst; [lia|].
    destruct (LexStep_functional _ _ _ _ _ Hs Hs') as (->&->). f_equal. apply IH. auto.
Qed.

(* the lexer is the specification: whenever it answers, its answer is the unique token sequence
   prescribed by "longest match, earliest rule wins ties" *)
Theorem lex_spec ts : lex_raw lg rules w K F = Some ts -> LexSpec 0 ts /\ forall ts', LexSpec 0 ts' -> ts' = ts.
Proof.
  intros H. apply lexfrom_sound in H. split; auto. intros ts' H'. eapply LexSpec_functional; eauto.
Qed.

(* tokens tile the input: consecutive, non-empty, and end at the end of the text *)
Lemma LexSpec_tiles : forall i ts, LexSpec i ts -> i <= length w ->
  forall p a b, In (p, a, b) ts -> i <= a /\ a < b /\ b <= length w.
Proof.
  induction 1; intros Hi p0 a b Hin; [destruct Hin|].
  destruct H0 as ((r&Hr&Hlt&HM)&_).
  assert (j <= length w).
  { eapply M_bound; eauto. }
  destruct Hin as [E|Hin].
  - inversion E; subst. lia.
  - specialize (IHLexSpec H0 _ _ _ Hin). lia.
Qed.
End P.
