(* Correctness of the viable-prefix oracle of model/Viable.v.
   Extra assumptions (Section hypotheses, visible as premises of the final theorems):
     Hterm : every terminal descriptor is matched by at least one symbol
     Hprod : every grammar rule derives at least one word. *)
From Coq Require Import List Arith Bool Lia.
Import ListNotations.
From BB Require Import Ebnf EbnfP Viable.

(* ---------- M on related words ---------- *)
Section Words.
Variables (sym T : Type).
Variable tm : T -> sym -> bool.
Variable g : nat -> ebnf T.
Notation Mx := (Ebnf.M sym T tm g).

(* M only looks at the symbols below its end position *)
Lemma M_prefix u v e i j : Mx (u ++ v) e i j -> j <= length u -> Mx u e i j.
Proof.
  induction 1 as [t i x Hx Ht|r i j H1 IH1|i|a b i k j H1 IH1 H2 IH2|a b i j H1 IH1|a b i j H1 IH1|a i|a i k j Hlt H1 IH1 H2 IH2];
    intros Hj.
  - apply MTok with x; auto. rewrite nth_error_app1 in Hx by lia. exact Hx.
  - constructor; auto.
  - constructor.
  - pose proof (M_le _ _ _ _ _ _ _ _ H2) as Hle. apply MSeq with k; [apply IH1; lia|apply IH2; lia].
  - apply MAltL; auto.
  - apply MAltR; auto.
  - constructor.
  - pose proof (M_le _ _ _ _ _ _ _ _ H2) as Hle. apply MStarS with k; [exact Hlt|apply IH1; lia|apply IH2; lia].
Qed.

Lemma M_extend u v e i j : Mx u e i j -> Mx (u ++ v) e i j.
Proof.
  induction 1 as [t i x Hx Ht|r i j H1 IH1|i|a b i k j H1 IH1 H2 IH2|a b i j H1 IH1|a b i j H1 IH1|a i|a i k j Hlt H1 IH1 H2 IH2].
  - apply MTok with x; auto. rewrite nth_error_app1; auto. apply nth_error_Some; congruence.
  - constructor; auto.
  - constructor.
  - apply MSeq with k; auto.
  - apply MAltL; auto.
  - apply MAltR; auto.
  - constructor.
  - apply MStarS with k; auto.
Qed.

(* positions shift by the length of a prepended word *)
Lemma M_shift pre u e i j : Mx u e i j -> Mx (pre ++ u) e (length pre + i) (length pre + j).
Proof.
  induction 1 as [t i x Hx Ht|r i j H1 IH1|i|a b i k j H1 IH1 H2 IH2|a b i j H1 IH1|a b i j H1 IH1|a i|a i k j Hlt H1 IH1 H2 IH2].
  - rewrite Nat.add_succ_r. apply MTok with x; auto. rewrite nth_error_app2 by lia.
    replace (length pre + i - length pre) with i by lia. exact Hx.
  - constructor; auto.
  - constructor.
  - apply MSeq with (length pre + k); auto.
  - apply MAltL; auto.
  - apply MAltR; auto.
  - constructor.
  - apply MStarS with (length pre + k); auto. lia.
Qed.

Lemma nth_error_firstn_lt (A:Type) : forall m (l:list A) i, i < m -> nth_error (firstn m l) i = nth_error l i.
Proof.
  induction m as [|m IH]; intros l i Hi; [lia|]. destruct l as [|x l]; [reflexivity|].
  destruct i as [|i]; simpl; auto. apply IH; lia.
Qed.

Lemma M_firstn u e i j : Mx u e i j -> forall m, j <= m -> Mx (firstn m u) e i j.
Proof.
  induction 1 as [t i x Hx Ht|r i j H1 IH1|i|a b i k j H1 IH1 H2 IH2|a b i j H1 IH1|a b i j H1 IH1|a i|a i k j Hlt H1 IH1 H2 IH2];
    intros m Hm.
  - apply MTok with x; auto. rewrite nth_error_firstn_lt by lia. exact Hx.
  - constructor; auto.
  - constructor.
  - pose proof (M_le _ _ _ _ _ _ _ _ H2) as Hle. apply MSeq with k; [apply IH1; lia|apply IH2; lia].
  - apply MAltL; auto.
  - apply MAltR; auto.
  - constructor.
  - pose proof (M_le _ _ _ _ _ _ _ _ H2) as Hle. apply MStarS with k; [exact Hlt|apply IH1; lia|apply IH2; lia].
Qed.

Lemma M_truncate u rest e i j : Mx (u ++ rest) e i j -> Mx (u ++ firstn (j - length u) rest) e i j.
Proof.
  intros H0. assert (H : Mx (firstn (Nat.max j (length u)) (u ++ rest)) e i j) by (apply M_firstn; [exact H0|lia]).
  rewrite firstn_app in H. rewrite firstn_all2 in H by lia.
  replace (Nat.max j (length u) - length u) with (j - length u) in H by lia. exact H.
Qed.

(* one more iteration at the end of a Star derivation *)
Lemma M_star_snoc u a i p j : Mx u (Star a) i p -> Mx u a p j -> p < j -> Mx u (Star a) i j.
Proof.
  intros H. remember (Star a) as e eqn:He. revert He.
  induction H as [t i x Hx Ht|r i j0 H1 IH1|i|a0 b0 i k j0 H1 IH1 H2 IH2|a0 b0 i j0 H1 IH1|a0 b0 i j0 H1 IH1|a0 i|a0 i k j0 Hlt H1 IH1 H2 IH2];
    intros He Ha Hpj; try discriminate; inversion He; subst a0.
  - apply MStarS with j; auto. constructor.
  - apply MStarS with k; auto.
Qed.
End Words.

(* ---------- list/closure plumbing ---------- *)
Section Plumbing.

Lemma bindv_fst fv fe l : (forall x, option_map fst (fv x) = fe x) -> option_map fst (bindv fv l) = bindl fe l.
Proof.
  intros H. induction l as [|x l IH]; simpl; auto. rewrite <- (H x), <- IH.
  destruct (fv x) as [[a fa]|]; simpl; auto. destruct (bindv fv l) as [[b fb]|]; simpl; auto.
Qed.

Lemma bindv_flag fv : forall l r fl, bindv fv l = Some (r, fl) ->
  (fl = true <-> exists x ys, In x l /\ fv x = Some (ys, true)).
Proof.
  induction l as [|x l IH]; simpl; intros r fl H.
  - inversion H; subst. split; [discriminate|intros (x&ys&[]&_)].
  - destruct (fv x) as [[a fa]|] eqn:Hx; [|discriminate]. destruct (bindv fv l) as [[b fb]|] eqn:Hb; [|discriminate].
    inversion H; subst. rewrite orb_true_iff, (IH b fb eq_refl). split.
    + intros [Hfa|(x1&ys&H1&H2)]. { subst fa. exists x, a; auto. } exists x1, ys; auto.
    + intros (x1&ys&[<-|Hin]&Hf). { left; congruence. } right. exists x1, ys; auto.
Qed.

Lemma bindv_some fv : forall l rf x, bindv fv l = Some rf -> In x l -> exists ys b, fv x = Some (ys, b).
Proof.
  induction l as [|x1 l IH]; simpl; intros rf x H Hin; [destruct Hin|].
  destruct (fv x1) as [[a fa]|] eqn:Hf; [|discriminate]. destruct (bindv fv l) as [[b fb]|] eqn:Hb; [|discriminate].
  destruct Hin as [->|Hin]; eauto.
Qed.

Lemma closure_ext s1 s2 : (forall p, s1 p = s2 p) -> forall k todo seen, closure k s1 todo seen = closure k s2 todo seen.
Proof.
  intros H. induction k as [|k IH]; intros todo seen; simpl; auto. destruct todo as [|p todo]; auto.
  destruct (mem p seen); auto. rewrite <- (H p). destruct (s1 p); auto.
Qed.

Lemma vclosure_fst step : forall k todo seen fl,
  option_map fst (vclosure k step todo seen fl) = closure k (fun p => option_map fst (step p)) todo seen.
Proof.
  induction k as [|k IH]; intros todo seen fl; simpl; auto. destruct todo as [|p todo]; simpl; auto.
  destruct (mem p seen); auto. destruct (step p) as [[l fp]|]; simpl; auto.
Qed.

Lemma vclosure_flag step : forall k todo seen fl R fl',
  vclosure k step todo seen fl = Some (R, fl') ->
  (forall p l, In p seen -> step p = Some (l, true) -> fl = true) ->
  (fl' = true <-> fl = true \/ exists p l, In p R /\ step p = Some (l, true)).
Proof.
  induction k as [|k IH]; intros todo seen fl R fl' H Hseen; [discriminate|]. simpl in H.
  destruct todo as [|p todo].
  - inversion H; subst. split; auto. intros [Hf|(p&l&Hp&Hs)]; eauto.
  - destruct (mem p seen) eqn:Hm. { eapply IH; eauto. }
    destruct (step p) as [[l fp]|] eqn:Hp; [|discriminate].
    assert (Hcl : closure k (fun p => option_map fst (step p)) (filter (fun q => Nat.ltb p q) l ++ todo) (p :: seen) = Some R).
    { rewrite <- vclosure_fst with (fl := fl || fp). rewrite H. reflexivity. }
    destruct (closure_closed _ _ _ _ _ Hcl) as (A&_&_).
    rewrite (IH _ _ _ _ _ H).
    + rewrite orb_true_iff. split.
      * intros [[Hf|Hf]|Hex]; auto. subst fp. right. exists p, l. split; auto. apply A; left; auto.
      * intros [Hf|Hex]; auto.
    + intros q l' [<-|Hq] Hs. { rewrite Hp in Hs. inversion Hs; subst. apply orb_true_r. }
      rewrite (Hseen q l' Hq Hs). reflexivity.
Qed.
End Plumbing.

(* ---------- the oracle ---------- *)
Section V.
Variables (sym T : Type).
Variable tm : T -> sym -> bool.
Variable g : nat -> ebnf T.
Hypothesis Hterm : forall t, exists x, tm t x = true.
Hypothesis Hprod : forall r, exists w', Ebnf.M sym T tm g w' (g r) 0 (length w').
Variable w : list sym.
Variable K : nat.

Notation n := (length w).
Notation Mx := (Ebnf.M sym T tm g).
Notation M := (Ebnf.M sym T tm g w).
Notation ends := (Ebnf.ends sym T tm g w K).
Notation vends := (Viable.vends sym T tm g w K).
Notation viable := (Viable.viable sym T tm g w K).

(* e, started at i, consumes all of w[i..n) and at least one more symbol of some extension *)
Definition Over (e:ebnf T) (i:nat) : Prop := exists rest j, n < j /\ Mx (w ++ rest) e i j.
Definition Viable (e:ebnf T) (i:nat) : Prop := M e i n \/ Over e i.

(* every expression derives some word *)
Lemma productive (e:ebnf T) : exists u, Mx u e 0 (length u).
Proof.
  induction e as [t|r| |a IHa b IHb|a IHa b IHb|a IHa].
  - destruct (Hterm t) as (x&Hx). exists [x]. apply MTok with x; auto.
  - destruct (Hprod r) as (u&Hu). exists u. constructor; auto.
  - exists []. constructor.
  - destruct IHa as (u1&H1). destruct IHb as (u2&H2). exists (u1 ++ u2). rewrite app_length.
    apply MSeq with (length u1). { apply M_extend; auto. }
    pose proof (M_shift _ _ _ _ u1 _ _ _ _ H2) as Hs. rewrite Nat.add_0_r in Hs. exact Hs.
  - destruct IHa as (u1&H1). exists u1. apply MAltL; auto.
  - exists []. constructor.
Qed.

(* an overrun can be cut to end exactly at the end of the extended word *)
Lemma Over_exact e i : i <= n -> Over e i ->
  exists rest, n < length (w ++ rest) /\ Mx (w ++ rest) e i (length (w ++ rest)).
Proof.
  intros Hi (rest&j&Hj&HM).
  assert (Hb : j <= length (w ++ rest)) by (eapply M_bound; [exact HM|rewrite app_length; lia]).
  rewrite app_length in Hb. apply M_truncate in HM.
  assert (Hlen : length (w ++ firstn (j - n) rest) = j) by (rewrite app_length, firstn_length; lia).
  exists (firstn (j - n) rest). rewrite Hlen. split; auto.
Qed.

(* the position component of vends is literally Ebnf.ends *)
Lemma vends_fst : forall f e i, option_map fst (vends f e i) = ends f e i.
Proof.
  induction f as [|f IH]; intros e i; [reflexivity|]. destruct e as [t|r| |a b|a b|a]; simpl.
  - destruct (nth_error w i) as [x|]; [destruct (tm t x)|]; reflexivity.
  - apply IH.
  - reflexivity.
  - rewrite <- (IH a i). destruct (Viable.vends sym T tm g w K f a i) as [[l fa]|]; simpl; auto.
    rewrite <- (bindv_fst (vends f b) (ends f b)) by (intro; apply IH).
    destruct (bindv (vends f b) (nodup Nat.eq_dec l)) as [[r fb]|]; reflexivity.
  - rewrite <- (IH a i), <- (IH b i).
    destruct (Viable.vends sym T tm g w K f a i) as [[l1 f1]|]; simpl; auto.
    destruct (Viable.vends sym T tm g w K f b i) as [[l2 f2]|]; simpl; auto.
  - rewrite vclosure_fst. apply closure_ext. intro; apply IH.
Qed.

Theorem vends_ends f e i E fl : vends f e i = Some (E, fl) -> forall j, In j E <-> M e i j.
Proof.
  intros H j. pose proof (vends_fst f e i) as Hf. rewrite H in Hf. simpl in Hf. symmetry in Hf. split.
  - intros Hin. eapply ends_sound; eauto.
  - intros HM. eapply ends_complete; eauto.
Qed.

Theorem vends_over : forall f e i E fl, i <= n -> vends f e i = Some (E, fl) -> (fl = true <-> Over e i).
Proof.
  induction f as [|f IH]; intros e i E fl Hi H; [discriminate|].
  pose proof (vends_ends _ _ _ _ _ H) as HE.
  destruct e as [t|r| |a b|a b|a]; simpl in H.
  - (* Tok *)
    destruct (nth_error w i) as [x|] eqn:Ex.
    + assert (Hlt : i < n) by (apply nth_error_Some; congruence).
      assert (Hfl : fl = false) by (destruct (tm t x); congruence). subst fl. split; [discriminate|].
      intros (rest&j&Hj&HM). inversion HM; subst. lia.
    + inversion H; subst. split; [intros _|auto]. apply nth_error_None in Ex.
      assert (Hin : i = n) by lia. subst i.
      destruct (Hterm t) as (x&Hx). exists [x], (S n). split; [lia|]. apply MTok with x; auto.
      rewrite nth_error_app2 by lia. rewrite Nat.sub_diag. reflexivity.
  - (* Ref *)
    rewrite (IH _ _ _ _ Hi H). split; intros (rest&j&Hj&HM); exists rest, j; split; auto.
    + constructor; auto.
    + inversion HM; auto.
  - (* Eps *)
    inversion H; subst. split; [discriminate|]. intros (rest&j&Hj&HM). inversion HM; subst; lia.
  - (* Seq *)
    destruct (Viable.vends sym T tm g w K f a i) as [[Ea fa]|] eqn:Eva; [|discriminate].
    destruct (bindv (vends f b) (nodup Nat.eq_dec Ea)) as [[Eb fb]|] eqn:Evb; [|discriminate].
    inversion H; subst E fl. clear H.
    pose proof (IH a i Ea fa Hi Eva) as IHa. pose proof (vends_ends _ _ _ _ _ Eva) as HEa.
    split.
    + intros Hor. apply orb_true_iff in Hor. destruct Hor as [Hfa|Hfb].
      * destruct (Over_exact a i Hi (proj1 IHa Hfa)) as (rest&Hlen&HM).
        destruct (productive b) as (u&Hu).
        exists (rest ++ u), (length (w ++ rest) + length u). split; [lia|]. rewrite app_assoc.
        apply MSeq with (length (w ++ rest)). { apply M_extend; auto. }
        pose proof (M_shift _ _ _ _ (w ++ rest) _ _ _ _ Hu) as Hs. rewrite Nat.add_0_r in Hs. exact Hs.
      * apply (bindv_flag _ _ _ _ Evb) in Hfb. destruct Hfb as (k&ys&Hk&Hv). apply nodup_In in Hk.
        apply HEa in Hk. assert (Hkn : k <= n) by (eapply M_bound; eauto).
        destruct (proj1 (IH b k ys true Hkn Hv) eq_refl) as (rest&j&Hj&HMb).
        exists rest, j. split; auto. apply MSeq with k; auto. apply M_extend; auto.
    + intros (rest&j&Hj&HM). inversion HM as [ | | |a' b' i' k j' H1 H2| | | | ]; subst.
      apply orb_true_iff. destruct (le_lt_dec k n) as [Hk|Hk].
      * right. apply (bindv_flag _ _ _ _ Evb).
        assert (Hin : In k Ea) by (apply HEa; apply M_prefix with rest; auto).
        apply (nodup_In Nat.eq_dec) in Hin. destruct (bindv_some _ _ _ _ Evb Hin) as (ys&bk&Hv).
        exists k, ys. split; auto.
        assert (Hbk : bk = true) by (apply (IH b k ys bk Hk Hv); exists rest, j; auto).
        subst bk; auto.
      * left. apply IHa. exists rest, k; auto.
  - (* Alt *)
    destruct (Viable.vends sym T tm g w K f a i) as [[l1 f1]|] eqn:Eva; [|discriminate].
    destruct (Viable.vends sym T tm g w K f b i) as [[l2 f2]|] eqn:Evb; [|discriminate].
    inversion H; subst E fl. clear H. rewrite orb_true_iff, (IH _ _ _ _ Hi Eva), (IH _ _ _ _ Hi Evb). split.
    + intros [(rest&j&Hj&HM)|(rest&j&Hj&HM)]; exists rest, j; split; auto; [apply MAltL|apply MAltR]; auto.
    + intros (rest&j&Hj&HM). inversion HM; subst; [left|right]; exists rest, j; auto.
  - (* Star *)
    pose proof (vclosure_flag _ _ _ _ _ _ _ H) as Hfl.
    assert (Hfl' : fl = true <-> exists p l, In p E /\ vends f a p = Some (l, true)).
    { rewrite Hfl. { split; [intros [Hd|Hex]; [discriminate|exact Hex]|auto]. } intros p l []. }
    clear Hfl.
    assert (Hcl : closure K (fun p => option_map fst (vends f a p)) [i] [] = Some E).
    { rewrite <- vclosure_fst with (fl := false). rewrite H. reflexivity. }
    destruct (closure_closed _ _ _ _ _ Hcl) as (_&B&C).
    assert (HiE : In i E) by (apply B; left; auto).
    rewrite Hfl'. split.
    + intros (p&l&Hp&Hv). pose proof (proj1 (HE p) Hp) as HMp.
      assert (Hpn : p <= n) by (eapply M_bound; eauto).
      destruct (proj1 (IH a p l true Hpn Hv) eq_refl) as (rest&j&Hj&HMa).
      exists rest, j. split; auto. apply M_star_snoc with p; auto; [apply M_extend; auto|lia].
    + intros (rest&j&Hj&HMs).
      assert (Hgen : forall e0 i0 j0, Mx (w ++ rest) e0 i0 j0 -> e0 = Star a -> i0 <= n -> In i0 E -> n < j0 ->
                     exists p l, In p E /\ vends f a p = Some (l, true)).
      { clear i Hi H HE Hfl' Hcl B HiE j Hj HMs.
        induction 1 as [t i0 x Hx Ht|r i0 j0 H1 IH1|i0|a0 b0 i0 k j0 H1 IH1 H2 IH2|a0 b0 i0 j0 H1 IH1|a0 b0 i0 j0 H1 IH1|a0 i0|a0 i0 k j0 Hlt H1 IH1 H2 IH2];
          intros Heq Hi0 Hin Hj0; try discriminate.
        - lia.
        - inversion Heq; subst a0. destruct (C i0 Hin) as [[]|(l&Hl&Hq)].
          destruct (Viable.vends sym T tm g w K f a i0) as [[l' b]|] eqn:Ev; simpl in Hl; [|discriminate].
          inversion Hl; subst l'. destruct (le_lt_dec k n) as [Hk|Hk].
          + apply IH2; auto. apply Hq; auto. apply (vends_ends _ _ _ _ _ Ev). apply M_prefix with rest; auto.
          + exists i0, l. split; auto.
            assert (Hb : b = true) by (apply (IH _ _ _ _ Hi0 Ev); exists rest, k; auto).
            subst b; auto. }
      eapply Hgen; eauto.
Qed.

Theorem viable_correct f e b : viable f e = Some b -> (b = true <-> (M e 0 n \/ Over e 0)).
Proof.
  unfold Viable.viable. destruct (vends f e 0) as [[E fl]|] eqn:Ev; [|discriminate]. intros [= <-].
  rewrite orb_true_iff, mem_In, (vends_ends _ _ _ _ _ Ev), (vends_over _ _ _ _ _ (Nat.le_0_l _) Ev). tauto.
Qed.

(* w is a prefix of a word derived by e *)
Theorem viable_prefix_correct f e b : viable f e = Some b ->
  (b = true <-> exists rest, Mx (w ++ rest) e 0 (length (w ++ rest))).
Proof.
  intros H. rewrite (viable_correct _ _ _ H). split.
  - intros [HM|HO].
    + exists []. rewrite app_nil_r. exact HM.
    + destruct (Over_exact e 0 (Nat.le_0_l _) HO) as (rest&_&HM). exists rest; exact HM.
  - intros (rest&HM). destruct rest as [|x rest].
    + left. rewrite app_nil_r in HM. exact HM.
    + right. exists (x :: rest), (length (w ++ x :: rest)). split; auto. rewrite app_length; simpl; lia.
Qed.
End V.

(* ---------- a tiny instance ---------- *)
Definition exg (r:nat) : ebnf nat :=
  match r with 0 => Seq (Tok 1) (Seq (Star (Tok 2)) (Tok 3)) | _ => Eps end.
Definition exviable (w:list nat) : option bool := viable nat nat Nat.eqb exg w 50 20 (Ref 0).

Example ex_122 : exviable [1;2;2] = Some true.  Proof. vm_compute. reflexivity. Qed.
Example ex_132 : exviable [1;3;2] = Some false. Proof. vm_compute. reflexivity. Qed.
Example ex_nil : exviable [] = Some true.       Proof. vm_compute. reflexivity. Qed.
Example ex_2   : exviable [2] = Some false.     Proof. vm_compute. reflexivity. Qed.
Example ex_13  : exviable [1;3] = Some true.    Proof. vm_compute. reflexivity. Qed.
Example ex_1223 : exviable [1;2;2;3] = Some true. Proof. vm_compute. reflexivity. Qed.
Example ex_12233 : exviable [1;2;2;3;3] = Some false. Proof. vm_compute. reflexivity. Qed.

Lemma ex_term : forall t, exists x, Nat.eqb t x = true.
Proof. intros t. exists t. apply Nat.eqb_refl. Qed.

Lemma ex_prod : forall r, exists w', M nat nat Nat.eqb exg w' (exg r) 0 (length w').
Proof.
  intros [|r]; simpl.
  - exists [1;3]. apply MSeq with 1. { apply MTok with 1; reflexivity. }
    apply MSeq with 1. { apply MStar0. } apply MTok with 3; reflexivity.
  - exists []. constructor.
Qed.

Theorem ex_viable_prefix w b : exviable w = Some b ->
  (b = true <-> exists rest, M nat nat Nat.eqb exg (w ++ rest) (Ref 0) 0 (length (w ++ rest))).
Proof. apply viable_prefix_correct; [apply ex_term|apply ex_prod]. Qed.

Print Assumptions viable_prefix_correct.
Print Assumptions ex_viable_prefix.
