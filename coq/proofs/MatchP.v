(* C17: blackbird.utils.match_template -- why matching an instantiated (and
   possibly reordered) template succeeds and returns the right parameters.

   match_template builds the dependency graphs of template and program
   (to_DiGraph, modelled in BB.Graph, characterised in BB.GraphP: the edge
   relation is [Consec]), asks networkx for ANY isomorphism respecting the node
   labels (gate name, mode tuple), and then solves, for every matched pair of
   nodes and every positional argument, x = y for the single parameter of x.

   PART A  the isomorphism is unique.
     A program is [ops : list label], label = (gate name, mode list); the wires
     of an operation are read off its label ([wires ops = map snd ops]), so a
     label determines the wire list.  A reordering is a list [pi] that is a
     permutation of [seq 0 n]: position p of the new program holds the old
     operation [nth p pi]; [pos pi i] is the new position of old operation i.
     It is valid when it keeps the order of any two operations sharing a wire.
       reorder_consec / reorder_edges   (A1)  pos is a graph isomorphism
       iso_unique / iso_unique_exec / iso_unique_bij   (A2)
            every label preserving graph HOMOMORPHISM (edges preserved in the
            forward direction only, no injectivity needed) from the graph of
            [ops] to the graph of [reorder pi ops] equals [pos pi] on the nodes
            (operations with at least one wire).  In particular the isomorphism
            found by VF2 is [pos].
       label_bijection_perm, label_change_rejected   (A3, labels)
            a label preserving injection forces equal multisets of labels;
            changing one label of a reordered program leaves no label
            preserving bijection.
       order_change_rejected   (A3, order)
            exchanging two differently labelled operations that share a wire
            (not necessarily adjacent) leaves no label preserving graph
            homomorphism, a fortiori no isomorphism.
     The version / target comparison of match_template is a plain equality test
     performed before any graph is built and is not modelled here.

   PART B  solving for the parameters, over Coq's rationals Q.
       solve_affine, solve_inverts   (B1)
       match_args / match_ops, consistent, bind;
       match_inverts_inst, match_ops_inverts_inst   (B2)
     NOT modelled: (1) the implementation skips an argument pair when
     [x != y] is false, i.e. when the program value is syntactically equal to
     the template argument; for a symbolic x and a numeric y this cannot
     happen.  (2) the implementation compares repeated solutions of the same
     parameter with np.isclose (floating point tolerance); here arithmetic is
     exact and the comparison is Qeq.  (3) an affine argument a*p+b with a = 0
     does not exist in sympy (it simplifies to a constant); this is the
     hypothesis [wf_targ].

   PART C  A and B combined: [match_template_reordered].
*)
From Coq Require Import List Arith Lia Relations Bool Permutation.
From Coq Require Import QArith Qfield.
Import ListNotations.
From BB Require Import Graph GraphP.
(* QArith opens Q_scope; Part A is about naturals *)
Close Scope Q_scope.

(* ================================================================== *)
(* PART A                                                               *)
(* ================================================================== *)

(* ------------------------------------------------------------------ *)
(* Labels                                                               *)
(* ------------------------------------------------------------------ *)
Definition label : Type := (nat * list nat)%type.
Definition dlabel : label := (0, []).

Definition label_eq_dec : forall x y : label, {x = y} + {x <> y}.
Proof. decide equality; [apply (list_eq_dec Nat.eq_dec)|apply Nat.eq_dec]. Defined.

(* ------------------------------------------------------------------ *)
(* A monotone self-map of a bounded set of naturals is the identity     *)
(* ------------------------------------------------------------------ *)
Lemma mono_self_id (n : nat) (S : nat -> Prop) (g : nat -> nat) :
  (forall k, S k -> k < n) ->
  (forall k, S k -> S (g k)) ->
  (forall k l, S k -> S l -> k < l -> g k < g l) ->
  forall k, S k -> g k = k.
Proof.
  intros Hb Hs Hm.
  assert (Up : forall d k, n - k <= d -> S k -> ~ k < g k).
  { induction d as [|d IH]; intros k Hd Hk Hlt.
    - apply Hb in Hk. lia.
    - assert (Hgk := Hs k Hk). assert (Hb' := Hb _ Hgk). assert (Hbk := Hb _ Hk).
      apply (IH (g k)); [lia|exact Hgk|]. apply Hm; assumption. }
  assert (Down : forall d k, k <= d -> S k -> ~ g k < k).
  { induction d as [|d IH]; intros k Hd Hk Hlt.
    - lia.
    - assert (Hgk := Hs k Hk).
      apply (IH (g k)); [lia|exact Hgk|]. apply Hm; assumption. }
  intros k Hk.
  specialize (Up (n - k) k (le_n _) Hk). specialize (Down k k (le_n _) Hk). lia.
Qed.

Lemma hom_reach (R R' : nat -> nat -> Prop) (f : nat -> nat) :
  (forall i j, R i j -> R' (f i) (f j)) ->
  forall i j, clos_trans nat R i j -> clos_trans nat R' (f i) (f j).
Proof.
  intros H i j HR. induction HR as [x y Hxy|x y z _ IH1 _ IH2].
  - apply t_step. apply H. exact Hxy.
  - eapply t_trans; eassumption.
Qed.

Lemma Consec_g_ext n (W1 W2 : nat -> list nat) :
  (forall i, W1 i = W2 i) -> forall i j, Consec_g n W1 i j <-> Consec_g n W2 i j.
Proof.
  intros He i j. unfold Consec_g. split; intros (H1&H2&q&H3&H4&H5); (split; [exact H1|split; [exact H2|]]);
    exists q.
  - rewrite <- !He. split; [exact H3|split; [exact H4|]]. intros k. rewrite <- He. apply H5.
  - rewrite !He. split; [exact H3|split; [exact H4|]]. intros k. rewrite He. apply H5.
Qed.

(* ------------------------------------------------------------------ *)
(* Generic setting: programs as functions from indices to labels        *)
(* ------------------------------------------------------------------ *)
Section Reorder.
Variable n : nat.
Variables L L' : nat -> label.         (* original / reordered program *)
Variables pos inv : nat -> nat.        (* old index -> new position, and back *)

Let W (i : nat) : list nat := snd (L i).
Let W' (i : nat) : list nat := snd (L' i).

Hypothesis pos_lt : forall i, i < n -> pos i < n.
Hypothesis inv_lt : forall p, p < n -> inv p < n.
Hypothesis pos_inv : forall p, p < n -> pos (inv p) = p.
Hypothesis inv_pos : forall i, i < n -> inv (pos i) = i.
Hypothesis lab : forall i, i < n -> L' (pos i) = L i.
Hypothesis ord : forall i j, i < j -> j < n -> share_g W i j -> pos i < pos j.

Lemma W_pos i : i < n -> W' (pos i) = W i.
Proof. intros H. unfold W, W'. rewrite lab by exact H. reflexivity. Qed.

Lemma W_inv p : p < n -> W (inv p) = W' p.
Proof. intros H. rewrite <- W_pos by (apply inv_lt; exact H). rewrite pos_inv by exact H. reflexivity. Qed.

Lemma pos_inj i j : i < n -> j < n -> pos i = pos j -> i = j.
Proof. intros Hi Hj He. rewrite <- (inv_pos i Hi), <- (inv_pos j Hj), He. reflexivity. Qed.

Lemma ord_iff i j : i < n -> j < n -> share_g W i j -> (i < j <-> pos i < pos j).
Proof.
  intros Hi Hj Hs. split; intros H.
  - apply ord; assumption.
  - destruct (lt_eq_lt_dec i j) as [[Hlt|He]|Hgt]; [exact Hlt| |].
    + subst j. lia.
    + assert (pos j < pos i); [|lia]. apply ord; try assumption.
      destruct Hs as (q&H1&H2). exists q. split; assumption.
Qed.

(* A1 *)
Lemma reorder_consec_g i j : i < n -> j < n ->
  (Consec_g n W i j <-> Consec_g n W' (pos i) (pos j)).
Proof.
  intros Hi Hj. split.
  - intros (Hij&_&q&Hqi&Hqj&Hno).
    split; [apply ord; [exact Hij|exact Hj|exists q; split; assumption]|].
    split; [apply pos_lt; exact Hj|].
    exists q. rewrite !W_pos by assumption.
    split; [exact Hqi|split; [exact Hqj|]].
    intros k' H1 H2 Hk'.
    assert (Hk'n : k' < n) by (assert (pos j < n) by (apply pos_lt; exact Hj); lia).
    assert (Hkn := inv_lt k' Hk'n).
    rewrite <- W_inv in Hk' by exact Hk'n.
    assert (Hpk := pos_inv k' Hk'n).
    set (k := inv k') in *.
    assert (Hik : i < k).
    { apply ord_iff; [exact Hi|exact Hkn|exists q; split; assumption|lia]. }
    assert (Hkj : k < j).
    { apply ord_iff; [exact Hkn|exact Hj|exists q; split; assumption|lia]. }
    exact (Hno k Hik Hkj Hk').
  - intros (Hij&_&q&Hqi&Hqj&Hno).
    rewrite W_pos in Hqi, Hqj by assumption.
    assert (Hlt : i < j).
    { apply ord_iff; [exact Hi|exact Hj|exists q; split; assumption|exact Hij]. }
    split; [exact Hlt|split; [exact Hj|]].
    exists q. split; [exact Hqi|split; [exact Hqj|]].
    intros k H1 H2 Hk.
    assert (Hkn : k < n) by lia.
    apply (Hno (pos k)).
    + apply ord; [exact H1|exact Hkn|exists q; split; assumption].
    + apply ord; [exact H2|exact Hj|exists q; split; assumption].
    + rewrite W_pos by exact Hkn. exact Hk.
Qed.

Lemma reorder_consec_inv p r : p < n -> r < n ->
  (Consec_g n W' p r <-> Consec_g n W (inv p) (inv r)).
Proof.
  intros Hp Hr. rewrite reorder_consec_g by (apply inv_lt; assumption).
  rewrite !pos_inv by assumption. reflexivity.
Qed.

(* A2: every label-preserving homomorphism of the dependency graphs is [pos] *)
Section Unique.
Variable f : nat -> nat.
Hypothesis f_lt : forall i, i < n -> W i <> [] -> f i < n.
Hypothesis f_lab : forall i, i < n -> W i <> [] -> L' (f i) = L i.
Hypothesis f_edge : forall i j, Consec_g n W i j -> Consec_g n W' (f i) (f j).

Lemma consec_nonempty (V : nat -> list nat) i j :
  Consec_g n V i j -> (i < n /\ V i <> []) /\ (j < n /\ V j <> []).
Proof.
  intros (H1&H2&q&H3&H4&_). split; (split; [lia|]); intros He.
  - rewrite He in H3. destruct H3.
  - rewrite He in H4. destruct H4.
Qed.

Lemma iso_unique_g i : i < n -> W i <> [] -> f i = pos i.
Proof.
  intros Hi Hne.
  set (h := fun k => inv (f k)).
  assert (Hh_edge : forall a b, Consec_g n W a b -> Consec_g n W (h a) (h b)).
  { intros a b Hab. assert (Hf := f_edge a b Hab).
    destruct (consec_nonempty _ _ _ Hf) as ((Ha&_)&(Hb&_)).
    apply reorder_consec_inv; assumption. }
  assert (Hh_W : forall k, k < n -> W k <> [] -> W (h k) = W k).
  { intros k Hk Hkne. unfold h. rewrite W_inv by (apply f_lt; assumption).
    unfold W'. rewrite f_lab by assumption. reflexivity. }
  destruct (W i) as [|q ws] eqn:EW; [congruence|].
  assert (Hqi : In q (W i)) by (rewrite EW; left; reflexivity).
  set (S := fun k => k < n /\ In q (W k)).
  assert (Hne_S : forall k, S k -> W k <> []).
  { intros k (_&Hk) He. rewrite He in Hk. destruct Hk. }
  assert (Hid : h i = i).
  { apply (mono_self_id n S h).
    - intros k (Hk&_). exact Hk.
    - intros k Hk. assert (Hkne := Hne_S k Hk). destruct Hk as (Hk&Hq). split.
      + unfold h. apply inv_lt. apply f_lt; assumption.
      + rewrite Hh_W by assumption. exact Hq.
    - intros k l (Hk&Hqk) (Hl&Hql) Hkl.
      apply (reach_forward_g n W). apply (hom_reach (Consec_g n W) (Consec_g n W) h Hh_edge).
      apply reach_iff_chain_g. apply t_step. split; [exact Hkl|split; [exact Hl|]].
      exists q. split; assumption.
    - split; assumption. }
  unfold h in Hid. rewrite <- Hid at 2. rewrite pos_inv; [reflexivity|].
  apply f_lt; [exact Hi|]. rewrite EW. discriminate.
Qed.
End Unique.

(* A3 (order): swapping two differently labelled operations sharing a wire *)
Section Swap.
Variables a b : nat.
Variable L2 : nat -> label.
Let sw (k : nat) : nat := if Nat.eqb k a then b else if Nat.eqb k b then a else k.
Let W2 (i : nat) : list nat := snd (L2 i).
Hypothesis a_lt : a < n.
Hypothesis b_lt : b < n.
Hypothesis L2_sw : forall k, k < n -> L2 k = L' (sw k).
Hypothesis ab_share : share_g W' a b.
Hypothesis ab_lab : L' a <> L' b.

Lemma order_change_rejected_g (f : nat -> nat) :
  (forall i, i < n -> W i <> [] -> f i < n) ->
  (forall i, i < n -> W i <> [] -> L2 (f i) = L i) ->
  (forall i j, Consec_g n W i j -> Consec_g n W2 (f i) (f j)) ->
  False.
Proof.
  intros f_lt f_lab f_edge.
  destruct ab_share as (q&Hqa&Hqb).
  set (g := fun k => f (inv k)).
  set (S := fun k => k < n /\ In q (W' k)).
  assert (Hinv_ne : forall k, S k -> W (inv k) <> []).
  { intros k (Hk&Hq) He. rewrite W_inv in He by exact Hk. rewrite He in Hq. destruct Hq. }
  assert (Hg_lab : forall k, S k -> L2 (g k) = L' k).
  { intros k Hk. assert (Hne := Hinv_ne k Hk). destruct Hk as (Hk&Hq).
    unfold g. rewrite f_lab; [|apply inv_lt; exact Hk|exact Hne].
    rewrite <- lab by (apply inv_lt; exact Hk). rewrite pos_inv by exact Hk. reflexivity. }
  assert (Hg_lt : forall k, S k -> g k < n).
  { intros k Hk. assert (Hne := Hinv_ne k Hk). destruct Hk as (Hk&Hq).
    unfold g. apply f_lt; [apply inv_lt; exact Hk|exact Hne]. }
  assert (Hid : g a = a).
  { apply (mono_self_id n S g).
    - intros k (Hk&_). exact Hk.
    - intros k Hk. assert (Hl := Hg_lab k Hk). assert (Hlt := Hg_lt k Hk).
      split; [exact Hlt|]. destruct Hk as (Hk&Hq).
      rewrite L2_sw in Hl by exact Hlt.
      assert (Hq' : In q (W' (sw (g k)))) by (unfold W'; rewrite Hl; exact Hq).
      unfold sw in Hq'.
      destruct (Nat.eqb (g k) a) eqn:Ea; [apply Nat.eqb_eq in Ea; rewrite Ea; exact Hqa|].
      destruct (Nat.eqb (g k) b) eqn:Eb; [apply Nat.eqb_eq in Eb; rewrite Eb; exact Hqb|].
      exact Hq'.
    - intros k l (Hk&Hqk) (Hl&Hql) Hkl.
      apply (reach_forward_g n W2). unfold g.
      apply (hom_reach (Consec_g n W) (Consec_g n W2) f f_edge).
      apply reach_iff_chain_g. apply t_step.
      assert (Hs : share_g W (inv k) (inv l)).
      { exists q. rewrite !W_inv by assumption. split; assumption. }
      split; [|split; [apply inv_lt; exact Hl|exact Hs]].
      apply ord_iff; [apply inv_lt; exact Hk|apply inv_lt; exact Hl|exact Hs|].
      rewrite !pos_inv by assumption. exact Hkl.
    - split; assumption. }
  assert (Hl := Hg_lab a (conj a_lt Hqa)). rewrite Hid in Hl.
  rewrite L2_sw in Hl by exact a_lt. unfold sw in Hl. rewrite Nat.eqb_refl in Hl.
  apply ab_lab. symmetry. exact Hl.
Qed.
End Swap.
End Reorder.

(* ------------------------------------------------------------------ *)
(* Concrete programs: lists of labels                                   *)
(* ------------------------------------------------------------------ *)
Definition wires (ops : list label) : list (list nat) := map snd ops.
Definition lab_at (ops : list label) (i : nat) : label := nth i ops dlabel.

Fixpoint index_of (i : nat) (l : list nat) : nat :=
  match l with
  | [] => 0
  | x :: t => if Nat.eqb x i then 0 else S (index_of i t)
  end.

(* [pi] lists, for every new position, the old index of the operation put there *)
Definition reorder (pi : list nat) (ops : list label) : list label := map (lab_at ops) pi.
Definition pos (pi : list nat) (i : nat) : nat := index_of i pi.
Definition inv (pi : list nat) (p : nat) : nat := nth p pi 0.

Definition is_perm (pi : list nat) (n : nat) : Prop := Permutation pi (seq 0 n).
Definition keeps_wire_order (pi : list nat) (ops : list label) : Prop :=
  forall i j, i < j -> j < length ops -> share (wires ops) i j -> pos pi i < pos pi j.
Definition valid_reorder (pi : list nat) (ops : list label) : Prop :=
  is_perm pi (length ops) /\ keeps_wire_order pi ops.

Definition node (ops : list label) (i : nat) : Prop :=
  i < length ops /\ snd (lab_at ops i) <> [].

Lemma wires_nth ops i : nth i (wires ops) [] = snd (lab_at ops i).
Proof. unfold wires, lab_at. change (@nil nat) with (snd dlabel). apply map_nth. Qed.

Lemma node_nodes ops i : node ops i <-> In i (nodes (wires ops)).
Proof.
  rewrite nodes_char. unfold node, wires. rewrite map_length.
  fold (wires ops). rewrite wires_nth. reflexivity.
Qed.

Lemma Consec_bridge ops i j :
  Consec (wires ops) i j <-> Consec_g (length ops) (fun k => snd (lab_at ops k)) i j.
Proof.
  change (Consec (wires ops) i j) with
    (Consec_g (length (wires ops)) (fun k => nth k (wires ops) []) i j).
  unfold wires at 1. rewrite map_length. apply Consec_g_ext. intros k. apply wires_nth.
Qed.

Lemma share_bridge ops i j :
  share (wires ops) i j <-> share_g (fun k => snd (lab_at ops k)) i j.
Proof.
  unfold share, share_g. split; intros (q&H1&H2); exists q.
  - rewrite !wires_nth in *. split; assumption.
  - rewrite !wires_nth. split; assumption.
Qed.

Lemma index_of_lt : forall l i, In i l -> index_of i l < length l.
Proof.
  induction l as [|x t IH]; intros i Hin; simpl; [destruct Hin|].
  destruct (Nat.eqb x i) eqn:E; [lia|].
  apply Nat.eqb_neq in E. destruct Hin as [He|Hin]; [congruence|].
  apply IH in Hin. lia.
Qed.

Lemma nth_index_of : forall l i, In i l -> nth (index_of i l) l 0 = i.
Proof.
  induction l as [|x t IH]; intros i Hin; simpl; [destruct Hin|].
  destruct (Nat.eqb x i) eqn:E.
  - apply Nat.eqb_eq in E. exact E.
  - apply Nat.eqb_neq in E. destruct Hin as [He|Hin]; [congruence|]. apply IH. exact Hin.
Qed.

Lemma index_of_nth : forall l p, NoDup l -> p < length l -> index_of (nth p l 0) l = p.
Proof.
  induction l as [|x t IH]; intros p Hnd Hp; simpl in *; [lia|].
  inversion Hnd as [|x' t' Hx Hnd']; subst.
  destruct p as [|p].
  - rewrite Nat.eqb_refl. reflexivity.
  - destruct (Nat.eqb x (nth p t 0)) eqn:E.
    + apply Nat.eqb_eq in E. exfalso. apply Hx. rewrite E. apply nth_In. lia.
    + f_equal. apply IH; [exact Hnd'|lia].
Qed.

Section PermFacts.
Variables (pi : list nat) (n : nat).
Hypothesis Hperm : is_perm pi n.

Lemma perm_length : length pi = n.
Proof. rewrite (Permutation_length Hperm). apply seq_length. Qed.

Lemma perm_in i : In i pi <-> i < n.
Proof.
  split; intros H.
  - apply (Permutation_in _ Hperm) in H. apply in_seq in H. lia.
  - apply (Permutation_in _ (Permutation_sym Hperm)). apply in_seq. lia.
Qed.

Lemma perm_nodup : NoDup pi.
Proof. apply (Permutation_NoDup (Permutation_sym Hperm)). apply seq_NoDup. Qed.

Lemma perm_pos_lt i : i < n -> pos pi i < n.
Proof. intros H. rewrite <- perm_length. apply index_of_lt. apply perm_in. exact H. Qed.

Lemma perm_inv_lt p : p < n -> inv pi p < n.
Proof. intros H. apply perm_in. apply nth_In. rewrite perm_length. exact H. Qed.

Lemma perm_pos_inv p : p < n -> pos pi (inv pi p) = p.
Proof. intros H. apply index_of_nth; [apply perm_nodup|rewrite perm_length; exact H]. Qed.

Lemma perm_inv_pos i : i < n -> inv pi (pos pi i) = i.
Proof. intros H. apply nth_index_of. apply perm_in. exact H. Qed.
End PermFacts.

Lemma reorder_length pi ops : length (reorder pi ops) = length pi.
Proof. apply map_length. Qed.

Lemma reorder_nth pi ops p : p < length pi ->
  lab_at (reorder pi ops) p = lab_at ops (inv pi p).
Proof.
  intros Hp. unfold lab_at at 1, reorder, inv.
  rewrite (nth_indep _ dlabel (lab_at ops 0)) by (rewrite map_length; exact Hp).
  apply map_nth.
Qed.

(* the operation at old index [i] sits at position [pos i], with its label *)
Theorem reorder_label pi ops i : is_perm pi (length ops) -> i < length ops ->
  lab_at (reorder pi ops) (pos pi i) = lab_at ops i.
Proof.
  intros Hp Hi. rewrite reorder_nth.
  - rewrite (perm_inv_pos _ _ Hp) by exact Hi. reflexivity.
  - rewrite (perm_length _ _ Hp). apply (perm_pos_lt _ _ Hp). exact Hi.
Qed.

Lemma reorder_length' pi ops : is_perm pi (length ops) -> length (reorder pi ops) = length ops.
Proof. intros Hp. rewrite reorder_length. apply (perm_length _ _ Hp). Qed.

Lemma map_nth_seq0 : forall (l : list label), map (lab_at l) (seq 0 (length l)) = l.
Proof.
  induction l as [|x t IH]; simpl; [reflexivity|].
  f_equal. rewrite <- seq_shift, map_map. exact IH.
Qed.

Theorem reorder_permutation pi ops : is_perm pi (length ops) -> Permutation ops (reorder pi ops).
Proof.
  intros Hp. rewrite <- (map_nth_seq0 ops) at 1. unfold reorder.
  apply Permutation_map. apply Permutation_sym. exact Hp.
Qed.

Lemma keeps_order_g pi ops : keeps_wire_order pi ops ->
  forall i j, i < j -> j < length ops -> share_g (fun k => snd (lab_at ops k)) i j ->
  pos pi i < pos pi j.
Proof. intros H i j Hij Hj Hs. apply H; [exact Hij|exact Hj|]. apply share_bridge. exact Hs. Qed.

(* A1 *)
Theorem reorder_consec pi ops : valid_reorder pi ops ->
  forall i j, i < length ops -> j < length ops ->
  (Consec (wires ops) i j <-> Consec (wires (reorder pi ops)) (pos pi i) (pos pi j)).
Proof.
  intros (Hp&Ho) i j Hi Hj. rewrite !Consec_bridge, (reorder_length' _ _ Hp).
  apply (reorder_consec_g (length ops) (lab_at ops) (lab_at (reorder pi ops)) (pos pi) (inv pi)).
  - apply (perm_pos_lt _ _ Hp).
  - apply (perm_inv_lt _ _ Hp).
  - apply (perm_pos_inv _ _ Hp).
  - intros k Hk. apply reorder_label; assumption.
  - apply keeps_order_g. exact Ho.
  - exact Hi.
  - exact Hj.
Qed.

(* A1 for the executable edge lists *)
Corollary reorder_edges pi ops : valid_reorder pi ops ->
  forall i j, i < length ops -> j < length ops ->
  (In (i, j) (edges (wires ops)) <->
   In (pos pi i, pos pi j) (edges (wires (reorder pi ops)))).
Proof. intros Hv i j Hi Hj. rewrite !edges_char. apply reorder_consec; assumption. Qed.

(* nodes are mapped to nodes *)
Corollary reorder_nodes pi ops : valid_reorder pi ops ->
  forall i, node ops i -> node (reorder pi ops) (pos pi i).
Proof.
  intros (Hp&_) i (Hi&Hne). split.
  - rewrite (reorder_length' _ _ Hp). apply (perm_pos_lt _ _ Hp). exact Hi.
  - rewrite reorder_label by assumption. exact Hne.
Qed.

(* A2 *)
Theorem iso_unique pi ops (f : nat -> nat) : valid_reorder pi ops ->
  (forall i, node ops i -> f i < length ops) ->
  (forall i, node ops i -> lab_at (reorder pi ops) (f i) = lab_at ops i) ->
  (forall i j, Consec (wires ops) i j -> Consec (wires (reorder pi ops)) (f i) (f j)) ->
  forall i, node ops i -> f i = pos pi i.
Proof.
  intros (Hp&Ho) Hlt Hlab Hedge i (Hi&Hne).
  apply (iso_unique_g (length ops) (lab_at ops) (lab_at (reorder pi ops)) (pos pi) (inv pi)).
  - apply (perm_pos_lt _ _ Hp).
  - apply (perm_inv_lt _ _ Hp).
  - apply (perm_pos_inv _ _ Hp).
  - intros k Hk. apply reorder_label; assumption.
  - apply keeps_order_g. exact Ho.
  - intros k Hk Hkne. apply Hlt. split; assumption.
  - intros k Hk Hkne. apply Hlab. split; assumption.
  - intros a b Hab. apply Consec_bridge in Hab. apply Hedge in Hab.
    apply Consec_bridge in Hab. rewrite (reorder_length' _ _ Hp) in Hab. exact Hab.
  - exact Hi.
  - exact Hne.
Qed.

(* A2 in the form used by the implementation: any graph isomorphism returned by
   the matcher (bijection on nodes, labels equal, edges preserved both ways,
   stated on the executable [nodes]/[edges]) is [pos] *)
Corollary iso_unique_exec pi ops (f : nat -> nat) : valid_reorder pi ops ->
  (forall i, In i (nodes (wires ops)) -> In (f i) (nodes (wires (reorder pi ops)))) ->
  (forall i, In i (nodes (wires ops)) -> lab_at (reorder pi ops) (f i) = lab_at ops i) ->
  (forall i j, In (i, j) (edges (wires ops)) ->
               In (f i, f j) (edges (wires (reorder pi ops)))) ->
  forall i, In i (nodes (wires ops)) -> f i = pos pi i.
Proof.
  intros Hv Hn Hl He i Hi. apply (iso_unique pi ops f Hv).
  - intros k Hk. apply node_nodes in Hk. apply Hn in Hk. apply node_nodes in Hk.
    destruct Hk as (Hk&_). rewrite reorder_length' in Hk by apply Hv. exact Hk.
  - intros k Hk. apply Hl. apply node_nodes. exact Hk.
  - intros a b Hab. apply edges_char. apply He. apply edges_char. exact Hab.
  - apply node_nodes. exact Hi.
Qed.

(* ------------------------------------------------------------------ *)
(* A3: rejection                                                        *)
(* ------------------------------------------------------------------ *)
Lemma NoDup_map_inj_in (f : nat -> nat) : forall l,
  (forall x y, In x l -> In y l -> f x = f y -> x = y) -> NoDup l -> NoDup (map f l).
Proof.
  induction l as [|a t IH]; intros Hinj Hnd; simpl; [constructor|].
  inversion Hnd as [|a' t' Ha Hnd']; subst. constructor.
  - intros Hin. apply in_map_iff in Hin. destruct Hin as (x&He&Hx).
    assert (x = a) by (apply Hinj; [right; exact Hx|left; reflexivity|exact He]).
    subst x. contradiction.
  - apply IH; [|exact Hnd']. intros x y Hx Hy. apply Hinj; right; assumption.
Qed.

(* a label-preserving injection between programs of equal length forces equal
   multisets of labels *)
Theorem label_bijection_perm ops1 ops2 (f : nat -> nat) :
  length ops1 = length ops2 ->
  (forall i, i < length ops1 -> f i < length ops2) ->
  (forall i j, i < length ops1 -> j < length ops1 -> f i = f j -> i = j) ->
  (forall i, i < length ops1 -> lab_at ops2 (f i) = lab_at ops1 i) ->
  Permutation ops1 ops2.
Proof.
  intros Hlen Hlt Hinj Hlab.
  rewrite <- (map_nth_seq0 ops1), <- (map_nth_seq0 ops2).
  rewrite (map_ext_in (lab_at ops1) (fun i => lab_at ops2 (f i))).
  2:{ intros i Hi. apply in_seq in Hi. symmetry. apply Hlab. lia. }
  rewrite <- (map_map f (lab_at ops2)). apply Permutation_map.
  apply NoDup_Permutation_bis.
  - apply NoDup_map_inj_in; [|apply seq_NoDup].
    intros x y Hx Hy. apply in_seq in Hx. apply in_seq in Hy. apply Hinj; lia.
  - rewrite map_length, !seq_length. lia.
  - intros y Hy. apply in_map_iff in Hy. destruct Hy as (x&He&Hx). subst y.
    apply in_seq in Hx. apply in_seq. assert (f x < length ops2) by (apply Hlt; lia). lia.
Qed.

Definition set_nth (p : nat) (x : label) (l : list label) : list label :=
  firstn p l ++ x :: skipn (S p) l.

Lemma split_nth : forall (l : list label) p, p < length l ->
  l = firstn p l ++ lab_at l p :: skipn (S p) l.
Proof.
  induction l as [|x t IH]; intros p Hp; simpl in *; [lia|].
  destruct p as [|p]; simpl; [reflexivity|]. f_equal. apply IH. lia.
Qed.

Lemma count_set_nth l p (x' : label) : p < length l -> x' <> lab_at l p ->
  S (count_occ label_eq_dec (set_nth p x' l) (lab_at l p)) =
  count_occ label_eq_dec l (lab_at l p).
Proof.
  intros Hp Hne. rewrite (split_nth l p Hp) at 3. unfold set_nth.
  rewrite !count_occ_app. simpl.
  destruct (label_eq_dec x' (lab_at l p)) as [E|_]; [contradiction|].
  destruct (label_eq_dec (lab_at l p) (lab_at l p)) as [_|E]; [lia|congruence].
Qed.

(* changing the label of one operation of a reordered program: no
   label-preserving bijection of the node sets exists *)
Theorem label_change_rejected pi ops p l' :
  is_perm pi (length ops) -> p < length ops ->
  l' <> lab_at (reorder pi ops) p ->
  let ops2 := set_nth p l' (reorder pi ops) in
  length ops2 = length ops /\
  ~ exists f : nat -> nat,
      (forall i, i < length ops -> f i < length ops2) /\
      (forall i j, i < length ops -> j < length ops -> f i = f j -> i = j) /\
      (forall i, i < length ops -> lab_at ops2 (f i) = lab_at ops i).
Proof.
  intros Hp Hlt Hne ops2.
  assert (Hl' := reorder_length' _ _ Hp).
  assert (Hlen : length ops2 = length ops).
  { unfold ops2, set_nth. rewrite <- Hl'.
    rewrite (split_nth (reorder pi ops) p) at 3 by lia.
    rewrite !app_length. reflexivity. }
  split; [exact Hlen|]. intros (f&H1&H2&H3).
  assert (P1 : Permutation ops ops2) by (apply (label_bijection_perm ops ops2 f); auto).
  assert (P2 : Permutation (reorder pi ops) ops2).
  { eapply Permutation_trans; [apply Permutation_sym; apply reorder_permutation; exact Hp|exact P1]. }
  apply (Permutation_count_occ label_eq_dec) with (x := lab_at (reorder pi ops) p) in P2.
  assert (C := count_set_nth (reorder pi ops) p l' ltac:(lia) Hne).
  fold ops2 in C. lia.
Qed.

Definition swap_idx (a b k : nat) : nat :=
  if Nat.eqb k a then b else if Nat.eqb k b then a else k.
Definition swap_at (a b : nat) (l : list label) : list label :=
  map (fun k => lab_at l (swap_idx a b k)) (seq 0 (length l)).

Lemma swap_at_length a b l : length (swap_at a b l) = length l.
Proof. unfold swap_at. rewrite map_length. apply seq_length. Qed.

Lemma swap_at_nth a b l k : k < length l ->
  lab_at (swap_at a b l) k = lab_at l (swap_idx a b k).
Proof.
  intros Hk. unfold lab_at at 1, swap_at.
  set (F := fun k => lab_at l (swap_idx a b k)).
  rewrite (nth_indep _ dlabel (F 0))
    by (rewrite map_length, seq_length; exact Hk).
  rewrite map_nth. rewrite seq_nth by exact Hk. reflexivity.
Qed.

(* exchanging two differently labelled operations that share a wire in a
   reordered program: not even a label-preserving homomorphism of the
   dependency graphs exists, a fortiori no isomorphism *)
Theorem order_change_rejected pi ops a b :
  valid_reorder pi ops -> a < length ops -> b < length ops ->
  share (wires (reorder pi ops)) a b ->
  lab_at (reorder pi ops) a <> lab_at (reorder pi ops) b ->
  let ops2 := swap_at a b (reorder pi ops) in
  length ops2 = length ops /\
  ~ exists f : nat -> nat,
      (forall i, node ops i -> f i < length ops2) /\
      (forall i, node ops i -> lab_at ops2 (f i) = lab_at ops i) /\
      (forall i j, Consec (wires ops) i j -> Consec (wires ops2) (f i) (f j)).
Proof.
  intros (Hp&Ho) Ha Hb Hs Hne ops2.
  assert (Hl' := reorder_length' _ _ Hp).
  assert (Hlen : length ops2 = length ops)
    by (unfold ops2; rewrite swap_at_length; exact Hl').
  split; [exact Hlen|]. intros (f&H1&H2&H3).
  apply (order_change_rejected_g (length ops) (lab_at ops) (lab_at (reorder pi ops))
           (pos pi) (inv pi)
           (perm_inv_lt _ _ Hp) (perm_pos_inv _ _ Hp)
           (fun k Hk => reorder_label pi ops k Hp Hk)
           (keeps_order_g pi ops Ho)
           a b (lab_at ops2) Ha) with (f := f).
  - intros k Hk. unfold ops2. apply swap_at_nth. rewrite Hl'. exact Hk.
  - apply share_bridge. exact Hs.
  - exact Hne.
  - intros i Hi Hine. rewrite <- Hlen. apply H1. split; assumption.
  - intros i Hi Hine. apply H2. split; assumption.
  - intros i j Hij. apply Consec_bridge in Hij. apply H3 in Hij.
    apply Consec_bridge in Hij. rewrite Hlen in Hij. exact Hij.
Qed.

(* ================================================================== *)
(* PART B                                                               *)
(* ================================================================== *)

Section PartB.
Local Open Scope Q_scope.

Definition solve_affine (a b y : Q) : Q := (y - b) / a.

Lemma solve_inverts (a b s : Q) : ~ a == 0 -> solve_affine a b (a * s + b) == s.
Proof. intros Ha. unfold solve_affine. field. exact Ha. Qed.

Lemma solve_sound (a b y : Q) : ~ a == 0 -> a * solve_affine a b y + b == y.
Proof. intros Ha. unfold solve_affine. field. exact Ha. Qed.

Inductive targ : Type :=
| TConst (c : Q)
| TAffine (p : nat) (a b : Q).

Definition inst (sigma : nat -> Q) (t : targ) : Q :=
  match t with
  | TConst c => c
  | TAffine p a b => a * sigma p + b
  end.

Definition wf_targ (t : targ) : Prop :=
  match t with
  | TConst _ => True
  | TAffine _ a _ => ~ a == 0
  end.

Definition match_arg (t : targ) (y : Q) : list (nat * Q) :=
  match t with
  | TConst _ => []
  | TAffine p a b => [(p, solve_affine a b y)]
  end.

Fixpoint match_args (ts : list targ) (ys : list Q) : list (nat * Q) :=
  match ts, ys with
  | t :: ts', y :: ys' => match_arg t y ++ match_args ts' ys'
  | _, _ => []
  end.

Fixpoint match_ops (tss : list (list targ)) (yss : list (list Q)) : list (nat * Q) :=
  match tss, yss with
  | ts :: tss', ys :: yss' => match_args ts ys ++ match_ops tss' yss'
  | _, _ => []
  end.

Definition agree (b1 b2 : nat * Q) : bool :=
  if Nat.eqb (fst b1) (fst b2) then Qeq_bool (snd b1) (snd b2) else true.

Fixpoint consistent (bs : list (nat * Q)) : bool :=
  match bs with
  | [] => true
  | b :: r => forallb (agree b) r && consistent r
  end.

Definition upd (sigma : nat -> Q) (p : nat) (v : Q) : nat -> Q :=
  fun x => if Nat.eqb x p then v else sigma x.

Fixpoint bind (sigma : nat -> Q) (bs : list (nat * Q)) : nat -> Q :=
  match bs with
  | [] => sigma
  | (p, v) :: r => bind (upd sigma p v) r
  end.

Definition correct (sigma : nat -> Q) (bs : list (nat * Q)) : Prop :=
  forall p v, In (p, v) bs -> v == sigma p.

Lemma match_arg_correct sigma t : wf_targ t -> correct sigma (match_arg t (inst sigma t)).
Proof.
  destruct t as [c|p a b]; simpl; intros Hw q v Hin.
  - destruct Hin.
  - destruct Hin as [He|[]]. inversion He; subst q v.
    apply solve_inverts. exact Hw.
Qed.

Lemma correct_app sigma l1 l2 : correct sigma l1 -> correct sigma l2 -> correct sigma (l1 ++ l2).
Proof.
  intros H1 H2 p v Hin. apply in_app_or in Hin. destruct Hin; [apply H1|apply H2]; assumption.
Qed.

Lemma match_args_correct sigma ts :
  Forall wf_targ ts -> correct sigma (match_args ts (map (inst sigma) ts)).
Proof.
  induction ts as [|t ts IH]; intros Hw; simpl.
  - intros p v [].
  - inversion Hw; subst. apply correct_app; [apply match_arg_correct; assumption|apply IH; assumption].
Qed.

Lemma match_ops_correct sigma tss :
  Forall (Forall wf_targ) tss ->
  correct sigma (match_ops tss (map (map (inst sigma)) tss)).
Proof.
  induction tss as [|ts tss IH]; intros Hw; simpl.
  - intros p v [].
  - inversion Hw; subst. apply correct_app; [apply match_args_correct; assumption|apply IH; assumption].
Qed.

Lemma correct_consistent sigma bs : correct sigma bs -> consistent bs = true.
Proof.
  induction bs as [|[p v] r IH]; intros Hc; simpl; [reflexivity|].
  apply andb_true_iff. split.
  - apply forallb_forall. intros [p' v'] Hin. unfold agree. simpl.
    destruct (Nat.eqb p p') eqn:E; [|reflexivity].
    apply Nat.eqb_eq in E. subst p'. apply Qeq_bool_iff.
    rewrite (Hc p v (or_introl eq_refl)). rewrite (Hc p v' (or_intror Hin)). reflexivity.
  - apply IH. intros q w Hin. apply Hc. right. exact Hin.
Qed.

Lemma bind_notin : forall bs sigma x, ~ In x (map fst bs) -> bind sigma bs x = sigma x.
Proof.
  induction bs as [|[p v] r IH]; intros sigma x Hn; simpl; [reflexivity|].
  rewrite IH.
  - unfold upd. destruct (Nat.eqb x p) eqn:E; [|reflexivity].
    apply Nat.eqb_eq in E. exfalso. apply Hn. left. simpl. auto.
  - intros H. apply Hn. right. exact H.
Qed.

Lemma bind_bound : forall bs s d x,
  correct s bs -> In x (map fst bs) -> bind d bs x == s x.
Proof.
  induction bs as [|[p v] r IH]; intros s d x Hc Hin; simpl.
  - destruct Hin.
  - destruct (in_dec Nat.eq_dec x (map fst r)) as [Hr|Hr].
    + apply IH; [|exact Hr]. intros q w H. apply Hc. right. exact H.
    + rewrite bind_notin by exact Hr. destruct Hin as [He|Hin]; [|contradiction].
      simpl in He. subst p. unfold upd. rewrite Nat.eqb_refl.
      apply Hc. left. reflexivity.
Qed.

Lemma bind_default : forall bs s d x,
  correct s bs -> d x == s x -> bind d bs x == s x.
Proof.
  intros bs s d x Hc Hd.
  destruct (in_dec Nat.eq_dec x (map fst bs)) as [Hr|Hr].
  - apply bind_bound; assumption.
  - rewrite bind_notin by exact Hr. exact Hd.
Qed.

(* parameters occurring in a list of template arguments *)
Definition params_of (t : targ) : list nat :=
  match t with TConst _ => [] | TAffine p _ _ => [p] end.

Lemma match_args_keys : forall ts ys, length ys = length ts ->
  map fst (match_args ts ys) = flat_map params_of ts.
Proof.
  induction ts as [|t ts IH]; intros ys Hl; destruct ys as [|y ys]; simpl in *; try discriminate.
  - reflexivity.
  - rewrite map_app. rewrite IH by lia. f_equal. destruct t; reflexivity.
Qed.

Lemma match_ops_keys : forall tss yss, Forall2 (fun ts ys => length ys = length ts) tss yss ->
  map fst (match_ops tss yss) = flat_map (flat_map params_of) tss.
Proof.
  induction 1 as [|ts ys tss yss H1 H2 IH]; simpl; [reflexivity|].
  rewrite map_app, IH, match_args_keys by exact H1. reflexivity.
Qed.

Lemma inst_ext s1 s2 t :
  (forall p, In p (params_of t) -> s1 p == s2 p) -> inst s1 t == inst s2 t.
Proof.
  destruct t as [c|p a b]; simpl; intros H; [reflexivity|].
  rewrite (H p (or_introl eq_refl)). reflexivity.
Qed.

(* pointwise == of lists of rationals *)
Definition Qlist_eq (l1 l2 : list Q) : Prop := Forall2 Qeq l1 l2.

Lemma map_inst_ext s1 s2 ts :
  (forall p, In p (flat_map params_of ts) -> s1 p == s2 p) ->
  Qlist_eq (map (inst s1) ts) (map (inst s2) ts).
Proof.
  induction ts as [|t ts IH]; intros H; simpl; constructor.
  - apply inst_ext. intros p Hp. apply H. simpl. apply in_or_app. left. exact Hp.
  - apply IH. intros p Hp. apply H. simpl. apply in_or_app. right. exact Hp.
Qed.

(* B2, one operation *)
Theorem match_inverts_inst (sigma : nat -> Q) (ts : list targ) :
  Forall wf_targ ts ->
  let ys := map (inst sigma) ts in
  let bs := match_args ts ys in
  (forall p v, In (p, v) bs -> v == sigma p) /\
  consistent bs = true /\
  Qlist_eq (map (inst (bind sigma bs)) ts) ys /\
  (forall dflt, Qlist_eq (map (inst (bind dflt bs)) ts) ys).
Proof.
  intros Hw ys bs.
  assert (Hc : correct sigma bs) by (apply match_args_correct; exact Hw).
  split; [exact Hc|]. split; [eapply correct_consistent; exact Hc|].
  assert (Hd : forall dflt, Qlist_eq (map (inst (bind dflt bs)) ts) ys).
  { intros dflt. apply map_inst_ext. intros p Hp. apply bind_bound; [exact Hc|].
    unfold bs. rewrite match_args_keys; [exact Hp|]. unfold ys. apply map_length. }
  split; [apply Hd|exact Hd].
Qed.

Lemma Forall2_map_same {A B} (P : A -> B -> Prop) (f : A -> B) l :
  (forall x, In x l -> P x (f x)) -> Forall2 P l (map f l).
Proof.
  induction l as [|a l IH]; intros H; simpl; constructor.
  - apply H. left. reflexivity.
  - apply IH. intros x Hx. apply H. right. exact Hx.
Qed.

(* B2, whole program: the bindings are collected over all matched operations *)
Theorem match_ops_inverts_inst (sigma : nat -> Q) (tss : list (list targ)) :
  Forall (Forall wf_targ) tss ->
  let yss := map (map (inst sigma)) tss in
  let bs := match_ops tss yss in
  (forall p v, In (p, v) bs -> v == sigma p) /\
  consistent bs = true /\
  (forall dflt, Forall2 Qlist_eq (map (map (inst (bind dflt bs))) tss) yss).
Proof.
  intros Hw yss bs.
  assert (Hc : correct sigma bs) by (apply match_ops_correct; exact Hw).
  split; [exact Hc|]. split; [eapply correct_consistent; exact Hc|].
  intros dflt.
  assert (Hk : map fst bs = flat_map (flat_map params_of) tss).
  { unfold bs, yss. apply match_ops_keys. apply Forall2_map_same.
    intros ts _. apply map_length. }
  assert (Hall : forall ts, In ts tss ->
            Qlist_eq (map (inst (bind dflt bs)) ts) (map (inst sigma) ts)).
  { intros ts Hts. apply map_inst_ext. intros p Hp. apply bind_bound; [exact Hc|].
    rewrite Hk. apply in_flat_map. exists ts. split; assumption. }
  clear Hk Hc Hw. clearbody bs. unfold yss. clear yss.
  induction tss as [|ts tss IH]; simpl; constructor.
  - apply Hall. left. reflexivity.
  - apply IH. intros ts' H. apply Hall. right. exact H.
Qed.

Example solve_ex1 : solve_affine (2#1) (-1#1) (3#1) == 2#1.
Proof. vm_compute. reflexivity. Qed.
Example solve_ex2 : solve_affine (2#1) (-(1#1)) ((2#1) * (7#3) + -(1#1)) == 7#3.
Proof. apply solve_inverts. discriminate. Qed.

End PartB.

(* ================================================================== *)
(* A2 once more, literally as a statement about isomorphisms            *)
(* ================================================================== *)
(* [f] is a bijection between the node sets (inverse [g]), preserves labels,
   and preserves edges in both directions.  Only a part of this is needed. *)
Corollary iso_unique_bij pi ops (f g : nat -> nat) : valid_reorder pi ops ->
  (forall i, node ops i -> node (reorder pi ops) (f i)) ->
  (forall p, node (reorder pi ops) p -> node ops (g p)) ->
  (forall i, node ops i -> g (f i) = i) ->
  (forall p, node (reorder pi ops) p -> f (g p) = p) ->
  (forall i, node ops i -> lab_at (reorder pi ops) (f i) = lab_at ops i) ->
  (forall i j, node ops i -> node ops j ->
     (Consec (wires ops) i j <-> Consec (wires (reorder pi ops)) (f i) (f j))) ->
  forall i, node ops i -> f i = pos pi i.
Proof.
  intros Hv Hf _ _ _ Hl He i Hi. apply (iso_unique pi ops f Hv); try assumption.
  - intros k Hk. apply Hf in Hk. destruct Hk as (Hk&_).
    rewrite reorder_length' in Hk by apply Hv. exact Hk.
  - intros a b Hab.
    assert (Hn : node ops a /\ node ops b).
    { apply edges_char in Hab. apply edges_endpoints_nodes in Hab.
      split; apply node_nodes; tauto. }
    apply He; tauto.
Qed.

(* ================================================================== *)
(* PART C: matching a reordered instantiation of a template             *)
(* ================================================================== *)
Definition dtop : label * list targ := (dlabel, []).
Definition dpop : label * list Q := (dlabel, []).
Definition targs_at (tmpl : list (label * list targ)) (i : nat) : list targ :=
  snd (nth i tmpl dtop).
Definition pargs_at (prog : list (label * list Q)) (i : nat) : list Q :=
  snd (nth i prog dpop).
Definition instantiate (sigma : nat -> Q) (tmpl : list (label * list targ))
  : list (label * list Q) :=
  map (fun o => (fst o, map (inst sigma) (snd o))) tmpl.
(* the program: the instantiated template, operations put in the order [pi] *)
Definition reordered_inst (sigma : nat -> Q) (pi : list nat)
  (tmpl : list (label * list targ)) : list (label * list Q) :=
  map (fun k => nth k (instantiate sigma tmpl) dpop) pi.

Lemma instantiate_nth sigma tmpl k :
  nth k (instantiate sigma tmpl) dpop =
  (fst (nth k tmpl dtop), map (inst sigma) (targs_at tmpl k)).
Proof.
  unfold instantiate, targs_at.
  change dpop with ((fun o : label * list targ => (fst o, map (inst sigma) (snd o))) dtop).
  rewrite map_nth. reflexivity.
Qed.

Lemma reordered_inst_labels sigma pi tmpl :
  map fst (reordered_inst sigma pi tmpl) = reorder pi (map fst tmpl).
Proof.
  unfold reordered_inst, reorder. rewrite map_map. apply map_ext. intros k.
  rewrite instantiate_nth. simpl. unfold lab_at.
  change dlabel with (fst dtop). rewrite map_nth. reflexivity.
Qed.

Lemma reordered_inst_args sigma pi tmpl i :
  is_perm pi (length tmpl) -> i < length tmpl ->
  pargs_at (reordered_inst sigma pi tmpl) (pos pi i) = map (inst sigma) (targs_at tmpl i).
Proof.
  intros Hp Hi. unfold pargs_at, reordered_inst.
  set (F := fun k => nth k (instantiate sigma tmpl) dpop).
  rewrite (nth_indep _ dpop (F 0)).
  - rewrite map_nth. fold (inv pi (pos pi i)). rewrite (perm_inv_pos _ _ Hp) by exact Hi.
    unfold F. rewrite instantiate_nth. reflexivity.
  - rewrite map_length, (perm_length _ _ Hp). apply (perm_pos_lt _ _ Hp). exact Hi.
Qed.

(* [tops] / [pops] are the label lists from which the two graphs are built.
   [f] is whatever label preserving graph homomorphism (e.g. isomorphism) the
   matcher found; [ns] is the order in which the matched node pairs are visited. *)
Theorem match_template_reordered sigma pi tmpl :
  let tops := map fst tmpl in
  let prog := reordered_inst sigma pi tmpl in
  let pops := map fst prog in
  valid_reorder pi tops ->
  Forall (Forall wf_targ) (map snd tmpl) ->
  pops = reorder pi tops /\
  forall f : nat -> nat,
    (forall i, node tops i -> f i < length tops) ->
    (forall i, node tops i -> lab_at pops (f i) = lab_at tops i) ->
    (forall i j, Consec (wires tops) i j -> Consec (wires pops) (f i) (f j)) ->
    (forall i, node tops i -> pargs_at prog (f i) = map (inst sigma) (targs_at tmpl i)) /\
    forall ns, Forall (node tops) ns ->
      let tss := map (targs_at tmpl) ns in
      let yss := map (fun i => pargs_at prog (f i)) ns in
      let bs := match_ops tss yss in
      (forall p v, In (p, v) bs -> (v == sigma p)%Q) /\
      consistent bs = true /\
      forall dflt, Forall2 Qlist_eq (map (map (inst (bind dflt bs))) tss) yss.
Proof.
  intros tops prog pops Hv Hw.
  assert (Hpops : pops = reorder pi tops) by apply reordered_inst_labels.
  split; [exact Hpops|]. intros f Hlt Hlab Hedge.
  assert (Hlen : length tops = length tmpl) by apply map_length.
  assert (Hf : forall i, node tops i -> f i = pos pi i).
  { rewrite Hpops in Hlab, Hedge. apply (iso_unique pi tops f Hv); assumption. }
  assert (Hargs : forall i, node tops i ->
            pargs_at prog (f i) = map (inst sigma) (targs_at tmpl i)).
  { intros i Hi. rewrite (Hf i Hi). destruct Hi as (Hi&_). destruct Hv as (Hp&_).
    rewrite Hlen in Hp, Hi. apply reordered_inst_args; assumption. }
  split; [exact Hargs|]. intros ns Hns tss yss bs.
  assert (Hy : yss = map (map (inst sigma)) tss).
  { unfold yss, tss. rewrite map_map. apply map_ext_in. intros i Hi. apply Hargs.
    rewrite Forall_forall in Hns. apply Hns. exact Hi. }
  assert (Hwt : Forall (Forall wf_targ) tss).
  { unfold tss. apply Forall_forall. intros ts Hts. apply in_map_iff in Hts.
    destruct Hts as (i&He&Hi). subst ts.
    rewrite Forall_forall in Hns. destruct (Hns i Hi) as (Hil&_).
    rewrite Forall_forall in Hw. apply Hw. unfold targs_at.
    apply in_map. apply nth_In. lia. }
  unfold bs. rewrite Hy. apply match_ops_inverts_inst. exact Hwt.
Qed.

(* ================================================================== *)
(* Examples                                                             *)
(* ================================================================== *)
(* 4 operations on the wires 0 and 1:
     0: G1 | 0     1: G2 | 1     2: G3 | [0,1]     3: G1 | 0
   operations 0 and 1 act on disjoint modes and are exchanged.             *)
Definition ex_ops : list label := [(1, [0]); (2, [1]); (3, [0; 1]); (1, [0])].
Definition ex_pi : list nat := [1; 0; 2; 3].
Definition ex_ops' : list label := reorder ex_pi ex_ops.

Example ex_reorder : ex_ops' = [(2, [1]); (1, [0]); (3, [0; 1]); (1, [0])].
Proof. vm_compute. reflexivity. Qed.
Example ex_pos : map (pos ex_pi) [0; 1; 2; 3] = [1; 0; 2; 3].
Proof. vm_compute. reflexivity. Qed.
Example ex_edges : edges (wires ex_ops) = [(0, 2); (2, 3); (1, 2)].
Proof. vm_compute. reflexivity. Qed.
Example ex_edges' : edges (wires ex_ops') = [(0, 2); (1, 2); (2, 3)].
Proof. vm_compute. reflexivity. Qed.

Definition edge_mem (e : nat * nat) (l : list (nat * nat)) : bool :=
  existsb (fun e' => Nat.eqb (fst e) (fst e') && Nat.eqb (snd e) (snd e')) l.
Definition map_edge (f : nat -> nat) (e : nat * nat) : nat * nat := (f (fst e), f (snd e)).

(* A1 by computation: the image of the edge list under pos is the edge list of
   the reordered program (as sets; the enumeration order differs) *)
Example ex_A1_image : map (map_edge (pos ex_pi)) (edges (wires ex_ops)) = [(1, 2); (2, 3); (0, 2)].
Proof. vm_compute. reflexivity. Qed.
Example ex_A1_computed :
  forallb (fun e => edge_mem (map_edge (pos ex_pi) e) (edges (wires ex_ops')))
          (edges (wires ex_ops)) = true /\
  forallb (fun e => edge_mem e (map (map_edge (pos ex_pi)) (edges (wires ex_ops))))
          (edges (wires ex_ops')) = true /\
  length (edges (wires ex_ops)) = length (edges (wires ex_ops')).
Proof. vm_compute. repeat split. Qed.

Example ex_valid : valid_reorder ex_pi ex_ops.
Proof.
  split.
  - unfold is_perm. simpl. apply perm_swap.
  - intros i j Hij Hj Hs. simpl in Hj.
    destruct Hs as (q&H1&H2).
    destruct i as [|[|[|[|i]]]]; destruct j as [|[|[|[|j]]]]; try lia;
      try (vm_compute; lia);
      simpl in H1, H2; intuition lia.
Qed.

(* A1 and A2 instantiated on the example *)
Example ex_A1 : forall i j, i < 4 -> j < 4 ->
  (In (i, j) (edges (wires ex_ops)) <-> In (pos ex_pi i, pos ex_pi j) (edges (wires ex_ops'))).
Proof. exact (reorder_edges ex_pi ex_ops ex_valid). Qed.

(* exchanging G3 | [0,1] with the preceding G1 | 0 is rejected *)
Example ex_order_rejected :
  ~ exists f : nat -> nat,
      (forall i, node ex_ops i -> f i < length (swap_at 1 2 ex_ops')) /\
      (forall i, node ex_ops i -> lab_at (swap_at 1 2 ex_ops') (f i) = lab_at ex_ops i) /\
      (forall i j, Consec (wires ex_ops) i j ->
                   Consec (wires (swap_at 1 2 ex_ops')) (f i) (f j)).
Proof.
  apply (order_change_rejected ex_pi ex_ops 1 2 ex_valid).
  - simpl; lia.
  - simpl; lia.
  - exists 0. vm_compute. auto.
  - vm_compute. discriminate.
Qed.

(* B: the template  Dgate(-{p0}, 9/20) ; Sgate({p0}, 2*{p1}-1)  instantiated
   with p0 = 1/2, p1 = -7/4 *)
Definition ex_targs : list targ :=
  [TAffine 0 (-1#1) 0; TConst (9#20); TAffine 0 1 0; TAffine 1 (2#1) (-1#1)].
Definition ex_sigma (p : nat) : Q := match p with 0 => 1#2 | _ => -7#4 end.

Example ex_match :
  match_args ex_targs (map (inst ex_sigma) ex_targs) =
  [(0%nat, solve_affine (-1#1) 0 ((-1#1) * (1#2) + 0));
   (0%nat, solve_affine 1 0 (1 * (1#2) + 0));
   (1%nat, solve_affine (2#1) (-1#1) ((2#1) * (-7#4) + (-1#1)))]%Q.
Proof. reflexivity. Qed.
Example ex_match_values :
  map (fun b => (fst b, Qred (snd b))) (match_args ex_targs (map (inst ex_sigma) ex_targs)) =
  [(0%nat, 1#2); (0%nat, 1#2); (1%nat, -7#4)]%Q.
Proof. vm_compute. reflexivity. Qed.
Example ex_consistent : consistent (match_args ex_targs (map (inst ex_sigma) ex_targs)) = true.
Proof. vm_compute. reflexivity. Qed.
Example ex_inconsistent : consistent [(0%nat, 1#2); (1%nat, 3#1); (0%nat, 2#3)]%Q = false.
Proof. vm_compute. reflexivity. Qed.

Print Assumptions reorder_consec.
Print Assumptions reorder_edges.
Print Assumptions iso_unique.
Print Assumptions iso_unique_exec.
Print Assumptions iso_unique_bij.
Print Assumptions label_bijection_perm.
Print Assumptions label_change_rejected.
Print Assumptions order_change_rejected.
Print Assumptions solve_inverts.
Print Assumptions match_inverts_inst.
Print Assumptions match_ops_inverts_inst.
Print Assumptions match_template_reordered.
Print Assumptions ex_A1.
Print Assumptions ex_order_rejected.
