(* Parsing the printed tokens (model/Unparse.v) gives the tree back, positions erased:

     unparse_parse_exact : wf_script sc -> exists F, forall f, F <= f -> pscript f (up_script sc) = Some (erase_script sc)
     unparse_parse       : wf_script sc -> exists f, option_map erase_script (pscript f (up_script sc)) = Some (erase_script sc)

   Printed tokens have line = col = 0, so the parser returns exactly the erased tree; the second form follows by
   idempotence of erasure.  One lemma per parser function (pexpr_up, pval_up, psep_up, pvallist_up, parrayrow_up,
   pkwarg_up, pposargs_up, parguments_up, pstatement_up, pforbody_up, pfor_up, pshape_up, parrayval_up,
   pdecl_scalar_up, pdecl_array_up, pprogram_up, pincludes_up, pmeta_up), each of the form
   "for all large enough fuel, p f (up_X x ++ rest) = Some (erase_X x, rest)" under a condition on the first token
   of rest.  Because every lemma is stated for all large enough fuel ([Ev]), fuel monotonicity is only needed for
   pexpr (ExprP.pexpr_mono); section 14b nevertheless proves *_mono for every option-valued parser function up to
   pprogram and pmetaline.

   wf_script lists exactly the side conditions used: expressions are stratified (ExprP.WF); string values contain no
   quote character; mode lists, array rows, list headers, for bodies are non-empty; a shape, when present, is
   non-empty; a reserved declared name is one of the four reserved words. *)
From Coq Require Import List Arith Bool Lia NArith.
Import ListNotations.
From BB Require Import Lexer Syntax Parser ExprP Unparse.

(* ------------------------------------------------------------------------------------------------ *)
(* 0. Erasure of positions                                                                           *)
(* ------------------------------------------------------------------------------------------------ *)
Fixpoint erase_expr (e:expr) : expr :=
  match e with
  | ENum k s => ENum k s
  | EVar x _ _ => EVar x 0 0
  | EReg s => EReg s
  | EIdx x _ _ e1 => EIdx x 0 0 (erase_expr e1)
  | EPar p => EPar p
  | EBr e1 => EBr (erase_expr e1)
  | ESign s e1 => ESign s (erase_expr e1)
  | EPow a b => EPow (erase_expr a) (erase_expr b)
  | EMul d a b => EMul d (erase_expr a) (erase_expr b)
  | EAdd s a b => EAdd s (erase_expr a) (erase_expr b)
  | EFun f e1 => EFun f (erase_expr e1)
  end.

Definition erase_val (v:val) : val := match v with VE e => VE (erase_expr e) | _ => v end.
Definition erase_kwval (k:kwval) : kwval :=
  match k with KV v => KV (erase_val v) | KL l => KL (map erase_val l) end.
Definition erase_kwarg (kw:str * kwval) : str * kwval := (fst kw, erase_kwval (snd kw)).
Definition erase_args (a:arguments) : arguments := mkargs (map erase_val (apos a)) (map erase_kwarg (akw a)).
Definition erase_oargs (a:option arguments) : option arguments := option_map erase_args a.
Definition erase_stmt (s:stmt) : stmt := mkstmt (sop s) (erase_oargs (sargs s)) (map erase_expr (smodes s)).
Definition erase_dname (n:dname) : dname :=
  match n with DName x => DName x | DReg s _ _ => DReg s 0 0 | DReserved s _ _ => DReserved s 0 0 end.
Definition erase_arrbody (b:arrbody) : arrbody :=
  match b with ARows rows => ARows (map (map erase_expr) rows) | AParam p => AParam p end.
Definition erase_hdr (h:forhdr) : forhdr :=
  match h with HRange a b c => HRange a b c | HList l => HList (map erase_val l) end.
Definition erase_item (it:item) : item :=
  match it with
  | IScalar ty n v _ _ => IScalar ty (erase_dname n) (erase_val v) 0 0
  | IArray ty n sh b _ _ => IArray ty (erase_dname n) sh (erase_arrbody b) 0 0
  | IStmt s => IStmt (erase_stmt s)
  | IFor ty x h body => IFor ty x (erase_hdr h) (map erase_stmt body)
  end.
Definition erase_meta (m:option (str * option arguments)) : option (str * option arguments) :=
  match m with Some (d, a) => Some (d, erase_oargs a) | None => None end.
Definition erase_script (sc:script) : script :=
  mkscript (sc_name sc) (sc_version sc) (erase_meta (sc_target sc)) (erase_meta (sc_type sc))
           (sc_includes sc) (map erase_item (sc_items sc)).

(* ------------------------------------------------------------------------------------------------ *)
(* 1. Well-formedness: exactly what the proof below uses                                             *)
(* ------------------------------------------------------------------------------------------------ *)
Definition noquote (s:str) : Prop := Forall (fun c => c <> 34%N) s.

Definition wf_val (v:val) : Prop :=
  match v with VE e => WF e | VS s => noquote s | VB _ => True end.
Definition wf_kwval (k:kwval) : Prop :=
  match k with KV v => wf_val v | KL l => Forall wf_val l end.
Definition wf_args (a:arguments) : Prop :=
  Forall wf_val (apos a) /\ Forall (fun kw => wf_kwval (snd kw)) (akw a).
Definition wf_oargs (a:option arguments) : Prop := match a with Some a => wf_args a | None => True end.
Definition wf_row (row:list expr) : Prop := row <> [] /\ Forall WF row.
Definition wf_stmt (s:stmt) : Prop := wf_oargs (sargs s) /\ wf_row (smodes s).
Definition wf_dname (n:dname) : Prop :=
  match n with DReserved s _ _ => reserved_num s <> None | _ => True end.
Definition wf_arrbody (b:arrbody) : Prop :=
  match b with ARows rows => Forall wf_row rows | AParam _ => True end.
Definition wf_hdr (h:forhdr) : Prop :=
  match h with HRange _ _ _ => True | HList l => l <> [] /\ Forall wf_val l end.
Definition wf_item (it:item) : Prop :=
  match it with
  | IScalar _ n v _ _ => wf_dname n /\ wf_val v
  | IArray _ n sh b _ _ => wf_dname n /\ sh <> Some [] /\ wf_arrbody b
  | IStmt s => wf_stmt s
  | IFor _ _ h body => wf_hdr h /\ body <> [] /\ Forall wf_stmt body
  end.
Definition wf_meta (m:option (str * option arguments)) : Prop :=
  match m with Some (_, a) => wf_oargs a | None => True end.
Definition wf_script (sc:script) : Prop :=
  wf_meta (sc_target sc) /\ wf_meta (sc_type sc) /\ Forall wf_item (sc_items sc).

(* ------------------------------------------------------------------------------------------------ *)
(* 2. Tactics: evaluate token-kind tests on printed tokens                                           *)
(* ------------------------------------------------------------------------------------------------ *)
Ltac evb t :=
  let v := eval lazy in t in
  lazymatch v with true => change t with true | false => change t with false end.
Ltac evk t :=
  let v := eval lazy in (tkk t) in
  is_constructor v; change (tkk t) with v.
Ltac kk := repeat (cbn [app andb orb negb peek peek2 skip_nl tl];
  match goal with
  | |- context [isk ?k ?t] => evb (isk k t)
  | |- context [tk_beq ?a ?b] => evb (tk_beq a b)
  | |- context [kwstart ?l] => evb (kwstart l)
  | |- context [tkk ?t] => evk t
  end); cbn [app andb orb negb peek peek2 skip_nl tl].
Ltac norm := repeat (progress cbn [app] || rewrite <- app_assoc).

(* "for all large enough fuel" *)
Definition Ev (P : nat -> Prop) : Prop := exists F, forall f, F <= f -> P f.

(* ------------------------------------------------------------------------------------------------ *)
(* 3. Follow sets and first tokens                                                                   *)
(* ------------------------------------------------------------------------------------------------ *)
(* what may follow a complete list of values / a row: a closer, the end of the line, the end of input *)
Definition cfol (k:tk) : bool := match k with TRBRAC | TRSQBRAC | TNEWLINE | TEOF => true | _ => false end.
(* what may follow a value *)
Definition vfol (k:tk) : bool := match k with TCOMMA => true | k => cfol k end.
(* first tokens of values *)
Definition vstart (k:tk) : bool :=
  match k with TSTR | TBOOL => true | k => match hd_of k with HBad => false | _ => true end end.
(* what may follow an item: the first token of another item, or the end of input *)
Definition ifol (k:tk) : bool :=
  match k with
  | TEOF | TNAME | TMEASURE | TFOR
  | TTYPE_ARRAY | TTYPE_FLOAT | TTYPE_COMPLEX | TTYPE_INT | TTYPE_STR | TTYPE_BOOL => true
  | _ => false
  end.

Definition hdk (P:tk -> bool) (ts:list token) : Prop := exists t l, ts = t :: l /\ P (tkk t) = true.

Lemma hdk_app P ts r : hdk P ts -> hdk P (ts ++ r).
Proof. intros (t & l & -> & H). exists t, (l ++ r). split; auto. Qed.

Lemma vfol_stops r : vfol (peek r) = true -> stops 0 r.
Proof.
  destruct r as [|t r]; [split; exact I|]. cbn [peek]. intros H. split; unfold nostart, nolsq.
  - destruct (tkk t); try discriminate H; exact I.
  - intros E. rewrite E in H. discriminate.
Qed.
Lemma cfol_vfol k : cfol k = true -> vfol k = true.
Proof. destruct k; auto. Qed.
Lemma cfol_nocomma c r : cfol (peek (c :: r)) = true -> isk TCOMMA c = false.
Proof. cbn [peek]. unfold isk. destruct (tkk c); try discriminate; reflexivity. Qed.

Lemma skip_nl_id ts : peek ts <> TNEWLINE -> skip_nl ts = ts.
Proof.
  destruct ts as [|t r]; [reflexivity|]. cbn [peek skip_nl]. intros H. apply (isk_false TNEWLINE) in H. now rewrite H.
Qed.

(* ------------------------------------------------------------------------------------------------ *)
(* 4. Expressions                                                                                    *)
(* ------------------------------------------------------------------------------------------------ *)
Lemma level_erase e : level (erase_expr e) = level e.
Proof. destruct e; reflexivity. Qed.

Lemma WF_erase e : WF e -> WF (erase_expr e).
Proof. induction 1; cbn [erase_expr]; constructor; auto; rewrite level_erase; auto. Qed.

Lemma Spell_up e : Spell (erase_expr e) (up_expr e).
Proof.
  induction e; cbn [erase_expr up_expr].
  - apply (SpNum (mk (nk_num k) text) k). destruct k; reflexivity.
  - exact (SpVar (tNAME name) eq_refl).
  - exact (SpReg (mk 56 text) eq_refl).
  - exact (SpIdx (tNAME name) tLSQ tRSQ _ _ eq_refl eq_refl eq_refl IHe).
  - exact (SpPar tLBRACE (tNAME name) tRBRACE eq_refl eq_refl eq_refl).
  - exact (SpBr tLB tRB _ _ eq_refl eq_refl IHe).
  - apply SpSign; [destruct neg; reflexivity|exact IHe].
  - apply SpPow; [reflexivity|exact IHe1|exact IHe2].
  - apply SpMul; [destruct div; reflexivity|exact IHe1|exact IHe2].
  - apply SpAdd; [destruct sub; reflexivity|exact IHe1|exact IHe2].
  - apply SpFun; [destruct f; reflexivity|reflexivity|reflexivity|exact IHe].
Qed.

Lemma pexpr_up e rest : WF e -> vfol (peek rest) = true ->
  Ev (fun f => pexpr f 0 (up_expr e ++ rest) = Some (erase_expr e, rest)).
Proof.
  intros W H.
  destruct (pexpr_complete (erase_expr e) (up_expr e) 0 rest) as (F & P);
    [now apply WF_erase|apply Spell_up|lia|lia|now apply vfol_stops|].
  exists F. intros f Hf. eapply pexpr_mono; eauto.
Qed.

Definition estart (k:tk) : bool := match hd_of k with HBad => false | _ => true end.
Lemma estart_vstart k : estart k = true -> vstart k = true.
Proof. destruct k; auto. Qed.

Lemma up_expr_hd e : hdk estart (up_expr e).
Proof.
  induction e; cbn [up_expr]; try (apply hdk_app; assumption);
    try (eexists _, _; split; [reflexivity|]; reflexivity).
  - eexists _, _; split; [reflexivity|]. destruct k; reflexivity.
  - eexists _, _; split; [reflexivity|]. destruct neg; reflexivity.
  - eexists _, _; split; [reflexivity|]. destruct f; reflexivity.
Qed.

(* no ASSIGN inside a printed expression *)
Definition noassign (ts:list token) : Prop := Forall (fun t => tkk t <> TASSIGN) ts.
Lemma up_expr_noassign e : noassign (up_expr e).
Proof.
  unfold noassign.
  induction e; cbn [up_expr];
    repeat match goal with
           | |- Forall _ (_ :: _) => apply Forall_cons
           | |- Forall _ (_ ++ _) => apply Forall_app; split
           | |- Forall _ [] => apply Forall_nil
           end; try assumption; try discriminate.
  - destruct k; discriminate.
  - destruct neg; discriminate.
  - destruct div; discriminate.
  - destruct sub; discriminate.
  - destruct f; discriminate.
Qed.

(* token fields of printed tokens *)
Ltac tx := repeat match goal with
  | |- context [ttext ?t] =>
      let v := eval cbv [ttext mk tNAME tINT] in (ttext t) in progress change (ttext t) with v
  | |- context [tline ?t] =>
      let v := eval cbv [tline mk tNAME tINT tTYPE] in (tline t) in progress change (tline t) with v
  | |- context [tcol ?t] =>
      let v := eval cbv [tcol mk tNAME tINT tTYPE] in (tcol t) in progress change (tcol t) with v
  end.

(* ------------------------------------------------------------------------------------------------ *)
(* 5. Values                                                                                         *)
(* ------------------------------------------------------------------------------------------------ *)
Lemma strip_quotes_noquote s : noquote s -> strip_quotes s = s.
Proof.
  unfold strip_quotes. induction 1; cbn [filter]; auto.
  destruct (N.eqb x 34) eqn:E; [apply N.eqb_eq in E; contradiction|]. cbn [negb]. now rewrite IHForall.
Qed.

Lemma strip_quotes_quoted s : noquote s -> strip_quotes (34%N :: s ++ [34%N]) = s.
Proof.
  intros H. unfold strip_quotes. cbn [filter]. change (N.eqb 34 34) with true. cbn [negb].
  rewrite filter_app. cbn [filter]. change (N.eqb 34 34) with true. cbn [negb]. rewrite app_nil_r.
  now apply strip_quotes_noquote.
Qed.

Lemma up_val_hd v : hdk vstart (up_val v).
Proof.
  destruct v as [e|s|b]; cbn [up_val].
  - destruct (up_expr_hd e) as (t & l & E & H). exists t, l. split; auto using estart_vstart.
  - eexists _, _; split; reflexivity.
  - eexists _, _; split; reflexivity.
Qed.

Lemma up_val_noassign v : noassign (up_val v).
Proof.
  destruct v as [e|s|b]; cbn [up_val]; [apply up_expr_noassign| |]; (apply Forall_cons; [discriminate|apply Forall_nil]).
Qed.

Lemma pval_up v rest : wf_val v -> vfol (peek rest) = true ->
  Ev (fun f => pval f (up_val v ++ rest) = Some (erase_val v, rest)).
Proof.
  intros W H. destruct v as [e|s|b]; cbn [up_val erase_val wf_val] in *.
  - destruct (pexpr_up e rest W H) as (F & P). exists F. intros f Hf. specialize (P f Hf).
    destruct (up_expr_hd e) as (t & l & E & Hs). rewrite E in *. cbn [app] in *.
    unfold pval. rewrite P. unfold estart in Hs. revert Hs. destruct (tkk t); intros Hs; try reflexivity; discriminate Hs.
  - exists 0. intros f _. unfold pval. kk. tx. now rewrite strip_quotes_quoted.
  - exists 0. intros f _. unfold pval. kk. tx. destruct b; reflexivity.
Qed.

(* ------------------------------------------------------------------------------------------------ *)
(* 6. Comma-separated lists                                                                          *)
(* ------------------------------------------------------------------------------------------------ *)
Lemma up_sep_cons {A} (up:A -> list token) x y l : up_sep up (x :: y :: l) = up x ++ tCOMMA :: up_sep up (y :: l).
Proof. reflexivity. Qed.

Lemma up_sep_hd {A} P (up:A -> list token) l : l <> [] -> (forall x, In x l -> hdk P (up x)) -> hdk P (up_sep up l).
Proof.
  destruct l as [|x [|y l]]; intros N H; [congruence| |].
  - apply H. now left.
  - rewrite up_sep_cons. apply hdk_app. apply H. now left.
Qed.

Lemma psep_up {A B} (px : nat -> list token -> option (A * list token)) (up : B -> list token) (er : B -> A) xs rest :
  xs <> [] ->
  (forall x, In x xs -> forall r, vfol (peek r) = true -> Ev (fun f => px f (up x ++ r) = Some (er x, r))) ->
  cfol (peek rest) = true ->
  exists F, forall f g, F <= f -> F <= g -> psep (px f) g (up_sep up xs ++ rest) = Some (map er xs, rest).
Proof.
  intros N H C. induction xs as [|x xs IH]; [congruence|]. clear N.
  destruct xs as [|y xs].
  - destruct (H x (or_introl eq_refl) rest (cfol_vfol _ C)) as (F & P).
    exists (S F). intros f g Hf Hg. destruct g as [|g]; [lia|]. cbn [psep up_sep map]. rewrite P by lia.
    destruct rest as [|c r]; [reflexivity|]. now rewrite (cfol_nocomma c r C).
  - destruct IH as (F1 & P1); [discriminate|intros; apply H; [right|]; assumption|].
    rewrite up_sep_cons, <- app_assoc. cbn [app].
    destruct (H x (or_introl eq_refl) (tCOMMA :: up_sep up (y :: xs) ++ rest) eq_refl) as (F2 & P2).
    exists (S (max F1 F2)). intros f g Hf Hg. destruct g as [|g]; [lia|]. cbn [psep]. rewrite P2 by lia.
    change (isk TCOMMA tCOMMA) with true. cbv iota. rewrite P1 by lia. reflexivity.
Qed.

Lemma pvallist_up l rest : l <> [] -> Forall wf_val l -> cfol (peek rest) = true ->
  Ev (fun f => pvallist f (up_vallist l ++ rest) = Some (map erase_val l, rest)).
Proof.
  intros N W C. destruct (psep_up pval up_val erase_val l rest N) as (F & P); auto.
  - intros x Hx r Hr. apply pval_up; auto. rewrite Forall_forall in W. auto.
  - exists F. intros f Hf. apply P; auto.
Qed.

Lemma parrayrow_up row rest : wf_row row -> cfol (peek rest) = true ->
  Ev (fun f => parrayrow f (up_sep up_expr row ++ rest) = Some (map erase_expr row, rest)).
Proof.
  intros [N W] C. destruct (psep_up (fun f => pexpr f 0) up_expr erase_expr row rest N) as (F & P); auto.
  - intros x Hx r Hr. apply pexpr_up; auto. rewrite Forall_forall in W. auto.
  - exists F. intros f Hf. apply P; auto.
Qed.

(* ------------------------------------------------------------------------------------------------ *)
(* 7. Keyword arguments                                                                              *)
(* ------------------------------------------------------------------------------------------------ *)
Lemma vstart_nolsq t : vstart (tkk t) = true -> isk TLSQBRAC t = false.
Proof. unfold isk. destruct (tkk t); try discriminate; reflexivity. Qed.
Lemma vstart_norsq t : vstart (tkk t) = true -> isk TRSQBRAC t = false.
Proof. unfold isk. destruct (tkk t); try discriminate; reflexivity. Qed.
Lemma vstart_norbrac k : vstart k = true -> tk_beq k TRBRAC = false.
Proof. destruct k; try discriminate; reflexivity. Qed.
Lemma vstart_nocomma t : vstart (tkk t) = true -> isk TCOMMA t = false.
Proof. unfold isk. destruct (tkk t); try discriminate; reflexivity. Qed.

Lemma up_vallist_hd l : l <> [] -> hdk vstart (up_vallist l).
Proof. intros N. apply up_sep_hd; auto. intros; apply up_val_hd. Qed.

Lemma pkwarg_up kw rest : wf_kwval (snd kw) -> vfol (peek rest) = true ->
  Ev (fun f => pkwarg f (up_kwarg kw ++ rest) = Some (erase_kwarg kw, rest)).
Proof.
  destruct kw as [k [v|l]]; unfold up_kwarg, erase_kwarg; cbn [fst snd wf_kwval erase_kwval]; intros W H.
  - destruct (pval_up v rest W H) as (F & P). exists F. intros f Hf. specialize (P f Hf).
    destruct (up_val_hd v) as (t & l & E & Hs). rewrite E in *. cbn [app] in *.
    unfold pkwarg. kk. rewrite (vstart_nolsq t Hs). rewrite P. reflexivity.
  - destruct l as [|v l].
    + exists 0. intros f _. unfold pkwarg. cbn [up_vallist up_sep map]. kk. reflexivity.
    + destruct (pvallist_up (v :: l) (tRSQ :: rest)) as (F & P); [discriminate|exact W|reflexivity|].
      exists F. intros f Hf. specialize (P f Hf).
      destruct (up_vallist_hd (v :: l)) as (t & l' & E & Hs); [discriminate|].
      cbn [app]. rewrite <- app_assoc. cbn [app]. rewrite E in *. cbn [app] in *.
      unfold pkwarg. kk. rewrite (vstart_norsq t Hs). rewrite P. kk. reflexivity.
Qed.

(* ------------------------------------------------------------------------------------------------ *)
(* 8. Argument lists                                                                                 *)
(* ------------------------------------------------------------------------------------------------ *)
Lemma kwstart_noassign ts r : ts <> [] -> noassign ts -> peek r <> TASSIGN -> kwstart (ts ++ r) = false.
Proof.
  intros N A R. destruct ts as [|t [|u l]]; [congruence| |]; cbn [app kwstart].
  - destruct r as [|a r]; [reflexivity|]. cbn [peek] in R. apply (isk_false TASSIGN) in R. rewrite R. apply andb_false_r.
  - inversion A as [|? ? _ A']; subst. inversion A' as [|? ? Hu _]; subst.
    apply (isk_false TASSIGN) in Hu. rewrite Hu. apply andb_false_r.
Qed.

(* the positional part as pposargs reads it: values, then the rest tl (which starts a keyword argument or is ")"),
   with a comma between the last value and a keyword argument *)
Fixpoint pos_toks (vs:list val) (tl:list token) : list token :=
  match vs with
  | [] => tl
  | v :: vs' => up_val v ++ match vs' with
                            | [] => if kwstart tl then tCOMMA :: tl else tl
                            | _ :: _ => tCOMMA :: pos_toks vs' tl
                            end
  end.
Definition pos_after (vs:list val) (tl:list token) : list token :=
  match vs with [] => if kwstart tl then tCOMMA :: tl else tl | _ :: _ => tCOMMA :: pos_toks vs tl end.
Lemma pos_toks_cons v vs tl : pos_toks (v :: vs) tl = up_val v ++ pos_after vs tl.
Proof. reflexivity. Qed.

Lemma pposargs_up vs tl : Forall wf_val vs -> (peek tl = TRBRAC \/ kwstart tl = true) ->
  Ev (fun f => pposargs f (pos_toks vs tl) = Some (map erase_val vs, tl)).
Proof.
  intros W T.
  assert (E0 : forall f, pposargs (S f) tl = Some ([], tl)).
  { intros f. cbn [pposargs]. destruct T as [T|T]; rewrite T; [reflexivity|now rewrite orb_true_r]. }
  induction vs as [|v vs IH].
  - exists 1. intros f Hf. destruct f; [lia|]. apply E0.
  - inversion W as [|? ? Wv Wvs]; subst. specialize (IH Wvs). rewrite pos_toks_cons.
    assert (Hv : vfol (peek (pos_after vs tl)) = true).
    { unfold pos_after. destruct vs; [|reflexivity]. destruct (kwstart tl) eqn:K; [reflexivity|].
      destruct T as [T|T]; [rewrite T; reflexivity|congruence]. }
    assert (Hn : peek (pos_after vs tl) <> TASSIGN).
    { intros E. rewrite E in Hv. discriminate. }
    assert (Ht : (tk_beq (peek (up_val v ++ pos_after vs tl)) TRBRAC || kwstart (up_val v ++ pos_after vs tl))%bool = false).
    { rewrite kwstart_noassign; [|destruct (up_val_hd v) as (t & l & E & _); rewrite E; discriminate|apply up_val_noassign|exact Hn].
      destruct (up_val_hd v) as (t & l & E & Hs). rewrite E. cbn [app peek]. rewrite (vstart_norbrac _ Hs). reflexivity. }
    destruct (pval_up v _ Wv Hv) as (F1 & P1). destruct IH as (F2 & P2).
    exists (S (S (max F1 F2))). intros f Hf. destruct f as [|f]; [lia|]. cbn [pposargs]. rewrite Ht, P1 by lia.
    unfold pos_after. destruct vs as [|y vs].
    + destruct (kwstart tl) eqn:K.
      * kk. destruct f as [|f]; [lia|]. rewrite E0. reflexivity.
      * destruct T as [T|T]; [|congruence]. destruct tl as [|c r]; [discriminate T|]. cbn [peek] in T.
        apply (isk_true TRBRAC) in T. assert (C : isk TCOMMA c = false).
        { unfold isk in *. destruct (tkk c); try discriminate T; reflexivity. }
        rewrite C. reflexivity.
    + kk. rewrite P2 by lia. reflexivity.
Qed.

Lemma kwstart_rb r : kwstart (tRB :: r) = false.
Proof. destruct r; reflexivity. Qed.

Lemma kwstart_kws kw l r : kwstart (up_sep up_kwarg (kw :: l) ++ r) = true.
Proof. destruct l; reflexivity. Qed.

Lemma up_args_pos vs kws rest :
  up_vallist vs ++ (match vs with [] => [] | _ :: _ => match kws with [] => [] | _ :: _ => [tCOMMA] end end)
    ++ up_sep up_kwarg kws ++ tRB :: rest
  = pos_toks vs (up_sep up_kwarg kws ++ tRB :: rest).
Proof.
  induction vs as [|v vs IH]; [reflexivity|].
  destruct vs as [|y vs].
  - cbn [pos_toks up_vallist up_sep]. destruct kws as [|kw l].
    + cbn [up_sep app]. destruct rest; reflexivity.
    + rewrite kwstart_kws. reflexivity.
  - unfold up_vallist in *. rewrite up_sep_cons, pos_toks_cons. unfold pos_after. rewrite <- app_assoc. cbn [app].
    f_equal. f_equal. exact IH.
Qed.

Lemma parguments_nolead f r : (forall c r', r = c :: r' -> isk TCOMMA c = false) ->
  parguments f (tLB :: r) =
  match pposargs f r with
  | Some (vs, r1) =>
      if kwstart r1 then
        match psep (pkwarg f) f r1 with
        | Some (kws, c :: r2) => if isk TRBRAC c then Some (mkargs vs kws, r2) else None
        | _ => None
        end
      else match r1 with
           | c :: r2 => if isk TRBRAC c then Some (mkargs vs [], r2) else None
           | [] => None
           end
  | None => None
  end.
Proof.
  intros H. unfold parguments. change (isk TLBRAC tLB) with true. cbv iota.
  destruct r as [|c r']; [reflexivity|]. rewrite (H c r' eq_refl). reflexivity.
Qed.

Lemma pos_toks_nocomma vs tl c r' : (forall c r', tl = c :: r' -> isk TCOMMA c = false) ->
  pos_toks vs tl = c :: r' -> isk TCOMMA c = false.
Proof.
  intros H. destruct vs as [|v vs]; [apply H|]. rewrite pos_toks_cons.
  destruct (up_val_hd v) as (t & l & E & Hs). rewrite E. cbn [app]. intros X. inversion X; subst.
  now apply vstart_nocomma.
Qed.

Lemma up_args_eq vs kws rest :
  up_args (mkargs vs kws) ++ rest = tLB :: pos_toks vs (up_sep up_kwarg kws ++ tRB :: rest).
Proof.
  unfold up_args. cbn [apos akw app]. rewrite <- ?app_assoc. cbn [app]. f_equal. exact (up_args_pos vs kws rest).
Qed.

Lemma parguments_up a rest : wf_args a ->
  Ev (fun f => parguments f (up_args a ++ rest) = Some (erase_args a, rest)).
Proof.
  destruct a as [vs kws]. rewrite up_args_eq. unfold wf_args, erase_args. cbn [apos akw]. intros [Wv Wk].
  set (K := up_sep up_kwarg kws ++ tRB :: rest).
  assert (T : peek K = TRBRAC \/ kwstart K = true).
  { unfold K. destruct kws; [left; reflexivity|right; apply kwstart_kws]. }
  assert (NC : forall c r', pos_toks vs K = c :: r' -> isk TCOMMA c = false).
  { intros c r'. apply pos_toks_nocomma. intros c0 r0 E0. destruct T as [T|T]; rewrite E0 in T.
    - cbn [peek] in T. unfold isk. rewrite T. reflexivity.
    - cbn [kwstart] in T. destruct r0 as [|a0 r0]; [discriminate T|]. apply andb_prop in T. destruct T as [T _]. apply isk_true in T. unfold isk. rewrite T. reflexivity. }
  destruct (pposargs_up vs K Wv T) as (F1 & P1).
  destruct kws as [|kw l].
  - exists F1. intros f Hf. rewrite (parguments_nolead f _ NC), P1 by lia. unfold K. cbn [up_sep app]. rewrite kwstart_rb. kk. reflexivity.
  - destruct (psep_up pkwarg up_kwarg erase_kwarg (kw :: l) (tRB :: rest)) as (F2 & P2);
      [discriminate| |reflexivity|].
    { intros x Hx r Hr. apply pkwarg_up; auto. rewrite Forall_forall in Wk. auto. }
    exists (max F1 F2). intros f Hf. rewrite (parguments_nolead f _ NC), P1 by lia. unfold K.
    rewrite kwstart_kws. rewrite P2 by lia. kk. reflexivity.
Qed.

(* ------------------------------------------------------------------------------------------------ *)
(* 9. Statements                                                                                     *)
(* ------------------------------------------------------------------------------------------------ *)
Lemma tOP_kind s : (isk TNAME (tOP s) || isk TMEASURE (tOP s))%bool = true.
Proof. unfold tOP. destruct (starts_measure s); reflexivity. Qed.
Lemma tOP_text s : ttext (tOP s) = s.
Proof. unfold tOP. destruct (starts_measure s); reflexivity. Qed.
Lemma peek_args a r : peek (up_args a ++ r) = TLBRAC.
Proof. reflexivity. Qed.

Lemma pbracketed_lsq {A} (px:list token -> option (A * list token)) fol r x tail :
  px r = Some (x, tRSQ :: tail) -> pbracketed px fol (tLSQ :: r) = Some (x, tail).
Proof. intros H. unfold pbracketed. change (tkk tLSQ) with TLSQBRAC. cbv iota. rewrite H. reflexivity. Qed.

Lemma pstatement_up s tail : wf_stmt s ->
  Ev (fun f => pstatement f (up_stmt_nonl s ++ tail) = Some (erase_stmt s, tail)).
Proof.
  destruct s as [op a ms]. unfold wf_stmt, up_stmt_nonl, erase_stmt; cbn [sop sargs smodes]. intros [Wa Wm].
  destruct (parrayrow_up ms (tRSQ :: tail) Wm eq_refl) as (F1 & P1).
  destruct a as [a|]; cbn [up_oargs erase_oargs option_map wf_oargs] in *.
  - destruct (parguments_up a (tAPPLY :: tLSQ :: up_sep up_expr ms ++ tRSQ :: tail) Wa) as (F2 & P2).
    exists (max F1 F2). intros f Hf. norm. unfold pstatement. rewrite tOP_kind. cbn [peek]. rewrite peek_args.
    change (tk_beq TLBRAC TLBRAC) with true. cbv iota. rewrite P2 by lia. kk.
    rewrite (pbracketed_lsq _ _ _ _ _ (P1 f ltac:(lia))). rewrite tOP_text. reflexivity.
  - exists F1. intros f Hf. norm. unfold pstatement. rewrite tOP_kind. kk.
    rewrite (pbracketed_lsq _ _ _ _ _ (P1 f ltac:(lia))). rewrite tOP_text. reflexivity.
Qed.

(* ------------------------------------------------------------------------------------------------ *)
(* 10. for loops                                                                                     *)
(* ------------------------------------------------------------------------------------------------ *)
Lemma ifol_nonl ts : ifol (peek ts) = true -> peek ts <> TNEWLINE.
Proof. intros H E. rewrite E in H. discriminate. Qed.
Lemma ifol_notab t r : ifol (peek (t :: r)) = true -> isk TTAB t = false.
Proof. cbn [peek]. unfold isk. destruct (tkk t); try discriminate; reflexivity. Qed.

Lemma pforbody_up b body tail : (b = true -> body <> []) -> Forall wf_stmt body -> ifol (peek tail) = true ->
  Ev (fun f => pforbody f b (flat_map up_bodyline body ++ tNL :: tail) = Some (map erase_stmt body, tNL :: tail)).
Proof.
  intros N W T. revert b N. induction body as [|s body IH]; intros b N.
  - destruct b; [now destruct N|]. exists 1. intros [|f] Hf; [lia|]. cbn [flat_map app pforbody]. kk.
    rewrite (skip_nl_id tail (ifol_nonl _ T)). destruct tail as [|tb r]; [reflexivity|].
    rewrite (ifol_notab tb r T). reflexivity.
  - inversion W as [|? ? Ws Wb]; subst.
    destruct (pstatement_up s (flat_map up_bodyline body ++ tNL :: tail) Ws) as (F1 & P1).
    destruct (IH Wb false) as (F2 & P2); [discriminate|].
    exists (S (max F1 F2)). intros [|f] Hf; [lia|]. cbn [flat_map]. unfold up_bodyline at 1. norm. cbn [pforbody].
    destruct b; kk; rewrite P1, P2 by lia; reflexivity.
Qed.

Lemma vtype_tok ty : vtype_of_tk (tkk (tTYPE ty)) = Some ty.
Proof. destruct ty; reflexivity. Qed.

Lemma pfor_list f fo ty x i r vt :
  (isk TFOR fo && isk TNAME x && isk TIN i)%bool = true -> vtype_of_tk (tkk ty) = Some vt ->
  (forall a r', r = a :: r' -> isk TINT a = false) ->
  pfor f (fo :: ty :: x :: i :: r) =
  match pbracketed (pvallist f) nl_follow r with
  | Some (l, r1) =>
      match pforbody f true r1 with
      | Some (body, r2) => Some (IFor vt (ttext x) (HList l) body, r2)
      | None => None
      end
  | None => None
  end.
Proof.
  intros H H0 H1. unfold pfor. rewrite H, H0. destruct r as [|a [|c1 [|b r1]]]; cbv beta iota zeta;
    try rewrite (H1 a _ eq_refl); cbn [andb]; cbv beta iota;
    match goal with |- context [pbracketed ?a ?b ?c] => destruct (pbracketed a b c) as [[? ?]|] end; reflexivity.
Qed.

Lemma pfor_up ty x h body tail : wf_hdr h -> body <> [] -> Forall wf_stmt body -> ifol (peek tail) = true ->
  Ev (fun f => pfor f (up_item (IFor ty x h body) ++ tail)
               = Some (IFor ty x (erase_hdr h) (map erase_stmt body), tNL :: tail)).
Proof.
  intros Wh N W T. destruct (pforbody_up true body tail (fun _ => N) W T) as (F1 & P1).
  cbn [up_item]. norm.
  destruct h as [a b c|l]; cbn [up_hdr erase_hdr wf_hdr] in *; norm.
  - assert (HB : exists r', flat_map up_bodyline body ++ tNL :: tail = tNL :: tTAB :: r').
    { destruct body; [congruence|]. cbn [flat_map]. unfold up_bodyline at 1. norm. eexists; reflexivity. }
    destruct HB as (r' & EB). rewrite EB in *.
    exists F1. intros f Hf. specialize (P1 f Hf). unfold pfor. kk. rewrite vtype_tok.
    destruct c as [c|]; norm; kk; rewrite P1; tx; reflexivity.
  - destruct Wh as [Nl Wl].
    destruct (pvallist_up l (tRSQ :: flat_map up_bodyline body ++ tNL :: tail) Nl Wl eq_refl) as (F2 & P2).
    exists (max F1 F2). intros f Hf. rewrite (pfor_list f _ _ _ _ _ ty); [|reflexivity|apply vtype_tok|].
    + rewrite (pbracketed_lsq _ _ _ _ _ (P2 f ltac:(lia))). rewrite P1 by lia. reflexivity.
    + intros a r' E. inversion E. reflexivity.
Qed.

(* ------------------------------------------------------------------------------------------------ *)
(* 11. Declarations                                                                                  *)
(* ------------------------------------------------------------------------------------------------ *)
Lemma pshape_up l tail : l <> [] -> peek tail = TRSQBRAC ->
  forall f, length l <= f -> pshape f (up_sep (fun s => [tINT s]) l ++ tail) = Some (l, tail).
Proof.
  intros N T. induction l as [|s l IH]; [congruence|]. clear N. intros f Hf. cbn [length] in Hf.
  destruct f as [|f]; [lia|]. destruct l as [|s' l].
  - cbn [up_sep app pshape]. kk. tx. destruct tail as [|c r]; [reflexivity|]. cbn [peek] in T.
    unfold isk. rewrite T. reflexivity.
  - rewrite up_sep_cons. norm. cbn [pshape]. kk. rewrite IH; [|discriminate|lia]. tx. reflexivity.
Qed.

Lemma parrayval_up rows tail : Forall wf_row rows -> (forall t r, tail = t :: r -> isk TTAB t = false) ->
  Ev (fun f => parrayval f (flat_map up_row rows ++ tail) = Some (map (map erase_expr) rows, tail)).
Proof.
  intros W T. induction rows as [|row rows IH].
  - exists 1. intros [|f] Hf; [lia|]. cbn [flat_map app parrayval map]. destruct tail as [|t r]; [reflexivity|].
    rewrite (T t r eq_refl). reflexivity.
  - inversion W as [|? ? Wr Wrs]; subst.
    destruct (parrayrow_up row (tNL :: flat_map up_row rows ++ tail) Wr eq_refl) as (F1 & P1).
    destruct (IH Wrs) as (F2 & P2).
    exists (S (max F1 F2)). intros [|f] Hf; [lia|]. cbn [flat_map]. unfold up_row at 1. norm. cbn [parrayval].
    kk. rewrite P1 by lia. kk. rewrite P2 by lia. reflexivity.
Qed.

Lemma reserved_cases s :
  reserved_num s = Some 19 \/ reserved_num s = Some 20 \/ reserved_num s = Some 21 \/ reserved_num s = Some 22
  \/ reserved_num s = None.
Proof. unfold reserved_num. repeat (match goal with |- context [if ?b then _ else _] => destruct b end); auto 6. Qed.

Lemma pdname_up n : wf_dname n -> pdname (up_dname n) = Some (erase_dname n).
Proof.
  destruct n as [x|s l c|s l c]; cbn [wf_dname up_dname erase_dname]; intros W; try reflexivity.
  destruct (reserved_cases s) as [E|[E|[E|[E|E]]]]; rewrite E in *; try reflexivity. congruence.
Qed.
Lemma up_dname_notarray n : tk_beq (tkk (up_dname n)) TTYPE_ARRAY = false.
Proof.
  destruct n as [x|s l c|s l c]; cbn [up_dname]; try reflexivity.
  destruct (reserved_cases s) as [E|[E|[E|[E|E]]]]; rewrite E; reflexivity.
Qed.

Lemma pdecl_scalar_up ty n v l c tail : wf_dname n -> wf_val v ->
  Ev (fun f => pdecl f (up_item (IScalar ty n v l c) ++ tail) = Some (erase_item (IScalar ty n v l c), tNL :: tail)).
Proof.
  intros Wn Wv. cbn [up_item erase_item]. norm. destruct (pval_up v (tNL :: tail) Wv eq_refl) as (F & P).
  exists F. intros f Hf. unfold pdecl. rewrite vtype_tok. cbn [peek]. rewrite up_dname_notarray, (pdname_up n Wn).
  kk. rewrite P by lia. tx. reflexivity.
Qed.

Lemma ifol_nolbrace ts : ifol (peek ts) = true -> tk_beq (peek ts) TLBRACE = false.
Proof. destruct (peek ts); try discriminate; reflexivity. Qed.

Lemma peek_rows rows tail : ifol (peek tail) = true -> tk_beq (peek (flat_map up_row rows ++ tail)) TLBRACE = false.
Proof. intros T. destruct rows; [now apply ifol_nolbrace|reflexivity]. Qed.

Lemma pdecl_array_up ty n sh body l c tail : wf_dname n -> sh <> Some [] -> wf_arrbody body -> ifol (peek tail) = true ->
  Ev (fun f => pdecl f (up_item (IArray ty n sh body l c) ++ tail)
               = Some (erase_item (IArray ty n sh body l c),
                       match body with ARows _ => tail | AParam _ => tNL :: tail end)).
Proof.
  intros Wn Ws Wb T. cbn [up_item erase_item]. norm.
  assert (B : Ev (fun f => forall shp,
     match (if tk_beq (peek (up_arrbody body ++ tail)) TLBRACE then
              match up_arrbody body ++ tail with
              | _ :: p :: c0 :: r4 =>
                  if (isk TNAME p && isk TRBRACE c0)%bool
                  then Some (IArray ty (erase_dname n) shp (AParam (ttext p)) 0 0, r4) else None
              | _ => None
              end
            else match parrayval f (up_arrbody body ++ tail) with
                 | Some (rows, r4) => Some (IArray ty (erase_dname n) shp (ARows rows) 0 0, r4)
                 | None => None
                 end) with
     | Some x => Some x | None => None end
     = Some (IArray ty (erase_dname n) shp (erase_arrbody body) 0 0,
             match body with ARows _ => tail | AParam _ => tNL :: tail end))).
  { destruct body as [rows|p]; cbn [up_arrbody erase_arrbody wf_arrbody] in *.
    - destruct (parrayval_up rows tail Wb) as (F & P).
      { intros t r E. subst. now apply ifol_notab with r. }
      exists F. intros f Hf shp. rewrite (peek_rows rows tail T), P by lia. reflexivity.
    - exists 0. intros f _ shp. kk. tx. reflexivity. }
  destruct B as (F & B). exists (max F (length (match sh with Some l => l | None => [] end))). intros f Hf.
  specialize (B f ltac:(lia)).
  unfold pdecl. rewrite vtype_tok. kk. rewrite (pdname_up n Wn).
  destruct sh as [sl|]; cbn [up_shape]; norm; kk.
  - rewrite pshape_up; [|congruence|reflexivity|lia]. kk. tx.
    specialize (B (Some sl)). destruct (tk_beq (peek (up_arrbody body ++ tail)) TLBRACE); revert B;
      match goal with |- context [match ?X with _ => _ end] => destruct X as [[? ?]|] end; intros B; exact B || discriminate B.
  - tx. specialize (B None). destruct (tk_beq (peek (up_arrbody body ++ tail)) TLBRACE); revert B;
      match goal with |- context [match ?X with _ => _ end] => destruct X as [[? ?]|] end; intros B; exact B || discriminate B.
Qed.

(* ------------------------------------------------------------------------------------------------ *)
(* 12. Programs                                                                                      *)
(* ------------------------------------------------------------------------------------------------ *)
Lemma up_item_hd it r : ifol (peek (up_item it ++ r)) = true.
Proof.
  destruct it as [ty n v l c|ty n sh b l c|s|ty x h body]; cbn [up_item app peek].
  - destruct ty; reflexivity.
  - destruct ty; reflexivity.
  - unfold up_stmt, up_stmt_nonl. cbn [app peek]. unfold tOP. destruct (starts_measure (sop s)); reflexivity.
  - reflexivity.
Qed.
Lemma up_items_hd its : ifol (peek (up_items its)) = true.
Proof. destruct its as [|it its]; [reflexivity|]. unfold up_items. cbn [flat_map]. apply up_item_hd. Qed.

Lemma pprogram_nl f r : pprogram (S f) (tNL :: r) = pprogram f r.
Proof. reflexivity. Qed.
Lemma pprogram_for f r : pprogram (S f) (tFOR :: r) =
  match pfor f (tFOR :: r) with
  | Some (it, r1) => match pprogram f r1 with Some l => Some (it :: l) | None => None end
  | None => None
  end.
Proof. reflexivity. Qed.
Lemma pprogram_stmt f op r : pprogram (S f) (tOP op :: r) =
  match pstatement f (tOP op :: r) with
  | Some (s, r1) => match pprogram f r1 with Some l => Some (IStmt s :: l) | None => None end
  | None => None
  end.
Proof. unfold tOP. destruct (starts_measure op); reflexivity. Qed.
Lemma pprogram_decl f ty r : pprogram (S f) (tTYPE ty :: r) =
  match pdecl f (tTYPE ty :: r) with
  | Some (it, r1) => match pprogram f r1 with Some l => Some (it :: l) | None => None end
  | None => None
  end.
Proof. destruct ty; reflexivity. Qed.

Lemma pprogram_up its : Forall wf_item its ->
  Ev (fun f => pprogram f (up_items its) = Some (map erase_item its)).
Proof.
  induction 1 as [|it its Wi _ IH].
  - exists 1. intros [|f] Hf; [lia|]. reflexivity.
  - destruct IH as (F0 & P0). unfold up_items in *. cbn [flat_map map].
    pose proof (up_items_hd its) as T. unfold up_items in T.
    destruct it as [ty n v l c|ty n sh b l c|s|ty x h body]; cbn [wf_item] in Wi.
    + destruct Wi as [Wn Wv]. destruct (pdecl_scalar_up ty n v l c (flat_map up_item its) Wn Wv) as (F1 & P1).
      exists (S (S (max F0 F1))). intros [|[|f]] Hf; try lia.
      specialize (P1 (S f) ltac:(lia)). cbn [up_item] in *. cbn [app] in *.
      rewrite pprogram_decl, P1, pprogram_nl, P0 by lia. reflexivity.
    + destruct Wi as (Wn & Ws & Wb).
      destruct (pdecl_array_up ty n sh b l c (flat_map up_item its) Wn Ws Wb T) as (F1 & P1).
      exists (S (S (max F0 F1))). intros [|[|f]] Hf; try lia.
      specialize (P1 (S f) ltac:(lia)). cbn [up_item] in *. cbn [app] in *.
      rewrite pprogram_decl, P1. destruct b; [|rewrite pprogram_nl]; rewrite P0 by lia; reflexivity.
    + destruct (pstatement_up s (tNL :: flat_map up_item its) Wi) as (F1 & P1).
      exists (S (S (max F0 F1))). intros [|[|f]] Hf; try lia.
      specialize (P1 (S f) ltac:(lia)). cbn [up_item]. unfold up_stmt. rewrite <- app_assoc. cbn [app].
      unfold up_stmt_nonl in *. cbn [app] in *.
      rewrite pprogram_stmt, P1, pprogram_nl, P0 by lia. reflexivity.
    + destruct Wi as (Wh & N & Wb).
      destruct (pfor_up ty x h body (flat_map up_item its) Wh N Wb T) as (F1 & P1).
      exists (S (S (max F0 F1))). intros [|[|f]] Hf; try lia.
      specialize (P1 (S f) ltac:(lia)). cbn [up_item] in *. cbn [app] in *.
      rewrite pprogram_for, P1, pprogram_nl, P0 by lia. reflexivity.
Qed.

(* ------------------------------------------------------------------------------------------------ *)
(* 13. Scripts                                                                                       *)
(* ------------------------------------------------------------------------------------------------ *)
Lemma pincludes_up incs tail : ifol (peek tail) = true ->
  Ev (fun f => pincludes f (flat_map up_include incs ++ tail) = (incs, tail)).
Proof.
  intros T. induction incs as [|s incs IH].
  - exists 1. intros [|f] Hf; [lia|]. cbn [flat_map app]. destruct tail as [|t r]; [reflexivity|].
    cbn [peek] in T. cbn [pincludes]. revert T. destruct (tkk t); intros T; try discriminate T; reflexivity.
  - destruct IH as (F & P). exists (S (S F)). intros [|[|f]] Hf; try lia.
    cbn [flat_map]. unfold up_include at 1. norm. cbn [pincludes]. kk. rewrite P by lia. tx. reflexivity.
Qed.

(* first token of what follows the metadata block: an include line, an item, or nothing *)
Definition pfol (k:tk) : bool := match k with TINCLUDE => true | k => ifol k end.
Lemma pfol_prog incs its : pfol (peek (flat_map up_include incs ++ up_items its)) = true.
Proof.
  destruct incs as [|s incs]; [|reflexivity]. cbn [flat_map app].
  pose proof (up_items_hd its) as H. destruct (peek (up_items its)); try discriminate H; reflexivity.
Qed.

Lemma pmetaline_none f kw dev ts : (forall k r, skip_nl ts = k :: r -> tk_beq (tkk k) kw = false) ->
  pmetaline f kw dev ts = Some (None, ts).
Proof.
  intros H. unfold pmetaline. destruct ts as [|n ts']; [reflexivity|].
  destruct (skip_nl (n :: ts')) as [|k [|d r1]] eqn:E; try reflexivity.
  rewrite (H k _ eq_refl). rewrite andb_false_r. reflexivity.
Qed.

Lemma pmeta_up kwtok kw dev m tail :
  isk TNEWLINE kwtok = false -> tk_beq (tkk kwtok) kw = true -> dev TNAME = true ->
  wf_meta m -> peek tail = TNEWLINE ->
  (forall k r, skip_nl tail = k :: r -> tk_beq (tkk k) kw = false) ->
  Ev (fun f => pmetaline f kw dev (up_meta kwtok m ++ tail) = Some (erase_meta m, tail)).
Proof.
  intros Hk Hk2 Hd W T S. destruct m as [[d a]|]; cbn [up_meta erase_meta wf_meta] in *.
  - destruct a as [a|]; cbn [up_oargs erase_oargs option_map wf_oargs] in *.
    + destruct (parguments_up a tail W) as (F & P). exists F. intros f Hf. norm. unfold pmetaline. kk.
      rewrite Hk. rewrite Hk2. kk. rewrite Hd.
      rewrite P by lia. tx. reflexivity.
    + exists 0. intros f _. norm. unfold pmetaline. kk. rewrite Hk. rewrite Hk2. kk. rewrite Hd. rewrite T. tx. reflexivity.
  - exists 0. intros f _. cbn [app]. now apply pmetaline_none.
Qed.

Lemma pfol_kinds ts k r : pfol (peek ts) = true -> skip_nl ts = k :: r ->
  tk_beq (tkk k) TTARGET = false /\ tk_beq (tkk k) TPROGTYPE = false.
Proof.
  intros H E. rewrite skip_nl_id in E.
  - subst ts. cbn [peek] in H. destruct (tkk k); try discriminate H; split; reflexivity.
  - intros X. rewrite X in H. discriminate.
Qed.

Theorem unparse_parse_exact sc : wf_script sc ->
  Ev (fun f => pscript f (up_script sc) = Some (erase_script sc)).
Proof.
  destruct sc as [nm ver tg ty incs its]. unfold wf_script, up_script, erase_script.
  cbn [sc_name sc_version sc_target sc_type sc_includes sc_items]. intros (Wt & Wy & Wi).
  set (R4 := up_items its).
  set (R3 := flat_map up_include incs ++ R4).
  set (R2 := up_meta tPROGTYPE ty ++ tNL :: R3).
  pose proof (pfol_prog incs its) as HP. fold R4 in HP. fold R3 in HP.
  assert (S3 : skip_nl (tNL :: R3) = R3).
  { cbn [skip_nl]. kk. apply skip_nl_id. intros X. rewrite X in HP. discriminate. }
  destruct (pprogram_up its Wi) as (F4 & P4). fold R4 in P4.
  destruct (pincludes_up incs R4 (up_items_hd its)) as (F3 & P3). fold R3 in P3.
  destruct (pmeta_up tPROGTYPE TPROGTYPE is_name ty (tNL :: R3)) as (F2 & P2); try reflexivity; try assumption.
  { intros k r E. rewrite S3 in E. rewrite <- (skip_nl_id R3) in E.
    - now apply (pfol_kinds R3 k r HP).
    - intros X. rewrite X in HP. discriminate. }
  fold R2 in P2.
  destruct (pmeta_up tTARGET TTARGET is_device tg R2) as (F1 & P1); try reflexivity; try assumption.
  { unfold R2. destruct ty as [[d a]|]; reflexivity. }
  { intros k r E. unfold R2 in E. destruct ty as [[d a]|]; cbn [up_meta app] in E.
    - cbn [skip_nl] in E. revert E. kk. intros E. inversion E. reflexivity.
    - rewrite S3 in E. rewrite <- (skip_nl_id R3) in E.
      + now apply (pfol_kinds R3 k r HP).
      + intros X. rewrite X in HP. discriminate. }
  exists (S (max (max F1 F2) (max F3 F4))). intros [|f] Hf; [lia|].
  unfold pscript. cbn [skip_nl]. kk. fold R2. rewrite P1 by lia. rewrite P2 by lia.
  cbn [pincludes]. kk. rewrite P3 by lia. rewrite <- (Nat.succ_pred_pos (S f)) in * by lia.
  rewrite P4 by lia. tx. reflexivity.
Qed.

(* ------------------------------------------------------------------------------------------------ *)
(* 14. The statement with erasure on both sides                                                      *)
(* ------------------------------------------------------------------------------------------------ *)
Lemma map_idem {A} (f:A -> A) l : (forall x, f (f x) = f x) -> map f (map f l) = map f l.
Proof. intros H. rewrite map_map. apply map_ext. exact H. Qed.

Lemma erase_expr_idem e : erase_expr (erase_expr e) = erase_expr e.
Proof. induction e; cbn [erase_expr]; congruence. Qed.
Lemma erase_val_idem v : erase_val (erase_val v) = erase_val v.
Proof. destruct v; cbn [erase_val]; auto. now rewrite erase_expr_idem. Qed.
Lemma erase_kwarg_idem kw : erase_kwarg (erase_kwarg kw) = erase_kwarg kw.
Proof.
  destruct kw as [k [v|l]]; unfold erase_kwarg; cbn [fst snd erase_kwval].
  - now rewrite erase_val_idem.
  - now rewrite (map_idem _ _ erase_val_idem).
Qed.
Lemma erase_oargs_idem a : erase_oargs (erase_oargs a) = erase_oargs a.
Proof.
  destruct a as [[vs kws]|]; [|reflexivity]. unfold erase_oargs, erase_args. cbn [option_map apos akw].
  now rewrite (map_idem _ _ erase_val_idem), (map_idem _ _ erase_kwarg_idem).
Qed.
Lemma erase_stmt_idem s : erase_stmt (erase_stmt s) = erase_stmt s.
Proof.
  destruct s as [op a ms]. unfold erase_stmt. cbn [sop sargs smodes].
  now rewrite erase_oargs_idem, (map_idem _ _ erase_expr_idem).
Qed.
Lemma erase_item_idem it : erase_item (erase_item it) = erase_item it.
Proof.
  destruct it as [ty n v l c|ty n sh b l c|s|ty x h body]; cbn [erase_item].
  - rewrite erase_val_idem. destruct n; reflexivity.
  - destruct b as [rows|p]; cbn [erase_arrbody]; [|destruct n; reflexivity].
    rewrite (map_idem _ rows (fun row => map_idem _ row erase_expr_idem)). destruct n; reflexivity.
  - now rewrite erase_stmt_idem.
  - rewrite (map_idem _ _ erase_stmt_idem). destruct h as [a b c|l]; cbn [erase_hdr]; [reflexivity|].
    now rewrite (map_idem _ _ erase_val_idem).
Qed.
Lemma erase_meta_idem m : erase_meta (erase_meta m) = erase_meta m.
Proof. destruct m as [[d a]|]; cbn [erase_meta]; [|reflexivity]. now rewrite erase_oargs_idem. Qed.
Lemma erase_script_idem sc : erase_script (erase_script sc) = erase_script sc.
Proof.
  destruct sc as [nm ver tg ty incs its]. unfold erase_script. cbn [sc_name sc_version sc_target sc_type sc_includes sc_items].
  now rewrite !erase_meta_idem, (map_idem _ _ erase_item_idem).
Qed.

Theorem unparse_parse sc : wf_script sc ->
  exists f, option_map erase_script (pscript f (up_script sc)) = Some (erase_script sc).
Proof.
  intros W. destruct (unparse_parse_exact sc W) as (F & P). exists F. rewrite (P F (le_n F)). cbn [option_map].
  now rewrite erase_script_idem.
Qed.

(* the printer does not look at positions *)
Lemma up_expr_erase e : up_expr (erase_expr e) = up_expr e.
Proof. induction e; cbn [erase_expr up_expr]; congruence. Qed.

(* ------------------------------------------------------------------------------------------------ *)
(* 14b. Fuel monotonicity of the parser functions (not needed above, where every lemma is stated for   *)
(*      all large enough fuel; provided for clients that fix a fuel).  pincludes is total (it returns  *)
(*      what it has read when the fuel runs out), so it and pscript are not covered.                   *)
(* ------------------------------------------------------------------------------------------------ *)
Lemma pval_mono f f' ts x : f <= f' -> pval f ts = Some x -> pval f' ts = Some x.
Proof.
  intros L H. unfold pval in *. destruct ts as [|t r]; [discriminate|].
  destruct (tkk t); try exact H;
    (destruct (pexpr f 0 (t :: r)) as [[e r']|] eqn:E; [|discriminate H]; rewrite (pexpr_mono f f' 0 _ _ L E); exact H).
Qed.

Lemma psep_mono {A} (px px' : list token -> option (A * list token)) f f' ts x :
  (forall ts x, px ts = Some x -> px' ts = Some x) -> f <= f' -> psep px f ts = Some x -> psep px' f' ts = Some x.
Proof.
  intros Hp. revert f' ts x. induction f as [|f IH]; intros f' ts x L H; [discriminate|].
  destruct f' as [|f']; [lia|]. cbn [psep] in *. destruct (px ts) as [[a r]|] eqn:E; [|discriminate].
  rewrite (Hp _ _ E). destruct r as [|c r1]; [exact H|]. destruct (isk TCOMMA c); [|exact H].
  destruct (psep px f r1) as [[xs r2]|] eqn:E2; [|discriminate]. rewrite (IH f' r1 _ ltac:(lia) E2). exact H.
Qed.

Lemma parrayrow_mono f f' ts x : f <= f' -> parrayrow f ts = Some x -> parrayrow f' ts = Some x.
Proof. intros L. unfold parrayrow. apply psep_mono; auto. intros ts0 x0. now apply pexpr_mono. Qed.
Lemma pvallist_mono f f' ts x : f <= f' -> pvallist f ts = Some x -> pvallist f' ts = Some x.
Proof. intros L. unfold pvallist. apply psep_mono; auto. intros ts0 x0. now apply pval_mono. Qed.

Lemma pkwarg_mono f f' ts x : f <= f' -> pkwarg f ts = Some x -> pkwarg f' ts = Some x.
Proof.
  intros L H. unfold pkwarg in *. destruct ts as [|n [|a r]]; try discriminate.
  destruct (isk TNAME n && isk TASSIGN a)%bool; [|discriminate]. destruct r as [|o r1]; [discriminate|].
  destruct (isk TLSQBRAC o).
  - destruct r1 as [|c r2]; [discriminate|]. destruct (isk TRSQBRAC c); [exact H|].
    destruct (pvallist f (c :: r2)) as [[l r3]|] eqn:E; [|discriminate]. rewrite (pvallist_mono f f' _ _ L E). exact H.
  - destruct (pval f (o :: r1)) as [[v r']|] eqn:E; [|discriminate]. rewrite (pval_mono f f' _ _ L E). exact H.
Qed.

Lemma pposargs_mono f f' ts x : f <= f' -> pposargs f ts = Some x -> pposargs f' ts = Some x.
Proof.
  revert f' ts x. induction f as [|f IH]; intros f' ts x L H; [discriminate|].
  destruct f' as [|f']; [lia|]. cbn [pposargs] in *.
  destruct (tk_beq (peek ts) TRBRAC || kwstart ts)%bool; [exact H|].
  destruct (pval f ts) as [[v r]|] eqn:E; [|discriminate]. rewrite (pval_mono f f' _ _ ltac:(lia) E).
  destruct r as [|c r1]; [exact H|]. destruct (isk TCOMMA c); [|exact H].
  destruct (pposargs f r1) as [[vs r2]|] eqn:E2; [|discriminate]. rewrite (IH f' r1 _ ltac:(lia) E2). exact H.
Qed.

Lemma parguments_mono f f' ts x : f <= f' -> parguments f ts = Some x -> parguments f' ts = Some x.
Proof.
  intros L H. unfold parguments in *. destruct ts as [|o r]; [discriminate|]. destruct (isk TLBRAC o); [|discriminate].
  cbv zeta in *.
  assert (K : forall vs r1 (y:option (arguments * list token)),
    (if kwstart r1 then
       match psep (pkwarg f) f r1 with
       | Some (kws, c :: r2) => if isk TRBRAC c then Some (mkargs vs kws, r2) else None
       | _ => None
       end
     else match r1 with c :: r2 => if isk TRBRAC c then Some (mkargs vs [], r2) else None | [] => None end) = Some x ->
    (if kwstart r1 then
       match psep (pkwarg f') f' r1 with
       | Some (kws, c :: r2) => if isk TRBRAC c then Some (mkargs vs kws, r2) else None
       | _ => None
       end
     else match r1 with c :: r2 => if isk TRBRAC c then Some (mkargs vs [], r2) else None | [] => None end) = Some x).
  { intros vs r1 _ H1. destruct (kwstart r1); [|exact H1].
    destruct (psep (pkwarg f) f r1) as [[kws r2]|] eqn:E; [|discriminate].
    rewrite (psep_mono (pkwarg f) (pkwarg f') f f' r1 _ (fun ts0 x0 => pkwarg_mono f f' ts0 x0 L) L E). exact H1. }
  destruct r as [|c r'].
  - destruct (pposargs f []) as [[vs r1]|] eqn:E; [|discriminate]. rewrite (pposargs_mono f f' _ _ L E). now apply (K vs r1 None).
  - destruct (isk TCOMMA c).
    + now apply (K [] r' None).
    + destruct (pposargs f (c :: r')) as [[vs r1]|] eqn:E; [|discriminate]. rewrite (pposargs_mono f f' _ _ L E).
      now apply (K vs r1 None).
Qed.

(* "( row" : when the whole bracketed text reads as a row/value list, so does the text after the bracket *)
Lemma rbrac_nocomma c : isk TRBRAC c = true -> isk TCOMMA c = false.
Proof. unfold isk. destruct (tkk c); try discriminate; reflexivity. Qed.

Lemma parrayrow_lbrac f o r x : tkk o = TLBRAC -> parrayrow f (o :: r) = Some x -> parrayrow f r <> None.
Proof.
  intros Ho. unfold parrayrow. destruct f as [|f]; [discriminate|]. cbn [psep].
  destruct (pexpr (S f) 0 (o :: r)) as [[e r1]|] eqn:E; [|discriminate]. intros _.
  rewrite pexpr_S, Ho in E. cbn [hd_of] in E.
  destruct (pexpr f 0 r) as [[e1 [|c r2]]|] eqn:E1; try discriminate.
  destruct (isk TRBRAC c) eqn:Hc; [|discriminate].
  rewrite (pexpr_mono f (S f) 0 r _ (Nat.le_succ_diag_r f) E1). rewrite (rbrac_nocomma c Hc). discriminate.
Qed.

Lemma pvallist_lbrac f o r x : tkk o = TLBRAC -> pvallist f (o :: r) = Some x -> pvallist f r <> None.
Proof.
  intros Ho. unfold pvallist. destruct f as [|f]; [discriminate|]. cbn [psep].
  destruct (pval (S f) (o :: r)) as [[v r1]|] eqn:E; [|discriminate]. intros _.
  unfold pval in E. rewrite Ho in E.
  destruct (pexpr (S f) 0 (o :: r)) as [[e r1']|] eqn:E0; [|discriminate]. clear E.
  rewrite pexpr_S, Ho in E0. cbn [hd_of] in E0.
  destruct (pexpr f 0 r) as [[e1 [|c r2]]|] eqn:E1; try discriminate.
  destruct (isk TRBRAC c) eqn:Hc; [|discriminate].
  apply (pexpr_mono f (S f) 0 r _ (Nat.le_succ_diag_r f)) in E1.
  assert (V : exists v', pval (S f) r = Some (v', c :: r2)).
  { unfold pval. destruct r as [|t r']; [rewrite pexpr_nil in E1; discriminate|].
    rewrite pexpr_S in E1. destruct (tkk t) eqn:Kt; cbn [hd_of fn_of_tk] in E1; try discriminate E1;
      rewrite pexpr_S, Kt; cbn [hd_of fn_of_tk]; rewrite ?E1; eexists; reflexivity. }
  destruct V as (v' & V). rewrite V. rewrite (rbrac_nocomma c Hc). discriminate.
Qed.

Lemma pbracketed_mono {A} (px px' : list token -> option (A * list token)) fol ts x :
  (forall ts x, px ts = Some x -> px' ts = Some x) ->
  (forall o r x, tkk o = TLBRAC -> px (o :: r) = Some x -> px r <> None) ->
  pbracketed px fol ts = Some x -> pbracketed px' fol ts = Some x.
Proof.
  intros Hp Hb H. unfold pbracketed in *. destruct ts as [|o r]; [discriminate|].
  assert (G : match px (o :: r) with Some (y, r1) => Some (y, drop_closer r1) | None => None end = Some x ->
              match px' (o :: r) with Some (y, r1) => Some (y, drop_closer r1) | None => None end = Some x).
  { destruct (px (o :: r)) as [[a r1]|] eqn:E; [|discriminate]. rewrite (Hp _ _ E). auto. }
  destruct (tkk o) eqn:Ko; try (exact (G H)).
  - (* ( *) destruct (px r) as [[a r1]|] eqn:E1.
    + rewrite (Hp _ _ E1). cbv zeta in *. destruct (fol (peek (drop_closer r1))); [exact H|exact (G H)].
    + exfalso. destruct (px (o :: r)) as [[b r2]|] eqn:E2; [|discriminate]. exact (Hb o r _ Ko E2 E1).
  - (* [ *) destruct (px r) as [[a r1]|] eqn:E1; [|discriminate]. rewrite (Hp _ _ E1). exact H.
Qed.

Lemma pstatement_mono f f' ts x : f <= f' -> pstatement f ts = Some x -> pstatement f' ts = Some x.
Proof.
  intros L H. unfold pstatement in *. destruct ts as [|n r]; [discriminate|].
  destruct (isk TNAME n || isk TMEASURE n)%bool; [|discriminate]. cbv zeta in *.
  assert (K : forall (a:option arguments) r0,
     match r0 with
     | b :: r1 => if isk TAPPLY b then match pbracketed (parrayrow f) stmt_follow r1 with
                                       | Some (ms, r2) => Some (mkstmt (ttext n) a ms, r2) | None => None end else None
     | [] => None end = Some x ->
     match r0 with
     | b :: r1 => if isk TAPPLY b then match pbracketed (parrayrow f') stmt_follow r1 with
                                       | Some (ms, r2) => Some (mkstmt (ttext n) a ms, r2) | None => None end else None
     | [] => None end = Some x).
  { intros a [|b r1] H1; [discriminate|]. destruct (isk TAPPLY b); [|discriminate].
    destruct (pbracketed (parrayrow f) stmt_follow r1) as [[ms r2]|] eqn:E; [|discriminate].
    rewrite (pbracketed_mono (parrayrow f) (parrayrow f') stmt_follow r1 _
               (fun ts0 x0 => parrayrow_mono f f' ts0 x0 L) (parrayrow_lbrac f) E). exact H1. }
  destruct (tk_beq (peek r) TLBRAC).
  - destruct (parguments f r) as [[a r1]|] eqn:E; [|discriminate]. rewrite (parguments_mono f f' _ _ L E).
    now apply (K (Some a) r1).
  - now apply (K None r).
Qed.

Lemma pforbody_mono f f' b ts x : f <= f' -> pforbody f b ts = Some x -> pforbody f' b ts = Some x.
Proof.
  revert f' b ts x. induction f as [|f IH]; intros f' b ts x L H; [discriminate|].
  destruct f' as [|f']; [lia|]. cbn [pforbody] in *. cbv zeta in *.
  match goal with |- match ?T with _ => _ end = _ => destruct T as [|tb r]; [exact H|] end.
  match goal with |- (if ?c then _ else _) = _ => destruct c; [|exact H] end.
  destruct (pstatement f r) as [[s r1]|] eqn:E; [|discriminate]. rewrite (pstatement_mono f f' _ _ ltac:(lia) E).
  destruct (pforbody f false r1) as [[ss r2]|] eqn:E2; [|discriminate]. rewrite (IH f' false r1 _ ltac:(lia) E2). exact H.
Qed.

Lemma pfor_mono f f' ts x : f <= f' -> pfor f ts = Some x -> pfor f' ts = Some x.
Proof.
  intros L H. unfold pfor in *. destruct ts as [|fo [|ty [|xx [|i r]]]]; try discriminate.
  destruct (isk TFOR fo && isk TNAME xx && isk TIN i)%bool; [|discriminate].
  destruct (vtype_of_tk (tkk ty)) as [vt|]; [|discriminate]. cbv zeta in *.
  assert (K : forall r0,
     match (match pbracketed (pvallist f) nl_follow r0 with Some (l, r1') => Some (HList l, r1') | None => None end) with
     | Some (h, r1) => match pforbody f true r1 with Some (body, r2) => Some (IFor vt (ttext xx) h body, r2) | None => None end
     | None => None end = Some x ->
     match (match pbracketed (pvallist f') nl_follow r0 with Some (l, r1') => Some (HList l, r1') | None => None end) with
     | Some (h, r1) => match pforbody f' true r1 with Some (body, r2) => Some (IFor vt (ttext xx) h body, r2) | None => None end
     | None => None end = Some x).
  { intros r0 H1. destruct (pbracketed (pvallist f) nl_follow r0) as [[l r1]|] eqn:E; [|discriminate].
    rewrite (pbracketed_mono (pvallist f) (pvallist f') nl_follow r0 _
               (fun ts0 x0 => pvallist_mono f f' ts0 x0 L) (pvallist_lbrac f) E).
    destruct (pforbody f true r1) as [[body r2]|] eqn:E2; [|discriminate]. rewrite (pforbody_mono f f' _ _ _ L E2). exact H1. }
  assert (R : forall (h:forhdr) r1,
     match pforbody f true r1 with Some (body, r2) => Some (IFor vt (ttext xx) h body, r2) | None => None end = Some x ->
     match pforbody f' true r1 with Some (body, r2) => Some (IFor vt (ttext xx) h body, r2) | None => None end = Some x).
  { intros h r1 H1. destruct (pforbody f true r1) as [[body r2]|] eqn:E2; [|discriminate].
    rewrite (pforbody_mono f f' _ _ _ L E2). exact H1. }
  destruct r as [|a [|c1 [|b r1]]]; try (now apply K).
  destruct (isk TINT a && isk TCOLON c1)%bool; [|now apply K].
  destruct (isk TINT b); [|discriminate].
  destruct r1 as [|c2 [|c r2]]; try (now apply R).
  destruct (isk TCOLON c2); [|now apply R]. destruct (isk TINT c); [|discriminate]. now apply R.
Qed.

Lemma pshape_mono f f' ts x : f <= f' -> pshape f ts = Some x -> pshape f' ts = Some x.
Proof.
  revert f' ts x. induction f as [|f IH]; intros f' ts x L H; [discriminate|].
  destruct f' as [|f']; [lia|]. cbn [pshape] in *. destruct ts as [|i r]; [discriminate|].
  destruct (isk TINT i); [|discriminate]. destruct r as [|c r1]; [exact H|]. destruct (isk TCOMMA c); [|exact H].
  destruct (pshape f r1) as [[l r2]|] eqn:E; [|discriminate]. rewrite (IH f' r1 _ ltac:(lia) E). exact H.
Qed.

Lemma parrayval_mono f f' ts x : f <= f' -> parrayval f ts = Some x -> parrayval f' ts = Some x.
Proof.
  revert f' ts x. induction f as [|f IH]; intros f' ts x L H; [discriminate|].
  destruct f' as [|f']; [lia|]. cbn [parrayval] in *. destruct ts as [|tb r]; [exact H|].
  destruct (isk TTAB tb); [|exact H].
  destruct (parrayrow f r) as [[row r0]|] eqn:E; [|discriminate]. rewrite (parrayrow_mono f f' _ _ ltac:(lia) E).
  destruct r0 as [|n r1]; [discriminate|]. destruct (isk TNEWLINE n); [|discriminate].
  destruct (parrayval f r1) as [[rows r2]|] eqn:E2; [|discriminate]. rewrite (IH f' r1 _ ltac:(lia) E2). exact H.
Qed.

Lemma pdecl_mono f f' ts x : f <= f' -> pdecl f ts = Some x -> pdecl f' ts = Some x.
Proof.
  intros L H. unfold pdecl in *. destruct ts as [|ty r]; [discriminate|].
  destruct (vtype_of_tk (tkk ty)) as [vt|]; [|discriminate].
  destruct (tk_beq (peek r) TTYPE_ARRAY).
  - destruct r as [|t0 [|n r1]]; try discriminate. destruct (pdname n) as [dn|]; [|discriminate]. cbv zeta in *.
    assert (K : forall (sh:option (option (list str) * list token)),
      match sh with
      | Some (shp, a :: nl :: r3) =>
          if (isk TASSIGN a && isk TNEWLINE nl)%bool then
            if tk_beq (peek r3) TLBRACE then
              match r3 with
              | _ :: p :: c :: r4 =>
                  if (isk TNAME p && isk TRBRACE c)%bool
                  then Some (IArray vt dn shp (AParam (ttext p)) (tline ty) (tcol ty), r4) else None
              | _ => None
              end
            else match parrayval f r3 with
                 | Some (rows, r4) => Some (IArray vt dn shp (ARows rows) (tline ty) (tcol ty), r4)
                 | None => None
                 end
          else None
      | _ => None
      end = Some x ->
      match sh with
      | Some (shp, a :: nl :: r3) =>
          if (isk TASSIGN a && isk TNEWLINE nl)%bool then
            if tk_beq (peek r3) TLBRACE then
              match r3 with
              | _ :: p :: c :: r4 =>
                  if (isk TNAME p && isk TRBRACE c)%bool
                  then Some (IArray vt dn shp (AParam (ttext p)) (tline ty) (tcol ty), r4) else None
              | _ => None
              end
            else match parrayval f' r3 with
                 | Some (rows, r4) => Some (IArray vt dn shp (ARows rows) (tline ty) (tcol ty), r4)
                 | None => None
                 end
          else None
      | _ => None
      end = Some x).
    { intros [[shp [|a [|nl r3]]]|] H1; try discriminate.
      destruct (isk TASSIGN a && isk TNEWLINE nl)%bool; [|discriminate].
      destruct (tk_beq (peek r3) TLBRACE); [exact H1|].
      destruct (parrayval f r3) as [[rows r4]|] eqn:E; [|discriminate]. rewrite (parrayval_mono f f' _ _ L E). exact H1. }
    destruct (tk_beq (peek r1) TLSQBRAC); [|exact (K (Some (None, r1)) H)].
    destruct (pshape f (tl r1)) as [[l [|c r2]]|] eqn:E; try discriminate. rewrite (pshape_mono f f' _ _ L E).
    destruct (isk TRSQBRAC c); [|discriminate]. exact (K (Some (Some l, r2)) H).
  - destruct r as [|n [|a r1]]; try discriminate. destruct (pdname n) as [dn|]; [|discriminate].
    destruct (isk TASSIGN a); [|discriminate].
    destruct (pval f r1) as [[v r2]|] eqn:E; [|discriminate]. rewrite (pval_mono f f' _ _ L E). exact H.
Qed.

Lemma pprogram_mono f f' ts x : f <= f' -> pprogram f ts = Some x -> pprogram f' ts = Some x.
Proof.
  revert f' ts x. induction f as [|f IH]; intros f' ts x L H; [discriminate|].
  destruct f' as [|f']; [lia|]. cbn [pprogram] in *. destruct ts as [|t r]; [exact H|].
  assert (Lf : f <= f') by lia.
  assert (D : match pdecl f (t :: r) with
              | Some (it, r1) => match pprogram f r1 with Some l => Some (it :: l) | None => None end
              | None => None end = Some x ->
              match pdecl f' (t :: r) with
              | Some (it, r1) => match pprogram f' r1 with Some l => Some (it :: l) | None => None end
              | None => None end = Some x).
  { intros H1. destruct (pdecl f (t :: r)) as [[it r1]|] eqn:E; [|discriminate]. rewrite (pdecl_mono f f' _ _ Lf E).
    destruct (pprogram f r1) as [l|] eqn:E2; [|discriminate]. rewrite (IH f' r1 _ Lf E2). exact H1. }
  assert (S0 : match pstatement f (t :: r) with
              | Some (s, r1) => match pprogram f r1 with Some l => Some (IStmt s :: l) | None => None end
              | None => None end = Some x ->
              match pstatement f' (t :: r) with
              | Some (s, r1) => match pprogram f' r1 with Some l => Some (IStmt s :: l) | None => None end
              | None => None end = Some x).
  { intros H1. destruct (pstatement f (t :: r)) as [[s r1]|] eqn:E; [|discriminate].
    rewrite (pstatement_mono f f' _ _ Lf E).
    destruct (pprogram f r1) as [l|] eqn:E2; [|discriminate]. rewrite (IH f' r1 _ Lf E2). exact H1. }
  destruct (tkk t); try (exact (D H)); try (exact (S0 H)).
  - destruct (pfor f (t :: r)) as [[it r1]|] eqn:E; [|discriminate]. rewrite (pfor_mono f f' _ _ Lf E).
    destruct (pprogram f r1) as [l|] eqn:E2; [|discriminate]. rewrite (IH f' r1 _ Lf E2). exact H.
  - now apply IH.
Qed.

Lemma pmetaline_mono f f' kw dev ts x : f <= f' -> pmetaline f kw dev ts = Some x -> pmetaline f' kw dev ts = Some x.
Proof.
  intros L H. unfold pmetaline in *. cbv zeta in *. destruct ts as [|n ts']; [exact H|].
  destruct (skip_nl (n :: ts')) as [|k [|d r1]]; try exact H.
  destruct (isk TNEWLINE n && tk_beq (tkk k) kw)%bool; [|exact H]. destruct (dev (tkk d)); [|exact H].
  destruct (tk_beq (peek r1) TLBRAC); [|exact H].
  destruct (parguments f r1) as [[a r2]|] eqn:E; [|discriminate]. rewrite (parguments_mono f f' _ _ L E). exact H.
Qed.

(* ------------------------------------------------------------------------------------------------ *)
(* 15. Examples                                                                                      *)
(* ------------------------------------------------------------------------------------------------ *)
Section Examples.
Local Open Scope N_scope.
Let num (s:str) := ENum NKInt s.
Let flt (s:str) := ENum NKFloat s.
Let sSgate : str := [83; 103; 97; 116; 101].
Let sMeasureFock : str := [77; 101; 97; 115; 117; 114; 101; 70; 111; 99; 107].

(*  name p
    version 1.0
    int n = 5
    float array A[2, 2] =
        1.5, 2.5
        0.0, 3.25
    Sgate(x, a=[1, "s"]) | [0, 1]
    for int i in 0:3
        MeasureFock() | [i, 1]            *)
Definition ex_script : script :=
  mkscript [112] [49; 46; 48] None None []
    [ IScalar VTInt (DName [110]) (VE (num [53])) 3 0;
      IArray VTFloat (DName [65]) (Some [[50]; [50]])
        (ARows [[flt [49; 46; 53]; flt [50; 46; 53]]; [flt [48; 46; 48]; flt [51; 46; 50; 53]]]) 4 0;
      IStmt (mkstmt sSgate (Some (mkargs [VE (EVar [120] 7 6)] [([97], KL [VE (num [49]); VS [115]])]))
                    [num [48]; num [49]]);
      IFor VTInt [105] (HRange [48] [51] None)
        [mkstmt sMeasureFock (Some (mkargs [] [])) [EVar [105] 9 22; num [49]]] ].

Example ex_roundtrip : pscript 40 (up_script ex_script) = Some (erase_script ex_script).
Proof. vm_compute. reflexivity. Qed.

Example ex_tokens : map tkind (up_script ex_script) =
  [19; 58; 16; 20; 10; 16;
   53; 58; 6; 9; 16;
   51; 50; 58; 45; 9; 40; 9; 46; 6; 16; 17; 10; 40; 10; 16; 17; 10; 40; 10; 16;
   58; 43; 58; 40; 58; 6; 45; 9; 40; 12; 46; 44; 49; 45; 9; 40; 9; 46; 16;
   7; 53; 58; 8; 9; 41; 9; 16; 17; 57; 43; 44; 49; 45; 58; 40; 9; 46; 16]%nat.
Proof. vm_compute. reflexivity. Qed.

Example ex_wf : wf_script ex_script.
Proof.
  unfold wf_script, ex_script, wf_item, wf_stmt, wf_oargs, wf_args, wf_row, wf_hdr, wf_arrbody, wf_dname, wf_meta,
    wf_kwval, wf_val, noquote; cbn.
  repeat (discriminate || split || constructor).
Qed.

(*  name p / version 1.0 / target gaussian (shots=10) / type tdm (copies=-x**2, 3*{q}) / include "a.xbb" /
    complex b = sqrt(2)*x[1] / for float q in [1, True, "s"] ... *)
Definition ex_script2 : script :=
  mkscript [112] [49; 46; 48]
    (Some ([103; 97; 117; 115; 115; 105; 97; 110], Some (mkargs [] [([115; 104; 111; 116; 115], KV (VE (num [49; 48])))])))
    (Some ([116; 100; 109],
           Some (mkargs [VE (EMul false (num [51]) (EPar [113]))]
                        [([99; 111; 112; 105; 101; 115], KV (VE (EPow (ESign true (EVar [120] 1 1)) (num [50]))))])))
    [[34; 97; 46; 120; 98; 98; 34]]
    [ IScalar VTComplex (DName [98]) (VE (EMul false (EFun FSqrt (num [50])) (EIdx [120] 5 5 (num [49])))) 6 0;
      IArray VTArray (DReg [113] 1 1) None (AParam [112]) 7 0;
      IFor VTFloat [113] (HList [VE (num [49]); VB true; VS [115]])
        [mkstmt sSgate None [EBr (EAdd true (EVar [113] 2 2) (num [49]))];
         mkstmt sSgate (Some (mkargs [VS [115]; VB false] [])) [EReg [113]]] ].

Example ex_roundtrip2 : pscript 40 (up_script ex_script2) = Some (erase_script ex_script2).
Proof. vm_compute. reflexivity. Qed.

(* a string that contains a quote is not printed faithfully: the side condition on VS is necessary *)
Example ex_quote_needed : forall f, pval f (up_val (VS [34])) <> Some (VS [34], []).
Proof. intros f. vm_compute. discriminate. Qed.
(* an empty mode list is not accepted *)
Example ex_modes_needed : pstatement 40 (up_stmt_nonl (mkstmt sSgate None [])) = None.
Proof. vm_compute. reflexivity. Qed.
End Examples.

Print Assumptions unparse_parse_exact.
Print Assumptions unparse_parse.
Print Assumptions pprogram_mono.
