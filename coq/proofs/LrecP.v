(* Elimination of direct left recursion, generically.

   ANTLR accepts a directly left-recursive rule
        E : prim | pre E | E bin E
   and the g4 translator rewrites it into loop form
        E : (pre* prim) (bin (pre* prim))*
   This file proves that the two grammars derive exactly the same segments, for EVERY
   expression (hence for every rule of the grammar, also those that mention [Ref A], and also
   when [prim], [pre], [bin] mention [Ref A] themselves).  This removes the rewrite from the
   trusted base.

   Note: no non-emptiness side condition on [pre] / [bin] is needed.  The relation [M] demands
   non-empty Star iterations, but an empty iteration can simply be dropped ([star_cons] below),
   so the statement holds for arbitrary [prim], [pre], [bin].  The syntactic test [tokalt] and
   its consequences are nevertheless provided at the end for users who want them. *)
From Coq Require Import List Arith Bool Lia.
Import ListNotations.
From BB Require Import Ebnf EbnfP.

(* ---------- generic facts about M, for one grammar ---------- *)
Section MFacts.
Variables (sym T : Type).
Variable tm : T -> sym -> bool.
Variable g : nat -> ebnf T.
Variable w : list sym.
Notation M := (M sym T tm g w).

Lemma M_ref_inv r i j : M (Ref r) i j -> M (g r) i j.
Proof. intros H; inversion H; subst; assumption. Qed.

Lemma M_seq_inv a b i j : M (Seq a b) i j -> exists k, M a i k /\ M b k j.
Proof. intros H; inversion H; subst; eauto. Qed.

Lemma M_alt_inv a b i j : M (Alt a b) i j -> M a i j \/ M b i j.
Proof. intros H; inversion H; subst; auto. Qed.

(* one more iteration in front of a Star; an empty iteration is dropped *)
Lemma star_cons a i k j : M a i k -> M (Star a) k j -> M (Star a) i j.
Proof.
  intros Ha Hs. pose proof (M_le _ _ _ _ _ _ _ _ Ha) as Hle.
  destruct (Nat.eq_dec i k) as [->|Hne]; [exact Hs|].
  apply MStarS with (k:=k); [lia|exact Ha|exact Hs].
Qed.

Lemma star_app_gen e i k : M e i k -> forall a, e = Star a -> forall j, M (Star a) k j -> M (Star a) i j.
Proof.
  induction 1 as [ | | | | | | a i | a i k m Hlt Ha _ Hs IHs]; intros a0 E j' Hj; try discriminate.
  - exact Hj.
  - inversion E; subst a0. apply MStarS with (k:=k); [exact Hlt|exact Ha|]. apply IHs; [reflexivity|exact Hj].
Qed.

Lemma star_app a i k j : M (Star a) i k -> M (Star a) k j -> M (Star a) i j.
Proof. intros H1 H2. exact (star_app_gen _ _ _ H1 a eq_refl j H2). Qed.

(* induction principle for Star derivations, without the non-emptiness clutter *)
Lemma star_ind_l a (P : nat -> nat -> Prop) :
  (forall i, P i i) ->
  (forall i k j, M a i k -> M (Star a) k j -> P k j -> P i j) ->
  forall i j, M (Star a) i j -> P i j.
Proof.
  intros H0 HS.
  assert (G : forall e i j, M e i j -> e = Star a -> P i j).
  { induction 1 as [ | | | | | | b i | b i k m Hlt Hb _ Hs IHs]; intros E; try discriminate.
    - apply H0.
    - inversion E; subst b. apply HS with (k:=k); [exact Hb|exact Hs|apply IHs; reflexivity]. }
  intros i j H. exact (G _ _ _ H eq_refl).
Qed.
End MFacts.

(* ---------- the left-recursion elimination theorem ---------- *)
Section Lrec.
Variables (sym T : Type).
Variable tm : T -> sym -> bool.
Variable w : list sym.
Variable A : nat.
Variables g1 g2 : nat -> ebnf T.
Variables prim pre bin : ebnf T.

Hypothesis Hg1 : g1 A = Alt prim (Alt (Seq pre (Ref A)) (Seq (Ref A) (Seq bin (Ref A)))).
Hypothesis Hg2 : g2 A = Seq (Seq (Star pre) prim) (Star (Seq bin (Seq (Star pre) prim))).
Hypothesis Hother : forall r, r <> A -> g1 r = g2 r.

Notation M1 := (M sym T tm g1 w).
Notation M2 := (M sym T tm g2 w).

(* --- g2 side: the loop language is closed under the three left-recursive productions --- *)

Lemma loop_prim i j : M2 prim i j -> M2 (g2 A) i j.
Proof.
  intros Hp. rewrite Hg2. apply MSeq with (k:=j); [|apply MStar0].
  apply MSeq with (k:=i); [apply MStar0|exact Hp].
Qed.

Lemma loop_pre i k j : M2 pre i k -> M2 (g2 A) k j -> M2 (g2 A) i j.
Proof.
  intros Hp Hl. rewrite Hg2 in *.
  destruct (M_seq_inv _ _ _ _ _ _ _ _ _ Hl) as (m & Hu & Ht).
  destruct (M_seq_inv _ _ _ _ _ _ _ _ _ Hu) as (x & Hs & Hpr).
  apply MSeq with (k:=m); [|exact Ht].
  apply MSeq with (k:=x); [|exact Hpr].
  eapply star_cons; [exact Hp|exact Hs].
Qed.

Lemma loop_bin i k l j : M2 (g2 A) i k -> M2 bin k l -> M2 (g2 A) l j -> M2 (g2 A) i j.
Proof.
  intros Hl1 Hb Hl2. rewrite Hg2 in *.
  destruct (M_seq_inv _ _ _ _ _ _ _ _ _ Hl1) as (x & Hu1 & Ht1).
  destruct (M_seq_inv _ _ _ _ _ _ _ _ _ Hl2) as (y & Hu2 & Ht2).
  apply MSeq with (k:=x); [exact Hu1|].
  eapply star_app; [exact Ht1|].
  eapply star_cons; [|exact Ht2].
  apply MSeq with (k:=l); [exact Hb|exact Hu2].
Qed.

Theorem lrec_fwd : forall e i j, M1 e i j -> M2 e i j.
Proof.
  induction 1 as [t i x Hx Ht | r i j _ IH | i | a b i k j _ IHa _ IHb | a b i j _ IH | a b i j _ IH
                 | a i | a i k j Hlt _ IHa _ IHs].
  - eapply MTok; eauto.
  - apply MRef. destruct (Nat.eq_dec r A) as [->|Hne]; [|rewrite <- (Hother r Hne); exact IH].
    rewrite Hg1 in IH.
    destruct (M_alt_inv _ _ _ _ _ _ _ _ _ IH) as [Hp|IH2]; [apply loop_prim; exact Hp|].
    destruct (M_alt_inv _ _ _ _ _ _ _ _ _ IH2) as [Hpre|Hbin].
    + destruct (M_seq_inv _ _ _ _ _ _ _ _ _ Hpre) as (k & Hp & Hr).
      apply M_ref_inv in Hr. eapply loop_pre; [exact Hp|exact Hr].
    + destruct (M_seq_inv _ _ _ _ _ _ _ _ _ Hbin) as (k & Hr1 & Hrest).
      destruct (M_seq_inv _ _ _ _ _ _ _ _ _ Hrest) as (l & Hb & Hr2).
      apply M_ref_inv in Hr1. apply M_ref_inv in Hr2.
      eapply loop_bin; [exact Hr1|exact Hb|exact Hr2].
  - apply MEps.
  - eapply MSeq; eauto.
  - apply MAltL; assumption.
  - apply MAltR; assumption.
  - apply MStar0.
  - eapply MStarS; eauto.
Qed.

(* --- g1 side: the left-recursive nonterminal absorbs units and tails --- *)

Lemma E1_prim i j : M1 prim i j -> M1 (Ref A) i j.
Proof. intros Hp. apply MRef. rewrite Hg1. apply MAltL. exact Hp. Qed.

Lemma E1_pre i k j : M1 pre i k -> M1 (Ref A) k j -> M1 (Ref A) i j.
Proof.
  intros Hp Hr. apply MRef. rewrite Hg1. apply MAltR. apply MAltL.
  apply MSeq with (k:=k); [exact Hp|exact Hr].
Qed.

Lemma E1_bin i k l j : M1 (Ref A) i k -> M1 bin k l -> M1 (Ref A) l j -> M1 (Ref A) i j.
Proof.
  intros Hr1 Hb Hr2. apply MRef. rewrite Hg1. apply MAltR. apply MAltR.
  apply MSeq with (k:=k); [exact Hr1|]. apply MSeq with (k:=l); [exact Hb|exact Hr2].
Qed.

Lemma E1_prestar i k : M1 (Star pre) i k -> forall j, M1 (Ref A) k j -> M1 (Ref A) i j.
Proof.
  revert i k. apply (star_ind_l sym T tm g1 w pre (fun i k => forall j, M1 (Ref A) k j -> M1 (Ref A) i j)).
  - intros i j Hr; exact Hr.
  - intros i k m Hp _ IH j Hr. eapply E1_pre; [exact Hp|]. apply IH; exact Hr.
Qed.

Lemma E1_unit i j : M1 (Seq (Star pre) prim) i j -> M1 (Ref A) i j.
Proof.
  intros Hu. destruct (M_seq_inv _ _ _ _ _ _ _ _ _ Hu) as (k & Hs & Hp).
  eapply E1_prestar; [exact Hs|]. apply E1_prim; exact Hp.
Qed.

Lemma E1_tail k j : M1 (Star (Seq bin (Seq (Star pre) prim))) k j -> forall i, M1 (Ref A) i k -> M1 (Ref A) i j.
Proof.
  revert k j. apply (star_ind_l sym T tm g1 w (Seq bin (Seq (Star pre) prim))
                       (fun k j => forall i, M1 (Ref A) i k -> M1 (Ref A) i j)).
  - intros k i Hr; exact Hr.
  - intros k m j Hit _ IH i Hr. apply IH.
    destruct (M_seq_inv _ _ _ _ _ _ _ _ _ Hit) as (l & Hb & Hu).
    eapply E1_bin; [exact Hr|exact Hb|]. apply E1_unit; exact Hu.
Qed.

Theorem lrec_bwd : forall e i j, M2 e i j -> M1 e i j.
Proof.
  induction 1 as [t i x Hx Ht | r i j _ IH | i | a b i k j _ IHa _ IHb | a b i j _ IH | a b i j _ IH
                 | a i | a i k j Hlt _ IHa _ IHs].
  - eapply MTok; eauto.
  - destruct (Nat.eq_dec r A) as [->|Hne]; [|apply MRef; rewrite (Hother r Hne); exact IH].
    rewrite Hg2 in IH.
    destruct (M_seq_inv _ _ _ _ _ _ _ _ _ IH) as (k & Hu & Ht).
    eapply E1_tail; [exact Ht|]. apply E1_unit; exact Hu.
  - apply MEps.
  - eapply MSeq; eauto.
  - apply MAltL; assumption.
  - apply MAltR; assumption.
  - apply MStar0.
  - eapply MStarS; eauto.
Qed.

Theorem lrec_elim : forall e i j, M1 e i j <-> M2 e i j.
Proof. intros e i j; split; [apply lrec_fwd|apply lrec_bwd]. Qed.
End Lrec.

(* ---------- whole-word corollary: same start expression, same language ---------- *)
Corollary lrec_elim_word (sym T : Type) (tm : T -> sym -> bool) (w : list sym) (A : nat)
    (g1 g2 : nat -> ebnf T) (prim pre bin : ebnf T) :
  g1 A = Alt prim (Alt (Seq pre (Ref A)) (Seq (Ref A) (Seq bin (Ref A)))) ->
  g2 A = Seq (Seq (Star pre) prim) (Star (Seq bin (Seq (Star pre) prim))) ->
  (forall r, r <> A -> g1 r = g2 r) ->
  forall e, M sym T tm g1 w e 0 (length w) <-> M sym T tm g2 w e 0 (length w).
Proof. intros H1 H2 H3 e. apply (lrec_elim sym T tm w A g1 g2 prim pre bin H1 H2 H3). Qed.

(* ---------- optional: the syntactic class of operator expressions ---------- *)
(* [tokalt e]: e is built from Tok and Alt only.  Such expressions derive exactly one symbol and
   do so independently of the grammar.  Not needed by [lrec_elim]; offered for convenience. *)
Fixpoint tokalt {T} (e : ebnf T) : bool :=
  match e with Tok _ => true | Alt a b => tokalt a && tokalt b | _ => false end.

Lemma tokalt_step sym T tm g w (e : ebnf T) i j : tokalt e = true -> M sym T tm g w e i j -> j = S i.
Proof.
  intros Ht H; induction H; simpl in Ht; try discriminate; try reflexivity;
    apply andb_true_iff in Ht; destruct Ht as (Ha & Hb); auto.
Qed.

Lemma tokalt_nonempty sym T tm g w (e : ebnf T) i j : tokalt e = true -> M sym T tm g w e i j -> i < j.
Proof. intros Ht H. rewrite (tokalt_step _ _ _ _ _ _ _ _ Ht H). lia. Qed.

Lemma tokalt_indep sym T tm g g' w (e : ebnf T) i j : tokalt e = true -> M sym T tm g w e i j -> M sym T tm g' w e i j.
Proof.
  intros Ht H; induction H; simpl in Ht; try discriminate.
  - eapply MTok; eauto.
  - apply andb_true_iff in Ht; destruct Ht as (Ha & Hb). apply MAltL; auto.
  - apply andb_true_iff in Ht; destruct Ht as (Ha & Hb). apply MAltR; auto.
Qed.

(* ---------- a concrete instance ---------- *)
Module LrecExample.
  Definition prim : ebnf nat := Alt (Tok 1) (Seq (Tok 2) (Seq (Ref 0) (Tok 3))).
  Definition pre  : ebnf nat := Tok 4.
  Definition bin  : ebnf nat := Alt (Tok 5) (Tok 6).

  (* rule 0 is the expression rule; rule 1 is some other rule that mentions it *)
  Definition other (r : nat) : ebnf nat := match r with 1 => Seq (Ref 0) (Tok 7) | _ => Eps end.
  Definition g1 (r : nat) : ebnf nat :=
    match r with 0 => Alt prim (Alt (Seq pre (Ref 0)) (Seq (Ref 0) (Seq bin (Ref 0)))) | _ => other r end.
  Definition g2 (r : nat) : ebnf nat :=
    match r with 0 => Seq (Seq (Star pre) prim) (Star (Seq bin (Seq (Star pre) prim))) | _ => other r end.

  Example tokalt_pre : tokalt pre = true. Proof. reflexivity. Qed.
  Example tokalt_bin : tokalt bin = true. Proof. reflexivity. Qed.

  Example example_lrec : forall (w : list nat) e i j,
    M nat nat Nat.eqb g1 w e i j <-> M nat nat Nat.eqb g2 w e i j.
  Proof.
    intros w. apply (lrec_elim nat nat Nat.eqb w 0 g1 g2 prim pre bin).
    - reflexivity.
    - reflexivity.
    - intros r Hr. destruct r as [|r]; [contradiction Hr; reflexivity|reflexivity].
  Qed.

  (* 4 1 5 2 1 3  =  pre prim bin ( '2' E '3' ) *)
  Example example_word : M nat nat Nat.eqb g2 [4;1;5;2;1;3] (Ref 0) 0 6.
  Proof.
    apply example_lrec.
    assert (P1 : forall w i, nth_error w i = Some 1 -> M nat nat Nat.eqb g1 w (Ref 0) i (S i)).
    { intros w i Hi. apply MRef. apply MAltL. apply MAltL. eapply MTok; [exact Hi|reflexivity]. }
    set (w := [4;1;5;2;1;3]).
    assert (Hpar : M nat nat Nat.eqb g1 w (Ref 0) 3 6).
    { apply MRef. apply MAltL. apply MAltR. apply MSeq with (k:=4); [eapply MTok; [reflexivity|reflexivity]|].
      apply MSeq with (k:=5); [apply P1; reflexivity|eapply MTok; [reflexivity|reflexivity]]. }
    assert (Hneg : M nat nat Nat.eqb g1 w (Ref 0) 0 2).
    { apply MRef. apply MAltR. apply MAltL. apply MSeq with (k:=1); [eapply MTok; [reflexivity|reflexivity]|].
      apply P1; reflexivity. }
    apply MRef. apply MAltR. apply MAltR. apply MSeq with (k:=2); [exact Hneg|].
    apply MSeq with (k:=3); [|exact Hpar]. apply MAltL. eapply MTok; [reflexivity|reflexivity].
  Qed.
End LrecExample.

Print Assumptions lrec_elim.
