(* The TOKEN-LEVEL round trip: serialise a program (model/Serialize.v), print the script to tokens
   (model/Unparse.v), parse the tokens with the model parser (model/Parser.v) and load the result (model/Eval.v):
   the program that comes back is the one serialised, up to the value of symbolic terms.

     ser_script_wf         : wf_prog p -> strings_ok p -> modes_ok p -> ser_script p = Some sc -> wf_script sc
     ser_script_erased     : ser_script p = Some sc -> erase_script sc = sc        (the serialiser writes no positions)
     token_roundtrip       : ... ser_script p = Some sc ->
                             exists f p', pscript f (up_script sc) = Some (erase_script sc) /\
                                          denote [] (erase_script sc) = Ok p' /\ prog_equiv p' p
     token_roundtrip_total : ... exists sc f p', ser_script p = Some sc /\ (the same)
     token_roundtrip_exact : the same with sc in place of erase_script sc

   This composes SerializeP.ser_roundtrip (script level), UnparseP.unparse_parse_exact (tokens -> tree) and
   LayoutP.denote_position_blind (positions only matter for error positions).  UnparseP and LayoutP each define
   their own position erasure; the two are shown equal (erase_script_eq).

   The conditions on p beyond SerializeP.wf_prog are exactly those that UnparseP.wf_script needs and wf_prog does not
   give:  strings_ok (no string value contains the quote character, code point 34: the printer writes "s" and the
   parser strips every quote)  and  modes_ok (every operation has a mode: the printer always writes  | [modes]  and the
   parser wants a non-empty list).  Everything else follows from wf_prog: the expressions written for numbers are
   stratified (term_expr_WF: term_expr is fully bracketed, every binary node and every sign inside a term is wrapped in
   EBr; int_expr may be a bare  -n  but only ever stands alone as a value, a mode or an array element), array rows are
   non-empty (wf_arr: 1 <= cols, length = rows * cols), a hoisted shape is [r; c], declared names are ordinary names. *)
From Coq Require Import List NArith ZArith Bool Arith Lia.
Import ListNotations.
From BB Require Import Lexer Syntax Parser Unparse Values Eval Serialize ExprP UnparseP SerializeP.
From BB Require LayoutP.

(* ================================================================================================ *)
(* 1. The expressions the serialiser writes are stratified                                           *)
(* ================================================================================================ *)
Lemma term_expr_WF_level : forall t, WF (term_expr t) /\ level (term_expr t) = 10.
Proof.
  induction t as [m e| | |p|s|a b [Wa La] [Wb Lb]|a b [Wa La] [Wb Lb]|a b N [Wa La] [Wb Lb]|a [Wa La]|a [Wa La]
                 |a b [Wa La] [Wb Lb]|f a [Wa La]] using term_ind_div.
  - cbn [term_expr]. destruct (Z.ltb m 0); (split; [|reflexivity]).
    + apply WBr. apply WSign; [apply WNum|cbn [level]; lia].
    + apply WNum.
  - split; [apply WNum|reflexivity].
  - split; [apply WNum|reflexivity].
  - split; [apply WPar|reflexivity].
  - split; [apply WReg|reflexivity].
  - cbn [term_expr]. split; [|reflexivity]. apply WBr. apply WAdd; auto; lia.
  - cbn [term_expr]. split; [|reflexivity]. apply WBr. apply WMul; auto; lia.
  - rewrite (term_expr_mul a b N). split; [|reflexivity]. apply WBr. apply WMul; auto; lia.
  - cbn [term_expr]. split; [|reflexivity]. apply WBr. apply WSign; auto; lia.
  - cbn [term_expr]. split; [|reflexivity]. apply WBr. apply WMul; auto; [apply WNum|cbn [level]; lia|lia].
  - cbn [term_expr]. split; [|reflexivity]. apply WBr. apply WPow; auto; lia.
  - cbn [term_expr]. split; [|reflexivity]. apply WFun; auto.
Qed.

Lemma term_expr_WF t : WF (term_expr t).
Proof. apply term_expr_WF_level. Qed.
Lemma term_expr_level t : level (term_expr t) = 10.
Proof. apply term_expr_WF_level. Qed.

Lemma int_expr_WF z : WF (int_expr z).
Proof.
  unfold int_expr. destruct (Z.ltb z 0); [|apply WNum]. apply WSign; [apply WNum|cbn [level]; lia].
Qed.

Lemma cpx_expr_WF t : WF (cpx_expr t).
Proof.
  unfold cpx_expr. apply WBr. apply WAdd; [apply term_expr_WF|apply WNum|rewrite term_expr_level; lia|cbn [level]; lia].
Qed.

Lemma elem_expr_WF v e : elem_expr v = Some e -> WF e.
Proof.
  destruct v; cbn [elem_expr]; intros E; try discriminate; injection E as <-;
    [apply int_expr_WF|apply term_expr_WF|apply cpx_expr_WF].
Qed.

(* ================================================================================================ *)
(* 2. The extra conditions on the program                                                            *)
(* ================================================================================================ *)
(* a string value has no quote character *)
Definition str_ok (v:value) : Prop := match v with VStr s => noquote s | _ => True end.
(* ... also inside a list value *)
Definition val_strs_ok (v:value) : Prop := match v with VList l => Forall str_ok l | _ => str_ok v end.

Definition op_strs_ok (o:op) : Prop :=
  match oargs o with
  | None => True
  | Some (ps, kws) => Forall val_strs_ok ps /\ Forall (fun kv => val_strs_ok (snd kv)) kws
  end.

(* every string value that is written: options of target and type, positional and keyword arguments (lists
   included), and, in a tdm program (the variable block of any other program is not written), the variables *)
Definition strings_ok (p:prog) : Prop :=
  Forall (fun kv => val_strs_ok (snd kv)) (p_target_opts p) /\
  Forall (fun kv => val_strs_ok (snd kv)) (p_type_opts p) /\
  Forall op_strs_ok (p_ops p) /\
  (is_tdm (p_type p) = true -> Forall (fun kv => str_ok (snd kv)) (p_vars p)).

(* every operation acts on at least one mode *)
Definition modes_ok (p:prog) : Prop := Forall (fun o => omodes o <> []) (p_ops p).

(* ================================================================================================ *)
(* 3. The serialised script is well-formed for the printer                                           *)
(* ================================================================================================ *)
Lemma omap_Forall {A B} (f:A -> option B) (P:A -> Prop) (Q:B -> Prop) :
  (forall x y, P x -> f x = Some y -> Q y) ->
  forall l r, Forall P l -> omap f l = Some r -> Forall Q r.
Proof.
  intros H. induction l as [|x l IH]; intros r W E; cbn [omap] in E.
  - injection E as <-. constructor.
  - inversion W as [|? ? Wx Wl]; subst.
    destruct (f x) as [y|] eqn:Ex; [|discriminate]. destruct (omap f l) as [ys|] eqn:El; [|discriminate].
    injection E as <-. constructor; [eapply H; eassumption|apply IH; auto].
Qed.

Lemma omap_length {A B} (f:A -> option B) : forall l r, omap f l = Some r -> length r = length l.
Proof.
  induction l as [|x l IH]; intros r E; cbn [omap] in E.
  - injection E as <-. reflexivity.
  - destruct (f x) as [y|]; [|discriminate]. destruct (omap f l) as [ys|] eqn:El; [|discriminate].
    injection E as <-. cbn [length]. f_equal. apply IH. reflexivity.
Qed.

Lemma value_val_wf tdm v w : str_ok v -> value_val tdm v = Some w -> wf_val w.
Proof.
  intros S E. destruct v; cbn [value_val] in E; try discriminate; injection E as <-; cbn [wf_val].
  - apply int_expr_WF.
  - apply term_expr_WF.
  - apply cpx_expr_WF.
  - apply term_expr_WF.
  - apply term_expr_WF.
  - exact I.
  - destruct (tdm && is_ptype s)%bool; cbn [wf_val]; [apply WVar|exact S].
  - apply WVar.
Qed.

Lemma values_val_wf tdm l ws : Forall str_ok l -> omap (value_val tdm) l = Some ws -> Forall wf_val ws.
Proof. apply omap_Forall. intros x y. apply value_val_wf. Qed.

Lemma kwval_of_wf tdm v w : val_strs_ok v -> kwval_of tdm v = Some w -> wf_kwval w.
Proof.
  intros S E.
  assert (G : forall u, str_ok u -> option_map KV (value_val tdm u) = Some w -> wf_kwval w).
  { intros u Su Eu. destruct (value_val tdm u) as [x|] eqn:Ex; [|discriminate]. injection Eu as <-.
    cbn [wf_kwval]. eapply value_val_wf; eassumption. }
  destruct v; cbn [kwval_of val_strs_ok] in *; try (eapply G; [|exact E]; assumption).
  destruct (omap (value_val tdm) l) as [ws|] eqn:El; [|discriminate]. injection E as <-.
  cbn [wf_kwval]. eapply values_val_wf; eassumption.
Qed.

(* ---- arrays ---- *)
Lemma chunks_Forall {A} (P:A -> Prop) r c : forall l, Forall P l -> Forall (Forall P) (chunks r c l).
Proof.
  induction r as [|r IH]; intros l H; cbn [chunks]; constructor.
  - rewrite <- (firstn_skipn c l) in H. apply Forall_app in H. apply H.
  - apply IH. rewrite <- (firstn_skipn c l) in H. apply Forall_app in H. apply H.
Qed.

Lemma arr_decl_wf x sh ty r c l d : wf_arr (VArr ty r c l) -> arr_decl x sh ty r c l = Some d -> wf_item d.
Proof.
  intros (Hr & Hc & Len & _) E. unfold arr_decl in E.
  destruct (omap elem_expr l) as [es|] eqn:Ee; [|discriminate]. injection E as <-.
  cbn [wf_item wf_dname wf_arrbody]. split; [exact I|]. split; [destruct sh; discriminate|].
  assert (Les : length es = (r * c)%nat) by (rewrite (omap_length _ _ _ Ee); exact Len).
  assert (We : Forall WF es).
  { eapply (omap_Forall elem_expr (fun _ => True) WF); [|apply Forall_forall; intros; exact I|exact Ee].
    intros v e _. apply elem_expr_WF. }
  pose proof (chunks_Forall WF r c es We) as Wr. pose proof (chunks_rows r c es Les) as Lr.
  rewrite Forall_forall in *. intros row Hin. split; [|apply Wr; exact Hin].
  specialize (Lr row Hin). intros ->. cbn [length] in Lr. lia.
Qed.

Lemma decl_item_wf sh kv d : wf_var (snd kv) -> str_ok (snd kv) -> decl_item sh kv = Some d -> wf_item d.
Proof.
  destruct kv as [x v]. cbn [snd]. intros W S E. unfold decl_item in E. cbn [fst snd] in E.
  destruct v; cbn [wf_var] in W; try contradiction; try (eapply arr_decl_wf; eassumption);
    injection E as <-; cbn [wf_item wf_dname wf_val]; (split; [exact I|]).
  - apply int_expr_WF.
  - apply term_expr_WF.
  - apply cpx_expr_WF.
  - exact I.
  - exact S.
Qed.

(* ---- arguments ---- *)
Section ArgsWf.
Variable tdm : bool.
Variable PNp : str -> Prop.

Lemma hoist_val_wf v k w k' ds :
  wf_arg tdm PNp v -> str_ok v -> hoist_val tdm v k = Some (w, k', ds) -> wf_val w /\ Forall wf_item ds.
Proof.
  intros W S E. unfold hoist_val in E.
  assert (G : match value_val tdm v with Some w0 => Some (w0, k, @nil item) | None => None end = Some (w, k', ds) ->
              wf_val w /\ Forall wf_item ds).
  { destruct (value_val tdm v) as [w0|] eqn:Ev; [|discriminate]. intros X. injection X as <- <- <-.
    split; [eapply value_val_wf; eassumption|constructor]. }
  destruct v; try (apply G; exact E).
  unfold wf_arg in W. cbn [is_arr] in W.
  destruct (decl_item true (arr_name k, VArr k0 rows cols elems)) as [d|] eqn:Ed; [|discriminate].
  injection E as <- <- <-. split; [cbn [wf_val]; apply WVar|].
  constructor; [|constructor].
  apply (decl_item_wf true (arr_name k, VArr k0 rows cols elems) d); [exact W|exact I|exact Ed].
Qed.

Lemma val_strs_str_ok v : val_strs_ok v -> str_ok v.
Proof. destruct v; cbn; auto. Qed.

Lemma hoist_pos_wf : forall l k ws k' ds,
  Forall (wf_arg tdm PNp) l -> Forall val_strs_ok l -> hoist_pos tdm l k = Some (ws, k', ds) ->
  Forall wf_val ws /\ Forall wf_item ds.
Proof.
  induction l as [|v l IH]; intros k ws k' ds W S E; cbn [hoist_pos] in E.
  - injection E as <- <- <-. split; constructor.
  - inversion W as [|? ? Wv Wl]; subst. inversion S as [|? ? Sv Sl]; subst.
    destruct (hoist_val tdm v k) as [[[w k1] d1]|] eqn:Ev; [|discriminate].
    destruct (hoist_pos tdm l k1) as [[[ws' k2] d2]|] eqn:El; [|discriminate].
    injection E as <- <- <-.
    pose proof (val_strs_str_ok v Sv) as Sv'.
    destruct (hoist_val_wf v k w k1 d1 Wv Sv' Ev) as [A B]. destruct (IH k1 ws' k2 d2 Wl Sl El) as [C D].
    split; [constructor; assumption|apply Forall_app; split; assumption].
Qed.

Lemma hoist_kw_wf v k w k' ds :
  wf_kwarg tdm PNp v -> val_strs_ok v -> hoist_kw tdm v k = Some (w, k', ds) -> wf_kwval w /\ Forall wf_item ds.
Proof.
  intros W S E. unfold hoist_kw in E.
  assert (G : match kwval_of tdm v with Some w0 => Some (w0, k, @nil item) | None => None end = Some (w, k', ds) ->
              wf_kwval w /\ Forall wf_item ds).
  { destruct (kwval_of tdm v) as [w0|] eqn:Ev; [|discriminate]. intros X. injection X as <- <- <-.
    split; [eapply kwval_of_wf; eassumption|constructor]. }
  destruct v; try (apply G; exact E).
  destruct (hoist_val tdm (VArr k0 rows cols elems) k) as [[[w0 k1] d]|] eqn:Ev; [|discriminate].
  injection E as <- <- <-. cbn [wf_kwval].
  eapply hoist_val_wf; [| |exact Ev]; [unfold wf_arg; cbn [is_arr]; exact W|exact I].
Qed.

Lemma hoist_kws_wf : forall l k kws k' ds,
  Forall (fun kv => wf_kwarg tdm PNp (snd kv)) l -> Forall (fun kv => val_strs_ok (snd kv)) l ->
  hoist_kws tdm l k = Some (kws, k', ds) ->
  Forall (fun kw => wf_kwval (snd kw)) kws /\ Forall wf_item ds.
Proof.
  induction l as [|[x v] l IH]; intros k kws k' ds W S E; cbn [hoist_kws] in E.
  - injection E as <- <- <-. split; constructor.
  - inversion W as [|? ? Wv Wl]; subst. inversion S as [|? ? Sv Sl]; subst. cbn [snd] in Wv, Sv.
    destruct (hoist_kw tdm v k) as [[[w k1] d1]|] eqn:Ev; [|discriminate].
    destruct (hoist_kws tdm l k1) as [[[ws' k2] d2]|] eqn:El; [|discriminate].
    injection E as <- <- <-.
    destruct (hoist_kw_wf v k w k1 d1 Wv Sv Ev) as [A B]. destruct (IH k1 ws' k2 d2 Wl Sl El) as [C D].
    split; [constructor; assumption|apply Forall_app; split; assumption].
Qed.

Lemma modes_row ms : ms <> [] -> wf_row (map int_expr ms).
Proof.
  intros N. split.
  - destruct ms; [congruence|discriminate].
  - apply Forall_forall. intros e He. apply in_map_iff in He as (z & <- & _). apply int_expr_WF.
Qed.

Lemma ser_op_wf o k t k' ds :
  wf_op tdm PNp o -> op_strs_ok o -> omodes o <> [] -> ser_op tdm o k = Some (t, k', ds) ->
  wf_stmt t /\ Forall wf_item ds.
Proof.
  intros [_ W] S M E. unfold ser_op in E. unfold op_strs_ok in S.
  destruct (oargs o) as [[ps kws]|].
  - destruct W as (Wp & _ & Wk). destruct S as [Sp Sk].
    destruct (hoist_pos tdm ps k) as [[[ws k1] d1]|] eqn:Ep; [|discriminate].
    destruct (hoist_kws tdm kws k1) as [[[kw k2] d2]|] eqn:Ek; [|discriminate].
    injection E as <- <- <-.
    destruct (hoist_pos_wf ps k ws k1 d1 Wp Sp Ep) as [A B].
    destruct (hoist_kws_wf kws k1 kw k2 d2 Wk Sk Ek) as [C D].
    split; [|apply Forall_app; split; assumption].
    unfold wf_stmt. cbn [sargs smodes wf_oargs]. split; [split; assumption|apply modes_row; exact M].
  - injection E as <- <- <-. split; [|constructor].
    unfold wf_stmt. cbn [sargs smodes wf_oargs]. split; [exact I|apply modes_row; exact M].
Qed.

Lemma ser_ops_wf : forall ops k ts k' ds,
  Forall (wf_op tdm PNp) ops -> Forall op_strs_ok ops -> Forall (fun o => omodes o <> []) ops ->
  ser_ops tdm ops k = Some (ts, k', ds) ->
  Forall wf_stmt ts /\ Forall wf_item ds.
Proof.
  induction ops as [|o ops IH]; intros k ts k' ds W S M E; cbn [ser_ops] in E.
  - injection E as <- <- <-. split; constructor.
  - inversion W as [|? ? Wo Wl]; subst. inversion S as [|? ? So Sl]; subst. inversion M as [|? ? Mo Ml]; subst.
    destruct (ser_op tdm o k) as [[[t k1] d1]|] eqn:Eo; [|discriminate].
    destruct (ser_ops tdm ops k1) as [[[ts' k2] d2]|] eqn:El; [|discriminate].
    injection E as <- <- <-.
    destruct (ser_op_wf o k t k1 d1 Wo So Mo Eo) as [A B]. destruct (IH k1 ts' k2 d2 Wl Sl Ml El) as [C D].
    split; [constructor; assumption|apply Forall_app; split; assumption].
Qed.

End ArgsWf.

(* ---- metadata ---- *)
Lemma ser_opts_wf opts kws :
  Forall (fun kv => val_strs_ok (snd kv)) opts -> ser_opts opts = Some kws -> Forall (fun kw => wf_kwval (snd kw)) kws.
Proof.
  unfold ser_opts. apply omap_Forall. intros kv y S E.
  destruct (kwval_of false (snd kv)) as [w|] eqn:Ew; [|discriminate]. injection E as <-. cbn [snd].
  eapply kwval_of_wf; eassumption.
Qed.

Lemma ser_meta_wf nm opts m :
  Forall (fun kv => val_strs_ok (snd kv)) opts -> ser_meta nm opts = Some m -> wf_meta m.
Proof.
  intros S E. unfold ser_meta in E. destruct nm as [n|]; [|injection E as <-; exact I].
  destruct opts as [|o opts]; [injection E as <-; exact I|].
  destruct (ser_opts (o :: opts)) as [kws|] eqn:Ek; [|discriminate]. injection E as <-.
  cbn [wf_meta wf_oargs]. unfold wf_args. cbn [apos akw]. split; [constructor|].
  eapply ser_opts_wf; eassumption.
Qed.

(* ---- the script ---- *)
Theorem ser_script_wf p sc : wf_prog p -> strings_ok p -> modes_ok p -> ser_script p = Some sc -> wf_script sc.
Proof.
  intros W (Stg & Sty & Sops & Svars) M E. unfold ser_script in E.
  destruct (ser_meta (p_target p) (p_target_opts p)) as [tg|] eqn:Etg; [|discriminate].
  destruct (ser_meta (p_type p) (p_type_opts p)) as [ty|] eqn:Ety; [|discriminate].
  destruct (if is_tdm (p_type p) then omap (decl_item false) (p_vars p) else Some []) as [vb|] eqn:Evb; [|discriminate].
  destruct (ser_ops (is_tdm (p_type p)) (p_ops p) 0) as [[[sts k] decls]|] eqn:Eops; [|discriminate].
  injection E as <-. unfold wf_script. cbn [sc_target sc_type sc_items].
  split; [exact (ser_meta_wf _ _ _ Stg Etg)|]. split; [exact (ser_meta_wf _ _ _ Sty Ety)|].
  destruct (ser_ops_wf _ _ _ _ _ _ _ (wf_ops p W) Sops M Eops) as [Wsts Wdecls].
  apply Forall_app. split; [exact Wdecls|]. apply Forall_app. split.
  - destruct (is_tdm (p_type p)) eqn:T.
    + destruct (wf_vars p W T) as (_ & Wv & _). specialize (Svars eq_refl).
      revert Evb. apply (omap_Forall (decl_item false) (fun kv => wf_var (snd kv) /\ str_ok (snd kv))).
      * intros kv d [A B]. apply decl_item_wf; assumption.
      * rewrite Forall_forall in *. intros kv H. split; auto.
    + injection Evb as <-. constructor.
  - apply Forall_forall. intros it H. apply in_map_iff in H as (s & <- & Hs). cbn [wf_item].
    rewrite Forall_forall in Wsts. apply Wsts. exact Hs.
Qed.

(* ================================================================================================ *)
(* 4. The two position erasures (UnparseP, LayoutP) are the same function                            *)
(* ================================================================================================ *)
(* The two expression erasures are fixpoints with the same body, hence convertible; so are all the derived functions
   except erase_meta (a match on the pair in UnparseP, projections in LayoutP), which needs a case analysis. *)
Lemma erase_expr_eq e : UnparseP.erase_expr e = LayoutP.erase_expr e.
Proof. reflexivity. Qed.

Lemma erase_stmt_eq s : UnparseP.erase_stmt s = LayoutP.erase_stmt s.
Proof. reflexivity. Qed.

Lemma erase_item_eq it : UnparseP.erase_item it = LayoutP.erase_item it.
Proof. reflexivity. Qed.

Lemma erase_meta_eq m : UnparseP.erase_meta m = LayoutP.erase_meta m.
Proof. destruct m as [[d a]|]; reflexivity. Qed.

Theorem erase_script_eq sc : UnparseP.erase_script sc = LayoutP.erase_script sc.
Proof. unfold UnparseP.erase_script, LayoutP.erase_script. rewrite !erase_meta_eq. reflexivity. Qed.

(* loading the erased script gives the same program *)
Lemma denote_erased_ok incs sc p : denote incs sc = Ok p -> denote incs (UnparseP.erase_script sc) = Ok p.
Proof.
  intros D.
  assert (E : LayoutP.erase_script sc = LayoutP.erase_script (UnparseP.erase_script sc)).
  { rewrite <- !erase_script_eq. symmetry. apply erase_script_idem. }
  pose proof (LayoutP.denote_position_blind incs sc (UnparseP.erase_script sc) E) as B.
  rewrite D in B. cbn [LayoutP.erase_outcome] in B.
  destruct (denote incs (UnparseP.erase_script sc)); cbn [LayoutP.erase_outcome] in B; [congruence|discriminate|discriminate].
Qed.

(* ================================================================================================ *)
(* 5. The serialiser writes no positions: erasure leaves its script unchanged                        *)
(* ================================================================================================ *)
Lemma term_expr_erased : forall t, erase_expr (term_expr t) = term_expr t.
Proof.
  induction t as [m e| | |p|s|a b Ha Hb|a b Ha Hb|a b N Ha Hb|a Ha|a Ha|a b Ha Hb|f a Ha] using term_ind_div;
    try reflexivity.
  - cbn [term_expr]. destruct (Z.ltb m 0); reflexivity.
  - cbn [term_expr erase_expr]. congruence.
  - cbn [term_expr erase_expr]. congruence.
  - rewrite (term_expr_mul a b N). cbn [erase_expr]. congruence.
  - cbn [term_expr erase_expr]. congruence.
  - cbn [term_expr erase_expr]. congruence.
  - cbn [term_expr erase_expr]. congruence.
  - cbn [term_expr erase_expr]. congruence.
Qed.

Lemma int_expr_erased z : erase_expr (int_expr z) = int_expr z.
Proof. unfold int_expr. destruct (Z.ltb z 0); reflexivity. Qed.

Lemma cpx_expr_erased t : erase_expr (cpx_expr t) = cpx_expr t.
Proof. unfold cpx_expr. cbn [erase_expr]. rewrite term_expr_erased. reflexivity. Qed.

Lemma elem_expr_erased v e : elem_expr v = Some e -> erase_expr e = e.
Proof.
  destruct v; cbn [elem_expr]; intros E; try discriminate; injection E as <-;
    [apply int_expr_erased|apply term_expr_erased|apply cpx_expr_erased].
Qed.

Lemma map_fix {A} (f:A -> A) l : Forall (fun x => f x = x) l -> map f l = l.
Proof. induction 1; cbn [map]; congruence. Qed.

Lemma value_val_erased tdm v w : value_val tdm v = Some w -> erase_val w = w.
Proof.
  intros E. destruct v; cbn [value_val] in E; try discriminate; injection E as <-; cbn [erase_val];
    rewrite ?int_expr_erased, ?term_expr_erased, ?cpx_expr_erased; try reflexivity.
  destruct (tdm && is_ptype s)%bool; reflexivity.
Qed.

Lemma kwval_of_erased tdm v w : kwval_of tdm v = Some w -> erase_kwval w = w.
Proof.
  intros E.
  assert (G : forall u, option_map KV (value_val tdm u) = Some w -> erase_kwval w = w).
  { intros u Eu. destruct (value_val tdm u) as [x|] eqn:Ex; [|discriminate]. injection Eu as <-.
    cbn [erase_kwval]. f_equal. eapply value_val_erased; eassumption. }
  destruct v; cbn [kwval_of] in E; try (eapply G; exact E).
  destruct (omap (value_val tdm) l) as [ws|] eqn:El; [|discriminate]. injection E as <-.
  cbn [erase_kwval]. f_equal. apply map_fix.
  eapply (omap_Forall (value_val tdm) (fun _ => True)); [|apply Forall_forall; intros; exact I|exact El].
  intros x y _. apply value_val_erased.
Qed.

Lemma chunks_map {A B} (f:A -> B) r c : forall l, map (map f) (chunks r c l) = chunks r c (map f l).
Proof.
  induction r as [|r IH]; intros l; cbn [chunks map]; [reflexivity|].
  rewrite IH, firstn_map, skipn_map. reflexivity.
Qed.

Lemma decl_item_erased sh kv d : decl_item sh kv = Some d -> erase_item d = d.
Proof.
  destruct kv as [x v]. unfold decl_item. cbn [fst snd]. intros E.
  destruct v; try discriminate; try (injection E as <-; cbn [erase_item erase_dname erase_val];
    rewrite ?int_expr_erased, ?term_expr_erased, ?cpx_expr_erased; reflexivity).
  unfold arr_decl in E. destruct (omap elem_expr elems) as [es|] eqn:Ee; [|discriminate]. injection E as <-.
  cbn [erase_item erase_dname erase_arrbody]. rewrite chunks_map. rewrite (map_fix erase_expr es); [reflexivity|].
  eapply (omap_Forall elem_expr (fun _ => True)); [|apply Forall_forall; intros; exact I|exact Ee].
  intros v e _. apply elem_expr_erased.
Qed.

Lemma hoist_val_erased tdm v k w k' ds :
  hoist_val tdm v k = Some (w, k', ds) -> erase_val w = w /\ map erase_item ds = ds.
Proof.
  intros E. unfold hoist_val in E.
  assert (G : match value_val tdm v with Some w0 => Some (w0, k, @nil item) | None => None end = Some (w, k', ds) ->
              erase_val w = w /\ map erase_item ds = ds).
  { destruct (value_val tdm v) as [w0|] eqn:Ev; [|discriminate]. intros X. injection X as <- <- <-.
    split; [eapply value_val_erased; eassumption|reflexivity]. }
  destruct v; try (apply G; exact E).
  destruct (decl_item true (arr_name k, VArr k0 rows cols elems)) as [d|] eqn:Ed; [|discriminate].
  injection E as <- <- <-. split; [reflexivity|]. cbn [map]. rewrite (decl_item_erased _ _ _ Ed). reflexivity.
Qed.

Lemma hoist_pos_erased tdm : forall l k ws k' ds,
  hoist_pos tdm l k = Some (ws, k', ds) -> map erase_val ws = ws /\ map erase_item ds = ds.
Proof.
  induction l as [|v l IH]; intros k ws k' ds E; cbn [hoist_pos] in E.
  - injection E as <- <- <-. split; reflexivity.
  - destruct (hoist_val tdm v k) as [[[w k1] d1]|] eqn:Ev; [|discriminate].
    destruct (hoist_pos tdm l k1) as [[[ws' k2] d2]|] eqn:El; [|discriminate].
    injection E as <- <- <-.
    destruct (hoist_val_erased _ _ _ _ _ _ Ev) as [A B]. destruct (IH _ _ _ _ El) as [C D].
    split; [cbn [map]; congruence|rewrite map_app; congruence].
Qed.

Lemma hoist_kw_erased tdm v k w k' ds :
  hoist_kw tdm v k = Some (w, k', ds) -> erase_kwval w = w /\ map erase_item ds = ds.
Proof.
  intros E. unfold hoist_kw in E.
  assert (G : match kwval_of tdm v with Some w0 => Some (w0, k, @nil item) | None => None end = Some (w, k', ds) ->
              erase_kwval w = w /\ map erase_item ds = ds).
  { destruct (kwval_of tdm v) as [w0|] eqn:Ev; [|discriminate]. intros X. injection X as <- <- <-.
    split; [eapply kwval_of_erased; eassumption|reflexivity]. }
  destruct v; try (apply G; exact E).
  destruct (hoist_val tdm (VArr k0 rows cols elems) k) as [[[w0 k1] d]|] eqn:Ev; [|discriminate].
  injection E as <- <- <-. destruct (hoist_val_erased _ _ _ _ _ _ Ev) as [A B].
  split; [cbn [erase_kwval]; congruence|exact B].
Qed.

Lemma hoist_kws_erased tdm : forall l k kws k' ds,
  hoist_kws tdm l k = Some (kws, k', ds) -> map erase_kwarg kws = kws /\ map erase_item ds = ds.
Proof.
  induction l as [|[x v] l IH]; intros k kws k' ds E; cbn [hoist_kws] in E.
  - injection E as <- <- <-. split; reflexivity.
  - destruct (hoist_kw tdm v k) as [[[w k1] d1]|] eqn:Ev; [|discriminate].
    destruct (hoist_kws tdm l k1) as [[[ws' k2] d2]|] eqn:El; [|discriminate].
    injection E as <- <- <-.
    destruct (hoist_kw_erased _ _ _ _ _ _ Ev) as [A B]. destruct (IH _ _ _ _ El) as [C D].
    split; [cbn [map]; unfold erase_kwarg at 1; cbn [fst snd]; congruence|rewrite map_app; congruence].
Qed.

Lemma modes_erased ms : map erase_expr (map int_expr ms) = map int_expr ms.
Proof. apply map_fix. apply Forall_forall. intros e H. apply in_map_iff in H as (z & <- & _). apply int_expr_erased. Qed.

Lemma ser_op_erased tdm o k t k' ds :
  ser_op tdm o k = Some (t, k', ds) -> erase_stmt t = t /\ map erase_item ds = ds.
Proof.
  intros E. unfold ser_op in E. destruct (oargs o) as [[ps kws]|].
  - destruct (hoist_pos tdm ps k) as [[[ws k1] d1]|] eqn:Ep; [|discriminate].
    destruct (hoist_kws tdm kws k1) as [[[kw k2] d2]|] eqn:Ek; [|discriminate].
    injection E as <- <- <-.
    destruct (hoist_pos_erased _ _ _ _ _ _ Ep) as [A B]. destruct (hoist_kws_erased _ _ _ _ _ _ Ek) as [C D].
    split; [|rewrite map_app; congruence].
    unfold erase_stmt. cbn [sop sargs smodes erase_oargs option_map]. unfold erase_args. cbn [apos akw].
    rewrite A, C, modes_erased. reflexivity.
  - injection E as <- <- <-. split; [|reflexivity].
    unfold erase_stmt. cbn [sop sargs smodes erase_oargs option_map]. rewrite modes_erased. reflexivity.
Qed.

Lemma ser_ops_erased tdm : forall ops k ts k' ds,
  ser_ops tdm ops k = Some (ts, k', ds) -> map erase_stmt ts = ts /\ map erase_item ds = ds.
Proof.
  induction ops as [|o ops IH]; intros k ts k' ds E; cbn [ser_ops] in E.
  - injection E as <- <- <-. split; reflexivity.
  - destruct (ser_op tdm o k) as [[[t k1] d1]|] eqn:Eo; [|discriminate].
    destruct (ser_ops tdm ops k1) as [[[ts' k2] d2]|] eqn:El; [|discriminate].
    injection E as <- <- <-.
    destruct (ser_op_erased _ _ _ _ _ _ Eo) as [A B]. destruct (IH _ _ _ _ El) as [C D].
    split; [cbn [map]; congruence|rewrite map_app; congruence].
Qed.

Lemma ser_meta_erased nm opts m : ser_meta nm opts = Some m -> erase_meta m = m.
Proof.
  intros E. unfold ser_meta in E. destruct nm as [n|]; [|injection E as <-; reflexivity].
  destruct opts as [|o opts]; [injection E as <-; reflexivity|].
  destruct (ser_opts (o :: opts)) as [kws|] eqn:Ek; [|discriminate]. injection E as <-.
  cbn [erase_meta erase_oargs option_map]. unfold erase_args. cbn [apos akw map].
  rewrite (map_fix erase_kwarg kws); [reflexivity|].
  unfold ser_opts in Ek.
  eapply (omap_Forall _ (fun _ => True)); [|apply Forall_forall; intros; exact I|exact Ek].
  intros kv y _ Ey. cbn beta in Ey. destruct (kwval_of false (snd kv)) as [w|] eqn:Ew; [|discriminate].
  injection Ey as <-. unfold erase_kwarg. cbn [fst snd]. rewrite (kwval_of_erased _ _ _ Ew). reflexivity.
Qed.

Theorem ser_script_erased p sc : ser_script p = Some sc -> erase_script sc = sc.
Proof.
  intros E. unfold ser_script in E.
  destruct (ser_meta (p_target p) (p_target_opts p)) as [tg|] eqn:Etg; [|discriminate].
  destruct (ser_meta (p_type p) (p_type_opts p)) as [ty|] eqn:Ety; [|discriminate].
  destruct (if is_tdm (p_type p) then omap (decl_item false) (p_vars p) else Some []) as [vb|] eqn:Evb; [|discriminate].
  destruct (ser_ops (is_tdm (p_type p)) (p_ops p) 0) as [[[sts k] decls]|] eqn:Eops; [|discriminate].
  injection E as <-. unfold erase_script. cbn [sc_name sc_version sc_target sc_type sc_includes sc_items].
  rewrite (ser_meta_erased _ _ _ Etg), (ser_meta_erased _ _ _ Ety).
  destruct (ser_ops_erased _ _ _ _ _ _ Eops) as [A B].
  f_equal. rewrite !map_app, B. f_equal. f_equal.
  - destruct (is_tdm (p_type p)); [|injection Evb as <-; reflexivity].
    apply map_fix. eapply (omap_Forall _ (fun _ => True)); [|apply Forall_forall; intros; exact I|exact Evb].
    intros kv d _. apply decl_item_erased.
  - rewrite map_map. cbn [erase_item]. rewrite <- (map_map erase_stmt IStmt), A. reflexivity.
Qed.

(* ================================================================================================ *)
(* 6. The token-level round trip                                                                     *)
(* ================================================================================================ *)
Section Roundtrip.
Variable K : Type.
Variables kadd kmul kpow : K -> K -> K.
Variables kneg kinv : K -> K.
Variable kfn : fn -> K -> K.
Variable kdec : Z -> Z -> K.
Variables kpi ki : K.
Variables rho_par rho_reg : str -> K.

(* the laws of arithmetic used by SerializeP (see there) *)
Hypothesis Hnegdec : forall m e, kneg (kdec m e) = kdec (- m) e.
Hypothesis Hone : forall x, kmul (kdec 1 0) x = x.
Hypothesis Hzero_i : kadd (kdec 0 0) ki = ki.
Hypothesis Hzero_c : forall x, kadd x (kadd (kdec 0 0) (kmul (kdec 0 0) ki)) = x.

Local Notation peq := (prog_equiv K kadd kmul kpow kneg kinv kfn kdec kpi ki rho_par rho_reg).

(* serialise, print to tokens, parse, load: the program comes back up to the value of symbolic terms *)
Theorem token_roundtrip p sc :
  wf_prog p -> strings_ok p -> modes_ok p -> ser_script p = Some sc ->
  exists f p', pscript f (up_script sc) = Some (erase_script sc) /\
               denote [] (erase_script sc) = Ok p' /\ peq p' p.
Proof.
  intros W S M E.
  destruct (unparse_parse_exact sc (ser_script_wf p sc W S M E)) as (F & P).
  destruct (ser_roundtrip K kadd kmul kpow kneg kinv kfn kdec kpi ki rho_par rho_reg Hnegdec Hone Hzero_i Hzero_c
              p sc W E) as (p' & D & Q).
  exists F, p'. split; [apply P; apply le_n|]. split; [apply denote_erased_ok; exact D|exact Q].
Qed.

Corollary token_roundtrip_total p :
  wf_prog p -> strings_ok p -> modes_ok p ->
  exists sc f p', ser_script p = Some sc /\
                  pscript f (up_script sc) = Some (erase_script sc) /\
                  denote [] (erase_script sc) = Ok p' /\ peq p' p.
Proof.
  intros W S M. destruct (ser_script_total p W) as (sc & E).
  destruct (token_roundtrip p sc W S M E) as (f & p' & A & B & C).
  exists sc, f, p'. auto.
Qed.

(* the serialiser writes no positions, so the parser returns the serialised script itself; the loaded program is
   the one SerializeP.ser_denote computes *)
Theorem token_roundtrip_exact p sc :
  wf_prog p -> strings_ok p -> modes_ok p -> ser_script p = Some sc ->
  exists f, pscript f (up_script sc) = Some sc /\ denote [] sc = Ok (reload p) /\ peq (reload p) p.
Proof.
  intros W S M E.
  destruct (unparse_parse_exact sc (ser_script_wf p sc W S M E)) as (F & P).
  exists F. rewrite (ser_script_erased p sc E) in P. split; [apply P; apply le_n|].
  split; [apply ser_denote; assumption|].
  apply (reload_equiv K kadd kmul kpow kneg kinv kfn kdec kpi ki rho_par rho_reg Hnegdec Hone Hzero_i Hzero_c p W).
Qed.

End Roundtrip.

(* the parser accepts what the serialiser writes, for every large enough fuel (no arithmetic involved) *)
Theorem ser_tokens_parse p sc :
  wf_prog p -> strings_ok p -> modes_ok p -> ser_script p = Some sc ->
  Ev (fun f => pscript f (up_script sc) = Some sc).
Proof.
  intros W S M E. pose proof (unparse_parse_exact sc (ser_script_wf p sc W S M E)) as H.
  rewrite (ser_script_erased p sc E) in H. exact H.
Qed.

Print Assumptions term_expr_WF.
Print Assumptions ser_script_wf.
Print Assumptions erase_script_eq.
Print Assumptions ser_script_erased.
Print Assumptions token_roundtrip.
Print Assumptions token_roundtrip_total.
Print Assumptions token_roundtrip_exact.
Print Assumptions ser_tokens_parse.
