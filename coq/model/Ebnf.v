(* Generic EBNF recogniser over positions of a fixed word (chart style).
   Terminals are abstract descriptors [T] tested against symbols by [tm]; the same theory is
   instantiated for the lexer (symbols = code points, terminals = character sets) and for the
   parser (symbols = token kinds).  Definitions only; proofs are in proofs/EbnfP.v. *)
From Coq Require Import List Arith Bool.
Import ListNotations.

Section Ebnf.
Variables (sym T : Type).
Variable tm : T -> sym -> bool.

Inductive ebnf := Tok (t:T) | Ref (r:nat) | Eps | Seq (a b:ebnf) | Alt (a b:ebnf) | Star (a:ebnf).

Variable g : nat -> ebnf.
Variable w : list sym.            (* the fixed input word; positions are indices into w *)
Variable K : nat.                 (* closure fuel; any value is sound, exhaustion yields None *)

(* M e i j : e derives the segment w[i..j) *)
Inductive M : ebnf -> nat -> nat -> Prop :=
| MTok t i x : nth_error w i = Some x -> tm t x = true -> M (Tok t) i (S i)
| MRef r i j : M (g r) i j -> M (Ref r) i j
| MEps i : M Eps i i
| MSeq a b i k j : M a i k -> M b k j -> M (Seq a b) i j
| MAltL a b i j : M a i j -> M (Alt a b) i j
| MAltR a b i j : M b i j -> M (Alt a b) i j
| MStar0 a i : M (Star a) i i
| MStarS a i k j : i < k -> M a i k -> M (Star a) k j -> M (Star a) i j.

Definition mem (x:nat) (l:list nat) : bool := existsb (Nat.eqb x) l.

Fixpoint bindl (f : nat -> option (list nat)) (l : list nat) : option (list nat) :=
  match l with
  | [] => Some []
  | x :: l' => match f x, bindl f l' with Some a, Some b => Some (a ++ b) | _, _ => None end
  end.

(* worklist closure: every position is expanded at most once *)
Fixpoint closure (k:nat) (step : nat -> option (list nat)) (todo seen : list nat) : option (list nat) :=
  match k with 0 => None | S k =>
    match todo with
    | [] => Some seen
    | p :: todo' =>
        if mem p seen then closure k step todo' seen
        else match step p with
             | None => None
             | Some l => closure k step (filter (fun q => Nat.ltb p q) l ++ todo') (p :: seen)
             end
    end end.

Fixpoint ends (f:nat) (e:ebnf) (i:nat) {struct f} : option (list nat) :=
  match f with 0 => None | S f =>
    match e with
    | Tok t => match nth_error w i with Some x => if tm t x then Some [S i] else Some [] | None => Some [] end
    | Eps => Some [i]
    | Ref r => ends f (g r) i
    | Seq a b => match ends f a i with None => None | Some l => bindl (ends f b) (nodup Nat.eq_dec l) end
    | Alt a b => match ends f a i, ends f b i with Some l1, Some l2 => Some (l1 ++ l2) | _, _ => None end
    | Star a => closure K (ends f a) [i] []
    end end.

Definition recognise (f:nat) (e:ebnf) : option bool :=
  match ends f e 0 with None => None | Some L => Some (mem (length w) L) end.
End Ebnf.

Arguments Tok {T} t.
Arguments Ref {T} r.
Arguments Eps {T}.
Arguments Seq {T} a b.
Arguments Alt {T} a b.
Arguments Star {T} a.
