(* Pretty-printer from Blackbird syntax trees to token lists (the inverse direction of Parser.pscript).
   The printed tokens carry no positions (line = col = start = stop = 0); token-type numbers are those of
   Syntax.tk_of_nat.  Expressions are printed exactly as spelled: brackets are EBr nodes of the tree, none is added.
   proofs/UnparseP.v shows that Parser.pscript reads the printed tokens back as the same tree (positions erased). *)
From Coq Require Import List NArith Bool.
Import ListNotations.
From BB Require Import Lexer Syntax Parser.

Definition mk (k:nat) (text:str) : token := mktok k text 0 0 0 0.

(* ---- fixed tokens ---- *)
Definition tPLUS     := mk 1 [43]%N.
Definition tMINUS    := mk 2 [45]%N.
Definition tTIMES    := mk 3 [42]%N.
Definition tDIVIDE   := mk 4 [47]%N.
Definition tPWR      := mk 5 [42; 42]%N.
Definition tASSIGN   := mk 6 [61]%N.
Definition tFOR      := mk 7 [102; 111; 114]%N.
Definition tIN       := mk 8 [105; 110]%N.
Definition tNL       := mk 16 [10]%N.
Definition tTAB      := mk 17 [32; 32; 32; 32]%N.
Definition tPROGNAME := mk 19 [110; 97; 109; 101]%N.
Definition tVERSION  := mk 20 [118; 101; 114; 115; 105; 111; 110]%N.
Definition tTARGET   := mk 21 [116; 97; 114; 103; 101; 116]%N.
Definition tPROGTYPE := mk 22 [116; 121; 112; 101]%N.
Definition tINCLUDE  := mk 23 [105; 110; 99; 108; 117; 100; 101]%N.
Definition tCOMMA    := mk 40 [44]%N.
Definition tCOLON    := mk 41 [58]%N.
Definition tLB       := mk 43 [40]%N.
Definition tRB       := mk 44 [41]%N.
Definition tLSQ      := mk 45 [91]%N.
Definition tRSQ      := mk 46 [93]%N.
Definition tLBRACE   := mk 47 [123]%N.
Definition tRBRACE   := mk 48 [125]%N.
Definition tAPPLY    := mk 49 [124]%N.
Definition tARRAY    := mk 50 [97; 114; 114; 97; 121]%N.

Definition tNAME (x:str) : token := mk 58 x.
Definition tINT (s:str) : token := mk 9 s.

Definition nk_num (k:numkind) : nat :=
  match k with NKInt => 9 | NKFloat => 10 | NKComplex => 11 | NKPi => 15 end.

Definition fn_num (f:fn) : nat :=
  match f with
  | FSqrt => 24 | FSin => 25 | FCos => 26 | FTan => 27 | FArcsin => 28 | FArccos => 29 | FArctan => 30
  | FSinh => 31 | FCosh => 32 | FTanh => 33 | FArcsinh => 34 | FArccosh => 35 | FArctanh => 36
  | FExp => 37 | FLog => 38
  end.

Definition fn_text (f:fn) : str :=
  match f with
  | FSqrt => [115; 113; 114; 116] | FSin => [115; 105; 110] | FCos => [99; 111; 115] | FTan => [116; 97; 110]
  | FArcsin => [97; 114; 99; 115; 105; 110] | FArccos => [97; 114; 99; 99; 111; 115]
  | FArctan => [97; 114; 99; 116; 97; 110]
  | FSinh => [115; 105; 110; 104] | FCosh => [99; 111; 115; 104] | FTanh => [116; 97; 110; 104]
  | FArcsinh => [97; 114; 99; 115; 105; 110; 104] | FArccosh => [97; 114; 99; 99; 111; 115; 104]
  | FArctanh => [97; 114; 99; 116; 97; 110; 104]
  | FExp => [101; 120; 112] | FLog => [108; 111; 103]
  end%N.

Definition tFN (f:fn) : token := mk (fn_num f) (fn_text f).

Definition vt_num (t:vtype) : nat :=
  match t with VTArray => 50 | VTFloat => 51 | VTComplex => 52 | VTInt => 53 | VTStr => 54 | VTBool => 55 end.
Definition vt_text (t:vtype) : str :=
  match t with
  | VTArray => [97; 114; 114; 97; 121] | VTFloat => [102; 108; 111; 97; 116]
  | VTComplex => [99; 111; 109; 112; 108; 101; 120] | VTInt => [105; 110; 116]
  | VTStr => [115; 116; 114] | VTBool => [98; 111; 111; 108]
  end%N.
Definition tTYPE (t:vtype) : token := mk (vt_num t) (vt_text t).

(* ---- expressions ---- *)
Fixpoint up_expr (e:expr) : list token :=
  match e with
  | ENum k s => [mk (nk_num k) s]
  | EVar x _ _ => [tNAME x]
  | EReg s => [mk 56 s]
  | EIdx x _ _ e1 => tNAME x :: tLSQ :: up_expr e1 ++ [tRSQ]
  | EPar p => [tLBRACE; tNAME p; tRBRACE]
  | EBr e1 => tLB :: up_expr e1 ++ [tRB]
  | ESign neg e1 => (if neg then tMINUS else tPLUS) :: up_expr e1
  | EPow a b => up_expr a ++ tPWR :: up_expr b
  | EMul d a b => up_expr a ++ (if d then tDIVIDE else tTIMES) :: up_expr b
  | EAdd s a b => up_expr a ++ (if s then tMINUS else tPLUS) :: up_expr b
  | EFun f e1 => tFN f :: tLB :: up_expr e1 ++ [tRB]
  end.

(* X {COMMA X} *)
Fixpoint up_sep {A} (up : A -> list token) (l : list A) : list token :=
  match l with
  | [] => []
  | x :: l' => match l' with [] => up x | _ :: _ => up x ++ tCOMMA :: up_sep up l' end
  end.

(* ---- values, arguments ---- *)
Definition true_text : str := [84; 114; 117; 101]%N.
Definition false_text : str := [70; 97; 108; 115; 101]%N.

Definition up_val (v:val) : list token :=
  match v with
  | VS s => [mk 12 (34%N :: s ++ [34%N])]
  | VB b => [mk 13 (if b then true_text else false_text)]
  | VE e => up_expr e
  end.

Definition up_vallist (l:list val) : list token := up_sep up_val l.

Definition up_kwarg (kw : str * kwval) : list token :=
  tNAME (fst kw) :: tASSIGN ::
  match snd kw with
  | KV v => up_val v
  | KL l => tLSQ :: up_vallist l ++ [tRSQ]
  end.

Definition up_args (a:arguments) : list token :=
  tLB :: up_vallist (apos a)
      ++ (match apos a, akw a with _ :: _, _ :: _ => [tCOMMA] | _, _ => [] end)
      ++ up_sep up_kwarg (akw a) ++ [tRB].

Definition up_oargs (a:option arguments) : list token :=
  match a with Some a => up_args a | None => [] end.

(* ---- statements ---- *)
Fixpoint is_prefix (p s:str) : bool :=
  match p, s with
  | [], _ => true
  | c :: p', d :: s' => (N.eqb c d && is_prefix p' s')%bool
  | _ :: _, [] => false
  end.
Definition starts_measure (s:str) : bool := is_prefix [77; 101; 97; 115; 117; 114; 101]%N s.

Definition tOP (s:str) : token := if starts_measure s then mk 57 s else mk 58 s.

(* the statement without the NEWLINE that ends it; the modes are always printed in square brackets *)
Definition up_stmt_nonl (s:stmt) : list token :=
  tOP (sop s) :: up_oargs (sargs s) ++ tAPPLY :: tLSQ :: up_sep up_expr (smodes s) ++ [tRSQ].

Definition up_stmt (s:stmt) : list token := up_stmt_nonl s ++ [tNL].

(* ---- declarations, loops ---- *)
Fixpoint str_eqb (a b:str) : bool :=
  match a, b with
  | [], [] => true
  | c :: a', d :: b' => (N.eqb c d && str_eqb a' b')%bool
  | _, _ => false
  end.

(* the reserved words that the grammar admits as declared names have their own token types *)
Definition reserved_num (s:str) : option nat :=
  if str_eqb s [110; 97; 109; 101]%N then Some 19
  else if str_eqb s [118; 101; 114; 115; 105; 111; 110]%N then Some 20
  else if str_eqb s [116; 97; 114; 103; 101; 116]%N then Some 21
  else if str_eqb s [116; 121; 112; 101]%N then Some 22
  else None.

Definition up_dname (n:dname) : token :=
  match n with
  | DName x => tNAME x
  | DReg s _ _ => mk 56 s
  | DReserved s _ _ => mk (match reserved_num s with Some k => k | None => 58 end) s
  end.

Definition up_shape (sh:option (list str)) : list token :=
  match sh with
  | Some l => tLSQ :: up_sep (fun s => [tINT s]) l ++ [tRSQ]
  | None => []
  end.

Definition up_row (row:list expr) : list token := tTAB :: up_sep up_expr row ++ [tNL].

Definition up_arrbody (b:arrbody) : list token :=
  match b with
  | ARows rows => flat_map up_row rows
  | AParam p => [tLBRACE; tNAME p; tRBRACE; tNL]
  end.

Definition up_hdr (h:forhdr) : list token :=
  match h with
  | HRange a b c => tINT a :: tCOLON :: tINT b :: (match c with Some c => [tCOLON; tINT c] | None => [] end)
  | HList l => tLSQ :: up_vallist l ++ [tRSQ]
  end.

Definition up_bodyline (s:stmt) : list token := tNL :: tTAB :: up_stmt_nonl s.

Definition up_item (it:item) : list token :=
  match it with
  | IScalar ty n init _ _ => tTYPE ty :: up_dname n :: tASSIGN :: up_val init ++ [tNL]
  | IArray ty n sh body _ _ => tTYPE ty :: tARRAY :: up_dname n :: up_shape sh ++ tASSIGN :: tNL :: up_arrbody body
  | IStmt s => up_stmt s
  | IFor ty x h body => tFOR :: tTYPE ty :: tNAME x :: tIN :: up_hdr h ++ flat_map up_bodyline body ++ [tNL]
  end.

Definition up_items (l:list item) : list token := flat_map up_item l.

(* ---- scripts ---- *)
Definition up_meta (kw:token) (m:option (str * option arguments)) : list token :=
  match m with
  | Some (d, a) => tNL :: kw :: tNAME d :: up_oargs a
  | None => []
  end.

Definition up_include (s:str) : list token := [tINCLUDE; mk 12 s; tNL].

Definition up_script (sc:script) : list token :=
  tPROGNAME :: tNAME (sc_name sc) :: tNL :: tVERSION :: mk 10 (sc_version sc)
    :: up_meta tTARGET (sc_target sc) ++ up_meta tPROGTYPE (sc_type sc)
    ++ tNL :: flat_map up_include (sc_includes sc) ++ up_items (sc_items sc).
