(* Rendering of token lists as text (code points): the inverse direction of Lexer.lex.
   One space is written after every token except the layout tokens NEWLINE (type 16) and TAB (type 17), which are
   written as their text alone (a printed TAB is four spaces and directly follows a NEWLINE; a printed NEWLINE is
   a line feed).  Definitions only; proofs/RenderP.v shows that the maximal-munch lexer reads the text back. *)
From Coq Require Import List NArith Bool Arith.
Import ListNotations.
From BB Require Import Lexer.

(* one space after every token except NEWLINE (type 16) and TAB (type 17) *)
Definition render_tok (t:token) : list N :=
  if (Nat.eqb (tkind t) 16 || Nat.eqb (tkind t) 17)%bool then ttext t else ttext t ++ [32%N].

Definition render (ts:list token) : list N := flat_map render_tok ts.
