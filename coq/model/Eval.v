(* Evaluator and loader: script -> program (the compositional specification [denote]). *)
From Coq Require Import List NArith ZArith Bool Arith.
Import ListNotations.
From BB Require Import Syntax Values.

Record op := mkop { oname : str; oargs : option (list value * list (str * value)); omodes : list Z }.

Record prog := mkprog {
  p_name : str; p_version : str;
  p_target : option str; p_target_opts : list (str * value);
  p_type : option str; p_type_opts : list (str * value);
  p_ops : list op;
  p_modes : list Z;                (* modes used, in order of first use, no duplicates *)
  p_params : list str;             (* free parameters, in order of first registration, no duplicates *)
  p_vars : list (str * value) }.

(* ---------------- expressions ---------------- *)
Section Expr.
Variable env : list (str * value).
Variable pnames : list str.        (* tdm: p-array names registered so far *)

Fixpoint eval (e:expr) : outcome value :=
  match e with
  | ENum k text => num_value k text
  | EVar x line col =>
      match lookup x env with
      | None => Refuse (EUndefined x line col)
      | Some v =>
          if mem_str x pnames
          then match v with VArr _ _ _ _ => Ok (VPName x) | _ => Refuse EPNameNotArray end
          else Ok v
      end
  | EReg text => Ok (VSym (TReg text))
  | EIdx x line col ie =>
      do iv <- eval ie;
      match lookup x env with
      | None => Refuse (EUndefined x line col)
      | Some (VArr _ r c elems) =>
          match iv with
          | VInt k => if Z.ltb k 0 then Unspec
                      else match nth_error elems (Z.to_nat k) with Some v => Ok v | None => Refuse EIndex end
          | _ => Unspec
          end
      | Some _ => Unspec
      end
  | EPar p => Ok (VSym (TPar p))
  | EBr a => eval a
  | ESign false a => eval a
  | ESign true a => do v <- eval a; v_neg v
  | EAdd sub a b => do x <- eval a; do y <- eval b; v_add sub x y
  | EMul false a b => do x <- eval a; do y <- eval b; v_mul x y
  | EMul true a b => do x <- eval a; do y <- eval b; v_div x y
  | EPow a b => do x <- eval a; do y <- eval b; v_pow x y
  | EFun f a => do x <- eval a; v_fn f x
  end.

Definition eval_val (v:val) : outcome value :=
  match v with VE e => eval e | VS s => Ok (VStr s) | VB b => Ok (VBool b) end.
End Expr.

(* parameters syntactically present in an expression (registered when the expression is evaluated) *)
Fixpoint expr_pars (e:expr) : list str :=
  match e with
  | EPar p => [p]
  | EIdx _ _ _ a | EBr a | ESign _ a | EFun _ a => expr_pars a
  | EPow a b | EMul _ a b | EAdd _ a b => expr_pars a ++ expr_pars b
  | _ => []
  end.
Definition val_pars (v:val) : list str := match v with VE e => expr_pars e | _ => [] end.
Definition kwval_pars (k:kwval) : list str :=
  match k with KV v => val_pars v | KL l => flat_map val_pars l end.
Definition args_pars (a:arguments) : list str :=
  flat_map val_pars (apos a) ++ flat_map (fun kv => kwval_pars (snd kv)) (akw a).

Fixpoint add_new (acc:list str) (l:list str) : list str :=
  match l with
  | [] => acc
  | x :: l' => add_new (if mem_str x acc then acc else acc ++ [x]) l'
  end.

Fixpoint add_newZ (acc:list Z) (l:list Z) : list Z :=
  match l with
  | [] => acc
  | x :: l' => add_newZ (if existsb (Z.eqb x) acc then acc else acc ++ [x]) l'
  end.

(* ---------------- arguments ---------------- *)
Definition wrap_transform (v:value) : value :=
  match v with VSym t => if has_reg t then VTrf t else v | _ => v end.

Definition eval_args (env:list (str*value)) (pn:list str) (a:arguments)
  : outcome (list value * list (str * value)) :=
  do ps <- mapM (eval_val env pn) (apos a);
  do kws <- (fix go (l:list (str * kwval)) (acc:list (str * value)) : outcome (list (str * value)) :=
               match l with
               | [] => Ok acc
               | (k, KV v) :: l' => do x <- eval_val env pn v; go l' (dict_set k x acc)
               | (k, KL []) :: l' => go l' acc          (* an empty list drops the keyword (pinned by the test-suite) *)
               | (k, KL vs) :: l' => do xs <- mapM (eval_val env pn) vs; go l' (dict_set k (VList xs) acc)
               end) (akw a) [];
  Ok (ps, kws).

Definition eval_opt_args (env:list (str*value)) (pn:list str) (a:option arguments)
  : outcome (option (list value * list (str * value))) :=
  match a with
  | None => Ok None
  | Some a' => do r <- eval_args env pn a'; Ok (Some r)
  end.

(* ---------------- casts ---------------- *)
Definition b2z (b:bool) : Z := if b then 1%Z else 0%Z.

(* is the decimal literal m*10^e an integer, and which *)
Definition dec_int (m e:Z) : option Z :=
  if Z.leb 0 e then (if Z.leb e 30 then Some (m * Z.pow 10 e)%Z else None)
  else let d := Z.pow 10 (- e) in
       if Z.leb (- e) 400 then (if Z.eqb (Z.modulo m d) 0 then Some (Z.div m d) else None) else None.
Definition dec_nonint (m e:Z) : bool :=
  if Z.leb 0 e then false
  else if Z.leb (- e) 400 then negb (Z.eqb (Z.modulo m (Z.pow 10 (- e))) 0) else false.

(* scalar declaration: value of the initialiser stored with the declared type *)
Definition cast_scalar (ty:vtype) (v:value) : outcome value :=
  match v with
  | VSym _ => Ok v
  | _ =>
    match ty, v with
    | VTArray, _ => Refuse ECast      (* no scalar value is of the bare type "array" *)
    | VTInt, VInt _ => Ok v
    | VTInt, VCpx _ => Refuse ECast
    | VTFloat, VInt z => Ok (VFlt (int_term z))
    | VTFloat, VFlt _ => Ok v
    | VTFloat, VCpx _ => Refuse ECast
    | VTComplex, VInt z => Ok (VCpx (int_term z))
    | VTComplex, VFlt t => Ok (VCpx t)
    | VTComplex, VCpx _ => Ok v
    | VTBool, VBool _ => Ok v
    | VTStr, VStr _ => Ok v
    | _, _ => Unspec
    end
  end.

(* loop value converted to the loop type; refused when the conversion fails or changes the value *)
Definition cast_loop (ty:vtype) (v:value) : outcome value :=
  match ty, v with
  | VTInt, VInt _ => Ok v
  | VTInt, VBool b => Ok (VInt (b2z b))
  | VTInt, VFlt (TDec m e) =>
      match dec_int m e with
      | Some z => mkint z
      | None => if dec_nonint m e then Refuse ELoopValue else Unspec
      end
  | VTInt, VCpx _ => Refuse ELoopValue
  | VTInt, VStr _ => Refuse ELoopValue
  | VTFloat, VInt z => Ok (VFlt (int_term z))
  | VTFloat, VFlt _ => Ok v
  | VTFloat, VBool b => Ok (VFlt (int_term (b2z b)))
  | VTFloat, VCpx _ => Refuse ELoopValue
  | VTFloat, VStr _ => Refuse ELoopValue
  | VTComplex, VInt z => Ok (VCpx (int_term z))
  | VTComplex, VFlt t => Ok (VCpx t)
  | VTComplex, VCpx _ => Ok v
  | VTComplex, VBool b => Ok (VCpx (int_term (b2z b)))
  | VTComplex, VStr _ => Refuse ELoopValue
  | VTBool, VBool _ => Ok v
  | VTBool, VInt 0 => Ok (VBool false)
  | VTBool, VInt 1 => Ok (VBool true)
  | VTBool, VInt _ => Refuse ELoopValue
  | VTBool, VStr _ => Refuse ELoopValue
  | VTStr, VStr _ => Ok v
  | VTStr, VInt _ | VTStr, VFlt _ | VTStr, VCpx _ | VTStr, VBool _ => Refuse ELoopValue
  | _, _ => Unspec
  end.

(* array element stored with the declared element type *)
Definition cast_elem (ty:vtype) (v:value) : outcome value :=
  match ty, v with
  | VTInt, VInt _ => Ok v
  | VTInt, VCpx _ => Refuse EArrayType
  | VTInt, VSym _ => Refuse EArrayType
  | VTFloat, VInt z => Ok (VFlt (int_term z))
  | VTFloat, VFlt _ => Ok v
  | VTFloat, VCpx _ => Refuse EArrayType
  | VTFloat, VSym _ => Refuse EArrayType
  | VTComplex, VInt z => Ok (VCpx (int_term z))
  | VTComplex, VFlt t => Ok (VCpx t)
  | VTComplex, VCpx _ => Ok v
  | VTComplex, VSym _ => Refuse EArrayType
  | _, _ => Unspec
  end.

(* ---------------- ranges ---------------- *)
Fixpoint range_list (n:nat) (a c:Z) : list Z :=
  match n with 0 => [] | S n' => a :: range_list n' (a + c)%Z c end.

(* a, a+c, ... strictly below b (c > 0) / above b (c < 0) *)
Definition range_values (a b c:Z) : outcome (list Z) :=
  if Z.eqb c 0 then Refuse ERange
  else
    let cnt := if Z.ltb 0 c then (if Z.ltb a b then (b - a + c - 1) / c else 0)%Z
               else (if Z.ltb b a then (a - b - c - 1) / (- c) else 0)%Z in
    if Z.leb cnt 100000 then Ok (range_list (Z.to_nat cnt) a c) else Unspec.

(* ---------------- p-type names (tdm) ---------------- *)
Definition all_digits (s:str) : bool :=
  match s with [] => false | _ => forallb (fun c => (N.leb 48 c && N.leb c 57)%bool) s end.
Definition is_ptype (s:str) : bool :=
  match s with 112%N :: r => all_digits r | _ => false end.
Definition is_tdm (ty:option str) : bool :=
  match ty with Some [116; 100; 109]%N => true | _ => false end.

(* ---------------- included programs ---------------- *)
Fixpoint sortZ_insert (x:Z) (l:list Z) : list Z :=
  match l with [] => [x] | y :: l' => if Z.leb x y then x :: l else y :: sortZ_insert x l' end.
Definition sortZ (l:list Z) : list Z := fold_right sortZ_insert [] l.

Fixpoint lookupZ (k:Z) (l:list (Z * Z)) : option Z :=
  match l with [] => None | (k', v) :: l' => if Z.eqb k k' then Some v else lookupZ k l' end.

(* substitute parameters by values in a term *)
Fixpoint subst_term (sg:list (str * term)) (t:term) : term :=
  match t with
  | TPar p => match lookup p sg with Some u => u | None => t end
  | TAdd a b => TAdd (subst_term sg a) (subst_term sg b)
  | TMul a b => TMul (subst_term sg a) (subst_term sg b)
  | TPow a b => TPow (subst_term sg a) (subst_term sg b)
  | TNeg a => TNeg (subst_term sg a)
  | TInv a => TInv (subst_term sg a)
  | TFn f a => TFn f (subst_term sg a)
  | _ => t
  end.

Definition all_in (l:list str) (keys:list str) : bool := forallb (fun p => mem_str p keys) l.

(* the result of binding parameters: a number when no parameter is left (all values numeric), still symbolic when the
   values passed were themselves parameters of an enclosing template (nested includes) *)
Definition close_kind (t:term) : value := match term_pars t with [] => VFlt t | _ => VSym t end.

(* value of a symbolic argument once every parameter has a value; the numeric kind of the result is that of
   the implementation's lambdified function and is not modelled: VFlt stands for "a number" *)
(* instantiation descends into keyword lists and arrays (the inner fix is mapM (inst_value sg), written out for
   the guard checker; see LoadP.inst_value_list) *)
Fixpoint inst_value (sg:list (str * term)) (v:value) : outcome value :=
  let inst_list := fix go (l:list value) : outcome (list value) :=
                     match l with
                     | [] => Ok []
                     | x :: l' => do y <- inst_value sg x; do ys <- go l'; Ok (y :: ys)
                     end in
  match v with
  | VSym t => if all_in (term_pars t) (map fst sg) then Ok (close_kind (subst_term sg t)) else Refuse EMissingParam
  | VList l => do l' <- inst_list l; Ok (VList l')
  | VArr k r c elems => do es <- inst_list elems; Ok (VArr k r c es)
  | _ => Ok v
  end.

Definition inst_elem (sg:list (str * term)) (v:value) : outcome value := inst_value sg v.

Definition inst_op (sg:list (str * term)) (o:op) : outcome op :=
  match oargs o with
  | None => Ok o
  | Some (ps, kws) =>
      do ps' <- mapM (inst_value sg) ps;
      do kws' <- mapM (fun kv => do x <- inst_value sg (snd kv); Ok (fst kv, x)) kws;
      Ok (mkop (oname o) (Some (ps', kws')) (omodes o))
  end.

(* BlackbirdProgram.__call__ : instantiate a template *)
Definition instantiate (sg:list (str * term)) (p:prog) : outcome prog :=
  match p_params p with
  | [] => Refuse ENotTemplate
  | _ =>
      do ops <- mapM (inst_op sg) (p_ops p);
      do vars <- mapM (fun kv => do x <- inst_elem sg (snd kv); Ok (fst kv, x)) (p_vars p);
      Ok (mkprog (p_name p) (p_version p) (p_target p) (p_target_opts p) (p_type p) (p_type_opts p)
                 ops (p_modes p) [] vars)
  end.

Definition value_term (v:value) : option term :=
  match v with VInt z => Some (int_term z) | VFlt t => Some t | VCpx t => Some t | VSym t => Some t | _ => None end.

Definition same_set (a b:list str) : bool := (all_in a b && all_in b a)%bool.

(* applying an included program: its operations, instantiated with the call's keyword arguments, on the call's
   modes (the included program's modes in increasing order are renamed to the listed modes) *)
Definition expand_include (inc:prog) (o:op) : outcome (list op) :=
  let ms := sortZ (p_modes inc) in
  if negb (Nat.eqb (length ms) (length (omodes o))) then Refuse EIncludeArity
  else
    do body <-
      match oargs o with
      | Some (_, kws) =>
          match p_params inc with
          | [] => Refuse EIncludeKw
          | _ =>
              if same_set (p_params inc) (map fst kws) then
                do sg <- mapM (fun kv => match value_term (snd kv) with
                                        | Some t => Ok (fst kv, t)
                                        | None => Unspec end) kws;
                do q <- instantiate sg inc; Ok (p_ops q)
              else Refuse EIncludeKw
          end
      | None => match p_params inc with [] => Ok (p_ops inc) | _ => Refuse EIncludeMissing end
      end;
    let mm := combine ms (omodes o) in
    mapM (fun b => do ms' <- mapM (fun m => match lookupZ m mm with Some m' => Ok m' | None => Unspec end) (omodes b);
                   Ok (mkop (oname b) (oargs b) ms')) body.

(* ---------------- loader state ---------------- *)
Record st := mkst {
  s_env : list (str * value);
  s_pars : list str;
  s_pnames : list str;
  s_ops : list op;
  s_modes : list Z }.

Section Load.
Variable incs : list (str * prog).       (* included programs by program name *)
Variable tdm : bool.

Definition mode_of (v:value) : outcome Z :=
  match v with
  | VInt z => Ok z
  | VBool _ => Unspec
  | _ => Refuse EMode
  end.

Definition exec_stmt (s:st) (t:stmt) : outcome st :=
  do mvs <- mapM (eval (s_env s) (s_pnames s)) (smodes t);
  do ms <- mapM mode_of mvs;
  do a <- eval_opt_args (s_env s) (s_pnames s) (sargs t);
  let a' := match a with
            | Some (ps, kws) => Some (map wrap_transform ps, map (fun kv => (fst kv, wrap_transform (snd kv))) kws)
            | None => None
            end in
  let pars' := add_new (s_pars s)
                 (flat_map expr_pars (smodes t) ++ match sargs t with Some x => args_pars x | None => [] end) in
  let o := mkop (sop t) a' ms in
  let modes' := add_newZ (s_modes s) ms in
  match lookup (sop t) incs with
  | Some inc =>
      do body <- expand_include inc o;
      Ok (mkst (s_env s) pars' (s_pnames s) (s_ops s ++ body) modes')
  | None => Ok (mkst (s_env s) pars' (s_pnames s) (s_ops s ++ [o]) modes')
  end.

Fixpoint exec_stmts (s:st) (l:list stmt) : outcome st :=
  match l with
  | [] => Ok s
  | t :: l' => do s' <- exec_stmt s t; exec_stmts s' l'
  end.

Definition check_name (n:dname) : outcome str :=
  match n with
  | DName x => Ok x
  | DReg x l c => Refuse (EReservedReg x l c)
  | DReserved x l c => Refuse (EReservedKw x l c)
  end.

Definition all_same_len {A} (rows:list (list A)) : bool :=
  match rows with [] => true | r :: rs => forallb (fun r' => Nat.eqb (length r') (length r)) rs end.

Definition shape_vals (sh:list str) : option (list Z) :=
  fold_right (fun s acc => match parse_digits s, acc with Some z, Some l => Some (z :: l) | _, _ => None end) (Some []) sh.

Definition nat_strs (n:nat) : str :=      (* decimal digits of a nat, for generated parameter names *)
  let z := Z.of_nat n in
  (fix go (fuel:nat) (z:Z) (acc:str) : str :=
     match fuel with 0 => acc | S f =>
       let d := Z.to_N (Z.modulo z 10) in
       let acc' := (N.add 48 d) :: acc in
       if Z.ltb z 10 then acc' else go f (Z.div z 10) acc' end) 20 z [].

Definition sub_name (p:str) (i j:nat) : str := p ++ [95%N] ++ nat_strs i ++ [95%N] ++ nat_strs j.

Fixpoint remove_first (x:str) (l:list str) : list str :=
  match l with [] => [] | y :: l' => if str_eqb x y then l' else y :: remove_first x l' end.

Definition exec_item (s:st) (it:item) : outcome st :=
  match it with
  | IStmt t => exec_stmt s t
  | IScalar ty n init _ _ =>
      do x <- check_name n;
      do v <- eval_val (s_env s) (s_pnames s) init;
      do v' <- cast_scalar ty v;
      Ok (mkst (dict_set x v' (s_env s)) (add_new (s_pars s) (val_pars init)) (s_pnames s) (s_ops s) (s_modes s))
  | IArray ty n shape body _ _ =>
      do x <- check_name n;
      match body with
      | AParam _ => Unspec
      | ARows rows =>
          match rows with
          | [] => Refuse EArrayEmpty
          | [[EPar p]] =>
              (* the array is one template parameter: expand to p_i_j over the declared shape.
                 A name already used as a scalar parameter is outside every property (scalar and array at once). *)
              if mem_str p (s_pars s) then Unspec else
              match shape with
              | None => Refuse EArrayNoShape
              | Some sh =>
                  match shape_vals sh with
                  | Some [r; c] =>
                      if (Z.leb r 64 && Z.leb c 64)%bool then
                        let rn := Z.to_nat r in let cn := Z.to_nat c in
                        let names := flat_map (fun i => map (fun j => sub_name p i j) (seq 0 cn)) (seq 0 rn) in
                        let v := VArr ty rn cn (map (fun nm => VSym (TPar nm)) names) in
                        let pars' := add_new (remove_first p (s_pars s)) names in
                        let pn' := if (tdm && is_ptype x)%bool then s_pnames s ++ [x] else s_pnames s in
                        Ok (mkst (dict_set x v (s_env s)) pars' pn' (s_ops s) (s_modes s))
                      else Unspec
                  | _ => Unspec
                  end
              end
          | _ =>
              do elems <- mapM (fun e => match e with
                                         | EPar p => Ok (VSym (TPar p))
                                         | _ => do v <- eval (s_env s) (s_pnames s) e; cast_elem ty v
                                         end) (concat rows);
              if negb (all_same_len rows) then Refuse EArrayRagged
              else
                let rn := length rows in
                let cn := match rows with r :: _ => length r | [] => 0 end in
                let shape_ok := match shape with
                                | None => Some true
                                | Some sh => match shape_vals sh with
                                             | Some l => Some (match l with
                                                               | [r; c] => (Z.eqb r (Z.of_nat rn) && Z.eqb c (Z.of_nat cn))%bool
                                                               | _ => false end)
                                             | None => None
                                             end
                                end in
                match shape_ok with
                | Some true =>
                    let v := VArr ty rn cn elems in
                    let pars' := add_new (s_pars s) (flat_map expr_pars (concat rows)) in
                    let pn' := if (tdm && is_ptype x)%bool then s_pnames s ++ [x] else s_pnames s in
                    Ok (mkst (dict_set x v (s_env s)) pars' pn' (s_ops s) (s_modes s))
                | Some false => Refuse EArrayShape
                | None => Unspec
                end
          end
      end
  | IFor ty x h body =>
      do vals <- match h with
                 | HRange a b c =>
                     match parse_digits a, parse_digits b, match c with Some c' => parse_digits c' | None => Some 1%Z end with
                     | Some a', Some b', Some c' => do zs <- range_values a' b' c'; Ok (map VInt zs)
                     | _, _, _ => Unspec
                     end
                 | HList l => mapM (eval_val (s_env s) (s_pnames s)) l
                 end;
      let pars0 := add_new (s_pars s) (match h with HList l => flat_map val_pars l | _ => [] end) in
      match lookup x (s_env s) with
      | Some _ => Unspec                    (* the loop variable shadows a declared name: excluded *)
      | None =>
          do s' <- (fix iter (vs:list value) (s0:st) : outcome st :=
                      match vs with
                      | [] => Ok s0
                      | v :: vs' =>
                          do v' <- cast_loop ty v;
                          do s1 <- exec_stmts (mkst (dict_set x v' (s_env s0)) (s_pars s0) (s_pnames s0) (s_ops s0) (s_modes s0)) body;
                          iter vs' s1
                      end) vals (mkst (s_env s) pars0 (s_pnames s) (s_ops s) (s_modes s));
          Ok (mkst (dict_del x (s_env s')) (s_pars s') (s_pnames s') (s_ops s') (s_modes s'))
      end
  end.

Fixpoint exec_items (s:st) (l:list item) : outcome st :=
  match l with
  | [] => Ok s
  | it :: l' => do s' <- exec_item s it; exec_items s' l'
  end.
End Load.

Definition meta_opts (a:option (str * option arguments)) : outcome (option str * list (str * value)) :=
  match a with
  | None => Ok (None, [])
  | Some (nm, None) => Ok (Some nm, [])
  | Some (nm, Some args) => do r <- eval_args [] [] args; Ok (Some nm, snd r)
  end.

(* the program denoted by a script, given the programs it includes (by program name) *)
Definition denote (incs:list (str * prog)) (sc:script) : outcome prog :=
  do tg <- meta_opts (sc_target sc);
  do ty <- meta_opts (sc_type sc);
  let tdm := is_tdm (fst ty) in
  do s <- exec_items incs tdm (mkst [] [] [] [] []) (sc_items sc);
  Ok (mkprog (sc_name sc) (sc_version sc) (fst tg) (snd tg) (fst ty) (snd ty)
             (s_ops s) (s_modes s) (s_pars s) (s_env s)).
