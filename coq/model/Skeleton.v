(* A canonical textual skeleton of a script: metadata, declarations (type, name, declared shape, rows x columns),
   statements (gate, classes of the positional values, keyword names with the class of each value, modes as written).
   Number texts are NOT part of the skeleton (the implementation prints floats with repr, the model serialiser with
   exact decimals); strings, booleans, variable references, names and integer modes are.  Used to tie Serialize.v to
   the text the implementation writes: skeleton (ser_script p) = skeleton (parse (dumps p)). *)
From Coq Require Import List NArith ZArith Bool.
Import ListNotations.
From BB Require Import Syntax Values Serialize.

Definition sp : str := [32%N].
Definition bar : str := [124%N].
Definition comma : str := [44%N].
Fixpoint join (sep:str) (l:list str) : str :=
  match l with [] => [] | [x] => x | x :: l' => x ++ sep ++ join sep l' end.

Fixpoint expr_class (e:expr) : str :=
  match e with
  | EVar x _ _ => [114; 58]%N ++ x                    (* r:<name>  a reference (hoisted array, p-array name) *)
  | EBr a => expr_class a
  | _ => [110%N]                                       (* n  a number or an expression *)
  end.

Fixpoint mode_text (e:expr) : str :=
  match e with
  | ENum NKInt t => t
  | ESign true a => 45%N :: mode_text a
  | EBr a => mode_text a
  | _ => [63%N]
  end.

Definition val_class (v:val) : str :=
  match v with
  | VS s => [115; 58]%N ++ s
  | VB true => [98; 58; 84]%N
  | VB false => [98; 58; 70]%N
  | VE e => expr_class e
  end.

Definition kw_class (kv:str * kwval) : str :=
  fst kv ++ [61%N] ++
  match snd kv with
  | KV v => val_class v
  | KL l => [91%N] ++ join comma (map val_class l) ++ [93%N]
  end.

Definition args_class (a:option arguments) : str :=
  match a with
  | None => [45%N]
  | Some x => [40%N] ++ join comma (map val_class (apos x)) ++ [59%N] ++ join comma (map kw_class (akw x)) ++ [41%N]
  end.

Definition vtype_text (t:vtype) : str :=
  match t with
  | VTArray => [97%N] | VTFloat => [102%N] | VTComplex => [99%N] | VTInt => [105%N] | VTStr => [115%N] | VTBool => [98%N]
  end.

Definition dname_text (d:dname) : str := match d with DName x => x | DReg x _ _ => x | DReserved x _ _ => x end.

Definition item_skel (it:item) : str :=
  match it with
  | IStmt t => [83%N] ++ sp ++ sop t ++ sp ++ args_class (sargs t) ++ sp ++ bar ++ join comma (map mode_text (smodes t))
  | IScalar ty n _ _ _ => [86%N] ++ sp ++ vtype_text ty ++ sp ++ dname_text n
  | IArray ty n sh body _ _ =>
      [65%N] ++ sp ++ vtype_text ty ++ sp ++ dname_text n ++ sp ++
      (match sh with Some l => [91%N] ++ join comma l ++ [93%N] | None => [45%N] end) ++ sp ++
      (match body with
       | ARows rows => nat_digits (length rows) ++ [120%N] ++ join comma (map (fun r => nat_digits (length r)) rows)
       | AParam p => [123%N] ++ p
       end)
  | IFor _ x _ _ => [70%N] ++ sp ++ x
  end.

Definition meta_skel (m:option (str * option arguments)) : str :=
  match m with
  | None => [45%N]
  | Some (n, a) => n ++ sp ++ args_class a
  end.

Definition script_skel (sc:script) : list str :=
  [sc_name sc; sc_version sc; meta_skel (sc_target sc); meta_skel (sc_type sc)] ++ map item_skel (sc_items sc).
