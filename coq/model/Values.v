(* Values of the evaluator.  Integers, booleans, strings and structure are exact; real and complex
   arithmetic is symbolic (closed terms), evaluated outside Coq when compared with the implementation. *)
From Coq Require Import List NArith ZArith Bool.
Import ListNotations.
From BB Require Import Syntax.

Inductive term :=
| TDec (m e:Z)                     (* m * 10^e *)
| TPi | TI
| TPar (s:str)                     (* template parameter {s} *)
| TReg (s:str)                     (* measured register, token text qN *)
| TAdd (a b:term) | TMul (a b:term) | TNeg (a:term) | TInv (a:term) | TPow (a b:term)
| TFn (f:fn) (a:term).

Inductive value :=
| VInt (z:Z)
| VFlt (t:term)                    (* real *)
| VCpx (t:term)                    (* complex *)
| VSym (t:term)                    (* symbolic: contains TPar / TReg leaves *)
| VTrf (t:term)                    (* register transform (a symbolic argument mentioning a register) *)
| VBool (b:bool)
| VStr (s:str)
| VArr (k:vtype) (rows cols:nat) (elems:list value)     (* row-major *)
| VPName (s:str)                   (* tdm: p-array passed by name *)
| VList (l:list value).

Inductive errclass :=
| EUndefined (name:str) (line col:nat)
| EReservedReg (name:str) (line col:nat)
| EReservedKw (name:str) (line col:nat)
| EMode | ECast | ELoopValue | ERange | EIndex
| EArrayType | EArrayShape | EArrayRagged | EArrayNoShape | EArrayEmpty
| EPNameNotArray
| EIncludeArity | EIncludeKw | EIncludeMissing
| EMissingParam | ENotTemplate
| ESyntax | EFileNotFound
| EOther.

Inductive outcome (A:Type) :=
| Ok (a:A)
| Refuse (c:errclass)              (* the program must be refused (an exception) *)
| Unspec.                          (* outside every property's quantifier; nothing is claimed *)
Arguments Ok {A} a.
Arguments Refuse {A} c.
Arguments Unspec {A}.

Definition bind {A B} (o:outcome A) (f:A -> outcome B) : outcome B :=
  match o with Ok a => f a | Refuse c => Refuse c | Unspec => Unspec end.
Notation "'do' x <- o ; k" := (bind o (fun x => k)) (at level 200, x pattern, o at level 100, k at level 200).

Fixpoint mapM {A B} (f:A -> outcome B) (l:list A) : outcome (list B) :=
  match l with
  | [] => Ok []
  | x :: l' => do y <- f x; do ys <- mapM f l'; Ok (y :: ys)
  end.

(* ---- int64 guard ---- *)
Definition int64_ok (z:Z) : bool := (Z.leb (-9223372036854775808) z && Z.leb z 9223372036854775807)%bool.
Definition mkint (z:Z) : outcome value := if int64_ok z then Ok (VInt z) else Unspec.

(* ---- text -> numbers ---- *)
Definition digit_val (c:N) : option Z :=
  if (N.leb 48 c && N.leb c 57)%bool then Some (Z.of_N c - 48)%Z else None.

Fixpoint digits_acc (acc:Z) (s:str) : option Z :=
  match s with
  | [] => Some acc
  | c :: s' => match digit_val c with Some d => digits_acc (acc * 10 + d)%Z s' | None => None end
  end.
Definition parse_digits (s:str) : option Z := match s with [] => None | _ => digits_acc 0 s end.

(* split a leading run of digits *)
Fixpoint span_digits (s:str) : str * str :=
  match s with
  | c :: s' => match digit_val c with
               | Some _ => let (a, b) := span_digits s' in (c :: a, b)
               | None => ([], s)
               end
  | [] => ([], [])
  end.

(* REAL : DIGIT ('.' DIGIT)? ([eE] [+-]? DIGIT)?   ->  (mantissa, exponent, rest) *)
Definition parse_real_prefix (s:str) : option (Z * Z * str) :=
  let (ip, r0) := span_digits s in
  match parse_digits ip with
  | None => None
  | Some iv =>
      let '(m, fe, r1) :=
        match r0 with
        | 46%N :: r =>
            let (fp, r') := span_digits r in
            match digits_acc iv fp, fp with
            | Some mv, _ :: _ => (mv, (- Z.of_nat (length fp))%Z, r')
            | _, _ => (iv, 0%Z, r0)
            end
        | _ => (iv, 0%Z, r0)
        end in
      match r1 with
      | c :: r =>
          if (N.eqb c 101 || N.eqb c 69)%bool then
            let '(neg, r2) := match r with
                              | 43%N :: r' => (false, r')
                              | 45%N :: r' => (true, r')
                              | _ => (false, r)
                              end in
            let (ep, r3) := span_digits r2 in
            match parse_digits ep with
            | Some ev => Some (m, (fe + (if neg then - ev else ev))%Z, r3)
            | None => Some (m, fe, r1)
            end
          else Some (m, fe, r1)
      | [] => Some (m, fe, r1)
      end
  end.

Definition parse_float (s:str) : option term :=
  match parse_real_prefix s with Some (m, e, []) => Some (TDec m e) | _ => None end.

Definition is_j (c:N) : bool := (N.eqb c 106 || N.eqb c 74)%bool.

(* COMPLEX : [+-]? (NUMBER [+-])? NUMBER [jJ]   -> (re, im) as signed decimals, like Python's complex() *)
Definition parse_complex (s:str) : option term :=
  let '(neg1, s1) := match s with 43%N :: r => (false, r) | 45%N :: r => (true, r) | _ => (false, s) end in
  match parse_real_prefix s1 with
  | Some (m1, e1, r1) =>
      let m1' := if neg1 then (- m1)%Z else m1 in
      match r1 with
      | [c] => if is_j c then Some (TAdd (TDec 0 0) (TMul (TDec m1' e1) TI)) else None
      | sg :: r2 =>
          let sign2 := if N.eqb sg 43 then Some false else if N.eqb sg 45 then Some true else None in
          match sign2, parse_real_prefix r2 with
          | Some neg2, Some (m2, e2, [c]) =>
              if is_j c then Some (TAdd (TDec m1' e1) (TMul (TDec (if neg2 then (- m2)%Z else m2) e2) TI)) else None
          | _, _ => None
          end
      | [] => None
      end
  | None => None
  end.

Definition num_value (k:numkind) (text:str) : outcome value :=
  match k with
  | NKInt => match parse_digits text with Some z => mkint z | None => Unspec end
  | NKFloat => match parse_float text with Some t => Ok (VFlt t) | None => Unspec end
  | NKComplex => match parse_complex text with Some t => Ok (VCpx t) | None => Unspec end
  | NKPi => Ok (VFlt TPi)
  end.

(* ---- arithmetic on values (numpy promotion: int < float < complex; symbols absorb) ---- *)
Definition int_term (z:Z) : term := TDec z 0.

Inductive nkind := KI | KF | KC | KS.
Definition num_view (v:value) : option (nkind * term) :=
  match v with
  | VInt z => Some (KI, int_term z)
  | VFlt t => Some (KF, t)
  | VCpx t => Some (KC, t)
  | VSym t => Some (KS, t)
  | _ => None
  end.
Definition kmax (a b:nkind) : nkind :=
  match a, b with
  | KS, _ | _, KS => KS
  | KC, _ | _, KC => KC
  | KF, _ | _, KF => KF
  | KI, KI => KI
  end.
Definition mk (k:nkind) (t:term) : value :=
  match k with KI => VFlt t | KF => VFlt t | KC => VCpx t | KS => VSym t end.

Definition v_neg (v:value) : outcome value :=
  match v with
  | VInt z => mkint (- z)
  | _ => match num_view v with Some (k, t) => Ok (mk k (TNeg t)) | None => Unspec end
  end.

Definition v_add (sub:bool) (a b:value) : outcome value :=
  match a, b with
  | VInt x, VInt y => mkint (if sub then x - y else x + y)
  | _, _ =>
      match num_view a, num_view b with
      | Some (ka, ta), Some (kb, tb) => Ok (mk (kmax ka kb) (TAdd ta (if sub then TNeg tb else tb)))
      | _, _ => Unspec
      end
  end.

Definition v_mul (a b:value) : outcome value :=
  match a, b with
  | VInt x, VInt y => mkint (x * y)
  | _, _ =>
      match num_view a, num_view b with
      | Some (ka, ta), Some (kb, tb) => Ok (mk (kmax ka kb) (TMul ta tb))
      | _, _ => Unspec
      end
  end.

(* true division: a * b^-1, always at least real; division by the integer 0 is outside the domain *)
Definition v_div (a b:value) : outcome value :=
  match b with
  | VInt 0 => Unspec
  | _ =>
      match num_view a, num_view b with
      | Some (ka, ta), Some (kb, tb) => Ok (mk (kmax KF (kmax ka kb)) (TMul ta (TInv tb)))
      | _, _ => Unspec
      end
  end.

Definition v_pow (a b:value) : outcome value :=
  match a, b with
  | VInt x, VInt y =>
      if Z.leb 0 y then (if Z.leb y 4096 then mkint (Z.pow x y) else Unspec)
      else if Z.eqb x 0 then Unspec
      else Ok (VFlt (TPow (int_term x) (int_term y)))
  | _, _ =>
      match num_view a, num_view b with
      | Some (ka, ta), Some (kb, tb) => Ok (mk (kmax KF (kmax ka kb)) (TPow ta tb))
      | _, _ => Unspec
      end
  end.

(* elementary functions: int -> real; real -> real (inside the real domain); complex -> complex.
   Functions of symbolic values are not supported by the implementation (known finding D16): Unspec. *)
Definition v_fn (f:fn) (a:value) : outcome value :=
  match num_view a with
  | Some (KS, _) => Unspec
  | Some (k, t) => Ok (mk (kmax KF k) (TFn f t))
  | None => Unspec
  end.

(* ---- symbols ---- *)
Fixpoint has_reg (t:term) : bool :=
  match t with
  | TReg _ => true
  | TAdd a b | TMul a b | TPow a b => (has_reg a || has_reg b)%bool
  | TNeg a | TInv a | TFn _ a => has_reg a
  | _ => false
  end.

Fixpoint term_pars (t:term) : list str :=
  match t with
  | TPar s => [s]
  | TAdd a b | TMul a b | TPow a b => term_pars a ++ term_pars b
  | TNeg a | TInv a | TFn _ a => term_pars a
  | _ => []
  end.

Fixpoint term_regs (t:term) : list str :=
  match t with
  | TReg s => [s]
  | TAdd a b | TMul a b | TPow a b => term_regs a ++ term_regs b
  | TNeg a | TInv a | TFn _ a => term_regs a
  | _ => []
  end.

(* ---- strings ---- *)
Fixpoint str_eqb (a b:str) : bool :=
  match a, b with
  | [], [] => true
  | x :: a', y :: b' => (N.eqb x y && str_eqb a' b')%bool
  | _, _ => false
  end.

Fixpoint lookup {A} (k:str) (l:list (str * A)) : option A :=
  match l with
  | [] => None
  | (k', v) :: l' => if str_eqb k k' then Some v else lookup k l'
  end.

(* dictionary update keeping the position of an existing key (Python dict semantics) *)
Fixpoint dict_set {A} (k:str) (v:A) (l:list (str * A)) : list (str * A) :=
  match l with
  | [] => [(k, v)]
  | (k', v') :: l' => if str_eqb k k' then (k, v) :: l' else (k', v') :: dict_set k v l'
  end.

Fixpoint dict_del {A} (k:str) (l:list (str * A)) : list (str * A) :=
  match l with
  | [] => []
  | (k', v') :: l' => if str_eqb k k' then l' else (k', v') :: dict_del k l'
  end.

Definition mem_str (k:str) (l:list str) : bool := existsb (str_eqb k) l.
