(* Loading from text and files: lexer, parser, include resolution over an abstract file system, evaluator. *)
From Coq Require Import List NArith ZArith Bool Arith.
Import ListNotations.
From BB Require Import Ebnf Chars Lexer Syntax Parser Values Eval.

Section Loader.
Variable lg : nat -> ebnf cset.
Variable lrules : list (nat * nat * bool).

(* ---- paths (POSIX): join, dirname, normpath ---- *)
Definition slash : N := 47%N.
Definition is_abs (p:str) : bool := match p with c :: _ => N.eqb c slash | [] => false end.
Definition ends_slash (p:str) : bool := match rev p with c :: _ => N.eqb c slash | [] => false end.

Definition path_join (d p:str) : str :=
  if is_abs p then p
  else match d with [] => p | _ => if ends_slash d then d ++ p else d ++ [slash] ++ p end.

(* split at '/' *)
Fixpoint split_slash (p:str) (cur:str) : list str :=
  match p with
  | [] => [rev cur]
  | c :: p' => if N.eqb c slash then rev cur :: split_slash p' [] else split_slash p' (c :: cur)
  end.

Fixpoint join_slash (l:list str) : str :=
  match l with [] => [] | [x] => x | x :: l' => x ++ [slash] ++ join_slash l' end.

(* os.path.dirname: everything before the last slash (the root stays "/") *)
Definition dirname (p:str) : str :=
  match rev (split_slash p []) with
  | _ :: rest =>
      let head := join_slash (rev rest) in
      match head, rest with
      | [], _ :: _ => if is_abs p then [slash] else []
      | _, _ => head
      end
  | [] => []
  end.

Definition is_dot (s:str) : bool := match s with [46%N] => true | _ => false end.
Definition is_dotdot (s:str) : bool := match s with [46%N; 46%N] => true | _ => false end.

(* normalise an absolute path *)
Definition normpath (p:str) : str :=
  let comps := fold_left (fun acc c =>
                 if (match c with [] => true | _ => false end || is_dot c)%bool then acc
                 else if is_dotdot c then (match acc with _ :: a' => a' | [] => [] end)
                 else c :: acc) (split_slash p []) [] in
  slash :: join_slash (rev comps).

Variable fs : list (str * list N).      (* normalised absolute path -> content *)
Variable cwd : str.                     (* process working directory (absolute) *)

Definition read_file (filename:str) : option (list N) := lookup (normpath (path_join cwd filename)) fs.

Definition incmap := list (str * (str * prog)).     (* program name -> (file name as written, program) *)

Definition inc_has_file (f:str) (m:incmap) : bool := existsb (fun e => str_eqb (fst (snd e)) f) m.
Definition inc_update (m extra:incmap) : incmap := fold_left (fun acc e => dict_set (fst e) (snd e) acc) extra m.

Definition strip_ends (s:str) : str := match s with _ :: r => removelast r | [] => [] end.

Definition front (w:list N) : outcome script :=
  let n := length w in
  match lex lg lrules w (8 * n + 64) 64 with
  | None => Unspec
  | Some ts => match pscript (4 * length ts + 16) ts with Some sc => Ok sc | None => Refuse ESyntax end
  end.

(* load a source text located in directory [dir] (as written, possibly relative to cwd) *)
Fixpoint load_src (fuel:nat) (dir:str) (w:list N) : outcome (prog * incmap) :=
  match fuel with 0 => Unspec | S fuel =>
    do sc <- front w;
    do incs <- (fix go (l:list str) (m:incmap) : outcome incmap :=
                  match l with
                  | [] => Ok m
                  | i :: l' =>
                      let filename := path_join dir (strip_ends i) in
                      if inc_has_file filename m then go l' m
                      else match read_file filename with
                           | None => Refuse EFileNotFound
                           | Some w' =>
                               do r <- load_src fuel (dirname filename) w';
                               let (q, qm) := r in
                               go l' (inc_update (dict_set (p_name q) (filename, q) m) qm)
                           end
                  end) (sc_includes sc) [];
    do p <- denote (map (fun e => (fst e, snd (snd e))) incs) sc;
    Ok (p, incs)
  end.

(* load/loads terminate the last line of the top-level script (a missing final newline is harmless) *)
Definition with_final_newline (w:list N) : list N :=
  match rev w with
  | [] => w
  | c :: _ => if (N.eqb c 10 || N.eqb c 13)%bool then w else w ++ [10%N]
  end.

Definition loads (w:list N) : outcome prog := do r <- load_src 16 cwd (with_final_newline w); Ok (fst r).
Definition load (filename:str) : outcome prog :=
  match read_file filename with
  | None => Refuse EFileNotFound
  | Some w => do r <- load_src 16 (dirname filename) (with_final_newline w); Ok (fst r)
  end.
End Loader.
