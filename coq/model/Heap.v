(* BB.Heap : a small model of object aliasing (heaps, reachability, deep
   copies, heap actions, confined calls).  Definitions only; the results are
   in BB.HeapP.

   Property C13: the read-only API operations (serialise, instantiate,
   to-graph, match, attribute reads) perform store writes only on objects they
   allocated themselves (a fresh list/dict/graph or a copy.deepcopy of the
   program).  That footprint fact is extracted from the Python source by a
   separate tool; here the footprint discipline is modelled ([confined]) and
   HeapP proves that it implies the property for all heaps and all call
   sequences. *)

From Coq Require Import List Arith Bool.
Import ListNotations.

(* ------------------------------------------------------------------ *)
(* Heaps                                                               *)
(* ------------------------------------------------------------------ *)

Definition loc := nat.

(* a cell: an immutable scalar or a reference to another object *)
Inductive cv : Type :=
| CInt (z : nat)
| CRef (l : loc).

(* an object is the list of its fields (attributes / list items / dict slots) *)
Definition obj := list cv.

(* a heap is the list of allocated objects, indexed by location;
   allocation appends, nothing is ever deallocated *)
Definition heap := list obj.

Definition next (h : heap) : nat := length h.

Definition lookup (h : heap) (l : loc) : option obj := nth_error h l.

(* replace the object stored at location l (no effect when l is unallocated) *)
Fixpoint upd (h : heap) (l : loc) (o : obj) : heap :=
  match h, l with
  | [], _ => []
  | _ :: t, 0 => o :: t
  | x :: t, S k => x :: upd t k o
  end.

(* replace field i of an object; when i is out of range the value is appended
   (a new attribute / list.append) *)
Fixpoint set_field (o : obj) (i : nat) (v : cv) : obj :=
  match o, i with
  | [], _ => [v]
  | _ :: t, 0 => v :: t
  | c :: t, S j => c :: set_field t j v
  end.

(* ------------------------------------------------------------------ *)
(* Reachability and well-formedness                                    *)
(* ------------------------------------------------------------------ *)

Inductive reach (h : heap) (roots : list loc) : loc -> Prop :=
| reach_root : forall l, In l roots -> reach h roots l
| reach_step : forall l o i r,
    reach h roots l ->
    lookup h l = Some o ->
    nth_error o i = Some (CRef r) ->
    reach h roots r.

(* no dangling references *)
Definition wf_heap (h : heap) : Prop :=
  forall l o i r,
    lookup h l = Some o -> nth_error o i = Some (CRef r) -> r < next h.

Definition cv_ok (n : nat) (v : cv) : Prop :=
  match v with CInt _ => True | CRef r => r < n end.

Definition obj_ok (n : nat) (o : obj) : Prop :=
  forall i r, nth_error o i = Some (CRef r) -> r < n.

Definition disjoint (P Q : loc -> Prop) : Prop :=
  forall x, P x -> Q x -> False.

(* ------------------------------------------------------------------ *)
(* Deep copy: the oracle contract of Python's copy.deepcopy            *)
(* ------------------------------------------------------------------ *)

Definition rename (f : loc -> loc) (v : cv) : cv :=
  match v with CInt z => CInt z | CRef l => CRef (f l) end.

Record DeepCopy (h : heap) (root : loc) (h' : heap) (root' : loc) : Prop := {
  (* h' extends h: the objects at all old locations are the same *)
  dc_extends : exists ext, h' = h ++ ext;
  (* the new root is a new, allocated location *)
  dc_root_fresh : next h <= root';
  dc_root_alloc : root' < next h';
  (* everything reachable from the new root is new *)
  dc_fresh : forall l, reach h' [root'] l -> next h <= l;
  (* the new part has no dangling references *)
  dc_new_wf : forall l o i r,
      next h <= l -> lookup h' l = Some o ->
      nth_error o i = Some (CRef r) -> r < next h';
  (* the structure reachable from root' in h' is isomorphic to the one
     reachable from root in h: same scalars, references renamed by f *)
  dc_iso : exists f : loc -> loc,
      f root = root' /\
      (forall a b, reach h [root] a -> reach h [root] b -> f a = f b -> a = b) /\
      (forall l, reach h [root] l ->
                 lookup h' (f l) = option_map (map (rename f)) (lookup h l))
}.

(* ------------------------------------------------------------------ *)
(* Heap actions                                                        *)
(* ------------------------------------------------------------------ *)

Inductive act : Type :=
| Alloc (o : obj)
| Write (l : loc) (i : nat) (v : cv)
| Copy (root : loc).

(* Copy with its (otherwise implicit) result made explicit *)
Definition exec_copy (h : heap) (root : loc) (h' : heap) (root' : loc) : Prop :=
  root < next h /\ DeepCopy h root h' root'.

Inductive exec_act : heap -> act -> heap -> Prop :=
| E_Alloc : forall h o,
    obj_ok (S (next h)) o ->            (* may refer to itself *)
    exec_act h (Alloc o) (h ++ [o])
| E_Write : forall h l i v o,
    lookup h l = Some o ->              (* in particular l < next h *)
    cv_ok (next h) v ->
    exec_act h (Write l i v) (upd h l (set_field o i v))
| E_Copy : forall h root h' root',
    exec_copy h root h' root' ->
    exec_act h (Copy root) h'.

Inductive exec_acts : heap -> list act -> heap -> Prop :=
| E_nil : forall h, exec_acts h [] h
| E_cons : forall h a h1 l h2,
    exec_act h a h1 -> exec_acts h1 l h2 -> exec_acts h (a :: l) h2.

(* ------------------------------------------------------------------ *)
(* Calls and their footprint                                           *)
(* ------------------------------------------------------------------ *)

(* a CALL is a list of actions; it is confined w.r.t. n0 (= next of the heap
   at call entry) when every write targets an object allocated by the call *)
Definition act_confined (n0 : nat) (a : act) : Prop :=
  match a with Write l _ _ => n0 <= l | _ => True end.

Definition confined (n0 : nat) (c : list act) : Prop :=
  Forall (act_confined n0) c.

(* a step of a client session: a read-only API call, or a client mutation *)
Inductive step : Type :=
| SCall (c : list act)
| SMut (l : loc) (i : nat) (v : cv).

(* read-only calls (each confined w.r.t. the heap at its entry) interleaved
   with ARBITRARY client writes to locations >= base (objects returned by
   earlier calls, or allocated since) *)
Inductive ro_run (base : nat) : heap -> list step -> heap -> Prop :=
| ro_nil : forall h, ro_run base h [] h
| ro_call : forall h c h1 ss h2,
    exec_acts h c h1 ->
    confined (next h) c ->
    ro_run base h1 ss h2 ->
    ro_run base h (SCall c :: ss) h2
| ro_mut : forall h l i v h1 ss h2,
    base <= l ->
    exec_act h (Write l i v) h1 ->
    ro_run base h1 ss h2 ->
    ro_run base h (SMut l i v :: ss) h2.

(* a plain sequence of read-only calls *)
Definition ro_calls (h : heap) (calls : list (list act)) (h' : heap) : Prop :=
  ro_run (next h) h (map SCall calls) h'.

(* ------------------------------------------------------------------ *)
(* Instances: separation discipline for client mutations               *)
(* ------------------------------------------------------------------ *)

(* the tracked roots rs (the template p and the instances made so far) own
   pairwise disjoint regions *)
Definition pairwise_sep (h : heap) (rs : list loc) : Prop :=
  forall a b, In a rs -> In b rs -> a <> b ->
              disjoint (reach h [a]) (reach h [b]).

(* the written value does not lead into the region of root b *)
Definition val_sep (h : heap) (v : cv) (b : loc) : Prop :=
  match v with
  | CInt _ => True
  | CRef r => disjoint (reach h [r]) (reach h [b])
  end.

(* a client write into the region of some instance a (a tracked root other
   than the template p); the written value is a scalar or a reference whose
   region is separate from every other tracked root (e.g. a reference into
   the same instance, or to a freshly built structure) *)
Definition owner_write (h : heap) (p : loc) (rs : list loc)
           (l : loc) (v : cv) : Prop :=
  exists a, In a rs /\ a <> p /\ reach h [a] l /\
            forall b, In b rs -> b <> a -> val_sep h v b.

Inductive inst_run (p : loc) (rs : list loc) : heap -> list step -> heap -> Prop :=
| ir_nil : forall h, inst_run p rs h [] h
| ir_call : forall h c h1 ss h2,
    exec_acts h c h1 ->
    confined (next h) c ->
    inst_run p rs h1 ss h2 ->
    inst_run p rs h (SCall c :: ss) h2
| ir_mut : forall h l i v h1 ss h2,
    owner_write h p rs l v ->
    exec_act h (Write l i v) h1 ->
    inst_run p rs h1 ss h2 ->
    inst_run p rs h (SMut l i v :: ss) h2.

Definition sep3 (h : heap) (a b c : loc) : Prop :=
  disjoint (reach h [a]) (reach h [b]) /\
  disjoint (reach h [a]) (reach h [c]) /\
  disjoint (reach h [b]) (reach h [c]).
