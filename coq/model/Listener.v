(* Operational (event driven) model of BlackbirdListener / parse (blackbird/listener.py).

   Eval.denote is the COMPOSITIONAL specification: a for-loop is executed as "for each value: bind the
   variable, execute the body".  The implementation is driven by ANTLR's ParseTreeWalker, which walks the parse
   tree depth first and calls the enter/exit handlers of the listener.  For a for-loop the walker
     - calls enterForloop                      (sets  self._in_for = True),
     - visits every body statement, calling exitStatement on each; exitStatement returns immediately when the
       statement's parent is a Forloop context and self._in_for is set,
     - calls exitForloop, which clears the flag, evaluates the header and then, for each value, binds the loop
       variable and calls self.exitStatement(statement) DIRECTLY on every body statement (the flag is clear, so
       this time they execute), and finally removes the loop variable.
   This file models that mechanism on top of the evaluation primitives of Eval.v (definitions only; the
   refinement proofs are in proofs/ListenerP.v). *)
From Coq Require Import List NArith ZArith Bool Arith.
Import ListNotations.
From BB Require Import Syntax Values Eval.

(* ---------------- events ---------------- *)
(* One event per handler call that has an effect on the program being built.  [in_loop] of EvStatement is
   "isinstance(ctx.parentCtx, ForloopContext)". *)
Inductive event :=
| EvScalar (ty:vtype) (n:dname) (init:val) (l c:nat)                                (* exitExpressionvar *)
| EvArray (ty:vtype) (n:dname) (shape:option (list str)) (body:arrbody) (l c:nat)   (* exitArrayvar *)
| EvStatement (t:stmt) (in_loop:bool)                                               (* exitStatement *)
| EvEnterFor                                                                        (* enterForloop *)
| EvExitFor (ty:vtype) (x:str) (h:forhdr) (body:list stmt)                          (* exitForloop *)
| EvEnterProgram                                                                    (* enterProgram *)
| EvExitProgram.                                                                    (* exitProgram *)

(* the walker's order of handler calls *)
Definition events_of_item (it:item) : list event :=
  match it with
  | IScalar ty n init l c => [EvScalar ty n init l c]
  | IArray ty n shape body l c => [EvArray ty n shape body l c]
  | IStmt t => [EvStatement t false]
  | IFor ty x h body => [EvEnterFor] ++ map (fun t => EvStatement t true) body ++ [EvExitFor ty x h body]
  end.

Definition events_of_items (l:list item) : list event := flat_map events_of_item l.

(* the program block *)
Definition events_of_script (sc:script) : list event :=
  [EvEnterProgram] ++ events_of_items (sc_items sc) ++ [EvExitProgram].

(* ---------------- listener state ---------------- *)
(* l_st: the tables _VAR (s_env), _PARAMS (s_pars: template parameters; s_pnames: p-array names) and the
   operations / modes of the program under construction; l_in_for: self._in_for *)
Record lst := mklst { l_st : st; l_in_for : bool }.

Definition empty_st : st := mkst [] [] [] [] [].
Definition init_lst : lst := mklst empty_st false.        (* BlackbirdListener.__init__ after parse's clears *)

(* header of a for-loop: the values iterated over (rangeval / vallist), as in Eval.exec_item *)
Definition for_values (s:st) (h:forhdr) : outcome (list value) :=
  match h with
  | HRange a b c =>
      match parse_digits a, parse_digits b, match c with Some c' => parse_digits c' | None => Some 1%Z end with
      | Some a', Some b', Some c' => do zs <- range_values a' b' c'; Ok (map VInt zs)
      | _, _, _ => Unspec
      end
  | HList l => mapM (eval_val (s_env s) (s_pnames s)) l
  end.

Definition for_pars (s:st) (h:forhdr) : list str :=
  add_new (s_pars s) (match h with HList l => flat_map val_pars l | _ => [] end).

Definition bind_var (x:str) (v:value) (s:st) : st :=
  mkst (dict_set x v (s_env s)) (s_pars s) (s_pnames s) (s_ops s) (s_modes s).
Definition unbind_var (x:str) (s:st) : st :=
  mkst (dict_del x (s_env s)) (s_pars s) (s_pnames s) (s_ops s) (s_modes s).

Section Handlers.
Variable incs : list (str * prog).
Variable tdm : bool.

(* exitStatement(ctx): skipped when the parent is a for-loop and the flag is set *)
Definition handle_stmt (ls:lst) (t:stmt) (in_loop:bool) : outcome lst :=
  if (in_loop && l_in_for ls)%bool then Ok ls
  else do s' <- exec_stmt incs (l_st ls) t; Ok (mklst s' (l_in_for ls)).

(* "for statement in ctx.statement_list: self.exitStatement(statement)": the body statements are handed to the
   same handler; their parent is the Forloop context *)
Fixpoint replay_body (ls:lst) (body:list stmt) : outcome lst :=
  match body with
  | [] => Ok ls
  | t :: body' => do ls' <- handle_stmt ls t true; replay_body ls' body'
  end.

(* "for var in for_var: new_var = PYTHON_TYPES[..](var) ...; _VAR[NAME] = new_var; <replay>" *)
Fixpoint replay_loop (ty:vtype) (x:str) (body:list stmt) (vs:list value) (ls:lst) : outcome lst :=
  match vs with
  | [] => Ok ls
  | v :: vs' =>
      do v' <- cast_loop ty v;
      do ls1 <- replay_body (mklst (bind_var x v' (l_st ls)) (l_in_for ls)) body;
      replay_loop ty x body vs' ls1
  end.

(* exitForloop *)
Definition handle_exit_for (ls:lst) (ty:vtype) (x:str) (h:forhdr) (body:list stmt) : outcome lst :=
  let s := l_st ls in
  do vals <- for_values s h;
  let pars0 := for_pars s h in
  match lookup x (s_env s) with
  | Some _ => Unspec                                            (* shadowing loop variable: excluded, as in Eval *)
  | None =>
      do ls' <- replay_loop ty x body vals
                  (mklst (mkst (s_env s) pars0 (s_pnames s) (s_ops s) (s_modes s))
                         false);                                  (* self._in_for = False *)
      Ok (mklst (unbind_var x (l_st ls')) (l_in_for ls'))       (* _VAR.pop(NAME, None) *)
  end.

Definition handle (ls:lst) (e:event) : outcome lst :=
  match e with
  | EvScalar ty n init l c =>
      do s' <- exec_item incs tdm (l_st ls) (IScalar ty n init l c); Ok (mklst s' (l_in_for ls))
  | EvArray ty n shape body l c =>
      do s' <- exec_item incs tdm (l_st ls) (IArray ty n shape body l c); Ok (mklst s' (l_in_for ls))
  | EvStatement t in_loop => handle_stmt ls t in_loop
  | EvEnterFor => Ok (mklst (l_st ls) true)
  | EvExitFor ty x h body => handle_exit_for ls ty x h body
  | EvEnterProgram =>
      (* _VAR.clear(); _PARAMS.clear(): the process-wide tables are emptied.  The operations and modes live in
         the listener's own (fresh) program object and are not touched. *)
      Ok (mklst (mkst [] [] [] (s_ops (l_st ls)) (s_modes (l_st ls))) (l_in_for ls))
  | EvExitProgram => Ok ls          (* the tables are copied into the program: the result is read from l_st *)
  end.

Fixpoint run_events (evs:list event) (ls:lst) : outcome lst :=
  match evs with
  | [] => Ok ls
  | e :: evs' => do ls' <- handle ls e; run_events evs' ls'
  end.

(* ---- the same listener WITHOUT the flag: loop-body statements execute on the walker's visit too ---- *)
Definition handle_noflag (ls:lst) (e:event) : outcome lst :=
  match e with
  | EvStatement t _ => do s' <- exec_stmt incs (l_st ls) t; Ok (mklst s' (l_in_for ls))
  | _ => handle ls e
  end.

Fixpoint run_events_noflag (evs:list event) (ls:lst) : outcome lst :=
  match evs with
  | [] => Ok ls
  | e :: evs' => do ls' <- handle_noflag ls e; run_events_noflag evs' ls'
  end.
End Handlers.

(* ---------------- parse ---------------- *)
Definition prog_of (sc:script) (tg ty:option str * list (str * value)) (s:st) : prog :=
  mkprog (sc_name sc) (sc_version sc) (fst tg) (snd tg) (fst ty) (snd ty)
         (s_ops s) (s_modes s) (s_pars s) (s_env s).

(* listener.parse: the metadata handlers run before the program block (exitTarget / exitDeclaretype evaluate
   their options with empty tables), then the walker's events of the program block *)
Definition run_script (incs:list (str * prog)) (sc:script) : outcome prog :=
  do tg <- meta_opts (sc_target sc);
  do ty <- meta_opts (sc_type sc);
  let tdm := is_tdm (fst ty) in
  do ls <- run_events incs tdm (events_of_script sc) init_lst;
  Ok (prog_of sc tg ty (l_st ls)).

Definition run_script_noflag (incs:list (str * prog)) (sc:script) : outcome prog :=
  do tg <- meta_opts (sc_target sc);
  do ty <- meta_opts (sc_type sc);
  let tdm := is_tdm (fst ty) in
  do ls <- run_events_noflag incs tdm (events_of_script sc) init_lst;
  Ok (prog_of sc tg ty (l_st ls)).
