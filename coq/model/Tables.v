(* The process-wide tables (_VAR, _PARAMS) of the implementation as explicit state, to express that a load does
   not depend on earlier loads.  [load_step clear_at_parse g sc] mirrors parse():
     - (repaired code) the tables are cleared first;
     - the metadata options are evaluated against the tables AS FOUND at that moment;
     - entering the program block clears the tables, the items run, leaving the block clears them again;
     - a failing load leaves an arbitrary residue behind (parameter [residue]). *)
From Coq Require Import List NArith ZArith Bool.
Import ListNotations.
From BB Require Import Syntax Values Eval.

Record gstate := mkg { g_var : list (str * value); g_pars : list str }.
Definition g_empty : gstate := mkg [] [].

Section Tables.
Variable residue : gstate -> script -> gstate.    (* what a failed load leaves in the tables: anything *)
Variable incs : list (str * prog).

Definition meta_opts_in (env:list (str * value)) (a:option (str * option arguments))
  : outcome (option str * list (str * value)) :=
  match a with
  | None => Ok (None, [])
  | Some (nm, None) => Ok (Some nm, [])
  | Some (nm, Some args) => do r <- eval_args env [] args; Ok (Some nm, snd r)
  end.

Definition load_step (clear_at_parse:bool) (g:gstate) (sc:script) : gstate * outcome prog :=
  let g1 := if clear_at_parse then g_empty else g in
  let res :=
    do tg <- meta_opts_in (g_var g1) (sc_target sc);
    do ty <- meta_opts_in (g_var g1) (sc_type sc);
    (* enterProgram clears both tables *)
    do s <- exec_items incs (is_tdm (fst ty)) (mkst [] [] [] [] []) (sc_items sc);
    Ok (mkprog (sc_name sc) (sc_version sc) (fst tg) (snd tg) (fst ty) (snd ty)
               (s_ops s) (s_modes s) (s_pars s) (s_env s)) in
  match res with
  | Ok p => (g_empty, Ok p)                (* exitProgram clears both tables *)
  | other => (residue g1 sc, other)
  end.

(* a history of loads in one process *)
Fixpoint run_history (b:bool) (g:gstate) (h:list script) : gstate :=
  match h with [] => g | sc :: h' => run_history b (fst (load_step b g sc)) h' end.
End Tables.
