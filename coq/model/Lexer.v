(* Maximal-munch lexer over an ordered list of rules, built on the generic recogniser.
   A rule is (rule index in the lexer grammar, token type, skip flag). *)
From Coq Require Import List Arith NArith Bool.
Import ListNotations.
From BB Require Import Ebnf Chars.

Section Lexer.
Variable lg : nat -> ebnf cset.            (* lexer grammar: rule bodies, fragments included *)
Variable rules : list (nat * nat * bool).  (* token rules in priority order *)
Variable w : list N.                       (* the input text as code points *)
Variable K F : nat.                        (* closure fuel and recursion fuel of the recogniser *)

Definition rid (r : nat * nat * bool) : nat := fst (fst r).
Definition rtype (r : nat * nat * bool) : nat := snd (fst r).
Definition rskip (r : nat * nat * bool) : bool := snd r.

Definition lends (r:nat) (i:nat) : option (list nat) := ends N cset cmatch lg w K F (Ref r) i.

Definition maxl (l:list nat) : nat := fold_right Nat.max 0 l.

(* the winning rule at position i: longest match, earliest rule on ties.
   [pick rs p i] returns Some None when no rule of rs matches a non-empty prefix;
   p is the list position of the head of rs. *)
Fixpoint pick (rs : list (nat * nat * bool)) (p i : nat) : option (option (nat * nat)) :=
  match rs with
  | [] => Some None
  | r :: rs' =>
      match lends (rid r) i, pick rs' (S p) i with
      | Some L, Some rest =>
          let j := maxl L in
          Some (match rest with
                | Some (p', j') => if (Nat.ltb i j && Nat.leb j' j)%bool then Some (p, j) else Some (p', j')
                | None => if Nat.ltb i j then Some (p, j) else None
                end)
      | _, _ => None
      end
  end.

(* tokens as (position of the rule in [rules], start, end) *)
Fixpoint lexfrom (fuel i : nat) : option (list (nat * nat * nat)) :=
  match fuel with 0 => None | S fuel =>
    if Nat.leb (length w) i then Some []
    else match pick rules 0 i with
         | Some (Some (p, j)) =>
             match lexfrom fuel j with Some ts => Some ((p, i, j) :: ts) | None => None end
         | _ => None
         end
  end.

Definition lex_raw : option (list (nat * nat * nat)) := lexfrom (S (length w)) 0.

(* ANTLR position counting: only LF starts a new line; columns count code points *)
Fixpoint linecol (l:list N) (n line col : nat) : nat * nat :=
  match n, l with
  | S n', c :: l' => if N.eqb c 10 then linecol l' n' (S line) 0 else linecol l' n' line (S col)
  | _, _ => (line, col)
  end.

Definition seg (i j:nat) : list N := firstn (j - i) (skipn i w).

Record token := mktok { tkind : nat; ttext : list N; tline : nat; tcol : nat; tstart : nat; tstop : nat }.

Definition mk_token (t : nat * nat * nat) : option token :=
  let '(p, i, j) := t in
  match nth_error rules p with
  | Some r => if rskip r then None
              else let lc := linecol w i 1 0 in Some (mktok (rtype r) (seg i j) (fst lc) (snd lc) i j)
  | None => None
  end.

Fixpoint filter_map {A B} (f : A -> option B) (l : list A) : list B :=
  match l with [] => [] | x :: l' => match f x with Some y => y :: filter_map f l' | None => filter_map f l' end end.

(* the visible token stream (EOF is appended by the parser front end) *)
Definition lex : option (list token) :=
  match lex_raw with Some ts => Some (filter_map mk_token ts) | None => None end.
End Lexer.
