(* The serializer (BlackbirdProgram.serialize, _format_value, numpy_to_blackbird), at the level of syntax trees:
   program -> script.  Definitions only.

   Numbers are written as fully bracketed expressions over decimal literals (the implementation prints Python
   floats / SymPy expressions; the model keeps the exact symbolic term).  Array arguments are hoisted into
   declarations A0, A1, ... placed right after the metadata (before the tdm variable block, as the implementation
   inserts them), numbered in order of appearance: positional before keyword arguments, operations in order.
   [None] stands for the implementation's failures ("unsupported type", KeyError on an object dtype) and for values
   the syntax cannot express. *)
From Coq Require Import List NArith ZArith Bool Arith.
Import ListNotations.
From BB Require Import Syntax Values Eval.

(* ---------------- decimal digits ---------------- *)
Fixpoint digits_fuel (fuel:nat) (z:Z) (acc:str) : str :=
  match fuel with
  | 0 => acc
  | S f =>
      let acc' := Z.to_N (48 + Z.modulo z 10) :: acc in
      if Z.ltb z 10 then acc' else digits_fuel f (Z.div z 10) acc'
  end.

(* z >= 0 ; "0" for 0.  The fuel (1 + log2 z) exceeds the number of decimal digits. *)
Definition z_digits (z:Z) : str := digits_fuel (S (Z.to_nat (Z.log2 z))) z [].

(* FLOAT literal  <m>e<e>  for m >= 0 *)
Definition dec_text (m e:Z) : str :=
  z_digits m ++ 101%N :: (if Z.ltb e 0 then 45%N :: z_digits (- e) else z_digits e).

Definition pi_text : str := [112; 105]%N.          (* pi *)
Definition i_text : str := [49; 106]%N.            (* 1j *)
Definition zero_j_text : str := [48; 106]%N.       (* 0j *)
Definition one_text : str := dec_text 1 0.         (* 1e0 *)

(* ---------------- terms ---------------- *)
Fixpoint term_expr (t:term) : expr :=
  match t with
  | TDec m e => if Z.ltb m 0 then EBr (ESign true (ENum NKFloat (dec_text (- m) e)))
                else ENum NKFloat (dec_text m e)
  | TPi => ENum NKPi pi_text
  | TI => ENum NKComplex i_text
  | TPar p => EPar p
  | TReg s => EReg s
  | TAdd a b => EBr (EAdd false (term_expr a) (term_expr b))
  | TNeg a => EBr (ESign true (term_expr a))
  | TMul a (TInv b) => EBr (EMul true (term_expr a) (term_expr b))     (* a / b : the evaluator builds a * b^-1 *)
  | TMul a b => EBr (EMul false (term_expr a) (term_expr b))
  | TInv a => EBr (EMul true (ENum NKFloat one_text) (term_expr a))
  | TPow a b => EBr (EPow (term_expr a) (term_expr b))
  | TFn f a => EFun f (term_expr a)
  end.

Definition int_expr (z:Z) : expr :=
  if Z.ltb z 0 then ESign true (ENum NKInt (z_digits (- z))) else ENum NKInt (z_digits z).

(* adding 0j keeps the complex kind of a value whose term has no imaginary unit *)
Definition cpx_expr (t:term) : expr := EBr (EAdd false (term_expr t) (ENum NKComplex zero_j_text)).

(* ---------------- values ---------------- *)
(* _format_value(v, tdm) for values other than arrays and lists.  In a tdm program a string that looks like a
   p-type name (p0, p1, ...) is written without quotes, i.e. as a name. *)
Definition value_val (tdm:bool) (v:value) : option val :=
  match v with
  | VInt z => Some (VE (int_expr z))
  | VFlt t => Some (VE (term_expr t))
  | VCpx t => Some (VE (cpx_expr t))
  | VSym t | VTrf t => Some (VE (term_expr t))
  | VBool b => Some (VB b)
  | VStr s => Some (if (tdm && is_ptype s)%bool then VE (EVar s 0 0) else VS s)
  | VPName s => Some (VE (EVar s 0 0))
  | VArr _ _ _ _ | VList _ => None
  end.

Fixpoint omap {A B} (f:A -> option B) (l:list A) : option (list B) :=
  match l with
  | [] => Some []
  | x :: l' => match f x, omap f l' with Some y, Some ys => Some (y :: ys) | _, _ => None end
  end.

(* keyword value that is not an array: a list (elements neither arrays nor lists) or a single value *)
Definition kwval_of (tdm:bool) (v:value) : option kwval :=
  match v with
  | VList l => option_map KL (omap (value_val tdm) l)
  | _ => option_map KV (value_val tdm v)
  end.

(* ---------------- arrays ---------------- *)
(* array elements (numpy_to_blackbird): integers, reals, complex numbers; anything else is unsupported *)
Definition elem_expr (v:value) : option expr :=
  match v with
  | VInt z => Some (int_expr z)
  | VFlt t => Some (term_expr t)
  | VCpx t => Some (cpx_expr t)
  | _ => None
  end.

(* r rows of c *)
Fixpoint chunks {A} (r c:nat) (l:list A) : list (list A) :=
  match r with
  | 0 => []
  | S r' => firstn c l :: chunks r' c (skipn c l)
  end.

Definition nat_digits (n:nat) : str := z_digits (Z.of_nat n).
Definition arr_name (k:nat) : str := 65%N :: nat_digits k.        (* A<k> *)

Definition arr_decl (name:str) (shape:bool) (ty:vtype) (r c:nat) (elems:list value) : option item :=
  match omap elem_expr elems with
  | Some es => Some (IArray ty (DName name) (if shape then Some [nat_digits r; nat_digits c] else None)
                            (ARows (chunks r c es)) 0 0)
  | None => None
  end.

(* declaration of a variable: an array (with its shape when hoisted, without in the tdm variable block) or, in the
   tdm variable block, a scalar of the type of its value *)
Definition decl_item (shape:bool) (kv:str * value) : option item :=
  let x := fst kv in
  match snd kv with
  | VArr ty r c elems => arr_decl x shape ty r c elems
  | VInt z => Some (IScalar VTInt (DName x) (VE (int_expr z)) 0 0)
  | VFlt t => Some (IScalar VTFloat (DName x) (VE (term_expr t)) 0 0)
  | VCpx t => Some (IScalar VTComplex (DName x) (VE (cpx_expr t)) 0 0)
  | VBool b => Some (IScalar VTBool (DName x) (VB b) 0 0)
  | VStr s => Some (IScalar VTStr (DName x) (VS s) 0 0)
  | _ => None
  end.

(* ---------------- arguments, with hoisting of arrays (k : number of arrays hoisted so far) ---------------- *)
Definition hoist_val (tdm:bool) (v:value) (k:nat) : option (val * nat * list item) :=
  match v with
  | VArr _ _ _ _ =>
      match decl_item true (arr_name k, v) with
      | Some d => Some (VE (EVar (arr_name k) 0 0), S k, [d])
      | None => None
      end
  | _ => match value_val tdm v with Some w => Some (w, k, []) | None => None end
  end.

Fixpoint hoist_pos (tdm:bool) (l:list value) (k:nat) : option (list val * nat * list item) :=
  match l with
  | [] => Some ([], k, [])
  | v :: l' =>
      match hoist_val tdm v k with
      | None => None
      | Some (w, k1, d1) =>
          match hoist_pos tdm l' k1 with
          | None => None
          | Some (ws, k2, d2) => Some (w :: ws, k2, d1 ++ d2)
          end
      end
  end.

Definition hoist_kw (tdm:bool) (v:value) (k:nat) : option (kwval * nat * list item) :=
  match v with
  | VArr _ _ _ _ => match hoist_val tdm v k with Some (w, k1, d) => Some (KV w, k1, d) | None => None end
  | _ => match kwval_of tdm v with Some w => Some (w, k, []) | None => None end
  end.

Fixpoint hoist_kws (tdm:bool) (l:list (str * value)) (k:nat) : option (list (str * kwval) * nat * list item) :=
  match l with
  | [] => Some ([], k, [])
  | (x, v) :: l' =>
      match hoist_kw tdm v k with
      | None => None
      | Some (w, k1, d1) =>
          match hoist_kws tdm l' k1 with
          | None => None
          | Some (ws, k2, d2) => Some ((x, w) :: ws, k2, d1 ++ d2)
          end
      end
  end.

Definition ser_op (tdm:bool) (o:op) (k:nat) : option (stmt * nat * list item) :=
  let ms := map int_expr (omodes o) in
  match oargs o with
  | None => Some (mkstmt (oname o) None ms, k, [])
  | Some (ps, kws) =>
      match hoist_pos tdm ps k with
      | None => None
      | Some (ws, k1, d1) =>
          match hoist_kws tdm kws k1 with
          | None => None
          | Some (kw, k2, d2) => Some (mkstmt (oname o) (Some (mkargs ws kw)) ms, k2, d1 ++ d2)
          end
      end
  end.

Fixpoint ser_ops (tdm:bool) (ops:list op) (k:nat) : option (list stmt * nat * list item) :=
  match ops with
  | [] => Some ([], k, [])
  | o :: ops' =>
      match ser_op tdm o k with
      | None => None
      | Some (t, k1, d1) =>
          match ser_ops tdm ops' k1 with
          | None => None
          | Some (ts, k2, d2) => Some (t :: ts, k2, d1 ++ d2)
          end
      end
  end.

(* ---------------- metadata ---------------- *)
(* target / type options: _format_value(v) (tdm = False), arrays unsupported *)
Definition ser_opts (opts:list (str * value)) : option (list (str * kwval)) :=
  omap (fun kv => option_map (fun w => (fst kv, w)) (kwval_of false (snd kv))) opts.

Definition ser_meta (nm:option str) (opts:list (str * value)) : option (option (str * option arguments)) :=
  match nm with
  | None => Some None
  | Some n =>
      match opts with
      | [] => Some (Some (n, None))
      | _ => match ser_opts opts with
             | Some kws => Some (Some (n, Some (mkargs [] kws)))
             | None => None
             end
      end
  end.

(* ---------------- the script ---------------- *)
Definition ser_script (p:prog) : option script :=
  let tdm := is_tdm (p_type p) in
  match ser_meta (p_target p) (p_target_opts p),
        ser_meta (p_type p) (p_type_opts p),
        (if tdm then omap (decl_item false) (p_vars p) else Some []),
        ser_ops tdm (p_ops p) 0 with
  | Some tg, Some ty, Some vb, Some (sts, _, decls) =>
      Some (mkscript (p_name p) (p_version p) tg ty [] (decls ++ vb ++ map IStmt sts))
  | _, _, _, _ => None
  end.
