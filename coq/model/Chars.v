(* Characters are Unicode code points (N); character sets are lists of closed ranges, possibly negated. *)
From Coq Require Import List NArith Bool.
Import ListNotations.

Record cset := mkcs { cneg : bool; cranges : list (N * N) }.

Definition in_ranges (c:N) (l:list (N*N)) : bool :=
  existsb (fun r => (N.leb (fst r) c && N.leb c (snd r))%bool) l.

Definition cmatch (s:cset) (c:N) : bool := xorb (cneg s) (in_ranges c (cranges s)).
