(* Deterministic recursive-descent parser for Blackbird: visible tokens (no EOF) -> script.
   The expression part mirrors the generated expression(_p) precedence loop (binding powers from the ATN). *)
From Coq Require Import List NArith ZArith Bool Arith.
Import ListNotations.
From BB Require Import Lexer Syntax.

Scheme Equality for tk.

Definition isk (k:tk) (t:token) : bool := tk_beq (tkk t) k.
Definition peek (ts:list token) : tk := match ts with t :: _ => tkk t | [] => TEOF end.
Definition peek2 (ts:list token) : tk := match ts with _ :: t :: _ => tkk t | _ => TEOF end.

Definition fn_of_tk (k:tk) : option fn :=
  match k with
  | TEXP => Some FExp | TLOG => Some FLog | TSIN => Some FSin | TCOS => Some FCos | TTAN => Some FTan
  | TARCSIN => Some FArcsin | TARCCOS => Some FArccos | TARCTAN => Some FArctan
  | TSINH => Some FSinh | TCOSH => Some FCosh | TTANH => Some FTanh
  | TARCSINH => Some FArcsinh | TARCCOSH => Some FArccosh | TARCTANH => Some FArctanh
  | TSQRT => Some FSqrt
  | _ => None
  end.

Definition vtype_of_tk (k:tk) : option vtype :=
  match k with
  | TTYPE_ARRAY => Some VTArray | TTYPE_FLOAT => Some VTFloat | TTYPE_COMPLEX => Some VTComplex
  | TTYPE_INT => Some VTInt | TTYPE_STR => Some VTStr | TTYPE_BOOL => Some VTBool
  | _ => None
  end.

(* ---------------- expressions ---------------- *)
Fixpoint pexpr (f p:nat) (ts:list token) {struct f} : option (expr * list token) :=
  match f with 0 => None | S f =>
    match ts with
    | [] => None
    | t :: r =>
      match tkk t with
      | TLBRAC =>
          match pexpr f 0 r with
          | Some (e, c :: r') => if isk TRBRAC c then ploop f p (EBr e) r' else None
          | _ => None
          end
      | TPLUS => match pexpr f 9 r with Some (e, r') => ploop f p (ESign false e) r' | None => None end
      | TMINUS => match pexpr f 9 r with Some (e, r') => ploop f p (ESign true e) r' | None => None end
      | TINT => ploop f p (ENum NKInt (ttext t)) r
      | TFLOAT => ploop f p (ENum NKFloat (ttext t)) r
      | TCOMPLEX => ploop f p (ENum NKComplex (ttext t)) r
      | TPI => ploop f p (ENum NKPi (ttext t)) r
      | TREGREF => ploop f p (EReg (ttext t)) r
      | TNAME =>
          match r with
          | o :: r1 =>
              if isk TLSQBRAC o then
                match pexpr f 0 r1 with
                | Some (e, c :: r2) => if isk TRSQBRAC c then ploop f p (EIdx (ttext t) (tline t) (tcol t) e) r2 else None
                | _ => None
                end
              else ploop f p (EVar (ttext t) (tline t) (tcol t)) r
          | [] => ploop f p (EVar (ttext t) (tline t) (tcol t)) r
          end
      | TLBRACE =>
          match r with
          | n :: c :: r' => if (isk TNAME n && isk TRBRACE c)%bool then ploop f p (EPar (ttext n)) r' else None
          | _ => None
          end
      | k =>
          match fn_of_tk k with
          | Some fu =>
              match r with
              | o :: r1 =>
                  if isk TLBRAC o then
                    match pexpr f 0 r1 with
                    | Some (e, c :: r2) => if isk TRBRAC c then ploop f p (EFun fu e) r2 else None
                    | _ => None
                    end
                  else None
              | [] => None
              end
          | None => None
          end
      end
    end
  end
with ploop (f p:nat) (e:expr) (ts:list token) {struct f} : option (expr * list token) :=
  match f with 0 => None | S f =>
    match ts with
    | [] => Some (e, ts)
    | t :: r =>
      match tkk t with
      | TPWR => if p <=? 8 then match pexpr f 8 r with Some (b, r') => ploop f p (EPow e b) r' | None => None end else Some (e, ts)
      | TTIMES => if p <=? 7 then match pexpr f 8 r with Some (b, r') => ploop f p (EMul false e b) r' | None => None end else Some (e, ts)
      | TDIVIDE => if p <=? 7 then match pexpr f 8 r with Some (b, r') => ploop f p (EMul true e b) r' | None => None end else Some (e, ts)
      | TPLUS => if p <=? 6 then match pexpr f 7 r with Some (b, r') => ploop f p (EAdd false e b) r' | None => None end else Some (e, ts)
      | TMINUS => if p <=? 6 then match pexpr f 7 r with Some (b, r') => ploop f p (EAdd true e b) r' | None => None end else Some (e, ts)
      | _ => Some (e, ts)
      end
    end
  end.

Definition strip_quotes (s:str) : str := filter (fun c => negb (N.eqb c 34)) s.
Definition is_true_text (s:str) : bool := match s with [84; 114; 117; 101]%N => true | _ => false end.

(* val : nonnumeric | expression *)
Definition pval (f:nat) (ts:list token) : option (val * list token) :=
  match ts with
  | t :: r =>
      match tkk t with
      | TSTR => Some (VS (strip_quotes (ttext t)), r)
      | TBOOL => Some (VB (is_true_text (ttext t)), r)
      | _ => match pexpr f 0 ts with Some (e, r') => Some (VE e, r') | None => None end
      end
  | [] => None
  end.

(* X {COMMA X} *)
Fixpoint psep {A} (px : list token -> option (A * list token)) (f:nat) (ts:list token) : option (list A * list token) :=
  match f with 0 => None | S f =>
    match px ts with
    | Some (x, r) =>
        match r with
        | c :: r1 => if isk TCOMMA c then
                       match psep px f r1 with Some (xs, r2) => Some (x :: xs, r2) | None => None end
                     else Some ([x], r)
        | [] => Some ([x], r)
        end
    | None => None
    end
  end.

Definition parrayrow (f:nat) (ts:list token) : option (list expr * list token) := psep (pexpr f 0) f ts.
Definition pvallist (f:nat) (ts:list token) : option (list val * list token) := psep (pval f) f ts.

(* kwarg : NAME ASSIGN (val | LSQBRAC vallist? RSQBRAC) *)
Definition pkwarg (f:nat) (ts:list token) : option ((str * kwval) * list token) :=
  match ts with
  | n :: a :: r =>
      if (isk TNAME n && isk TASSIGN a)%bool then
        match r with
        | o :: r1 =>
            if isk TLSQBRAC o then
              match r1 with
              | c :: r2 =>
                  if isk TRSQBRAC c then Some ((ttext n, KL []), r2)
                  else match pvallist f r1 with
                       | Some (l, c' :: r3) => if isk TRSQBRAC c' then Some ((ttext n, KL l), r3) else None
                       | _ => None
                       end
              | [] => None
              end
            else match pval f r with Some (v, r') => Some ((ttext n, KV v), r') | None => None end
        | [] => None
        end
      else None
  | _ => None
  end.

Definition kwstart (ts:list token) : bool :=
  match ts with n :: a :: _ => (isk TNAME n && isk TASSIGN a)%bool | _ => false end.

(* positional part: returns the values and the rest, which starts at RBRAC or at a kwarg *)
Fixpoint pposargs (f:nat) (ts:list token) : option (list val * list token) :=
  match f with 0 => None | S f =>
    if (tk_beq (peek ts) TRBRAC || kwstart ts)%bool then Some ([], ts)
    else match pval f ts with
         | Some (v, r) =>
             match r with
             | c :: r1 => if isk TCOMMA c then
                            match pposargs f r1 with Some (vs, r2) => Some (v :: vs, r2) | None => None end
                          else Some ([v], r)
             | [] => Some ([v], r)
             end
         | None => None
         end
  end.

(* arguments : LBRAC [val {COMMA val}] [COMMA] [kwarg {COMMA kwarg}] RBRAC *)
Definition parguments (f:nat) (ts:list token) : option (arguments * list token) :=
  match ts with
  | o :: r =>
      if isk TLBRAC o then
        (* a leading COMMA with no positional value is grammatical: "(, a=1)" *)
        let r0 := match r with c :: r' => if isk TCOMMA c then r' else r | [] => r end in
        let lead := match r with c :: _ => isk TCOMMA c | [] => false end in
        match (if lead then Some ([], r0) else pposargs f r) with
        | Some (vs, r1) =>
            if kwstart r1 then
              match psep (pkwarg f) f r1 with
              | Some (kws, c :: r2) => if isk TRBRAC c then Some (mkargs vs kws, r2) else None
              | _ => None
              end
            else match r1 with
                 | c :: r2 => if isk TRBRAC c then Some (mkargs vs [], r2) else None
                 | [] => None
                 end
        | None => None
        end
      else None
  | [] => None
  end.

Definition is_closer (k:tk) : bool := match k with TRBRAC | TRSQBRAC => true | _ => false end.
Definition drop_closer (ts:list token) : list token :=
  match ts with c :: r => if is_closer (tkk c) then r else ts | [] => ts end.

(* tokens that may follow a complete statement *)
Definition stmt_follow (k:tk) : bool :=
  match k with
  | TNEWLINE | TEOF | TNAME | TMEASURE | TFOR
  | TTYPE_ARRAY | TTYPE_FLOAT | TTYPE_COMPLEX | TTYPE_INT | TTYPE_STR | TTYPE_BOOL => true
  | _ => false
  end.

(* (LBRAC|LSQBRAC)? X (RBRAC|RSQBRAC)?  where a leading LBRAC may also open a bracketed expression *)
Definition pbracketed {A} (px : list token -> option (A * list token)) (follow : tk -> bool) (ts:list token)
  : option (A * list token) :=
  match ts with
  | o :: r =>
      match tkk o with
      | TLSQBRAC => match px r with Some (x, r1) => Some (x, drop_closer r1) | None => None end
      | TLBRAC =>
          let altB := match px ts with Some (x, r1) => Some (x, drop_closer r1) | None => None end in
          match px r with
          | Some (x, r1) => let r2 := drop_closer r1 in if follow (peek r2) then Some (x, r2) else altB
          | None => altB
          end
      | _ => match px ts with Some (x, r1) => Some (x, drop_closer r1) | None => None end
      end
  | [] => None
  end.

(* statement : (operation | measure) arguments? APPLY (LBRAC|LSQBRAC)? arrayrow (RBRAC|RSQBRAC)?   (trailing NEWLINEs are left to the caller) *)
Definition pstatement (f:nat) (ts:list token) : option (stmt * list token) :=
  match ts with
  | n :: r =>
      if (isk TNAME n || isk TMEASURE n)%bool then
        let after_args :=
          if tk_beq (peek r) TLBRAC then
            match parguments f r with Some (a, r1) => Some (Some a, r1) | None => None end
          else Some (None, r) in
        match after_args with
        | Some (a, b :: r1) =>
            if isk TAPPLY b then
              match pbracketed (parrayrow f) stmt_follow r1 with
              | Some (ms, r2) => Some (mkstmt (ttext n) a ms, r2)
              | None => None
              end
            else None
        | _ => None
        end
      else None
  | [] => None
  end.

Fixpoint skip_nl (ts:list token) : list token :=
  match ts with t :: r => if isk TNEWLINE t then skip_nl r else ts | [] => ts end.

(* one or more (NEWLINE TAB statement): the first group needs exactly NEWLINE TAB; later groups may be preceded by
   the NEWLINEs that end the previous statement *)
Fixpoint pforbody (f:nat) (first:bool) (ts:list token) : option (list stmt * list token) :=
  match f with 0 => None | S f =>
    let ts' := if first then (match ts with n :: r => if isk TNEWLINE n then r else ts | [] => ts end) else skip_nl ts in
    let has_nl := match ts with n :: _ => isk TNEWLINE n | [] => false end in
    match ts' with
    | tb :: r =>
        if (has_nl && isk TTAB tb)%bool then
          match pstatement f r with
          | Some (s, r1) =>
              match pforbody f false r1 with
              | Some (ss, r2) => Some (s :: ss, r2)
              | None => None
              end
          | None => None
          end
        else if first then None else Some ([], ts)
    | [] => if first then None else Some ([], ts)
    end
  end.

Definition nl_follow (k:tk) : bool := match k with TNEWLINE => true | _ => false end.

(* forloop : FOR vartype NAME IN (rangeval | (LBRAC|LSQBRAC)? vallist (RBRAC|RSQBRAC)?) (NEWLINE TAB statement)+ *)
Definition pfor (f:nat) (ts:list token) : option (item * list token) :=
  match ts with
  | fo :: ty :: x :: i :: r =>
      if (isk TFOR fo && isk TNAME x && isk TIN i)%bool then
        match vtype_of_tk (tkk ty) with
        | Some vt =>
            let hdr :=
              match r with
              | a :: c1 :: b :: r1 =>
                  if (isk TINT a && isk TCOLON c1)%bool then
                    if isk TINT b then
                      match r1 with
                      | c2 :: c :: r2 =>
                          if isk TCOLON c2 then
                            if isk TINT c then Some (HRange (ttext a) (ttext b) (Some (ttext c)), r2) else None
                          else Some (HRange (ttext a) (ttext b) None, r1)
                      | _ => Some (HRange (ttext a) (ttext b) None, r1)
                      end
                    else None
                  else match pbracketed (pvallist f) nl_follow r with Some (l, r1') => Some (HList l, r1') | None => None end
              | _ => match pbracketed (pvallist f) nl_follow r with Some (l, r1') => Some (HList l, r1') | None => None end
              end in
            match hdr with
            | Some (h, r1) =>
                match pforbody f true r1 with
                | Some (body, r2) => Some (IFor vt (ttext x) h body, r2)
                | None => None
                end
            | None => None
            end
        | None => None
        end
      else None
  | _ => None
  end.

Definition pdname (t:token) : option dname :=
  match tkk t with
  | TNAME => Some (DName (ttext t))
  | TREGREF => Some (DReg (ttext t) (tline t) (tcol t))
  | TPROGNAME | TVERSION | TTARGET | TPROGTYPE => Some (DReserved (ttext t) (tline t) (tcol t))
  | _ => None
  end.

(* {TAB arrayrow NEWLINE} *)
Fixpoint parrayval (f:nat) (ts:list token) : option (list (list expr) * list token) :=
  match f with 0 => None | S f =>
    match ts with
    | tb :: r =>
        if isk TTAB tb then
          match parrayrow f r with
          | Some (row, n :: r1) =>
              if isk TNEWLINE n then
                match parrayval f r1 with Some (rows, r2) => Some (row :: rows, r2) | None => None end
              else None
          | _ => None
          end
        else Some ([], ts)
    | [] => Some ([], ts)
    end
  end.

Fixpoint pshape (f:nat) (ts:list token) : option (list str * list token) :=
  match f with 0 => None | S f =>
    match ts with
    | i :: r =>
        if isk TINT i then
          match r with
          | c :: r1 => if isk TCOMMA c then
                         match pshape f r1 with Some (l, r2) => Some (ttext i :: l, r2) | None => None end
                       else Some ([ttext i], r)
          | [] => Some ([ttext i], r)
          end
        else None
    | [] => None
    end
  end.

(* expressionvar / arrayvar *)
Definition pdecl (f:nat) (ts:list token) : option (item * list token) :=
  match ts with
  | ty :: r =>
      match vtype_of_tk (tkk ty) with
      | Some vt =>
          if tk_beq (peek r) TTYPE_ARRAY then
            (* arrayvar : vartype TYPE_ARRAY name (LSQBRAC shape RSQBRAC)? ASSIGN NEWLINE (arrayval | parameter) *)
            match r with
            | _ :: n :: r1 =>
                match pdname n with
                | Some dn =>
                    let sh :=
                      if tk_beq (peek r1) TLSQBRAC then
                        match pshape f (tl r1) with
                        | Some (l, c :: r2) => if isk TRSQBRAC c then Some (Some l, r2) else None
                        | _ => None
                        end
                      else Some (None, r1) in
                    match sh with
                    | Some (shp, a :: nl :: r3) =>
                        if (isk TASSIGN a && isk TNEWLINE nl)%bool then
                          if tk_beq (peek r3) TLBRACE then
                            match r3 with
                            | _ :: p :: c :: r4 =>
                                if (isk TNAME p && isk TRBRACE c)%bool
                                then Some (IArray vt dn shp (AParam (ttext p)) (tline ty) (tcol ty), r4) else None
                            | _ => None
                            end
                          else match parrayval f r3 with
                               | Some (rows, r4) => Some (IArray vt dn shp (ARows rows) (tline ty) (tcol ty), r4)
                               | None => None
                               end
                        else None
                    | _ => None
                    end
                | None => None
                end
            | _ => None
            end
          else
            (* expressionvar : vartype name ASSIGN (expression | nonnumeric) *)
            match r with
            | n :: a :: r1 =>
                match pdname n with
                | Some dn =>
                    if isk TASSIGN a then
                      match pval f r1 with
                      | Some (v, r2) => Some (IScalar vt dn v (tline ty) (tcol ty), r2)
                      | None => None
                      end
                    else None
                | None => None
                end
            | _ => None
            end
      | None => None
      end
  | [] => None
  end.

(* program : {NEWLINE | forloop | expressionvar | arrayvar | statement} up to the end of input *)
Fixpoint pprogram (f:nat) (ts:list token) : option (list item) :=
  match f with 0 => None | S f =>
    match ts with
    | [] => Some []
    | t :: r =>
        match tkk t with
        | TNEWLINE => pprogram f r
        | TFOR => match pfor f ts with Some (it, r1) => match pprogram f r1 with Some l => Some (it :: l) | None => None end | None => None end
        | TNAME | TMEASURE =>
            match pstatement f ts with
            | Some (s, r1) => match pprogram f r1 with Some l => Some (IStmt s :: l) | None => None end
            | None => None
            end
        | _ => match pdecl f ts with Some (it, r1) => match pprogram f r1 with Some l => Some (it :: l) | None => None end | None => None end
        end
    end
  end.

(* {NEWLINE | include} *)
Fixpoint pincludes (f:nat) (ts:list token) : list str * list token :=
  match f with 0 => ([], ts) | S f =>
    match ts with
    | t :: r =>
        match tkk t with
        | TNEWLINE => pincludes f r
        | TINCLUDE =>
            match r with
            | s :: r1 => if isk TSTR s then let (l, r2) := pincludes f r1 in (ttext s :: l, r2) else ([], ts)
            | [] => ([], ts)
            end
        | _ => ([], ts)
        end
    | [] => ([], ts)
    end
  end.

(* NEWLINE+ KEYWORD dev arguments?   (optional metadata line: target / type) *)
Definition pmetaline (f:nat) (kw:tk) (dev:tk -> bool) (ts:list token)
  : option (option (str * option arguments) * list token) :=
  let r := skip_nl ts in
  match ts, r with
  | n :: _, k :: d :: r1 =>
      if (isk TNEWLINE n && tk_beq (tkk k) kw)%bool then
        if dev (tkk d) then
          if tk_beq (peek r1) TLBRAC then
            match parguments f r1 with Some (a, r2) => Some (Some (ttext d, Some a), r2) | None => None end
          else Some (Some (ttext d, None), r1)
        else None
      else Some (None, ts)
  | _, _ => Some (None, ts)
  end.

Definition is_device (k:tk) : bool := match k with TNAME | TDEVICE => true | _ => false end.
Definition is_name (k:tk) : bool := match k with TNAME => true | _ => false end.

(* start : {NEWLINE} metadatablock {NEWLINE} program {NEWLINE} EOF *)
Definition pscript (f:nat) (ts:list token) : option script :=
  match skip_nl ts with
  | pn :: n :: nl :: r =>
      if (isk TPROGNAME pn && isk TNAME n && isk TNEWLINE nl)%bool then
        match skip_nl r with
        | v :: num :: r1 =>
            if (isk TVERSION v && isk TFLOAT num)%bool then
              match pmetaline f TTARGET is_device r1 with
              | Some (tg, r2) =>
                  match pmetaline f TPROGTYPE is_name r2 with
                  | Some (ty, r3) =>
                      let (incs, r4) := pincludes f r3 in
                      match pprogram f r4 with
                      | Some items => Some (mkscript (ttext n) (ttext num) tg ty incs items)
                      | None => None
                      end
                  | None => None
                  end
              | None => None
              end
            else None
        | _ => None
        end
      else None
  | _ => None
  end.
