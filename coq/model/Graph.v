(* Executable model of blackbird.utils.to_DiGraph (definitions only, extractable).

   A program is abstracted to [ops : list (list nat)]: element [i] is the wire
   list of operation [i] (its modes united with the registers of its
   RegRefTransform arguments; duplicates possible, order irrelevant).

   Python:
     grid = {}
     for idx, op in enumerate(program.operations):
         for q in dependencies: grid.setdefault(q, []).append(idx)
     for q, cmds in grid.items():
         add_node(cmds[0]); for i >= 1: add_edge(cmds[i-1], cmds[i])
*)
From Coq Require Import List Arith Bool. Import ListNotations.

(* q in dependencies *)
Definition has_wire (q : nat) (ws : list nat) : bool := existsb (Nat.eqb q) ws.

(* scan the operations with a running index [i] *)
Fixpoint grid_from (q : nat) (i : nat) (ops : list (list nat)) : list nat :=
  match ops with
  | [] => []
  | ws :: rest =>
      if has_wire q ws then i :: grid_from q (S i) rest
      else grid_from q (S i) rest
  end.

(* grid[q]: increasing list of the indices of the operations touching wire q *)
Definition grid_wire (q : nat) (ops : list (list nat)) : list nat :=
  grid_from q 0 ops.

(* append to [acc] the wires of [ws] not yet present (dict insertion order) *)
Fixpoint add_new (acc : list nat) (ws : list nat) : list nat :=
  match ws with
  | [] => acc
  | w :: ws' =>
      if has_wire w acc then add_new acc ws' else add_new (acc ++ [w]) ws'
  end.

(* keys of grid, in order of first occurrence, without duplicates *)
Definition wires_of (ops : list (list nat)) : list nat :=
  fold_left add_new ops [].

(* [(l0,l1); (l1,l2); ...] *)
Fixpoint consec_pairs (l : list nat) : list (nat * nat) :=
  match l with
  | [] => []
  | a :: t =>
      match t with
      | [] => []
      | b :: _ => (a, b) :: consec_pairs t
      end
  end.

(* the add_edge calls, in the order in which Python performs them *)
Definition edges (ops : list (list nat)) : list (nat * nat) :=
  flat_map (fun q => consec_pairs (grid_wire q ops)) (wires_of ops).

Fixpoint nodes_from (i : nat) (ops : list (list nat)) : list nat :=
  match ops with
  | [] => []
  | ws :: rest =>
      match ws with
      | [] => nodes_from (S i) rest
      | _ :: _ => i :: nodes_from (S i) rest
      end
  end.

(* the node set of the resulting DiGraph: operations having at least one wire *)
Definition nodes (ops : list (list nat)) : list nat := nodes_from 0 ops.
