(* Token kinds and the abstract syntax of Blackbird scripts. *)
From Coq Require Import List NArith ZArith Bool String.
Import ListNotations.
From BB Require Import Lexer.

Definition str := list N.            (* text as code points *)

Inductive tk :=
| TPLUS | TMINUS | TTIMES | TDIVIDE | TPWR | TASSIGN | TFOR | TIN
| TINT | TFLOAT | TCOMPLEX | TSTR | TBOOL | TSEQUENCE | TPI
| TNEWLINE | TTAB | TSPACE
| TPROGNAME | TVERSION | TTARGET | TPROGTYPE | TINCLUDE
| TSQRT | TSIN | TCOS | TTAN | TARCSIN | TARCCOS | TARCTAN | TSINH | TCOSH | TTANH
| TARCSINH | TARCCOSH | TARCTANH | TEXP | TLOG
| TPERIOD | TCOMMA | TCOLON | TQUOTE | TLBRAC | TRBRAC | TLSQBRAC | TRSQBRAC | TLBRACE | TRBRACE | TAPPLY
| TTYPE_ARRAY | TTYPE_FLOAT | TTYPE_COMPLEX | TTYPE_INT | TTYPE_STR | TTYPE_BOOL
| TREGREF | TMEASURE | TNAME | TDEVICE | TCOMMENT | TANY
| TEOF | TUNKNOWN.

(* token type numbers as assigned by ANTLR (declaration order of the lexer rules); tied to G4Data.token_names
   by the obligation GrammarP.tk_table_ok *)
Definition tk_of_nat (n:nat) : tk :=
  match n with
  | 0 => TEOF
  | 1 => TPLUS | 2 => TMINUS | 3 => TTIMES | 4 => TDIVIDE | 5 => TPWR | 6 => TASSIGN | 7 => TFOR | 8 => TIN
  | 9 => TINT | 10 => TFLOAT | 11 => TCOMPLEX | 12 => TSTR | 13 => TBOOL | 14 => TSEQUENCE | 15 => TPI
  | 16 => TNEWLINE | 17 => TTAB | 18 => TSPACE
  | 19 => TPROGNAME | 20 => TVERSION | 21 => TTARGET | 22 => TPROGTYPE | 23 => TINCLUDE
  | 24 => TSQRT | 25 => TSIN | 26 => TCOS | 27 => TTAN | 28 => TARCSIN | 29 => TARCCOS | 30 => TARCTAN
  | 31 => TSINH | 32 => TCOSH | 33 => TTANH | 34 => TARCSINH | 35 => TARCCOSH | 36 => TARCTANH | 37 => TEXP | 38 => TLOG
  | 39 => TPERIOD | 40 => TCOMMA | 41 => TCOLON | 42 => TQUOTE | 43 => TLBRAC | 44 => TRBRAC | 45 => TLSQBRAC
  | 46 => TRSQBRAC | 47 => TLBRACE | 48 => TRBRACE | 49 => TAPPLY
  | 50 => TTYPE_ARRAY | 51 => TTYPE_FLOAT | 52 => TTYPE_COMPLEX | 53 => TTYPE_INT | 54 => TTYPE_STR | 55 => TTYPE_BOOL
  | 56 => TREGREF | 57 => TMEASURE | 58 => TNAME | 59 => TDEVICE | 60 => TCOMMENT | 61 => TANY
  | _ => TUNKNOWN
  end.

Local Open Scope string_scope.
Definition tk_name (t:tk) : string :=
  match t with
  | TPLUS => "PLUS" | TMINUS => "MINUS" | TTIMES => "TIMES" | TDIVIDE => "DIVIDE" | TPWR => "PWR" | TASSIGN => "ASSIGN"
  | TFOR => "FOR" | TIN => "IN" | TINT => "INT" | TFLOAT => "FLOAT" | TCOMPLEX => "COMPLEX" | TSTR => "STR"
  | TBOOL => "BOOL" | TSEQUENCE => "SEQUENCE" | TPI => "PI" | TNEWLINE => "NEWLINE" | TTAB => "TAB" | TSPACE => "SPACE"
  | TPROGNAME => "PROGNAME" | TVERSION => "VERSION" | TTARGET => "TARGET" | TPROGTYPE => "PROGTYPE" | TINCLUDE => "INCLUDE"
  | TSQRT => "SQRT" | TSIN => "SIN" | TCOS => "COS" | TTAN => "TAN" | TARCSIN => "ARCSIN" | TARCCOS => "ARCCOS"
  | TARCTAN => "ARCTAN" | TSINH => "SINH" | TCOSH => "COSH" | TTANH => "TANH" | TARCSINH => "ARCSINH"
  | TARCCOSH => "ARCCOSH" | TARCTANH => "ARCTANH" | TEXP => "EXP" | TLOG => "LOG" | TPERIOD => "PERIOD"
  | TCOMMA => "COMMA" | TCOLON => "COLON" | TQUOTE => "QUOTE" | TLBRAC => "LBRAC" | TRBRAC => "RBRAC"
  | TLSQBRAC => "LSQBRAC" | TRSQBRAC => "RSQBRAC" | TLBRACE => "LBRACE" | TRBRACE => "RBRACE" | TAPPLY => "APPLY"
  | TTYPE_ARRAY => "TYPE_ARRAY" | TTYPE_FLOAT => "TYPE_FLOAT" | TTYPE_COMPLEX => "TYPE_COMPLEX" | TTYPE_INT => "TYPE_INT"
  | TTYPE_STR => "TYPE_STR" | TTYPE_BOOL => "TYPE_BOOL" | TREGREF => "REGREF" | TMEASURE => "MEASURE" | TNAME => "NAME"
  | TDEVICE => "DEVICE" | TCOMMENT => "COMMENT" | TANY => "ANY" | TEOF => "EOF" | TUNKNOWN => "?"
  end.
Local Close Scope string_scope.

Definition tkk (t:token) : tk := tk_of_nat (tkind t).

(* ---- abstract syntax ---- *)
Inductive fn := FExp | FLog | FSin | FCos | FTan | FArcsin | FArccos | FArctan | FSinh | FCosh | FTanh
              | FArcsinh | FArccosh | FArctanh | FSqrt.

Inductive vtype := VTArray | VTFloat | VTComplex | VTInt | VTStr | VTBool.

(* number literals keep their token text; conversion is in Values *)
Inductive numkind := NKInt | NKFloat | NKComplex | NKPi.

Inductive expr :=
| ENum (k:numkind) (text:str)
| EVar (name:str) (line col:nat)       (* NAME used as a variable; position of the token *)
| EReg (text:str)                      (* REGREF *)
| EIdx (name:str) (line col:nat) (e:expr)   (* NAME [ e ] *)
| EPar (name:str)                      (* { NAME } *)
| EBr (e:expr)
| ESign (neg:bool) (e:expr)
| EPow (a b:expr)
| EMul (div:bool) (a b:expr)
| EAdd (sub:bool) (a b:expr)
| EFun (f:fn) (e:expr).

Inductive val := VE (e:expr) | VS (s:str) | VB (b:bool).       (* val : nonnumeric | expression *)
Inductive kwval := KV (v:val) | KL (l:list val).
Record arguments := mkargs { apos : list val; akw : list (str * kwval) }.

Record stmt := mkstmt { sop : str; sargs : option arguments; smodes : list expr }.

(* a declared name: ordinary, a register reference or a reserved keyword (the grammar admits all three) *)
Inductive dname := DName (s:str) | DReg (s:str) (line col:nat) | DReserved (s:str) (line col:nat).

Inductive arrbody := ARows (rows:list (list expr)) | AParam (p:str).
Inductive forhdr := HRange (a b:str) (c:option str) | HList (l:list val).

Inductive item :=
| IScalar (ty:vtype) (n:dname) (init:val) (line col:nat)
| IArray (ty:vtype) (n:dname) (shape:option (list str)) (body:arrbody) (line col:nat)
| IStmt (s:stmt)
| IFor (ty:vtype) (x:str) (h:forhdr) (body:list stmt).

Record script := mkscript {
  sc_name : str;
  sc_version : str;
  sc_target : option (str * option arguments);
  sc_type : option (str * option arguments);
  sc_includes : list str;          (* the STR tokens, quotes included *)
  sc_items : list item }.
