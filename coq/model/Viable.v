(* Viable-prefix oracle on top of the generic EBNF recogniser (model/Ebnf.v).
   [vends f e i] returns the end positions of e started at i inside the fixed word w (exactly the
   list computed by [Ebnf.ends]) together with an overrun flag: true iff some derivation of e from i
   consumes all of w[i..) and at least one further symbol of some extension of w.
   [viable f e] : is w a prefix of some word derived by e ?  (None = out of fuel.)
   Definitions only; proofs are in proofs/ViableP.v (under the assumptions that every terminal is
   matched by some symbol and that every rule derives at least one word). *)
From Coq Require Import List Arith Bool.
Import ListNotations.
From BB Require Import Ebnf.

Section Viable.
Variables (sym T : Type).
Variable tm : T -> sym -> bool.
Variable g : nat -> ebnf T.
Variable w : list sym.            (* the fixed input word (a candidate prefix) *)
Variable K : nat.                 (* closure fuel, as in Ebnf *)

(* run f from every position of l: concatenate the end lists, or the flags *)
Fixpoint bindv (f : nat -> option (list nat * bool)) (l : list nat) : option (list nat * bool) :=
  match l with
  | [] => Some ([], false)
  | x :: l' => match f x, bindv f l' with
               | Some (a, fa), Some (b, fb) => Some (a ++ b, fa || fb)
               | _, _ => None
               end
  end.

(* Ebnf.closure with the overrun flags of the expanded positions or-ed into an accumulator;
   the position component is exactly Ebnf.closure run on the first components of [step]. *)
Fixpoint vclosure (k:nat) (step : nat -> option (list nat * bool)) (todo seen : list nat) (fl : bool)
  : option (list nat * bool) :=
  match k with 0 => None | S k =>
    match todo with
    | [] => Some (seen, fl)
    | p :: todo' =>
        if mem p seen then vclosure k step todo' seen fl
        else match step p with
             | None => None
             | Some (l, fp) => vclosure k step (filter (fun q => Nat.ltb p q) l ++ todo') (p :: seen) (fl || fp)
             end
    end end.

Fixpoint vends (f:nat) (e:ebnf T) (i:nat) {struct f} : option (list nat * bool) :=
  match f with 0 => None | S f =>
    match e with
    | Tok t => match nth_error w i with
               | Some x => if tm t x then Some ([S i], false) else Some ([], false)
               | None => Some ([], true)
               end
    | Eps => Some ([i], false)
    | Ref r => vends f (g r) i
    | Seq a b => match vends f a i with
                 | None => None
                 | Some (l, fa) =>
                     match bindv (vends f b) (nodup Nat.eq_dec l) with
                     | None => None
                     | Some (r, fb) => Some (r, fa || fb)
                     end
                 end
    | Alt a b => match vends f a i, vends f b i with
                 | Some (l1, f1), Some (l2, f2) => Some (l1 ++ l2, f1 || f2)
                 | _, _ => None
                 end
    | Star a => vclosure K (vends f a) [i] [] false
    end end.

Definition viable (f:nat) (e:ebnf T) : option bool :=
  match vends f e 0 with
  | None => None
  | Some (E, fl) => Some (fl || mem (length w) E)
  end.
End Viable.
