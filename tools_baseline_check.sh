#!/bin/bash
# run the baseline suite and verify that every stable_pass test still passes
cd /repo && /venv/bin/python -m pytest -q -p no:cacheprovider --timeout=900 --continue-on-collection-errors --junitxml=/tmp/junit.xml >/tmp/pytest.out 2>&1
/venv/bin/python - <<'P'
import json, xml.etree.ElementTree as ET
b=json.load(open('/root/.vp/BASELINE.json'))
want=set(b['stable_pass'])
t=ET.parse('/tmp/junit.xml')
ok=set()
for tc in t.iter('testcase'):
    if not any(ch.tag in('failure','error','skipped') for ch in tc):
        ok.add(tc.get('classname')+'::'+tc.get('name'))
missing=sorted(want-ok)
print("baseline: %d/%d stable tests pass; newly failing: %s"%(len(want&ok),len(want),missing[:5])); import sys; sys.exit(1 if missing else 0)
P
