#!/bin/bash
# Build the framework from files on disk only (offline): regenerate gen/*.v from /repo, compile the Coq
# development (full .vo), extract the model, compile the OCaml driver.
set -u
cd "$(dirname "$0")"
export PYTHONPATH=${BB_REPO:-/repo}/blackbird_python PYTHONHASHSEED=0
/venv/bin/python - <<'PY'
import sys, os
sys.path.insert(0, os.path.join(os.getcwd(), "lib"))
import framework as fw
st = fw.build()
print("build wall %.1fs  translators failed: %s  coq files failed: %s  bbmodel: %s" % (
    st.wall, list(st.translator_errors), list(st.failed_v), st.bbmodel_ok))
if st.failed_v or st.translator_errors or not st.bbmodel_ok:
    print(st.log[-4000:])
    sys.exit(1)
PY
