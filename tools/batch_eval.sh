#!/bin/bash
# batch_eval.sh <prefix> : verify every /tmp/mut_<prefix><i> (i = 1..19, property C<i>) in parallel, then run the target check on each
pre=$1
for i in $(seq 1 19); do [ -f /tmp/mut_$pre$i/patch.diff ] && (tools/verify_mutant.sh /tmp/mut_$pre$i > /tmp/vm_$pre$i.log 2>&1 &); done
sleep 60
while pgrep -f verify_mutant.sh > /dev/null; do sleep 10; done
for i in $(seq 1 19); do
  [ -f /tmp/mut_$pre$i/patch.diff ] || continue
  v=$(tail -qn 1 /tmp/vm_$pre$i.log)
  c=$(printf "C%02d" $i)
  r=$(tools/eval_mutant.py /tmp/mut_$pre$i/patch.diff $c 2>&1 | grep "^$c " | cut -c1-220)
  echo "$pre$i $v | $r"
done
