#!/bin/bash
# one_eval.sh <prefix> <i> [extra checks...] : verify /tmp/mut_<prefix><i> in a fresh worktree, then run the target check C<i> (and extras) on it
pre=$1; i=$2; shift 2
v=$(tools/verify_mutant.sh /tmp/mut_$pre$i 2>&1 | tail -qn 1)
c=$(printf "C%02d" $i)
r=$(tools/eval_mutant.py /tmp/mut_$pre$i/patch.diff $c "$@" 2>&1 | grep "^C[0-9][0-9] " | cut -c1-260 | tr '\n' ' ')
echo "$pre$i $v | $r"
