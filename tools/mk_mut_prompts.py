#!/usr/bin/env python3
"""mk_mut_prompts.py <prefix> : create scratch worktrees /tmp/mut_<prefix><i> of /repo (i = 1..19) and the prompts
/tmp/mut_prompts/<prefix><i>.txt given to the independent sub-agents (property text + worktree only, nothing from /verif
except the one-line descriptions of changes already made, so that new changes use other mechanisms)."""
import glob
import json
import os
import subprocess
import sys

pre = sys.argv[1]
root = os.path.dirname(os.path.dirname(os.path.abspath(__file__)))
props = [json.loads(l) for l in open(os.path.join(root, "properties.jsonl"))]
ideas = {}
for d in sorted(glob.glob(os.path.join(root, "seeded", "S*"))):
    m = json.load(open(os.path.join(d, "meta.json")))
    ideas.setdefault(m["property"], []).append(m["change"])
os.makedirs("/tmp/mut_prompts", exist_ok=True)
TEMPLATE = open(os.path.join(root, "tools", "mut_prompt.txt")).read()
for i, p in enumerate(props, 1):
    wt = "/tmp/mut_%s%d" % (pre, i)
    if not os.path.isdir(wt):
        subprocess.check_call(["git", "-C", "/repo", "worktree", "add", "--detach", "-q", wt, "HEAD"])
    text = TEMPLATE.replace("@WT@", wt).replace("@ID@", p["id"]).replace("@TITLE@", p["title"]).replace("@STATEMENT@", p["statement"]) \
        .replace("@QUANT@", p["quantifier"]["text"]).replace("@IDEAS@", "\n".join(" - " + c for c in ideas.get(p["id"], [])))
    open("/tmp/mut_prompts/%s%d.txt" % (pre, i), "w").write(text)
print("ok")
