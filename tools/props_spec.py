#!/usr/bin/env python3
"""Spec of the generated props files.  Run: python3 tools/props_spec.py [Cxx ...]"""
import os
import sys
sys.path.insert(0, os.path.dirname(os.path.abspath(__file__)))
from mkprops import gen, COQ

STD = "From Coq Require Import List NArith ZArith Bool Arith Lia.\nImport ListNotations.\n"

SPECS = {}

SPECS["C06"] = dict(
    title="a for-loop is equivalent to its textual unrolling",
    imports=STD + "From BB Require Import Syntax Values Eval LoopP.\nLocal Open Scope Z_scope.",
    items=[
        dict(name="loop_unroll", comment="the loop = its body written once per value, in order, with the variable replaced by the value converted to the loop type (equality of outcomes: success, refusal, unspecified)"),
        dict(name="loop_unroll_range"),
        dict(name="range_sem", comment="a:b:c denotes a, a+c, ... strictly below b"),
        dict(name="range_sem_neg"),
        dict(name="range_zero_refused"),
        dict(name="empty_range_nil", comment="an empty range contributes nothing"),
        dict(name="loop_empty_range"),
        dict(name="loop_empty"),
        dict(name="loopvar_scoped", comment="the loop variable is not visible after the loop; the environment is what it was"),
        dict(name="loop_env_unchanged"),
        dict(name="stmt_after_loop_ops", comment="statements after the loop are unaffected"),
        dict(name="loop_bad_value_refused", comment="a listed value that is not of the loop type is refused"),
        dict(name="cast_loop_mismatch"),
    ],
    examples="(* non-vacuity: concrete loops are evaluated in LoopP.Examples (loop_0_3, loop_0_3_by_theorem, loop_3_0_empty, loop_list_refused) *)\n"
             "Definition C06_examples := (Examples.loop_0_3, Examples.loop_0_3_by_theorem, Examples.loop_3_0_empty, Examples.loop_list_refused).\n")

SPECS["C03"] = dict(
    title="expressions evaluate to their arithmetic value under the grammar's precedence",
    imports=STD + "From BB Require Import Lexer Syntax Parser Values Eval ExprP EvalP.",
    items=[
        dict(name="pexpr_yield", comment="the expression parser reads a prefix that spells the tree it returns"),
        dict(name="pexpr_strat", comment="... the tree is stratified (sign 9 > ** 8 right-assoc > * / 7 > + - 6, left-assoc) and the parser stops only where it must"),
        dict(name="pexpr_complete", comment="... and every stratified tree is read back from its spelling"),
        dict(name="strat_unique", comment="hence the stratified reading of a token string is unique"),
        dict(name="pexpr_reads"),
    ])


SPECS["C03"]["items"] += [
    dict(name="eval_hom_eq", comment="the computed value denotes the ordinary arithmetic value of the written expression, in any structure K interpreting the operations (numpy's kind promotion never changes the arithmetic value)"),
    dict(name="eval_hom"),
    dict(name="int_closed_value", comment="+, -, * and ** (non-negative exponent) on integers stay integers, with the exact Z value"),
    dict(name="int_value"),
    dict(name="pow_neg_real"),
    dict(name="div_real", comment="true division: the result of / is never an integer, also by integer-valued sub-expressions"),
    dict(name="div_real_term"),
    dict(name="fn_real"),
    dict(name="idx_row_major", comment="A[k] is the k-th element in row-major order"),
    dict(name="idx_row_col"),
    dict(name="concat_nth_rc"),
]
SPECS["C03"]["examples"] = "(* non-vacuity: EvalP proves concrete evaluations (7/2, 2**3**2 = 512, (-2)**2 = 4, 2**-3 real, ...) and ExprP parses `- 2 ** 2`, `2 ** 3 ** 2`, `1 - 2 - 3`, `1 + 2 * 3` by vm_compute *)\n"

SPECS["C05"] = dict(
    title="variables have their declared type; arrays keep written layout and shape",
    imports=STD + "From BB Require Import Syntax Values Eval EvalP.",
    items=[
        dict(name="cast_scalar_kind", comment="a scalar variable holds a value of its declared type ..."),
        dict(name="cast_scalar_value", comment="... equal to the value of its initialiser"),
        dict(name="cast_scalar_complex_refused"),
        dict(name="cast_scalar_refuse_inv"),
        dict(name="cast_scalar_array_refused"),
        dict(name="array_layout", comment="an accepted array declaration binds a two-dimensional array with the declared element type whose rows are the written rows; a declared shape equals the actual one"),
        dict(name="array_layout_rc", comment="element (i, j) is the j-th entry of the i-th written row (row-major storage)"),
        dict(name="idx_row_col"),
        dict(name="idx_out_of_range"),
        dict(name="cast_elem_kind"),
        dict(name="cast_elem_value"),
        dict(name="cast_elem_refuses"),
    ])

SPECS["C11"] = dict(
    title="ill-formed but grammatical programs are refused, never silently accepted",
    imports=STD + "From BB Require Import Syntax Values Eval EvalP.",
    items=[
        dict(name="undefined_never_ok", comment="an expression mentioning an undefined name never evaluates to a value, whatever surrounds it (every operator is strict)"),
        dict(name="undefined_leftmost_refuse", comment="... and is refused as 'undefined' with the identifier and its line and column"),
        dict(name="refuse_undefined_sound"),
        dict(name="eval_args_undefined", comment="the same through positional, keyword and keyword-list arguments, modes, declarations, loop lists"),
        dict(name="exec_stmt_undefined"),
        dict(name="exec_scalar_undefined"),
        dict(name="array_undefined"),
        dict(name="for_list_undefined"),
        dict(name="cast_scalar_complex_refused", comment="a complex value assigned to an int or float variable is refused"),
        dict(name="cast_elem_refuses"),
        dict(name="cast_loop_refuses", comment="a listed loop value that is not of the loop type is refused"),
        dict(name="for_list_ok"),
    ])

SPECS["C02"] = dict(
    title="loading a script yields exactly the program the script denotes",
    imports=STD + "From BB Require Import Syntax Values Eval LoadP.",
    items=[
        dict(name="meta_as_written", comment="name, version, target and type are the ones written; options are the written option values (evaluated in the empty environment)"),
        dict(name="exec_stmt_plain", comment="one operation per executed statement, with the written gate name, the written modes in order as integers and the values of the written arguments"),
        dict(name="ops_append_only", comment="operations are only ever appended, in textual order"),
        dict(name="ops_in_order"),
        dict(name="modes_union", comment="the reported mode set is exactly the union of the modes used (no duplicates)"),
        dict(name="modes_union_incs"),
    ])

SPECS["C15"] = dict(
    title="TDM programs pass p-arrays by name and keep their data",
    imports=STD + "From BB Require Import Syntax Values Eval LoadP.",
    items=[
        dict(name="pname_by_name", comment="in a tdm program a declared p-array is registered under its name and its data stay available under that name"),
        dict(name="pname_eval", comment="a registered p-array used as an argument is delivered as its name"),
        dict(name="non_pname_by_value", comment="any other variable is passed by value"),
        dict(name="pname_only_tdm_ptype"),
        dict(name="pnames_not_params", comment="p-array names are never reported as free parameters"),
    ])


SPECS["C16"] = dict(
    title="the dependency graph is an order-respecting DAG of the operations",
    imports="From Coq Require Import List Arith Bool Lia Relations.\nImport ListNotations.\nFrom BB Require Import Graph GraphP.",
    items=[
        dict(name="nodes_char", comment="exactly one node per operation (that touches a wire)"),
        dict(name="nodes_NoDup"),
        dict(name="edges_char", comment="the executable edge construction (consecutive operations on each wire, mirroring to_DiGraph) is the relation Consec"),
        dict(name="edges_forward_exec", comment="every edge points from an earlier to a later operation; the graph is acyclic"),
        dict(name="acyclic_exec"),
        dict(name="reach_exec_iff_chain", comment="j is reachable from i exactly when a chain of operations from i to j successively share a wire (mode or measured register)"),
        dict(name="topo_keeps_wire_order_exec", comment="every topological order keeps the program's order on every wire"),
    ],
    examples="(* non-vacuity: GraphP computes edges/nodes of two concrete programs (ex1, ex2) by vm_compute *)\n")


SPECS["C10"] = dict(
    title="ungrammatical scripts always raise BlackbirdSyntaxError at the offending token",
    imports="From Coq Require Import List Arith Bool String Lia.\nImport ListNotations.\nFrom BB Require Import Ebnf Viable Chars Lexer G4Data EbnfP LexerP LrecP ViableP GrammarP.",
    items=[
        dict(name="recognise_correct_lr", comment="the oracle for 'is a sentence of the Blackbird grammar': for every token sequence the recogniser decides membership in the language of the grammar as written (left-recursive expression rule), on the grammar regenerated from blackbird.g4"),
        dict(name="pg_lr_equiv"),
        dict(name="viable_prefix_pg", comment="the oracle for 'the first token that makes the text ungrammatical': for every token sequence, the viable-prefix decision is exact"),
        dict(name="pg_prod"),
        dict(name="lex_spec", comment="positions (line, column) of tokens come from the lexer, which is the unique maximal-munch tokenisation"),
    ],
    examples="(* non-vacuity: GrammarP.prod_check_ok exhibits a derivable word for each of the 35 rules; ViableP has worked examples *)\n")


SPECS["C04"] = dict(
    title="instantiating a template equals substituting values into its text",
    imports=STD + "From BB Require Import Syntax Values Eval LoadP.",
    items=[
        dict(name="subst_term_den", comment="instantiation is substitution: the value of an instantiated argument is the value of the symbolic argument under the assignment, in any arithmetic structure"),
        dict(name="inst_value_rel", comment="... applied to every symbolic argument, also inside keyword lists and arrays; everything else is unchanged"),
        dict(name="inst_ops_rel"),
        dict(name="inst_vars_rel"),
        dict(name="inst_value_rel_num", comment="with numeric values (no parameter inside the values) the result is a number: the relational theorems at VFlt strength"),
        dict(name="inst_ops_rel_num"),
        dict(name="inst_vars_rel_num"),
        dict(name="pars_invariant", comment="the reported free parameters cover every parameter occurring in operations and variables"),
        dict(name="pars_monotone"),
        dict(name="inst_closed", comment="an instantiated program has no free parameter left"),
        dict(name="inst_denoted_pars_free"),
        dict(name="inst_missing_refused", comment="a missing value is refused"),
        dict(name="inst_not_template", comment="only templates can be instantiated"),
    ],
    examples="(* non-vacuity: LoadP.ex_template_fresh and LoadP.ex_nested_instantiated evaluate concrete templates *)\n")

SPECS["C07"] = dict(
    title="calling an included program equals inlining it with renamed modes",
    imports=STD + "From Coq Require Import Permutation Sorted.\nFrom BB Require Import Syntax Values Eval LoadP.",
    items=[
        dict(name="expand_is_rename", comment="a call appends the included program's operations, in order, with its modes (taken in increasing order) renamed to the modes listed at the call"),
        dict(name="expand_include_inv", comment="... with its parameters bound to the call's keyword arguments (templates)"),
        dict(name="subst_term_compose", comment="NESTED includes: binding an inner template's parameters to symbolic values of the caller and then binding the caller's parameters equals binding the inner parameters to the bound values (simultaneous substitution, not sequential)"),
        dict(name="inst_value_compose"),
        dict(name="sortZ_sorted"),
        dict(name="sortZ_perm"),
        dict(name="expand_modes", comment="the renamed operations use exactly the call's modes"),
        dict(name="expand_independent_of_history", comment="every call of a subroutine yields the same operations: the expansion is a function of the included program and the call only"),
        dict(name="exec_stmt_history_independent"),
        dict(name="expand_arity_refused", comment="wrong number of modes and wrong keyword arguments are refused"),
        dict(name="expand_kw_refused_noparams"),
        dict(name="expand_kw_refused_names"),
        dict(name="expand_missing_refused"),
        dict(name="modes_union_incs"),
    ],
    examples="(* non-vacuity: LoadP.ex_include evaluates two calls of an included program with modes renamed in increasing order;\n   LoadP.ex_symbolic_include: an include called with a symbolic value stays symbolic *)\n")


SPECS["C08"] = dict(
    title="measured-register arguments become transforms computing the written formula",
    imports=STD + "From Coq Require Import Permutation.\nFrom BB Require Import Syntax Values Eval EvalP TransformP.",
    items=[
        dict(name="c08_argument", comment="an argument mentioning registers is delivered as a transform over exactly the written registers; for ANY duplicate-free listing of those registers, the function applied to the measurement values in the listed order is the arithmetic value of the written expression"),
        dict(name="c08_plain_argument", comment="arguments without registers stay plain values"),
        dict(name="transform_pairing"),
        dict(name="transform_order_irrelevant", comment="the listing order (a set iteration order in the implementation) is irrelevant as long as values are passed in the listed order"),
        dict(name="transform_pairs_order_irrelevant"),
        dict(name="eval_regs", comment="the registers of the delivered value are exactly the registers written"),
        dict(name="eval_regs_complete"),
        dict(name="wrap_transform_spec"),
        dict(name="exec_stmt_args", comment="positional and keyword arguments alike"),
    ],
    examples="(* non-vacuity: TransformP.Examples evaluates q0*2+q1, wraps it, and applies it in both listing orders (17 = 17) *)\n")


SPECS["C19"] = dict(
    title="loading and serialising are deterministic across runs and hash seeds",
    imports=STD + "From Coq Require Import Permutation String.\nFrom BB Require Import Syntax Values Eval EvalP TransformP Facts FactsP.",
    items=[
        dict(name="set_sites_ok", comment="the order-sensitive uses of Python sets in the sources are exactly the five accounted for below (regenerated from the sources on every run)"),
        dict(name="transform_order_irrelevant", comment="site 1 (registers of a transform): any listing order gives the same function when values are passed in the listed order - the documented freedom"),
        dict(name="transform_pairs_order_irrelevant"),
        dict(name="expand_include_modes_order", comment="the mode set of an included program: the expansion does not depend on the order in which the set is enumerated (modes are sorted)"),
        dict(name="sortZ_perm_eq"),
    ],
    preamble="(* The model itself has no iteration-order freedom: sets are lists in definition order and every function is deterministic;\n"
             "   what has to be shown is that the places where the implementation iterates a Python set cannot influence the result. *)")

SPECS["C03"]["items"].append(dict(name="func_table_ok", comment="the fifteen named functions are dispatched to the numpy functions of the same name (table regenerated from auxiliary.py)"))
SPECS["C03"]["imports"] += "\nFrom Coq Require Import String.\nFrom BB Require Import Facts FactsP."
SPECS["C10"]["items"].append(dict(name="raise_sites_total", comment="every path through the error listener raises BlackbirdSyntaxError(\"Blackbird SyntaxError (line {}:{})...\".format(line, column + 1, ...)) and it cannot fall through (facts regenerated from error.py)"))
SPECS["C10"]["imports"] += "\nFrom BB Require Import Facts FactsP."


SPECS["C18"] = dict(
    title="comments, blank lines, spacing and line-ending style do not change the program",
    imports=STD + "From BB Require Import Ebnf Chars Lexer Syntax Parser Values Eval Loader G4Data EbnfP LexerP LayoutP SpaceP.",
    items=[
        dict(name="comment_step", comment="a '#' at a token start swallows the rest of the line as ONE skipped token, whatever the line contains (so comments contribute no token)"),
        dict(name="comment_token_skipped"),
        dict(name="newline_step_LF", comment="LF, CR and CRLF each lex to exactly one NEWLINE token"),
        dict(name="newline_step_CR"),
        dict(name="newline_step_CRLF"),
        dict(name="parser_layout_blind", comment="the parser never looks at the text of NEWLINE/TAB tokens nor at positions: token streams that differ only there (LF/CRLF/CR, tab/four spaces, any shift of lines and columns) parse to the same tree up to positions"),
        dict(name="denote_position_blind", comment="positions influence nothing but the position reported in an error"),
        dict(name="tokens_layout_blind"),
        dict(name="pprogram_skips_newline", comment="blank lines between statements and before the metadata are skipped"),
        dict(name="pscript_leading_newlines"),
        dict(name="rules_avoid_LF", comment="no token other than NEWLINE (and ANY) spans a line end; only STR/COMMENT/ANY contain '#'; only STR/COMMENT/SPACE/TAB/ANY contain a space"),
        dict(name="rules_avoid_CR"),
        dict(name="rules_avoid_hash"),
        dict(name="rules_avoid_space"),
        dict(name="avoids_sound"),
        dict(name="space_step", comment="a maximal run of blanks that is not exactly one tab / exactly four spaces is ONE skipped SPACE token; exactly one tab or four spaces is ONE TAB token"),
        dict(name="tab_step"),
        dict(name="M_local", comment="matching is local: a derivation depends only on the characters of the segment it covers"),
        dict(name="blank_run_irrelevant", comment="SPACING: a run of blanks that is a token of its own (not inside a string or comment) can be replaced by any other run of blanks that does not spell a TAB; the visible token stream (rule, text) is unchanged"),
        dict(name="space_run_irrelevant", comment="... in particular 1-3 spaces by 1-3 spaces"),
        dict(name="lex_tokens_space_run_irrelevant", comment="... stated for the executable lexer: whenever it answers on both texts, kinds and texts of the tokens agree"),
        dict(name="final_newline_irrelevant", comment="FINAL NEWLINE: loading a text with or without the final line end gives the same outcome"),
        dict(name="loads_final_newline"),
        dict(name="load_final_newline"),
    ],
    examples="(* documented facts proved by computation in LayoutP: tab_equiv_tab / tab_equiv_four_spaces (one TAB token each), spaces_1..3 (skipped),\n"
             "   spaces_8 and tab_tab (eight spaces or two tabs are ONE skipped SPACE token: the equivalence holds for a single indentation unit),\n"
             "   visible_tokens; SpaceP: respace_example (\"a  b\" vs \"a b\"), respace_example_tab, respace_in_string (inside a string the hypothesis AND the\n"
             "   conclusion fail). Not stated: inserting a blank run where there was none (false in general: tokens merge). *)\n")


SPECS["C12"] = dict(
    title="each load is independent of every earlier load in the process",
    imports=STD + "From Coq Require Import String.\nFrom BB Require Import Syntax Values Eval Tables TablesP Facts FactsP.",
    items=[
        dict(name="load_history_independent", comment="for every history of earlier loads (successful or failed, whatever residue a failure leaves in the process-wide tables) the outcome of a load is its outcome in a pristine process"),
        dict(name="load_state_independent"),
        dict(name="load_step_denote", comment="... namely the denotation of the script"),
        dict(name="load_ok_clears"),
        dict(name="history_independence_refuted", comment="the algorithm WITHOUT the clearing at the start of parse is refuted: a failed load that bound n makes `target dev (shots=n)` load"),
        dict(name="clear_sites_ok", comment="the clearing sites of the sources are the ones the model assumes (regenerated from listener.py on every run)"),
    ],
    examples="(* witnesses: TablesP.witness_old_accepts / witness_new_refuses *)\n")


SPECS["C13"] = dict(
    title="read-only operations leave programs unchanged; instances are independent",
    imports="From Coq Require Import List Arith Bool Lia String.\nImport ListNotations.\nFrom BB Require Import Heap HeapP Facts FactsP.",
    items=[
        dict(name="footprints_confined", comment="every store write of serialize, __call__, to_DiGraph, match_template and the attribute getters targets an object constructed or deep-copied inside the function (footprints regenerated from the Python sources on every run)"),
        dict(name="frame_call", comment="a call that writes only to objects it allocated leaves every pre-existing object untouched"),
        dict(name="readonly_frame", comment="... for any sequence of such calls interleaved with arbitrary client writes to objects allocated later (mutations of returned objects)"),
        dict(name="program_unchanged", comment="hence the program (everything reachable from it) is observably unchanged"),
        dict(name="instances_separated", comment="instances obtained by deep copy are separated from the template and from each other"),
        dict(name="all_instances_separated"),
        dict(name="modify_inst1_alters_nothing_else", comment="modifying one never alters another"),
        dict(name="modify_inst2_alters_nothing_else"),
        dict(name="instances_template_unchanged"),
    ],
    examples="(* non-vacuity: HeapP.heap3 / call1 / session1 / deepcopy_example are concrete heaps, calls and a satisfiable DeepCopy contract *)\n")


SPECS["C17"] = dict(
    title="template matching inverts instantiation, independent of commuting order",
    imports="From Coq Require Import List Arith Bool Lia Relations Permutation QArith.\nClose Scope Q_scope.\nImport ListNotations.\nFrom BB Require Import Graph GraphP MatchP.",
    items=[
        dict(name="match_template_reordered", comment="for a template with affine single-parameter arguments (non-zero coefficients) and ANY reordering of its instantiation that preserves the order on every mode: whatever label-preserving graph homomorphism is used, the collected bindings are the instantiation values, consistent, and re-instantiating reproduces the program's arguments"),
        dict(name="iso_unique", comment="the isomorphism is unique: any label- and edge-preserving map between the dependency graphs of a program and its reordering is the reordering itself (so networkx may return any isomorphism)"),
        dict(name="reorder_consec", comment="a per-mode-order-preserving reordering is a graph isomorphism"),
        dict(name="match_inverts_inst", comment="solving the affine arguments recovers the values"),
        dict(name="solve_inverts"),
        dict(name="label_change_rejected", comment="a different gate or mode list, or a different order on a shared mode, admits no isomorphism"),
        dict(name="order_change_rejected"),
    ],
    examples="(* non-vacuity: MatchP has worked examples (ex_A1, ex_order_rejected, ex_match_values). Version/target mismatches are plain equality tests before any graph is built (not modelled); the floating-point tolerance of the consistency check is not modelled. *)\n")

SPECS["C01"] = dict(
    title="serialise-then-parse round trip preserves every parsed program",
    imports=STD + "From BB Require Import Lexer Syntax Parser Values Eval EvalP Serialize SerializeP.",
    items=[
        dict(name="ser_roundtrip", comment="AST level: the script the serialiser writes denotes a program equivalent to the one serialised (same name, version, target, type, operations with equal gate names and modes, argument values equal exactly or - reals/complex/symbolic - equal in every arithmetic structure satisfying four elementary laws)"),
        dict(name="ser_denote"),
        dict(name="ser_script_total", comment="the serialiser is defined on every well-formed program"),
        dict(name="ser_generations_total", comment="and the same holds for every later generation"),
        dict(name="ser_generations"),
        dict(name="term_expr_eval", comment="a printed term evaluates back to (the normal form of) the term with its kind"),
        dict(name="parse_z_digits"),
        dict(name="parse_dec_text"),
    ],
    examples="(* non-vacuity: SerializeP.ex_wf, ex_serialised, ex_loaded. The token level (printing the script and parsing it back) is UnparseP. *)\n")
SPECS["C09"] = dict(
    title="programs assembled through the API serialise to valid, equivalent scripts",
    imports=SPECS["C01"]["imports"],
    items=[
        dict(name="ser_roundtrip", comment="for every well-formed program value (however it was assembled): the serialised script is accepted and denotes an equivalent program"),
        dict(name="ser_script_total"),
        dict(name="reload_equiv", comment="arrays: the hoisted declarations A<k> carry the declared shape and every element"),
        dict(name="ser_denote"),
    ],
    examples=SPECS["C01"]["examples"])


# ---- later additions
SPECS["C02"]["imports"] += "\nFrom BB Require Import Lexer Parser Ebnf G4Data Listener ListenerP ParserP."
SPECS["C02"]["items"] += [
    dict(name="run_refines", comment="the event-driven listener (walker events, handlers, the _in_for flag, replay of loop bodies in exitForloop) computes exactly the compositional denotation"),
    dict(name="handle_item_refines"),
    dict(name="in_for_invariant"),
    dict(name="skip_is_needed", comment="... and the flag is necessary: without it loop bodies are executed twice"),
    dict(name="pscript_sound_lr", comment="the model parser only accepts sentences of the grammar as written (regenerated from blackbird.g4)"),
]
SPECS["C10"]["imports"] += "\nFrom BB Require Import Syntax Parser ParserP."
SPECS["C10"]["items"].append(dict(name="pscript_sound_lr", comment="whatever the model parser accepts is a sentence of the grammar as written"))
SPECS["C02"]["imports"] += "\nFrom BB Require Import CompleteP."
SPECS["C02"]["items"] += [
    dict(name="pscript_iff", comment="... and ALL of them (CompleteP): the model parser accepts exactly the sentences of blackbird.g4"),
    dict(name="pscript_complete_ev", comment="acceptance holds for every large enough fuel"),
]
SPECS["C10"]["imports"] += "\nFrom BB Require Import CompleteP."
SPECS["C10"]["items"] += [
    dict(name="pscript_iff", comment="and it accepts every sentence: a token sequence is refused by the model parser iff the grammar does not derive it"),
    dict(name="recognise_parses", comment="the executable recogniser and the parser agree on acceptance"),
]
SPECS["C01"]["imports"] += "\nFrom BB Require Import Unparse ExprP UnparseP RoundtripP."
SPECS["C01"]["items"] = [
    dict(name="token_roundtrip_total", comment="TOKEN level, every well-formed program whose strings are quote-free and whose operations have modes: the serialiser is defined, the tokens of the serialised script parse back to that script, and loading it gives an equivalent program"),
    dict(name="token_roundtrip"),
    dict(name="ser_script_wf", comment="everything the serialiser writes is a well-formed script; every expression it writes is a stratified tree (fully bracketed)"),
    dict(name="term_expr_WF"),
    dict(name="unparse_parse_exact", comment="printing any well-formed script to tokens and parsing gives the script back (up to positions)"),
] + SPECS["C01"]["items"]
SPECS["C09"]["imports"] = SPECS["C01"]["imports"]
SPECS["C09"]["items"] = [dict(name="token_roundtrip_total", comment="for every well-formed program VALUE (however assembled): the serialised tokens are accepted and denote an equivalent program"),
                         dict(name="ser_script_wf")] + SPECS["C09"]["items"]


SPECS["C01"]["imports"] += "\nFrom BB Require Import Ebnf Chars G4Data Loader LayoutP Render RenderP."
SPECS["C01"]["items"] = [
    dict(name="ser_text_roundtrip", comment="TEXT level: the characters obtained by rendering the serialised script (one space after every token, none after NEWLINE and TAB) are read back by the model's maximal-munch lexer and its parser as that very script (fuel exhaustion, i.e. Unspec, excluded by the hypothesis)"),
    dict(name="ser_lex_ok", comment="the names, numbers and strings the serialiser writes are lexically safe whenever the program's own names are (names_ok: identifiers that are not reserved words, register-shaped or Measure-shaped)"),
    dict(name="text_roundtrip", comment="for ANY well-formed script whose tokens are lexically safe: render, lex, parse gives the script back (positions erased)"),
    dict(name="render_lex", comment="the lexer level on its own: a list of tokens each of which lexes alone is read back from its rendering, token by token"),
    dict(name="lex_ok_tok_sound", comment="the boolean criterion for a token text to lex alone is sound (INT, FLOAT, COMPLEX, STR, REGREF, MEASURE, NAME shapes; literals checked by running the lexer)"),
] + SPECS["C01"]["items"]
SPECS["C09"]["imports"] = SPECS["C01"]["imports"]
SPECS["C09"]["items"] = [dict(name="ser_text_roundtrip", comment="TEXT level, for every well-formed program VALUE with lexically safe names: the rendered serialisation is read back as the serialised script")] + SPECS["C09"]["items"]


SPECS["C01"]["imports"] += "\nFrom BB Require Import RenderLoadP."
SPECS["C01"]["items"] = [
    dict(name="ser_text_loads", comment="TEXT level, end to end: the characters the model serialiser writes, loaded by the model's own loads (final-newline rule, lexer, parser, include resolution, evaluator), give the program back (its normal form `reload p`, equivalent to p by reload_equiv) whenever loads answers"),
] + SPECS["C01"]["items"]
SPECS["C09"]["imports"] = SPECS["C01"]["imports"]
SPECS["C09"]["items"] = [dict(name="ser_text_loads", comment="TEXT level, end to end, for every well-formed program VALUE with lexically safe names")] + SPECS["C09"]["items"]
SPECS["C10"]["imports"] += "\nFrom BB Require Import Loader LexTotalP."
SPECS["C10"]["items"] += [
    dict(name="lex_total", comment="the model's lexer answers on EVERY character string with the fuels the front end uses (no text is left undecided for lack of fuel)"),
    dict(name="front_not_unspec", comment="hence the front end never answers Unspec: every text is either read as a script or refused as a syntax error"),
]


SPECS["C10"]["imports"] += "\nFrom BB Require Import ParseFuelP."
SPECS["C10"]["items"] += [
    dict(name="pscript_fuel", comment="the parser fuel of the front end suffices for every sentence (the sharper bound length ts <= f + 2 is pscript_fuel_min; fuel_tight_example shows the slope cannot be lowered)"),
    dict(name="front_total_decides", comment="THE SYNTAX STAGE DECIDES THE GRAMMAR: for every character string the front end (lexer + parser with their own fuels) answers, and it answers Refuse ESyntax exactly when the token sequence is not a sentence of the grammar as written, Ok exactly when it is"),
]


def main():
    which = sys.argv[1:] or sorted(SPECS)
    for p in which:
        s = SPECS[p]
        text = gen(p, s["title"], s["imports"], s["items"], s.get("preamble", ""), s.get("examples", ""))
        open(os.path.join(COQ, "props", "%s.v" % p), "w").write(text)
        print("wrote props/%s.v" % p)


if __name__ == "__main__":
    main()
