#!/usr/bin/env python3
"""Spec of the generated props files.  Run: python3 tools/props_spec.py [Cxx ...]"""
import os
import sys
sys.path.insert(0, os.path.dirname(os.path.abspath(__file__)))
from mkprops import gen, COQ

STD = "From Coq Require Import List NArith ZArith Bool Arith Lia.\nImport ListNotations.\n"

SPECS = {}

SPECS["C06"] = dict(
    title="a for-loop is equivalent to its textual unrolling",
    imports=STD + "From BB Require Import Syntax Values Eval LoopP.\nLocal Open Scope Z_scope.",
    items=[
        dict(file="proofs/LoopP.v", name="loop_unroll", comment="the loop = its body written once per value, in order, with the variable replaced by the value converted to the loop type (equality of outcomes: success, refusal, unspecified)"),
        dict(file="proofs/LoopP.v", name="loop_unroll_range"),
        dict(file="proofs/LoopP.v", name="range_sem", comment="a:b:c denotes a, a+c, ... strictly below b"),
        dict(file="proofs/LoopP.v", name="range_sem_neg"),
        dict(file="proofs/LoopP.v", name="range_zero_refused"),
        dict(file="proofs/LoopP.v", name="empty_range_nil", comment="an empty range contributes nothing"),
        dict(file="proofs/LoopP.v", name="loop_empty_range"),
        dict(file="proofs/LoopP.v", name="loop_empty"),
        dict(file="proofs/LoopP.v", name="loopvar_scoped", comment="the loop variable is not visible after the loop; the environment is what it was"),
        dict(file="proofs/LoopP.v", name="loop_env_unchanged"),
        dict(file="proofs/LoopP.v", name="stmt_after_loop_ops", comment="statements after the loop are unaffected"),
        dict(file="proofs/LoopP.v", name="loop_bad_value_refused", comment="a listed value that is not of the loop type is refused"),
        dict(file="proofs/LoopP.v", name="cast_loop_mismatch"),
    ],
    examples="(* non-vacuity: concrete loops are evaluated in LoopP.Examples (loop_0_3, loop_0_3_by_theorem, loop_3_0_empty, loop_list_refused) *)\n"
             "Definition C06_examples := (Examples.loop_0_3, Examples.loop_0_3_by_theorem, Examples.loop_3_0_empty, Examples.loop_list_refused).\n")

SPECS["C03"] = dict(
    title="expressions evaluate to their arithmetic value under the grammar's precedence",
    imports=STD + "From BB Require Import Lexer Syntax Parser Values Eval ExprP EvalP.",
    items=[
        dict(file="proofs/ExprP.v", name="pexpr_yield", comment="the expression parser reads a prefix that spells the tree it returns"),
        dict(file="proofs/ExprP.v", name="pexpr_strat", comment="... the tree is stratified (sign 9 > ** 8 right-assoc > * / 7 > + - 6, left-assoc) and the parser stops only where it must"),
        dict(file="proofs/ExprP.v", name="pexpr_complete", comment="... and every stratified tree is read back from its spelling"),
        dict(file="proofs/ExprP.v", name="strat_unique", comment="hence the stratified reading of a token string is unique"),
        dict(file="proofs/ExprP.v", name="pexpr_reads"),
    ])


def main():
    which = sys.argv[1:] or sorted(SPECS)
    for p in which:
        s = SPECS[p]
        text = gen(p, s["title"], s["imports"], s["items"], s.get("preamble", ""), s.get("examples", ""))
        open(os.path.join(COQ, "props", "%s.v" % p), "w").write(text)
        print("wrote props/%s.v" % p)


if __name__ == "__main__":
    main()
