#!/usr/bin/env python3
"""Rewrite DESIGN.md section 11 (seeded changes) from seeded/*/meta.json."""
import glob
import json
import os
import re

root = os.path.dirname(os.path.dirname(os.path.abspath(__file__)))
rows = []
for d in sorted(glob.glob(os.path.join(root, "seeded", "S*"))):
    m = json.load(open(os.path.join(d, "meta.json")))
    esc = lambda s: str(s).replace("|", "/").replace("\n", " ")
    det = m.get("detected_by", [])
    if isinstance(det, str):
        det = [det]
    extra = (" — " + esc(m["applies_to"])) if m.get("applies_to") else ""
    rows.append("| %s | %s | %s | %s | %s%s |" % (os.path.basename(d), m["property"], esc(m["change"]), esc(m["needs_to_manifest"]), esc("; ".join(det)), extra))
head = """## 11. Seeded changes and which checks catch them

Every change was written by a fresh sub-agent that saw only the property text and a scratch worktree, and was kept only after
`tools/verify_mutant.sh` confirmed in a fresh worktree that the demonstration passes on the original tree, fails with the patch, and
that the 467 baseline tests still pass. `tools/eval_mutant.py` applies a patch to /repo, runs the checks and undoes it. The table is
generated from `seeded/*/meta.json` by `tools/gen_seeded_table.py`; "missed ... at first" entries name the strengthening that followed
(every such change is detected by the named check now).

| id | prop | change | needs | caught by |
|---|---|---|---|---|
"""
p = os.path.join(root, "DESIGN.md")
s = open(p).read()
i = s.index("## 11. Seeded changes")
open(p, "w").write(s[:i] + head + "\n".join(rows) + "\n")
print(len(rows), "rows")
