#!/bin/bash
# verify_mutant.sh <dir with patch.diff and demo.py> : confirm in a FRESH scratch worktree that
#  (1) demo passes on the original tree, (2) fails with the patch, (3) the baseline suite is unchanged with the patch.
set -u
src=$1
wt=$(mktemp -d /tmp/vm.XXXXXX); rmdir $wt
git -C /repo worktree add -q --detach $wt HEAD || exit 2
cp $src/demo.py $wt/demo.py
cd $wt
PYTHONPATH=$wt/blackbird_python PYTHONHASHSEED=0 timeout 300 /venv/bin/python demo.py >/dev/null 2>&1; a=$?
git apply $src/patch.diff || { echo "patch does not apply"; cd /; git -C /repo worktree remove --force $wt; exit 2; }
PYTHONPATH=$wt/blackbird_python PYTHONHASHSEED=0 timeout 300 /venv/bin/python demo.py >/dev/null 2>&1; b=$?
PYTHONPATH=$wt/blackbird_python /venv/bin/python -m pytest -q -p no:cacheprovider --timeout=900 --junitxml=$wt/junit.xml blackbird_python >/dev/null 2>&1
c=$(/venv/bin/python - <<P
import json, xml.etree.ElementTree as ET
b=json.load(open('/root/.vp/BASELINE.json')); want=set(b['stable_pass'])
ok=set()
for tc in ET.parse('$wt/junit.xml').iter('testcase'):
    if not any(ch.tag in('failure','error','skipped') for ch in tc): ok.add(tc.get('classname')+'::'+tc.get('name'))
print(len(want-ok))
P
)
cd /; git -C /repo worktree remove --force $wt
echo "demo_on_original=$a demo_on_patched=$b baseline_tests_newly_failing=$c"
[ "$a" = "0" ] && [ "$b" != "0" ] && [ "$c" = "0" ] && echo CONFIRMED || echo REJECTED
