#!/usr/bin/env python3
"""Apply a seeded change to /repo, run the given checks (quick tier), undo the change.  Usage:
   tools/eval_mutant.py <patch.diff> [Cxx ...]    (default: all claimed checks)"""
import json
import os
import subprocess
import sys
import time

patch = sys.argv[1]
props = sys.argv[2:]
if not props:
    props = [c["property_id"] for c in json.load(open("/verif/MANIFEST.json"))["checks"]]
st = subprocess.run(["git", "-C", "/repo", "status", "--short"], capture_output=True, text=True).stdout.strip()
if st:
    sys.exit("refusing: /repo is not clean:\n" + st)
r = subprocess.run(["git", "-C", "/repo", "apply", patch], capture_output=True, text=True)
if r.returncode != 0:
    sys.exit("patch does not apply: " + r.stderr)
res = {}
try:
    for p in props:
        t = time.time()
        env = dict(os.environ, BB_EVIDENCE_DIR="/var/tmp/bbverif.mutant-evidence")      # never overwrite the committed evidence
        r = subprocess.run(["./check", p, "--tier", "quick"], cwd="/verif", capture_output=True, text=True, env=env)
        lines = [l for l in r.stdout.splitlines() if l.startswith("VIOLATION")]
        res[p] = (r.returncode, len(lines), (lines[0][-60:] if lines else ""), round(time.time() - t))
        what = ""
        if lines:
            rp = lines[0].split("replay=")[1].split()[0]
            try:
                d = json.load(open(rp))
                what = (d.get("what") or "; ".join(d.get("no_longer_checks", [])))[:160]
            except Exception:
                pass
        print("%s exit=%d violations=%d %ss %s" % (p, r.returncode, len(lines), res[p][3], what), flush=True)
finally:
    subprocess.run(["git", "-C", "/repo", "checkout", "--", "."])
    subprocess.run(["git", "-C", "/repo", "clean", "-fdq"])
print("DETECTED BY:", [p for p, v in res.items() if v[0] != 0])
