(* Line-oriented driver around the extracted model (Bbmodel).  Hand-written, part of the trusted base.
   Request:  CMD <tab> arg ...   where an arg is a comma-separated list of decimal integers (code points or
   token types).  Reply: one line (plain text or JSON).  Integers of the model (Z) are printed in binary
   ("-b101") so that no bignum library is needed. *)
open Bbmodel

let rec nat_of_int n = if n <= 0 then O else S (nat_of_int (n - 1))
let rec int_of_nat = function O -> 0 | S n -> 1 + int_of_nat n
let rec pos_of_int n = if n = 1 then XH else if n land 1 = 0 then XO (pos_of_int (n lsr 1)) else XI (pos_of_int (n lsr 1))
let n_of_int n = if n = 0 then N0 else Npos (pos_of_int n)
let rec int_of_pos = function XH -> 1 | XO p -> 2 * int_of_pos p | XI p -> 2 * int_of_pos p + 1
let int_of_n = function N0 -> 0 | Npos p -> int_of_pos p

let ints s = if s = "" then [] else List.map int_of_string (String.split_on_char ',' s)
let cps s = List.map n_of_int (ints s)

(* ---- printing ---- *)
let rec bits_of_pos p acc = match p with XH -> "1" ^ acc | XO q -> bits_of_pos q ("0" ^ acc) | XI q -> bits_of_pos q ("1" ^ acc)
let z_str = function Z0 -> "\"b0\"" | Zpos p -> "\"b" ^ bits_of_pos p "" ^ "\"" | Zneg p -> "\"-b" ^ bits_of_pos p "" ^ "\""

let json_str (s : n list) =
  let b = Buffer.create 16 in
  Buffer.add_char b '"';
  List.iter (fun c ->
    let c = int_of_n c in
    if c = 34 then Buffer.add_string b "\\\""
    else if c = 92 then Buffer.add_string b "\\\\"
    else if c >= 32 && c < 127 then Buffer.add_char b (Char.chr c)
    else if c < 0x10000 then Buffer.add_string b (Printf.sprintf "\\u%04x" c)
    else begin
      let c' = c - 0x10000 in
      Buffer.add_string b (Printf.sprintf "\\u%04x\\u%04x" (0xD800 + (c' lsr 10)) (0xDC00 + (c' land 0x3FF)))
    end) s;
  Buffer.add_char b '"';
  Buffer.contents b

let fn_name = function
  | FExp -> "exp" | FLog -> "log" | FSin -> "sin" | FCos -> "cos" | FTan -> "tan" | FArcsin -> "arcsin"
  | FArccos -> "arccos" | FArctan -> "arctan" | FSinh -> "sinh" | FCosh -> "cosh" | FTanh -> "tanh"
  | FArcsinh -> "arcsinh" | FArccosh -> "arccosh" | FArctanh -> "arctanh" | FSqrt -> "sqrt"

let rec term_js = function
  | TDec (m, e) -> "[\"dec\"," ^ z_str m ^ "," ^ z_str e ^ "]"
  | TPi -> "[\"pi\"]" | TI -> "[\"i\"]"
  | TPar s -> "[\"par\"," ^ json_str s ^ "]"
  | TReg s -> "[\"reg\"," ^ json_str s ^ "]"
  | TAdd (a, b) -> "[\"add\"," ^ term_js a ^ "," ^ term_js b ^ "]"
  | TMul (a, b) -> "[\"mul\"," ^ term_js a ^ "," ^ term_js b ^ "]"
  | TPow (a, b) -> "[\"pow\"," ^ term_js a ^ "," ^ term_js b ^ "]"
  | TNeg a -> "[\"neg\"," ^ term_js a ^ "]"
  | TInv a -> "[\"inv\"," ^ term_js a ^ "]"
  | TFn (f, a) -> "[\"fn\",\"" ^ fn_name f ^ "\"," ^ term_js a ^ "]"

let vtype_name = function
  | VTArray -> "array" | VTFloat -> "float" | VTComplex -> "complex" | VTInt -> "int" | VTStr -> "str" | VTBool -> "bool"

let rec value_js = function
  | VInt z -> "{\"k\":\"int\",\"v\":" ^ z_str z ^ "}"
  | VFlt t -> "{\"k\":\"float\",\"t\":" ^ term_js t ^ "}"
  | VCpx t -> "{\"k\":\"complex\",\"t\":" ^ term_js t ^ "}"
  | VSym t -> "{\"k\":\"sym\",\"t\":" ^ term_js t ^ "}"
  | VTrf t -> "{\"k\":\"trf\",\"t\":" ^ term_js t ^ "}"
  | VBool b -> "{\"k\":\"bool\",\"v\":" ^ (if b then "true" else "false") ^ "}"
  | VStr s -> "{\"k\":\"str\",\"v\":" ^ json_str s ^ "}"
  | VArr (k, r, c, es) ->
      Printf.sprintf "{\"k\":\"arr\",\"ty\":\"%s\",\"r\":%d,\"c\":%d,\"e\":[%s]}" (vtype_name k) (int_of_nat r) (int_of_nat c)
        (String.concat "," (List.map value_js es))
  | VPName s -> "{\"k\":\"pname\",\"v\":" ^ json_str s ^ "}"
  | VList es -> "{\"k\":\"list\",\"e\":[" ^ String.concat "," (List.map value_js es) ^ "]}"

let kv_js l = "[" ^ String.concat "," (List.map (fun (k, v) -> "[" ^ json_str k ^ "," ^ value_js v ^ "]") l) ^ "]"
let opt_str = function None -> "null" | Some s -> json_str s

let op_js o =
  let a = match o.oargs with
    | None -> "null"
    | Some (ps, kws) -> "{\"pos\":[" ^ String.concat "," (List.map value_js ps) ^ "],\"kw\":" ^ kv_js kws ^ "}" in
  "{\"op\":" ^ json_str o.oname ^ ",\"args\":" ^ a ^ ",\"modes\":[" ^ String.concat "," (List.map z_str o.omodes) ^ "]}"

let prog_js p =
  "{\"name\":" ^ json_str p.p_name ^ ",\"version\":" ^ json_str p.p_version ^
  ",\"target\":" ^ opt_str p.p_target ^ ",\"target_opts\":" ^ kv_js p.p_target_opts ^
  ",\"type\":" ^ opt_str p.p_type ^ ",\"type_opts\":" ^ kv_js p.p_type_opts ^
  ",\"ops\":[" ^ String.concat "," (List.map op_js p.p_ops) ^ "]" ^
  ",\"modes\":[" ^ String.concat "," (List.map z_str p.p_modes) ^ "]" ^
  ",\"params\":[" ^ String.concat "," (List.map json_str p.p_params) ^ "]" ^
  ",\"vars\":" ^ kv_js p.p_vars ^ "}"

let err_js = function
  | EUndefined (s, l, c) -> Printf.sprintf "{\"cls\":\"undefined\",\"name\":%s,\"line\":%d,\"col\":%d}" (json_str s) (int_of_nat l) (int_of_nat c)
  | EReservedReg (s, l, c) -> Printf.sprintf "{\"cls\":\"reserved_reg\",\"name\":%s,\"line\":%d,\"col\":%d}" (json_str s) (int_of_nat l) (int_of_nat c)
  | EReservedKw (s, l, c) -> Printf.sprintf "{\"cls\":\"reserved_kw\",\"name\":%s,\"line\":%d,\"col\":%d}" (json_str s) (int_of_nat l) (int_of_nat c)
  | EMode -> "{\"cls\":\"mode\"}" | ECast -> "{\"cls\":\"cast\"}" | ELoopValue -> "{\"cls\":\"loop_value\"}"
  | ERange -> "{\"cls\":\"range\"}" | EIndex -> "{\"cls\":\"index\"}" | EArrayType -> "{\"cls\":\"array_type\"}"
  | EArrayShape -> "{\"cls\":\"array_shape\"}" | EArrayRagged -> "{\"cls\":\"array_ragged\"}"
  | EArrayNoShape -> "{\"cls\":\"array_noshape\"}" | EArrayEmpty -> "{\"cls\":\"array_empty\"}"
  | EPNameNotArray -> "{\"cls\":\"pname_not_array\"}" | EIncludeArity -> "{\"cls\":\"include_arity\"}"
  | EIncludeKw -> "{\"cls\":\"include_kw\"}" | EIncludeMissing -> "{\"cls\":\"include_missing\"}"
  | EMissingParam -> "{\"cls\":\"missing_param\"}" | ENotTemplate -> "{\"cls\":\"not_template\"}"
  | ESyntax -> "{\"cls\":\"syntax\"}" | EFileNotFound -> "{\"cls\":\"file_not_found\"}" | EOther -> "{\"cls\":\"other\"}"

let outcome_js f = function
  | Ok a -> "{\"out\":\"ok\",\"v\":" ^ f a ^ "}"
  | Refuse e -> "{\"out\":\"refuse\",\"err\":" ^ err_js e ^ "}"
  | Unspec -> "{\"out\":\"unspec\"}"

(* file system argument: path1;text1;path2;text2 ... as fields *)
let rec fs_of = function
  | p :: t :: rest -> (cps p, cps t) :: fs_of rest
  | _ -> []

let handle line =
  match String.split_on_char '\t' line with
  | ["LEX"; s] ->
      let w = cps s in
      let n = List.length w in
      (match bb_lex w (nat_of_int (8 * n + 64)) (nat_of_int 64) with
       | None -> "NONE"
       | Some ts ->
           "OK " ^ String.concat " " (List.map (fun t ->
             Printf.sprintf "%d:%d:%d:%d:%d" (int_of_nat t.tkind) (int_of_nat t.tstart) (int_of_nat t.tstop)
               (int_of_nat t.tline) (int_of_nat t.tcol)) ts))
  | ["RECOG"; ks] ->
      let w = List.map nat_of_int (ints ks) in
      let n = List.length w in
      (match bb_recognise w (nat_of_int ((n + 2) * (n + 2))) (nat_of_int (64 * (n + 2))) with
       | None -> "NONE" | Some true -> "T" | Some false -> "F")
  | ["VIABLE"; ks] ->
      let w = List.map nat_of_int (ints ks) in
      let n = List.length w in
      (match bb_viable w (nat_of_int ((n + 2) * (n + 2))) (nat_of_int (64 * (n + 2))) with
       | None -> "NONE" | Some true -> "T" | Some false -> "F")
  | ["PARSE"; s] ->
      let w = cps s in
      let n = List.length w in
      (match bb_parse w (nat_of_int (8 * n + 64)) (nat_of_int 64) with
       | None -> "NONE" | Some None -> "FAIL" | Some (Some _) -> "OK")
  | "LOADS" :: cwd :: text :: fs -> outcome_js prog_js (bb_loads (fs_of fs) (cps cwd) (cps text))
  | "LOAD" :: cwd :: path :: fs -> outcome_js prog_js (bb_load (fs_of fs) (cps cwd) (cps path))
  | "INSTANTIATE" :: cwd :: text :: sg ->
      (* sg: name, mantissa, exponent triples; integers in decimal with optional '-' *)
      let z_of_string s =
        let neg = String.length s > 0 && s.[0] = '-' in
        let body = if neg then String.sub s 1 (String.length s - 1) else s in
        (* decimal string -> Z by Horner with the model's own arithmetic *)
        let ten = Zpos (XO (XI (XO XH))) in
        let acc = ref Z0 in
        String.iter (fun ch -> let d = Char.code ch - 48 in
                      acc := Z.add (Z.mul !acc ten) (if d = 0 then Z0 else Zpos (pos_of_int d))) body;
        if neg then Z.opp !acc else !acc in
      let rec triples = function
        | n :: m :: e :: rest -> (cps n, (z_of_string m, z_of_string e)) :: triples rest
        | _ -> [] in
      outcome_js prog_js (bb_instantiate [] (cps cwd) (cps text) (triples sg))
  | ["SERSKEL"; cwd; text] ->
      (match bb_ser_skel (cps cwd) (cps text) with
       | None -> "null"
       | Some l -> "[" ^ String.concat "," (List.map json_str l) ^ "]")
  | ["SERTEXT"; cwd; text] ->
      (match bb_ser_text (cps cwd) (cps text) with
       | None -> "null"
       | Some t -> json_str t)
  | ["TEXTSKEL"; text] ->
      (match bb_text_skel (cps text) with
       | None -> "null"
       | Some l -> "[" ^ String.concat "," (List.map json_str l) ^ "]")
  | ["DIGRAPH"; ws] ->
      (* operations separated by ';', each a comma separated wire list *)
      let ops = if ws = "" then [] else List.map (fun o -> List.map nat_of_int (ints o)) (String.split_on_char ';' ws) in
      let es = edges ops and ns = nodes ops in
      "N " ^ String.concat "," (List.map (fun n -> string_of_int (int_of_nat n)) ns) ^ " E " ^
      String.concat "," (List.map (fun (a, b) -> Printf.sprintf "%d>%d" (int_of_nat a) (int_of_nat b)) es)
  | _ -> "ERR bad request"

let () =
  try
    while true do
      let line = input_line stdin in
      print_string (handle line); print_newline ()
    done
  with End_of_file -> ()
