(* Line-oriented driver around the extracted model (Bbmodel).  Hand-written, part of the trusted base.
   Request:  CMD <tab> arg ...   where an arg is a comma-separated list of decimal integers.
   Reply: one line. *)
open Bbmodel

let rec nat_of_int n = if n <= 0 then O else S (nat_of_int (n - 1))
let rec int_of_nat = function O -> 0 | S n -> 1 + int_of_nat n
let rec pos_of_int n = if n = 1 then XH else if n land 1 = 0 then XO (pos_of_int (n lsr 1)) else XI (pos_of_int (n lsr 1))
let n_of_int n = if n = 0 then N0 else Npos (pos_of_int n)
let rec int_of_pos = function XH -> 1 | XO p -> 2 * int_of_pos p | XI p -> 2 * int_of_pos p + 1
let int_of_n = function N0 -> 0 | Npos p -> int_of_pos p

let ints s = if s = "" then [] else List.map int_of_string (String.split_on_char ',' s)

let handle line =
  match String.split_on_char '\t' line with
  | ["LEX"; cps] ->
      let w = List.map n_of_int (ints cps) in
      let n = List.length w in
      (match bb_lex w (nat_of_int (8 * n + 64)) (nat_of_int 64) with
       | None -> "NONE"
       | Some ts ->
           "OK " ^ String.concat " " (List.map (fun t ->
             Printf.sprintf "%d:%d:%d:%d:%d" (int_of_nat t.tkind) (int_of_nat t.tstart) (int_of_nat t.tstop)
               (int_of_nat t.tline) (int_of_nat t.tcol)) ts))
  | ["RECOG"; ks] ->
      let w = List.map nat_of_int (ints ks) in
      let n = List.length w in
      (match bb_recognise w (nat_of_int ((n + 2) * (n + 2))) (nat_of_int (64 * (n + 2))) with
       | None -> "NONE" | Some true -> "T" | Some false -> "F")
  | ["PARSE"; cps] ->
      let w = List.map n_of_int (ints cps) in
      let n = List.length w in
      (match bb_parse w (nat_of_int (8 * n + 64)) (nat_of_int 64) with
       | None -> "NONE" | Some None -> "FAIL" | Some (Some _) -> "OK")
  | _ -> "ERR bad request"

let () =
  try
    while true do
      let line = input_line stdin in
      print_string (handle line); print_newline ()
    done
  with End_of_file -> ()
